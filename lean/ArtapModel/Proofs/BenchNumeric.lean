import ArtapModel.Proofs.Bench
import Mathlib.Analysis.Real.Pi.Bounds
import Mathlib.Analysis.SpecialFunctions.Trigonometric.Bounds
import Mathlib.Analysis.Complex.Trigonometric
/-!
# Numeric clauses of C15 proved with explicit rational enclosures

## GramacyLee  `f(x) = sin(10πx)/(2x) + (x−1)⁴` on `[0.5, 2.5]`

Periodicity: `sin(10πx) = −cos v` with `v = π(11/2 − 10x)` (`sin_ten_pi_mul`).

* value clause (`gramacyLee_documented`): at the documented `x₀ = 0.548563444114526`, `v = π·0.01436555885474 ∈
  [0.0451, 0.0452]` (π to four decimals), `cos v ∈ [0.99897, 0.99899]` from `Real.cos_bound`
  (`|cos v − (1 − v²/2)| ≤ 5v⁴/96`), which puts `f(x₀)` within `2·10⁻⁵` of the documented optimum.
* bound clause (`gramacyLee_ge`), with `c = documented optimum − 10⁻³ = −0.8700111349895`, after multiplying by `2x > 0`:

| region            | bound on the sine                                             | what remains                                        |
|-------------------|---------------------------------------------------------------|-----------------------------------------------------|
| `0.5 ≤ x ≤ 0.52`  | `sin u ≤ u ≤ 3.1416(10x − 5)`, `u = π(10x − 5) ≥ 0`            | linear in `x` with `(1−x)⁴ ≥ 0.48⁴`                 |
| `0.52 ≤ x ≤ 0.55` | `cos v ≤ 1 − v²/2 + 5v⁴/96`, `v = 10πz ≤ 0.95`, `z = 0.55 − x` | `(0.45+z)⁴ ≥ 0.45⁴ + 4·0.45³z`, `z⁴ ≤ 9·10⁻⁴z²`: a quadratic in `z` with negative discriminant (margin 1.09·10⁻³) |
| `0.55 ≤ x`        | `sin ≥ −1`                                                    | `(1−x)⁴ ≥ 0.446⁴` / `0.425⁴` / `0` on `[0.55,0.554]`, `[0.554,0.575]`, `[0.575,∞)` |

## Synthetic2D, Synthetic1D (maximised): nothing above the documented maximum + 10⁻³, for **all** real points

Verified interval arithmetic on a bisection tree (second half of this file): 63 rectangles for the five 2-D
Gaussians (smallest 1/64 × 1/64 next to the peak (3,4), where the wide Gaussian centred at (3,1) still grows
while the peak term falls), 68 intervals for the fifteen 1-D Gaussians (smallest 1/512 next to x = 11; the true
supremum 3.23034 at x ≈ 10.99703 leaves 6.6·10⁻⁴).

## Synthetic5D, Synthetic10D (maximised): the same bound for every point with 5 / 10 coordinates

No cells: the ten centres are pairwise so far apart (`tₐ + t_b ≥ 10`, `≥ 14` with the highest peak, for the scaled
squared distances `t = |x − z|²/w`) that at most one Gaussian is not negligible (last part of this file).

## Michalewicz (n = 2), Schwefel: the value clause (`michalewicz_documented`, `schwefel_documented`)
-/
namespace Artap.Bench

theorem gramacyLee_at (x : ℝ) :
    gramacyLee x = Real.sin (10 * Real.pi * x) / (2 * x) + (x - 1) ^ 4 := by
  unfold gramacyLee
  simp only [real_add, real_sub, real_mul, real_div, real_pow, real_sin, real_pi, nat_real, Real.rpow_natCast]
  push_cast
  rfl

/-- reduction by periodicity: `10πx = 11π/2 − v` with `v = π(11/2 − 10x)`, and `sin(11π/2 − v) = −cos v` -/
theorem sin_ten_pi_mul (x : ℝ) : Real.sin (10 * Real.pi * x) = -Real.cos (Real.pi * (11 / 2 - 10 * x)) := by
  have e : Real.pi * (11 / 2 - 10 * x) = (Real.pi / 2 - 10 * Real.pi * x) + (5 : ℕ) * Real.pi := by
    push_cast; ring
  rw [e, Real.cos_add_nat_mul_pi, Real.cos_pi_div_two_sub]
  norm_num

theorem gramacyLee_documented :
    |gramacyLee (548563444114526 / 1000000000000000 : ℝ) - (-(869011134989500 / 1000000000000000))| ≤ 1 / 1000 := by
  rw [gramacyLee_at, sin_ten_pi_mul]
  have hd : (11 / 2 - 10 * (548563444114526 / 1000000000000000) : ℝ) = 718277942737 / 50000000000000 := by
    norm_num
  rw [hd]
  set v : ℝ := Real.pi * (718277942737 / 50000000000000) with hv
  have hπ1 : (3.1415 : ℝ) < Real.pi := Real.pi_gt_d4
  have hπ2 : Real.pi < (3.1416 : ℝ) := Real.pi_lt_d4
  have hv0 : 0 ≤ v := by rw [hv]; positivity
  have hv1 : (451 / 10000 : ℝ) ≤ v := by rw [hv]; nlinarith
  have hv2 : v ≤ (452 / 10000 : ℝ) := by rw [hv]; nlinarith
  have hcb := Real.cos_bound (x := v) (by rw [abs_of_nonneg hv0]; linarith)
  rw [abs_of_nonneg hv0, abs_le] at hcb
  have hv2sq : v ^ 2 ≤ (452 / 10000 : ℝ) ^ 2 := pow_le_pow_left₀ hv0 hv2 2
  have hv1sq : (451 / 10000 : ℝ) ^ 2 ≤ v ^ 2 := pow_le_pow_left₀ (by norm_num) hv1 2
  have hv4 : v ^ 4 ≤ (452 / 10000 : ℝ) ^ 4 := pow_le_pow_left₀ hv0 hv2 4
  have hclo : (99897 / 100000 : ℝ) ≤ Real.cos v := by
    norm_num at hv2sq hv4 ⊢; linarith [hcb.1]
  have hchi : Real.cos v ≤ (99899 / 100000 : ℝ) := by
    norm_num at hv1sq hv4 ⊢; linarith [hcb.2]
  rw [abs_le]
  constructor
  · have : -Real.cos v / (2 * (548563444114526 / 1000000000000000)) =
        -Real.cos v * (1000000000000000 / (2 * 548563444114526)) := by ring
    rw [this]; norm_num; linarith
  · have : -Real.cos v / (2 * (548563444114526 / 1000000000000000)) =
        -Real.cos v * (1000000000000000 / (2 * 548563444114526)) := by ring
    rw [this]; norm_num; linarith

/-- `c ≤ s/(2x) + q` from the cleared form, `x > 0` -/
theorem gl_clear (x s q c : ℝ) (hx : 0 < x) (h : 2 * x * c ≤ s + 2 * x * q) : c ≤ s / (2 * x) + q := by
  have e : s / (2 * x) + q = (s + 2 * x * q) / (2 * x) := by field_simp
  rw [e, le_div_iff₀ (by positivity)]
  linarith

/-- `x ≥ 0.55`: `sin ≥ −1` is enough -/
theorem gl_right (x s : ℝ) (hx : 11 / 20 ≤ x) (hs : -1 ≤ s) :
    -(870011134989500 / 1000000000000000 : ℝ) ≤ s / (2 * x) + (x - 1) ^ 4 := by
  apply gl_clear x s _ _ (by linarith)
  rcases le_total (575 / 1000) x with h | h
  · have : 0 ≤ (x - 1) ^ 4 := by positivity
    nlinarith
  have e4 : (x - 1) ^ 4 = (1 - x) ^ 4 := by ring
  rw [e4]
  rcases le_total (554 / 1000) x with h' | h'
  · have h4 : (425 / 1000 : ℝ) ^ 4 ≤ (1 - x) ^ 4 := pow_le_pow_left₀ (by norm_num) (by linarith) 4
    norm_num at h4
    nlinarith
  · have h4 : (446 / 1000 : ℝ) ^ 4 ≤ (1 - x) ^ 4 := pow_le_pow_left₀ (by norm_num) (by linarith) 4
    norm_num at h4
    nlinarith

/-- `0.5 ≤ x ≤ 0.52`: `sin u ≤ u` with `u = π(10x − 5)` -/
theorem gl_left1 (x : ℝ) (h1 : 1 / 2 ≤ x) (h2 : x ≤ 13 / 25) :
    -(870011134989500 / 1000000000000000 : ℝ) ≤ Real.sin (10 * Real.pi * x) / (2 * x) + (x - 1) ^ 4 := by
  apply gl_clear x _ _ _ (by linarith)
  have hπ2 : Real.pi < (3.1416 : ℝ) := Real.pi_lt_d4
  have hπ0 := Real.pi_pos
  have e : Real.pi * (11 / 2 - 10 * x) = Real.pi / 2 - Real.pi * (10 * x - 5) := by ring
  rw [sin_ten_pi_mul, e, Real.cos_pi_div_two_sub]
  have hu0 : 0 ≤ Real.pi * (10 * x - 5) := mul_nonneg hπ0.le (by linarith)
  have hsin := Real.sin_le hu0
  have hu : Real.pi * (10 * x - 5) ≤ 3.1416 * (10 * x - 5) :=
    mul_le_mul_of_nonneg_right hπ2.le (by linarith)
  have e4 : (x - 1) ^ 4 = (1 - x) ^ 4 := by ring
  have h4 : (12 / 25 : ℝ) ^ 4 ≤ (1 - x) ^ 4 := pow_le_pow_left₀ (by norm_num) (by linarith) 4
  rw [e4]
  norm_num at h4 hu
  nlinarith

/-- `0.52 ≤ x ≤ 0.55`: `cos v ≤ 1 − v²/2 + 5v⁴/96` with `v = π(5.5 − 10x) ∈ [0, 0.95]` -/
theorem gl_left2 (x : ℝ) (h1 : 13 / 25 ≤ x) (h2 : x ≤ 11 / 20) :
    -(870011134989500 / 1000000000000000 : ℝ) ≤ Real.sin (10 * Real.pi * x) / (2 * x) + (x - 1) ^ 4 := by
  apply gl_clear x _ _ _ (by linarith)
  have hπ1 : (3.1415 : ℝ) < Real.pi := Real.pi_gt_d4
  have hπ2 : Real.pi < (3.1416 : ℝ) := Real.pi_lt_d4
  rw [sin_ten_pi_mul]
  obtain ⟨z, hz⟩ : ∃ z : ℝ, z = 11 / 20 - x := ⟨_, rfl⟩
  have hz0 : 0 ≤ z := by linarith
  have hz1 : z ≤ 3 / 100 := by linarith
  have hx : x = 11 / 20 - z := by linarith
  subst hx
  have ev : Real.pi * (11 / 2 - 10 * (11 / 20 - z)) = Real.pi * (10 * z) := by ring
  rw [ev]
  set v : ℝ := Real.pi * (10 * z) with hv
  have hv0 : 0 ≤ v := by rw [hv]; positivity
  have hvlo : 3.1415 * (10 * z) ≤ v := mul_le_mul_of_nonneg_right hπ1.le (by linarith)
  have hvhi : v ≤ 3.1416 * (10 * z) := mul_le_mul_of_nonneg_right hπ2.le (by linarith)
  have hv1 : v ≤ 1 := by nlinarith
  have hcb := Real.cos_bound (x := v) (by rw [abs_of_nonneg hv0]; exact hv1)
  rw [abs_of_nonneg hv0, abs_le] at hcb
  have hsq : (3.1415 * (10 * z)) ^ 2 ≤ v ^ 2 := pow_le_pow_left₀ (by positivity) hvlo 2
  have h4 : v ^ 4 ≤ (3.1416 * (10 * z)) ^ 4 := pow_le_pow_left₀ hv0 hvhi 4
  have hz4 : z ^ 4 ≤ (9 / 10000) * z ^ 2 := by
    have : z ^ 2 ≤ (3 / 100) ^ 2 := pow_le_pow_left₀ hz0 hz1 2
    nlinarith [sq_nonneg z]
  have e4 : (11 / 20 - z - 1) ^ 4 = (9 / 20 + z) ^ 4 := by ring
  have hq : (9 / 20 : ℝ) ^ 4 + 4 * (9 / 20) ^ 3 * z ≤ (9 / 20 + z) ^ 4 := by
    nlinarith [sq_nonneg z, mul_nonneg hz0 (sq_nonneg z), sq_nonneg (z ^ 2), mul_nonneg hz0 hz0]
  rw [e4]
  have hcos : Real.cos v ≤ 1 - 493 * z ^ 2 + 50740 * z ^ 4 := by
    have e1 : (3.1415 * (10 * z) : ℝ) ^ 2 = 3.1415 ^ 2 * 100 * z ^ 2 := by ring
    have e2 : (3.1416 * (10 * z) : ℝ) ^ 4 = 3.1416 ^ 4 * 10000 * z ^ 4 := by ring
    rw [e1] at hsq; rw [e2] at h4
    have hz2 : 0 ≤ z ^ 2 := sq_nonneg z
    have hz4' : 0 ≤ z ^ 4 := by positivity
    norm_num at hsq h4
    nlinarith [hcb.2]
  nlinarith [sq_nonneg (z - 16 / 10000), sq_nonneg z]


/-- **bound clause of GramacyLee**: on the box (indeed for every `x ≥ 1/2`) nothing is below the documented
optimum by more than the documented precision 10⁻³ -/
theorem gramacyLee_ge (x : ℝ) (h1 : 1 / 2 ≤ x) :
    -(869011134989500 / 1000000000000000 : ℝ) - 1 / 1000 ≤ gramacyLee x := by
  have e : -(869011134989500 / 1000000000000000 : ℝ) - 1 / 1000 = -(870011134989500 / 1000000000000000) := by
    norm_num
  rw [e, gramacyLee_at]
  rcases le_total x (13 / 25) with h | h
  · exact gl_left1 x h1 h
  rcases le_total x (11 / 20) with h' | h'
  · exact gl_left2 x h h'
  · exact gl_right x _ h' (Real.neg_one_le_sin _)


/-! ## Michalewicz (n = 2) and Schwefel: the value clause

`sin` of a non-small argument is reduced to `cos` of a small one (`sin x = cos(x − π/2)`, `sin x = cos(π/2 − x)`,
period `2π`), `cos a = 1 − 2 sin²(a/2)` where `Real.cos_bound` is too coarse, then `Real.sin_bound` / `Real.cos_bound`;
π to six decimals for Michalewicz, to twenty for Schwefel (`13π/2` is subtracted from `√420.9687 = 20.51752178…`). -/

theorem michalewicz_at2 (x y : ℝ) : michalewicz [x, y] =
    -(Real.sin x * Real.sin (x * x / Real.pi) ^ 20 + Real.sin y * Real.sin (2 * y * y / Real.pi) ^ 20) := by
  unfold michalewicz sumFrom
  simp only [List.zipIdx_cons, List.zipIdx_nil, List.foldl_cons, List.foldl_nil, real_add, real_mul, real_div, real_neg,
    real_sin, real_pow, real_pi, nat_real, Real.rpow_natCast]
  push_cast
  ring_nf

/-- `cos a = 1 − 2 sin²(a/2)` -/
theorem cos_eq_half (a : ℝ) : Real.cos a = 1 - 2 * Real.sin (a / 2) ^ 2 := by
  have h1 := Real.cos_two_mul (a / 2)
  have h2 := Real.sin_sq_add_cos_sq (a / 2)
  have e : 2 * (a / 2) = a := by ring
  rw [e] at h1
  linarith

/-- `sin 2.2 ∈ [0.808481, 0.808570]` (`= cos(2.2 − π/2) = 1 − 2 sin²(h)`, `h = 1.1 − π/4 ≈ 0.3146`, `Real.sin_bound`) -/
theorem sin_22_bounds : (808481 / 1000000 : ℝ) ≤ Real.sin (220 / 100) ∧ Real.sin (220 / 100) ≤ 808570 / 1000000 := by
  have hπ1 : (3.141592 : ℝ) < Real.pi := Real.pi_gt_d6
  have hπ2 : Real.pi < (3.141593 : ℝ) := Real.pi_lt_d6
  rw [← Real.cos_sub_pi_div_two, cos_eq_half]
  set h : ℝ := (220 / 100 - Real.pi / 2) / 2 with hh
  have h1 : (31460175 / 100000000 : ℝ) ≤ h := by rw [hh]; linarith
  have h2 : h ≤ (314602 / 1000000 : ℝ) := by rw [hh]; linarith
  have h0 : 0 ≤ h := by linarith
  have hb := Real.sin_bound (x := h) (by rw [abs_of_nonneg h0]; linarith)
  rw [abs_of_nonneg h0, abs_le] at hb
  have c3lo : (31460175 / 100000000 : ℝ) ^ 3 ≤ h ^ 3 := pow_le_pow_left₀ (by norm_num) h1 3
  have c3hi : h ^ 3 ≤ (314602 / 1000000 : ℝ) ^ 3 := pow_le_pow_left₀ h0 h2 3
  have c5hi : h ^ 5 ≤ (314602 / 1000000 : ℝ) ^ 5 := pow_le_pow_left₀ h0 h2 5
  have slo : (30938 / 100000 : ℝ) ≤ Real.sin h := by
    norm_num at c3hi c5hi ⊢; linarith [hb.1]
  have shi : Real.sin h ≤ (30945 / 100000 : ℝ) := by
    norm_num at c3lo c5hi ⊢; linarith [hb.2]
  have q1 : (30938 / 100000 : ℝ) ^ 2 ≤ Real.sin h ^ 2 := pow_le_pow_left₀ (by norm_num) slo 2
  have q2 : Real.sin h ^ 2 ≤ (30945 / 100000 : ℝ) ^ 2 := pow_le_pow_left₀ (by linarith) shi 2
  norm_num at q1 q2 ⊢
  constructor <;> linarith

/-- `cos v` for a small `v ∈ [lo, hi] ⊂ [0, 1]`: `1 − hi²/2 ≤ cos v ≤ 1 − lo²/2 + 5hi⁴/96` -/
theorem cos_small_bounds (v lo hi : ℝ) (h0 : 0 ≤ lo) (h1 : lo ≤ v) (h2 : v ≤ hi) (h3 : hi ≤ 1) :
    1 - hi ^ 2 / 2 ≤ Real.cos v ∧ Real.cos v ≤ 1 - lo ^ 2 / 2 + hi ^ 4 * (5 / 96) := by
  have hv0 : 0 ≤ v := le_trans h0 h1
  have hb := Real.cos_bound (x := v) (by rw [abs_of_nonneg hv0]; linarith)
  rw [abs_of_nonneg hv0, abs_le] at hb
  have a1 : lo ^ 2 ≤ v ^ 2 := pow_le_pow_left₀ h0 h1 2
  have a2 : v ^ 2 ≤ hi ^ 2 := pow_le_pow_left₀ hv0 h2 2
  have a4 : v ^ 4 ≤ hi ^ 4 := pow_le_pow_left₀ hv0 h2 4
  have := Real.one_sub_sq_div_two_le_cos (x := v)
  constructor
  · linarith
  · linarith [hb.2]

/-- `1/π` to seven digits -/
theorem inv_pi_bounds : (3183098 / 10000000 : ℝ) ≤ 1 / Real.pi ∧ 1 / Real.pi ≤ 3183100 / 10000000 := by
  have hπ1 : (3.141592 : ℝ) < Real.pi := Real.pi_gt_d6
  have hπ2 : Real.pi < (3.141593 : ℝ) := Real.pi_lt_d6
  have hp := Real.pi_pos
  constructor
  · rw [le_div_iff₀ hp]; linarith
  · rw [div_le_iff₀ hp]; linarith

theorem michalewicz_documented :
    |michalewicz [(220 / 100 : ℝ), 157 / 100] - (-(18013 / 10000))| ≤ 1 / 1000 := by
  rw [michalewicz_at2]
  have hπ1 : (3.141592 : ℝ) < Real.pi := Real.pi_gt_d6
  have hπ2 : Real.pi < (3.141593 : ℝ) := Real.pi_lt_d6
  obtain ⟨i1, i2⟩ := inv_pi_bounds
  obtain ⟨A1, A2⟩ := sin_22_bounds
  -- B = sin(4.84/π) = cos(π/2 − 4.84/π)
  have eB : Real.sin ((220 / 100 : ℝ) * (220 / 100) / Real.pi) = Real.cos (Real.pi / 2 - 484 / 100 * (1 / Real.pi)) := by
    rw [Real.cos_pi_div_two_sub]; congr 1; ring
  obtain ⟨B1, B2⟩ := cos_small_bounds (Real.pi / 2 - 484 / 100 * (1 / Real.pi)) (301756 / 10000000) (301771 / 10000000)
    (by norm_num) (by linarith) (by linarith) (by norm_num)
  have eC : Real.sin (157 / 100 : ℝ) = Real.cos (Real.pi / 2 - 157 / 100) := by
    rw [Real.cos_pi_div_two_sub]
  obtain ⟨C1, _⟩ := cos_small_bounds (Real.pi / 2 - 157 / 100) (796 / 1000000) (797 / 1000000)
    (by norm_num) (by linarith) (by linarith) (by norm_num)
  have C2 := Real.cos_le_one (Real.pi / 2 - 157 / 100)
  have eD : Real.sin (2 * (157 / 100 : ℝ) * (157 / 100) / Real.pi) = Real.cos (Real.pi / 2 - 49298 / 10000 * (1 / Real.pi)) := by
    rw [Real.cos_pi_div_two_sub]; congr 1; ring
  obtain ⟨D1, _⟩ := cos_small_bounds (Real.pi / 2 - 49298 / 10000 * (1 / Real.pi)) (159 / 100000) (16 / 10000)
    (by norm_num) (by linarith) (by linarith) (by norm_num)
  have D2 := Real.cos_le_one (Real.pi / 2 - 49298 / 10000 * (1 / Real.pi))
  rw [eB, eC, eD]
  set A := Real.sin (220 / 100 : ℝ)
  set B := Real.cos (Real.pi / 2 - 484 / 100 * (1 / Real.pi))
  set C := Real.cos (Real.pi / 2 - 157 / 100)
  set D := Real.cos (Real.pi / 2 - 49298 / 10000 * (1 / Real.pi))
  have B1' : (9995446 / 10000000 : ℝ) ≤ B := by norm_num at B1 ⊢; linarith
  have B2' : B ≤ (9995448 / 10000000 : ℝ) := by norm_num at B2 ⊢; linarith
  have D1' : (99999872 / 100000000 : ℝ) ≤ D := by norm_num at D1 ⊢; linarith
  have C1' : (9999996 / 10000000 : ℝ) ≤ C := by norm_num at C1 ⊢; linarith
  have P1 : (99093 / 100000 : ℝ) ≤ B ^ 20 :=
    le_trans (by norm_num) (pow_le_pow_left₀ (by norm_num) B1' 20)
  have P2 : B ^ 20 ≤ (990936 / 1000000 : ℝ) :=
    le_trans (pow_le_pow_left₀ (by linarith) B2' 20) (by norm_num)
  have Q1 : (99997 / 100000 : ℝ) ≤ D ^ 20 :=
    le_trans (by norm_num) (pow_le_pow_left₀ (by norm_num) D1' 20)
  have Q2 : D ^ 20 ≤ 1 := pow_le_one₀ (by linarith) D2
  have T1lo : (808481 / 1000000 : ℝ) * (99093 / 100000) ≤ A * B ^ 20 :=
    mul_le_mul A1 P1 (by norm_num) (by linarith)
  have T1hi : A * B ^ 20 ≤ (808570 / 1000000 : ℝ) * (990936 / 1000000) :=
    mul_le_mul A2 P2 (by linarith) (by norm_num)
  have T2lo : (9999996 / 10000000 : ℝ) * (99997 / 100000) ≤ C * D ^ 20 :=
    mul_le_mul C1' Q1 (by norm_num) (by linarith)
  have T2hi : C * D ^ 20 ≤ 1 * 1 := mul_le_mul C2 Q2 (by linarith) (by norm_num)
  rw [abs_le]
  norm_num at T1lo T1hi T2lo T2hi ⊢
  constructor <;> linarith

/-- every coordinate contributes the same amount -/
theorem schwefel_replicate (n : ℕ) (c : ℝ) :
    schwefel (List.replicate n c) = n * (418982887 / 1000000 - c * Real.sin (√|c|)) := by
  unfold schwefel
  simp only [real_add, real_sub, real_mul, real_sin, real_sqrt, real_abs, nat_real, rat_real]
  have key : ∀ (a : ℝ), (List.replicate n c).foldl (fun acc c => acc - c * Real.sin (√|c|) + ((418982887 / 1000000 : ℚ) : ℝ)) a
      = a + n * (418982887 / 1000000 - c * Real.sin (√|c|)) := by
    induction n with
    | zero => intro a; simp
    | succ k ih =>
      intro a
      rw [List.replicate_succ, List.foldl_cons, ih]
      push_cast
      ring
  rw [key]; simp

/-- `sin √420.9687 = cos δ`, `δ = √420.9687 − 13π/2 ≈ 0.0971695`; enclosure to 2·10⁻⁹ -/
theorem sin_sqrt_schwefel_bounds :
    (995282753405 / 1000000000000 : ℝ) ≤ Real.sin (√(4209687 / 10000)) ∧
      Real.sin (√(4209687 / 10000)) ≤ 995282755430 / 1000000000000 := by
  have hπ1 : (3.14159265358979323846 : ℝ) < Real.pi := Real.pi_gt_d20
  have hπ2 : Real.pi < (3.14159265358979323847 : ℝ) := Real.pi_lt_d20
  have s1 : (2051752178 / 100000000 : ℝ) ≤ √(4209687 / 10000) := by
    have := Real.sqrt_le_sqrt (show (2051752178 / 100000000 : ℝ) ^ 2 ≤ 4209687 / 10000 by norm_num)
    rwa [Real.sqrt_sq (by norm_num)] at this
  have s2 : √(4209687 / 10000) ≤ (2051752179 / 100000000 : ℝ) := by
    have := Real.sqrt_le_sqrt (show (4209687 / 10000 : ℝ) ≤ (2051752179 / 100000000) ^ 2 by norm_num)
    rwa [Real.sqrt_sq (by norm_num)] at this
  set r : ℝ := √(4209687 / 10000) with hr
  have e : Real.sin r = Real.cos (r - 13 * Real.pi / 2) := by
    have e1 : r - 13 * Real.pi / 2 = (r - Real.pi / 2) - (3 : ℕ) * (2 * Real.pi) := by push_cast; ring
    rw [e1, Real.cos_sub_nat_mul_two_pi, Real.cos_sub_pi_div_two]
  rw [e, cos_eq_half]
  set h : ℝ := (r - 13 * Real.pi / 2) / 2 with hh
  have h1 : (48584765833 / 1000000000000 : ℝ) ≤ h := by rw [hh]; norm_num at hπ2 ⊢; linarith
  have h2 : h ≤ (48584770834 / 1000000000000 : ℝ) := by rw [hh]; norm_num at hπ1 ⊢; linarith
  have h0 : 0 ≤ h := by linarith
  have hb := Real.sin_bound (x := h) (by rw [abs_of_nonneg h0]; linarith)
  rw [abs_of_nonneg h0, abs_le] at hb
  have c3lo : (48584765833 / 1000000000000 : ℝ) ^ 3 ≤ h ^ 3 := pow_le_pow_left₀ (by norm_num) h1 3
  have c3hi : h ^ 3 ≤ (48584770834 / 1000000000000 : ℝ) ^ 3 := pow_le_pow_left₀ h0 h2 3
  have c5hi : h ^ 5 ≤ (48584770834 / 1000000000000 : ℝ) ^ 5 := pow_le_pow_left₀ h0 h2 5
  have slo : (48565649229 / 1000000000000 : ℝ) ≤ Real.sin h := by
    norm_num at c3hi c5hi ⊢; linarith [hb.1]
  have shi : Real.sin h ≤ (48565659651 / 1000000000000 : ℝ) := by
    norm_num at c3lo c5hi ⊢; linarith [hb.2]
  have q1 : (48565649229 / 1000000000000 : ℝ) ^ 2 ≤ Real.sin h ^ 2 := pow_le_pow_left₀ (by norm_num) slo 2
  have q2 : Real.sin h ^ 2 ≤ (48565659651 / 1000000000000 : ℝ) ^ 2 := pow_le_pow_left₀ (by linarith) shi 2
  norm_num at q1 q2 ⊢
  constructor <;> linarith

/-- value clause of Schwefel: each coordinate contributes at most 10⁻⁶ in absolute value -/
theorem schwefel_documented (n : ℕ) :
    |schwefel (List.replicate n (4209687 / 10000 : ℝ))| ≤ n / 1000000 := by
  rw [schwefel_replicate, abs_mul, abs_of_nonneg (by positivity : (0 : ℝ) ≤ n)]
  rw [abs_of_nonneg (by norm_num : (0 : ℝ) ≤ 4209687 / 10000)]
  obtain ⟨lo, hi⟩ := sin_sqrt_schwefel_bounds
  have : |(418982887 / 1000000 : ℝ) - 4209687 / 10000 * Real.sin (√(4209687 / 10000))| ≤ 1 / 1000000 := by
    rw [abs_le]; constructor <;> linarith
  calc (n : ℝ) * |(418982887 / 1000000 : ℝ) - 4209687 / 10000 * Real.sin (√(4209687 / 10000))|
      ≤ n * (1 / 1000000) := mul_le_mul_of_nonneg_left this (by positivity)
    _ = n / 1000000 := by ring

/-! ## Verified interval arithmetic for sums of Gaussians (Synthetic1D, Synthetic2D)

The real line / plane is cut into cells by a bisection tree (generated by a script from exact rational
arithmetic, `/root/scratch/numeric/gen1d.py`, `gen2d.py` at the time of writing; nothing of it is trusted: every
number below is re-checked by `norm_num`).  On a cell every squared distance `(x − c)²` is bounded below by the
squared distance `p` of the cell to the centre, so the term is at most `m·exp(−p/w)`; `exp(−t) ≤ U` for a rational
`t ≥ 0` comes from the Taylor partial sum (`Real.sum_le_exp_of_nonneg`): `1 ≤ U · Σ_{i<n} tⁱ/i!`, and terms with
`t ≥ 14` are bounded by `10⁻⁶` once and for all.  A leaf lemma adds the constants up; a node lemma is `le_total`
on the split point. -/
open Finset in
/-- `exp(−t) ≤ U` from a Taylor partial sum: `1 ≤ U · Σ_{i<n} tⁱ/i!` -/
theorem exp_neg_le_of_poly (n : ℕ) (t U : ℝ) (ht : 0 ≤ t) (h : 1 ≤ U * ∑ i ∈ range n, t ^ i / (Nat.factorial i : ℝ)) :
    Real.exp (-t) ≤ U := by
  have hs := Real.sum_le_exp_of_nonneg ht n
  have hpos : 0 < Real.exp t := Real.exp_pos t
  have hs0 : 0 ≤ ∑ i ∈ range n, t ^ i / (Nat.factorial i : ℝ) :=
    Finset.sum_nonneg (fun i _ => by positivity)
  have hU : 0 < U := by
    by_contra hneg
    have := mul_nonpos_of_nonpos_of_nonneg (not_lt.1 hneg) hs0
    linarith
  have h1 : 1 ≤ U * Real.exp t := le_trans h (mul_le_mul_of_nonneg_left hs hU.le)
  rw [Real.exp_neg, inv_le_iff_one_le_mul₀ hpos]
  exact h1

/-- `exp(−t) ≤ 10⁻⁶` for `t ≥ 14` (`exp(−1) ≤ 0.36788`, `0.36788¹⁴ < 8.4·10⁻⁷`) -/
theorem exp_neg_le_tiny (t : ℝ) (h : 14 ≤ t) : Real.exp (-t) ≤ 1 / 1000000 := by
  have h1 : Real.exp (-t) ≤ Real.exp (-(14 : ℕ) : ℝ) := Real.exp_le_exp.2 (by push_cast; linarith)
  have h3 : Real.exp (-1) ≤ 36788 / 100000 :=
    exp_neg_le_of_poly 12 1 _ (by norm_num) (by norm_num [Finset.sum_range_succ, Nat.factorial])
  have h2 : Real.exp (-((14 : ℕ) : ℝ)) = Real.exp (-1) ^ 14 := by
    rw [← Real.exp_nat_mul]; norm_num
  calc Real.exp (-t) ≤ Real.exp (-1) ^ 14 := h2 ▸ h1
    _ ≤ (36788 / 100000) ^ 14 := pow_le_pow_left₀ (Real.exp_nonneg _) h3 14
    _ ≤ 1 / 1000000 := by norm_num

theorem sq_lb_left (a c x : ℝ) (h : a ≤ x) (hc : c ≤ a) : (a - c) ^ 2 ≤ (x - c) ^ 2 :=
  pow_le_pow_left₀ (by linarith) (by linarith) 2
theorem sq_lb_right (b c x : ℝ) (h : x ≤ b) (hc : b ≤ c) : (c - b) ^ 2 ≤ (x - c) ^ 2 := by
  have : (x - c) ^ 2 = (c - x) ^ 2 := by ring
  rw [this]; exact pow_le_pow_left₀ (by linarith) (by linarith) 2

/-- one 2-D Gaussian on a cell: squared distances at least `p`, `q`, and `exp(−(p+q)/w) ≤ U` -/
theorem gauss2_le (m w cx cy x y p q U : ℝ) (hm : 0 ≤ m) (hw : 0 < w) (hp : p ≤ (x - cx) ^ 2) (hq : q ≤ (y - cy) ^ 2)
    (hU : Real.exp (-((p + q) / w)) ≤ U) : m * Real.exp (-((x - cx) ^ 2 + (y - cy) ^ 2) / w) ≤ m * U := by
  apply mul_le_mul_of_nonneg_left _ hm
  refine le_trans (Real.exp_le_exp.2 ?_) hU
  rw [neg_div, neg_le_neg_iff]
  exact div_le_div_of_nonneg_right (by linarith) hw.le
theorem gauss2_le_one (w cx cy x y p q U : ℝ) (hw : 0 < w) (hp : p ≤ (x - cx) ^ 2) (hq : q ≤ (y - cy) ^ 2)
    (hU : Real.exp (-((p + q) / w)) ≤ U) : Real.exp (-((x - cx) ^ 2 + (y - cy) ^ 2) / w) ≤ U := by
  have := gauss2_le 1 w cx cy x y p q U (by norm_num) hw hp hq hU
  simpa using this
/-- far cell: `(p+q)/w ≥ 14` -/
theorem gauss2_far (m w cx cy x y p q : ℝ) (hm : 0 ≤ m) (hw : 0 < w) (hp : p ≤ (x - cx) ^ 2) (hq : q ≤ (y - cy) ^ 2)
    (h : 14 * w ≤ p + q) : m * Real.exp (-((x - cx) ^ 2 + (y - cy) ^ 2) / w) ≤ m * (1 / 1000000) :=
  gauss2_le m w cx cy x y p q _ hm hw hp hq (exp_neg_le_tiny _ (by rw [le_div_iff₀ hw]; exact h))
theorem gauss2_far_one (w cx cy x y p q : ℝ) (hw : 0 < w) (hp : p ≤ (x - cx) ^ 2) (hq : q ≤ (y - cy) ^ 2)
    (h : 14 * w ≤ p + q) : Real.exp (-((x - cx) ^ 2 + (y - cy) ^ 2) / w) ≤ 1 / 1000000 :=
  gauss2_le_one w cx cy x y p q _ hw hp hq (exp_neg_le_tiny _ (by rw [le_div_iff₀ hw]; exact h))

/-- one 1-D Gaussian on a cell -/
theorem gauss1_le (m w c x p U : ℝ) (hm : 0 ≤ m) (hw : 0 < w) (hp : p ≤ (x - c) ^ 2)
    (hU : Real.exp (-(p / w)) ≤ U) : m * Real.exp (-(x - c) ^ 2 / w) ≤ m * U := by
  apply mul_le_mul_of_nonneg_left _ hm
  refine le_trans (Real.exp_le_exp.2 ?_) hU
  rw [neg_div, neg_le_neg_iff]
  exact div_le_div_of_nonneg_right hp hw.le
theorem gauss1_le_one (w c x p U : ℝ) (hw : 0 < w) (hp : p ≤ (x - c) ^ 2)
    (hU : Real.exp (-(p / w)) ≤ U) : Real.exp (-(x - c) ^ 2 / w) ≤ U := by
  have := gauss1_le 1 w c x p U (by norm_num) hw hp hU
  simpa using this
theorem gauss1_far (m w c x p : ℝ) (hm : 0 ≤ m) (hw : 0 < w) (hp : p ≤ (x - c) ^ 2) (h : 14 * w ≤ p) :
    m * Real.exp (-(x - c) ^ 2 / w) ≤ m * (1 / 1000000) :=
  gauss1_le m w c x p _ hm hw hp (exp_neg_le_tiny _ (by rw [le_div_iff₀ hw]; exact h))
theorem gauss1_far_one (w c x p : ℝ) (hw : 0 < w) (hp : p ≤ (x - c) ^ 2) (h : 14 * w ≤ p) :
    Real.exp (-(x - c) ^ 2 / w) ≤ 1 / 1000000 :=
  gauss1_le_one w c x p _ hw hp (exp_neg_le_tiny _ (by rw [le_div_iff₀ hw]; exact h))

set_option linter.unusedVariables false

/-! ### Synthetic2D: the bisection tree -/

theorem syn2_cell1 (x y : ℝ) (hxb : x ≤ (-1)) :
    synthetic2D x y ≤ (121212 / 100000 : ℝ) := by
  rw [synthetic2D_at]
  have t1 := gauss2_far (7/10) (18/100) 1 1 x y _ _ (by norm_num) (by norm_num) (sq_lb_right (-1) 1 x hxb (by norm_num)) (sq_nonneg _) (by norm_num)
  have t2 := gauss2_le (75/100) (32/100) 1 3 x y _ _ _ (by norm_num) (by norm_num) (sq_lb_right (-1) 1 x hxb (by norm_num)) (sq_nonneg _)
    (exp_neg_le_of_poly 14 _ (3/500000) (by norm_num) (by norm_num [Finset.sum_range_succ, Nat.factorial]))
  have t3 := gauss2_le_one 2 3 1 x y _ _ _ (by norm_num) (sq_lb_right (-1) 3 x hxb (by norm_num)) (sq_nonneg _)
    (exp_neg_le_of_poly 16 _ (339/1000000) (by norm_num) (by norm_num [Finset.sum_range_succ, Nat.factorial]))
  have t4 := gauss2_far (12/10) (32/100) 3 4 x y _ _ (by norm_num) (by norm_num) (sq_lb_right (-1) 3 x hxb (by norm_num)) (sq_nonneg _) (by norm_num)
  have t5 := gauss2_far_one (72/100) 5 2 x y _ _ (by norm_num) (sq_lb_right (-1) 5 x hxb (by norm_num)) (sq_nonneg _) (by norm_num)
  linarith

theorem syn2_cell2 (x y : ℝ) (hxa : (-1) ≤ x) (hxb : x ≤ (7)) (hyb : y ≤ (-2)) :
    synthetic2D x y ≤ (121212 / 100000 : ℝ) := by
  rw [synthetic2D_at]
  have t1 := gauss2_far (7/10) (18/100) 1 1 x y _ _ (by norm_num) (by norm_num) (sq_nonneg _) (sq_lb_right (-2) 1 y hyb (by norm_num)) (by norm_num)
  have t2 := gauss2_far (75/100) (32/100) 1 3 x y _ _ (by norm_num) (by norm_num) (sq_nonneg _) (sq_lb_right (-2) 3 y hyb (by norm_num)) (by norm_num)
  have t3 := gauss2_le_one 2 3 1 x y _ _ _ (by norm_num) (sq_nonneg _) (sq_lb_right (-2) 1 y hyb (by norm_num))
    (exp_neg_le_of_poly 12 _ (174/15625) (by norm_num) (by norm_num [Finset.sum_range_succ, Nat.factorial]))
  have t4 := gauss2_far (12/10) (32/100) 3 4 x y _ _ (by norm_num) (by norm_num) (sq_nonneg _) (sq_lb_right (-2) 4 y hyb (by norm_num)) (by norm_num)
  have t5 := gauss2_far_one (72/100) 5 2 x y _ _ (by norm_num) (sq_nonneg _) (sq_lb_right (-2) 2 y hyb (by norm_num)) (by norm_num)
  linarith

theorem syn2_cell3 (x y : ℝ) (hxa : (-1) ≤ x) (hxb : x ≤ (1)) (hya : (-2) ≤ y) (hyb : y ≤ (2)) :
    synthetic2D x y ≤ (121212 / 100000 : ℝ) := by
  rw [synthetic2D_at]
  have t1 := gauss2_le (7/10) (18/100) 1 1 x y _ _ _ (by norm_num) (by norm_num) (sq_lb_right (1) 1 x hxb (by norm_num)) (sq_nonneg _)
    (exp_neg_le_of_poly 1 _ (1) (by norm_num) (by norm_num [Finset.sum_range_succ, Nat.factorial]))
  have t2 := gauss2_le (75/100) (32/100) 1 3 x y _ _ _ (by norm_num) (by norm_num) (sq_lb_right (1) 1 x hxb (by norm_num)) (sq_lb_right (2) 3 y hyb (by norm_num))
    (exp_neg_le_of_poly 10 _ (44003/1000000) (by norm_num) (by norm_num [Finset.sum_range_succ, Nat.factorial]))
  have t3 := gauss2_le_one 2 3 1 x y _ _ _ (by norm_num) (sq_lb_right (1) 3 x hxb (by norm_num)) (sq_nonneg _)
    (exp_neg_le_of_poly 8 _ (33871/250000) (by norm_num) (by norm_num [Finset.sum_range_succ, Nat.factorial]))
  have t4 := gauss2_far (12/10) (32/100) 3 4 x y _ _ (by norm_num) (by norm_num) (sq_lb_right (1) 3 x hxb (by norm_num)) (sq_lb_right (2) 4 y hyb (by norm_num)) (by norm_num)
  have t5 := gauss2_far_one (72/100) 5 2 x y _ _ (by norm_num) (sq_lb_right (1) 5 x hxb (by norm_num)) (sq_lb_right (2) 2 y hyb (by norm_num)) (by norm_num)
  linarith

theorem syn2_cell4 (x y : ℝ) (hxa : (1) ≤ x) (hxb : x ≤ (3)) (hya : (-2) ≤ y) (hyb : y ≤ (0)) :
    synthetic2D x y ≤ (121212 / 100000 : ℝ) := by
  rw [synthetic2D_at]
  have t1 := gauss2_le (7/10) (18/100) 1 1 x y _ _ _ (by norm_num) (by norm_num) (sq_lb_left (1) 1 x hxa (by norm_num)) (sq_lb_right (0) 1 y hyb (by norm_num))
    (exp_neg_le_of_poly 14 _ (1937/500000) (by norm_num) (by norm_num [Finset.sum_range_succ, Nat.factorial]))
  have t2 := gauss2_far (75/100) (32/100) 1 3 x y _ _ (by norm_num) (by norm_num) (sq_lb_left (1) 1 x hxa (by norm_num)) (sq_lb_right (0) 3 y hyb (by norm_num)) (by norm_num)
  have t3 := gauss2_le_one 2 3 1 x y _ _ _ (by norm_num) (sq_lb_right (3) 3 x hxb (by norm_num)) (sq_lb_right (0) 1 y hyb (by norm_num))
    (exp_neg_le_of_poly 4 _ (121519/200000) (by norm_num) (by norm_num [Finset.sum_range_succ, Nat.factorial]))
  have t4 := gauss2_far (12/10) (32/100) 3 4 x y _ _ (by norm_num) (by norm_num) (sq_lb_right (3) 3 x hxb (by norm_num)) (sq_lb_right (0) 4 y hyb (by norm_num)) (by norm_num)
  have t5 := gauss2_le_one (72/100) 5 2 x y _ _ _ (by norm_num) (sq_lb_right (3) 5 x hxb (by norm_num)) (sq_lb_right (0) 2 y hyb (by norm_num))
    (exp_neg_le_of_poly 16 _ (17/1000000) (by norm_num) (by norm_num [Finset.sum_range_succ, Nat.factorial]))
  linarith

theorem syn2_cell5 (x y : ℝ) (hxa : (1) ≤ x) (hxb : x ≤ (3/2)) (hya : (0) ≤ y) (hyb : y ≤ (1)) :
    synthetic2D x y ≤ (121212 / 100000 : ℝ) := by
  rw [synthetic2D_at]
  have t1 := gauss2_le (7/10) (18/100) 1 1 x y _ _ _ (by norm_num) (by norm_num) (sq_lb_left (1) 1 x hxa (by norm_num)) (sq_lb_right (1) 1 y hyb (by norm_num))
    (exp_neg_le_of_poly 1 _ (1) (by norm_num) (by norm_num [Finset.sum_range_succ, Nat.factorial]))
  have t2 := gauss2_le (75/100) (32/100) 1 3 x y _ _ _ (by norm_num) (by norm_num) (sq_lb_left (1) 1 x hxa (by norm_num)) (sq_lb_right (1) 3 y hyb (by norm_num))
    (exp_neg_le_of_poly 14 _ (3/500000) (by norm_num) (by norm_num [Finset.sum_range_succ, Nat.factorial]))
  have t3 := gauss2_le_one 2 3 1 x y _ _ _ (by norm_num) (sq_lb_right (3/2) 3 x hxb (by norm_num)) (sq_lb_right (1) 1 y hyb (by norm_num))
    (exp_neg_le_of_poly 5 _ (326599/1000000) (by norm_num) (by norm_num [Finset.sum_range_succ, Nat.factorial]))
  have t4 := gauss2_far (12/10) (32/100) 3 4 x y _ _ (by norm_num) (by norm_num) (sq_lb_right (3/2) 3 x hxb (by norm_num)) (sq_lb_right (1) 4 y hyb (by norm_num)) (by norm_num)
  have t5 := gauss2_far_one (72/100) 5 2 x y _ _ (by norm_num) (sq_lb_right (3/2) 5 x hxb (by norm_num)) (sq_lb_right (1) 2 y hyb (by norm_num)) (by norm_num)
  linarith

theorem syn2_cell6 (x y : ℝ) (hxa : (3/2) ≤ x) (hxb : x ≤ (2)) (hya : (0) ≤ y) (hyb : y ≤ (1)) :
    synthetic2D x y ≤ (121212 / 100000 : ℝ) := by
  rw [synthetic2D_at]
  have t1 := gauss2_le (7/10) (18/100) 1 1 x y _ _ _ (by norm_num) (by norm_num) (sq_lb_left (3/2) 1 x hxa (by norm_num)) (sq_lb_right (1) 1 y hyb (by norm_num))
    (exp_neg_le_of_poly 6 _ (250123/1000000) (by norm_num) (by norm_num [Finset.sum_range_succ, Nat.factorial]))
  have t2 := gauss2_le (75/100) (32/100) 1 3 x y _ _ _ (by norm_num) (by norm_num) (sq_lb_left (3/2) 1 x hxa (by norm_num)) (sq_lb_right (1) 3 y hyb (by norm_num))
    (exp_neg_le_of_poly 14 _ (1/250000) (by norm_num) (by norm_num [Finset.sum_range_succ, Nat.factorial]))
  have t3 := gauss2_le_one 2 3 1 x y _ _ _ (by norm_num) (sq_lb_right (2) 3 x hxb (by norm_num)) (sq_lb_right (1) 1 y hyb (by norm_num))
    (exp_neg_le_of_poly 4 _ (121519/200000) (by norm_num) (by norm_num [Finset.sum_range_succ, Nat.factorial]))
  have t4 := gauss2_far (12/10) (32/100) 3 4 x y _ _ (by norm_num) (by norm_num) (sq_lb_right (2) 3 x hxb (by norm_num)) (sq_lb_right (1) 4 y hyb (by norm_num)) (by norm_num)
  have t5 := gauss2_le_one (72/100) 5 2 x y _ _ _ (by norm_num) (sq_lb_right (2) 5 x hxb (by norm_num)) (sq_lb_right (1) 2 y hyb (by norm_num))
    (exp_neg_le_of_poly 14 _ (1/500000) (by norm_num) (by norm_num [Finset.sum_range_succ, Nat.factorial]))
  linarith

theorem syn2_node1 (x y : ℝ) (hxa : (1) ≤ x) (hxb : x ≤ (2)) (hya : (0) ≤ y) (hyb : y ≤ (1)) :
    synthetic2D x y ≤ (121212 / 100000 : ℝ) := by
  rcases le_total x (3/2) with h | h
  · exact syn2_cell5 x y hxa h hya hyb
  · exact syn2_cell6 x y h hxb hya hyb

theorem syn2_cell7 (x y : ℝ) (hxa : (1) ≤ x) (hxb : x ≤ (3/2)) (hya : (1) ≤ y) (hyb : y ≤ (2)) :
    synthetic2D x y ≤ (121212 / 100000 : ℝ) := by
  rw [synthetic2D_at]
  have t1 := gauss2_le (7/10) (18/100) 1 1 x y _ _ _ (by norm_num) (by norm_num) (sq_lb_left (1) 1 x hxa (by norm_num)) (sq_lb_left (1) 1 y hya (by norm_num))
    (exp_neg_le_of_poly 1 _ (1) (by norm_num) (by norm_num [Finset.sum_range_succ, Nat.factorial]))
  have t2 := gauss2_le (75/100) (32/100) 1 3 x y _ _ _ (by norm_num) (by norm_num) (sq_lb_left (1) 1 x hxa (by norm_num)) (sq_lb_right (2) 3 y hyb (by norm_num))
    (exp_neg_le_of_poly 10 _ (44003/1000000) (by norm_num) (by norm_num [Finset.sum_range_succ, Nat.factorial]))
  have t3 := gauss2_le_one 2 3 1 x y _ _ _ (by norm_num) (sq_lb_right (3/2) 3 x hxb (by norm_num)) (sq_lb_left (1) 1 y hya (by norm_num))
    (exp_neg_le_of_poly 5 _ (326599/1000000) (by norm_num) (by norm_num [Finset.sum_range_succ, Nat.factorial]))
  have t4 := gauss2_far (12/10) (32/100) 3 4 x y _ _ (by norm_num) (by norm_num) (sq_lb_right (3/2) 3 x hxb (by norm_num)) (sq_lb_right (2) 4 y hyb (by norm_num)) (by norm_num)
  have t5 := gauss2_far_one (72/100) 5 2 x y _ _ (by norm_num) (sq_lb_right (3/2) 5 x hxb (by norm_num)) (sq_lb_right (2) 2 y hyb (by norm_num)) (by norm_num)
  linarith

theorem syn2_cell8 (x y : ℝ) (hxa : (3/2) ≤ x) (hxb : x ≤ (2)) (hya : (1) ≤ y) (hyb : y ≤ (2)) :
    synthetic2D x y ≤ (121212 / 100000 : ℝ) := by
  rw [synthetic2D_at]
  have t1 := gauss2_le (7/10) (18/100) 1 1 x y _ _ _ (by norm_num) (by norm_num) (sq_lb_left (3/2) 1 x hxa (by norm_num)) (sq_lb_left (1) 1 y hya (by norm_num))
    (exp_neg_le_of_poly 6 _ (250123/1000000) (by norm_num) (by norm_num [Finset.sum_range_succ, Nat.factorial]))
  have t2 := gauss2_le (75/100) (32/100) 1 3 x y _ _ _ (by norm_num) (by norm_num) (sq_lb_left (3/2) 1 x hxa (by norm_num)) (sq_lb_right (2) 3 y hyb (by norm_num))
    (exp_neg_le_of_poly 10 _ (20257/1000000) (by norm_num) (by norm_num [Finset.sum_range_succ, Nat.factorial]))
  have t3 := gauss2_le_one 2 3 1 x y _ _ _ (by norm_num) (sq_lb_right (2) 3 x hxb (by norm_num)) (sq_lb_left (1) 1 y hya (by norm_num))
    (exp_neg_le_of_poly 4 _ (121519/200000) (by norm_num) (by norm_num [Finset.sum_range_succ, Nat.factorial]))
  have t4 := gauss2_far (12/10) (32/100) 3 4 x y _ _ (by norm_num) (by norm_num) (sq_lb_right (2) 3 x hxb (by norm_num)) (sq_lb_right (2) 4 y hyb (by norm_num)) (by norm_num)
  have t5 := gauss2_le_one (72/100) 5 2 x y _ _ _ (by norm_num) (sq_lb_right (2) 5 x hxb (by norm_num)) (sq_lb_right (2) 2 y hyb (by norm_num))
    (exp_neg_le_of_poly 14 _ (3/500000) (by norm_num) (by norm_num [Finset.sum_range_succ, Nat.factorial]))
  linarith

theorem syn2_node2 (x y : ℝ) (hxa : (1) ≤ x) (hxb : x ≤ (2)) (hya : (1) ≤ y) (hyb : y ≤ (2)) :
    synthetic2D x y ≤ (121212 / 100000 : ℝ) := by
  rcases le_total x (3/2) with h | h
  · exact syn2_cell7 x y hxa h hya hyb
  · exact syn2_cell8 x y h hxb hya hyb

theorem syn2_node3 (x y : ℝ) (hxa : (1) ≤ x) (hxb : x ≤ (2)) (hya : (0) ≤ y) (hyb : y ≤ (2)) :
    synthetic2D x y ≤ (121212 / 100000 : ℝ) := by
  rcases le_total y (1) with h | h
  · exact syn2_node1 x y hxa hxb hya h
  · exact syn2_node2 x y hxa hxb h hyb

theorem syn2_cell9 (x y : ℝ) (hxa : (2) ≤ x) (hxb : x ≤ (3)) (hya : (0) ≤ y) (hyb : y ≤ (2)) :
    synthetic2D x y ≤ (121212 / 100000 : ℝ) := by
  rw [synthetic2D_at]
  have t1 := gauss2_le (7/10) (18/100) 1 1 x y _ _ _ (by norm_num) (by norm_num) (sq_lb_left (2) 1 x hxa (by norm_num)) (sq_nonneg _)
    (exp_neg_le_of_poly 14 _ (1937/500000) (by norm_num) (by norm_num [Finset.sum_range_succ, Nat.factorial]))
  have t2 := gauss2_le (75/100) (32/100) 1 3 x y _ _ _ (by norm_num) (by norm_num) (sq_lb_left (2) 1 x hxa (by norm_num)) (sq_lb_right (2) 3 y hyb (by norm_num))
    (exp_neg_le_of_poly 14 _ (1941/1000000) (by norm_num) (by norm_num [Finset.sum_range_succ, Nat.factorial]))
  have t3 := gauss2_le_one 2 3 1 x y _ _ _ (by norm_num) (sq_lb_right (3) 3 x hxb (by norm_num)) (sq_nonneg _)
    (exp_neg_le_of_poly 1 _ (1) (by norm_num) (by norm_num [Finset.sum_range_succ, Nat.factorial]))
  have t4 := gauss2_le (12/10) (32/100) 3 4 x y _ _ _ (by norm_num) (by norm_num) (sq_lb_right (3) 3 x hxb (by norm_num)) (sq_lb_right (2) 4 y hyb (by norm_num))
    (exp_neg_le_of_poly 14 _ (3/500000) (by norm_num) (by norm_num [Finset.sum_range_succ, Nat.factorial]))
  have t5 := gauss2_le_one (72/100) 5 2 x y _ _ _ (by norm_num) (sq_lb_right (3) 5 x hxb (by norm_num)) (sq_lb_right (2) 2 y hyb (by norm_num))
    (exp_neg_le_of_poly 14 _ (1937/500000) (by norm_num) (by norm_num [Finset.sum_range_succ, Nat.factorial]))
  linarith

theorem syn2_node4 (x y : ℝ) (hxa : (1) ≤ x) (hxb : x ≤ (3)) (hya : (0) ≤ y) (hyb : y ≤ (2)) :
    synthetic2D x y ≤ (121212 / 100000 : ℝ) := by
  rcases le_total x (2) with h | h
  · exact syn2_node3 x y hxa h hya hyb
  · exact syn2_cell9 x y h hxb hya hyb

theorem syn2_node5 (x y : ℝ) (hxa : (1) ≤ x) (hxb : x ≤ (3)) (hya : (-2) ≤ y) (hyb : y ≤ (2)) :
    synthetic2D x y ≤ (121212 / 100000 : ℝ) := by
  rcases le_total y (0) with h | h
  · exact syn2_cell4 x y hxa hxb hya h
  · exact syn2_node4 x y hxa hxb h hyb

theorem syn2_node6 (x y : ℝ) (hxa : (-1) ≤ x) (hxb : x ≤ (3)) (hya : (-2) ≤ y) (hyb : y ≤ (2)) :
    synthetic2D x y ≤ (121212 / 100000 : ℝ) := by
  rcases le_total x (1) with h | h
  · exact syn2_cell3 x y hxa h hya hyb
  · exact syn2_node5 x y h hxb hya hyb

theorem syn2_cell10 (x y : ℝ) (hxa : (-1) ≤ x) (hxb : x ≤ (1)) (hya : (2) ≤ y) (hyb : y ≤ (6)) :
    synthetic2D x y ≤ (121212 / 100000 : ℝ) := by
  rw [synthetic2D_at]
  have t1 := gauss2_le (7/10) (18/100) 1 1 x y _ _ _ (by norm_num) (by norm_num) (sq_lb_right (1) 1 x hxb (by norm_num)) (sq_lb_left (2) 1 y hya (by norm_num))
    (exp_neg_le_of_poly 14 _ (1937/500000) (by norm_num) (by norm_num [Finset.sum_range_succ, Nat.factorial]))
  have t2 := gauss2_le (75/100) (32/100) 1 3 x y _ _ _ (by norm_num) (by norm_num) (sq_lb_right (1) 1 x hxb (by norm_num)) (sq_nonneg _)
    (exp_neg_le_of_poly 1 _ (1) (by norm_num) (by norm_num [Finset.sum_range_succ, Nat.factorial]))
  have t3 := gauss2_le_one 2 3 1 x y _ _ _ (by norm_num) (sq_lb_right (1) 3 x hxb (by norm_num)) (sq_lb_left (2) 1 y hya (by norm_num))
    (exp_neg_le_of_poly 8 _ (20609/250000) (by norm_num) (by norm_num [Finset.sum_range_succ, Nat.factorial]))
  have t4 := gauss2_le (12/10) (32/100) 3 4 x y _ _ _ (by norm_num) (by norm_num) (sq_lb_right (1) 3 x hxb (by norm_num)) (sq_nonneg _)
    (exp_neg_le_of_poly 14 _ (3/500000) (by norm_num) (by norm_num [Finset.sum_range_succ, Nat.factorial]))
  have t5 := gauss2_far_one (72/100) 5 2 x y _ _ (by norm_num) (sq_lb_right (1) 5 x hxb (by norm_num)) (sq_lb_left (2) 2 y hya (by norm_num)) (by norm_num)
  linarith

theorem syn2_cell11 (x y : ℝ) (hxa : (1) ≤ x) (hxb : x ≤ (2)) (hya : (2) ≤ y) (hyb : y ≤ (4)) :
    synthetic2D x y ≤ (121212 / 100000 : ℝ) := by
  rw [synthetic2D_at]
  have t1 := gauss2_le (7/10) (18/100) 1 1 x y _ _ _ (by norm_num) (by norm_num) (sq_lb_left (1) 1 x hxa (by norm_num)) (sq_lb_left (2) 1 y hya (by norm_num))
    (exp_neg_le_of_poly 14 _ (1937/500000) (by norm_num) (by norm_num [Finset.sum_range_succ, Nat.factorial]))
  have t2 := gauss2_le (75/100) (32/100) 1 3 x y _ _ _ (by norm_num) (by norm_num) (sq_lb_left (1) 1 x hxa (by norm_num)) (sq_nonneg _)
    (exp_neg_le_of_poly 1 _ (1) (by norm_num) (by norm_num [Finset.sum_range_succ, Nat.factorial]))
  have t3 := gauss2_le_one 2 3 1 x y _ _ _ (by norm_num) (sq_lb_right (2) 3 x hxb (by norm_num)) (sq_lb_left (2) 1 y hya (by norm_num))
    (exp_neg_le_of_poly 5 _ (369231/1000000) (by norm_num) (by norm_num [Finset.sum_range_succ, Nat.factorial]))
  have t4 := gauss2_le (12/10) (32/100) 3 4 x y _ _ _ (by norm_num) (by norm_num) (sq_lb_right (2) 3 x hxb (by norm_num)) (sq_lb_right (4) 4 y hyb (by norm_num))
    (exp_neg_le_of_poly 10 _ (44003/1000000) (by norm_num) (by norm_num [Finset.sum_range_succ, Nat.factorial]))
  have t5 := gauss2_le_one (72/100) 5 2 x y _ _ _ (by norm_num) (sq_lb_right (2) 5 x hxb (by norm_num)) (sq_lb_left (2) 2 y hya (by norm_num))
    (exp_neg_le_of_poly 14 _ (3/500000) (by norm_num) (by norm_num [Finset.sum_range_succ, Nat.factorial]))
  linarith

theorem syn2_cell12 (x y : ℝ) (hxa : (2) ≤ x) (hxb : x ≤ (3)) (hya : (2) ≤ y) (hyb : y ≤ (3)) :
    synthetic2D x y ≤ (121212 / 100000 : ℝ) := by
  rw [synthetic2D_at]
  have t1 := gauss2_le (7/10) (18/100) 1 1 x y _ _ _ (by norm_num) (by norm_num) (sq_lb_left (2) 1 x hxa (by norm_num)) (sq_lb_left (2) 1 y hya (by norm_num))
    (exp_neg_le_of_poly 16 _ (17/1000000) (by norm_num) (by norm_num [Finset.sum_range_succ, Nat.factorial]))
  have t2 := gauss2_le (75/100) (32/100) 1 3 x y _ _ _ (by norm_num) (by norm_num) (sq_lb_left (2) 1 x hxa (by norm_num)) (sq_lb_right (3) 3 y hyb (by norm_num))
    (exp_neg_le_of_poly 10 _ (44003/1000000) (by norm_num) (by norm_num [Finset.sum_range_succ, Nat.factorial]))
  have t3 := gauss2_le_one 2 3 1 x y _ _ _ (by norm_num) (sq_lb_right (3) 3 x hxb (by norm_num)) (sq_lb_left (2) 1 y hya (by norm_num))
    (exp_neg_le_of_poly 4 _ (121519/200000) (by norm_num) (by norm_num [Finset.sum_range_succ, Nat.factorial]))
  have t4 := gauss2_le (12/10) (32/100) 3 4 x y _ _ _ (by norm_num) (by norm_num) (sq_lb_right (3) 3 x hxb (by norm_num)) (sq_lb_right (3) 4 y hyb (by norm_num))
    (exp_neg_le_of_poly 10 _ (44003/1000000) (by norm_num) (by norm_num [Finset.sum_range_succ, Nat.factorial]))
  have t5 := gauss2_le_one (72/100) 5 2 x y _ _ _ (by norm_num) (sq_lb_right (3) 5 x hxb (by norm_num)) (sq_lb_left (2) 2 y hya (by norm_num))
    (exp_neg_le_of_poly 14 _ (1937/500000) (by norm_num) (by norm_num [Finset.sum_range_succ, Nat.factorial]))
  linarith

theorem syn2_cell13 (x y : ℝ) (hxa : (2) ≤ x) (hxb : x ≤ (5/2)) (hya : (3) ≤ y) (hyb : y ≤ (4)) :
    synthetic2D x y ≤ (121212 / 100000 : ℝ) := by
  rw [synthetic2D_at]
  have t1 := gauss2_far (7/10) (18/100) 1 1 x y _ _ (by norm_num) (by norm_num) (sq_lb_left (2) 1 x hxa (by norm_num)) (sq_lb_left (3) 1 y hya (by norm_num)) (by norm_num)
  have t2 := gauss2_le (75/100) (32/100) 1 3 x y _ _ _ (by norm_num) (by norm_num) (sq_lb_left (2) 1 x hxa (by norm_num)) (sq_lb_left (3) 3 y hya (by norm_num))
    (exp_neg_le_of_poly 10 _ (44003/1000000) (by norm_num) (by norm_num [Finset.sum_range_succ, Nat.factorial]))
  have t3 := gauss2_le_one 2 3 1 x y _ _ _ (by norm_num) (sq_lb_right (5/2) 3 x hxb (by norm_num)) (sq_lb_left (3) 1 y hya (by norm_num))
    (exp_neg_le_of_poly 8 _ (957/8000) (by norm_num) (by norm_num [Finset.sum_range_succ, Nat.factorial]))
  have t4 := gauss2_le (12/10) (32/100) 3 4 x y _ _ _ (by norm_num) (by norm_num) (sq_lb_right (5/2) 3 x hxb (by norm_num)) (sq_lb_right (4) 4 y hyb (by norm_num))
    (exp_neg_le_of_poly 4 _ (461703/1000000) (by norm_num) (by norm_num [Finset.sum_range_succ, Nat.factorial]))
  have t5 := gauss2_le_one (72/100) 5 2 x y _ _ _ (by norm_num) (sq_lb_right (5/2) 5 x hxb (by norm_num)) (sq_lb_left (3) 2 y hya (by norm_num))
    (exp_neg_le_of_poly 16 _ (9/200000) (by norm_num) (by norm_num [Finset.sum_range_succ, Nat.factorial]))
  linarith

theorem syn2_cell14 (x y : ℝ) (hxa : (5/2) ≤ x) (hxb : x ≤ (3)) (hya : (3) ≤ y) (hyb : y ≤ (7/2)) :
    synthetic2D x y ≤ (121212 / 100000 : ℝ) := by
  rw [synthetic2D_at]
  have t1 := gauss2_far (7/10) (18/100) 1 1 x y _ _ (by norm_num) (by norm_num) (sq_lb_left (5/2) 1 x hxa (by norm_num)) (sq_lb_left (3) 1 y hya (by norm_num)) (by norm_num)
  have t2 := gauss2_le (75/100) (32/100) 1 3 x y _ _ _ (by norm_num) (by norm_num) (sq_lb_left (5/2) 1 x hxa (by norm_num)) (sq_lb_left (3) 3 y hya (by norm_num))
    (exp_neg_le_of_poly 16 _ (887/1000000) (by norm_num) (by norm_num [Finset.sum_range_succ, Nat.factorial]))
  have t3 := gauss2_le_one 2 3 1 x y _ _ _ (by norm_num) (sq_lb_right (3) 3 x hxb (by norm_num)) (sq_lb_left (3) 1 y hya (by norm_num))
    (exp_neg_le_of_poly 8 _ (33871/250000) (by norm_num) (by norm_num [Finset.sum_range_succ, Nat.factorial]))
  have t4 := gauss2_le (12/10) (32/100) 3 4 x y _ _ _ (by norm_num) (by norm_num) (sq_lb_right (3) 3 x hxb (by norm_num)) (sq_lb_right (7/2) 4 y hyb (by norm_num))
    (exp_neg_le_of_poly 4 _ (461703/1000000) (by norm_num) (by norm_num [Finset.sum_range_succ, Nat.factorial]))
  have t5 := gauss2_le_one (72/100) 5 2 x y _ _ _ (by norm_num) (sq_lb_right (3) 5 x hxb (by norm_num)) (sq_lb_left (3) 2 y hya (by norm_num))
    (exp_neg_le_of_poly 14 _ (61/62500) (by norm_num) (by norm_num [Finset.sum_range_succ, Nat.factorial]))
  linarith

theorem syn2_cell15 (x y : ℝ) (hxa : (5/2) ≤ x) (hxb : x ≤ (11/4)) (hya : (7/2) ≤ y) (hyb : y ≤ (4)) :
    synthetic2D x y ≤ (121212 / 100000 : ℝ) := by
  rw [synthetic2D_at]
  have t1 := gauss2_far (7/10) (18/100) 1 1 x y _ _ (by norm_num) (by norm_num) (sq_lb_left (5/2) 1 x hxa (by norm_num)) (sq_lb_left (7/2) 1 y hya (by norm_num)) (by norm_num)
  have t2 := gauss2_le (75/100) (32/100) 1 3 x y _ _ _ (by norm_num) (by norm_num) (sq_lb_left (5/2) 1 x hxa (by norm_num)) (sq_lb_left (7/2) 3 y hya (by norm_num))
    (exp_neg_le_of_poly 16 _ (51/125000) (by norm_num) (by norm_num [Finset.sum_range_succ, Nat.factorial]))
  have t3 := gauss2_le_one 2 3 1 x y _ _ _ (by norm_num) (sq_lb_right (11/4) 3 x hxb (by norm_num)) (sq_lb_left (7/2) 1 y hya (by norm_num))
    (exp_neg_le_of_poly 10 _ (21327/500000) (by norm_num) (by norm_num [Finset.sum_range_succ, Nat.factorial]))
  have t4 := gauss2_le (12/10) (32/100) 3 4 x y _ _ _ (by norm_num) (by norm_num) (sq_lb_right (11/4) 3 x hxb (by norm_num)) (sq_lb_right (4) 4 y hyb (by norm_num))
    (exp_neg_le_of_poly 3 _ (411731/500000) (by norm_num) (by norm_num [Finset.sum_range_succ, Nat.factorial]))
  have t5 := gauss2_le_one (72/100) 5 2 x y _ _ _ (by norm_num) (sq_lb_right (11/4) 5 x hxb (by norm_num)) (sq_lb_left (7/2) 2 y hya (by norm_num))
    (exp_neg_le_of_poly 16 _ (21/500000) (by norm_num) (by norm_num [Finset.sum_range_succ, Nat.factorial]))
  linarith

theorem syn2_cell16 (x y : ℝ) (hxa : (11/4) ≤ x) (hxb : x ≤ (3)) (hya : (7/2) ≤ y) (hyb : y ≤ (15/4)) :
    synthetic2D x y ≤ (121212 / 100000 : ℝ) := by
  rw [synthetic2D_at]
  have t1 := gauss2_far (7/10) (18/100) 1 1 x y _ _ (by norm_num) (by norm_num) (sq_lb_left (11/4) 1 x hxa (by norm_num)) (sq_lb_left (7/2) 1 y hya (by norm_num)) (by norm_num)
  have t2 := gauss2_le (75/100) (32/100) 1 3 x y _ _ _ (by norm_num) (by norm_num) (sq_lb_left (11/4) 1 x hxa (by norm_num)) (sq_lb_left (7/2) 3 y hya (by norm_num))
    (exp_neg_le_of_poly 16 _ (7/200000) (by norm_num) (by norm_num [Finset.sum_range_succ, Nat.factorial]))
  have t3 := gauss2_le_one 2 3 1 x y _ _ _ (by norm_num) (sq_lb_right (3) 3 x hxb (by norm_num)) (sq_lb_left (7/2) 1 y hya (by norm_num))
    (exp_neg_le_of_poly 10 _ (44003/1000000) (by norm_num) (by norm_num [Finset.sum_range_succ, Nat.factorial]))
  have t4 := gauss2_le (12/10) (32/100) 3 4 x y _ _ _ (by norm_num) (by norm_num) (sq_lb_right (3) 3 x hxb (by norm_num)) (sq_lb_right (15/4) 4 y hyb (by norm_num))
    (exp_neg_le_of_poly 3 _ (411731/500000) (by norm_num) (by norm_num [Finset.sum_range_succ, Nat.factorial]))
  have t5 := gauss2_le_one (72/100) 5 2 x y _ _ _ (by norm_num) (sq_lb_right (3) 5 x hxb (by norm_num)) (sq_lb_left (7/2) 2 y hya (by norm_num))
    (exp_neg_le_of_poly 16 _ (173/1000000) (by norm_num) (by norm_num [Finset.sum_range_succ, Nat.factorial]))
  linarith

theorem syn2_cell17 (x y : ℝ) (hxa : (11/4) ≤ x) (hxb : x ≤ (23/8)) (hya : (15/4) ≤ y) (hyb : y ≤ (4)) :
    synthetic2D x y ≤ (121212 / 100000 : ℝ) := by
  rw [synthetic2D_at]
  have t1 := gauss2_far (7/10) (18/100) 1 1 x y _ _ (by norm_num) (by norm_num) (sq_lb_left (11/4) 1 x hxa (by norm_num)) (sq_lb_left (15/4) 1 y hya (by norm_num)) (by norm_num)
  have t2 := gauss2_le (75/100) (32/100) 1 3 x y _ _ _ (by norm_num) (by norm_num) (sq_lb_left (11/4) 1 x hxa (by norm_num)) (sq_lb_left (15/4) 3 y hya (by norm_num))
    (exp_neg_le_of_poly 16 _ (7/500000) (by norm_num) (by norm_num [Finset.sum_range_succ, Nat.factorial]))
  have t3 := gauss2_le_one 2 3 1 x y _ _ _ (by norm_num) (sq_lb_right (23/8) 3 x hxb (by norm_num)) (sq_lb_left (15/4) 1 y hya (by norm_num))
    (exp_neg_le_of_poly 10 _ (22747/1000000) (by norm_num) (by norm_num [Finset.sum_range_succ, Nat.factorial]))
  have t4 := gauss2_le (12/10) (32/100) 3 4 x y _ _ _ (by norm_num) (by norm_num) (sq_lb_right (23/8) 3 x hxb (by norm_num)) (sq_lb_right (4) 4 y hyb (by norm_num))
    (exp_neg_le_of_poly 2 _ (476723/500000) (by norm_num) (by norm_num [Finset.sum_range_succ, Nat.factorial]))
  have t5 := gauss2_le_one (72/100) 5 2 x y _ _ _ (by norm_num) (sq_lb_right (23/8) 5 x hxb (by norm_num)) (sq_lb_left (15/4) 2 y hya (by norm_num))
    (exp_neg_le_of_poly 16 _ (29/1000000) (by norm_num) (by norm_num [Finset.sum_range_succ, Nat.factorial]))
  linarith

theorem syn2_cell18 (x y : ℝ) (hxa : (23/8) ≤ x) (hxb : x ≤ (3)) (hya : (15/4) ≤ y) (hyb : y ≤ (31/8)) :
    synthetic2D x y ≤ (121212 / 100000 : ℝ) := by
  rw [synthetic2D_at]
  have t1 := gauss2_far (7/10) (18/100) 1 1 x y _ _ (by norm_num) (by norm_num) (sq_lb_left (23/8) 1 x hxa (by norm_num)) (sq_lb_left (15/4) 1 y hya (by norm_num)) (by norm_num)
  have t2 := gauss2_le (75/100) (32/100) 1 3 x y _ _ _ (by norm_num) (by norm_num) (sq_lb_left (23/8) 1 x hxa (by norm_num)) (sq_lb_left (15/4) 3 y hya (by norm_num))
    (exp_neg_le_of_poly 14 _ (1/200000) (by norm_num) (by norm_num [Finset.sum_range_succ, Nat.factorial]))
  have t3 := gauss2_le_one 2 3 1 x y _ _ _ (by norm_num) (sq_lb_right (3) 3 x hxb (by norm_num)) (sq_lb_left (15/4) 1 y hya (by norm_num))
    (exp_neg_le_of_poly 10 _ (22923/1000000) (by norm_num) (by norm_num [Finset.sum_range_succ, Nat.factorial]))
  have t4 := gauss2_le (12/10) (32/100) 3 4 x y _ _ _ (by norm_num) (by norm_num) (sq_lb_right (3) 3 x hxb (by norm_num)) (sq_lb_right (31/8) 4 y hyb (by norm_num))
    (exp_neg_le_of_poly 2 _ (476723/500000) (by norm_num) (by norm_num [Finset.sum_range_succ, Nat.factorial]))
  have t5 := gauss2_le_one (72/100) 5 2 x y _ _ _ (by norm_num) (sq_lb_right (3) 5 x hxb (by norm_num)) (sq_lb_left (15/4) 2 y hya (by norm_num))
    (exp_neg_le_of_poly 16 _ (29/500000) (by norm_num) (by norm_num [Finset.sum_range_succ, Nat.factorial]))
  linarith

theorem syn2_cell19 (x y : ℝ) (hxa : (23/8) ≤ x) (hxb : x ≤ (47/16)) (hya : (31/8) ≤ y) (hyb : y ≤ (4)) :
    synthetic2D x y ≤ (121212 / 100000 : ℝ) := by
  rw [synthetic2D_at]
  have t1 := gauss2_far (7/10) (18/100) 1 1 x y _ _ (by norm_num) (by norm_num) (sq_lb_left (23/8) 1 x hxa (by norm_num)) (sq_lb_left (31/8) 1 y hya (by norm_num)) (by norm_num)
  have t2 := gauss2_le (75/100) (32/100) 1 3 x y _ _ _ (by norm_num) (by norm_num) (sq_lb_left (23/8) 1 x hxa (by norm_num)) (sq_lb_left (31/8) 3 y hya (by norm_num))
    (exp_neg_le_of_poly 14 _ (3/1000000) (by norm_num) (by norm_num [Finset.sum_range_succ, Nat.factorial]))
  have t3 := gauss2_le_one 2 3 1 x y _ _ _ (by norm_num) (sq_lb_right (47/16) 3 x hxb (by norm_num)) (sq_lb_left (31/8) 1 y hya (by norm_num))
    (exp_neg_le_of_poly 12 _ (8013/500000) (by norm_num) (by norm_num [Finset.sum_range_succ, Nat.factorial]))
  have t4 := gauss2_le (12/10) (32/100) 3 4 x y _ _ _ (by norm_num) (by norm_num) (sq_lb_right (47/16) 3 x hxb (by norm_num)) (sq_lb_right (4) 4 y hyb (by norm_num))
    (exp_neg_le_of_poly 2 _ (987941/1000000) (by norm_num) (by norm_num [Finset.sum_range_succ, Nat.factorial]))
  have t5 := gauss2_le_one (72/100) 5 2 x y _ _ _ (by norm_num) (sq_lb_right (47/16) 5 x hxb (by norm_num)) (sq_lb_left (31/8) 2 y hya (by norm_num))
    (exp_neg_le_of_poly 16 _ (23/1000000) (by norm_num) (by norm_num [Finset.sum_range_succ, Nat.factorial]))
  linarith

theorem syn2_cell20 (x y : ℝ) (hxa : (47/16) ≤ x) (hxb : x ≤ (3)) (hya : (31/8) ≤ y) (hyb : y ≤ (63/16)) :
    synthetic2D x y ≤ (121212 / 100000 : ℝ) := by
  rw [synthetic2D_at]
  have t1 := gauss2_far (7/10) (18/100) 1 1 x y _ _ (by norm_num) (by norm_num) (sq_lb_left (47/16) 1 x hxa (by norm_num)) (sq_lb_left (31/8) 1 y hya (by norm_num)) (by norm_num)
  have t2 := gauss2_far (75/100) (32/100) 1 3 x y _ _ (by norm_num) (by norm_num) (sq_lb_left (47/16) 1 x hxa (by norm_num)) (sq_lb_left (31/8) 3 y hya (by norm_num)) (by norm_num)
  have t3 := gauss2_le_one 2 3 1 x y _ _ _ (by norm_num) (sq_lb_right (3) 3 x hxb (by norm_num)) (sq_lb_left (31/8) 1 y hya (by norm_num))
    (exp_neg_le_of_poly 10 _ (16201/1000000) (by norm_num) (by norm_num [Finset.sum_range_succ, Nat.factorial]))
  have t4 := gauss2_le (12/10) (32/100) 3 4 x y _ _ _ (by norm_num) (by norm_num) (sq_lb_right (3) 3 x hxb (by norm_num)) (sq_lb_right (63/16) 4 y hyb (by norm_num))
    (exp_neg_le_of_poly 2 _ (987941/1000000) (by norm_num) (by norm_num [Finset.sum_range_succ, Nat.factorial]))
  have t5 := gauss2_le_one (72/100) 5 2 x y _ _ _ (by norm_num) (sq_lb_right (3) 5 x hxb (by norm_num)) (sq_lb_left (31/8) 2 y hya (by norm_num))
    (exp_neg_le_of_poly 16 _ (1/31250) (by norm_num) (by norm_num [Finset.sum_range_succ, Nat.factorial]))
  linarith

theorem syn2_cell21 (x y : ℝ) (hxa : (47/16) ≤ x) (hxb : x ≤ (95/32)) (hya : (63/16) ≤ y) (hyb : y ≤ (4)) :
    synthetic2D x y ≤ (121212 / 100000 : ℝ) := by
  rw [synthetic2D_at]
  have t1 := gauss2_far (7/10) (18/100) 1 1 x y _ _ (by norm_num) (by norm_num) (sq_lb_left (47/16) 1 x hxa (by norm_num)) (sq_lb_left (63/16) 1 y hya (by norm_num)) (by norm_num)
  have t2 := gauss2_far (75/100) (32/100) 1 3 x y _ _ (by norm_num) (by norm_num) (sq_lb_left (47/16) 1 x hxa (by norm_num)) (sq_lb_left (63/16) 3 y hya (by norm_num)) (by norm_num)
  have t3 := gauss2_le_one 2 3 1 x y _ _ _ (by norm_num) (sq_lb_right (95/32) 3 x hxb (by norm_num)) (sq_lb_left (63/16) 1 y hya (by norm_num))
    (exp_neg_le_of_poly 12 _ (13391/1000000) (by norm_num) (by norm_num [Finset.sum_range_succ, Nat.factorial]))
  have t4 := gauss2_le (12/10) (32/100) 3 4 x y _ _ _ (by norm_num) (by norm_num) (sq_lb_right (95/32) 3 x hxb (by norm_num)) (sq_lb_right (4) 4 y hyb (by norm_num))
    (exp_neg_le_of_poly 2 _ (498479/500000) (by norm_num) (by norm_num [Finset.sum_range_succ, Nat.factorial]))
  have t5 := gauss2_le_one (72/100) 5 2 x y _ _ _ (by norm_num) (sq_lb_right (95/32) 5 x hxb (by norm_num)) (sq_lb_left (63/16) 2 y hya (by norm_num))
    (exp_neg_le_of_poly 16 _ (1/50000) (by norm_num) (by norm_num [Finset.sum_range_succ, Nat.factorial]))
  linarith

theorem syn2_cell22 (x y : ℝ) (hxa : (95/32) ≤ x) (hxb : x ≤ (3)) (hya : (63/16) ≤ y) (hyb : y ≤ (127/32)) :
    synthetic2D x y ≤ (121212 / 100000 : ℝ) := by
  rw [synthetic2D_at]
  have t1 := gauss2_far (7/10) (18/100) 1 1 x y _ _ (by norm_num) (by norm_num) (sq_lb_left (95/32) 1 x hxa (by norm_num)) (sq_lb_left (63/16) 1 y hya (by norm_num)) (by norm_num)
  have t2 := gauss2_far (75/100) (32/100) 1 3 x y _ _ (by norm_num) (by norm_num) (sq_lb_left (95/32) 1 x hxa (by norm_num)) (sq_lb_left (63/16) 3 y hya (by norm_num)) (by norm_num)
  have t3 := gauss2_le_one 2 3 1 x y _ _ _ (by norm_num) (sq_lb_right (3) 3 x hxb (by norm_num)) (sq_lb_left (63/16) 1 y hya (by norm_num))
    (exp_neg_le_of_poly 12 _ (13397/1000000) (by norm_num) (by norm_num [Finset.sum_range_succ, Nat.factorial]))
  have t4 := gauss2_le (12/10) (32/100) 3 4 x y _ _ _ (by norm_num) (by norm_num) (sq_lb_right (3) 3 x hxb (by norm_num)) (sq_lb_right (127/32) 4 y hyb (by norm_num))
    (exp_neg_le_of_poly 2 _ (498479/500000) (by norm_num) (by norm_num [Finset.sum_range_succ, Nat.factorial]))
  have t5 := gauss2_le_one (72/100) 5 2 x y _ _ _ (by norm_num) (sq_lb_right (3) 5 x hxb (by norm_num)) (sq_lb_left (63/16) 2 y hya (by norm_num))
    (exp_neg_le_of_poly 16 _ (23/1000000) (by norm_num) (by norm_num [Finset.sum_range_succ, Nat.factorial]))
  linarith

theorem syn2_cell23 (x y : ℝ) (hxa : (95/32) ≤ x) (hxb : x ≤ (191/64)) (hya : (127/32) ≤ y) (hyb : y ≤ (4)) :
    synthetic2D x y ≤ (121212 / 100000 : ℝ) := by
  rw [synthetic2D_at]
  have t1 := gauss2_far (7/10) (18/100) 1 1 x y _ _ (by norm_num) (by norm_num) (sq_lb_left (95/32) 1 x hxa (by norm_num)) (sq_lb_left (127/32) 1 y hya (by norm_num)) (by norm_num)
  have t2 := gauss2_far (75/100) (32/100) 1 3 x y _ _ (by norm_num) (by norm_num) (sq_lb_left (95/32) 1 x hxa (by norm_num)) (sq_lb_left (127/32) 3 y hya (by norm_num)) (by norm_num)
  have t3 := gauss2_le_one 2 3 1 x y _ _ _ (by norm_num) (sq_lb_right (191/64) 3 x hxb (by norm_num)) (sq_lb_left (127/32) 1 y hya (by norm_num))
    (exp_neg_le_of_poly 12 _ (12219/1000000) (by norm_num) (by norm_num [Finset.sum_range_succ, Nat.factorial]))
  have t4 := gauss2_le (12/10) (32/100) 3 4 x y _ _ _ (by norm_num) (by norm_num) (sq_lb_right (191/64) 3 x hxb (by norm_num)) (sq_lb_right (4) 4 y hyb (by norm_num))
    (exp_neg_le_of_poly 2 _ (499619/500000) (by norm_num) (by norm_num [Finset.sum_range_succ, Nat.factorial]))
  have t5 := gauss2_le_one (72/100) 5 2 x y _ _ _ (by norm_num) (sq_lb_right (191/64) 5 x hxb (by norm_num)) (sq_lb_left (127/32) 2 y hya (by norm_num))
    (exp_neg_le_of_poly 16 _ (9/500000) (by norm_num) (by norm_num [Finset.sum_range_succ, Nat.factorial]))
  linarith

theorem syn2_cell24 (x y : ℝ) (hxa : (191/64) ≤ x) (hxb : x ≤ (3)) (hya : (127/32) ≤ y) (hyb : y ≤ (255/64)) :
    synthetic2D x y ≤ (121212 / 100000 : ℝ) := by
  rw [synthetic2D_at]
  have t1 := gauss2_far (7/10) (18/100) 1 1 x y _ _ (by norm_num) (by norm_num) (sq_lb_left (191/64) 1 x hxa (by norm_num)) (sq_lb_left (127/32) 1 y hya (by norm_num)) (by norm_num)
  have t2 := gauss2_far (75/100) (32/100) 1 3 x y _ _ (by norm_num) (by norm_num) (sq_lb_left (191/64) 1 x hxa (by norm_num)) (sq_lb_left (127/32) 3 y hya (by norm_num)) (by norm_num)
  have t3 := gauss2_le_one 2 3 1 x y _ _ _ (by norm_num) (sq_lb_right (3) 3 x hxb (by norm_num)) (sq_lb_left (127/32) 1 y hya (by norm_num))
    (exp_neg_le_of_poly 12 _ (611/50000) (by norm_num) (by norm_num [Finset.sum_range_succ, Nat.factorial]))
  have t4 := gauss2_le (12/10) (32/100) 3 4 x y _ _ _ (by norm_num) (by norm_num) (sq_lb_right (3) 3 x hxb (by norm_num)) (sq_lb_right (255/64) 4 y hyb (by norm_num))
    (exp_neg_le_of_poly 2 _ (499619/500000) (by norm_num) (by norm_num [Finset.sum_range_succ, Nat.factorial]))
  have t5 := gauss2_le_one (72/100) 5 2 x y _ _ _ (by norm_num) (sq_lb_right (3) 5 x hxb (by norm_num)) (sq_lb_left (127/32) 2 y hya (by norm_num))
    (exp_neg_le_of_poly 16 _ (1/50000) (by norm_num) (by norm_num [Finset.sum_range_succ, Nat.factorial]))
  linarith

theorem syn2_cell25 (x y : ℝ) (hxa : (191/64) ≤ x) (hxb : x ≤ (3)) (hya : (255/64) ≤ y) (hyb : y ≤ (4)) :
    synthetic2D x y ≤ (121212 / 100000 : ℝ) := by
  rw [synthetic2D_at]
  have t1 := gauss2_far (7/10) (18/100) 1 1 x y _ _ (by norm_num) (by norm_num) (sq_lb_left (191/64) 1 x hxa (by norm_num)) (sq_lb_left (255/64) 1 y hya (by norm_num)) (by norm_num)
  have t2 := gauss2_far (75/100) (32/100) 1 3 x y _ _ (by norm_num) (by norm_num) (sq_lb_left (191/64) 1 x hxa (by norm_num)) (sq_lb_left (255/64) 3 y hya (by norm_num)) (by norm_num)
  have t3 := gauss2_le_one 2 3 1 x y _ _ _ (by norm_num) (sq_lb_right (3) 3 x hxb (by norm_num)) (sq_lb_left (255/64) 1 y hya (by norm_num))
    (exp_neg_le_of_poly 12 _ (11667/1000000) (by norm_num) (by norm_num [Finset.sum_range_succ, Nat.factorial]))
  have t4 := gauss2_le (12/10) (32/100) 3 4 x y _ _ _ (by norm_num) (by norm_num) (sq_lb_right (3) 3 x hxb (by norm_num)) (sq_lb_right (4) 4 y hyb (by norm_num))
    (exp_neg_le_of_poly 1 _ (1) (by norm_num) (by norm_num [Finset.sum_range_succ, Nat.factorial]))
  have t5 := gauss2_le_one (72/100) 5 2 x y _ _ _ (by norm_num) (sq_lb_right (3) 5 x hxb (by norm_num)) (sq_lb_left (255/64) 2 y hya (by norm_num))
    (exp_neg_le_of_poly 16 _ (9/500000) (by norm_num) (by norm_num [Finset.sum_range_succ, Nat.factorial]))
  linarith

theorem syn2_node7 (x y : ℝ) (hxa : (191/64) ≤ x) (hxb : x ≤ (3)) (hya : (127/32) ≤ y) (hyb : y ≤ (4)) :
    synthetic2D x y ≤ (121212 / 100000 : ℝ) := by
  rcases le_total y (255/64) with h | h
  · exact syn2_cell24 x y hxa hxb hya h
  · exact syn2_cell25 x y hxa hxb h hyb

theorem syn2_node8 (x y : ℝ) (hxa : (95/32) ≤ x) (hxb : x ≤ (3)) (hya : (127/32) ≤ y) (hyb : y ≤ (4)) :
    synthetic2D x y ≤ (121212 / 100000 : ℝ) := by
  rcases le_total x (191/64) with h | h
  · exact syn2_cell23 x y hxa h hya hyb
  · exact syn2_node7 x y h hxb hya hyb

theorem syn2_node9 (x y : ℝ) (hxa : (95/32) ≤ x) (hxb : x ≤ (3)) (hya : (63/16) ≤ y) (hyb : y ≤ (4)) :
    synthetic2D x y ≤ (121212 / 100000 : ℝ) := by
  rcases le_total y (127/32) with h | h
  · exact syn2_cell22 x y hxa hxb hya h
  · exact syn2_node8 x y hxa hxb h hyb

theorem syn2_node10 (x y : ℝ) (hxa : (47/16) ≤ x) (hxb : x ≤ (3)) (hya : (63/16) ≤ y) (hyb : y ≤ (4)) :
    synthetic2D x y ≤ (121212 / 100000 : ℝ) := by
  rcases le_total x (95/32) with h | h
  · exact syn2_cell21 x y hxa h hya hyb
  · exact syn2_node9 x y h hxb hya hyb

theorem syn2_node11 (x y : ℝ) (hxa : (47/16) ≤ x) (hxb : x ≤ (3)) (hya : (31/8) ≤ y) (hyb : y ≤ (4)) :
    synthetic2D x y ≤ (121212 / 100000 : ℝ) := by
  rcases le_total y (63/16) with h | h
  · exact syn2_cell20 x y hxa hxb hya h
  · exact syn2_node10 x y hxa hxb h hyb

theorem syn2_node12 (x y : ℝ) (hxa : (23/8) ≤ x) (hxb : x ≤ (3)) (hya : (31/8) ≤ y) (hyb : y ≤ (4)) :
    synthetic2D x y ≤ (121212 / 100000 : ℝ) := by
  rcases le_total x (47/16) with h | h
  · exact syn2_cell19 x y hxa h hya hyb
  · exact syn2_node11 x y h hxb hya hyb

theorem syn2_node13 (x y : ℝ) (hxa : (23/8) ≤ x) (hxb : x ≤ (3)) (hya : (15/4) ≤ y) (hyb : y ≤ (4)) :
    synthetic2D x y ≤ (121212 / 100000 : ℝ) := by
  rcases le_total y (31/8) with h | h
  · exact syn2_cell18 x y hxa hxb hya h
  · exact syn2_node12 x y hxa hxb h hyb

theorem syn2_node14 (x y : ℝ) (hxa : (11/4) ≤ x) (hxb : x ≤ (3)) (hya : (15/4) ≤ y) (hyb : y ≤ (4)) :
    synthetic2D x y ≤ (121212 / 100000 : ℝ) := by
  rcases le_total x (23/8) with h | h
  · exact syn2_cell17 x y hxa h hya hyb
  · exact syn2_node13 x y h hxb hya hyb

theorem syn2_node15 (x y : ℝ) (hxa : (11/4) ≤ x) (hxb : x ≤ (3)) (hya : (7/2) ≤ y) (hyb : y ≤ (4)) :
    synthetic2D x y ≤ (121212 / 100000 : ℝ) := by
  rcases le_total y (15/4) with h | h
  · exact syn2_cell16 x y hxa hxb hya h
  · exact syn2_node14 x y hxa hxb h hyb

theorem syn2_node16 (x y : ℝ) (hxa : (5/2) ≤ x) (hxb : x ≤ (3)) (hya : (7/2) ≤ y) (hyb : y ≤ (4)) :
    synthetic2D x y ≤ (121212 / 100000 : ℝ) := by
  rcases le_total x (11/4) with h | h
  · exact syn2_cell15 x y hxa h hya hyb
  · exact syn2_node15 x y h hxb hya hyb

theorem syn2_node17 (x y : ℝ) (hxa : (5/2) ≤ x) (hxb : x ≤ (3)) (hya : (3) ≤ y) (hyb : y ≤ (4)) :
    synthetic2D x y ≤ (121212 / 100000 : ℝ) := by
  rcases le_total y (7/2) with h | h
  · exact syn2_cell14 x y hxa hxb hya h
  · exact syn2_node16 x y hxa hxb h hyb

theorem syn2_node18 (x y : ℝ) (hxa : (2) ≤ x) (hxb : x ≤ (3)) (hya : (3) ≤ y) (hyb : y ≤ (4)) :
    synthetic2D x y ≤ (121212 / 100000 : ℝ) := by
  rcases le_total x (5/2) with h | h
  · exact syn2_cell13 x y hxa h hya hyb
  · exact syn2_node17 x y h hxb hya hyb

theorem syn2_node19 (x y : ℝ) (hxa : (2) ≤ x) (hxb : x ≤ (3)) (hya : (2) ≤ y) (hyb : y ≤ (4)) :
    synthetic2D x y ≤ (121212 / 100000 : ℝ) := by
  rcases le_total y (3) with h | h
  · exact syn2_cell12 x y hxa hxb hya h
  · exact syn2_node18 x y hxa hxb h hyb

theorem syn2_node20 (x y : ℝ) (hxa : (1) ≤ x) (hxb : x ≤ (3)) (hya : (2) ≤ y) (hyb : y ≤ (4)) :
    synthetic2D x y ≤ (121212 / 100000 : ℝ) := by
  rcases le_total x (2) with h | h
  · exact syn2_cell11 x y hxa h hya hyb
  · exact syn2_node19 x y h hxb hya hyb

theorem syn2_cell26 (x y : ℝ) (hxa : (1) ≤ x) (hxb : x ≤ (2)) (hya : (4) ≤ y) (hyb : y ≤ (6)) :
    synthetic2D x y ≤ (121212 / 100000 : ℝ) := by
  rw [synthetic2D_at]
  have t1 := gauss2_far (7/10) (18/100) 1 1 x y _ _ (by norm_num) (by norm_num) (sq_lb_left (1) 1 x hxa (by norm_num)) (sq_lb_left (4) 1 y hya (by norm_num)) (by norm_num)
  have t2 := gauss2_le (75/100) (32/100) 1 3 x y _ _ _ (by norm_num) (by norm_num) (sq_lb_left (1) 1 x hxa (by norm_num)) (sq_lb_left (4) 3 y hya (by norm_num))
    (exp_neg_le_of_poly 10 _ (44003/1000000) (by norm_num) (by norm_num [Finset.sum_range_succ, Nat.factorial]))
  have t3 := gauss2_le_one 2 3 1 x y _ _ _ (by norm_num) (sq_lb_right (2) 3 x hxb (by norm_num)) (sq_lb_left (4) 1 y hya (by norm_num))
    (exp_neg_le_of_poly 12 _ (271/40000) (by norm_num) (by norm_num [Finset.sum_range_succ, Nat.factorial]))
  have t4 := gauss2_le (12/10) (32/100) 3 4 x y _ _ _ (by norm_num) (by norm_num) (sq_lb_right (2) 3 x hxb (by norm_num)) (sq_lb_left (4) 4 y hya (by norm_num))
    (exp_neg_le_of_poly 10 _ (44003/1000000) (by norm_num) (by norm_num [Finset.sum_range_succ, Nat.factorial]))
  have t5 := gauss2_far_one (72/100) 5 2 x y _ _ (by norm_num) (sq_lb_right (2) 5 x hxb (by norm_num)) (sq_lb_left (4) 2 y hya (by norm_num)) (by norm_num)
  linarith

theorem syn2_cell27 (x y : ℝ) (hxa : (2) ≤ x) (hxb : x ≤ (5/2)) (hya : (4) ≤ y) (hyb : y ≤ (5)) :
    synthetic2D x y ≤ (121212 / 100000 : ℝ) := by
  rw [synthetic2D_at]
  have t1 := gauss2_far (7/10) (18/100) 1 1 x y _ _ (by norm_num) (by norm_num) (sq_lb_left (2) 1 x hxa (by norm_num)) (sq_lb_left (4) 1 y hya (by norm_num)) (by norm_num)
  have t2 := gauss2_le (75/100) (32/100) 1 3 x y _ _ _ (by norm_num) (by norm_num) (sq_lb_left (2) 1 x hxa (by norm_num)) (sq_lb_left (4) 3 y hya (by norm_num))
    (exp_neg_le_of_poly 14 _ (1941/1000000) (by norm_num) (by norm_num [Finset.sum_range_succ, Nat.factorial]))
  have t3 := gauss2_le_one 2 3 1 x y _ _ _ (by norm_num) (sq_lb_right (5/2) 3 x hxb (by norm_num)) (sq_lb_left (4) 1 y hya (by norm_num))
    (exp_neg_le_of_poly 12 _ (4917/500000) (by norm_num) (by norm_num [Finset.sum_range_succ, Nat.factorial]))
  have t4 := gauss2_le (12/10) (32/100) 3 4 x y _ _ _ (by norm_num) (by norm_num) (sq_lb_right (5/2) 3 x hxb (by norm_num)) (sq_lb_left (4) 4 y hya (by norm_num))
    (exp_neg_le_of_poly 4 _ (461703/1000000) (by norm_num) (by norm_num [Finset.sum_range_succ, Nat.factorial]))
  have t5 := gauss2_far_one (72/100) 5 2 x y _ _ (by norm_num) (sq_lb_right (5/2) 5 x hxb (by norm_num)) (sq_lb_left (4) 2 y hya (by norm_num)) (by norm_num)
  linarith

theorem syn2_cell28 (x y : ℝ) (hxa : (5/2) ≤ x) (hxb : x ≤ (3)) (hya : (4) ≤ y) (hyb : y ≤ (5)) :
    synthetic2D x y ≤ (121212 / 100000 : ℝ) := by
  rw [synthetic2D_at]
  have t1 := gauss2_far (7/10) (18/100) 1 1 x y _ _ (by norm_num) (by norm_num) (sq_lb_left (5/2) 1 x hxa (by norm_num)) (sq_lb_left (4) 1 y hya (by norm_num)) (by norm_num)
  have t2 := gauss2_le (75/100) (32/100) 1 3 x y _ _ _ (by norm_num) (by norm_num) (sq_lb_left (5/2) 1 x hxa (by norm_num)) (sq_lb_left (4) 3 y hya (by norm_num))
    (exp_neg_le_of_poly 16 _ (21/500000) (by norm_num) (by norm_num [Finset.sum_range_succ, Nat.factorial]))
  have t3 := gauss2_le_one 2 3 1 x y _ _ _ (by norm_num) (sq_lb_right (3) 3 x hxb (by norm_num)) (sq_lb_left (4) 1 y hya (by norm_num))
    (exp_neg_le_of_poly 12 _ (174/15625) (by norm_num) (by norm_num [Finset.sum_range_succ, Nat.factorial]))
  have t4 := gauss2_le (12/10) (32/100) 3 4 x y _ _ _ (by norm_num) (by norm_num) (sq_lb_right (3) 3 x hxb (by norm_num)) (sq_lb_left (4) 4 y hya (by norm_num))
    (exp_neg_le_of_poly 1 _ (1) (by norm_num) (by norm_num [Finset.sum_range_succ, Nat.factorial]))
  have t5 := gauss2_le_one (72/100) 5 2 x y _ _ _ (by norm_num) (sq_lb_right (3) 5 x hxb (by norm_num)) (sq_lb_left (4) 2 y hya (by norm_num))
    (exp_neg_le_of_poly 16 _ (17/1000000) (by norm_num) (by norm_num [Finset.sum_range_succ, Nat.factorial]))
  linarith

theorem syn2_node21 (x y : ℝ) (hxa : (2) ≤ x) (hxb : x ≤ (3)) (hya : (4) ≤ y) (hyb : y ≤ (5)) :
    synthetic2D x y ≤ (121212 / 100000 : ℝ) := by
  rcases le_total x (5/2) with h | h
  · exact syn2_cell27 x y hxa h hya hyb
  · exact syn2_cell28 x y h hxb hya hyb

theorem syn2_cell29 (x y : ℝ) (hxa : (2) ≤ x) (hxb : x ≤ (3)) (hya : (5) ≤ y) (hyb : y ≤ (6)) :
    synthetic2D x y ≤ (121212 / 100000 : ℝ) := by
  rw [synthetic2D_at]
  have t1 := gauss2_far (7/10) (18/100) 1 1 x y _ _ (by norm_num) (by norm_num) (sq_lb_left (2) 1 x hxa (by norm_num)) (sq_lb_left (5) 1 y hya (by norm_num)) (by norm_num)
  have t2 := gauss2_far (75/100) (32/100) 1 3 x y _ _ (by norm_num) (by norm_num) (sq_lb_left (2) 1 x hxa (by norm_num)) (sq_lb_left (5) 3 y hya (by norm_num)) (by norm_num)
  have t3 := gauss2_le_one 2 3 1 x y _ _ _ (by norm_num) (sq_lb_right (3) 3 x hxb (by norm_num)) (sq_lb_left (5) 1 y hya (by norm_num))
    (exp_neg_le_of_poly 16 _ (339/1000000) (by norm_num) (by norm_num [Finset.sum_range_succ, Nat.factorial]))
  have t4 := gauss2_le (12/10) (32/100) 3 4 x y _ _ _ (by norm_num) (by norm_num) (sq_lb_right (3) 3 x hxb (by norm_num)) (sq_lb_left (5) 4 y hya (by norm_num))
    (exp_neg_le_of_poly 10 _ (44003/1000000) (by norm_num) (by norm_num [Finset.sum_range_succ, Nat.factorial]))
  have t5 := gauss2_far_one (72/100) 5 2 x y _ _ (by norm_num) (sq_lb_right (3) 5 x hxb (by norm_num)) (sq_lb_left (5) 2 y hya (by norm_num)) (by norm_num)
  linarith

theorem syn2_node22 (x y : ℝ) (hxa : (2) ≤ x) (hxb : x ≤ (3)) (hya : (4) ≤ y) (hyb : y ≤ (6)) :
    synthetic2D x y ≤ (121212 / 100000 : ℝ) := by
  rcases le_total y (5) with h | h
  · exact syn2_node21 x y hxa hxb hya h
  · exact syn2_cell29 x y hxa hxb h hyb

theorem syn2_node23 (x y : ℝ) (hxa : (1) ≤ x) (hxb : x ≤ (3)) (hya : (4) ≤ y) (hyb : y ≤ (6)) :
    synthetic2D x y ≤ (121212 / 100000 : ℝ) := by
  rcases le_total x (2) with h | h
  · exact syn2_cell26 x y hxa h hya hyb
  · exact syn2_node22 x y h hxb hya hyb

theorem syn2_node24 (x y : ℝ) (hxa : (1) ≤ x) (hxb : x ≤ (3)) (hya : (2) ≤ y) (hyb : y ≤ (6)) :
    synthetic2D x y ≤ (121212 / 100000 : ℝ) := by
  rcases le_total y (4) with h | h
  · exact syn2_node20 x y hxa hxb hya h
  · exact syn2_node23 x y hxa hxb h hyb

theorem syn2_node25 (x y : ℝ) (hxa : (-1) ≤ x) (hxb : x ≤ (3)) (hya : (2) ≤ y) (hyb : y ≤ (6)) :
    synthetic2D x y ≤ (121212 / 100000 : ℝ) := by
  rcases le_total x (1) with h | h
  · exact syn2_cell10 x y hxa h hya hyb
  · exact syn2_node24 x y h hxb hya hyb

theorem syn2_node26 (x y : ℝ) (hxa : (-1) ≤ x) (hxb : x ≤ (3)) (hya : (-2) ≤ y) (hyb : y ≤ (6)) :
    synthetic2D x y ≤ (121212 / 100000 : ℝ) := by
  rcases le_total y (2) with h | h
  · exact syn2_node6 x y hxa hxb hya h
  · exact syn2_node25 x y hxa hxb h hyb

theorem syn2_cell30 (x y : ℝ) (hxa : (3) ≤ x) (hxb : x ≤ (5)) (hya : (-2) ≤ y) (hyb : y ≤ (0)) :
    synthetic2D x y ≤ (121212 / 100000 : ℝ) := by
  rw [synthetic2D_at]
  have t1 := gauss2_far (7/10) (18/100) 1 1 x y _ _ (by norm_num) (by norm_num) (sq_lb_left (3) 1 x hxa (by norm_num)) (sq_lb_right (0) 1 y hyb (by norm_num)) (by norm_num)
  have t2 := gauss2_far (75/100) (32/100) 1 3 x y _ _ (by norm_num) (by norm_num) (sq_lb_left (3) 1 x hxa (by norm_num)) (sq_lb_right (0) 3 y hyb (by norm_num)) (by norm_num)
  have t3 := gauss2_le_one 2 3 1 x y _ _ _ (by norm_num) (sq_lb_left (3) 3 x hxa (by norm_num)) (sq_lb_right (0) 1 y hyb (by norm_num))
    (exp_neg_le_of_poly 4 _ (121519/200000) (by norm_num) (by norm_num [Finset.sum_range_succ, Nat.factorial]))
  have t4 := gauss2_far (12/10) (32/100) 3 4 x y _ _ (by norm_num) (by norm_num) (sq_lb_left (3) 3 x hxa (by norm_num)) (sq_lb_right (0) 4 y hyb (by norm_num)) (by norm_num)
  have t5 := gauss2_le_one (72/100) 5 2 x y _ _ _ (by norm_num) (sq_lb_right (5) 5 x hxb (by norm_num)) (sq_lb_right (0) 2 y hyb (by norm_num))
    (exp_neg_le_of_poly 14 _ (1937/500000) (by norm_num) (by norm_num [Finset.sum_range_succ, Nat.factorial]))
  linarith

theorem syn2_cell31 (x y : ℝ) (hxa : (3) ≤ x) (hxb : x ≤ (4)) (hya : (0) ≤ y) (hyb : y ≤ (1)) :
    synthetic2D x y ≤ (121212 / 100000 : ℝ) := by
  rw [synthetic2D_at]
  have t1 := gauss2_far (7/10) (18/100) 1 1 x y _ _ (by norm_num) (by norm_num) (sq_lb_left (3) 1 x hxa (by norm_num)) (sq_lb_right (1) 1 y hyb (by norm_num)) (by norm_num)
  have t2 := gauss2_far (75/100) (32/100) 1 3 x y _ _ (by norm_num) (by norm_num) (sq_lb_left (3) 1 x hxa (by norm_num)) (sq_lb_right (1) 3 y hyb (by norm_num)) (by norm_num)
  have t3 := gauss2_le_one 2 3 1 x y _ _ _ (by norm_num) (sq_lb_left (3) 3 x hxa (by norm_num)) (sq_lb_right (1) 1 y hyb (by norm_num))
    (exp_neg_le_of_poly 1 _ (1) (by norm_num) (by norm_num [Finset.sum_range_succ, Nat.factorial]))
  have t4 := gauss2_far (12/10) (32/100) 3 4 x y _ _ (by norm_num) (by norm_num) (sq_lb_left (3) 3 x hxa (by norm_num)) (sq_lb_right (1) 4 y hyb (by norm_num)) (by norm_num)
  have t5 := gauss2_le_one (72/100) 5 2 x y _ _ _ (by norm_num) (sq_lb_right (4) 5 x hxb (by norm_num)) (sq_lb_right (1) 2 y hyb (by norm_num))
    (exp_neg_le_of_poly 8 _ (7833/125000) (by norm_num) (by norm_num [Finset.sum_range_succ, Nat.factorial]))
  linarith

theorem syn2_cell32 (x y : ℝ) (hxa : (3) ≤ x) (hxb : x ≤ (7/2)) (hya : (1) ≤ y) (hyb : y ≤ (2)) :
    synthetic2D x y ≤ (121212 / 100000 : ℝ) := by
  rw [synthetic2D_at]
  have t1 := gauss2_far (7/10) (18/100) 1 1 x y _ _ (by norm_num) (by norm_num) (sq_lb_left (3) 1 x hxa (by norm_num)) (sq_lb_left (1) 1 y hya (by norm_num)) (by norm_num)
  have t2 := gauss2_far (75/100) (32/100) 1 3 x y _ _ (by norm_num) (by norm_num) (sq_lb_left (3) 1 x hxa (by norm_num)) (sq_lb_right (2) 3 y hyb (by norm_num)) (by norm_num)
  have t3 := gauss2_le_one 2 3 1 x y _ _ _ (by norm_num) (sq_lb_left (3) 3 x hxa (by norm_num)) (sq_lb_left (1) 1 y hya (by norm_num))
    (exp_neg_le_of_poly 1 _ (1) (by norm_num) (by norm_num [Finset.sum_range_succ, Nat.factorial]))
  have t4 := gauss2_le (12/10) (32/100) 3 4 x y _ _ _ (by norm_num) (by norm_num) (sq_lb_left (3) 3 x hxa (by norm_num)) (sq_lb_right (2) 4 y hyb (by norm_num))
    (exp_neg_le_of_poly 14 _ (3/500000) (by norm_num) (by norm_num [Finset.sum_range_succ, Nat.factorial]))
  have t5 := gauss2_le_one (72/100) 5 2 x y _ _ _ (by norm_num) (sq_lb_right (7/2) 5 x hxb (by norm_num)) (sq_lb_right (2) 2 y hyb (by norm_num))
    (exp_neg_le_of_poly 10 _ (44003/1000000) (by norm_num) (by norm_num [Finset.sum_range_succ, Nat.factorial]))
  linarith

theorem syn2_cell33 (x y : ℝ) (hxa : (7/2) ≤ x) (hxb : x ≤ (4)) (hya : (1) ≤ y) (hyb : y ≤ (2)) :
    synthetic2D x y ≤ (121212 / 100000 : ℝ) := by
  rw [synthetic2D_at]
  have t1 := gauss2_far (7/10) (18/100) 1 1 x y _ _ (by norm_num) (by norm_num) (sq_lb_left (7/2) 1 x hxa (by norm_num)) (sq_lb_left (1) 1 y hya (by norm_num)) (by norm_num)
  have t2 := gauss2_far (75/100) (32/100) 1 3 x y _ _ (by norm_num) (by norm_num) (sq_lb_left (7/2) 1 x hxa (by norm_num)) (sq_lb_right (2) 3 y hyb (by norm_num)) (by norm_num)
  have t3 := gauss2_le_one 2 3 1 x y _ _ _ (by norm_num) (sq_lb_left (7/2) 3 x hxa (by norm_num)) (sq_lb_left (1) 1 y hya (by norm_num))
    (exp_neg_le_of_poly 2 _ (888889/1000000) (by norm_num) (by norm_num [Finset.sum_range_succ, Nat.factorial]))
  have t4 := gauss2_le (12/10) (32/100) 3 4 x y _ _ _ (by norm_num) (by norm_num) (sq_lb_left (7/2) 3 x hxa (by norm_num)) (sq_lb_right (2) 4 y hyb (by norm_num))
    (exp_neg_le_of_poly 14 _ (1/250000) (by norm_num) (by norm_num [Finset.sum_range_succ, Nat.factorial]))
  have t5 := gauss2_le_one (72/100) 5 2 x y _ _ _ (by norm_num) (sq_lb_right (4) 5 x hxb (by norm_num)) (sq_lb_right (2) 2 y hyb (by norm_num))
    (exp_neg_le_of_poly 6 _ (250123/1000000) (by norm_num) (by norm_num [Finset.sum_range_succ, Nat.factorial]))
  linarith

theorem syn2_node27 (x y : ℝ) (hxa : (3) ≤ x) (hxb : x ≤ (4)) (hya : (1) ≤ y) (hyb : y ≤ (2)) :
    synthetic2D x y ≤ (121212 / 100000 : ℝ) := by
  rcases le_total x (7/2) with h | h
  · exact syn2_cell32 x y hxa h hya hyb
  · exact syn2_cell33 x y h hxb hya hyb

theorem syn2_node28 (x y : ℝ) (hxa : (3) ≤ x) (hxb : x ≤ (4)) (hya : (0) ≤ y) (hyb : y ≤ (2)) :
    synthetic2D x y ≤ (121212 / 100000 : ℝ) := by
  rcases le_total y (1) with h | h
  · exact syn2_cell31 x y hxa hxb hya h
  · exact syn2_node27 x y hxa hxb h hyb

theorem syn2_cell34 (x y : ℝ) (hxa : (4) ≤ x) (hxb : x ≤ (5)) (hya : (0) ≤ y) (hyb : y ≤ (1)) :
    synthetic2D x y ≤ (121212 / 100000 : ℝ) := by
  rw [synthetic2D_at]
  have t1 := gauss2_far (7/10) (18/100) 1 1 x y _ _ (by norm_num) (by norm_num) (sq_lb_left (4) 1 x hxa (by norm_num)) (sq_lb_right (1) 1 y hyb (by norm_num)) (by norm_num)
  have t2 := gauss2_far (75/100) (32/100) 1 3 x y _ _ (by norm_num) (by norm_num) (sq_lb_left (4) 1 x hxa (by norm_num)) (sq_lb_right (1) 3 y hyb (by norm_num)) (by norm_num)
  have t3 := gauss2_le_one 2 3 1 x y _ _ _ (by norm_num) (sq_lb_left (4) 3 x hxa (by norm_num)) (sq_lb_right (1) 1 y hyb (by norm_num))
    (exp_neg_le_of_poly 4 _ (121519/200000) (by norm_num) (by norm_num [Finset.sum_range_succ, Nat.factorial]))
  have t4 := gauss2_far (12/10) (32/100) 3 4 x y _ _ (by norm_num) (by norm_num) (sq_lb_left (4) 3 x hxa (by norm_num)) (sq_lb_right (1) 4 y hyb (by norm_num)) (by norm_num)
  have t5 := gauss2_le_one (72/100) 5 2 x y _ _ _ (by norm_num) (sq_lb_right (5) 5 x hxb (by norm_num)) (sq_lb_right (1) 2 y hyb (by norm_num))
    (exp_neg_le_of_poly 6 _ (250123/1000000) (by norm_num) (by norm_num [Finset.sum_range_succ, Nat.factorial]))
  linarith

theorem syn2_cell35 (x y : ℝ) (hxa : (4) ≤ x) (hxb : x ≤ (9/2)) (hya : (1) ≤ y) (hyb : y ≤ (3/2)) :
    synthetic2D x y ≤ (121212 / 100000 : ℝ) := by
  rw [synthetic2D_at]
  have t1 := gauss2_far (7/10) (18/100) 1 1 x y _ _ (by norm_num) (by norm_num) (sq_lb_left (4) 1 x hxa (by norm_num)) (sq_lb_left (1) 1 y hya (by norm_num)) (by norm_num)
  have t2 := gauss2_far (75/100) (32/100) 1 3 x y _ _ (by norm_num) (by norm_num) (sq_lb_left (4) 1 x hxa (by norm_num)) (sq_lb_right (3/2) 3 y hyb (by norm_num)) (by norm_num)
  have t3 := gauss2_le_one 2 3 1 x y _ _ _ (by norm_num) (sq_lb_left (4) 3 x hxa (by norm_num)) (sq_lb_left (1) 1 y hya (by norm_num))
    (exp_neg_le_of_poly 4 _ (121519/200000) (by norm_num) (by norm_num [Finset.sum_range_succ, Nat.factorial]))
  have t4 := gauss2_far (12/10) (32/100) 3 4 x y _ _ (by norm_num) (by norm_num) (sq_lb_left (4) 3 x hxa (by norm_num)) (sq_lb_right (3/2) 4 y hyb (by norm_num)) (by norm_num)
  have t5 := gauss2_le_one (72/100) 5 2 x y _ _ _ (by norm_num) (sq_lb_right (9/2) 5 x hxb (by norm_num)) (sq_lb_right (3/2) 2 y hyb (by norm_num))
    (exp_neg_le_of_poly 4 _ (502163/1000000) (by norm_num) (by norm_num [Finset.sum_range_succ, Nat.factorial]))
  linarith

theorem syn2_cell36 (x y : ℝ) (hxa : (4) ≤ x) (hxb : x ≤ (17/4)) (hya : (3/2) ≤ y) (hyb : y ≤ (2)) :
    synthetic2D x y ≤ (121212 / 100000 : ℝ) := by
  rw [synthetic2D_at]
  have t1 := gauss2_far (7/10) (18/100) 1 1 x y _ _ (by norm_num) (by norm_num) (sq_lb_left (4) 1 x hxa (by norm_num)) (sq_lb_left (3/2) 1 y hya (by norm_num)) (by norm_num)
  have t2 := gauss2_far (75/100) (32/100) 1 3 x y _ _ (by norm_num) (by norm_num) (sq_lb_left (4) 1 x hxa (by norm_num)) (sq_lb_right (2) 3 y hyb (by norm_num)) (by norm_num)
  have t3 := gauss2_le_one 2 3 1 x y _ _ _ (by norm_num) (sq_lb_left (4) 3 x hxa (by norm_num)) (sq_lb_left (3/2) 1 y hya (by norm_num))
    (exp_neg_le_of_poly 4 _ (107469/200000) (by norm_num) (by norm_num [Finset.sum_range_succ, Nat.factorial]))
  have t4 := gauss2_far (12/10) (32/100) 3 4 x y _ _ (by norm_num) (by norm_num) (sq_lb_left (4) 3 x hxa (by norm_num)) (sq_lb_right (2) 4 y hyb (by norm_num)) (by norm_num)
  have t5 := gauss2_le_one (72/100) 5 2 x y _ _ _ (by norm_num) (sq_lb_right (17/4) 5 x hxb (by norm_num)) (sq_lb_right (2) 2 y hyb (by norm_num))
    (exp_neg_le_of_poly 4 _ (461703/1000000) (by norm_num) (by norm_num [Finset.sum_range_succ, Nat.factorial]))
  linarith

theorem syn2_cell37 (x y : ℝ) (hxa : (17/4) ≤ x) (hxb : x ≤ (9/2)) (hya : (3/2) ≤ y) (hyb : y ≤ (2)) :
    synthetic2D x y ≤ (121212 / 100000 : ℝ) := by
  rw [synthetic2D_at]
  have t1 := gauss2_far (7/10) (18/100) 1 1 x y _ _ (by norm_num) (by norm_num) (sq_lb_left (17/4) 1 x hxa (by norm_num)) (sq_lb_left (3/2) 1 y hya (by norm_num)) (by norm_num)
  have t2 := gauss2_far (75/100) (32/100) 1 3 x y _ _ (by norm_num) (by norm_num) (sq_lb_left (17/4) 1 x hxa (by norm_num)) (sq_lb_right (2) 3 y hyb (by norm_num)) (by norm_num)
  have t3 := gauss2_le_one 2 3 1 x y _ _ _ (by norm_num) (sq_lb_left (17/4) 3 x hxa (by norm_num)) (sq_lb_left (3/2) 1 y hya (by norm_num))
    (exp_neg_le_of_poly 5 _ (81003/200000) (by norm_num) (by norm_num [Finset.sum_range_succ, Nat.factorial]))
  have t4 := gauss2_far (12/10) (32/100) 3 4 x y _ _ (by norm_num) (by norm_num) (sq_lb_left (17/4) 3 x hxa (by norm_num)) (sq_lb_right (2) 4 y hyb (by norm_num)) (by norm_num)
  have t5 := gauss2_le_one (72/100) 5 2 x y _ _ _ (by norm_num) (sq_lb_right (9/2) 5 x hxb (by norm_num)) (sq_lb_right (2) 2 y hyb (by norm_num))
    (exp_neg_le_of_poly 3 _ (355239/500000) (by norm_num) (by norm_num [Finset.sum_range_succ, Nat.factorial]))
  linarith

theorem syn2_node29 (x y : ℝ) (hxa : (4) ≤ x) (hxb : x ≤ (9/2)) (hya : (3/2) ≤ y) (hyb : y ≤ (2)) :
    synthetic2D x y ≤ (121212 / 100000 : ℝ) := by
  rcases le_total x (17/4) with h | h
  · exact syn2_cell36 x y hxa h hya hyb
  · exact syn2_cell37 x y h hxb hya hyb

theorem syn2_node30 (x y : ℝ) (hxa : (4) ≤ x) (hxb : x ≤ (9/2)) (hya : (1) ≤ y) (hyb : y ≤ (2)) :
    synthetic2D x y ≤ (121212 / 100000 : ℝ) := by
  rcases le_total y (3/2) with h | h
  · exact syn2_cell35 x y hxa hxb hya h
  · exact syn2_node29 x y hxa hxb h hyb

theorem syn2_cell38 (x y : ℝ) (hxa : (9/2) ≤ x) (hxb : x ≤ (5)) (hya : (1) ≤ y) (hyb : y ≤ (3/2)) :
    synthetic2D x y ≤ (121212 / 100000 : ℝ) := by
  rw [synthetic2D_at]
  have t1 := gauss2_far (7/10) (18/100) 1 1 x y _ _ (by norm_num) (by norm_num) (sq_lb_left (9/2) 1 x hxa (by norm_num)) (sq_lb_left (1) 1 y hya (by norm_num)) (by norm_num)
  have t2 := gauss2_far (75/100) (32/100) 1 3 x y _ _ (by norm_num) (by norm_num) (sq_lb_left (9/2) 1 x hxa (by norm_num)) (sq_lb_right (3/2) 3 y hyb (by norm_num)) (by norm_num)
  have t3 := gauss2_le_one 2 3 1 x y _ _ _ (by norm_num) (sq_lb_left (9/2) 3 x hxa (by norm_num)) (sq_lb_left (1) 1 y hya (by norm_num))
    (exp_neg_le_of_poly 5 _ (326599/1000000) (by norm_num) (by norm_num [Finset.sum_range_succ, Nat.factorial]))
  have t4 := gauss2_far (12/10) (32/100) 3 4 x y _ _ (by norm_num) (by norm_num) (sq_lb_left (9/2) 3 x hxa (by norm_num)) (sq_lb_right (3/2) 4 y hyb (by norm_num)) (by norm_num)
  have t5 := gauss2_le_one (72/100) 5 2 x y _ _ _ (by norm_num) (sq_lb_right (5) 5 x hxb (by norm_num)) (sq_lb_right (3/2) 2 y hyb (by norm_num))
    (exp_neg_le_of_poly 3 _ (355239/500000) (by norm_num) (by norm_num [Finset.sum_range_succ, Nat.factorial]))
  linarith

theorem syn2_cell39 (x y : ℝ) (hxa : (9/2) ≤ x) (hxb : x ≤ (19/4)) (hya : (3/2) ≤ y) (hyb : y ≤ (2)) :
    synthetic2D x y ≤ (121212 / 100000 : ℝ) := by
  rw [synthetic2D_at]
  have t1 := gauss2_far (7/10) (18/100) 1 1 x y _ _ (by norm_num) (by norm_num) (sq_lb_left (9/2) 1 x hxa (by norm_num)) (sq_lb_left (3/2) 1 y hya (by norm_num)) (by norm_num)
  have t2 := gauss2_far (75/100) (32/100) 1 3 x y _ _ (by norm_num) (by norm_num) (sq_lb_left (9/2) 1 x hxa (by norm_num)) (sq_lb_right (2) 3 y hyb (by norm_num)) (by norm_num)
  have t3 := gauss2_le_one 2 3 1 x y _ _ _ (by norm_num) (sq_lb_left (9/2) 3 x hxa (by norm_num)) (sq_lb_left (3/2) 1 y hya (by norm_num))
    (exp_neg_le_of_poly 5 _ (36143/125000) (by norm_num) (by norm_num [Finset.sum_range_succ, Nat.factorial]))
  have t4 := gauss2_far (12/10) (32/100) 3 4 x y _ _ (by norm_num) (by norm_num) (sq_lb_left (9/2) 3 x hxa (by norm_num)) (sq_lb_right (2) 4 y hyb (by norm_num)) (by norm_num)
  have t5 := gauss2_le_one (72/100) 5 2 x y _ _ _ (by norm_num) (sq_lb_right (19/4) 5 x hxb (by norm_num)) (sq_lb_right (2) 2 y hyb (by norm_num))
    (exp_neg_le_of_poly 2 _ (14377/15625) (by norm_num) (by norm_num [Finset.sum_range_succ, Nat.factorial]))
  linarith

theorem syn2_cell40 (x y : ℝ) (hxa : (19/4) ≤ x) (hxb : x ≤ (5)) (hya : (3/2) ≤ y) (hyb : y ≤ (2)) :
    synthetic2D x y ≤ (121212 / 100000 : ℝ) := by
  rw [synthetic2D_at]
  have t1 := gauss2_far (7/10) (18/100) 1 1 x y _ _ (by norm_num) (by norm_num) (sq_lb_left (19/4) 1 x hxa (by norm_num)) (sq_lb_left (3/2) 1 y hya (by norm_num)) (by norm_num)
  have t2 := gauss2_far (75/100) (32/100) 1 3 x y _ _ (by norm_num) (by norm_num) (sq_lb_left (19/4) 1 x hxa (by norm_num)) (sq_lb_right (2) 3 y hyb (by norm_num)) (by norm_num)
  have t3 := gauss2_le_one 2 3 1 x y _ _ _ (by norm_num) (sq_lb_left (19/4) 3 x hxa (by norm_num)) (sq_lb_left (3/2) 1 y hya (by norm_num))
    (exp_neg_le_of_poly 6 _ (192217/1000000) (by norm_num) (by norm_num [Finset.sum_range_succ, Nat.factorial]))
  have t4 := gauss2_far (12/10) (32/100) 3 4 x y _ _ (by norm_num) (by norm_num) (sq_lb_left (19/4) 3 x hxa (by norm_num)) (sq_lb_right (2) 4 y hyb (by norm_num)) (by norm_num)
  have t5 := gauss2_le_one (72/100) 5 2 x y _ _ _ (by norm_num) (sq_lb_right (5) 5 x hxb (by norm_num)) (sq_lb_right (2) 2 y hyb (by norm_num))
    (exp_neg_le_of_poly 1 _ (1) (by norm_num) (by norm_num [Finset.sum_range_succ, Nat.factorial]))
  linarith

theorem syn2_node31 (x y : ℝ) (hxa : (9/2) ≤ x) (hxb : x ≤ (5)) (hya : (3/2) ≤ y) (hyb : y ≤ (2)) :
    synthetic2D x y ≤ (121212 / 100000 : ℝ) := by
  rcases le_total x (19/4) with h | h
  · exact syn2_cell39 x y hxa h hya hyb
  · exact syn2_cell40 x y h hxb hya hyb

theorem syn2_node32 (x y : ℝ) (hxa : (9/2) ≤ x) (hxb : x ≤ (5)) (hya : (1) ≤ y) (hyb : y ≤ (2)) :
    synthetic2D x y ≤ (121212 / 100000 : ℝ) := by
  rcases le_total y (3/2) with h | h
  · exact syn2_cell38 x y hxa hxb hya h
  · exact syn2_node31 x y hxa hxb h hyb

theorem syn2_node33 (x y : ℝ) (hxa : (4) ≤ x) (hxb : x ≤ (5)) (hya : (1) ≤ y) (hyb : y ≤ (2)) :
    synthetic2D x y ≤ (121212 / 100000 : ℝ) := by
  rcases le_total x (9/2) with h | h
  · exact syn2_node30 x y hxa h hya hyb
  · exact syn2_node32 x y h hxb hya hyb

theorem syn2_node34 (x y : ℝ) (hxa : (4) ≤ x) (hxb : x ≤ (5)) (hya : (0) ≤ y) (hyb : y ≤ (2)) :
    synthetic2D x y ≤ (121212 / 100000 : ℝ) := by
  rcases le_total y (1) with h | h
  · exact syn2_cell34 x y hxa hxb hya h
  · exact syn2_node33 x y hxa hxb h hyb

theorem syn2_node35 (x y : ℝ) (hxa : (3) ≤ x) (hxb : x ≤ (5)) (hya : (0) ≤ y) (hyb : y ≤ (2)) :
    synthetic2D x y ≤ (121212 / 100000 : ℝ) := by
  rcases le_total x (4) with h | h
  · exact syn2_node28 x y hxa h hya hyb
  · exact syn2_node34 x y h hxb hya hyb

theorem syn2_node36 (x y : ℝ) (hxa : (3) ≤ x) (hxb : x ≤ (5)) (hya : (-2) ≤ y) (hyb : y ≤ (2)) :
    synthetic2D x y ≤ (121212 / 100000 : ℝ) := by
  rcases le_total y (0) with h | h
  · exact syn2_cell30 x y hxa hxb hya h
  · exact syn2_node35 x y hxa hxb h hyb

theorem syn2_cell41 (x y : ℝ) (hxa : (5) ≤ x) (hxb : x ≤ (7)) (hya : (-2) ≤ y) (hyb : y ≤ (2)) :
    synthetic2D x y ≤ (121212 / 100000 : ℝ) := by
  rw [synthetic2D_at]
  have t1 := gauss2_far (7/10) (18/100) 1 1 x y _ _ (by norm_num) (by norm_num) (sq_lb_left (5) 1 x hxa (by norm_num)) (sq_nonneg _) (by norm_num)
  have t2 := gauss2_far (75/100) (32/100) 1 3 x y _ _ (by norm_num) (by norm_num) (sq_lb_left (5) 1 x hxa (by norm_num)) (sq_lb_right (2) 3 y hyb (by norm_num)) (by norm_num)
  have t3 := gauss2_le_one 2 3 1 x y _ _ _ (by norm_num) (sq_lb_left (5) 3 x hxa (by norm_num)) (sq_nonneg _)
    (exp_neg_le_of_poly 8 _ (33871/250000) (by norm_num) (by norm_num [Finset.sum_range_succ, Nat.factorial]))
  have t4 := gauss2_far (12/10) (32/100) 3 4 x y _ _ (by norm_num) (by norm_num) (sq_lb_left (5) 3 x hxa (by norm_num)) (sq_lb_right (2) 4 y hyb (by norm_num)) (by norm_num)
  have t5 := gauss2_le_one (72/100) 5 2 x y _ _ _ (by norm_num) (sq_lb_left (5) 5 x hxa (by norm_num)) (sq_lb_right (2) 2 y hyb (by norm_num))
    (exp_neg_le_of_poly 1 _ (1) (by norm_num) (by norm_num [Finset.sum_range_succ, Nat.factorial]))
  linarith

theorem syn2_node37 (x y : ℝ) (hxa : (3) ≤ x) (hxb : x ≤ (7)) (hya : (-2) ≤ y) (hyb : y ≤ (2)) :
    synthetic2D x y ≤ (121212 / 100000 : ℝ) := by
  rcases le_total x (5) with h | h
  · exact syn2_node36 x y hxa h hya hyb
  · exact syn2_cell41 x y h hxb hya hyb

theorem syn2_cell42 (x y : ℝ) (hxa : (3) ≤ x) (hxb : x ≤ (4)) (hya : (2) ≤ y) (hyb : y ≤ (3)) :
    synthetic2D x y ≤ (121212 / 100000 : ℝ) := by
  rw [synthetic2D_at]
  have t1 := gauss2_far (7/10) (18/100) 1 1 x y _ _ (by norm_num) (by norm_num) (sq_lb_left (3) 1 x hxa (by norm_num)) (sq_lb_left (2) 1 y hya (by norm_num)) (by norm_num)
  have t2 := gauss2_le (75/100) (32/100) 1 3 x y _ _ _ (by norm_num) (by norm_num) (sq_lb_left (3) 1 x hxa (by norm_num)) (sq_lb_right (3) 3 y hyb (by norm_num))
    (exp_neg_le_of_poly 14 _ (3/500000) (by norm_num) (by norm_num [Finset.sum_range_succ, Nat.factorial]))
  have t3 := gauss2_le_one 2 3 1 x y _ _ _ (by norm_num) (sq_lb_left (3) 3 x hxa (by norm_num)) (sq_lb_left (2) 1 y hya (by norm_num))
    (exp_neg_le_of_poly 4 _ (121519/200000) (by norm_num) (by norm_num [Finset.sum_range_succ, Nat.factorial]))
  have t4 := gauss2_le (12/10) (32/100) 3 4 x y _ _ _ (by norm_num) (by norm_num) (sq_lb_left (3) 3 x hxa (by norm_num)) (sq_lb_right (3) 4 y hyb (by norm_num))
    (exp_neg_le_of_poly 10 _ (44003/1000000) (by norm_num) (by norm_num [Finset.sum_range_succ, Nat.factorial]))
  have t5 := gauss2_le_one (72/100) 5 2 x y _ _ _ (by norm_num) (sq_lb_right (4) 5 x hxb (by norm_num)) (sq_lb_left (2) 2 y hya (by norm_num))
    (exp_neg_le_of_poly 6 _ (250123/1000000) (by norm_num) (by norm_num [Finset.sum_range_succ, Nat.factorial]))
  linarith

theorem syn2_cell43 (x y : ℝ) (hxa : (3) ≤ x) (hxb : x ≤ (7/2)) (hya : (3) ≤ y) (hyb : y ≤ (7/2)) :
    synthetic2D x y ≤ (121212 / 100000 : ℝ) := by
  rw [synthetic2D_at]
  have t1 := gauss2_far (7/10) (18/100) 1 1 x y _ _ (by norm_num) (by norm_num) (sq_lb_left (3) 1 x hxa (by norm_num)) (sq_lb_left (3) 1 y hya (by norm_num)) (by norm_num)
  have t2 := gauss2_le (75/100) (32/100) 1 3 x y _ _ _ (by norm_num) (by norm_num) (sq_lb_left (3) 1 x hxa (by norm_num)) (sq_lb_left (3) 3 y hya (by norm_num))
    (exp_neg_le_of_poly 14 _ (3/500000) (by norm_num) (by norm_num [Finset.sum_range_succ, Nat.factorial]))
  have t3 := gauss2_le_one 2 3 1 x y _ _ _ (by norm_num) (sq_lb_left (3) 3 x hxa (by norm_num)) (sq_lb_left (3) 1 y hya (by norm_num))
    (exp_neg_le_of_poly 8 _ (33871/250000) (by norm_num) (by norm_num [Finset.sum_range_succ, Nat.factorial]))
  have t4 := gauss2_le (12/10) (32/100) 3 4 x y _ _ _ (by norm_num) (by norm_num) (sq_lb_left (3) 3 x hxa (by norm_num)) (sq_lb_right (7/2) 4 y hyb (by norm_num))
    (exp_neg_le_of_poly 4 _ (461703/1000000) (by norm_num) (by norm_num [Finset.sum_range_succ, Nat.factorial]))
  have t5 := gauss2_le_one (72/100) 5 2 x y _ _ _ (by norm_num) (sq_lb_right (7/2) 5 x hxb (by norm_num)) (sq_lb_left (3) 2 y hya (by norm_num))
    (exp_neg_le_of_poly 12 _ (10983/1000000) (by norm_num) (by norm_num [Finset.sum_range_succ, Nat.factorial]))
  linarith

theorem syn2_cell44 (x y : ℝ) (hxa : (3) ≤ x) (hxb : x ≤ (13/4)) (hya : (7/2) ≤ y) (hyb : y ≤ (15/4)) :
    synthetic2D x y ≤ (121212 / 100000 : ℝ) := by
  rw [synthetic2D_at]
  have t1 := gauss2_far (7/10) (18/100) 1 1 x y _ _ (by norm_num) (by norm_num) (sq_lb_left (3) 1 x hxa (by norm_num)) (sq_lb_left (7/2) 1 y hya (by norm_num)) (by norm_num)
  have t2 := gauss2_le (75/100) (32/100) 1 3 x y _ _ _ (by norm_num) (by norm_num) (sq_lb_left (3) 1 x hxa (by norm_num)) (sq_lb_left (7/2) 3 y hya (by norm_num))
    (exp_neg_le_of_poly 14 _ (1/250000) (by norm_num) (by norm_num [Finset.sum_range_succ, Nat.factorial]))
  have t3 := gauss2_le_one 2 3 1 x y _ _ _ (by norm_num) (sq_lb_left (3) 3 x hxa (by norm_num)) (sq_lb_left (7/2) 1 y hya (by norm_num))
    (exp_neg_le_of_poly 10 _ (44003/1000000) (by norm_num) (by norm_num [Finset.sum_range_succ, Nat.factorial]))
  have t4 := gauss2_le (12/10) (32/100) 3 4 x y _ _ _ (by norm_num) (by norm_num) (sq_lb_left (3) 3 x hxa (by norm_num)) (sq_lb_right (15/4) 4 y hyb (by norm_num))
    (exp_neg_le_of_poly 3 _ (411731/500000) (by norm_num) (by norm_num [Finset.sum_range_succ, Nat.factorial]))
  have t5 := gauss2_le_one (72/100) 5 2 x y _ _ _ (by norm_num) (sq_lb_right (13/4) 5 x hxb (by norm_num)) (sq_lb_left (7/2) 2 y hya (by norm_num))
    (exp_neg_le_of_poly 16 _ (157/250000) (by norm_num) (by norm_num [Finset.sum_range_succ, Nat.factorial]))
  linarith

theorem syn2_cell45 (x y : ℝ) (hxa : (3) ≤ x) (hxb : x ≤ (25/8)) (hya : (15/4) ≤ y) (hyb : y ≤ (31/8)) :
    synthetic2D x y ≤ (121212 / 100000 : ℝ) := by
  rw [synthetic2D_at]
  have t1 := gauss2_far (7/10) (18/100) 1 1 x y _ _ (by norm_num) (by norm_num) (sq_lb_left (3) 1 x hxa (by norm_num)) (sq_lb_left (15/4) 1 y hya (by norm_num)) (by norm_num)
  have t2 := gauss2_far (75/100) (32/100) 1 3 x y _ _ (by norm_num) (by norm_num) (sq_lb_left (3) 1 x hxa (by norm_num)) (sq_lb_left (15/4) 3 y hya (by norm_num)) (by norm_num)
  have t3 := gauss2_le_one 2 3 1 x y _ _ _ (by norm_num) (sq_lb_left (3) 3 x hxa (by norm_num)) (sq_lb_left (15/4) 1 y hya (by norm_num))
    (exp_neg_le_of_poly 10 _ (22923/1000000) (by norm_num) (by norm_num [Finset.sum_range_succ, Nat.factorial]))
  have t4 := gauss2_le (12/10) (32/100) 3 4 x y _ _ _ (by norm_num) (by norm_num) (sq_lb_left (3) 3 x hxa (by norm_num)) (sq_lb_right (31/8) 4 y hyb (by norm_num))
    (exp_neg_le_of_poly 2 _ (476723/500000) (by norm_num) (by norm_num [Finset.sum_range_succ, Nat.factorial]))
  have t5 := gauss2_le_one (72/100) 5 2 x y _ _ _ (by norm_num) (sq_lb_right (25/8) 5 x hxb (by norm_num)) (sq_lb_left (15/4) 2 y hya (by norm_num))
    (exp_neg_le_of_poly 16 _ (111/1000000) (by norm_num) (by norm_num [Finset.sum_range_succ, Nat.factorial]))
  linarith

theorem syn2_cell46 (x y : ℝ) (hxa : (3) ≤ x) (hxb : x ≤ (49/16)) (hya : (31/8) ≤ y) (hyb : y ≤ (63/16)) :
    synthetic2D x y ≤ (121212 / 100000 : ℝ) := by
  rw [synthetic2D_at]
  have t1 := gauss2_far (7/10) (18/100) 1 1 x y _ _ (by norm_num) (by norm_num) (sq_lb_left (3) 1 x hxa (by norm_num)) (sq_lb_left (31/8) 1 y hya (by norm_num)) (by norm_num)
  have t2 := gauss2_far (75/100) (32/100) 1 3 x y _ _ (by norm_num) (by norm_num) (sq_lb_left (3) 1 x hxa (by norm_num)) (sq_lb_left (31/8) 3 y hya (by norm_num)) (by norm_num)
  have t3 := gauss2_le_one 2 3 1 x y _ _ _ (by norm_num) (sq_lb_left (3) 3 x hxa (by norm_num)) (sq_lb_left (31/8) 1 y hya (by norm_num))
    (exp_neg_le_of_poly 10 _ (16201/1000000) (by norm_num) (by norm_num [Finset.sum_range_succ, Nat.factorial]))
  have t4 := gauss2_le (12/10) (32/100) 3 4 x y _ _ _ (by norm_num) (by norm_num) (sq_lb_left (3) 3 x hxa (by norm_num)) (sq_lb_right (63/16) 4 y hyb (by norm_num))
    (exp_neg_le_of_poly 2 _ (987941/1000000) (by norm_num) (by norm_num [Finset.sum_range_succ, Nat.factorial]))
  have t5 := gauss2_le_one (72/100) 5 2 x y _ _ _ (by norm_num) (sq_lb_right (49/16) 5 x hxb (by norm_num)) (sq_lb_left (31/8) 2 y hya (by norm_num))
    (exp_neg_le_of_poly 16 _ (11/250000) (by norm_num) (by norm_num [Finset.sum_range_succ, Nat.factorial]))
  linarith

theorem syn2_cell47 (x y : ℝ) (hxa : (3) ≤ x) (hxb : x ≤ (97/32)) (hya : (63/16) ≤ y) (hyb : y ≤ (127/32)) :
    synthetic2D x y ≤ (121212 / 100000 : ℝ) := by
  rw [synthetic2D_at]
  have t1 := gauss2_far (7/10) (18/100) 1 1 x y _ _ (by norm_num) (by norm_num) (sq_lb_left (3) 1 x hxa (by norm_num)) (sq_lb_left (63/16) 1 y hya (by norm_num)) (by norm_num)
  have t2 := gauss2_far (75/100) (32/100) 1 3 x y _ _ (by norm_num) (by norm_num) (sq_lb_left (3) 1 x hxa (by norm_num)) (sq_lb_left (63/16) 3 y hya (by norm_num)) (by norm_num)
  have t3 := gauss2_le_one 2 3 1 x y _ _ _ (by norm_num) (sq_lb_left (3) 3 x hxa (by norm_num)) (sq_lb_left (63/16) 1 y hya (by norm_num))
    (exp_neg_le_of_poly 12 _ (13397/1000000) (by norm_num) (by norm_num [Finset.sum_range_succ, Nat.factorial]))
  have t4 := gauss2_le (12/10) (32/100) 3 4 x y _ _ _ (by norm_num) (by norm_num) (sq_lb_left (3) 3 x hxa (by norm_num)) (sq_lb_right (127/32) 4 y hyb (by norm_num))
    (exp_neg_le_of_poly 2 _ (498479/500000) (by norm_num) (by norm_num [Finset.sum_range_succ, Nat.factorial]))
  have t5 := gauss2_le_one (72/100) 5 2 x y _ _ _ (by norm_num) (sq_lb_right (97/32) 5 x hxb (by norm_num)) (sq_lb_left (63/16) 2 y hya (by norm_num))
    (exp_neg_le_of_poly 16 _ (27/1000000) (by norm_num) (by norm_num [Finset.sum_range_succ, Nat.factorial]))
  linarith

theorem syn2_cell48 (x y : ℝ) (hxa : (3) ≤ x) (hxb : x ≤ (193/64)) (hya : (127/32) ≤ y) (hyb : y ≤ (255/64)) :
    synthetic2D x y ≤ (121212 / 100000 : ℝ) := by
  rw [synthetic2D_at]
  have t1 := gauss2_far (7/10) (18/100) 1 1 x y _ _ (by norm_num) (by norm_num) (sq_lb_left (3) 1 x hxa (by norm_num)) (sq_lb_left (127/32) 1 y hya (by norm_num)) (by norm_num)
  have t2 := gauss2_far (75/100) (32/100) 1 3 x y _ _ (by norm_num) (by norm_num) (sq_lb_left (3) 1 x hxa (by norm_num)) (sq_lb_left (127/32) 3 y hya (by norm_num)) (by norm_num)
  have t3 := gauss2_le_one 2 3 1 x y _ _ _ (by norm_num) (sq_lb_left (3) 3 x hxa (by norm_num)) (sq_lb_left (127/32) 1 y hya (by norm_num))
    (exp_neg_le_of_poly 12 _ (611/50000) (by norm_num) (by norm_num [Finset.sum_range_succ, Nat.factorial]))
  have t4 := gauss2_le (12/10) (32/100) 3 4 x y _ _ _ (by norm_num) (by norm_num) (sq_lb_left (3) 3 x hxa (by norm_num)) (sq_lb_right (255/64) 4 y hyb (by norm_num))
    (exp_neg_le_of_poly 2 _ (499619/500000) (by norm_num) (by norm_num [Finset.sum_range_succ, Nat.factorial]))
  have t5 := gauss2_le_one (72/100) 5 2 x y _ _ _ (by norm_num) (sq_lb_right (193/64) 5 x hxb (by norm_num)) (sq_lb_left (127/32) 2 y hya (by norm_num))
    (exp_neg_le_of_poly 16 _ (11/500000) (by norm_num) (by norm_num [Finset.sum_range_succ, Nat.factorial]))
  linarith

theorem syn2_cell49 (x y : ℝ) (hxa : (3) ≤ x) (hxb : x ≤ (193/64)) (hya : (255/64) ≤ y) (hyb : y ≤ (4)) :
    synthetic2D x y ≤ (121212 / 100000 : ℝ) := by
  rw [synthetic2D_at]
  have t1 := gauss2_far (7/10) (18/100) 1 1 x y _ _ (by norm_num) (by norm_num) (sq_lb_left (3) 1 x hxa (by norm_num)) (sq_lb_left (255/64) 1 y hya (by norm_num)) (by norm_num)
  have t2 := gauss2_far (75/100) (32/100) 1 3 x y _ _ (by norm_num) (by norm_num) (sq_lb_left (3) 1 x hxa (by norm_num)) (sq_lb_left (255/64) 3 y hya (by norm_num)) (by norm_num)
  have t3 := gauss2_le_one 2 3 1 x y _ _ _ (by norm_num) (sq_lb_left (3) 3 x hxa (by norm_num)) (sq_lb_left (255/64) 1 y hya (by norm_num))
    (exp_neg_le_of_poly 12 _ (11667/1000000) (by norm_num) (by norm_num [Finset.sum_range_succ, Nat.factorial]))
  have t4 := gauss2_le (12/10) (32/100) 3 4 x y _ _ _ (by norm_num) (by norm_num) (sq_lb_left (3) 3 x hxa (by norm_num)) (sq_lb_right (4) 4 y hyb (by norm_num))
    (exp_neg_le_of_poly 1 _ (1) (by norm_num) (by norm_num [Finset.sum_range_succ, Nat.factorial]))
  have t5 := gauss2_le_one (72/100) 5 2 x y _ _ _ (by norm_num) (sq_lb_right (193/64) 5 x hxb (by norm_num)) (sq_lb_left (255/64) 2 y hya (by norm_num))
    (exp_neg_le_of_poly 16 _ (1/50000) (by norm_num) (by norm_num [Finset.sum_range_succ, Nat.factorial]))
  linarith

theorem syn2_node38 (x y : ℝ) (hxa : (3) ≤ x) (hxb : x ≤ (193/64)) (hya : (127/32) ≤ y) (hyb : y ≤ (4)) :
    synthetic2D x y ≤ (121212 / 100000 : ℝ) := by
  rcases le_total y (255/64) with h | h
  · exact syn2_cell48 x y hxa hxb hya h
  · exact syn2_cell49 x y hxa hxb h hyb

theorem syn2_cell50 (x y : ℝ) (hxa : (193/64) ≤ x) (hxb : x ≤ (97/32)) (hya : (127/32) ≤ y) (hyb : y ≤ (4)) :
    synthetic2D x y ≤ (121212 / 100000 : ℝ) := by
  rw [synthetic2D_at]
  have t1 := gauss2_far (7/10) (18/100) 1 1 x y _ _ (by norm_num) (by norm_num) (sq_lb_left (193/64) 1 x hxa (by norm_num)) (sq_lb_left (127/32) 1 y hya (by norm_num)) (by norm_num)
  have t2 := gauss2_far (75/100) (32/100) 1 3 x y _ _ (by norm_num) (by norm_num) (sq_lb_left (193/64) 1 x hxa (by norm_num)) (sq_lb_left (127/32) 3 y hya (by norm_num)) (by norm_num)
  have t3 := gauss2_le_one 2 3 1 x y _ _ _ (by norm_num) (sq_lb_left (193/64) 3 x hxa (by norm_num)) (sq_lb_left (127/32) 1 y hya (by norm_num))
    (exp_neg_le_of_poly 12 _ (12219/1000000) (by norm_num) (by norm_num [Finset.sum_range_succ, Nat.factorial]))
  have t4 := gauss2_le (12/10) (32/100) 3 4 x y _ _ _ (by norm_num) (by norm_num) (sq_lb_left (193/64) 3 x hxa (by norm_num)) (sq_lb_right (4) 4 y hyb (by norm_num))
    (exp_neg_le_of_poly 2 _ (499619/500000) (by norm_num) (by norm_num [Finset.sum_range_succ, Nat.factorial]))
  have t5 := gauss2_le_one (72/100) 5 2 x y _ _ _ (by norm_num) (sq_lb_right (97/32) 5 x hxb (by norm_num)) (sq_lb_left (127/32) 2 y hya (by norm_num))
    (exp_neg_le_of_poly 16 _ (23/1000000) (by norm_num) (by norm_num [Finset.sum_range_succ, Nat.factorial]))
  linarith

theorem syn2_node39 (x y : ℝ) (hxa : (3) ≤ x) (hxb : x ≤ (97/32)) (hya : (127/32) ≤ y) (hyb : y ≤ (4)) :
    synthetic2D x y ≤ (121212 / 100000 : ℝ) := by
  rcases le_total x (193/64) with h | h
  · exact syn2_node38 x y hxa h hya hyb
  · exact syn2_cell50 x y h hxb hya hyb

theorem syn2_node40 (x y : ℝ) (hxa : (3) ≤ x) (hxb : x ≤ (97/32)) (hya : (63/16) ≤ y) (hyb : y ≤ (4)) :
    synthetic2D x y ≤ (121212 / 100000 : ℝ) := by
  rcases le_total y (127/32) with h | h
  · exact syn2_cell47 x y hxa hxb hya h
  · exact syn2_node39 x y hxa hxb h hyb

theorem syn2_cell51 (x y : ℝ) (hxa : (97/32) ≤ x) (hxb : x ≤ (49/16)) (hya : (63/16) ≤ y) (hyb : y ≤ (4)) :
    synthetic2D x y ≤ (121212 / 100000 : ℝ) := by
  rw [synthetic2D_at]
  have t1 := gauss2_far (7/10) (18/100) 1 1 x y _ _ (by norm_num) (by norm_num) (sq_lb_left (97/32) 1 x hxa (by norm_num)) (sq_lb_left (63/16) 1 y hya (by norm_num)) (by norm_num)
  have t2 := gauss2_far (75/100) (32/100) 1 3 x y _ _ (by norm_num) (by norm_num) (sq_lb_left (97/32) 1 x hxa (by norm_num)) (sq_lb_left (63/16) 3 y hya (by norm_num)) (by norm_num)
  have t3 := gauss2_le_one 2 3 1 x y _ _ _ (by norm_num) (sq_lb_left (97/32) 3 x hxa (by norm_num)) (sq_lb_left (63/16) 1 y hya (by norm_num))
    (exp_neg_le_of_poly 12 _ (13391/1000000) (by norm_num) (by norm_num [Finset.sum_range_succ, Nat.factorial]))
  have t4 := gauss2_le (12/10) (32/100) 3 4 x y _ _ _ (by norm_num) (by norm_num) (sq_lb_left (97/32) 3 x hxa (by norm_num)) (sq_lb_right (4) 4 y hyb (by norm_num))
    (exp_neg_le_of_poly 2 _ (498479/500000) (by norm_num) (by norm_num [Finset.sum_range_succ, Nat.factorial]))
  have t5 := gauss2_le_one (72/100) 5 2 x y _ _ _ (by norm_num) (sq_lb_right (49/16) 5 x hxb (by norm_num)) (sq_lb_left (63/16) 2 y hya (by norm_num))
    (exp_neg_le_of_poly 16 _ (1/31250) (by norm_num) (by norm_num [Finset.sum_range_succ, Nat.factorial]))
  linarith

theorem syn2_node41 (x y : ℝ) (hxa : (3) ≤ x) (hxb : x ≤ (49/16)) (hya : (63/16) ≤ y) (hyb : y ≤ (4)) :
    synthetic2D x y ≤ (121212 / 100000 : ℝ) := by
  rcases le_total x (97/32) with h | h
  · exact syn2_node40 x y hxa h hya hyb
  · exact syn2_cell51 x y h hxb hya hyb

theorem syn2_node42 (x y : ℝ) (hxa : (3) ≤ x) (hxb : x ≤ (49/16)) (hya : (31/8) ≤ y) (hyb : y ≤ (4)) :
    synthetic2D x y ≤ (121212 / 100000 : ℝ) := by
  rcases le_total y (63/16) with h | h
  · exact syn2_cell46 x y hxa hxb hya h
  · exact syn2_node41 x y hxa hxb h hyb

theorem syn2_cell52 (x y : ℝ) (hxa : (49/16) ≤ x) (hxb : x ≤ (25/8)) (hya : (31/8) ≤ y) (hyb : y ≤ (4)) :
    synthetic2D x y ≤ (121212 / 100000 : ℝ) := by
  rw [synthetic2D_at]
  have t1 := gauss2_far (7/10) (18/100) 1 1 x y _ _ (by norm_num) (by norm_num) (sq_lb_left (49/16) 1 x hxa (by norm_num)) (sq_lb_left (31/8) 1 y hya (by norm_num)) (by norm_num)
  have t2 := gauss2_far (75/100) (32/100) 1 3 x y _ _ (by norm_num) (by norm_num) (sq_lb_left (49/16) 1 x hxa (by norm_num)) (sq_lb_left (31/8) 3 y hya (by norm_num)) (by norm_num)
  have t3 := gauss2_le_one 2 3 1 x y _ _ _ (by norm_num) (sq_lb_left (49/16) 3 x hxa (by norm_num)) (sq_lb_left (31/8) 1 y hya (by norm_num))
    (exp_neg_le_of_poly 12 _ (8013/500000) (by norm_num) (by norm_num [Finset.sum_range_succ, Nat.factorial]))
  have t4 := gauss2_le (12/10) (32/100) 3 4 x y _ _ _ (by norm_num) (by norm_num) (sq_lb_left (49/16) 3 x hxa (by norm_num)) (sq_lb_right (4) 4 y hyb (by norm_num))
    (exp_neg_le_of_poly 2 _ (987941/1000000) (by norm_num) (by norm_num [Finset.sum_range_succ, Nat.factorial]))
  have t5 := gauss2_le_one (72/100) 5 2 x y _ _ _ (by norm_num) (sq_lb_right (25/8) 5 x hxb (by norm_num)) (sq_lb_left (31/8) 2 y hya (by norm_num))
    (exp_neg_le_of_poly 16 _ (3/50000) (by norm_num) (by norm_num [Finset.sum_range_succ, Nat.factorial]))
  linarith

theorem syn2_node43 (x y : ℝ) (hxa : (3) ≤ x) (hxb : x ≤ (25/8)) (hya : (31/8) ≤ y) (hyb : y ≤ (4)) :
    synthetic2D x y ≤ (121212 / 100000 : ℝ) := by
  rcases le_total x (49/16) with h | h
  · exact syn2_node42 x y hxa h hya hyb
  · exact syn2_cell52 x y h hxb hya hyb

theorem syn2_node44 (x y : ℝ) (hxa : (3) ≤ x) (hxb : x ≤ (25/8)) (hya : (15/4) ≤ y) (hyb : y ≤ (4)) :
    synthetic2D x y ≤ (121212 / 100000 : ℝ) := by
  rcases le_total y (31/8) with h | h
  · exact syn2_cell45 x y hxa hxb hya h
  · exact syn2_node43 x y hxa hxb h hyb

theorem syn2_cell53 (x y : ℝ) (hxa : (25/8) ≤ x) (hxb : x ≤ (13/4)) (hya : (15/4) ≤ y) (hyb : y ≤ (4)) :
    synthetic2D x y ≤ (121212 / 100000 : ℝ) := by
  rw [synthetic2D_at]
  have t1 := gauss2_far (7/10) (18/100) 1 1 x y _ _ (by norm_num) (by norm_num) (sq_lb_left (25/8) 1 x hxa (by norm_num)) (sq_lb_left (15/4) 1 y hya (by norm_num)) (by norm_num)
  have t2 := gauss2_far (75/100) (32/100) 1 3 x y _ _ (by norm_num) (by norm_num) (sq_lb_left (25/8) 1 x hxa (by norm_num)) (sq_lb_left (15/4) 3 y hya (by norm_num)) (by norm_num)
  have t3 := gauss2_le_one 2 3 1 x y _ _ _ (by norm_num) (sq_lb_left (25/8) 3 x hxa (by norm_num)) (sq_lb_left (15/4) 1 y hya (by norm_num))
    (exp_neg_le_of_poly 10 _ (22747/1000000) (by norm_num) (by norm_num [Finset.sum_range_succ, Nat.factorial]))
  have t4 := gauss2_le (12/10) (32/100) 3 4 x y _ _ _ (by norm_num) (by norm_num) (sq_lb_left (25/8) 3 x hxa (by norm_num)) (sq_lb_right (4) 4 y hyb (by norm_num))
    (exp_neg_le_of_poly 2 _ (476723/500000) (by norm_num) (by norm_num [Finset.sum_range_succ, Nat.factorial]))
  have t5 := gauss2_le_one (72/100) 5 2 x y _ _ _ (by norm_num) (sq_lb_right (13/4) 5 x hxb (by norm_num)) (sq_lb_left (15/4) 2 y hya (by norm_num))
    (exp_neg_le_of_poly 16 _ (41/200000) (by norm_num) (by norm_num [Finset.sum_range_succ, Nat.factorial]))
  linarith

theorem syn2_node45 (x y : ℝ) (hxa : (3) ≤ x) (hxb : x ≤ (13/4)) (hya : (15/4) ≤ y) (hyb : y ≤ (4)) :
    synthetic2D x y ≤ (121212 / 100000 : ℝ) := by
  rcases le_total x (25/8) with h | h
  · exact syn2_node44 x y hxa h hya hyb
  · exact syn2_cell53 x y h hxb hya hyb

theorem syn2_node46 (x y : ℝ) (hxa : (3) ≤ x) (hxb : x ≤ (13/4)) (hya : (7/2) ≤ y) (hyb : y ≤ (4)) :
    synthetic2D x y ≤ (121212 / 100000 : ℝ) := by
  rcases le_total y (15/4) with h | h
  · exact syn2_cell44 x y hxa hxb hya h
  · exact syn2_node45 x y hxa hxb h hyb

theorem syn2_cell54 (x y : ℝ) (hxa : (13/4) ≤ x) (hxb : x ≤ (7/2)) (hya : (7/2) ≤ y) (hyb : y ≤ (4)) :
    synthetic2D x y ≤ (121212 / 100000 : ℝ) := by
  rw [synthetic2D_at]
  have t1 := gauss2_far (7/10) (18/100) 1 1 x y _ _ (by norm_num) (by norm_num) (sq_lb_left (13/4) 1 x hxa (by norm_num)) (sq_lb_left (7/2) 1 y hya (by norm_num)) (by norm_num)
  have t2 := gauss2_far (75/100) (32/100) 1 3 x y _ _ (by norm_num) (by norm_num) (sq_lb_left (13/4) 1 x hxa (by norm_num)) (sq_lb_left (7/2) 3 y hya (by norm_num)) (by norm_num)
  have t3 := gauss2_le_one 2 3 1 x y _ _ _ (by norm_num) (sq_lb_left (13/4) 3 x hxa (by norm_num)) (sq_lb_left (7/2) 1 y hya (by norm_num))
    (exp_neg_le_of_poly 10 _ (21327/500000) (by norm_num) (by norm_num [Finset.sum_range_succ, Nat.factorial]))
  have t4 := gauss2_le (12/10) (32/100) 3 4 x y _ _ _ (by norm_num) (by norm_num) (sq_lb_left (13/4) 3 x hxa (by norm_num)) (sq_lb_right (4) 4 y hyb (by norm_num))
    (exp_neg_le_of_poly 3 _ (411731/500000) (by norm_num) (by norm_num [Finset.sum_range_succ, Nat.factorial]))
  have t5 := gauss2_le_one (72/100) 5 2 x y _ _ _ (by norm_num) (sq_lb_right (7/2) 5 x hxb (by norm_num)) (sq_lb_left (7/2) 2 y hya (by norm_num))
    (exp_neg_le_of_poly 14 _ (1941/1000000) (by norm_num) (by norm_num [Finset.sum_range_succ, Nat.factorial]))
  linarith

theorem syn2_node47 (x y : ℝ) (hxa : (3) ≤ x) (hxb : x ≤ (7/2)) (hya : (7/2) ≤ y) (hyb : y ≤ (4)) :
    synthetic2D x y ≤ (121212 / 100000 : ℝ) := by
  rcases le_total x (13/4) with h | h
  · exact syn2_node46 x y hxa h hya hyb
  · exact syn2_cell54 x y h hxb hya hyb

theorem syn2_node48 (x y : ℝ) (hxa : (3) ≤ x) (hxb : x ≤ (7/2)) (hya : (3) ≤ y) (hyb : y ≤ (4)) :
    synthetic2D x y ≤ (121212 / 100000 : ℝ) := by
  rcases le_total y (7/2) with h | h
  · exact syn2_cell43 x y hxa hxb hya h
  · exact syn2_node47 x y hxa hxb h hyb

theorem syn2_cell55 (x y : ℝ) (hxa : (7/2) ≤ x) (hxb : x ≤ (4)) (hya : (3) ≤ y) (hyb : y ≤ (4)) :
    synthetic2D x y ≤ (121212 / 100000 : ℝ) := by
  rw [synthetic2D_at]
  have t1 := gauss2_far (7/10) (18/100) 1 1 x y _ _ (by norm_num) (by norm_num) (sq_lb_left (7/2) 1 x hxa (by norm_num)) (sq_lb_left (3) 1 y hya (by norm_num)) (by norm_num)
  have t2 := gauss2_far (75/100) (32/100) 1 3 x y _ _ (by norm_num) (by norm_num) (sq_lb_left (7/2) 1 x hxa (by norm_num)) (sq_lb_left (3) 3 y hya (by norm_num)) (by norm_num)
  have t3 := gauss2_le_one 2 3 1 x y _ _ _ (by norm_num) (sq_lb_left (7/2) 3 x hxa (by norm_num)) (sq_lb_left (3) 1 y hya (by norm_num))
    (exp_neg_le_of_poly 8 _ (957/8000) (by norm_num) (by norm_num [Finset.sum_range_succ, Nat.factorial]))
  have t4 := gauss2_le (12/10) (32/100) 3 4 x y _ _ _ (by norm_num) (by norm_num) (sq_lb_left (7/2) 3 x hxa (by norm_num)) (sq_lb_right (4) 4 y hyb (by norm_num))
    (exp_neg_le_of_poly 4 _ (461703/1000000) (by norm_num) (by norm_num [Finset.sum_range_succ, Nat.factorial]))
  have t5 := gauss2_le_one (72/100) 5 2 x y _ _ _ (by norm_num) (sq_lb_right (4) 5 x hxb (by norm_num)) (sq_lb_left (3) 2 y hya (by norm_num))
    (exp_neg_le_of_poly 8 _ (7833/125000) (by norm_num) (by norm_num [Finset.sum_range_succ, Nat.factorial]))
  linarith

theorem syn2_node49 (x y : ℝ) (hxa : (3) ≤ x) (hxb : x ≤ (4)) (hya : (3) ≤ y) (hyb : y ≤ (4)) :
    synthetic2D x y ≤ (121212 / 100000 : ℝ) := by
  rcases le_total x (7/2) with h | h
  · exact syn2_node48 x y hxa h hya hyb
  · exact syn2_cell55 x y h hxb hya hyb

theorem syn2_node50 (x y : ℝ) (hxa : (3) ≤ x) (hxb : x ≤ (4)) (hya : (2) ≤ y) (hyb : y ≤ (4)) :
    synthetic2D x y ≤ (121212 / 100000 : ℝ) := by
  rcases le_total y (3) with h | h
  · exact syn2_cell42 x y hxa hxb hya h
  · exact syn2_node49 x y hxa hxb h hyb

theorem syn2_cell56 (x y : ℝ) (hxa : (4) ≤ x) (hxb : x ≤ (9/2)) (hya : (2) ≤ y) (hyb : y ≤ (3)) :
    synthetic2D x y ≤ (121212 / 100000 : ℝ) := by
  rw [synthetic2D_at]
  have t1 := gauss2_far (7/10) (18/100) 1 1 x y _ _ (by norm_num) (by norm_num) (sq_lb_left (4) 1 x hxa (by norm_num)) (sq_lb_left (2) 1 y hya (by norm_num)) (by norm_num)
  have t2 := gauss2_far (75/100) (32/100) 1 3 x y _ _ (by norm_num) (by norm_num) (sq_lb_left (4) 1 x hxa (by norm_num)) (sq_lb_right (3) 3 y hyb (by norm_num)) (by norm_num)
  have t3 := gauss2_le_one 2 3 1 x y _ _ _ (by norm_num) (sq_lb_left (4) 3 x hxa (by norm_num)) (sq_lb_left (2) 1 y hya (by norm_num))
    (exp_neg_le_of_poly 5 _ (369231/1000000) (by norm_num) (by norm_num [Finset.sum_range_succ, Nat.factorial]))
  have t4 := gauss2_le (12/10) (32/100) 3 4 x y _ _ _ (by norm_num) (by norm_num) (sq_lb_left (4) 3 x hxa (by norm_num)) (sq_lb_right (3) 4 y hyb (by norm_num))
    (exp_neg_le_of_poly 14 _ (1941/1000000) (by norm_num) (by norm_num [Finset.sum_range_succ, Nat.factorial]))
  have t5 := gauss2_le_one (72/100) 5 2 x y _ _ _ (by norm_num) (sq_lb_right (9/2) 5 x hxb (by norm_num)) (sq_lb_left (2) 2 y hya (by norm_num))
    (exp_neg_le_of_poly 3 _ (355239/500000) (by norm_num) (by norm_num [Finset.sum_range_succ, Nat.factorial]))
  linarith

theorem syn2_cell57 (x y : ℝ) (hxa : (9/2) ≤ x) (hxb : x ≤ (5)) (hya : (2) ≤ y) (hyb : y ≤ (3)) :
    synthetic2D x y ≤ (121212 / 100000 : ℝ) := by
  rw [synthetic2D_at]
  have t1 := gauss2_far (7/10) (18/100) 1 1 x y _ _ (by norm_num) (by norm_num) (sq_lb_left (9/2) 1 x hxa (by norm_num)) (sq_lb_left (2) 1 y hya (by norm_num)) (by norm_num)
  have t2 := gauss2_far (75/100) (32/100) 1 3 x y _ _ (by norm_num) (by norm_num) (sq_lb_left (9/2) 1 x hxa (by norm_num)) (sq_lb_right (3) 3 y hyb (by norm_num)) (by norm_num)
  have t3 := gauss2_le_one 2 3 1 x y _ _ _ (by norm_num) (sq_lb_left (9/2) 3 x hxa (by norm_num)) (sq_lb_left (2) 1 y hya (by norm_num))
    (exp_neg_le_of_poly 6 _ (198199/1000000) (by norm_num) (by norm_num [Finset.sum_range_succ, Nat.factorial]))
  have t4 := gauss2_le (12/10) (32/100) 3 4 x y _ _ _ (by norm_num) (by norm_num) (sq_lb_left (9/2) 3 x hxa (by norm_num)) (sq_lb_right (3) 4 y hyb (by norm_num))
    (exp_neg_le_of_poly 16 _ (21/500000) (by norm_num) (by norm_num [Finset.sum_range_succ, Nat.factorial]))
  have t5 := gauss2_le_one (72/100) 5 2 x y _ _ _ (by norm_num) (sq_lb_right (5) 5 x hxb (by norm_num)) (sq_lb_left (2) 2 y hya (by norm_num))
    (exp_neg_le_of_poly 1 _ (1) (by norm_num) (by norm_num [Finset.sum_range_succ, Nat.factorial]))
  linarith

theorem syn2_node51 (x y : ℝ) (hxa : (4) ≤ x) (hxb : x ≤ (5)) (hya : (2) ≤ y) (hyb : y ≤ (3)) :
    synthetic2D x y ≤ (121212 / 100000 : ℝ) := by
  rcases le_total x (9/2) with h | h
  · exact syn2_cell56 x y hxa h hya hyb
  · exact syn2_cell57 x y h hxb hya hyb

theorem syn2_cell58 (x y : ℝ) (hxa : (4) ≤ x) (hxb : x ≤ (5)) (hya : (3) ≤ y) (hyb : y ≤ (4)) :
    synthetic2D x y ≤ (121212 / 100000 : ℝ) := by
  rw [synthetic2D_at]
  have t1 := gauss2_far (7/10) (18/100) 1 1 x y _ _ (by norm_num) (by norm_num) (sq_lb_left (4) 1 x hxa (by norm_num)) (sq_lb_left (3) 1 y hya (by norm_num)) (by norm_num)
  have t2 := gauss2_far (75/100) (32/100) 1 3 x y _ _ (by norm_num) (by norm_num) (sq_lb_left (4) 1 x hxa (by norm_num)) (sq_lb_left (3) 3 y hya (by norm_num)) (by norm_num)
  have t3 := gauss2_le_one 2 3 1 x y _ _ _ (by norm_num) (sq_lb_left (4) 3 x hxa (by norm_num)) (sq_lb_left (3) 1 y hya (by norm_num))
    (exp_neg_le_of_poly 8 _ (20609/250000) (by norm_num) (by norm_num [Finset.sum_range_succ, Nat.factorial]))
  have t4 := gauss2_le (12/10) (32/100) 3 4 x y _ _ _ (by norm_num) (by norm_num) (sq_lb_left (4) 3 x hxa (by norm_num)) (sq_lb_right (4) 4 y hyb (by norm_num))
    (exp_neg_le_of_poly 10 _ (44003/1000000) (by norm_num) (by norm_num [Finset.sum_range_succ, Nat.factorial]))
  have t5 := gauss2_le_one (72/100) 5 2 x y _ _ _ (by norm_num) (sq_lb_right (5) 5 x hxb (by norm_num)) (sq_lb_left (3) 2 y hya (by norm_num))
    (exp_neg_le_of_poly 6 _ (250123/1000000) (by norm_num) (by norm_num [Finset.sum_range_succ, Nat.factorial]))
  linarith

theorem syn2_node52 (x y : ℝ) (hxa : (4) ≤ x) (hxb : x ≤ (5)) (hya : (2) ≤ y) (hyb : y ≤ (4)) :
    synthetic2D x y ≤ (121212 / 100000 : ℝ) := by
  rcases le_total y (3) with h | h
  · exact syn2_node51 x y hxa hxb hya h
  · exact syn2_cell58 x y hxa hxb h hyb

theorem syn2_node53 (x y : ℝ) (hxa : (3) ≤ x) (hxb : x ≤ (5)) (hya : (2) ≤ y) (hyb : y ≤ (4)) :
    synthetic2D x y ≤ (121212 / 100000 : ℝ) := by
  rcases le_total x (4) with h | h
  · exact syn2_node50 x y hxa h hya hyb
  · exact syn2_node52 x y h hxb hya hyb

theorem syn2_cell59 (x y : ℝ) (hxa : (3) ≤ x) (hxb : x ≤ (4)) (hya : (4) ≤ y) (hyb : y ≤ (6)) :
    synthetic2D x y ≤ (121212 / 100000 : ℝ) := by
  rw [synthetic2D_at]
  have t1 := gauss2_far (7/10) (18/100) 1 1 x y _ _ (by norm_num) (by norm_num) (sq_lb_left (3) 1 x hxa (by norm_num)) (sq_lb_left (4) 1 y hya (by norm_num)) (by norm_num)
  have t2 := gauss2_far (75/100) (32/100) 1 3 x y _ _ (by norm_num) (by norm_num) (sq_lb_left (3) 1 x hxa (by norm_num)) (sq_lb_left (4) 3 y hya (by norm_num)) (by norm_num)
  have t3 := gauss2_le_one 2 3 1 x y _ _ _ (by norm_num) (sq_lb_left (3) 3 x hxa (by norm_num)) (sq_lb_left (4) 1 y hya (by norm_num))
    (exp_neg_le_of_poly 12 _ (174/15625) (by norm_num) (by norm_num [Finset.sum_range_succ, Nat.factorial]))
  have t4 := gauss2_le (12/10) (32/100) 3 4 x y _ _ _ (by norm_num) (by norm_num) (sq_lb_left (3) 3 x hxa (by norm_num)) (sq_lb_left (4) 4 y hya (by norm_num))
    (exp_neg_le_of_poly 1 _ (1) (by norm_num) (by norm_num [Finset.sum_range_succ, Nat.factorial]))
  have t5 := gauss2_le_one (72/100) 5 2 x y _ _ _ (by norm_num) (sq_lb_right (4) 5 x hxb (by norm_num)) (sq_lb_left (4) 2 y hya (by norm_num))
    (exp_neg_le_of_poly 14 _ (61/62500) (by norm_num) (by norm_num [Finset.sum_range_succ, Nat.factorial]))
  linarith

theorem syn2_cell60 (x y : ℝ) (hxa : (4) ≤ x) (hxb : x ≤ (5)) (hya : (4) ≤ y) (hyb : y ≤ (6)) :
    synthetic2D x y ≤ (121212 / 100000 : ℝ) := by
  rw [synthetic2D_at]
  have t1 := gauss2_far (7/10) (18/100) 1 1 x y _ _ (by norm_num) (by norm_num) (sq_lb_left (4) 1 x hxa (by norm_num)) (sq_lb_left (4) 1 y hya (by norm_num)) (by norm_num)
  have t2 := gauss2_far (75/100) (32/100) 1 3 x y _ _ (by norm_num) (by norm_num) (sq_lb_left (4) 1 x hxa (by norm_num)) (sq_lb_left (4) 3 y hya (by norm_num)) (by norm_num)
  have t3 := gauss2_le_one 2 3 1 x y _ _ _ (by norm_num) (sq_lb_left (4) 3 x hxa (by norm_num)) (sq_lb_left (4) 1 y hya (by norm_num))
    (exp_neg_le_of_poly 12 _ (271/40000) (by norm_num) (by norm_num [Finset.sum_range_succ, Nat.factorial]))
  have t4 := gauss2_le (12/10) (32/100) 3 4 x y _ _ _ (by norm_num) (by norm_num) (sq_lb_left (4) 3 x hxa (by norm_num)) (sq_lb_left (4) 4 y hya (by norm_num))
    (exp_neg_le_of_poly 10 _ (44003/1000000) (by norm_num) (by norm_num [Finset.sum_range_succ, Nat.factorial]))
  have t5 := gauss2_le_one (72/100) 5 2 x y _ _ _ (by norm_num) (sq_lb_right (5) 5 x hxb (by norm_num)) (sq_lb_left (4) 2 y hya (by norm_num))
    (exp_neg_le_of_poly 14 _ (1937/500000) (by norm_num) (by norm_num [Finset.sum_range_succ, Nat.factorial]))
  linarith

theorem syn2_node54 (x y : ℝ) (hxa : (3) ≤ x) (hxb : x ≤ (5)) (hya : (4) ≤ y) (hyb : y ≤ (6)) :
    synthetic2D x y ≤ (121212 / 100000 : ℝ) := by
  rcases le_total x (4) with h | h
  · exact syn2_cell59 x y hxa h hya hyb
  · exact syn2_cell60 x y h hxb hya hyb

theorem syn2_node55 (x y : ℝ) (hxa : (3) ≤ x) (hxb : x ≤ (5)) (hya : (2) ≤ y) (hyb : y ≤ (6)) :
    synthetic2D x y ≤ (121212 / 100000 : ℝ) := by
  rcases le_total y (4) with h | h
  · exact syn2_node53 x y hxa hxb hya h
  · exact syn2_node54 x y hxa hxb h hyb

theorem syn2_cell61 (x y : ℝ) (hxa : (5) ≤ x) (hxb : x ≤ (7)) (hya : (2) ≤ y) (hyb : y ≤ (6)) :
    synthetic2D x y ≤ (121212 / 100000 : ℝ) := by
  rw [synthetic2D_at]
  have t1 := gauss2_far (7/10) (18/100) 1 1 x y _ _ (by norm_num) (by norm_num) (sq_lb_left (5) 1 x hxa (by norm_num)) (sq_lb_left (2) 1 y hya (by norm_num)) (by norm_num)
  have t2 := gauss2_far (75/100) (32/100) 1 3 x y _ _ (by norm_num) (by norm_num) (sq_lb_left (5) 1 x hxa (by norm_num)) (sq_nonneg _) (by norm_num)
  have t3 := gauss2_le_one 2 3 1 x y _ _ _ (by norm_num) (sq_lb_left (5) 3 x hxa (by norm_num)) (sq_lb_left (2) 1 y hya (by norm_num))
    (exp_neg_le_of_poly 8 _ (20609/250000) (by norm_num) (by norm_num [Finset.sum_range_succ, Nat.factorial]))
  have t4 := gauss2_le (12/10) (32/100) 3 4 x y _ _ _ (by norm_num) (by norm_num) (sq_lb_left (5) 3 x hxa (by norm_num)) (sq_nonneg _)
    (exp_neg_le_of_poly 14 _ (3/500000) (by norm_num) (by norm_num [Finset.sum_range_succ, Nat.factorial]))
  have t5 := gauss2_le_one (72/100) 5 2 x y _ _ _ (by norm_num) (sq_lb_left (5) 5 x hxa (by norm_num)) (sq_lb_left (2) 2 y hya (by norm_num))
    (exp_neg_le_of_poly 1 _ (1) (by norm_num) (by norm_num [Finset.sum_range_succ, Nat.factorial]))
  linarith

theorem syn2_node56 (x y : ℝ) (hxa : (3) ≤ x) (hxb : x ≤ (7)) (hya : (2) ≤ y) (hyb : y ≤ (6)) :
    synthetic2D x y ≤ (121212 / 100000 : ℝ) := by
  rcases le_total x (5) with h | h
  · exact syn2_node55 x y hxa h hya hyb
  · exact syn2_cell61 x y h hxb hya hyb

theorem syn2_node57 (x y : ℝ) (hxa : (3) ≤ x) (hxb : x ≤ (7)) (hya : (-2) ≤ y) (hyb : y ≤ (6)) :
    synthetic2D x y ≤ (121212 / 100000 : ℝ) := by
  rcases le_total y (2) with h | h
  · exact syn2_node37 x y hxa hxb hya h
  · exact syn2_node56 x y hxa hxb h hyb

theorem syn2_node58 (x y : ℝ) (hxa : (-1) ≤ x) (hxb : x ≤ (7)) (hya : (-2) ≤ y) (hyb : y ≤ (6)) :
    synthetic2D x y ≤ (121212 / 100000 : ℝ) := by
  rcases le_total x (3) with h | h
  · exact syn2_node26 x y hxa h hya hyb
  · exact syn2_node57 x y h hxb hya hyb

theorem syn2_cell62 (x y : ℝ) (hxa : (-1) ≤ x) (hxb : x ≤ (7)) (hya : (6) ≤ y) :
    synthetic2D x y ≤ (121212 / 100000 : ℝ) := by
  rw [synthetic2D_at]
  have t1 := gauss2_far (7/10) (18/100) 1 1 x y _ _ (by norm_num) (by norm_num) (sq_nonneg _) (sq_lb_left (6) 1 y hya (by norm_num)) (by norm_num)
  have t2 := gauss2_far (75/100) (32/100) 1 3 x y _ _ (by norm_num) (by norm_num) (sq_nonneg _) (sq_lb_left (6) 3 y hya (by norm_num)) (by norm_num)
  have t3 := gauss2_le_one 2 3 1 x y _ _ _ (by norm_num) (sq_nonneg _) (sq_lb_left (6) 1 y hya (by norm_num))
    (exp_neg_le_of_poly 14 _ (3/500000) (by norm_num) (by norm_num [Finset.sum_range_succ, Nat.factorial]))
  have t4 := gauss2_le (12/10) (32/100) 3 4 x y _ _ _ (by norm_num) (by norm_num) (sq_nonneg _) (sq_lb_left (6) 4 y hya (by norm_num))
    (exp_neg_le_of_poly 14 _ (3/500000) (by norm_num) (by norm_num [Finset.sum_range_succ, Nat.factorial]))
  have t5 := gauss2_far_one (72/100) 5 2 x y _ _ (by norm_num) (sq_nonneg _) (sq_lb_left (6) 2 y hya (by norm_num)) (by norm_num)
  linarith

theorem syn2_node59 (x y : ℝ) (hxa : (-1) ≤ x) (hxb : x ≤ (7)) (hya : (-2) ≤ y) :
    synthetic2D x y ≤ (121212 / 100000 : ℝ) := by
  rcases le_total y (6) with h | h
  · exact syn2_node58 x y hxa hxb hya h
  · exact syn2_cell62 x y hxa hxb h

theorem syn2_node60 (x y : ℝ) (hxa : (-1) ≤ x) (hxb : x ≤ (7)) :
    synthetic2D x y ≤ (121212 / 100000 : ℝ) := by
  rcases le_total y (-2) with h | h
  · exact syn2_cell2 x y hxa hxb h
  · exact syn2_node59 x y hxa hxb h

theorem syn2_cell63 (x y : ℝ) (hxa : (7) ≤ x) :
    synthetic2D x y ≤ (121212 / 100000 : ℝ) := by
  rw [synthetic2D_at]
  have t1 := gauss2_far (7/10) (18/100) 1 1 x y _ _ (by norm_num) (by norm_num) (sq_lb_left (7) 1 x hxa (by norm_num)) (sq_nonneg _) (by norm_num)
  have t2 := gauss2_far (75/100) (32/100) 1 3 x y _ _ (by norm_num) (by norm_num) (sq_lb_left (7) 1 x hxa (by norm_num)) (sq_nonneg _) (by norm_num)
  have t3 := gauss2_le_one 2 3 1 x y _ _ _ (by norm_num) (sq_lb_left (7) 3 x hxa (by norm_num)) (sq_nonneg _)
    (exp_neg_le_of_poly 16 _ (339/1000000) (by norm_num) (by norm_num [Finset.sum_range_succ, Nat.factorial]))
  have t4 := gauss2_far (12/10) (32/100) 3 4 x y _ _ (by norm_num) (by norm_num) (sq_lb_left (7) 3 x hxa (by norm_num)) (sq_nonneg _) (by norm_num)
  have t5 := gauss2_le_one (72/100) 5 2 x y _ _ _ (by norm_num) (sq_lb_left (7) 5 x hxa (by norm_num)) (sq_nonneg _)
    (exp_neg_le_of_poly 14 _ (1937/500000) (by norm_num) (by norm_num [Finset.sum_range_succ, Nat.factorial]))
  linarith

theorem syn2_node61 (x y : ℝ) (hxa : (-1) ≤ x) :
    synthetic2D x y ≤ (121212 / 100000 : ℝ) := by
  rcases le_total x (7) with h | h
  · exact syn2_node60 x y hxa h
  · exact syn2_cell63 x y h

theorem syn2_node62 (x y : ℝ)  :
    synthetic2D x y ≤ (121212 / 100000 : ℝ) := by
  rcases le_total x (-1) with h | h
  · exact syn2_cell1 x y h
  · exact syn2_node61 x y h

/-- **bound clause of Synthetic2D** (maximised): no real point has a value above the documented maximum 1.21112
by more than the documented precision 10⁻³ -/
theorem synthetic2D_le (x y : ℝ) : synthetic2D x y ≤ 121112 / 100000 + 1 / 1000 := by
  have := syn2_node62 x y
  linarith

/-! ### Synthetic1D: the bisection tree -/

theorem syn1_cell1 (x : ℝ) (hxb : x ≤ (-1)) : synthetic1D x ≤ (3231 / 1000 : ℝ) := by
  rw [synthetic1D_at]
  have t1 := gauss1_le_one (1/2) 1 x _ _ (by norm_num) (sq_lb_right (-1) 1 x hxb (by norm_num))
    (exp_neg_le_of_poly 18 _ (21/62500) (by norm_num) (by norm_num [Finset.sum_range_succ, Nat.factorial]))
  have t2 := gauss1_far 2 (45/1000) (125/100) x _ (by norm_num) (by norm_num) (sq_lb_right (-1) (125/100) x hxb (by norm_num)) (by norm_num)
  have t3 := gauss1_far (1/2) (128/10000) (15/10) x _ (by norm_num) (by norm_num) (sq_lb_right (-1) (15/10) x hxb (by norm_num)) (by norm_num)
  have t4 := gauss1_far 2 (5/1000) (16/10) x _ (by norm_num) (by norm_num) (sq_lb_right (-1) (16/10) x hxb (by norm_num)) (by norm_num)
  have t5 := gauss1_far (25/10) (2/100) (18/10) x _ (by norm_num) (by norm_num) (sq_lb_right (-1) (18/10) x hxb (by norm_num)) (by norm_num)
  have t6 := gauss1_far (25/10) (2/100) (22/10) x _ (by norm_num) (by norm_num) (sq_lb_right (-1) (22/10) x hxb (by norm_num)) (by norm_num)
  have t7 := gauss1_far 2 (5/1000) (24/10) x _ (by norm_num) (by norm_num) (sq_lb_right (-1) (24/10) x hxb (by norm_num)) (by norm_num)
  have t8 := gauss1_far 2 (45/1000) (275/100) x _ (by norm_num) (by norm_num) (sq_lb_right (-1) (275/100) x hxb (by norm_num)) (by norm_num)
  have t9 := gauss1_far_one (1/2) 3 x _ (by norm_num) (sq_lb_right (-1) 3 x hxb (by norm_num)) (by norm_num)
  have t10 := gauss1_far 2 (32/100) 6 x _ (by norm_num) (by norm_num) (sq_lb_right (-1) 6 x hxb (by norm_num)) (by norm_num)
  have t11 := gauss1_far (22/10) (18/100) 7 x _ (by norm_num) (by norm_num) (sq_lb_right (-1) 7 x hxb (by norm_num)) (by norm_num)
  have t12 := gauss1_far (24/10) (1/2) 8 x _ (by norm_num) (by norm_num) (sq_lb_right (-1) 8 x hxb (by norm_num)) (by norm_num)
  have t13 := gauss1_far (23/10) (1/2) (95/10) x _ (by norm_num) (by norm_num) (sq_lb_right (-1) (95/10) x hxb (by norm_num)) (by norm_num)
  have t14 := gauss1_far (32/10) (18/100) 11 x _ (by norm_num) (by norm_num) (sq_lb_right (-1) 11 x hxb (by norm_num)) (by norm_num)
  have t15 := gauss1_far (12/10) (18/100) 12 x _ (by norm_num) (by norm_num) (sq_lb_right (-1) 12 x hxb (by norm_num)) (by norm_num)
  linarith

theorem syn1_cell2 (x : ℝ) (hxa : (-1) ≤ x) (hxb : x ≤ (1)) : synthetic1D x ≤ (3231 / 1000 : ℝ) := by
  rw [synthetic1D_at]
  have t1 := gauss1_le_one (1/2) 1 x _ _ (by norm_num) (sq_lb_right (1) 1 x hxb (by norm_num))
    (exp_neg_le_of_poly 1 _ (1) (by norm_num) (by norm_num [Finset.sum_range_succ, Nat.factorial]))
  have t2 := gauss1_le 2 (45/1000) (125/100) x _ _ (by norm_num) (by norm_num) (sq_lb_right (1) (125/100) x hxb (by norm_num))
    (exp_neg_le_of_poly 10 _ (249353/1000000) (by norm_num) (by norm_num [Finset.sum_range_succ, Nat.factorial]))
  have t3 := gauss1_far (1/2) (128/10000) (15/10) x _ (by norm_num) (by norm_num) (sq_lb_right (1) (15/10) x hxb (by norm_num)) (by norm_num)
  have t4 := gauss1_far 2 (5/1000) (16/10) x _ (by norm_num) (by norm_num) (sq_lb_right (1) (16/10) x hxb (by norm_num)) (by norm_num)
  have t5 := gauss1_far (25/10) (2/100) (18/10) x _ (by norm_num) (by norm_num) (sq_lb_right (1) (18/10) x hxb (by norm_num)) (by norm_num)
  have t6 := gauss1_far (25/10) (2/100) (22/10) x _ (by norm_num) (by norm_num) (sq_lb_right (1) (22/10) x hxb (by norm_num)) (by norm_num)
  have t7 := gauss1_far 2 (5/1000) (24/10) x _ (by norm_num) (by norm_num) (sq_lb_right (1) (24/10) x hxb (by norm_num)) (by norm_num)
  have t8 := gauss1_far 2 (45/1000) (275/100) x _ (by norm_num) (by norm_num) (sq_lb_right (1) (275/100) x hxb (by norm_num)) (by norm_num)
  have t9 := gauss1_le_one (1/2) 3 x _ _ (by norm_num) (sq_lb_right (1) 3 x hxb (by norm_num))
    (exp_neg_le_of_poly 18 _ (21/62500) (by norm_num) (by norm_num [Finset.sum_range_succ, Nat.factorial]))
  have t10 := gauss1_far 2 (32/100) 6 x _ (by norm_num) (by norm_num) (sq_lb_right (1) 6 x hxb (by norm_num)) (by norm_num)
  have t11 := gauss1_far (22/10) (18/100) 7 x _ (by norm_num) (by norm_num) (sq_lb_right (1) 7 x hxb (by norm_num)) (by norm_num)
  have t12 := gauss1_far (24/10) (1/2) 8 x _ (by norm_num) (by norm_num) (sq_lb_right (1) 8 x hxb (by norm_num)) (by norm_num)
  have t13 := gauss1_far (23/10) (1/2) (95/10) x _ (by norm_num) (by norm_num) (sq_lb_right (1) (95/10) x hxb (by norm_num)) (by norm_num)
  have t14 := gauss1_far (32/10) (18/100) 11 x _ (by norm_num) (by norm_num) (sq_lb_right (1) 11 x hxb (by norm_num)) (by norm_num)
  have t15 := gauss1_far (12/10) (18/100) 12 x _ (by norm_num) (by norm_num) (sq_lb_right (1) 12 x hxb (by norm_num)) (by norm_num)
  linarith

theorem syn1_cell3 (x : ℝ) (hxa : (1) ≤ x) (hxb : x ≤ (5/4)) : synthetic1D x ≤ (3231 / 1000 : ℝ) := by
  rw [synthetic1D_at]
  have t1 := gauss1_le_one (1/2) 1 x _ _ (by norm_num) (sq_lb_left (1) 1 x hxa (by norm_num))
    (exp_neg_le_of_poly 1 _ (1) (by norm_num) (by norm_num [Finset.sum_range_succ, Nat.factorial]))
  have t2 := gauss1_le 2 (45/1000) (125/100) x _ _ (by norm_num) (by norm_num) (sq_lb_right (5/4) (125/100) x hxb (by norm_num))
    (exp_neg_le_of_poly 1 _ (1) (by norm_num) (by norm_num [Finset.sum_range_succ, Nat.factorial]))
  have t3 := gauss1_le (1/2) (128/10000) (15/10) x _ _ (by norm_num) (by norm_num) (sq_lb_right (5/4) (15/10) x hxb (by norm_num))
    (exp_neg_le_of_poly 16 _ (7577/1000000) (by norm_num) (by norm_num [Finset.sum_range_succ, Nat.factorial]))
  have t4 := gauss1_far 2 (5/1000) (16/10) x _ (by norm_num) (by norm_num) (sq_lb_right (5/4) (16/10) x hxb (by norm_num)) (by norm_num)
  have t5 := gauss1_far (25/10) (2/100) (18/10) x _ (by norm_num) (by norm_num) (sq_lb_right (5/4) (18/10) x hxb (by norm_num)) (by norm_num)
  have t6 := gauss1_far (25/10) (2/100) (22/10) x _ (by norm_num) (by norm_num) (sq_lb_right (5/4) (22/10) x hxb (by norm_num)) (by norm_num)
  have t7 := gauss1_far 2 (5/1000) (24/10) x _ (by norm_num) (by norm_num) (sq_lb_right (5/4) (24/10) x hxb (by norm_num)) (by norm_num)
  have t8 := gauss1_far 2 (45/1000) (275/100) x _ (by norm_num) (by norm_num) (sq_lb_right (5/4) (275/100) x hxb (by norm_num)) (by norm_num)
  have t9 := gauss1_le_one (1/2) 3 x _ _ (by norm_num) (sq_lb_right (5/4) 3 x hxb (by norm_num))
    (exp_neg_le_of_poly 16 _ (2189/1000000) (by norm_num) (by norm_num [Finset.sum_range_succ, Nat.factorial]))
  have t10 := gauss1_far 2 (32/100) 6 x _ (by norm_num) (by norm_num) (sq_lb_right (5/4) 6 x hxb (by norm_num)) (by norm_num)
  have t11 := gauss1_far (22/10) (18/100) 7 x _ (by norm_num) (by norm_num) (sq_lb_right (5/4) 7 x hxb (by norm_num)) (by norm_num)
  have t12 := gauss1_far (24/10) (1/2) 8 x _ (by norm_num) (by norm_num) (sq_lb_right (5/4) 8 x hxb (by norm_num)) (by norm_num)
  have t13 := gauss1_far (23/10) (1/2) (95/10) x _ (by norm_num) (by norm_num) (sq_lb_right (5/4) (95/10) x hxb (by norm_num)) (by norm_num)
  have t14 := gauss1_far (32/10) (18/100) 11 x _ (by norm_num) (by norm_num) (sq_lb_right (5/4) 11 x hxb (by norm_num)) (by norm_num)
  have t15 := gauss1_far (12/10) (18/100) 12 x _ (by norm_num) (by norm_num) (sq_lb_right (5/4) 12 x hxb (by norm_num)) (by norm_num)
  linarith

theorem syn1_cell4 (x : ℝ) (hxa : (5/4) ≤ x) (hxb : x ≤ (11/8)) : synthetic1D x ≤ (3231 / 1000 : ℝ) := by
  rw [synthetic1D_at]
  have t1 := gauss1_le_one (1/2) 1 x _ _ (by norm_num) (sq_lb_left (5/4) 1 x hxa (by norm_num))
    (exp_neg_le_of_poly 4 _ (441253/500000) (by norm_num) (by norm_num [Finset.sum_range_succ, Nat.factorial]))
  have t2 := gauss1_le 2 (45/1000) (125/100) x _ _ (by norm_num) (by norm_num) (sq_lb_left (5/4) (125/100) x hxa (by norm_num))
    (exp_neg_le_of_poly 1 _ (1) (by norm_num) (by norm_num [Finset.sum_range_succ, Nat.factorial]))
  have t3 := gauss1_le (1/2) (128/10000) (15/10) x _ _ (by norm_num) (by norm_num) (sq_lb_right (11/8) (15/10) x hxb (by norm_num))
    (exp_neg_le_of_poly 9 _ (11801/40000) (by norm_num) (by norm_num [Finset.sum_range_succ, Nat.factorial]))
  have t4 := gauss1_le 2 (5/1000) (16/10) x _ _ (by norm_num) (by norm_num) (sq_lb_right (11/8) (16/10) x hxb (by norm_num))
    (exp_neg_le_of_poly 18 _ (41/1000000) (by norm_num) (by norm_num [Finset.sum_range_succ, Nat.factorial]))
  have t5 := gauss1_le (25/10) (2/100) (18/10) x _ _ (by norm_num) (by norm_num) (sq_lb_right (11/8) (18/10) x hxb (by norm_num))
    (exp_neg_le_of_poly 18 _ (121/1000000) (by norm_num) (by norm_num [Finset.sum_range_succ, Nat.factorial]))
  have t6 := gauss1_far (25/10) (2/100) (22/10) x _ (by norm_num) (by norm_num) (sq_lb_right (11/8) (22/10) x hxb (by norm_num)) (by norm_num)
  have t7 := gauss1_far 2 (5/1000) (24/10) x _ (by norm_num) (by norm_num) (sq_lb_right (11/8) (24/10) x hxb (by norm_num)) (by norm_num)
  have t8 := gauss1_far 2 (45/1000) (275/100) x _ (by norm_num) (by norm_num) (sq_lb_right (11/8) (275/100) x hxb (by norm_num)) (by norm_num)
  have t9 := gauss1_le_one (1/2) 3 x _ _ (by norm_num) (sq_lb_right (11/8) 3 x hxb (by norm_num))
    (exp_neg_le_of_poly 16 _ (5087/1000000) (by norm_num) (by norm_num [Finset.sum_range_succ, Nat.factorial]))
  have t10 := gauss1_far 2 (32/100) 6 x _ (by norm_num) (by norm_num) (sq_lb_right (11/8) 6 x hxb (by norm_num)) (by norm_num)
  have t11 := gauss1_far (22/10) (18/100) 7 x _ (by norm_num) (by norm_num) (sq_lb_right (11/8) 7 x hxb (by norm_num)) (by norm_num)
  have t12 := gauss1_far (24/10) (1/2) 8 x _ (by norm_num) (by norm_num) (sq_lb_right (11/8) 8 x hxb (by norm_num)) (by norm_num)
  have t13 := gauss1_far (23/10) (1/2) (95/10) x _ (by norm_num) (by norm_num) (sq_lb_right (11/8) (95/10) x hxb (by norm_num)) (by norm_num)
  have t14 := gauss1_far (32/10) (18/100) 11 x _ (by norm_num) (by norm_num) (sq_lb_right (11/8) 11 x hxb (by norm_num)) (by norm_num)
  have t15 := gauss1_far (12/10) (18/100) 12 x _ (by norm_num) (by norm_num) (sq_lb_right (11/8) 12 x hxb (by norm_num)) (by norm_num)
  linarith

theorem syn1_cell5 (x : ℝ) (hxa : (11/8) ≤ x) (hxb : x ≤ (3/2)) : synthetic1D x ≤ (3231 / 1000 : ℝ) := by
  rw [synthetic1D_at]
  have t1 := gauss1_le_one (1/2) 1 x _ _ (by norm_num) (sq_lb_left (11/8) 1 x hxa (by norm_num))
    (exp_neg_le_of_poly 5 _ (754849/1000000) (by norm_num) (by norm_num [Finset.sum_range_succ, Nat.factorial]))
  have t2 := gauss1_le 2 (45/1000) (125/100) x _ _ (by norm_num) (by norm_num) (sq_lb_left (11/8) (125/100) x hxa (by norm_num))
    (exp_neg_le_of_poly 6 _ (14133/20000) (by norm_num) (by norm_num [Finset.sum_range_succ, Nat.factorial]))
  have t3 := gauss1_le (1/2) (128/10000) (15/10) x _ _ (by norm_num) (by norm_num) (sq_lb_right (3/2) (15/10) x hxb (by norm_num))
    (exp_neg_le_of_poly 1 _ (1) (by norm_num) (by norm_num [Finset.sum_range_succ, Nat.factorial]))
  have t4 := gauss1_le 2 (5/1000) (16/10) x _ _ (by norm_num) (by norm_num) (sq_lb_right (3/2) (16/10) x hxb (by norm_num))
    (exp_neg_le_of_poly 12 _ (16917/125000) (by norm_num) (by norm_num [Finset.sum_range_succ, Nat.factorial]))
  have t5 := gauss1_le (25/10) (2/100) (18/10) x _ _ (by norm_num) (by norm_num) (sq_lb_right (3/2) (18/10) x hxb (by norm_num))
    (exp_neg_le_of_poly 16 _ (1111/100000) (by norm_num) (by norm_num [Finset.sum_range_succ, Nat.factorial]))
  have t6 := gauss1_far (25/10) (2/100) (22/10) x _ (by norm_num) (by norm_num) (sq_lb_right (3/2) (22/10) x hxb (by norm_num)) (by norm_num)
  have t7 := gauss1_far 2 (5/1000) (24/10) x _ (by norm_num) (by norm_num) (sq_lb_right (3/2) (24/10) x hxb (by norm_num)) (by norm_num)
  have t8 := gauss1_far 2 (45/1000) (275/100) x _ (by norm_num) (by norm_num) (sq_lb_right (3/2) (275/100) x hxb (by norm_num)) (by norm_num)
  have t9 := gauss1_le_one (1/2) 3 x _ _ (by norm_num) (sq_lb_right (3/2) 3 x hxb (by norm_num))
    (exp_neg_le_of_poly 16 _ (1111/100000) (by norm_num) (by norm_num [Finset.sum_range_succ, Nat.factorial]))
  have t10 := gauss1_far 2 (32/100) 6 x _ (by norm_num) (by norm_num) (sq_lb_right (3/2) 6 x hxb (by norm_num)) (by norm_num)
  have t11 := gauss1_far (22/10) (18/100) 7 x _ (by norm_num) (by norm_num) (sq_lb_right (3/2) 7 x hxb (by norm_num)) (by norm_num)
  have t12 := gauss1_far (24/10) (1/2) 8 x _ (by norm_num) (by norm_num) (sq_lb_right (3/2) 8 x hxb (by norm_num)) (by norm_num)
  have t13 := gauss1_far (23/10) (1/2) (95/10) x _ (by norm_num) (by norm_num) (sq_lb_right (3/2) (95/10) x hxb (by norm_num)) (by norm_num)
  have t14 := gauss1_far (32/10) (18/100) 11 x _ (by norm_num) (by norm_num) (sq_lb_right (3/2) 11 x hxb (by norm_num)) (by norm_num)
  have t15 := gauss1_far (12/10) (18/100) 12 x _ (by norm_num) (by norm_num) (sq_lb_right (3/2) 12 x hxb (by norm_num)) (by norm_num)
  linarith

theorem syn1_node1 (x : ℝ) (hxa : (5/4) ≤ x) (hxb : x ≤ (3/2)) : synthetic1D x ≤ (3231 / 1000 : ℝ) := by
  rcases le_total x (11/8) with h | h
  · exact syn1_cell4 x hxa h
  · exact syn1_cell5 x h hxb

theorem syn1_node2 (x : ℝ) (hxa : (1) ≤ x) (hxb : x ≤ (3/2)) : synthetic1D x ≤ (3231 / 1000 : ℝ) := by
  rcases le_total x (5/4) with h | h
  · exact syn1_cell3 x hxa h
  · exact syn1_node1 x h hxb

theorem syn1_cell6 (x : ℝ) (hxa : (3/2) ≤ x) (hxb : x ≤ (49/32)) : synthetic1D x ≤ (3231 / 1000 : ℝ) := by
  rw [synthetic1D_at]
  have t1 := gauss1_le_one (1/2) 1 x _ _ (by norm_num) (sq_lb_left (3/2) 1 x hxa (by norm_num))
    (exp_neg_le_of_poly 7 _ (151633/250000) (by norm_num) (by norm_num [Finset.sum_range_succ, Nat.factorial]))
  have t2 := gauss1_le 2 (45/1000) (125/100) x _ _ (by norm_num) (by norm_num) (sq_lb_left (3/2) (125/100) x hxa (by norm_num))
    (exp_neg_le_of_poly 10 _ (249353/1000000) (by norm_num) (by norm_num [Finset.sum_range_succ, Nat.factorial]))
  have t3 := gauss1_le (1/2) (128/10000) (15/10) x _ _ (by norm_num) (by norm_num) (sq_lb_left (3/2) (15/10) x hxa (by norm_num))
    (exp_neg_le_of_poly 1 _ (1) (by norm_num) (by norm_num [Finset.sum_range_succ, Nat.factorial]))
  have t4 := gauss1_le 2 (5/1000) (16/10) x _ _ (by norm_num) (by norm_num) (sq_lb_right (49/32) (16/10) x hxb (by norm_num))
    (exp_neg_le_of_poly 8 _ (388561/1000000) (by norm_num) (by norm_num [Finset.sum_range_succ, Nat.factorial]))
  have t5 := gauss1_le (25/10) (2/100) (18/10) x _ _ (by norm_num) (by norm_num) (sq_lb_right (49/32) (18/10) x hxb (by norm_num))
    (exp_neg_le_of_poly 14 _ (27017/1000000) (by norm_num) (by norm_num [Finset.sum_range_succ, Nat.factorial]))
  have t6 := gauss1_far (25/10) (2/100) (22/10) x _ (by norm_num) (by norm_num) (sq_lb_right (49/32) (22/10) x hxb (by norm_num)) (by norm_num)
  have t7 := gauss1_far 2 (5/1000) (24/10) x _ (by norm_num) (by norm_num) (sq_lb_right (49/32) (24/10) x hxb (by norm_num)) (by norm_num)
  have t8 := gauss1_far 2 (45/1000) (275/100) x _ (by norm_num) (by norm_num) (sq_lb_right (49/32) (275/100) x hxb (by norm_num)) (by norm_num)
  have t9 := gauss1_le_one (1/2) 3 x _ _ (by norm_num) (sq_lb_right (49/32) 3 x hxb (by norm_num))
    (exp_neg_le_of_poly 16 _ (107/8000) (by norm_num) (by norm_num [Finset.sum_range_succ, Nat.factorial]))
  have t10 := gauss1_far 2 (32/100) 6 x _ (by norm_num) (by norm_num) (sq_lb_right (49/32) 6 x hxb (by norm_num)) (by norm_num)
  have t11 := gauss1_far (22/10) (18/100) 7 x _ (by norm_num) (by norm_num) (sq_lb_right (49/32) 7 x hxb (by norm_num)) (by norm_num)
  have t12 := gauss1_far (24/10) (1/2) 8 x _ (by norm_num) (by norm_num) (sq_lb_right (49/32) 8 x hxb (by norm_num)) (by norm_num)
  have t13 := gauss1_far (23/10) (1/2) (95/10) x _ (by norm_num) (by norm_num) (sq_lb_right (49/32) (95/10) x hxb (by norm_num)) (by norm_num)
  have t14 := gauss1_far (32/10) (18/100) 11 x _ (by norm_num) (by norm_num) (sq_lb_right (49/32) 11 x hxb (by norm_num)) (by norm_num)
  have t15 := gauss1_far (12/10) (18/100) 12 x _ (by norm_num) (by norm_num) (sq_lb_right (49/32) 12 x hxb (by norm_num)) (by norm_num)
  linarith

theorem syn1_cell7 (x : ℝ) (hxa : (49/32) ≤ x) (hxb : x ≤ (25/16)) : synthetic1D x ≤ (3231 / 1000 : ℝ) := by
  rw [synthetic1D_at]
  have t1 := gauss1_le_one (1/2) 1 x _ _ (by norm_num) (sq_lb_left (49/32) 1 x hxa (by norm_num))
    (exp_neg_le_of_poly 7 _ (568673/1000000) (by norm_num) (by norm_num [Finset.sum_range_succ, Nat.factorial]))
  have t2 := gauss1_le 2 (45/1000) (125/100) x _ _ (by norm_num) (by norm_num) (sq_lb_left (49/32) (125/100) x hxa (by norm_num))
    (exp_neg_le_of_poly 10 _ (6897/40000) (by norm_num) (by norm_num [Finset.sum_range_succ, Nat.factorial]))
  have t3 := gauss1_le (1/2) (128/10000) (15/10) x _ _ (by norm_num) (by norm_num) (sq_lb_left (49/32) (15/10) x hxa (by norm_num))
    (exp_neg_le_of_poly 4 _ (463273/500000) (by norm_num) (by norm_num [Finset.sum_range_succ, Nat.factorial]))
  have t4 := gauss1_le 2 (5/1000) (16/10) x _ _ (by norm_num) (by norm_num) (sq_lb_right (25/16) (16/10) x hxb (by norm_num))
    (exp_neg_le_of_poly 5 _ (754849/1000000) (by norm_num) (by norm_num [Finset.sum_range_succ, Nat.factorial]))
  have t5 := gauss1_le (25/10) (2/100) (18/10) x _ _ (by norm_num) (by norm_num) (sq_lb_right (25/16) (18/10) x hxb (by norm_num))
    (exp_neg_le_of_poly 14 _ (14897/250000) (by norm_num) (by norm_num [Finset.sum_range_succ, Nat.factorial]))
  have t6 := gauss1_far (25/10) (2/100) (22/10) x _ (by norm_num) (by norm_num) (sq_lb_right (25/16) (22/10) x hxb (by norm_num)) (by norm_num)
  have t7 := gauss1_far 2 (5/1000) (24/10) x _ (by norm_num) (by norm_num) (sq_lb_right (25/16) (24/10) x hxb (by norm_num)) (by norm_num)
  have t8 := gauss1_far 2 (45/1000) (275/100) x _ (by norm_num) (by norm_num) (sq_lb_right (25/16) (275/100) x hxb (by norm_num)) (by norm_num)
  have t9 := gauss1_le_one (1/2) 3 x _ _ (by norm_num) (sq_lb_right (25/16) 3 x hxb (by norm_num))
    (exp_neg_le_of_poly 16 _ (8019/500000) (by norm_num) (by norm_num [Finset.sum_range_succ, Nat.factorial]))
  have t10 := gauss1_far 2 (32/100) 6 x _ (by norm_num) (by norm_num) (sq_lb_right (25/16) 6 x hxb (by norm_num)) (by norm_num)
  have t11 := gauss1_far (22/10) (18/100) 7 x _ (by norm_num) (by norm_num) (sq_lb_right (25/16) 7 x hxb (by norm_num)) (by norm_num)
  have t12 := gauss1_far (24/10) (1/2) 8 x _ (by norm_num) (by norm_num) (sq_lb_right (25/16) 8 x hxb (by norm_num)) (by norm_num)
  have t13 := gauss1_far (23/10) (1/2) (95/10) x _ (by norm_num) (by norm_num) (sq_lb_right (25/16) (95/10) x hxb (by norm_num)) (by norm_num)
  have t14 := gauss1_far (32/10) (18/100) 11 x _ (by norm_num) (by norm_num) (sq_lb_right (25/16) 11 x hxb (by norm_num)) (by norm_num)
  have t15 := gauss1_far (12/10) (18/100) 12 x _ (by norm_num) (by norm_num) (sq_lb_right (25/16) 12 x hxb (by norm_num)) (by norm_num)
  linarith

theorem syn1_node3 (x : ℝ) (hxa : (3/2) ≤ x) (hxb : x ≤ (25/16)) : synthetic1D x ≤ (3231 / 1000 : ℝ) := by
  rcases le_total x (49/32) with h | h
  · exact syn1_cell6 x hxa h
  · exact syn1_cell7 x h hxb

theorem syn1_cell8 (x : ℝ) (hxa : (25/16) ≤ x) (hxb : x ≤ (101/64)) : synthetic1D x ≤ (3231 / 1000 : ℝ) := by
  rw [synthetic1D_at]
  have t1 := gauss1_le_one (1/2) 1 x _ _ (by norm_num) (sq_lb_left (25/16) 1 x hxa (by norm_num))
    (exp_neg_le_of_poly 7 _ (531099/1000000) (by norm_num) (by norm_num [Finset.sum_range_succ, Nat.factorial]))
  have t2 := gauss1_le 2 (45/1000) (125/100) x _ _ (by norm_num) (by norm_num) (sq_lb_left (25/16) (125/100) x hxa (by norm_num))
    (exp_neg_le_of_poly 12 _ (114163/1000000) (by norm_num) (by norm_num [Finset.sum_range_succ, Nat.factorial]))
  have t3 := gauss1_le (1/2) (128/10000) (15/10) x _ _ (by norm_num) (by norm_num) (sq_lb_left (25/16) (15/10) x hxa (by norm_num))
    (exp_neg_le_of_poly 6 _ (147399/200000) (by norm_num) (by norm_num [Finset.sum_range_succ, Nat.factorial]))
  have t4 := gauss1_le 2 (5/1000) (16/10) x _ _ (by norm_num) (by norm_num) (sq_lb_right (101/64) (16/10) x hxb (by norm_num))
    (exp_neg_le_of_poly 4 _ (908737/1000000) (by norm_num) (by norm_num [Finset.sum_range_succ, Nat.factorial]))
  have t5 := gauss1_le (25/10) (2/100) (18/10) x _ _ (by norm_num) (by norm_num) (sq_lb_right (101/64) (18/10) x hxb (by norm_num))
    (exp_neg_le_of_poly 12 _ (17063/200000) (by norm_num) (by norm_num [Finset.sum_range_succ, Nat.factorial]))
  have t6 := gauss1_far (25/10) (2/100) (22/10) x _ (by norm_num) (by norm_num) (sq_lb_right (101/64) (22/10) x hxb (by norm_num)) (by norm_num)
  have t7 := gauss1_far 2 (5/1000) (24/10) x _ (by norm_num) (by norm_num) (sq_lb_right (101/64) (24/10) x hxb (by norm_num)) (by norm_num)
  have t8 := gauss1_far 2 (45/1000) (275/100) x _ (by norm_num) (by norm_num) (sq_lb_right (101/64) (275/100) x hxb (by norm_num)) (by norm_num)
  have t9 := gauss1_le_one (1/2) 3 x _ _ (by norm_num) (sq_lb_right (101/64) 3 x hxb (by norm_num))
    (exp_neg_le_of_poly 16 _ (17537/1000000) (by norm_num) (by norm_num [Finset.sum_range_succ, Nat.factorial]))
  have t10 := gauss1_far 2 (32/100) 6 x _ (by norm_num) (by norm_num) (sq_lb_right (101/64) 6 x hxb (by norm_num)) (by norm_num)
  have t11 := gauss1_far (22/10) (18/100) 7 x _ (by norm_num) (by norm_num) (sq_lb_right (101/64) 7 x hxb (by norm_num)) (by norm_num)
  have t12 := gauss1_far (24/10) (1/2) 8 x _ (by norm_num) (by norm_num) (sq_lb_right (101/64) 8 x hxb (by norm_num)) (by norm_num)
  have t13 := gauss1_far (23/10) (1/2) (95/10) x _ (by norm_num) (by norm_num) (sq_lb_right (101/64) (95/10) x hxb (by norm_num)) (by norm_num)
  have t14 := gauss1_far (32/10) (18/100) 11 x _ (by norm_num) (by norm_num) (sq_lb_right (101/64) 11 x hxb (by norm_num)) (by norm_num)
  have t15 := gauss1_far (12/10) (18/100) 12 x _ (by norm_num) (by norm_num) (sq_lb_right (101/64) 12 x hxb (by norm_num)) (by norm_num)
  linarith

theorem syn1_cell9 (x : ℝ) (hxa : (101/64) ≤ x) (hxb : x ≤ (203/128)) : synthetic1D x ≤ (3231 / 1000 : ℝ) := by
  rw [synthetic1D_at]
  have t1 := gauss1_le_one (1/2) 1 x _ _ (by norm_num) (sq_lb_left (101/64) 1 x hxa (by norm_num))
    (exp_neg_le_of_poly 7 _ (512503/1000000) (by norm_num) (by norm_num [Finset.sum_range_succ, Nat.factorial]))
  have t2 := gauss1_le 2 (45/1000) (125/100) x _ _ (by norm_num) (by norm_num) (sq_lb_left (101/64) (125/100) x hxa (by norm_num))
    (exp_neg_le_of_poly 12 _ (18279/200000) (by norm_num) (by norm_num [Finset.sum_range_succ, Nat.factorial]))
  have t3 := gauss1_le (1/2) (128/10000) (15/10) x _ _ (by norm_num) (by norm_num) (sq_lb_left (101/64) (15/10) x hxa (by norm_num))
    (exp_neg_le_of_poly 6 _ (620751/1000000) (by norm_num) (by norm_num [Finset.sum_range_succ, Nat.factorial]))
  have t4 := gauss1_le 2 (5/1000) (16/10) x _ _ (by norm_num) (by norm_num) (sq_lb_right (203/128) (16/10) x hxb (by norm_num))
    (exp_neg_le_of_poly 3 _ (961231/1000000) (by norm_num) (by norm_num [Finset.sum_range_succ, Nat.factorial]))
  have t5 := gauss1_le (25/10) (2/100) (18/10) x _ _ (by norm_num) (by norm_num) (sq_lb_right (203/128) (18/10) x hxb (by norm_num))
    (exp_neg_le_of_poly 12 _ (3161/31250) (by norm_num) (by norm_num [Finset.sum_range_succ, Nat.factorial]))
  have t6 := gauss1_far (25/10) (2/100) (22/10) x _ (by norm_num) (by norm_num) (sq_lb_right (203/128) (22/10) x hxb (by norm_num)) (by norm_num)
  have t7 := gauss1_far 2 (5/1000) (24/10) x _ (by norm_num) (by norm_num) (sq_lb_right (203/128) (24/10) x hxb (by norm_num)) (by norm_num)
  have t8 := gauss1_far 2 (45/1000) (275/100) x _ (by norm_num) (by norm_num) (sq_lb_right (203/128) (275/100) x hxb (by norm_num)) (by norm_num)
  have t9 := gauss1_le_one (1/2) 3 x _ _ (by norm_num) (sq_lb_right (203/128) 3 x hxb (by norm_num))
    (exp_neg_le_of_poly 14 _ (18333/1000000) (by norm_num) (by norm_num [Finset.sum_range_succ, Nat.factorial]))
  have t10 := gauss1_far 2 (32/100) 6 x _ (by norm_num) (by norm_num) (sq_lb_right (203/128) 6 x hxb (by norm_num)) (by norm_num)
  have t11 := gauss1_far (22/10) (18/100) 7 x _ (by norm_num) (by norm_num) (sq_lb_right (203/128) 7 x hxb (by norm_num)) (by norm_num)
  have t12 := gauss1_far (24/10) (1/2) 8 x _ (by norm_num) (by norm_num) (sq_lb_right (203/128) 8 x hxb (by norm_num)) (by norm_num)
  have t13 := gauss1_far (23/10) (1/2) (95/10) x _ (by norm_num) (by norm_num) (sq_lb_right (203/128) (95/10) x hxb (by norm_num)) (by norm_num)
  have t14 := gauss1_far (32/10) (18/100) 11 x _ (by norm_num) (by norm_num) (sq_lb_right (203/128) 11 x hxb (by norm_num)) (by norm_num)
  have t15 := gauss1_far (12/10) (18/100) 12 x _ (by norm_num) (by norm_num) (sq_lb_right (203/128) 12 x hxb (by norm_num)) (by norm_num)
  linarith

theorem syn1_cell10 (x : ℝ) (hxa : (203/128) ≤ x) (hxb : x ≤ (407/256)) : synthetic1D x ≤ (3231 / 1000 : ℝ) := by
  rw [synthetic1D_at]
  have t1 := gauss1_le_one (1/2) 1 x _ _ (by norm_num) (sq_lb_left (203/128) 1 x hxa (by norm_num))
    (exp_neg_le_of_poly 7 _ (251633/500000) (by norm_num) (by norm_num [Finset.sum_range_succ, Nat.factorial]))
  have t2 := gauss1_le 2 (45/1000) (125/100) x _ _ (by norm_num) (by norm_num) (sq_lb_left (203/128) (125/100) x hxa (by norm_num))
    (exp_neg_le_of_poly 12 _ (81443/1000000) (by norm_num) (by norm_num [Finset.sum_range_succ, Nat.factorial]))
  have t3 := gauss1_le (1/2) (128/10000) (15/10) x _ _ (by norm_num) (by norm_num) (sq_lb_left (203/128) (15/10) x hxa (by norm_num))
    (exp_neg_le_of_poly 7 _ (280799/500000) (by norm_num) (by norm_num [Finset.sum_range_succ, Nat.factorial]))
  have t4 := gauss1_le 2 (5/1000) (16/10) x _ _ (by norm_num) (by norm_num) (sq_lb_right (407/256) (16/10) x hxb (by norm_num))
    (exp_neg_le_of_poly 3 _ (979583/1000000) (by norm_num) (by norm_num [Finset.sum_range_succ, Nat.factorial]))
  have t5 := gauss1_le (25/10) (2/100) (18/10) x _ _ (by norm_num) (by norm_num) (sq_lb_right (407/256) (18/10) x hxb (by norm_num))
    (exp_neg_le_of_poly 12 _ (10989/100000) (by norm_num) (by norm_num [Finset.sum_range_succ, Nat.factorial]))
  have t6 := gauss1_far (25/10) (2/100) (22/10) x _ (by norm_num) (by norm_num) (sq_lb_right (407/256) (22/10) x hxb (by norm_num)) (by norm_num)
  have t7 := gauss1_far 2 (5/1000) (24/10) x _ (by norm_num) (by norm_num) (sq_lb_right (407/256) (24/10) x hxb (by norm_num)) (by norm_num)
  have t8 := gauss1_far 2 (45/1000) (275/100) x _ (by norm_num) (by norm_num) (sq_lb_right (407/256) (275/100) x hxb (by norm_num)) (by norm_num)
  have t9 := gauss1_le_one (1/2) 3 x _ _ (by norm_num) (sq_lb_right (407/256) 3 x hxb (by norm_num))
    (exp_neg_le_of_poly 14 _ (9371/500000) (by norm_num) (by norm_num [Finset.sum_range_succ, Nat.factorial]))
  have t10 := gauss1_far 2 (32/100) 6 x _ (by norm_num) (by norm_num) (sq_lb_right (407/256) 6 x hxb (by norm_num)) (by norm_num)
  have t11 := gauss1_far (22/10) (18/100) 7 x _ (by norm_num) (by norm_num) (sq_lb_right (407/256) 7 x hxb (by norm_num)) (by norm_num)
  have t12 := gauss1_far (24/10) (1/2) 8 x _ (by norm_num) (by norm_num) (sq_lb_right (407/256) 8 x hxb (by norm_num)) (by norm_num)
  have t13 := gauss1_far (23/10) (1/2) (95/10) x _ (by norm_num) (by norm_num) (sq_lb_right (407/256) (95/10) x hxb (by norm_num)) (by norm_num)
  have t14 := gauss1_far (32/10) (18/100) 11 x _ (by norm_num) (by norm_num) (sq_lb_right (407/256) 11 x hxb (by norm_num)) (by norm_num)
  have t15 := gauss1_far (12/10) (18/100) 12 x _ (by norm_num) (by norm_num) (sq_lb_right (407/256) 12 x hxb (by norm_num)) (by norm_num)
  linarith

theorem syn1_cell11 (x : ℝ) (hxa : (407/256) ≤ x) (hxb : x ≤ (51/32)) : synthetic1D x ≤ (3231 / 1000 : ℝ) := by
  rw [synthetic1D_at]
  have t1 := gauss1_le_one (1/2) 1 x _ _ (by norm_num) (sq_lb_left (407/256) 1 x hxa (by norm_num))
    (exp_neg_le_of_poly 7 _ (99733/200000) (by norm_num) (by norm_num [Finset.sum_range_succ, Nat.factorial]))
  have t2 := gauss1_le 2 (45/1000) (125/100) x _ _ (by norm_num) (by norm_num) (sq_lb_left (407/256) (125/100) x hxa (by norm_num))
    (exp_neg_le_of_poly 12 _ (76803/1000000) (by norm_num) (by norm_num [Finset.sum_range_succ, Nat.factorial]))
  have t3 := gauss1_le (1/2) (128/10000) (15/10) x _ _ (by norm_num) (by norm_num) (sq_lb_left (407/256) (15/10) x hxa (by norm_num))
    (exp_neg_le_of_poly 7 _ (266133/500000) (by norm_num) (by norm_num [Finset.sum_range_succ, Nat.factorial]))
  have t4 := gauss1_le 2 (5/1000) (16/10) x _ _ (by norm_num) (by norm_num) (sq_lb_right (51/32) (16/10) x hxb (by norm_num))
    (exp_neg_le_of_poly 3 _ (992219/1000000) (by norm_num) (by norm_num [Finset.sum_range_succ, Nat.factorial]))
  have t5 := gauss1_le (25/10) (2/100) (18/10) x _ _ (by norm_num) (by norm_num) (sq_lb_right (51/32) (18/10) x hxb (by norm_num))
    (exp_neg_le_of_poly 12 _ (119201/1000000) (by norm_num) (by norm_num [Finset.sum_range_succ, Nat.factorial]))
  have t6 := gauss1_far (25/10) (2/100) (22/10) x _ (by norm_num) (by norm_num) (sq_lb_right (51/32) (22/10) x hxb (by norm_num)) (by norm_num)
  have t7 := gauss1_far 2 (5/1000) (24/10) x _ (by norm_num) (by norm_num) (sq_lb_right (51/32) (24/10) x hxb (by norm_num)) (by norm_num)
  have t8 := gauss1_far 2 (45/1000) (275/100) x _ (by norm_num) (by norm_num) (sq_lb_right (51/32) (275/100) x hxb (by norm_num)) (by norm_num)
  have t9 := gauss1_le_one (1/2) 3 x _ _ (by norm_num) (sq_lb_right (51/32) 3 x hxb (by norm_num))
    (exp_neg_le_of_poly 14 _ (19159/1000000) (by norm_num) (by norm_num [Finset.sum_range_succ, Nat.factorial]))
  have t10 := gauss1_far 2 (32/100) 6 x _ (by norm_num) (by norm_num) (sq_lb_right (51/32) 6 x hxb (by norm_num)) (by norm_num)
  have t11 := gauss1_far (22/10) (18/100) 7 x _ (by norm_num) (by norm_num) (sq_lb_right (51/32) 7 x hxb (by norm_num)) (by norm_num)
  have t12 := gauss1_far (24/10) (1/2) 8 x _ (by norm_num) (by norm_num) (sq_lb_right (51/32) 8 x hxb (by norm_num)) (by norm_num)
  have t13 := gauss1_far (23/10) (1/2) (95/10) x _ (by norm_num) (by norm_num) (sq_lb_right (51/32) (95/10) x hxb (by norm_num)) (by norm_num)
  have t14 := gauss1_far (32/10) (18/100) 11 x _ (by norm_num) (by norm_num) (sq_lb_right (51/32) 11 x hxb (by norm_num)) (by norm_num)
  have t15 := gauss1_far (12/10) (18/100) 12 x _ (by norm_num) (by norm_num) (sq_lb_right (51/32) 12 x hxb (by norm_num)) (by norm_num)
  linarith

theorem syn1_node4 (x : ℝ) (hxa : (203/128) ≤ x) (hxb : x ≤ (51/32)) : synthetic1D x ≤ (3231 / 1000 : ℝ) := by
  rcases le_total x (407/256) with h | h
  · exact syn1_cell10 x hxa h
  · exact syn1_cell11 x h hxb

theorem syn1_node5 (x : ℝ) (hxa : (101/64) ≤ x) (hxb : x ≤ (51/32)) : synthetic1D x ≤ (3231 / 1000 : ℝ) := by
  rcases le_total x (203/128) with h | h
  · exact syn1_cell9 x hxa h
  · exact syn1_node4 x h hxb

theorem syn1_node6 (x : ℝ) (hxa : (25/16) ≤ x) (hxb : x ≤ (51/32)) : synthetic1D x ≤ (3231 / 1000 : ℝ) := by
  rcases le_total x (101/64) with h | h
  · exact syn1_cell8 x hxa h
  · exact syn1_node5 x h hxb

theorem syn1_cell12 (x : ℝ) (hxa : (51/32) ≤ x) (hxb : x ≤ (409/256)) : synthetic1D x ≤ (3231 / 1000 : ℝ) := by
  rw [synthetic1D_at]
  have t1 := gauss1_le_one (1/2) 1 x _ _ (by norm_num) (sq_lb_left (51/32) 1 x hxa (by norm_num))
    (exp_neg_le_of_poly 7 _ (19763/40000) (by norm_num) (by norm_num [Finset.sum_range_succ, Nat.factorial]))
  have t2 := gauss1_le 2 (45/1000) (125/100) x _ _ (by norm_num) (by norm_num) (sq_lb_left (51/32) (125/100) x hxa (by norm_num))
    (exp_neg_le_of_poly 12 _ (72379/1000000) (by norm_num) (by norm_num [Finset.sum_range_succ, Nat.factorial]))
  have t3 := gauss1_le (1/2) (128/10000) (15/10) x _ _ (by norm_num) (by norm_num) (sq_lb_left (51/32) (15/10) x hxa (by norm_num))
    (exp_neg_le_of_poly 7 _ (251633/500000) (by norm_num) (by norm_num [Finset.sum_range_succ, Nat.factorial]))
  have t4 := gauss1_le 2 (5/1000) (16/10) x _ _ (by norm_num) (by norm_num) (sq_lb_right (409/256) (16/10) x hxb (by norm_num))
    (exp_neg_le_of_poly 2 _ (998903/1000000) (by norm_num) (by norm_num [Finset.sum_range_succ, Nat.factorial]))
  have t5 := gauss1_le (25/10) (2/100) (18/10) x _ _ (by norm_num) (by norm_num) (sq_lb_right (409/256) (18/10) x hxb (by norm_num))
    (exp_neg_le_of_poly 12 _ (129103/1000000) (by norm_num) (by norm_num [Finset.sum_range_succ, Nat.factorial]))
  have t6 := gauss1_far (25/10) (2/100) (22/10) x _ (by norm_num) (by norm_num) (sq_lb_right (409/256) (22/10) x hxb (by norm_num)) (by norm_num)
  have t7 := gauss1_far 2 (5/1000) (24/10) x _ (by norm_num) (by norm_num) (sq_lb_right (409/256) (24/10) x hxb (by norm_num)) (by norm_num)
  have t8 := gauss1_far 2 (45/1000) (275/100) x _ (by norm_num) (by norm_num) (sq_lb_right (409/256) (275/100) x hxb (by norm_num)) (by norm_num)
  have t9 := gauss1_le_one (1/2) 3 x _ _ (by norm_num) (sq_lb_right (409/256) 3 x hxb (by norm_num))
    (exp_neg_le_of_poly 14 _ (306/15625) (by norm_num) (by norm_num [Finset.sum_range_succ, Nat.factorial]))
  have t10 := gauss1_far 2 (32/100) 6 x _ (by norm_num) (by norm_num) (sq_lb_right (409/256) 6 x hxb (by norm_num)) (by norm_num)
  have t11 := gauss1_far (22/10) (18/100) 7 x _ (by norm_num) (by norm_num) (sq_lb_right (409/256) 7 x hxb (by norm_num)) (by norm_num)
  have t12 := gauss1_far (24/10) (1/2) 8 x _ (by norm_num) (by norm_num) (sq_lb_right (409/256) 8 x hxb (by norm_num)) (by norm_num)
  have t13 := gauss1_far (23/10) (1/2) (95/10) x _ (by norm_num) (by norm_num) (sq_lb_right (409/256) (95/10) x hxb (by norm_num)) (by norm_num)
  have t14 := gauss1_far (32/10) (18/100) 11 x _ (by norm_num) (by norm_num) (sq_lb_right (409/256) 11 x hxb (by norm_num)) (by norm_num)
  have t15 := gauss1_far (12/10) (18/100) 12 x _ (by norm_num) (by norm_num) (sq_lb_right (409/256) 12 x hxb (by norm_num)) (by norm_num)
  linarith

theorem syn1_cell13 (x : ℝ) (hxa : (409/256) ≤ x) (hxb : x ≤ (819/512)) : synthetic1D x ≤ (3231 / 1000 : ℝ) := by
  rw [synthetic1D_at]
  have t1 := gauss1_le_one (1/2) 1 x _ _ (by norm_num) (sq_lb_left (409/256) 1 x hxa (by norm_num))
    (exp_neg_le_of_poly 7 _ (244749/500000) (by norm_num) (by norm_num [Finset.sum_range_succ, Nat.factorial]))
  have t2 := gauss1_le 2 (45/1000) (125/100) x _ _ (by norm_num) (by norm_num) (sq_lb_left (409/256) (125/100) x hxa (by norm_num))
    (exp_neg_le_of_poly 12 _ (68163/1000000) (by norm_num) (by norm_num [Finset.sum_range_succ, Nat.factorial]))
  have t3 := gauss1_le (1/2) (128/10000) (15/10) x _ _ (by norm_num) (by norm_num) (sq_lb_left (409/256) (15/10) x hxa (by norm_num))
    (exp_neg_le_of_poly 8 _ (118677/250000) (by norm_num) (by norm_num [Finset.sum_range_succ, Nat.factorial]))
  have t4 := gauss1_le 2 (5/1000) (16/10) x _ _ (by norm_num) (by norm_num) (sq_lb_right (819/512) (16/10) x hxb (by norm_num))
    (exp_neg_le_of_poly 2 _ (99997/100000) (by norm_num) (by norm_num [Finset.sum_range_succ, Nat.factorial]))
  have t5 := gauss1_le (25/10) (2/100) (18/10) x _ _ (by norm_num) (by norm_num) (sq_lb_right (819/512) (18/10) x hxb (by norm_num))
    (exp_neg_le_of_poly 12 _ (67141/500000) (by norm_num) (by norm_num [Finset.sum_range_succ, Nat.factorial]))
  have t6 := gauss1_far (25/10) (2/100) (22/10) x _ (by norm_num) (by norm_num) (sq_lb_right (819/512) (22/10) x hxb (by norm_num)) (by norm_num)
  have t7 := gauss1_far 2 (5/1000) (24/10) x _ (by norm_num) (by norm_num) (sq_lb_right (819/512) (24/10) x hxb (by norm_num)) (by norm_num)
  have t8 := gauss1_far 2 (45/1000) (275/100) x _ (by norm_num) (by norm_num) (sq_lb_right (819/512) (275/100) x hxb (by norm_num)) (by norm_num)
  have t9 := gauss1_le_one (1/2) 3 x _ _ (by norm_num) (sq_lb_right (819/512) 3 x hxb (by norm_num))
    (exp_neg_le_of_poly 14 _ (19799/1000000) (by norm_num) (by norm_num [Finset.sum_range_succ, Nat.factorial]))
  have t10 := gauss1_far 2 (32/100) 6 x _ (by norm_num) (by norm_num) (sq_lb_right (819/512) 6 x hxb (by norm_num)) (by norm_num)
  have t11 := gauss1_far (22/10) (18/100) 7 x _ (by norm_num) (by norm_num) (sq_lb_right (819/512) 7 x hxb (by norm_num)) (by norm_num)
  have t12 := gauss1_far (24/10) (1/2) 8 x _ (by norm_num) (by norm_num) (sq_lb_right (819/512) 8 x hxb (by norm_num)) (by norm_num)
  have t13 := gauss1_far (23/10) (1/2) (95/10) x _ (by norm_num) (by norm_num) (sq_lb_right (819/512) (95/10) x hxb (by norm_num)) (by norm_num)
  have t14 := gauss1_far (32/10) (18/100) 11 x _ (by norm_num) (by norm_num) (sq_lb_right (819/512) 11 x hxb (by norm_num)) (by norm_num)
  have t15 := gauss1_far (12/10) (18/100) 12 x _ (by norm_num) (by norm_num) (sq_lb_right (819/512) 12 x hxb (by norm_num)) (by norm_num)
  linarith

theorem syn1_cell14 (x : ℝ) (hxa : (819/512) ≤ x) (hxb : x ≤ (205/128)) : synthetic1D x ≤ (3231 / 1000 : ℝ) := by
  rw [synthetic1D_at]
  have t1 := gauss1_le_one (1/2) 1 x _ _ (by norm_num) (sq_lb_left (819/512) 1 x hxa (by norm_num))
    (exp_neg_le_of_poly 7 _ (243607/500000) (by norm_num) (by norm_num [Finset.sum_range_succ, Nat.factorial]))
  have t2 := gauss1_le 2 (45/1000) (125/100) x _ _ (by norm_num) (by norm_num) (sq_lb_left (819/512) (125/100) x hxa (by norm_num))
    (exp_neg_le_of_poly 12 _ (66131/1000000) (by norm_num) (by norm_num [Finset.sum_range_succ, Nat.factorial]))
  have t3 := gauss1_le (1/2) (128/10000) (15/10) x _ _ (by norm_num) (by norm_num) (sq_lb_left (819/512) (15/10) x hxa (by norm_num))
    (exp_neg_le_of_poly 8 _ (57579/125000) (by norm_num) (by norm_num [Finset.sum_range_succ, Nat.factorial]))
  have t4 := gauss1_le 2 (5/1000) (16/10) x _ _ (by norm_num) (by norm_num) (sq_nonneg _)
    (exp_neg_le_of_poly 1 _ (1) (by norm_num) (by norm_num [Finset.sum_range_succ, Nat.factorial]))
  have t5 := gauss1_le (25/10) (2/100) (18/10) x _ _ (by norm_num) (by norm_num) (sq_lb_right (205/128) (18/10) x hxb (by norm_num))
    (exp_neg_le_of_poly 12 _ (27923/200000) (by norm_num) (by norm_num [Finset.sum_range_succ, Nat.factorial]))
  have t6 := gauss1_far (25/10) (2/100) (22/10) x _ (by norm_num) (by norm_num) (sq_lb_right (205/128) (22/10) x hxb (by norm_num)) (by norm_num)
  have t7 := gauss1_far 2 (5/1000) (24/10) x _ (by norm_num) (by norm_num) (sq_lb_right (205/128) (24/10) x hxb (by norm_num)) (by norm_num)
  have t8 := gauss1_far 2 (45/1000) (275/100) x _ (by norm_num) (by norm_num) (sq_lb_right (205/128) (275/100) x hxb (by norm_num)) (by norm_num)
  have t9 := gauss1_le_one (1/2) 3 x _ _ (by norm_num) (sq_lb_right (205/128) 3 x hxb (by norm_num))
    (exp_neg_le_of_poly 14 _ (20017/1000000) (by norm_num) (by norm_num [Finset.sum_range_succ, Nat.factorial]))
  have t10 := gauss1_far 2 (32/100) 6 x _ (by norm_num) (by norm_num) (sq_lb_right (205/128) 6 x hxb (by norm_num)) (by norm_num)
  have t11 := gauss1_far (22/10) (18/100) 7 x _ (by norm_num) (by norm_num) (sq_lb_right (205/128) 7 x hxb (by norm_num)) (by norm_num)
  have t12 := gauss1_far (24/10) (1/2) 8 x _ (by norm_num) (by norm_num) (sq_lb_right (205/128) 8 x hxb (by norm_num)) (by norm_num)
  have t13 := gauss1_far (23/10) (1/2) (95/10) x _ (by norm_num) (by norm_num) (sq_lb_right (205/128) (95/10) x hxb (by norm_num)) (by norm_num)
  have t14 := gauss1_far (32/10) (18/100) 11 x _ (by norm_num) (by norm_num) (sq_lb_right (205/128) 11 x hxb (by norm_num)) (by norm_num)
  have t15 := gauss1_far (12/10) (18/100) 12 x _ (by norm_num) (by norm_num) (sq_lb_right (205/128) 12 x hxb (by norm_num)) (by norm_num)
  linarith

theorem syn1_node7 (x : ℝ) (hxa : (409/256) ≤ x) (hxb : x ≤ (205/128)) : synthetic1D x ≤ (3231 / 1000 : ℝ) := by
  rcases le_total x (819/512) with h | h
  · exact syn1_cell13 x hxa h
  · exact syn1_cell14 x h hxb

theorem syn1_node8 (x : ℝ) (hxa : (51/32) ≤ x) (hxb : x ≤ (205/128)) : synthetic1D x ≤ (3231 / 1000 : ℝ) := by
  rcases le_total x (409/256) with h | h
  · exact syn1_cell12 x hxa h
  · exact syn1_node7 x h hxb

theorem syn1_cell15 (x : ℝ) (hxa : (205/128) ≤ x) (hxb : x ≤ (821/512)) : synthetic1D x ≤ (3231 / 1000 : ℝ) := by
  rw [synthetic1D_at]
  have t1 := gauss1_le_one (1/2) 1 x _ _ (by norm_num) (sq_lb_left (205/128) 1 x hxa (by norm_num))
    (exp_neg_le_of_poly 7 _ (242467/500000) (by norm_num) (by norm_num [Finset.sum_range_succ, Nat.factorial]))
  have t2 := gauss1_le 2 (45/1000) (125/100) x _ _ (by norm_num) (by norm_num) (sq_lb_left (205/128) (125/100) x hxa (by norm_num))
    (exp_neg_le_of_poly 12 _ (64149/1000000) (by norm_num) (by norm_num [Finset.sum_range_succ, Nat.factorial]))
  have t3 := gauss1_le (1/2) (128/10000) (15/10) x _ _ (by norm_num) (by norm_num) (sq_lb_left (205/128) (15/10) x hxa (by norm_num))
    (exp_neg_le_of_poly 8 _ (446707/1000000) (by norm_num) (by norm_num [Finset.sum_range_succ, Nat.factorial]))
  have t4 := gauss1_le 2 (5/1000) (16/10) x _ _ (by norm_num) (by norm_num) (sq_lb_left (205/128) (16/10) x hxa (by norm_num))
    (exp_neg_le_of_poly 2 _ (124939/125000) (by norm_num) (by norm_num [Finset.sum_range_succ, Nat.factorial]))
  have t5 := gauss1_le (25/10) (2/100) (18/10) x _ _ (by norm_num) (by norm_num) (sq_lb_right (821/512) (18/10) x hxb (by norm_num))
    (exp_neg_le_of_poly 12 _ (29021/200000) (by norm_num) (by norm_num [Finset.sum_range_succ, Nat.factorial]))
  have t6 := gauss1_far (25/10) (2/100) (22/10) x _ (by norm_num) (by norm_num) (sq_lb_right (821/512) (22/10) x hxb (by norm_num)) (by norm_num)
  have t7 := gauss1_far 2 (5/1000) (24/10) x _ (by norm_num) (by norm_num) (sq_lb_right (821/512) (24/10) x hxb (by norm_num)) (by norm_num)
  have t8 := gauss1_far 2 (45/1000) (275/100) x _ (by norm_num) (by norm_num) (sq_lb_right (821/512) (275/100) x hxb (by norm_num)) (by norm_num)
  have t9 := gauss1_le_one (1/2) 3 x _ _ (by norm_num) (sq_lb_right (821/512) 3 x hxb (by norm_num))
    (exp_neg_le_of_poly 14 _ (20237/1000000) (by norm_num) (by norm_num [Finset.sum_range_succ, Nat.factorial]))
  have t10 := gauss1_far 2 (32/100) 6 x _ (by norm_num) (by norm_num) (sq_lb_right (821/512) 6 x hxb (by norm_num)) (by norm_num)
  have t11 := gauss1_far (22/10) (18/100) 7 x _ (by norm_num) (by norm_num) (sq_lb_right (821/512) 7 x hxb (by norm_num)) (by norm_num)
  have t12 := gauss1_far (24/10) (1/2) 8 x _ (by norm_num) (by norm_num) (sq_lb_right (821/512) 8 x hxb (by norm_num)) (by norm_num)
  have t13 := gauss1_far (23/10) (1/2) (95/10) x _ (by norm_num) (by norm_num) (sq_lb_right (821/512) (95/10) x hxb (by norm_num)) (by norm_num)
  have t14 := gauss1_far (32/10) (18/100) 11 x _ (by norm_num) (by norm_num) (sq_lb_right (821/512) 11 x hxb (by norm_num)) (by norm_num)
  have t15 := gauss1_far (12/10) (18/100) 12 x _ (by norm_num) (by norm_num) (sq_lb_right (821/512) 12 x hxb (by norm_num)) (by norm_num)
  linarith

theorem syn1_cell16 (x : ℝ) (hxa : (821/512) ≤ x) (hxb : x ≤ (411/256)) : synthetic1D x ≤ (3231 / 1000 : ℝ) := by
  rw [synthetic1D_at]
  have t1 := gauss1_le_one (1/2) 1 x _ _ (by norm_num) (sq_lb_left (821/512) 1 x hxa (by norm_num))
    (exp_neg_le_of_poly 7 _ (482657/1000000) (by norm_num) (by norm_num [Finset.sum_range_succ, Nat.factorial]))
  have t2 := gauss1_le 2 (45/1000) (125/100) x _ _ (by norm_num) (by norm_num) (sq_lb_left (821/512) (125/100) x hxa (by norm_num))
    (exp_neg_le_of_poly 12 _ (7777/125000) (by norm_num) (by norm_num [Finset.sum_range_succ, Nat.factorial]))
  have t3 := gauss1_le (1/2) (128/10000) (15/10) x _ _ (by norm_num) (by norm_num) (sq_lb_left (821/512) (15/10) x hxa (by norm_num))
    (exp_neg_le_of_poly 8 _ (216473/500000) (by norm_num) (by norm_num [Finset.sum_range_succ, Nat.factorial]))
  have t4 := gauss1_le 2 (5/1000) (16/10) x _ _ (by norm_num) (by norm_num) (sq_lb_left (821/512) (16/10) x hxa (by norm_num))
    (exp_neg_le_of_poly 2 _ (199507/200000) (by norm_num) (by norm_num [Finset.sum_range_succ, Nat.factorial]))
  have t5 := gauss1_le (25/10) (2/100) (18/10) x _ _ (by norm_num) (by norm_num) (sq_lb_right (411/256) (18/10) x hxb (by norm_num))
    (exp_neg_le_of_poly 12 _ (4711/31250) (by norm_num) (by norm_num [Finset.sum_range_succ, Nat.factorial]))
  have t6 := gauss1_far (25/10) (2/100) (22/10) x _ (by norm_num) (by norm_num) (sq_lb_right (411/256) (22/10) x hxb (by norm_num)) (by norm_num)
  have t7 := gauss1_far 2 (5/1000) (24/10) x _ (by norm_num) (by norm_num) (sq_lb_right (411/256) (24/10) x hxb (by norm_num)) (by norm_num)
  have t8 := gauss1_far 2 (45/1000) (275/100) x _ (by norm_num) (by norm_num) (sq_lb_right (411/256) (275/100) x hxb (by norm_num)) (by norm_num)
  have t9 := gauss1_le_one (1/2) 3 x _ _ (by norm_num) (sq_lb_right (411/256) 3 x hxb (by norm_num))
    (exp_neg_le_of_poly 14 _ (20459/1000000) (by norm_num) (by norm_num [Finset.sum_range_succ, Nat.factorial]))
  have t10 := gauss1_far 2 (32/100) 6 x _ (by norm_num) (by norm_num) (sq_lb_right (411/256) 6 x hxb (by norm_num)) (by norm_num)
  have t11 := gauss1_far (22/10) (18/100) 7 x _ (by norm_num) (by norm_num) (sq_lb_right (411/256) 7 x hxb (by norm_num)) (by norm_num)
  have t12 := gauss1_far (24/10) (1/2) 8 x _ (by norm_num) (by norm_num) (sq_lb_right (411/256) 8 x hxb (by norm_num)) (by norm_num)
  have t13 := gauss1_far (23/10) (1/2) (95/10) x _ (by norm_num) (by norm_num) (sq_lb_right (411/256) (95/10) x hxb (by norm_num)) (by norm_num)
  have t14 := gauss1_far (32/10) (18/100) 11 x _ (by norm_num) (by norm_num) (sq_lb_right (411/256) 11 x hxb (by norm_num)) (by norm_num)
  have t15 := gauss1_far (12/10) (18/100) 12 x _ (by norm_num) (by norm_num) (sq_lb_right (411/256) 12 x hxb (by norm_num)) (by norm_num)
  linarith

theorem syn1_node9 (x : ℝ) (hxa : (205/128) ≤ x) (hxb : x ≤ (411/256)) : synthetic1D x ≤ (3231 / 1000 : ℝ) := by
  rcases le_total x (821/512) with h | h
  · exact syn1_cell15 x hxa h
  · exact syn1_cell16 x h hxb

theorem syn1_cell17 (x : ℝ) (hxa : (411/256) ≤ x) (hxb : x ≤ (103/64)) : synthetic1D x ≤ (3231 / 1000 : ℝ) := by
  rw [synthetic1D_at]
  have t1 := gauss1_le_one (1/2) 1 x _ _ (by norm_num) (sq_lb_left (411/256) 1 x hxa (by norm_num))
    (exp_neg_le_of_poly 7 _ (480383/1000000) (by norm_num) (by norm_num [Finset.sum_range_succ, Nat.factorial]))
  have t2 := gauss1_le 2 (45/1000) (125/100) x _ _ (by norm_num) (by norm_num) (sq_lb_left (411/256) (125/100) x hxa (by norm_num))
    (exp_neg_le_of_poly 14 _ (60329/1000000) (by norm_num) (by norm_num [Finset.sum_range_succ, Nat.factorial]))
  have t3 := gauss1_le (1/2) (128/10000) (15/10) x _ _ (by norm_num) (by norm_num) (sq_lb_left (411/256) (15/10) x hxa (by norm_num))
    (exp_neg_le_of_poly 8 _ (209679/500000) (by norm_num) (by norm_num [Finset.sum_range_succ, Nat.factorial]))
  have t4 := gauss1_le 2 (5/1000) (16/10) x _ _ (by norm_num) (by norm_num) (sq_lb_left (411/256) (16/10) x hxa (by norm_num))
    (exp_neg_le_of_poly 3 _ (994037/1000000) (by norm_num) (by norm_num [Finset.sum_range_succ, Nat.factorial]))
  have t5 := gauss1_le (25/10) (2/100) (18/10) x _ _ (by norm_num) (by norm_num) (sq_lb_right (103/64) (18/10) x hxb (by norm_num))
    (exp_neg_le_of_poly 12 _ (16253/100000) (by norm_num) (by norm_num [Finset.sum_range_succ, Nat.factorial]))
  have t6 := gauss1_far (25/10) (2/100) (22/10) x _ (by norm_num) (by norm_num) (sq_lb_right (103/64) (22/10) x hxb (by norm_num)) (by norm_num)
  have t7 := gauss1_far 2 (5/1000) (24/10) x _ (by norm_num) (by norm_num) (sq_lb_right (103/64) (24/10) x hxb (by norm_num)) (by norm_num)
  have t8 := gauss1_far 2 (45/1000) (275/100) x _ (by norm_num) (by norm_num) (sq_lb_right (103/64) (275/100) x hxb (by norm_num)) (by norm_num)
  have t9 := gauss1_le_one (1/2) 3 x _ _ (by norm_num) (sq_lb_right (103/64) 3 x hxb (by norm_num))
    (exp_neg_le_of_poly 14 _ (20909/1000000) (by norm_num) (by norm_num [Finset.sum_range_succ, Nat.factorial]))
  have t10 := gauss1_far 2 (32/100) 6 x _ (by norm_num) (by norm_num) (sq_lb_right (103/64) 6 x hxb (by norm_num)) (by norm_num)
  have t11 := gauss1_far (22/10) (18/100) 7 x _ (by norm_num) (by norm_num) (sq_lb_right (103/64) 7 x hxb (by norm_num)) (by norm_num)
  have t12 := gauss1_far (24/10) (1/2) 8 x _ (by norm_num) (by norm_num) (sq_lb_right (103/64) 8 x hxb (by norm_num)) (by norm_num)
  have t13 := gauss1_far (23/10) (1/2) (95/10) x _ (by norm_num) (by norm_num) (sq_lb_right (103/64) (95/10) x hxb (by norm_num)) (by norm_num)
  have t14 := gauss1_far (32/10) (18/100) 11 x _ (by norm_num) (by norm_num) (sq_lb_right (103/64) 11 x hxb (by norm_num)) (by norm_num)
  have t15 := gauss1_far (12/10) (18/100) 12 x _ (by norm_num) (by norm_num) (sq_lb_right (103/64) 12 x hxb (by norm_num)) (by norm_num)
  linarith

theorem syn1_node10 (x : ℝ) (hxa : (205/128) ≤ x) (hxb : x ≤ (103/64)) : synthetic1D x ≤ (3231 / 1000 : ℝ) := by
  rcases le_total x (411/256) with h | h
  · exact syn1_node9 x hxa h
  · exact syn1_cell17 x h hxb

theorem syn1_node11 (x : ℝ) (hxa : (51/32) ≤ x) (hxb : x ≤ (103/64)) : synthetic1D x ≤ (3231 / 1000 : ℝ) := by
  rcases le_total x (205/128) with h | h
  · exact syn1_node8 x hxa h
  · exact syn1_node10 x h hxb

theorem syn1_cell18 (x : ℝ) (hxa : (103/64) ≤ x) (hxb : x ≤ (413/256)) : synthetic1D x ≤ (3231 / 1000 : ℝ) := by
  rw [synthetic1D_at]
  have t1 := gauss1_le_one (1/2) 1 x _ _ (by norm_num) (sq_lb_left (103/64) 1 x hxa (by norm_num))
    (exp_neg_le_of_poly 8 _ (1487/3125) (by norm_num) (by norm_num [Finset.sum_range_succ, Nat.factorial]))
  have t2 := gauss1_le 2 (45/1000) (125/100) x _ _ (by norm_num) (by norm_num) (sq_lb_left (103/64) (125/100) x hxa (by norm_num))
    (exp_neg_le_of_poly 14 _ (56699/1000000) (by norm_num) (by norm_num [Finset.sum_range_succ, Nat.factorial]))
  have t3 := gauss1_le (1/2) (128/10000) (15/10) x _ _ (by norm_num) (by norm_num) (sq_lb_left (103/64) (15/10) x hxa (by norm_num))
    (exp_neg_le_of_poly 8 _ (196373/500000) (by norm_num) (by norm_num [Finset.sum_range_succ, Nat.factorial]))
  have t4 := gauss1_le 2 (5/1000) (16/10) x _ _ (by norm_num) (by norm_num) (sq_lb_left (103/64) (16/10) x hxa (by norm_num))
    (exp_neg_le_of_poly 3 _ (982577/1000000) (by norm_num) (by norm_num [Finset.sum_range_succ, Nat.factorial]))
  have t5 := gauss1_le (25/10) (2/100) (18/10) x _ _ (by norm_num) (by norm_num) (sq_lb_right (413/256) (18/10) x hxb (by norm_num))
    (exp_neg_le_of_poly 10 _ (43741/250000) (by norm_num) (by norm_num [Finset.sum_range_succ, Nat.factorial]))
  have t6 := gauss1_far (25/10) (2/100) (22/10) x _ (by norm_num) (by norm_num) (sq_lb_right (413/256) (22/10) x hxb (by norm_num)) (by norm_num)
  have t7 := gauss1_far 2 (5/1000) (24/10) x _ (by norm_num) (by norm_num) (sq_lb_right (413/256) (24/10) x hxb (by norm_num)) (by norm_num)
  have t8 := gauss1_far 2 (45/1000) (275/100) x _ (by norm_num) (by norm_num) (sq_lb_right (413/256) (275/100) x hxb (by norm_num)) (by norm_num)
  have t9 := gauss1_le_one (1/2) 3 x _ _ (by norm_num) (sq_lb_right (413/256) 3 x hxb (by norm_num))
    (exp_neg_le_of_poly 14 _ (21367/1000000) (by norm_num) (by norm_num [Finset.sum_range_succ, Nat.factorial]))
  have t10 := gauss1_far 2 (32/100) 6 x _ (by norm_num) (by norm_num) (sq_lb_right (413/256) 6 x hxb (by norm_num)) (by norm_num)
  have t11 := gauss1_far (22/10) (18/100) 7 x _ (by norm_num) (by norm_num) (sq_lb_right (413/256) 7 x hxb (by norm_num)) (by norm_num)
  have t12 := gauss1_far (24/10) (1/2) 8 x _ (by norm_num) (by norm_num) (sq_lb_right (413/256) 8 x hxb (by norm_num)) (by norm_num)
  have t13 := gauss1_far (23/10) (1/2) (95/10) x _ (by norm_num) (by norm_num) (sq_lb_right (413/256) (95/10) x hxb (by norm_num)) (by norm_num)
  have t14 := gauss1_far (32/10) (18/100) 11 x _ (by norm_num) (by norm_num) (sq_lb_right (413/256) 11 x hxb (by norm_num)) (by norm_num)
  have t15 := gauss1_far (12/10) (18/100) 12 x _ (by norm_num) (by norm_num) (sq_lb_right (413/256) 12 x hxb (by norm_num)) (by norm_num)
  linarith

theorem syn1_cell19 (x : ℝ) (hxa : (413/256) ≤ x) (hxb : x ≤ (207/128)) : synthetic1D x ≤ (3231 / 1000 : ℝ) := by
  rw [synthetic1D_at]
  have t1 := gauss1_le_one (1/2) 1 x _ _ (by norm_num) (sq_lb_left (413/256) 1 x hxa (by norm_num))
    (exp_neg_le_of_poly 8 _ (471317/1000000) (by norm_num) (by norm_num [Finset.sum_range_succ, Nat.factorial]))
  have t2 := gauss1_le 2 (45/1000) (125/100) x _ _ (by norm_num) (by norm_num) (sq_lb_left (413/256) (125/100) x hxa (by norm_num))
    (exp_neg_le_of_poly 14 _ (13313/250000) (by norm_num) (by norm_num [Finset.sum_range_succ, Nat.factorial]))
  have t3 := gauss1_le (1/2) (128/10000) (15/10) x _ _ (by norm_num) (by norm_num) (sq_lb_left (413/256) (15/10) x hxa (by norm_num))
    (exp_neg_le_of_poly 8 _ (366947/1000000) (by norm_num) (by norm_num [Finset.sum_range_succ, Nat.factorial]))
  have t4 := gauss1_le 2 (5/1000) (16/10) x _ _ (by norm_num) (by norm_num) (sq_lb_left (413/256) (16/10) x hxa (by norm_num))
    (exp_neg_le_of_poly 3 _ (30167/31250) (by norm_num) (by norm_num [Finset.sum_range_succ, Nat.factorial]))
  have t5 := gauss1_le (25/10) (2/100) (18/10) x _ _ (by norm_num) (by norm_num) (sq_lb_right (207/128) (18/10) x hxb (by norm_num))
    (exp_neg_le_of_poly 10 _ (94029/500000) (by norm_num) (by norm_num [Finset.sum_range_succ, Nat.factorial]))
  have t6 := gauss1_far (25/10) (2/100) (22/10) x _ (by norm_num) (by norm_num) (sq_lb_right (207/128) (22/10) x hxb (by norm_num)) (by norm_num)
  have t7 := gauss1_far 2 (5/1000) (24/10) x _ (by norm_num) (by norm_num) (sq_lb_right (207/128) (24/10) x hxb (by norm_num)) (by norm_num)
  have t8 := gauss1_far 2 (45/1000) (275/100) x _ (by norm_num) (by norm_num) (sq_lb_right (207/128) (275/100) x hxb (by norm_num)) (by norm_num)
  have t9 := gauss1_le_one (1/2) 3 x _ _ (by norm_num) (sq_lb_right (207/128) 3 x hxb (by norm_num))
    (exp_neg_le_of_poly 14 _ (10917/500000) (by norm_num) (by norm_num [Finset.sum_range_succ, Nat.factorial]))
  have t10 := gauss1_far 2 (32/100) 6 x _ (by norm_num) (by norm_num) (sq_lb_right (207/128) 6 x hxb (by norm_num)) (by norm_num)
  have t11 := gauss1_far (22/10) (18/100) 7 x _ (by norm_num) (by norm_num) (sq_lb_right (207/128) 7 x hxb (by norm_num)) (by norm_num)
  have t12 := gauss1_far (24/10) (1/2) 8 x _ (by norm_num) (by norm_num) (sq_lb_right (207/128) 8 x hxb (by norm_num)) (by norm_num)
  have t13 := gauss1_far (23/10) (1/2) (95/10) x _ (by norm_num) (by norm_num) (sq_lb_right (207/128) (95/10) x hxb (by norm_num)) (by norm_num)
  have t14 := gauss1_far (32/10) (18/100) 11 x _ (by norm_num) (by norm_num) (sq_lb_right (207/128) 11 x hxb (by norm_num)) (by norm_num)
  have t15 := gauss1_far (12/10) (18/100) 12 x _ (by norm_num) (by norm_num) (sq_lb_right (207/128) 12 x hxb (by norm_num)) (by norm_num)
  linarith

theorem syn1_node12 (x : ℝ) (hxa : (103/64) ≤ x) (hxb : x ≤ (207/128)) : synthetic1D x ≤ (3231 / 1000 : ℝ) := by
  rcases le_total x (413/256) with h | h
  · exact syn1_cell18 x hxa h
  · exact syn1_cell19 x h hxb

theorem syn1_cell20 (x : ℝ) (hxa : (207/128) ≤ x) (hxb : x ≤ (13/8)) : synthetic1D x ≤ (3231 / 1000 : ℝ) := by
  rw [synthetic1D_at]
  have t1 := gauss1_le_one (1/2) 1 x _ _ (by norm_num) (sq_lb_left (207/128) 1 x hxa (by norm_num))
    (exp_neg_le_of_poly 8 _ (466807/1000000) (by norm_num) (by norm_num [Finset.sum_range_succ, Nat.factorial]))
  have t2 := gauss1_le 2 (45/1000) (125/100) x _ _ (by norm_num) (by norm_num) (sq_lb_left (207/128) (125/100) x hxa (by norm_num))
    (exp_neg_le_of_poly 14 _ (2499/50000) (by norm_num) (by norm_num [Finset.sum_range_succ, Nat.factorial]))
  have t3 := gauss1_le (1/2) (128/10000) (15/10) x _ _ (by norm_num) (by norm_num) (sq_lb_left (207/128) (15/10) x hxa (by norm_num))
    (exp_neg_le_of_poly 9 _ (171011/500000) (by norm_num) (by norm_num [Finset.sum_range_succ, Nat.factorial]))
  have t4 := gauss1_le 2 (5/1000) (16/10) x _ _ (by norm_num) (by norm_num) (sq_lb_left (207/128) (16/10) x hxa (by norm_num))
    (exp_neg_le_of_poly 4 _ (94263/100000) (by norm_num) (by norm_num [Finset.sum_range_succ, Nat.factorial]))
  have t5 := gauss1_le (25/10) (2/100) (18/10) x _ _ (by norm_num) (by norm_num) (sq_lb_right (13/8) (18/10) x hxb (by norm_num))
    (exp_neg_le_of_poly 10 _ (216267/1000000) (by norm_num) (by norm_num [Finset.sum_range_succ, Nat.factorial]))
  have t6 := gauss1_far (25/10) (2/100) (22/10) x _ (by norm_num) (by norm_num) (sq_lb_right (13/8) (22/10) x hxb (by norm_num)) (by norm_num)
  have t7 := gauss1_far 2 (5/1000) (24/10) x _ (by norm_num) (by norm_num) (sq_lb_right (13/8) (24/10) x hxb (by norm_num)) (by norm_num)
  have t8 := gauss1_far 2 (45/1000) (275/100) x _ (by norm_num) (by norm_num) (sq_lb_right (13/8) (275/100) x hxb (by norm_num)) (by norm_num)
  have t9 := gauss1_le_one (1/2) 3 x _ _ (by norm_num) (sq_lb_right (13/8) 3 x hxb (by norm_num))
    (exp_neg_le_of_poly 14 _ (5699/250000) (by norm_num) (by norm_num [Finset.sum_range_succ, Nat.factorial]))
  have t10 := gauss1_far 2 (32/100) 6 x _ (by norm_num) (by norm_num) (sq_lb_right (13/8) 6 x hxb (by norm_num)) (by norm_num)
  have t11 := gauss1_far (22/10) (18/100) 7 x _ (by norm_num) (by norm_num) (sq_lb_right (13/8) 7 x hxb (by norm_num)) (by norm_num)
  have t12 := gauss1_far (24/10) (1/2) 8 x _ (by norm_num) (by norm_num) (sq_lb_right (13/8) 8 x hxb (by norm_num)) (by norm_num)
  have t13 := gauss1_far (23/10) (1/2) (95/10) x _ (by norm_num) (by norm_num) (sq_lb_right (13/8) (95/10) x hxb (by norm_num)) (by norm_num)
  have t14 := gauss1_far (32/10) (18/100) 11 x _ (by norm_num) (by norm_num) (sq_lb_right (13/8) 11 x hxb (by norm_num)) (by norm_num)
  have t15 := gauss1_far (12/10) (18/100) 12 x _ (by norm_num) (by norm_num) (sq_lb_right (13/8) 12 x hxb (by norm_num)) (by norm_num)
  linarith

theorem syn1_node13 (x : ℝ) (hxa : (103/64) ≤ x) (hxb : x ≤ (13/8)) : synthetic1D x ≤ (3231 / 1000 : ℝ) := by
  rcases le_total x (207/128) with h | h
  · exact syn1_node12 x hxa h
  · exact syn1_cell20 x h hxb

theorem syn1_node14 (x : ℝ) (hxa : (51/32) ≤ x) (hxb : x ≤ (13/8)) : synthetic1D x ≤ (3231 / 1000 : ℝ) := by
  rcases le_total x (103/64) with h | h
  · exact syn1_node11 x hxa h
  · exact syn1_node13 x h hxb

theorem syn1_node15 (x : ℝ) (hxa : (25/16) ≤ x) (hxb : x ≤ (13/8)) : synthetic1D x ≤ (3231 / 1000 : ℝ) := by
  rcases le_total x (51/32) with h | h
  · exact syn1_node6 x hxa h
  · exact syn1_node14 x h hxb

theorem syn1_node16 (x : ℝ) (hxa : (3/2) ≤ x) (hxb : x ≤ (13/8)) : synthetic1D x ≤ (3231 / 1000 : ℝ) := by
  rcases le_total x (25/16) with h | h
  · exact syn1_node3 x hxa h
  · exact syn1_node15 x h hxb

theorem syn1_cell21 (x : ℝ) (hxa : (13/8) ≤ x) (hxb : x ≤ (105/64)) : synthetic1D x ≤ (3231 / 1000 : ℝ) := by
  rw [synthetic1D_at]
  have t1 := gauss1_le_one (1/2) 1 x _ _ (by norm_num) (sq_lb_left (13/8) 1 x hxa (by norm_num))
    (exp_neg_le_of_poly 8 _ (91567/200000) (by norm_num) (by norm_num [Finset.sum_range_succ, Nat.factorial]))
  have t2 := gauss1_le 2 (45/1000) (125/100) x _ _ (by norm_num) (by norm_num) (sq_lb_left (13/8) (125/100) x hxa (by norm_num))
    (exp_neg_le_of_poly 14 _ (21969/500000) (by norm_num) (by norm_num [Finset.sum_range_succ, Nat.factorial]))
  have t3 := gauss1_le (1/2) (128/10000) (15/10) x _ _ (by norm_num) (by norm_num) (sq_lb_left (13/8) (15/10) x hxa (by norm_num))
    (exp_neg_le_of_poly 9 _ (11801/40000) (by norm_num) (by norm_num [Finset.sum_range_succ, Nat.factorial]))
  have t4 := gauss1_le 2 (5/1000) (16/10) x _ _ (by norm_num) (by norm_num) (sq_lb_left (13/8) (16/10) x hxa (by norm_num))
    (exp_neg_le_of_poly 4 _ (441253/500000) (by norm_num) (by norm_num [Finset.sum_range_succ, Nat.factorial]))
  have t5 := gauss1_le (25/10) (2/100) (18/10) x _ _ (by norm_num) (by norm_num) (sq_lb_right (105/64) (18/10) x hxb (by norm_num))
    (exp_neg_le_of_poly 9 _ (280829/1000000) (by norm_num) (by norm_num [Finset.sum_range_succ, Nat.factorial]))
  have t6 := gauss1_far (25/10) (2/100) (22/10) x _ (by norm_num) (by norm_num) (sq_lb_right (105/64) (22/10) x hxb (by norm_num)) (by norm_num)
  have t7 := gauss1_far 2 (5/1000) (24/10) x _ (by norm_num) (by norm_num) (sq_lb_right (105/64) (24/10) x hxb (by norm_num)) (by norm_num)
  have t8 := gauss1_far 2 (45/1000) (275/100) x _ (by norm_num) (by norm_num) (sq_lb_right (105/64) (275/100) x hxb (by norm_num)) (by norm_num)
  have t9 := gauss1_le_one (1/2) 3 x _ _ (by norm_num) (sq_lb_right (105/64) 3 x hxb (by norm_num))
    (exp_neg_le_of_poly 14 _ (24829/1000000) (by norm_num) (by norm_num [Finset.sum_range_succ, Nat.factorial]))
  have t10 := gauss1_far 2 (32/100) 6 x _ (by norm_num) (by norm_num) (sq_lb_right (105/64) 6 x hxb (by norm_num)) (by norm_num)
  have t11 := gauss1_far (22/10) (18/100) 7 x _ (by norm_num) (by norm_num) (sq_lb_right (105/64) 7 x hxb (by norm_num)) (by norm_num)
  have t12 := gauss1_far (24/10) (1/2) 8 x _ (by norm_num) (by norm_num) (sq_lb_right (105/64) 8 x hxb (by norm_num)) (by norm_num)
  have t13 := gauss1_far (23/10) (1/2) (95/10) x _ (by norm_num) (by norm_num) (sq_lb_right (105/64) (95/10) x hxb (by norm_num)) (by norm_num)
  have t14 := gauss1_far (32/10) (18/100) 11 x _ (by norm_num) (by norm_num) (sq_lb_right (105/64) 11 x hxb (by norm_num)) (by norm_num)
  have t15 := gauss1_far (12/10) (18/100) 12 x _ (by norm_num) (by norm_num) (sq_lb_right (105/64) 12 x hxb (by norm_num)) (by norm_num)
  linarith

theorem syn1_cell22 (x : ℝ) (hxa : (105/64) ≤ x) (hxb : x ≤ (53/32)) : synthetic1D x ≤ (3231 / 1000 : ℝ) := by
  rw [synthetic1D_at]
  have t1 := gauss1_le_one (1/2) 1 x _ _ (by norm_num) (sq_lb_left (105/64) 1 x hxa (by norm_num))
    (exp_neg_le_of_poly 8 _ (440081/1000000) (by norm_num) (by norm_num [Finset.sum_range_succ, Nat.factorial]))
  have t2 := gauss1_le 2 (45/1000) (125/100) x _ _ (by norm_num) (by norm_num) (sq_lb_left (105/64) (125/100) x hxa (by norm_num))
    (exp_neg_le_of_poly 14 _ (33681/1000000) (by norm_num) (by norm_num [Finset.sum_range_succ, Nat.factorial]))
  have t3 := gauss1_le (1/2) (128/10000) (15/10) x _ _ (by norm_num) (by norm_num) (sq_lb_left (105/64) (15/10) x hxa (by norm_num))
    (exp_neg_le_of_poly 10 _ (53331/250000) (by norm_num) (by norm_num [Finset.sum_range_succ, Nat.factorial]))
  have t4 := gauss1_le 2 (5/1000) (16/10) x _ _ (by norm_num) (by norm_num) (sq_lb_left (105/64) (16/10) x hxa (by norm_num))
    (exp_neg_le_of_poly 6 _ (718869/1000000) (by norm_num) (by norm_num [Finset.sum_range_succ, Nat.factorial]))
  have t5 := gauss1_le (25/10) (2/100) (18/10) x _ _ (by norm_num) (by norm_num) (sq_lb_right (53/32) (18/10) x hxb (by norm_num))
    (exp_neg_le_of_poly 8 _ (35587/100000) (by norm_num) (by norm_num [Finset.sum_range_succ, Nat.factorial]))
  have t6 := gauss1_far (25/10) (2/100) (22/10) x _ (by norm_num) (by norm_num) (sq_lb_right (53/32) (22/10) x hxb (by norm_num)) (by norm_num)
  have t7 := gauss1_far 2 (5/1000) (24/10) x _ (by norm_num) (by norm_num) (sq_lb_right (53/32) (24/10) x hxb (by norm_num)) (by norm_num)
  have t8 := gauss1_far 2 (45/1000) (275/100) x _ (by norm_num) (by norm_num) (sq_lb_right (53/32) (275/100) x hxb (by norm_num)) (by norm_num)
  have t9 := gauss1_le_one (1/2) 3 x _ _ (by norm_num) (sq_lb_right (53/32) 3 x hxb (by norm_num))
    (exp_neg_le_of_poly 14 _ (27017/1000000) (by norm_num) (by norm_num [Finset.sum_range_succ, Nat.factorial]))
  have t10 := gauss1_far 2 (32/100) 6 x _ (by norm_num) (by norm_num) (sq_lb_right (53/32) 6 x hxb (by norm_num)) (by norm_num)
  have t11 := gauss1_far (22/10) (18/100) 7 x _ (by norm_num) (by norm_num) (sq_lb_right (53/32) 7 x hxb (by norm_num)) (by norm_num)
  have t12 := gauss1_far (24/10) (1/2) 8 x _ (by norm_num) (by norm_num) (sq_lb_right (53/32) 8 x hxb (by norm_num)) (by norm_num)
  have t13 := gauss1_far (23/10) (1/2) (95/10) x _ (by norm_num) (by norm_num) (sq_lb_right (53/32) (95/10) x hxb (by norm_num)) (by norm_num)
  have t14 := gauss1_far (32/10) (18/100) 11 x _ (by norm_num) (by norm_num) (sq_lb_right (53/32) 11 x hxb (by norm_num)) (by norm_num)
  have t15 := gauss1_far (12/10) (18/100) 12 x _ (by norm_num) (by norm_num) (sq_lb_right (53/32) 12 x hxb (by norm_num)) (by norm_num)
  linarith

theorem syn1_node17 (x : ℝ) (hxa : (13/8) ≤ x) (hxb : x ≤ (53/32)) : synthetic1D x ≤ (3231 / 1000 : ℝ) := by
  rcases le_total x (105/64) with h | h
  · exact syn1_cell21 x hxa h
  · exact syn1_cell22 x h hxb

theorem syn1_cell23 (x : ℝ) (hxa : (53/32) ≤ x) (hxb : x ≤ (27/16)) : synthetic1D x ≤ (3231 / 1000 : ℝ) := by
  rw [synthetic1D_at]
  have t1 := gauss1_le_one (1/2) 1 x _ _ (by norm_num) (sq_lb_left (53/32) 1 x hxa (by norm_num))
    (exp_neg_le_of_poly 8 _ (211301/500000) (by norm_num) (by norm_num [Finset.sum_range_succ, Nat.factorial]))
  have t2 := gauss1_le 2 (45/1000) (125/100) x _ _ (by norm_num) (by norm_num) (sq_lb_left (53/32) (125/100) x hxa (by norm_num))
    (exp_neg_le_of_poly 14 _ (25541/1000000) (by norm_num) (by norm_num [Finset.sum_range_succ, Nat.factorial]))
  have t3 := gauss1_le (1/2) (128/10000) (15/10) x _ _ (by norm_num) (by norm_num) (sq_lb_left (53/32) (15/10) x hxa (by norm_num))
    (exp_neg_le_of_poly 12 _ (74237/500000) (by norm_num) (by norm_num [Finset.sum_range_succ, Nat.factorial]))
  have t4 := gauss1_le 2 (5/1000) (16/10) x _ _ (by norm_num) (by norm_num) (sq_lb_left (53/32) (16/10) x hxa (by norm_num))
    (exp_neg_le_of_poly 7 _ (531099/1000000) (by norm_num) (by norm_num [Finset.sum_range_succ, Nat.factorial]))
  have t5 := gauss1_le (25/10) (2/100) (18/10) x _ _ (by norm_num) (by norm_num) (sq_lb_right (27/16) (18/10) x hxb (by norm_num))
    (exp_neg_le_of_poly 7 _ (531099/1000000) (by norm_num) (by norm_num [Finset.sum_range_succ, Nat.factorial]))
  have t6 := gauss1_le (25/10) (2/100) (22/10) x _ _ (by norm_num) (by norm_num) (sq_lb_right (27/16) (22/10) x hxb (by norm_num))
    (exp_neg_le_of_poly 16 _ (3/1000000) (by norm_num) (by norm_num [Finset.sum_range_succ, Nat.factorial]))
  have t7 := gauss1_far 2 (5/1000) (24/10) x _ (by norm_num) (by norm_num) (sq_lb_right (27/16) (24/10) x hxb (by norm_num)) (by norm_num)
  have t8 := gauss1_far 2 (45/1000) (275/100) x _ (by norm_num) (by norm_num) (sq_lb_right (27/16) (275/100) x hxb (by norm_num)) (by norm_num)
  have t9 := gauss1_le_one (1/2) 3 x _ _ (by norm_num) (sq_lb_right (27/16) 3 x hxb (by norm_num))
    (exp_neg_le_of_poly 14 _ (3987/125000) (by norm_num) (by norm_num [Finset.sum_range_succ, Nat.factorial]))
  have t10 := gauss1_far 2 (32/100) 6 x _ (by norm_num) (by norm_num) (sq_lb_right (27/16) 6 x hxb (by norm_num)) (by norm_num)
  have t11 := gauss1_far (22/10) (18/100) 7 x _ (by norm_num) (by norm_num) (sq_lb_right (27/16) 7 x hxb (by norm_num)) (by norm_num)
  have t12 := gauss1_far (24/10) (1/2) 8 x _ (by norm_num) (by norm_num) (sq_lb_right (27/16) 8 x hxb (by norm_num)) (by norm_num)
  have t13 := gauss1_far (23/10) (1/2) (95/10) x _ (by norm_num) (by norm_num) (sq_lb_right (27/16) (95/10) x hxb (by norm_num)) (by norm_num)
  have t14 := gauss1_far (32/10) (18/100) 11 x _ (by norm_num) (by norm_num) (sq_lb_right (27/16) 11 x hxb (by norm_num)) (by norm_num)
  have t15 := gauss1_far (12/10) (18/100) 12 x _ (by norm_num) (by norm_num) (sq_lb_right (27/16) 12 x hxb (by norm_num)) (by norm_num)
  linarith

theorem syn1_node18 (x : ℝ) (hxa : (13/8) ≤ x) (hxb : x ≤ (27/16)) : synthetic1D x ≤ (3231 / 1000 : ℝ) := by
  rcases le_total x (53/32) with h | h
  · exact syn1_node17 x hxa h
  · exact syn1_cell23 x h hxb

theorem syn1_cell24 (x : ℝ) (hxa : (27/16) ≤ x) (hxb : x ≤ (7/4)) : synthetic1D x ≤ (3231 / 1000 : ℝ) := by
  rw [synthetic1D_at]
  have t1 := gauss1_le_one (1/2) 1 x _ _ (by norm_num) (sq_lb_left (27/16) 1 x hxa (by norm_num))
    (exp_neg_le_of_poly 8 _ (388561/1000000) (by norm_num) (by norm_num [Finset.sum_range_succ, Nat.factorial]))
  have t2 := gauss1_le 2 (45/1000) (125/100) x _ _ (by norm_num) (by norm_num) (sq_lb_left (27/16) (125/100) x hxa (by norm_num))
    (exp_neg_le_of_poly 16 _ (2843/200000) (by norm_num) (by norm_num [Finset.sum_range_succ, Nat.factorial]))
  have t3 := gauss1_le (1/2) (128/10000) (15/10) x _ _ (by norm_num) (by norm_num) (sq_lb_left (27/16) (15/10) x hxa (by norm_num))
    (exp_neg_le_of_poly 12 _ (64149/1000000) (by norm_num) (by norm_num [Finset.sum_range_succ, Nat.factorial]))
  have t4 := gauss1_le 2 (5/1000) (16/10) x _ _ (by norm_num) (by norm_num) (sq_lb_left (27/16) (16/10) x hxa (by norm_num))
    (exp_neg_le_of_poly 10 _ (216267/1000000) (by norm_num) (by norm_num [Finset.sum_range_succ, Nat.factorial]))
  have t5 := gauss1_le (25/10) (2/100) (18/10) x _ _ (by norm_num) (by norm_num) (sq_lb_right (7/4) (18/10) x hxb (by norm_num))
    (exp_neg_le_of_poly 4 _ (441253/500000) (by norm_num) (by norm_num [Finset.sum_range_succ, Nat.factorial]))
  have t6 := gauss1_le (25/10) (2/100) (22/10) x _ _ (by norm_num) (by norm_num) (sq_lb_right (7/4) (22/10) x hxb (by norm_num))
    (exp_neg_le_of_poly 18 _ (41/1000000) (by norm_num) (by norm_num [Finset.sum_range_succ, Nat.factorial]))
  have t7 := gauss1_far 2 (5/1000) (24/10) x _ (by norm_num) (by norm_num) (sq_lb_right (7/4) (24/10) x hxb (by norm_num)) (by norm_num)
  have t8 := gauss1_far 2 (45/1000) (275/100) x _ (by norm_num) (by norm_num) (sq_lb_right (7/4) (275/100) x hxb (by norm_num)) (by norm_num)
  have t9 := gauss1_le_one (1/2) 3 x _ _ (by norm_num) (sq_lb_right (7/4) 3 x hxb (by norm_num))
    (exp_neg_le_of_poly 14 _ (21969/500000) (by norm_num) (by norm_num [Finset.sum_range_succ, Nat.factorial]))
  have t10 := gauss1_far 2 (32/100) 6 x _ (by norm_num) (by norm_num) (sq_lb_right (7/4) 6 x hxb (by norm_num)) (by norm_num)
  have t11 := gauss1_far (22/10) (18/100) 7 x _ (by norm_num) (by norm_num) (sq_lb_right (7/4) 7 x hxb (by norm_num)) (by norm_num)
  have t12 := gauss1_far (24/10) (1/2) 8 x _ (by norm_num) (by norm_num) (sq_lb_right (7/4) 8 x hxb (by norm_num)) (by norm_num)
  have t13 := gauss1_far (23/10) (1/2) (95/10) x _ (by norm_num) (by norm_num) (sq_lb_right (7/4) (95/10) x hxb (by norm_num)) (by norm_num)
  have t14 := gauss1_far (32/10) (18/100) 11 x _ (by norm_num) (by norm_num) (sq_lb_right (7/4) 11 x hxb (by norm_num)) (by norm_num)
  have t15 := gauss1_far (12/10) (18/100) 12 x _ (by norm_num) (by norm_num) (sq_lb_right (7/4) 12 x hxb (by norm_num)) (by norm_num)
  linarith

theorem syn1_node19 (x : ℝ) (hxa : (13/8) ≤ x) (hxb : x ≤ (7/4)) : synthetic1D x ≤ (3231 / 1000 : ℝ) := by
  rcases le_total x (27/16) with h | h
  · exact syn1_node18 x hxa h
  · exact syn1_cell24 x h hxb

theorem syn1_node20 (x : ℝ) (hxa : (3/2) ≤ x) (hxb : x ≤ (7/4)) : synthetic1D x ≤ (3231 / 1000 : ℝ) := by
  rcases le_total x (13/8) with h | h
  · exact syn1_node16 x hxa h
  · exact syn1_node19 x h hxb

theorem syn1_cell25 (x : ℝ) (hxa : (7/4) ≤ x) (hxb : x ≤ (15/8)) : synthetic1D x ≤ (3231 / 1000 : ℝ) := by
  rw [synthetic1D_at]
  have t1 := gauss1_le_one (1/2) 1 x _ _ (by norm_num) (sq_lb_left (7/4) 1 x hxa (by norm_num))
    (exp_neg_le_of_poly 9 _ (162327/500000) (by norm_num) (by norm_num [Finset.sum_range_succ, Nat.factorial]))
  have t2 := gauss1_le 2 (45/1000) (125/100) x _ _ (by norm_num) (by norm_num) (sq_lb_left (7/4) (125/100) x hxa (by norm_num))
    (exp_neg_le_of_poly 16 _ (3867/1000000) (by norm_num) (by norm_num [Finset.sum_range_succ, Nat.factorial]))
  have t3 := gauss1_le (1/2) (128/10000) (15/10) x _ _ (by norm_num) (by norm_num) (sq_lb_left (7/4) (15/10) x hxa (by norm_num))
    (exp_neg_le_of_poly 16 _ (7577/1000000) (by norm_num) (by norm_num [Finset.sum_range_succ, Nat.factorial]))
  have t4 := gauss1_le 2 (5/1000) (16/10) x _ _ (by norm_num) (by norm_num) (sq_lb_left (7/4) (16/10) x hxa (by norm_num))
    (exp_neg_le_of_poly 16 _ (1111/100000) (by norm_num) (by norm_num [Finset.sum_range_succ, Nat.factorial]))
  have t5 := gauss1_le (25/10) (2/100) (18/10) x _ _ (by norm_num) (by norm_num) (sq_nonneg _)
    (exp_neg_le_of_poly 1 _ (1) (by norm_num) (by norm_num [Finset.sum_range_succ, Nat.factorial]))
  have t6 := gauss1_le (25/10) (2/100) (22/10) x _ _ (by norm_num) (by norm_num) (sq_lb_right (15/8) (22/10) x hxb (by norm_num))
    (exp_neg_le_of_poly 16 _ (5087/1000000) (by norm_num) (by norm_num [Finset.sum_range_succ, Nat.factorial]))
  have t7 := gauss1_far 2 (5/1000) (24/10) x _ (by norm_num) (by norm_num) (sq_lb_right (15/8) (24/10) x hxb (by norm_num)) (by norm_num)
  have t8 := gauss1_far 2 (45/1000) (275/100) x _ (by norm_num) (by norm_num) (sq_lb_right (15/8) (275/100) x hxb (by norm_num)) (by norm_num)
  have t9 := gauss1_le_one (1/2) 3 x _ _ (by norm_num) (sq_lb_right (15/8) 3 x hxb (by norm_num))
    (exp_neg_le_of_poly 12 _ (79561/1000000) (by norm_num) (by norm_num [Finset.sum_range_succ, Nat.factorial]))
  have t10 := gauss1_far 2 (32/100) 6 x _ (by norm_num) (by norm_num) (sq_lb_right (15/8) 6 x hxb (by norm_num)) (by norm_num)
  have t11 := gauss1_far (22/10) (18/100) 7 x _ (by norm_num) (by norm_num) (sq_lb_right (15/8) 7 x hxb (by norm_num)) (by norm_num)
  have t12 := gauss1_far (24/10) (1/2) 8 x _ (by norm_num) (by norm_num) (sq_lb_right (15/8) 8 x hxb (by norm_num)) (by norm_num)
  have t13 := gauss1_far (23/10) (1/2) (95/10) x _ (by norm_num) (by norm_num) (sq_lb_right (15/8) (95/10) x hxb (by norm_num)) (by norm_num)
  have t14 := gauss1_far (32/10) (18/100) 11 x _ (by norm_num) (by norm_num) (sq_lb_right (15/8) 11 x hxb (by norm_num)) (by norm_num)
  have t15 := gauss1_far (12/10) (18/100) 12 x _ (by norm_num) (by norm_num) (sq_lb_right (15/8) 12 x hxb (by norm_num)) (by norm_num)
  linarith

theorem syn1_cell26 (x : ℝ) (hxa : (15/8) ≤ x) (hxb : x ≤ (2)) : synthetic1D x ≤ (3231 / 1000 : ℝ) := by
  rw [synthetic1D_at]
  have t1 := gauss1_le_one (1/2) 1 x _ _ (by norm_num) (sq_lb_left (15/8) 1 x hxa (by norm_num))
    (exp_neg_le_of_poly 10 _ (216267/1000000) (by norm_num) (by norm_num [Finset.sum_range_succ, Nat.factorial]))
  have t2 := gauss1_le 2 (45/1000) (125/100) x _ _ (by norm_num) (by norm_num) (sq_lb_left (15/8) (125/100) x hxa (by norm_num))
    (exp_neg_le_of_poly 18 _ (171/1000000) (by norm_num) (by norm_num [Finset.sum_range_succ, Nat.factorial]))
  have t3 := gauss1_le (1/2) (128/10000) (15/10) x _ _ (by norm_num) (by norm_num) (sq_lb_left (15/8) (15/10) x hxa (by norm_num))
    (exp_neg_le_of_poly 18 _ (9/500000) (by norm_num) (by norm_num [Finset.sum_range_succ, Nat.factorial]))
  have t4 := gauss1_far 2 (5/1000) (16/10) x _ (by norm_num) (by norm_num) (sq_lb_left (15/8) (16/10) x hxa (by norm_num)) (by norm_num)
  have t5 := gauss1_le (25/10) (2/100) (18/10) x _ _ (by norm_num) (by norm_num) (sq_lb_left (15/8) (18/10) x hxa (by norm_num))
    (exp_neg_le_of_poly 5 _ (754849/1000000) (by norm_num) (by norm_num [Finset.sum_range_succ, Nat.factorial]))
  have t6 := gauss1_le (25/10) (2/100) (22/10) x _ _ (by norm_num) (by norm_num) (sq_lb_right (2) (22/10) x hxb (by norm_num))
    (exp_neg_le_of_poly 12 _ (16917/125000) (by norm_num) (by norm_num [Finset.sum_range_succ, Nat.factorial]))
  have t7 := gauss1_far 2 (5/1000) (24/10) x _ (by norm_num) (by norm_num) (sq_lb_right (2) (24/10) x hxb (by norm_num)) (by norm_num)
  have t8 := gauss1_le 2 (45/1000) (275/100) x _ _ (by norm_num) (by norm_num) (sq_lb_right (2) (275/100) x hxb (by norm_num))
    (exp_neg_le_of_poly 16 _ (1/200000) (by norm_num) (by norm_num [Finset.sum_range_succ, Nat.factorial]))
  have t9 := gauss1_le_one (1/2) 3 x _ _ (by norm_num) (sq_lb_right (2) 3 x hxb (by norm_num))
    (exp_neg_le_of_poly 12 _ (16917/125000) (by norm_num) (by norm_num [Finset.sum_range_succ, Nat.factorial]))
  have t10 := gauss1_far 2 (32/100) 6 x _ (by norm_num) (by norm_num) (sq_lb_right (2) 6 x hxb (by norm_num)) (by norm_num)
  have t11 := gauss1_far (22/10) (18/100) 7 x _ (by norm_num) (by norm_num) (sq_lb_right (2) 7 x hxb (by norm_num)) (by norm_num)
  have t12 := gauss1_far (24/10) (1/2) 8 x _ (by norm_num) (by norm_num) (sq_lb_right (2) 8 x hxb (by norm_num)) (by norm_num)
  have t13 := gauss1_far (23/10) (1/2) (95/10) x _ (by norm_num) (by norm_num) (sq_lb_right (2) (95/10) x hxb (by norm_num)) (by norm_num)
  have t14 := gauss1_far (32/10) (18/100) 11 x _ (by norm_num) (by norm_num) (sq_lb_right (2) 11 x hxb (by norm_num)) (by norm_num)
  have t15 := gauss1_far (12/10) (18/100) 12 x _ (by norm_num) (by norm_num) (sq_lb_right (2) 12 x hxb (by norm_num)) (by norm_num)
  linarith

theorem syn1_node21 (x : ℝ) (hxa : (7/4) ≤ x) (hxb : x ≤ (2)) : synthetic1D x ≤ (3231 / 1000 : ℝ) := by
  rcases le_total x (15/8) with h | h
  · exact syn1_cell25 x hxa h
  · exact syn1_cell26 x h hxb

theorem syn1_node22 (x : ℝ) (hxa : (3/2) ≤ x) (hxb : x ≤ (2)) : synthetic1D x ≤ (3231 / 1000 : ℝ) := by
  rcases le_total x (7/4) with h | h
  · exact syn1_node20 x hxa h
  · exact syn1_node21 x h hxb

theorem syn1_node23 (x : ℝ) (hxa : (1) ≤ x) (hxb : x ≤ (2)) : synthetic1D x ≤ (3231 / 1000 : ℝ) := by
  rcases le_total x (3/2) with h | h
  · exact syn1_node2 x hxa h
  · exact syn1_node22 x h hxb

theorem syn1_cell27 (x : ℝ) (hxa : (2) ≤ x) (hxb : x ≤ (17/8)) : synthetic1D x ≤ (3231 / 1000 : ℝ) := by
  rw [synthetic1D_at]
  have t1 := gauss1_le_one (1/2) 1 x _ _ (by norm_num) (sq_lb_left (2) 1 x hxa (by norm_num))
    (exp_neg_le_of_poly 12 _ (16917/125000) (by norm_num) (by norm_num [Finset.sum_range_succ, Nat.factorial]))
  have t2 := gauss1_le 2 (45/1000) (125/100) x _ _ (by norm_num) (by norm_num) (sq_lb_left (2) (125/100) x hxa (by norm_num))
    (exp_neg_le_of_poly 16 _ (1/200000) (by norm_num) (by norm_num [Finset.sum_range_succ, Nat.factorial]))
  have t3 := gauss1_far (1/2) (128/10000) (15/10) x _ (by norm_num) (by norm_num) (sq_lb_left (2) (15/10) x hxa (by norm_num)) (by norm_num)
  have t4 := gauss1_far 2 (5/1000) (16/10) x _ (by norm_num) (by norm_num) (sq_lb_left (2) (16/10) x hxa (by norm_num)) (by norm_num)
  have t5 := gauss1_le (25/10) (2/100) (18/10) x _ _ (by norm_num) (by norm_num) (sq_lb_left (2) (18/10) x hxa (by norm_num))
    (exp_neg_le_of_poly 12 _ (16917/125000) (by norm_num) (by norm_num [Finset.sum_range_succ, Nat.factorial]))
  have t6 := gauss1_le (25/10) (2/100) (22/10) x _ _ (by norm_num) (by norm_num) (sq_lb_right (17/8) (22/10) x hxb (by norm_num))
    (exp_neg_le_of_poly 5 _ (754849/1000000) (by norm_num) (by norm_num [Finset.sum_range_succ, Nat.factorial]))
  have t7 := gauss1_far 2 (5/1000) (24/10) x _ (by norm_num) (by norm_num) (sq_lb_right (17/8) (24/10) x hxb (by norm_num)) (by norm_num)
  have t8 := gauss1_le 2 (45/1000) (275/100) x _ _ (by norm_num) (by norm_num) (sq_lb_right (17/8) (275/100) x hxb (by norm_num))
    (exp_neg_le_of_poly 18 _ (171/1000000) (by norm_num) (by norm_num [Finset.sum_range_succ, Nat.factorial]))
  have t9 := gauss1_le_one (1/2) 3 x _ _ (by norm_num) (sq_lb_right (17/8) 3 x hxb (by norm_num))
    (exp_neg_le_of_poly 10 _ (216267/1000000) (by norm_num) (by norm_num [Finset.sum_range_succ, Nat.factorial]))
  have t10 := gauss1_far 2 (32/100) 6 x _ (by norm_num) (by norm_num) (sq_lb_right (17/8) 6 x hxb (by norm_num)) (by norm_num)
  have t11 := gauss1_far (22/10) (18/100) 7 x _ (by norm_num) (by norm_num) (sq_lb_right (17/8) 7 x hxb (by norm_num)) (by norm_num)
  have t12 := gauss1_far (24/10) (1/2) 8 x _ (by norm_num) (by norm_num) (sq_lb_right (17/8) 8 x hxb (by norm_num)) (by norm_num)
  have t13 := gauss1_far (23/10) (1/2) (95/10) x _ (by norm_num) (by norm_num) (sq_lb_right (17/8) (95/10) x hxb (by norm_num)) (by norm_num)
  have t14 := gauss1_far (32/10) (18/100) 11 x _ (by norm_num) (by norm_num) (sq_lb_right (17/8) 11 x hxb (by norm_num)) (by norm_num)
  have t15 := gauss1_far (12/10) (18/100) 12 x _ (by norm_num) (by norm_num) (sq_lb_right (17/8) 12 x hxb (by norm_num)) (by norm_num)
  linarith

theorem syn1_cell28 (x : ℝ) (hxa : (17/8) ≤ x) (hxb : x ≤ (9/4)) : synthetic1D x ≤ (3231 / 1000 : ℝ) := by
  rw [synthetic1D_at]
  have t1 := gauss1_le_one (1/2) 1 x _ _ (by norm_num) (sq_lb_left (17/8) 1 x hxa (by norm_num))
    (exp_neg_le_of_poly 12 _ (79561/1000000) (by norm_num) (by norm_num [Finset.sum_range_succ, Nat.factorial]))
  have t2 := gauss1_far 2 (45/1000) (125/100) x _ (by norm_num) (by norm_num) (sq_lb_left (17/8) (125/100) x hxa (by norm_num)) (by norm_num)
  have t3 := gauss1_far (1/2) (128/10000) (15/10) x _ (by norm_num) (by norm_num) (sq_lb_left (17/8) (15/10) x hxa (by norm_num)) (by norm_num)
  have t4 := gauss1_far 2 (5/1000) (16/10) x _ (by norm_num) (by norm_num) (sq_lb_left (17/8) (16/10) x hxa (by norm_num)) (by norm_num)
  have t5 := gauss1_le (25/10) (2/100) (18/10) x _ _ (by norm_num) (by norm_num) (sq_lb_left (17/8) (18/10) x hxa (by norm_num))
    (exp_neg_le_of_poly 16 _ (5087/1000000) (by norm_num) (by norm_num [Finset.sum_range_succ, Nat.factorial]))
  have t6 := gauss1_le (25/10) (2/100) (22/10) x _ _ (by norm_num) (by norm_num) (sq_nonneg _)
    (exp_neg_le_of_poly 1 _ (1) (by norm_num) (by norm_num [Finset.sum_range_succ, Nat.factorial]))
  have t7 := gauss1_le 2 (5/1000) (24/10) x _ _ (by norm_num) (by norm_num) (sq_lb_right (9/4) (24/10) x hxb (by norm_num))
    (exp_neg_le_of_poly 16 _ (1111/100000) (by norm_num) (by norm_num [Finset.sum_range_succ, Nat.factorial]))
  have t8 := gauss1_le 2 (45/1000) (275/100) x _ _ (by norm_num) (by norm_num) (sq_lb_right (9/4) (275/100) x hxb (by norm_num))
    (exp_neg_le_of_poly 16 _ (3867/1000000) (by norm_num) (by norm_num [Finset.sum_range_succ, Nat.factorial]))
  have t9 := gauss1_le_one (1/2) 3 x _ _ (by norm_num) (sq_lb_right (9/4) 3 x hxb (by norm_num))
    (exp_neg_le_of_poly 9 _ (162327/500000) (by norm_num) (by norm_num [Finset.sum_range_succ, Nat.factorial]))
  have t10 := gauss1_far 2 (32/100) 6 x _ (by norm_num) (by norm_num) (sq_lb_right (9/4) 6 x hxb (by norm_num)) (by norm_num)
  have t11 := gauss1_far (22/10) (18/100) 7 x _ (by norm_num) (by norm_num) (sq_lb_right (9/4) 7 x hxb (by norm_num)) (by norm_num)
  have t12 := gauss1_far (24/10) (1/2) 8 x _ (by norm_num) (by norm_num) (sq_lb_right (9/4) 8 x hxb (by norm_num)) (by norm_num)
  have t13 := gauss1_far (23/10) (1/2) (95/10) x _ (by norm_num) (by norm_num) (sq_lb_right (9/4) (95/10) x hxb (by norm_num)) (by norm_num)
  have t14 := gauss1_far (32/10) (18/100) 11 x _ (by norm_num) (by norm_num) (sq_lb_right (9/4) 11 x hxb (by norm_num)) (by norm_num)
  have t15 := gauss1_far (12/10) (18/100) 12 x _ (by norm_num) (by norm_num) (sq_lb_right (9/4) 12 x hxb (by norm_num)) (by norm_num)
  linarith

theorem syn1_node24 (x : ℝ) (hxa : (2) ≤ x) (hxb : x ≤ (9/4)) : synthetic1D x ≤ (3231 / 1000 : ℝ) := by
  rcases le_total x (17/8) with h | h
  · exact syn1_cell27 x hxa h
  · exact syn1_cell28 x h hxb

theorem syn1_cell29 (x : ℝ) (hxa : (9/4) ≤ x) (hxb : x ≤ (37/16)) : synthetic1D x ≤ (3231 / 1000 : ℝ) := by
  rw [synthetic1D_at]
  have t1 := gauss1_le_one (1/2) 1 x _ _ (by norm_num) (sq_lb_left (9/4) 1 x hxa (by norm_num))
    (exp_neg_le_of_poly 14 _ (21969/500000) (by norm_num) (by norm_num [Finset.sum_range_succ, Nat.factorial]))
  have t2 := gauss1_far 2 (45/1000) (125/100) x _ (by norm_num) (by norm_num) (sq_lb_left (9/4) (125/100) x hxa (by norm_num)) (by norm_num)
  have t3 := gauss1_far (1/2) (128/10000) (15/10) x _ (by norm_num) (by norm_num) (sq_lb_left (9/4) (15/10) x hxa (by norm_num)) (by norm_num)
  have t4 := gauss1_far 2 (5/1000) (16/10) x _ (by norm_num) (by norm_num) (sq_lb_left (9/4) (16/10) x hxa (by norm_num)) (by norm_num)
  have t5 := gauss1_le (25/10) (2/100) (18/10) x _ _ (by norm_num) (by norm_num) (sq_lb_left (9/4) (18/10) x hxa (by norm_num))
    (exp_neg_le_of_poly 18 _ (41/1000000) (by norm_num) (by norm_num [Finset.sum_range_succ, Nat.factorial]))
  have t6 := gauss1_le (25/10) (2/100) (22/10) x _ _ (by norm_num) (by norm_num) (sq_lb_left (9/4) (22/10) x hxa (by norm_num))
    (exp_neg_le_of_poly 4 _ (441253/500000) (by norm_num) (by norm_num [Finset.sum_range_succ, Nat.factorial]))
  have t7 := gauss1_le 2 (5/1000) (24/10) x _ _ (by norm_num) (by norm_num) (sq_lb_right (37/16) (24/10) x hxb (by norm_num))
    (exp_neg_le_of_poly 10 _ (216267/1000000) (by norm_num) (by norm_num [Finset.sum_range_succ, Nat.factorial]))
  have t8 := gauss1_le 2 (45/1000) (275/100) x _ _ (by norm_num) (by norm_num) (sq_lb_right (37/16) (275/100) x hxb (by norm_num))
    (exp_neg_le_of_poly 16 _ (2843/200000) (by norm_num) (by norm_num [Finset.sum_range_succ, Nat.factorial]))
  have t9 := gauss1_le_one (1/2) 3 x _ _ (by norm_num) (sq_lb_right (37/16) 3 x hxb (by norm_num))
    (exp_neg_le_of_poly 8 _ (388561/1000000) (by norm_num) (by norm_num [Finset.sum_range_succ, Nat.factorial]))
  have t10 := gauss1_far 2 (32/100) 6 x _ (by norm_num) (by norm_num) (sq_lb_right (37/16) 6 x hxb (by norm_num)) (by norm_num)
  have t11 := gauss1_far (22/10) (18/100) 7 x _ (by norm_num) (by norm_num) (sq_lb_right (37/16) 7 x hxb (by norm_num)) (by norm_num)
  have t12 := gauss1_far (24/10) (1/2) 8 x _ (by norm_num) (by norm_num) (sq_lb_right (37/16) 8 x hxb (by norm_num)) (by norm_num)
  have t13 := gauss1_far (23/10) (1/2) (95/10) x _ (by norm_num) (by norm_num) (sq_lb_right (37/16) (95/10) x hxb (by norm_num)) (by norm_num)
  have t14 := gauss1_far (32/10) (18/100) 11 x _ (by norm_num) (by norm_num) (sq_lb_right (37/16) 11 x hxb (by norm_num)) (by norm_num)
  have t15 := gauss1_far (12/10) (18/100) 12 x _ (by norm_num) (by norm_num) (sq_lb_right (37/16) 12 x hxb (by norm_num)) (by norm_num)
  linarith

theorem syn1_cell30 (x : ℝ) (hxa : (37/16) ≤ x) (hxb : x ≤ (75/32)) : synthetic1D x ≤ (3231 / 1000 : ℝ) := by
  rw [synthetic1D_at]
  have t1 := gauss1_le_one (1/2) 1 x _ _ (by norm_num) (sq_lb_left (37/16) 1 x hxa (by norm_num))
    (exp_neg_le_of_poly 14 _ (3987/125000) (by norm_num) (by norm_num [Finset.sum_range_succ, Nat.factorial]))
  have t2 := gauss1_far 2 (45/1000) (125/100) x _ (by norm_num) (by norm_num) (sq_lb_left (37/16) (125/100) x hxa (by norm_num)) (by norm_num)
  have t3 := gauss1_far (1/2) (128/10000) (15/10) x _ (by norm_num) (by norm_num) (sq_lb_left (37/16) (15/10) x hxa (by norm_num)) (by norm_num)
  have t4 := gauss1_far 2 (5/1000) (16/10) x _ (by norm_num) (by norm_num) (sq_lb_left (37/16) (16/10) x hxa (by norm_num)) (by norm_num)
  have t5 := gauss1_le (25/10) (2/100) (18/10) x _ _ (by norm_num) (by norm_num) (sq_lb_left (37/16) (18/10) x hxa (by norm_num))
    (exp_neg_le_of_poly 16 _ (3/1000000) (by norm_num) (by norm_num [Finset.sum_range_succ, Nat.factorial]))
  have t6 := gauss1_le (25/10) (2/100) (22/10) x _ _ (by norm_num) (by norm_num) (sq_lb_left (37/16) (22/10) x hxa (by norm_num))
    (exp_neg_le_of_poly 7 _ (531099/1000000) (by norm_num) (by norm_num [Finset.sum_range_succ, Nat.factorial]))
  have t7 := gauss1_le 2 (5/1000) (24/10) x _ _ (by norm_num) (by norm_num) (sq_lb_right (75/32) (24/10) x hxb (by norm_num))
    (exp_neg_le_of_poly 7 _ (531099/1000000) (by norm_num) (by norm_num [Finset.sum_range_succ, Nat.factorial]))
  have t8 := gauss1_le 2 (45/1000) (275/100) x _ _ (by norm_num) (by norm_num) (sq_lb_right (75/32) (275/100) x hxb (by norm_num))
    (exp_neg_le_of_poly 14 _ (25541/1000000) (by norm_num) (by norm_num [Finset.sum_range_succ, Nat.factorial]))
  have t9 := gauss1_le_one (1/2) 3 x _ _ (by norm_num) (sq_lb_right (75/32) 3 x hxb (by norm_num))
    (exp_neg_le_of_poly 8 _ (211301/500000) (by norm_num) (by norm_num [Finset.sum_range_succ, Nat.factorial]))
  have t10 := gauss1_far 2 (32/100) 6 x _ (by norm_num) (by norm_num) (sq_lb_right (75/32) 6 x hxb (by norm_num)) (by norm_num)
  have t11 := gauss1_far (22/10) (18/100) 7 x _ (by norm_num) (by norm_num) (sq_lb_right (75/32) 7 x hxb (by norm_num)) (by norm_num)
  have t12 := gauss1_far (24/10) (1/2) 8 x _ (by norm_num) (by norm_num) (sq_lb_right (75/32) 8 x hxb (by norm_num)) (by norm_num)
  have t13 := gauss1_far (23/10) (1/2) (95/10) x _ (by norm_num) (by norm_num) (sq_lb_right (75/32) (95/10) x hxb (by norm_num)) (by norm_num)
  have t14 := gauss1_far (32/10) (18/100) 11 x _ (by norm_num) (by norm_num) (sq_lb_right (75/32) 11 x hxb (by norm_num)) (by norm_num)
  have t15 := gauss1_far (12/10) (18/100) 12 x _ (by norm_num) (by norm_num) (sq_lb_right (75/32) 12 x hxb (by norm_num)) (by norm_num)
  linarith

theorem syn1_cell31 (x : ℝ) (hxa : (75/32) ≤ x) (hxb : x ≤ (19/8)) : synthetic1D x ≤ (3231 / 1000 : ℝ) := by
  rw [synthetic1D_at]
  have t1 := gauss1_le_one (1/2) 1 x _ _ (by norm_num) (sq_lb_left (75/32) 1 x hxa (by norm_num))
    (exp_neg_le_of_poly 14 _ (27017/1000000) (by norm_num) (by norm_num [Finset.sum_range_succ, Nat.factorial]))
  have t2 := gauss1_far 2 (45/1000) (125/100) x _ (by norm_num) (by norm_num) (sq_lb_left (75/32) (125/100) x hxa (by norm_num)) (by norm_num)
  have t3 := gauss1_far (1/2) (128/10000) (15/10) x _ (by norm_num) (by norm_num) (sq_lb_left (75/32) (15/10) x hxa (by norm_num)) (by norm_num)
  have t4 := gauss1_far 2 (5/1000) (16/10) x _ (by norm_num) (by norm_num) (sq_lb_left (75/32) (16/10) x hxa (by norm_num)) (by norm_num)
  have t5 := gauss1_far (25/10) (2/100) (18/10) x _ (by norm_num) (by norm_num) (sq_lb_left (75/32) (18/10) x hxa (by norm_num)) (by norm_num)
  have t6 := gauss1_le (25/10) (2/100) (22/10) x _ _ (by norm_num) (by norm_num) (sq_lb_left (75/32) (22/10) x hxa (by norm_num))
    (exp_neg_le_of_poly 8 _ (35587/100000) (by norm_num) (by norm_num [Finset.sum_range_succ, Nat.factorial]))
  have t7 := gauss1_le 2 (5/1000) (24/10) x _ _ (by norm_num) (by norm_num) (sq_lb_right (19/8) (24/10) x hxb (by norm_num))
    (exp_neg_le_of_poly 4 _ (441253/500000) (by norm_num) (by norm_num [Finset.sum_range_succ, Nat.factorial]))
  have t8 := gauss1_le 2 (45/1000) (275/100) x _ _ (by norm_num) (by norm_num) (sq_lb_right (19/8) (275/100) x hxb (by norm_num))
    (exp_neg_le_of_poly 14 _ (21969/500000) (by norm_num) (by norm_num [Finset.sum_range_succ, Nat.factorial]))
  have t9 := gauss1_le_one (1/2) 3 x _ _ (by norm_num) (sq_lb_right (19/8) 3 x hxb (by norm_num))
    (exp_neg_le_of_poly 8 _ (91567/200000) (by norm_num) (by norm_num [Finset.sum_range_succ, Nat.factorial]))
  have t10 := gauss1_far 2 (32/100) 6 x _ (by norm_num) (by norm_num) (sq_lb_right (19/8) 6 x hxb (by norm_num)) (by norm_num)
  have t11 := gauss1_far (22/10) (18/100) 7 x _ (by norm_num) (by norm_num) (sq_lb_right (19/8) 7 x hxb (by norm_num)) (by norm_num)
  have t12 := gauss1_far (24/10) (1/2) 8 x _ (by norm_num) (by norm_num) (sq_lb_right (19/8) 8 x hxb (by norm_num)) (by norm_num)
  have t13 := gauss1_far (23/10) (1/2) (95/10) x _ (by norm_num) (by norm_num) (sq_lb_right (19/8) (95/10) x hxb (by norm_num)) (by norm_num)
  have t14 := gauss1_far (32/10) (18/100) 11 x _ (by norm_num) (by norm_num) (sq_lb_right (19/8) 11 x hxb (by norm_num)) (by norm_num)
  have t15 := gauss1_far (12/10) (18/100) 12 x _ (by norm_num) (by norm_num) (sq_lb_right (19/8) 12 x hxb (by norm_num)) (by norm_num)
  linarith

theorem syn1_node25 (x : ℝ) (hxa : (37/16) ≤ x) (hxb : x ≤ (19/8)) : synthetic1D x ≤ (3231 / 1000 : ℝ) := by
  rcases le_total x (75/32) with h | h
  · exact syn1_cell30 x hxa h
  · exact syn1_cell31 x h hxb

theorem syn1_node26 (x : ℝ) (hxa : (9/4) ≤ x) (hxb : x ≤ (19/8)) : synthetic1D x ≤ (3231 / 1000 : ℝ) := by
  rcases le_total x (37/16) with h | h
  · exact syn1_cell29 x hxa h
  · exact syn1_node25 x h hxb

theorem syn1_cell32 (x : ℝ) (hxa : (19/8) ≤ x) (hxb : x ≤ (77/32)) : synthetic1D x ≤ (3231 / 1000 : ℝ) := by
  rw [synthetic1D_at]
  have t1 := gauss1_le_one (1/2) 1 x _ _ (by norm_num) (sq_lb_left (19/8) 1 x hxa (by norm_num))
    (exp_neg_le_of_poly 14 _ (5699/250000) (by norm_num) (by norm_num [Finset.sum_range_succ, Nat.factorial]))
  have t2 := gauss1_far 2 (45/1000) (125/100) x _ (by norm_num) (by norm_num) (sq_lb_left (19/8) (125/100) x hxa (by norm_num)) (by norm_num)
  have t3 := gauss1_far (1/2) (128/10000) (15/10) x _ (by norm_num) (by norm_num) (sq_lb_left (19/8) (15/10) x hxa (by norm_num)) (by norm_num)
  have t4 := gauss1_far 2 (5/1000) (16/10) x _ (by norm_num) (by norm_num) (sq_lb_left (19/8) (16/10) x hxa (by norm_num)) (by norm_num)
  have t5 := gauss1_far (25/10) (2/100) (18/10) x _ (by norm_num) (by norm_num) (sq_lb_left (19/8) (18/10) x hxa (by norm_num)) (by norm_num)
  have t6 := gauss1_le (25/10) (2/100) (22/10) x _ _ (by norm_num) (by norm_num) (sq_lb_left (19/8) (22/10) x hxa (by norm_num))
    (exp_neg_le_of_poly 10 _ (216267/1000000) (by norm_num) (by norm_num [Finset.sum_range_succ, Nat.factorial]))
  have t7 := gauss1_le 2 (5/1000) (24/10) x _ _ (by norm_num) (by norm_num) (sq_nonneg _)
    (exp_neg_le_of_poly 1 _ (1) (by norm_num) (by norm_num [Finset.sum_range_succ, Nat.factorial]))
  have t8 := gauss1_le 2 (45/1000) (275/100) x _ _ (by norm_num) (by norm_num) (sq_lb_right (77/32) (275/100) x hxb (by norm_num))
    (exp_neg_le_of_poly 12 _ (72379/1000000) (by norm_num) (by norm_num [Finset.sum_range_succ, Nat.factorial]))
  have t9 := gauss1_le_one (1/2) 3 x _ _ (by norm_num) (sq_lb_right (77/32) 3 x hxb (by norm_num))
    (exp_neg_le_of_poly 7 _ (19763/40000) (by norm_num) (by norm_num [Finset.sum_range_succ, Nat.factorial]))
  have t10 := gauss1_far 2 (32/100) 6 x _ (by norm_num) (by norm_num) (sq_lb_right (77/32) 6 x hxb (by norm_num)) (by norm_num)
  have t11 := gauss1_far (22/10) (18/100) 7 x _ (by norm_num) (by norm_num) (sq_lb_right (77/32) 7 x hxb (by norm_num)) (by norm_num)
  have t12 := gauss1_far (24/10) (1/2) 8 x _ (by norm_num) (by norm_num) (sq_lb_right (77/32) 8 x hxb (by norm_num)) (by norm_num)
  have t13 := gauss1_far (23/10) (1/2) (95/10) x _ (by norm_num) (by norm_num) (sq_lb_right (77/32) (95/10) x hxb (by norm_num)) (by norm_num)
  have t14 := gauss1_far (32/10) (18/100) 11 x _ (by norm_num) (by norm_num) (sq_lb_right (77/32) 11 x hxb (by norm_num)) (by norm_num)
  have t15 := gauss1_far (12/10) (18/100) 12 x _ (by norm_num) (by norm_num) (sq_lb_right (77/32) 12 x hxb (by norm_num)) (by norm_num)
  linarith

theorem syn1_cell33 (x : ℝ) (hxa : (77/32) ≤ x) (hxb : x ≤ (39/16)) : synthetic1D x ≤ (3231 / 1000 : ℝ) := by
  rw [synthetic1D_at]
  have t1 := gauss1_le_one (1/2) 1 x _ _ (by norm_num) (sq_lb_left (77/32) 1 x hxa (by norm_num))
    (exp_neg_le_of_poly 14 _ (19159/1000000) (by norm_num) (by norm_num [Finset.sum_range_succ, Nat.factorial]))
  have t2 := gauss1_far 2 (45/1000) (125/100) x _ (by norm_num) (by norm_num) (sq_lb_left (77/32) (125/100) x hxa (by norm_num)) (by norm_num)
  have t3 := gauss1_far (1/2) (128/10000) (15/10) x _ (by norm_num) (by norm_num) (sq_lb_left (77/32) (15/10) x hxa (by norm_num)) (by norm_num)
  have t4 := gauss1_far 2 (5/1000) (16/10) x _ (by norm_num) (by norm_num) (sq_lb_left (77/32) (16/10) x hxa (by norm_num)) (by norm_num)
  have t5 := gauss1_far (25/10) (2/100) (18/10) x _ (by norm_num) (by norm_num) (sq_lb_left (77/32) (18/10) x hxa (by norm_num)) (by norm_num)
  have t6 := gauss1_le (25/10) (2/100) (22/10) x _ _ (by norm_num) (by norm_num) (sq_lb_left (77/32) (22/10) x hxa (by norm_num))
    (exp_neg_le_of_poly 12 _ (119201/1000000) (by norm_num) (by norm_num [Finset.sum_range_succ, Nat.factorial]))
  have t7 := gauss1_le 2 (5/1000) (24/10) x _ _ (by norm_num) (by norm_num) (sq_lb_left (77/32) (24/10) x hxa (by norm_num))
    (exp_neg_le_of_poly 3 _ (992219/1000000) (by norm_num) (by norm_num [Finset.sum_range_succ, Nat.factorial]))
  have t8 := gauss1_le 2 (45/1000) (275/100) x _ _ (by norm_num) (by norm_num) (sq_lb_right (39/16) (275/100) x hxb (by norm_num))
    (exp_neg_le_of_poly 12 _ (114163/1000000) (by norm_num) (by norm_num [Finset.sum_range_succ, Nat.factorial]))
  have t9 := gauss1_le_one (1/2) 3 x _ _ (by norm_num) (sq_lb_right (39/16) 3 x hxb (by norm_num))
    (exp_neg_le_of_poly 7 _ (531099/1000000) (by norm_num) (by norm_num [Finset.sum_range_succ, Nat.factorial]))
  have t10 := gauss1_far 2 (32/100) 6 x _ (by norm_num) (by norm_num) (sq_lb_right (39/16) 6 x hxb (by norm_num)) (by norm_num)
  have t11 := gauss1_far (22/10) (18/100) 7 x _ (by norm_num) (by norm_num) (sq_lb_right (39/16) 7 x hxb (by norm_num)) (by norm_num)
  have t12 := gauss1_far (24/10) (1/2) 8 x _ (by norm_num) (by norm_num) (sq_lb_right (39/16) 8 x hxb (by norm_num)) (by norm_num)
  have t13 := gauss1_far (23/10) (1/2) (95/10) x _ (by norm_num) (by norm_num) (sq_lb_right (39/16) (95/10) x hxb (by norm_num)) (by norm_num)
  have t14 := gauss1_far (32/10) (18/100) 11 x _ (by norm_num) (by norm_num) (sq_lb_right (39/16) 11 x hxb (by norm_num)) (by norm_num)
  have t15 := gauss1_far (12/10) (18/100) 12 x _ (by norm_num) (by norm_num) (sq_lb_right (39/16) 12 x hxb (by norm_num)) (by norm_num)
  linarith

theorem syn1_node27 (x : ℝ) (hxa : (19/8) ≤ x) (hxb : x ≤ (39/16)) : synthetic1D x ≤ (3231 / 1000 : ℝ) := by
  rcases le_total x (77/32) with h | h
  · exact syn1_cell32 x hxa h
  · exact syn1_cell33 x h hxb

theorem syn1_cell34 (x : ℝ) (hxa : (39/16) ≤ x) (hxb : x ≤ (5/2)) : synthetic1D x ≤ (3231 / 1000 : ℝ) := by
  rw [synthetic1D_at]
  have t1 := gauss1_le_one (1/2) 1 x _ _ (by norm_num) (sq_lb_left (39/16) 1 x hxa (by norm_num))
    (exp_neg_le_of_poly 16 _ (8019/500000) (by norm_num) (by norm_num [Finset.sum_range_succ, Nat.factorial]))
  have t2 := gauss1_far 2 (45/1000) (125/100) x _ (by norm_num) (by norm_num) (sq_lb_left (39/16) (125/100) x hxa (by norm_num)) (by norm_num)
  have t3 := gauss1_far (1/2) (128/10000) (15/10) x _ (by norm_num) (by norm_num) (sq_lb_left (39/16) (15/10) x hxa (by norm_num)) (by norm_num)
  have t4 := gauss1_far 2 (5/1000) (16/10) x _ (by norm_num) (by norm_num) (sq_lb_left (39/16) (16/10) x hxa (by norm_num)) (by norm_num)
  have t5 := gauss1_far (25/10) (2/100) (18/10) x _ (by norm_num) (by norm_num) (sq_lb_left (39/16) (18/10) x hxa (by norm_num)) (by norm_num)
  have t6 := gauss1_le (25/10) (2/100) (22/10) x _ _ (by norm_num) (by norm_num) (sq_lb_left (39/16) (22/10) x hxa (by norm_num))
    (exp_neg_le_of_poly 14 _ (14897/250000) (by norm_num) (by norm_num [Finset.sum_range_succ, Nat.factorial]))
  have t7 := gauss1_le 2 (5/1000) (24/10) x _ _ (by norm_num) (by norm_num) (sq_lb_left (39/16) (24/10) x hxa (by norm_num))
    (exp_neg_le_of_poly 5 _ (754849/1000000) (by norm_num) (by norm_num [Finset.sum_range_succ, Nat.factorial]))
  have t8 := gauss1_le 2 (45/1000) (275/100) x _ _ (by norm_num) (by norm_num) (sq_lb_right (5/2) (275/100) x hxb (by norm_num))
    (exp_neg_le_of_poly 10 _ (249353/1000000) (by norm_num) (by norm_num [Finset.sum_range_succ, Nat.factorial]))
  have t9 := gauss1_le_one (1/2) 3 x _ _ (by norm_num) (sq_lb_right (5/2) 3 x hxb (by norm_num))
    (exp_neg_le_of_poly 7 _ (151633/250000) (by norm_num) (by norm_num [Finset.sum_range_succ, Nat.factorial]))
  have t10 := gauss1_far 2 (32/100) 6 x _ (by norm_num) (by norm_num) (sq_lb_right (5/2) 6 x hxb (by norm_num)) (by norm_num)
  have t11 := gauss1_far (22/10) (18/100) 7 x _ (by norm_num) (by norm_num) (sq_lb_right (5/2) 7 x hxb (by norm_num)) (by norm_num)
  have t12 := gauss1_far (24/10) (1/2) 8 x _ (by norm_num) (by norm_num) (sq_lb_right (5/2) 8 x hxb (by norm_num)) (by norm_num)
  have t13 := gauss1_far (23/10) (1/2) (95/10) x _ (by norm_num) (by norm_num) (sq_lb_right (5/2) (95/10) x hxb (by norm_num)) (by norm_num)
  have t14 := gauss1_far (32/10) (18/100) 11 x _ (by norm_num) (by norm_num) (sq_lb_right (5/2) 11 x hxb (by norm_num)) (by norm_num)
  have t15 := gauss1_far (12/10) (18/100) 12 x _ (by norm_num) (by norm_num) (sq_lb_right (5/2) 12 x hxb (by norm_num)) (by norm_num)
  linarith

theorem syn1_node28 (x : ℝ) (hxa : (19/8) ≤ x) (hxb : x ≤ (5/2)) : synthetic1D x ≤ (3231 / 1000 : ℝ) := by
  rcases le_total x (39/16) with h | h
  · exact syn1_node27 x hxa h
  · exact syn1_cell34 x h hxb

theorem syn1_node29 (x : ℝ) (hxa : (9/4) ≤ x) (hxb : x ≤ (5/2)) : synthetic1D x ≤ (3231 / 1000 : ℝ) := by
  rcases le_total x (19/8) with h | h
  · exact syn1_node26 x hxa h
  · exact syn1_node28 x h hxb

theorem syn1_node30 (x : ℝ) (hxa : (2) ≤ x) (hxb : x ≤ (5/2)) : synthetic1D x ≤ (3231 / 1000 : ℝ) := by
  rcases le_total x (9/4) with h | h
  · exact syn1_node24 x hxa h
  · exact syn1_node29 x h hxb

theorem syn1_cell35 (x : ℝ) (hxa : (5/2) ≤ x) (hxb : x ≤ (11/4)) : synthetic1D x ≤ (3231 / 1000 : ℝ) := by
  rw [synthetic1D_at]
  have t1 := gauss1_le_one (1/2) 1 x _ _ (by norm_num) (sq_lb_left (5/2) 1 x hxa (by norm_num))
    (exp_neg_le_of_poly 16 _ (1111/100000) (by norm_num) (by norm_num [Finset.sum_range_succ, Nat.factorial]))
  have t2 := gauss1_far 2 (45/1000) (125/100) x _ (by norm_num) (by norm_num) (sq_lb_left (5/2) (125/100) x hxa (by norm_num)) (by norm_num)
  have t3 := gauss1_far (1/2) (128/10000) (15/10) x _ (by norm_num) (by norm_num) (sq_lb_left (5/2) (15/10) x hxa (by norm_num)) (by norm_num)
  have t4 := gauss1_far 2 (5/1000) (16/10) x _ (by norm_num) (by norm_num) (sq_lb_left (5/2) (16/10) x hxa (by norm_num)) (by norm_num)
  have t5 := gauss1_far (25/10) (2/100) (18/10) x _ (by norm_num) (by norm_num) (sq_lb_left (5/2) (18/10) x hxa (by norm_num)) (by norm_num)
  have t6 := gauss1_le (25/10) (2/100) (22/10) x _ _ (by norm_num) (by norm_num) (sq_lb_left (5/2) (22/10) x hxa (by norm_num))
    (exp_neg_le_of_poly 16 _ (1111/100000) (by norm_num) (by norm_num [Finset.sum_range_succ, Nat.factorial]))
  have t7 := gauss1_le 2 (5/1000) (24/10) x _ _ (by norm_num) (by norm_num) (sq_lb_left (5/2) (24/10) x hxa (by norm_num))
    (exp_neg_le_of_poly 12 _ (16917/125000) (by norm_num) (by norm_num [Finset.sum_range_succ, Nat.factorial]))
  have t8 := gauss1_le 2 (45/1000) (275/100) x _ _ (by norm_num) (by norm_num) (sq_lb_right (11/4) (275/100) x hxb (by norm_num))
    (exp_neg_le_of_poly 1 _ (1) (by norm_num) (by norm_num [Finset.sum_range_succ, Nat.factorial]))
  have t9 := gauss1_le_one (1/2) 3 x _ _ (by norm_num) (sq_lb_right (11/4) 3 x hxb (by norm_num))
    (exp_neg_le_of_poly 4 _ (441253/500000) (by norm_num) (by norm_num [Finset.sum_range_succ, Nat.factorial]))
  have t10 := gauss1_far 2 (32/100) 6 x _ (by norm_num) (by norm_num) (sq_lb_right (11/4) 6 x hxb (by norm_num)) (by norm_num)
  have t11 := gauss1_far (22/10) (18/100) 7 x _ (by norm_num) (by norm_num) (sq_lb_right (11/4) 7 x hxb (by norm_num)) (by norm_num)
  have t12 := gauss1_far (24/10) (1/2) 8 x _ (by norm_num) (by norm_num) (sq_lb_right (11/4) 8 x hxb (by norm_num)) (by norm_num)
  have t13 := gauss1_far (23/10) (1/2) (95/10) x _ (by norm_num) (by norm_num) (sq_lb_right (11/4) (95/10) x hxb (by norm_num)) (by norm_num)
  have t14 := gauss1_far (32/10) (18/100) 11 x _ (by norm_num) (by norm_num) (sq_lb_right (11/4) 11 x hxb (by norm_num)) (by norm_num)
  have t15 := gauss1_far (12/10) (18/100) 12 x _ (by norm_num) (by norm_num) (sq_lb_right (11/4) 12 x hxb (by norm_num)) (by norm_num)
  linarith

theorem syn1_cell36 (x : ℝ) (hxa : (11/4) ≤ x) (hxb : x ≤ (3)) : synthetic1D x ≤ (3231 / 1000 : ℝ) := by
  rw [synthetic1D_at]
  have t1 := gauss1_le_one (1/2) 1 x _ _ (by norm_num) (sq_lb_left (11/4) 1 x hxa (by norm_num))
    (exp_neg_le_of_poly 16 _ (2189/1000000) (by norm_num) (by norm_num [Finset.sum_range_succ, Nat.factorial]))
  have t2 := gauss1_far 2 (45/1000) (125/100) x _ (by norm_num) (by norm_num) (sq_lb_left (11/4) (125/100) x hxa (by norm_num)) (by norm_num)
  have t3 := gauss1_far (1/2) (128/10000) (15/10) x _ (by norm_num) (by norm_num) (sq_lb_left (11/4) (15/10) x hxa (by norm_num)) (by norm_num)
  have t4 := gauss1_far 2 (5/1000) (16/10) x _ (by norm_num) (by norm_num) (sq_lb_left (11/4) (16/10) x hxa (by norm_num)) (by norm_num)
  have t5 := gauss1_far (25/10) (2/100) (18/10) x _ (by norm_num) (by norm_num) (sq_lb_left (11/4) (18/10) x hxa (by norm_num)) (by norm_num)
  have t6 := gauss1_far (25/10) (2/100) (22/10) x _ (by norm_num) (by norm_num) (sq_lb_left (11/4) (22/10) x hxa (by norm_num)) (by norm_num)
  have t7 := gauss1_far 2 (5/1000) (24/10) x _ (by norm_num) (by norm_num) (sq_lb_left (11/4) (24/10) x hxa (by norm_num)) (by norm_num)
  have t8 := gauss1_le 2 (45/1000) (275/100) x _ _ (by norm_num) (by norm_num) (sq_lb_left (11/4) (275/100) x hxa (by norm_num))
    (exp_neg_le_of_poly 1 _ (1) (by norm_num) (by norm_num [Finset.sum_range_succ, Nat.factorial]))
  have t9 := gauss1_le_one (1/2) 3 x _ _ (by norm_num) (sq_lb_right (3) 3 x hxb (by norm_num))
    (exp_neg_le_of_poly 1 _ (1) (by norm_num) (by norm_num [Finset.sum_range_succ, Nat.factorial]))
  have t10 := gauss1_far 2 (32/100) 6 x _ (by norm_num) (by norm_num) (sq_lb_right (3) 6 x hxb (by norm_num)) (by norm_num)
  have t11 := gauss1_far (22/10) (18/100) 7 x _ (by norm_num) (by norm_num) (sq_lb_right (3) 7 x hxb (by norm_num)) (by norm_num)
  have t12 := gauss1_far (24/10) (1/2) 8 x _ (by norm_num) (by norm_num) (sq_lb_right (3) 8 x hxb (by norm_num)) (by norm_num)
  have t13 := gauss1_far (23/10) (1/2) (95/10) x _ (by norm_num) (by norm_num) (sq_lb_right (3) (95/10) x hxb (by norm_num)) (by norm_num)
  have t14 := gauss1_far (32/10) (18/100) 11 x _ (by norm_num) (by norm_num) (sq_lb_right (3) 11 x hxb (by norm_num)) (by norm_num)
  have t15 := gauss1_far (12/10) (18/100) 12 x _ (by norm_num) (by norm_num) (sq_lb_right (3) 12 x hxb (by norm_num)) (by norm_num)
  linarith

theorem syn1_node31 (x : ℝ) (hxa : (5/2) ≤ x) (hxb : x ≤ (3)) : synthetic1D x ≤ (3231 / 1000 : ℝ) := by
  rcases le_total x (11/4) with h | h
  · exact syn1_cell35 x hxa h
  · exact syn1_cell36 x h hxb

theorem syn1_node32 (x : ℝ) (hxa : (2) ≤ x) (hxb : x ≤ (3)) : synthetic1D x ≤ (3231 / 1000 : ℝ) := by
  rcases le_total x (5/2) with h | h
  · exact syn1_node30 x hxa h
  · exact syn1_node31 x h hxb

theorem syn1_node33 (x : ℝ) (hxa : (1) ≤ x) (hxb : x ≤ (3)) : synthetic1D x ≤ (3231 / 1000 : ℝ) := by
  rcases le_total x (2) with h | h
  · exact syn1_node23 x hxa h
  · exact syn1_node32 x h hxb

theorem syn1_node34 (x : ℝ) (hxa : (-1) ≤ x) (hxb : x ≤ (3)) : synthetic1D x ≤ (3231 / 1000 : ℝ) := by
  rcases le_total x (1) with h | h
  · exact syn1_cell2 x hxa h
  · exact syn1_node33 x h hxb

theorem syn1_cell37 (x : ℝ) (hxa : (3) ≤ x) (hxb : x ≤ (5)) : synthetic1D x ≤ (3231 / 1000 : ℝ) := by
  rw [synthetic1D_at]
  have t1 := gauss1_le_one (1/2) 1 x _ _ (by norm_num) (sq_lb_left (3) 1 x hxa (by norm_num))
    (exp_neg_le_of_poly 18 _ (21/62500) (by norm_num) (by norm_num [Finset.sum_range_succ, Nat.factorial]))
  have t2 := gauss1_far 2 (45/1000) (125/100) x _ (by norm_num) (by norm_num) (sq_lb_left (3) (125/100) x hxa (by norm_num)) (by norm_num)
  have t3 := gauss1_far (1/2) (128/10000) (15/10) x _ (by norm_num) (by norm_num) (sq_lb_left (3) (15/10) x hxa (by norm_num)) (by norm_num)
  have t4 := gauss1_far 2 (5/1000) (16/10) x _ (by norm_num) (by norm_num) (sq_lb_left (3) (16/10) x hxa (by norm_num)) (by norm_num)
  have t5 := gauss1_far (25/10) (2/100) (18/10) x _ (by norm_num) (by norm_num) (sq_lb_left (3) (18/10) x hxa (by norm_num)) (by norm_num)
  have t6 := gauss1_far (25/10) (2/100) (22/10) x _ (by norm_num) (by norm_num) (sq_lb_left (3) (22/10) x hxa (by norm_num)) (by norm_num)
  have t7 := gauss1_far 2 (5/1000) (24/10) x _ (by norm_num) (by norm_num) (sq_lb_left (3) (24/10) x hxa (by norm_num)) (by norm_num)
  have t8 := gauss1_le 2 (45/1000) (275/100) x _ _ (by norm_num) (by norm_num) (sq_lb_left (3) (275/100) x hxa (by norm_num))
    (exp_neg_le_of_poly 10 _ (249353/1000000) (by norm_num) (by norm_num [Finset.sum_range_succ, Nat.factorial]))
  have t9 := gauss1_le_one (1/2) 3 x _ _ (by norm_num) (sq_lb_left (3) 3 x hxa (by norm_num))
    (exp_neg_le_of_poly 1 _ (1) (by norm_num) (by norm_num [Finset.sum_range_succ, Nat.factorial]))
  have t10 := gauss1_le 2 (32/100) 6 x _ _ (by norm_num) (by norm_num) (sq_lb_right (5) 6 x hxb (by norm_num))
    (exp_neg_le_of_poly 14 _ (21969/500000) (by norm_num) (by norm_num [Finset.sum_range_succ, Nat.factorial]))
  have t11 := gauss1_far (22/10) (18/100) 7 x _ (by norm_num) (by norm_num) (sq_lb_right (5) 7 x hxb (by norm_num)) (by norm_num)
  have t12 := gauss1_far (24/10) (1/2) 8 x _ (by norm_num) (by norm_num) (sq_lb_right (5) 8 x hxb (by norm_num)) (by norm_num)
  have t13 := gauss1_far (23/10) (1/2) (95/10) x _ (by norm_num) (by norm_num) (sq_lb_right (5) (95/10) x hxb (by norm_num)) (by norm_num)
  have t14 := gauss1_far (32/10) (18/100) 11 x _ (by norm_num) (by norm_num) (sq_lb_right (5) 11 x hxb (by norm_num)) (by norm_num)
  have t15 := gauss1_far (12/10) (18/100) 12 x _ (by norm_num) (by norm_num) (sq_lb_right (5) 12 x hxb (by norm_num)) (by norm_num)
  linarith

theorem syn1_cell38 (x : ℝ) (hxa : (5) ≤ x) (hxb : x ≤ (6)) : synthetic1D x ≤ (3231 / 1000 : ℝ) := by
  rw [synthetic1D_at]
  have t1 := gauss1_far_one (1/2) 1 x _ (by norm_num) (sq_lb_left (5) 1 x hxa (by norm_num)) (by norm_num)
  have t2 := gauss1_far 2 (45/1000) (125/100) x _ (by norm_num) (by norm_num) (sq_lb_left (5) (125/100) x hxa (by norm_num)) (by norm_num)
  have t3 := gauss1_far (1/2) (128/10000) (15/10) x _ (by norm_num) (by norm_num) (sq_lb_left (5) (15/10) x hxa (by norm_num)) (by norm_num)
  have t4 := gauss1_far 2 (5/1000) (16/10) x _ (by norm_num) (by norm_num) (sq_lb_left (5) (16/10) x hxa (by norm_num)) (by norm_num)
  have t5 := gauss1_far (25/10) (2/100) (18/10) x _ (by norm_num) (by norm_num) (sq_lb_left (5) (18/10) x hxa (by norm_num)) (by norm_num)
  have t6 := gauss1_far (25/10) (2/100) (22/10) x _ (by norm_num) (by norm_num) (sq_lb_left (5) (22/10) x hxa (by norm_num)) (by norm_num)
  have t7 := gauss1_far 2 (5/1000) (24/10) x _ (by norm_num) (by norm_num) (sq_lb_left (5) (24/10) x hxa (by norm_num)) (by norm_num)
  have t8 := gauss1_far 2 (45/1000) (275/100) x _ (by norm_num) (by norm_num) (sq_lb_left (5) (275/100) x hxa (by norm_num)) (by norm_num)
  have t9 := gauss1_le_one (1/2) 3 x _ _ (by norm_num) (sq_lb_left (5) 3 x hxa (by norm_num))
    (exp_neg_le_of_poly 18 _ (21/62500) (by norm_num) (by norm_num [Finset.sum_range_succ, Nat.factorial]))
  have t10 := gauss1_le 2 (32/100) 6 x _ _ (by norm_num) (by norm_num) (sq_lb_right (6) 6 x hxb (by norm_num))
    (exp_neg_le_of_poly 1 _ (1) (by norm_num) (by norm_num [Finset.sum_range_succ, Nat.factorial]))
  have t11 := gauss1_le (22/10) (18/100) 7 x _ _ (by norm_num) (by norm_num) (sq_lb_right (6) 7 x hxb (by norm_num))
    (exp_neg_le_of_poly 16 _ (3867/1000000) (by norm_num) (by norm_num [Finset.sum_range_succ, Nat.factorial]))
  have t12 := gauss1_le (24/10) (1/2) 8 x _ _ (by norm_num) (by norm_num) (sq_lb_right (6) 8 x hxb (by norm_num))
    (exp_neg_le_of_poly 18 _ (21/62500) (by norm_num) (by norm_num [Finset.sum_range_succ, Nat.factorial]))
  have t13 := gauss1_far (23/10) (1/2) (95/10) x _ (by norm_num) (by norm_num) (sq_lb_right (6) (95/10) x hxb (by norm_num)) (by norm_num)
  have t14 := gauss1_far (32/10) (18/100) 11 x _ (by norm_num) (by norm_num) (sq_lb_right (6) 11 x hxb (by norm_num)) (by norm_num)
  have t15 := gauss1_far (12/10) (18/100) 12 x _ (by norm_num) (by norm_num) (sq_lb_right (6) 12 x hxb (by norm_num)) (by norm_num)
  linarith

theorem syn1_cell39 (x : ℝ) (hxa : (6) ≤ x) (hxb : x ≤ (13/2)) : synthetic1D x ≤ (3231 / 1000 : ℝ) := by
  rw [synthetic1D_at]
  have t1 := gauss1_far_one (1/2) 1 x _ (by norm_num) (sq_lb_left (6) 1 x hxa (by norm_num)) (by norm_num)
  have t2 := gauss1_far 2 (45/1000) (125/100) x _ (by norm_num) (by norm_num) (sq_lb_left (6) (125/100) x hxa (by norm_num)) (by norm_num)
  have t3 := gauss1_far (1/2) (128/10000) (15/10) x _ (by norm_num) (by norm_num) (sq_lb_left (6) (15/10) x hxa (by norm_num)) (by norm_num)
  have t4 := gauss1_far 2 (5/1000) (16/10) x _ (by norm_num) (by norm_num) (sq_lb_left (6) (16/10) x hxa (by norm_num)) (by norm_num)
  have t5 := gauss1_far (25/10) (2/100) (18/10) x _ (by norm_num) (by norm_num) (sq_lb_left (6) (18/10) x hxa (by norm_num)) (by norm_num)
  have t6 := gauss1_far (25/10) (2/100) (22/10) x _ (by norm_num) (by norm_num) (sq_lb_left (6) (22/10) x hxa (by norm_num)) (by norm_num)
  have t7 := gauss1_far 2 (5/1000) (24/10) x _ (by norm_num) (by norm_num) (sq_lb_left (6) (24/10) x hxa (by norm_num)) (by norm_num)
  have t8 := gauss1_far 2 (45/1000) (275/100) x _ (by norm_num) (by norm_num) (sq_lb_left (6) (275/100) x hxa (by norm_num)) (by norm_num)
  have t9 := gauss1_far_one (1/2) 3 x _ (by norm_num) (sq_lb_left (6) 3 x hxa (by norm_num)) (by norm_num)
  have t10 := gauss1_le 2 (32/100) 6 x _ _ (by norm_num) (by norm_num) (sq_lb_left (6) 6 x hxa (by norm_num))
    (exp_neg_le_of_poly 1 _ (1) (by norm_num) (by norm_num [Finset.sum_range_succ, Nat.factorial]))
  have t11 := gauss1_le (22/10) (18/100) 7 x _ _ (by norm_num) (by norm_num) (sq_lb_right (13/2) 7 x hxb (by norm_num))
    (exp_neg_le_of_poly 10 _ (249353/1000000) (by norm_num) (by norm_num [Finset.sum_range_succ, Nat.factorial]))
  have t12 := gauss1_le (24/10) (1/2) 8 x _ _ (by norm_num) (by norm_num) (sq_lb_right (13/2) 8 x hxb (by norm_num))
    (exp_neg_le_of_poly 16 _ (1111/100000) (by norm_num) (by norm_num [Finset.sum_range_succ, Nat.factorial]))
  have t13 := gauss1_far (23/10) (1/2) (95/10) x _ (by norm_num) (by norm_num) (sq_lb_right (13/2) (95/10) x hxb (by norm_num)) (by norm_num)
  have t14 := gauss1_far (32/10) (18/100) 11 x _ (by norm_num) (by norm_num) (sq_lb_right (13/2) 11 x hxb (by norm_num)) (by norm_num)
  have t15 := gauss1_far (12/10) (18/100) 12 x _ (by norm_num) (by norm_num) (sq_lb_right (13/2) 12 x hxb (by norm_num)) (by norm_num)
  linarith

theorem syn1_cell40 (x : ℝ) (hxa : (13/2) ≤ x) (hxb : x ≤ (27/4)) : synthetic1D x ≤ (3231 / 1000 : ℝ) := by
  rw [synthetic1D_at]
  have t1 := gauss1_far_one (1/2) 1 x _ (by norm_num) (sq_lb_left (13/2) 1 x hxa (by norm_num)) (by norm_num)
  have t2 := gauss1_far 2 (45/1000) (125/100) x _ (by norm_num) (by norm_num) (sq_lb_left (13/2) (125/100) x hxa (by norm_num)) (by norm_num)
  have t3 := gauss1_far (1/2) (128/10000) (15/10) x _ (by norm_num) (by norm_num) (sq_lb_left (13/2) (15/10) x hxa (by norm_num)) (by norm_num)
  have t4 := gauss1_far 2 (5/1000) (16/10) x _ (by norm_num) (by norm_num) (sq_lb_left (13/2) (16/10) x hxa (by norm_num)) (by norm_num)
  have t5 := gauss1_far (25/10) (2/100) (18/10) x _ (by norm_num) (by norm_num) (sq_lb_left (13/2) (18/10) x hxa (by norm_num)) (by norm_num)
  have t6 := gauss1_far (25/10) (2/100) (22/10) x _ (by norm_num) (by norm_num) (sq_lb_left (13/2) (22/10) x hxa (by norm_num)) (by norm_num)
  have t7 := gauss1_far 2 (5/1000) (24/10) x _ (by norm_num) (by norm_num) (sq_lb_left (13/2) (24/10) x hxa (by norm_num)) (by norm_num)
  have t8 := gauss1_far 2 (45/1000) (275/100) x _ (by norm_num) (by norm_num) (sq_lb_left (13/2) (275/100) x hxa (by norm_num)) (by norm_num)
  have t9 := gauss1_far_one (1/2) 3 x _ (by norm_num) (sq_lb_left (13/2) 3 x hxa (by norm_num)) (by norm_num)
  have t10 := gauss1_le 2 (32/100) 6 x _ _ (by norm_num) (by norm_num) (sq_lb_left (13/2) 6 x hxa (by norm_num))
    (exp_neg_le_of_poly 8 _ (91567/200000) (by norm_num) (by norm_num [Finset.sum_range_succ, Nat.factorial]))
  have t11 := gauss1_le (22/10) (18/100) 7 x _ _ (by norm_num) (by norm_num) (sq_lb_right (27/4) 7 x hxb (by norm_num))
    (exp_neg_le_of_poly 6 _ (14133/20000) (by norm_num) (by norm_num [Finset.sum_range_succ, Nat.factorial]))
  have t12 := gauss1_le (24/10) (1/2) 8 x _ _ (by norm_num) (by norm_num) (sq_lb_right (27/4) 8 x hxb (by norm_num))
    (exp_neg_le_of_poly 14 _ (21969/500000) (by norm_num) (by norm_num [Finset.sum_range_succ, Nat.factorial]))
  have t13 := gauss1_far (23/10) (1/2) (95/10) x _ (by norm_num) (by norm_num) (sq_lb_right (27/4) (95/10) x hxb (by norm_num)) (by norm_num)
  have t14 := gauss1_far (32/10) (18/100) 11 x _ (by norm_num) (by norm_num) (sq_lb_right (27/4) 11 x hxb (by norm_num)) (by norm_num)
  have t15 := gauss1_far (12/10) (18/100) 12 x _ (by norm_num) (by norm_num) (sq_lb_right (27/4) 12 x hxb (by norm_num)) (by norm_num)
  linarith

theorem syn1_cell41 (x : ℝ) (hxa : (27/4) ≤ x) (hxb : x ≤ (7)) : synthetic1D x ≤ (3231 / 1000 : ℝ) := by
  rw [synthetic1D_at]
  have t1 := gauss1_far_one (1/2) 1 x _ (by norm_num) (sq_lb_left (27/4) 1 x hxa (by norm_num)) (by norm_num)
  have t2 := gauss1_far 2 (45/1000) (125/100) x _ (by norm_num) (by norm_num) (sq_lb_left (27/4) (125/100) x hxa (by norm_num)) (by norm_num)
  have t3 := gauss1_far (1/2) (128/10000) (15/10) x _ (by norm_num) (by norm_num) (sq_lb_left (27/4) (15/10) x hxa (by norm_num)) (by norm_num)
  have t4 := gauss1_far 2 (5/1000) (16/10) x _ (by norm_num) (by norm_num) (sq_lb_left (27/4) (16/10) x hxa (by norm_num)) (by norm_num)
  have t5 := gauss1_far (25/10) (2/100) (18/10) x _ (by norm_num) (by norm_num) (sq_lb_left (27/4) (18/10) x hxa (by norm_num)) (by norm_num)
  have t6 := gauss1_far (25/10) (2/100) (22/10) x _ (by norm_num) (by norm_num) (sq_lb_left (27/4) (22/10) x hxa (by norm_num)) (by norm_num)
  have t7 := gauss1_far 2 (5/1000) (24/10) x _ (by norm_num) (by norm_num) (sq_lb_left (27/4) (24/10) x hxa (by norm_num)) (by norm_num)
  have t8 := gauss1_far 2 (45/1000) (275/100) x _ (by norm_num) (by norm_num) (sq_lb_left (27/4) (275/100) x hxa (by norm_num)) (by norm_num)
  have t9 := gauss1_far_one (1/2) 3 x _ (by norm_num) (sq_lb_left (27/4) 3 x hxa (by norm_num)) (by norm_num)
  have t10 := gauss1_le 2 (32/100) 6 x _ _ (by norm_num) (by norm_num) (sq_lb_left (27/4) 6 x hxa (by norm_num))
    (exp_neg_le_of_poly 10 _ (6897/40000) (by norm_num) (by norm_num [Finset.sum_range_succ, Nat.factorial]))
  have t11 := gauss1_le (22/10) (18/100) 7 x _ _ (by norm_num) (by norm_num) (sq_lb_right (7) 7 x hxb (by norm_num))
    (exp_neg_le_of_poly 1 _ (1) (by norm_num) (by norm_num [Finset.sum_range_succ, Nat.factorial]))
  have t12 := gauss1_le (24/10) (1/2) 8 x _ _ (by norm_num) (by norm_num) (sq_lb_right (7) 8 x hxb (by norm_num))
    (exp_neg_le_of_poly 12 _ (16917/125000) (by norm_num) (by norm_num [Finset.sum_range_succ, Nat.factorial]))
  have t13 := gauss1_le (23/10) (1/2) (95/10) x _ _ (by norm_num) (by norm_num) (sq_lb_right (7) (95/10) x hxb (by norm_num))
    (exp_neg_le_of_poly 16 _ (1/200000) (by norm_num) (by norm_num [Finset.sum_range_succ, Nat.factorial]))
  have t14 := gauss1_far (32/10) (18/100) 11 x _ (by norm_num) (by norm_num) (sq_lb_right (7) 11 x hxb (by norm_num)) (by norm_num)
  have t15 := gauss1_far (12/10) (18/100) 12 x _ (by norm_num) (by norm_num) (sq_lb_right (7) 12 x hxb (by norm_num)) (by norm_num)
  linarith

theorem syn1_node35 (x : ℝ) (hxa : (13/2) ≤ x) (hxb : x ≤ (7)) : synthetic1D x ≤ (3231 / 1000 : ℝ) := by
  rcases le_total x (27/4) with h | h
  · exact syn1_cell40 x hxa h
  · exact syn1_cell41 x h hxb

theorem syn1_node36 (x : ℝ) (hxa : (6) ≤ x) (hxb : x ≤ (7)) : synthetic1D x ≤ (3231 / 1000 : ℝ) := by
  rcases le_total x (13/2) with h | h
  · exact syn1_cell39 x hxa h
  · exact syn1_node35 x h hxb

theorem syn1_node37 (x : ℝ) (hxa : (5) ≤ x) (hxb : x ≤ (7)) : synthetic1D x ≤ (3231 / 1000 : ℝ) := by
  rcases le_total x (6) with h | h
  · exact syn1_cell38 x hxa h
  · exact syn1_node36 x h hxb

theorem syn1_node38 (x : ℝ) (hxa : (3) ≤ x) (hxb : x ≤ (7)) : synthetic1D x ≤ (3231 / 1000 : ℝ) := by
  rcases le_total x (5) with h | h
  · exact syn1_cell37 x hxa h
  · exact syn1_node37 x h hxb

theorem syn1_node39 (x : ℝ) (hxa : (-1) ≤ x) (hxb : x ≤ (7)) : synthetic1D x ≤ (3231 / 1000 : ℝ) := by
  rcases le_total x (3) with h | h
  · exact syn1_node34 x hxa h
  · exact syn1_node38 x h hxb

theorem syn1_cell42 (x : ℝ) (hxa : (7) ≤ x) (hxb : x ≤ (29/4)) : synthetic1D x ≤ (3231 / 1000 : ℝ) := by
  rw [synthetic1D_at]
  have t1 := gauss1_far_one (1/2) 1 x _ (by norm_num) (sq_lb_left (7) 1 x hxa (by norm_num)) (by norm_num)
  have t2 := gauss1_far 2 (45/1000) (125/100) x _ (by norm_num) (by norm_num) (sq_lb_left (7) (125/100) x hxa (by norm_num)) (by norm_num)
  have t3 := gauss1_far (1/2) (128/10000) (15/10) x _ (by norm_num) (by norm_num) (sq_lb_left (7) (15/10) x hxa (by norm_num)) (by norm_num)
  have t4 := gauss1_far 2 (5/1000) (16/10) x _ (by norm_num) (by norm_num) (sq_lb_left (7) (16/10) x hxa (by norm_num)) (by norm_num)
  have t5 := gauss1_far (25/10) (2/100) (18/10) x _ (by norm_num) (by norm_num) (sq_lb_left (7) (18/10) x hxa (by norm_num)) (by norm_num)
  have t6 := gauss1_far (25/10) (2/100) (22/10) x _ (by norm_num) (by norm_num) (sq_lb_left (7) (22/10) x hxa (by norm_num)) (by norm_num)
  have t7 := gauss1_far 2 (5/1000) (24/10) x _ (by norm_num) (by norm_num) (sq_lb_left (7) (24/10) x hxa (by norm_num)) (by norm_num)
  have t8 := gauss1_far 2 (45/1000) (275/100) x _ (by norm_num) (by norm_num) (sq_lb_left (7) (275/100) x hxa (by norm_num)) (by norm_num)
  have t9 := gauss1_far_one (1/2) 3 x _ (by norm_num) (sq_lb_left (7) 3 x hxa (by norm_num)) (by norm_num)
  have t10 := gauss1_le 2 (32/100) 6 x _ _ (by norm_num) (by norm_num) (sq_lb_left (7) 6 x hxa (by norm_num))
    (exp_neg_le_of_poly 14 _ (21969/500000) (by norm_num) (by norm_num [Finset.sum_range_succ, Nat.factorial]))
  have t11 := gauss1_le (22/10) (18/100) 7 x _ _ (by norm_num) (by norm_num) (sq_lb_left (7) 7 x hxa (by norm_num))
    (exp_neg_le_of_poly 1 _ (1) (by norm_num) (by norm_num [Finset.sum_range_succ, Nat.factorial]))
  have t12 := gauss1_le (24/10) (1/2) 8 x _ _ (by norm_num) (by norm_num) (sq_lb_right (29/4) 8 x hxb (by norm_num))
    (exp_neg_le_of_poly 9 _ (162327/500000) (by norm_num) (by norm_num [Finset.sum_range_succ, Nat.factorial]))
  have t13 := gauss1_le (23/10) (1/2) (95/10) x _ _ (by norm_num) (by norm_num) (sq_lb_right (29/4) (95/10) x hxb (by norm_num))
    (exp_neg_le_of_poly 18 _ (41/1000000) (by norm_num) (by norm_num [Finset.sum_range_succ, Nat.factorial]))
  have t14 := gauss1_far (32/10) (18/100) 11 x _ (by norm_num) (by norm_num) (sq_lb_right (29/4) 11 x hxb (by norm_num)) (by norm_num)
  have t15 := gauss1_far (12/10) (18/100) 12 x _ (by norm_num) (by norm_num) (sq_lb_right (29/4) 12 x hxb (by norm_num)) (by norm_num)
  linarith

theorem syn1_cell43 (x : ℝ) (hxa : (29/4) ≤ x) (hxb : x ≤ (15/2)) : synthetic1D x ≤ (3231 / 1000 : ℝ) := by
  rw [synthetic1D_at]
  have t1 := gauss1_far_one (1/2) 1 x _ (by norm_num) (sq_lb_left (29/4) 1 x hxa (by norm_num)) (by norm_num)
  have t2 := gauss1_far 2 (45/1000) (125/100) x _ (by norm_num) (by norm_num) (sq_lb_left (29/4) (125/100) x hxa (by norm_num)) (by norm_num)
  have t3 := gauss1_far (1/2) (128/10000) (15/10) x _ (by norm_num) (by norm_num) (sq_lb_left (29/4) (15/10) x hxa (by norm_num)) (by norm_num)
  have t4 := gauss1_far 2 (5/1000) (16/10) x _ (by norm_num) (by norm_num) (sq_lb_left (29/4) (16/10) x hxa (by norm_num)) (by norm_num)
  have t5 := gauss1_far (25/10) (2/100) (18/10) x _ (by norm_num) (by norm_num) (sq_lb_left (29/4) (18/10) x hxa (by norm_num)) (by norm_num)
  have t6 := gauss1_far (25/10) (2/100) (22/10) x _ (by norm_num) (by norm_num) (sq_lb_left (29/4) (22/10) x hxa (by norm_num)) (by norm_num)
  have t7 := gauss1_far 2 (5/1000) (24/10) x _ (by norm_num) (by norm_num) (sq_lb_left (29/4) (24/10) x hxa (by norm_num)) (by norm_num)
  have t8 := gauss1_far 2 (45/1000) (275/100) x _ (by norm_num) (by norm_num) (sq_lb_left (29/4) (275/100) x hxa (by norm_num)) (by norm_num)
  have t9 := gauss1_far_one (1/2) 3 x _ (by norm_num) (sq_lb_left (29/4) 3 x hxa (by norm_num)) (by norm_num)
  have t10 := gauss1_le 2 (32/100) 6 x _ _ (by norm_num) (by norm_num) (sq_lb_left (29/4) 6 x hxa (by norm_num))
    (exp_neg_le_of_poly 16 _ (7577/1000000) (by norm_num) (by norm_num [Finset.sum_range_succ, Nat.factorial]))
  have t11 := gauss1_le (22/10) (18/100) 7 x _ _ (by norm_num) (by norm_num) (sq_lb_left (29/4) 7 x hxa (by norm_num))
    (exp_neg_le_of_poly 6 _ (14133/20000) (by norm_num) (by norm_num [Finset.sum_range_succ, Nat.factorial]))
  have t12 := gauss1_le (24/10) (1/2) 8 x _ _ (by norm_num) (by norm_num) (sq_lb_right (15/2) 8 x hxb (by norm_num))
    (exp_neg_le_of_poly 7 _ (151633/250000) (by norm_num) (by norm_num [Finset.sum_range_succ, Nat.factorial]))
  have t13 := gauss1_le (23/10) (1/2) (95/10) x _ _ (by norm_num) (by norm_num) (sq_lb_right (15/2) (95/10) x hxb (by norm_num))
    (exp_neg_le_of_poly 18 _ (21/62500) (by norm_num) (by norm_num [Finset.sum_range_succ, Nat.factorial]))
  have t14 := gauss1_far (32/10) (18/100) 11 x _ (by norm_num) (by norm_num) (sq_lb_right (15/2) 11 x hxb (by norm_num)) (by norm_num)
  have t15 := gauss1_far (12/10) (18/100) 12 x _ (by norm_num) (by norm_num) (sq_lb_right (15/2) 12 x hxb (by norm_num)) (by norm_num)
  linarith

theorem syn1_node40 (x : ℝ) (hxa : (7) ≤ x) (hxb : x ≤ (15/2)) : synthetic1D x ≤ (3231 / 1000 : ℝ) := by
  rcases le_total x (29/4) with h | h
  · exact syn1_cell42 x hxa h
  · exact syn1_cell43 x h hxb

theorem syn1_cell44 (x : ℝ) (hxa : (15/2) ≤ x) (hxb : x ≤ (8)) : synthetic1D x ≤ (3231 / 1000 : ℝ) := by
  rw [synthetic1D_at]
  have t1 := gauss1_far_one (1/2) 1 x _ (by norm_num) (sq_lb_left (15/2) 1 x hxa (by norm_num)) (by norm_num)
  have t2 := gauss1_far 2 (45/1000) (125/100) x _ (by norm_num) (by norm_num) (sq_lb_left (15/2) (125/100) x hxa (by norm_num)) (by norm_num)
  have t3 := gauss1_far (1/2) (128/10000) (15/10) x _ (by norm_num) (by norm_num) (sq_lb_left (15/2) (15/10) x hxa (by norm_num)) (by norm_num)
  have t4 := gauss1_far 2 (5/1000) (16/10) x _ (by norm_num) (by norm_num) (sq_lb_left (15/2) (16/10) x hxa (by norm_num)) (by norm_num)
  have t5 := gauss1_far (25/10) (2/100) (18/10) x _ (by norm_num) (by norm_num) (sq_lb_left (15/2) (18/10) x hxa (by norm_num)) (by norm_num)
  have t6 := gauss1_far (25/10) (2/100) (22/10) x _ (by norm_num) (by norm_num) (sq_lb_left (15/2) (22/10) x hxa (by norm_num)) (by norm_num)
  have t7 := gauss1_far 2 (5/1000) (24/10) x _ (by norm_num) (by norm_num) (sq_lb_left (15/2) (24/10) x hxa (by norm_num)) (by norm_num)
  have t8 := gauss1_far 2 (45/1000) (275/100) x _ (by norm_num) (by norm_num) (sq_lb_left (15/2) (275/100) x hxa (by norm_num)) (by norm_num)
  have t9 := gauss1_far_one (1/2) 3 x _ (by norm_num) (sq_lb_left (15/2) 3 x hxa (by norm_num)) (by norm_num)
  have t10 := gauss1_le 2 (32/100) 6 x _ _ (by norm_num) (by norm_num) (sq_lb_left (15/2) 6 x hxa (by norm_num))
    (exp_neg_le_of_poly 18 _ (177/200000) (by norm_num) (by norm_num [Finset.sum_range_succ, Nat.factorial]))
  have t11 := gauss1_le (22/10) (18/100) 7 x _ _ (by norm_num) (by norm_num) (sq_lb_left (15/2) 7 x hxa (by norm_num))
    (exp_neg_le_of_poly 10 _ (249353/1000000) (by norm_num) (by norm_num [Finset.sum_range_succ, Nat.factorial]))
  have t12 := gauss1_le (24/10) (1/2) 8 x _ _ (by norm_num) (by norm_num) (sq_lb_right (8) 8 x hxb (by norm_num))
    (exp_neg_le_of_poly 1 _ (1) (by norm_num) (by norm_num [Finset.sum_range_succ, Nat.factorial]))
  have t13 := gauss1_le (23/10) (1/2) (95/10) x _ _ (by norm_num) (by norm_num) (sq_lb_right (8) (95/10) x hxb (by norm_num))
    (exp_neg_le_of_poly 16 _ (1111/100000) (by norm_num) (by norm_num [Finset.sum_range_succ, Nat.factorial]))
  have t14 := gauss1_far (32/10) (18/100) 11 x _ (by norm_num) (by norm_num) (sq_lb_right (8) 11 x hxb (by norm_num)) (by norm_num)
  have t15 := gauss1_far (12/10) (18/100) 12 x _ (by norm_num) (by norm_num) (sq_lb_right (8) 12 x hxb (by norm_num)) (by norm_num)
  linarith

theorem syn1_node41 (x : ℝ) (hxa : (7) ≤ x) (hxb : x ≤ (8)) : synthetic1D x ≤ (3231 / 1000 : ℝ) := by
  rcases le_total x (15/2) with h | h
  · exact syn1_node40 x hxa h
  · exact syn1_cell44 x h hxb

theorem syn1_cell45 (x : ℝ) (hxa : (8) ≤ x) (hxb : x ≤ (17/2)) : synthetic1D x ≤ (3231 / 1000 : ℝ) := by
  rw [synthetic1D_at]
  have t1 := gauss1_far_one (1/2) 1 x _ (by norm_num) (sq_lb_left (8) 1 x hxa (by norm_num)) (by norm_num)
  have t2 := gauss1_far 2 (45/1000) (125/100) x _ (by norm_num) (by norm_num) (sq_lb_left (8) (125/100) x hxa (by norm_num)) (by norm_num)
  have t3 := gauss1_far (1/2) (128/10000) (15/10) x _ (by norm_num) (by norm_num) (sq_lb_left (8) (15/10) x hxa (by norm_num)) (by norm_num)
  have t4 := gauss1_far 2 (5/1000) (16/10) x _ (by norm_num) (by norm_num) (sq_lb_left (8) (16/10) x hxa (by norm_num)) (by norm_num)
  have t5 := gauss1_far (25/10) (2/100) (18/10) x _ (by norm_num) (by norm_num) (sq_lb_left (8) (18/10) x hxa (by norm_num)) (by norm_num)
  have t6 := gauss1_far (25/10) (2/100) (22/10) x _ (by norm_num) (by norm_num) (sq_lb_left (8) (22/10) x hxa (by norm_num)) (by norm_num)
  have t7 := gauss1_far 2 (5/1000) (24/10) x _ (by norm_num) (by norm_num) (sq_lb_left (8) (24/10) x hxa (by norm_num)) (by norm_num)
  have t8 := gauss1_far 2 (45/1000) (275/100) x _ (by norm_num) (by norm_num) (sq_lb_left (8) (275/100) x hxa (by norm_num)) (by norm_num)
  have t9 := gauss1_far_one (1/2) 3 x _ (by norm_num) (sq_lb_left (8) 3 x hxa (by norm_num)) (by norm_num)
  have t10 := gauss1_le 2 (32/100) 6 x _ _ (by norm_num) (by norm_num) (sq_lb_left (8) 6 x hxa (by norm_num))
    (exp_neg_le_of_poly 16 _ (1/200000) (by norm_num) (by norm_num [Finset.sum_range_succ, Nat.factorial]))
  have t11 := gauss1_le (22/10) (18/100) 7 x _ _ (by norm_num) (by norm_num) (sq_lb_left (8) 7 x hxa (by norm_num))
    (exp_neg_le_of_poly 16 _ (3867/1000000) (by norm_num) (by norm_num [Finset.sum_range_succ, Nat.factorial]))
  have t12 := gauss1_le (24/10) (1/2) 8 x _ _ (by norm_num) (by norm_num) (sq_lb_left (8) 8 x hxa (by norm_num))
    (exp_neg_le_of_poly 1 _ (1) (by norm_num) (by norm_num [Finset.sum_range_succ, Nat.factorial]))
  have t13 := gauss1_le (23/10) (1/2) (95/10) x _ _ (by norm_num) (by norm_num) (sq_lb_right (17/2) (95/10) x hxb (by norm_num))
    (exp_neg_le_of_poly 12 _ (16917/125000) (by norm_num) (by norm_num [Finset.sum_range_succ, Nat.factorial]))
  have t14 := gauss1_far (32/10) (18/100) 11 x _ (by norm_num) (by norm_num) (sq_lb_right (17/2) 11 x hxb (by norm_num)) (by norm_num)
  have t15 := gauss1_far (12/10) (18/100) 12 x _ (by norm_num) (by norm_num) (sq_lb_right (17/2) 12 x hxb (by norm_num)) (by norm_num)
  linarith

theorem syn1_cell46 (x : ℝ) (hxa : (17/2) ≤ x) (hxb : x ≤ (9)) : synthetic1D x ≤ (3231 / 1000 : ℝ) := by
  rw [synthetic1D_at]
  have t1 := gauss1_far_one (1/2) 1 x _ (by norm_num) (sq_lb_left (17/2) 1 x hxa (by norm_num)) (by norm_num)
  have t2 := gauss1_far 2 (45/1000) (125/100) x _ (by norm_num) (by norm_num) (sq_lb_left (17/2) (125/100) x hxa (by norm_num)) (by norm_num)
  have t3 := gauss1_far (1/2) (128/10000) (15/10) x _ (by norm_num) (by norm_num) (sq_lb_left (17/2) (15/10) x hxa (by norm_num)) (by norm_num)
  have t4 := gauss1_far 2 (5/1000) (16/10) x _ (by norm_num) (by norm_num) (sq_lb_left (17/2) (16/10) x hxa (by norm_num)) (by norm_num)
  have t5 := gauss1_far (25/10) (2/100) (18/10) x _ (by norm_num) (by norm_num) (sq_lb_left (17/2) (18/10) x hxa (by norm_num)) (by norm_num)
  have t6 := gauss1_far (25/10) (2/100) (22/10) x _ (by norm_num) (by norm_num) (sq_lb_left (17/2) (22/10) x hxa (by norm_num)) (by norm_num)
  have t7 := gauss1_far 2 (5/1000) (24/10) x _ (by norm_num) (by norm_num) (sq_lb_left (17/2) (24/10) x hxa (by norm_num)) (by norm_num)
  have t8 := gauss1_far 2 (45/1000) (275/100) x _ (by norm_num) (by norm_num) (sq_lb_left (17/2) (275/100) x hxa (by norm_num)) (by norm_num)
  have t9 := gauss1_far_one (1/2) 3 x _ (by norm_num) (sq_lb_left (17/2) 3 x hxa (by norm_num)) (by norm_num)
  have t10 := gauss1_far 2 (32/100) 6 x _ (by norm_num) (by norm_num) (sq_lb_left (17/2) 6 x hxa (by norm_num)) (by norm_num)
  have t11 := gauss1_le (22/10) (18/100) 7 x _ _ (by norm_num) (by norm_num) (sq_lb_left (17/2) 7 x hxa (by norm_num))
    (exp_neg_le_of_poly 16 _ (1/200000) (by norm_num) (by norm_num [Finset.sum_range_succ, Nat.factorial]))
  have t12 := gauss1_le (24/10) (1/2) 8 x _ _ (by norm_num) (by norm_num) (sq_lb_left (17/2) 8 x hxa (by norm_num))
    (exp_neg_le_of_poly 7 _ (151633/250000) (by norm_num) (by norm_num [Finset.sum_range_succ, Nat.factorial]))
  have t13 := gauss1_le (23/10) (1/2) (95/10) x _ _ (by norm_num) (by norm_num) (sq_lb_right (9) (95/10) x hxb (by norm_num))
    (exp_neg_le_of_poly 7 _ (151633/250000) (by norm_num) (by norm_num [Finset.sum_range_succ, Nat.factorial]))
  have t14 := gauss1_far (32/10) (18/100) 11 x _ (by norm_num) (by norm_num) (sq_lb_right (9) 11 x hxb (by norm_num)) (by norm_num)
  have t15 := gauss1_far (12/10) (18/100) 12 x _ (by norm_num) (by norm_num) (sq_lb_right (9) 12 x hxb (by norm_num)) (by norm_num)
  linarith

theorem syn1_node42 (x : ℝ) (hxa : (8) ≤ x) (hxb : x ≤ (9)) : synthetic1D x ≤ (3231 / 1000 : ℝ) := by
  rcases le_total x (17/2) with h | h
  · exact syn1_cell45 x hxa h
  · exact syn1_cell46 x h hxb

theorem syn1_node43 (x : ℝ) (hxa : (7) ≤ x) (hxb : x ≤ (9)) : synthetic1D x ≤ (3231 / 1000 : ℝ) := by
  rcases le_total x (8) with h | h
  · exact syn1_node41 x hxa h
  · exact syn1_node42 x h hxb

theorem syn1_cell47 (x : ℝ) (hxa : (9) ≤ x) (hxb : x ≤ (10)) : synthetic1D x ≤ (3231 / 1000 : ℝ) := by
  rw [synthetic1D_at]
  have t1 := gauss1_far_one (1/2) 1 x _ (by norm_num) (sq_lb_left (9) 1 x hxa (by norm_num)) (by norm_num)
  have t2 := gauss1_far 2 (45/1000) (125/100) x _ (by norm_num) (by norm_num) (sq_lb_left (9) (125/100) x hxa (by norm_num)) (by norm_num)
  have t3 := gauss1_far (1/2) (128/10000) (15/10) x _ (by norm_num) (by norm_num) (sq_lb_left (9) (15/10) x hxa (by norm_num)) (by norm_num)
  have t4 := gauss1_far 2 (5/1000) (16/10) x _ (by norm_num) (by norm_num) (sq_lb_left (9) (16/10) x hxa (by norm_num)) (by norm_num)
  have t5 := gauss1_far (25/10) (2/100) (18/10) x _ (by norm_num) (by norm_num) (sq_lb_left (9) (18/10) x hxa (by norm_num)) (by norm_num)
  have t6 := gauss1_far (25/10) (2/100) (22/10) x _ (by norm_num) (by norm_num) (sq_lb_left (9) (22/10) x hxa (by norm_num)) (by norm_num)
  have t7 := gauss1_far 2 (5/1000) (24/10) x _ (by norm_num) (by norm_num) (sq_lb_left (9) (24/10) x hxa (by norm_num)) (by norm_num)
  have t8 := gauss1_far 2 (45/1000) (275/100) x _ (by norm_num) (by norm_num) (sq_lb_left (9) (275/100) x hxa (by norm_num)) (by norm_num)
  have t9 := gauss1_far_one (1/2) 3 x _ (by norm_num) (sq_lb_left (9) 3 x hxa (by norm_num)) (by norm_num)
  have t10 := gauss1_far 2 (32/100) 6 x _ (by norm_num) (by norm_num) (sq_lb_left (9) 6 x hxa (by norm_num)) (by norm_num)
  have t11 := gauss1_far (22/10) (18/100) 7 x _ (by norm_num) (by norm_num) (sq_lb_left (9) 7 x hxa (by norm_num)) (by norm_num)
  have t12 := gauss1_le (24/10) (1/2) 8 x _ _ (by norm_num) (by norm_num) (sq_lb_left (9) 8 x hxa (by norm_num))
    (exp_neg_le_of_poly 12 _ (16917/125000) (by norm_num) (by norm_num [Finset.sum_range_succ, Nat.factorial]))
  have t13 := gauss1_le (23/10) (1/2) (95/10) x _ _ (by norm_num) (by norm_num) (sq_nonneg _)
    (exp_neg_le_of_poly 1 _ (1) (by norm_num) (by norm_num [Finset.sum_range_succ, Nat.factorial]))
  have t14 := gauss1_le (32/10) (18/100) 11 x _ _ (by norm_num) (by norm_num) (sq_lb_right (10) 11 x hxb (by norm_num))
    (exp_neg_le_of_poly 16 _ (3867/1000000) (by norm_num) (by norm_num [Finset.sum_range_succ, Nat.factorial]))
  have t15 := gauss1_far (12/10) (18/100) 12 x _ (by norm_num) (by norm_num) (sq_lb_right (10) 12 x hxb (by norm_num)) (by norm_num)
  linarith

theorem syn1_cell48 (x : ℝ) (hxa : (10) ≤ x) (hxb : x ≤ (21/2)) : synthetic1D x ≤ (3231 / 1000 : ℝ) := by
  rw [synthetic1D_at]
  have t1 := gauss1_far_one (1/2) 1 x _ (by norm_num) (sq_lb_left (10) 1 x hxa (by norm_num)) (by norm_num)
  have t2 := gauss1_far 2 (45/1000) (125/100) x _ (by norm_num) (by norm_num) (sq_lb_left (10) (125/100) x hxa (by norm_num)) (by norm_num)
  have t3 := gauss1_far (1/2) (128/10000) (15/10) x _ (by norm_num) (by norm_num) (sq_lb_left (10) (15/10) x hxa (by norm_num)) (by norm_num)
  have t4 := gauss1_far 2 (5/1000) (16/10) x _ (by norm_num) (by norm_num) (sq_lb_left (10) (16/10) x hxa (by norm_num)) (by norm_num)
  have t5 := gauss1_far (25/10) (2/100) (18/10) x _ (by norm_num) (by norm_num) (sq_lb_left (10) (18/10) x hxa (by norm_num)) (by norm_num)
  have t6 := gauss1_far (25/10) (2/100) (22/10) x _ (by norm_num) (by norm_num) (sq_lb_left (10) (22/10) x hxa (by norm_num)) (by norm_num)
  have t7 := gauss1_far 2 (5/1000) (24/10) x _ (by norm_num) (by norm_num) (sq_lb_left (10) (24/10) x hxa (by norm_num)) (by norm_num)
  have t8 := gauss1_far 2 (45/1000) (275/100) x _ (by norm_num) (by norm_num) (sq_lb_left (10) (275/100) x hxa (by norm_num)) (by norm_num)
  have t9 := gauss1_far_one (1/2) 3 x _ (by norm_num) (sq_lb_left (10) 3 x hxa (by norm_num)) (by norm_num)
  have t10 := gauss1_far 2 (32/100) 6 x _ (by norm_num) (by norm_num) (sq_lb_left (10) 6 x hxa (by norm_num)) (by norm_num)
  have t11 := gauss1_far (22/10) (18/100) 7 x _ (by norm_num) (by norm_num) (sq_lb_left (10) 7 x hxa (by norm_num)) (by norm_num)
  have t12 := gauss1_le (24/10) (1/2) 8 x _ _ (by norm_num) (by norm_num) (sq_lb_left (10) 8 x hxa (by norm_num))
    (exp_neg_le_of_poly 18 _ (21/62500) (by norm_num) (by norm_num [Finset.sum_range_succ, Nat.factorial]))
  have t13 := gauss1_le (23/10) (1/2) (95/10) x _ _ (by norm_num) (by norm_num) (sq_lb_left (10) (95/10) x hxa (by norm_num))
    (exp_neg_le_of_poly 7 _ (151633/250000) (by norm_num) (by norm_num [Finset.sum_range_succ, Nat.factorial]))
  have t14 := gauss1_le (32/10) (18/100) 11 x _ _ (by norm_num) (by norm_num) (sq_lb_right (21/2) 11 x hxb (by norm_num))
    (exp_neg_le_of_poly 10 _ (249353/1000000) (by norm_num) (by norm_num [Finset.sum_range_succ, Nat.factorial]))
  have t15 := gauss1_le (12/10) (18/100) 12 x _ _ (by norm_num) (by norm_num) (sq_lb_right (21/2) 12 x hxb (by norm_num))
    (exp_neg_le_of_poly 16 _ (1/200000) (by norm_num) (by norm_num [Finset.sum_range_succ, Nat.factorial]))
  linarith

theorem syn1_cell49 (x : ℝ) (hxa : (21/2) ≤ x) (hxb : x ≤ (43/4)) : synthetic1D x ≤ (3231 / 1000 : ℝ) := by
  rw [synthetic1D_at]
  have t1 := gauss1_far_one (1/2) 1 x _ (by norm_num) (sq_lb_left (21/2) 1 x hxa (by norm_num)) (by norm_num)
  have t2 := gauss1_far 2 (45/1000) (125/100) x _ (by norm_num) (by norm_num) (sq_lb_left (21/2) (125/100) x hxa (by norm_num)) (by norm_num)
  have t3 := gauss1_far (1/2) (128/10000) (15/10) x _ (by norm_num) (by norm_num) (sq_lb_left (21/2) (15/10) x hxa (by norm_num)) (by norm_num)
  have t4 := gauss1_far 2 (5/1000) (16/10) x _ (by norm_num) (by norm_num) (sq_lb_left (21/2) (16/10) x hxa (by norm_num)) (by norm_num)
  have t5 := gauss1_far (25/10) (2/100) (18/10) x _ (by norm_num) (by norm_num) (sq_lb_left (21/2) (18/10) x hxa (by norm_num)) (by norm_num)
  have t6 := gauss1_far (25/10) (2/100) (22/10) x _ (by norm_num) (by norm_num) (sq_lb_left (21/2) (22/10) x hxa (by norm_num)) (by norm_num)
  have t7 := gauss1_far 2 (5/1000) (24/10) x _ (by norm_num) (by norm_num) (sq_lb_left (21/2) (24/10) x hxa (by norm_num)) (by norm_num)
  have t8 := gauss1_far 2 (45/1000) (275/100) x _ (by norm_num) (by norm_num) (sq_lb_left (21/2) (275/100) x hxa (by norm_num)) (by norm_num)
  have t9 := gauss1_far_one (1/2) 3 x _ (by norm_num) (sq_lb_left (21/2) 3 x hxa (by norm_num)) (by norm_num)
  have t10 := gauss1_far 2 (32/100) 6 x _ (by norm_num) (by norm_num) (sq_lb_left (21/2) 6 x hxa (by norm_num)) (by norm_num)
  have t11 := gauss1_far (22/10) (18/100) 7 x _ (by norm_num) (by norm_num) (sq_lb_left (21/2) 7 x hxa (by norm_num)) (by norm_num)
  have t12 := gauss1_le (24/10) (1/2) 8 x _ _ (by norm_num) (by norm_num) (sq_lb_left (21/2) 8 x hxa (by norm_num))
    (exp_neg_le_of_poly 16 _ (1/200000) (by norm_num) (by norm_num [Finset.sum_range_succ, Nat.factorial]))
  have t13 := gauss1_le (23/10) (1/2) (95/10) x _ _ (by norm_num) (by norm_num) (sq_lb_left (21/2) (95/10) x hxa (by norm_num))
    (exp_neg_le_of_poly 12 _ (16917/125000) (by norm_num) (by norm_num [Finset.sum_range_succ, Nat.factorial]))
  have t14 := gauss1_le (32/10) (18/100) 11 x _ _ (by norm_num) (by norm_num) (sq_lb_right (43/4) 11 x hxb (by norm_num))
    (exp_neg_le_of_poly 6 _ (14133/20000) (by norm_num) (by norm_num [Finset.sum_range_succ, Nat.factorial]))
  have t15 := gauss1_le (12/10) (18/100) 12 x _ _ (by norm_num) (by norm_num) (sq_lb_right (43/4) 12 x hxb (by norm_num))
    (exp_neg_le_of_poly 18 _ (171/1000000) (by norm_num) (by norm_num [Finset.sum_range_succ, Nat.factorial]))
  linarith

theorem syn1_cell50 (x : ℝ) (hxa : (43/4) ≤ x) (hxb : x ≤ (87/8)) : synthetic1D x ≤ (3231 / 1000 : ℝ) := by
  rw [synthetic1D_at]
  have t1 := gauss1_far_one (1/2) 1 x _ (by norm_num) (sq_lb_left (43/4) 1 x hxa (by norm_num)) (by norm_num)
  have t2 := gauss1_far 2 (45/1000) (125/100) x _ (by norm_num) (by norm_num) (sq_lb_left (43/4) (125/100) x hxa (by norm_num)) (by norm_num)
  have t3 := gauss1_far (1/2) (128/10000) (15/10) x _ (by norm_num) (by norm_num) (sq_lb_left (43/4) (15/10) x hxa (by norm_num)) (by norm_num)
  have t4 := gauss1_far 2 (5/1000) (16/10) x _ (by norm_num) (by norm_num) (sq_lb_left (43/4) (16/10) x hxa (by norm_num)) (by norm_num)
  have t5 := gauss1_far (25/10) (2/100) (18/10) x _ (by norm_num) (by norm_num) (sq_lb_left (43/4) (18/10) x hxa (by norm_num)) (by norm_num)
  have t6 := gauss1_far (25/10) (2/100) (22/10) x _ (by norm_num) (by norm_num) (sq_lb_left (43/4) (22/10) x hxa (by norm_num)) (by norm_num)
  have t7 := gauss1_far 2 (5/1000) (24/10) x _ (by norm_num) (by norm_num) (sq_lb_left (43/4) (24/10) x hxa (by norm_num)) (by norm_num)
  have t8 := gauss1_far 2 (45/1000) (275/100) x _ (by norm_num) (by norm_num) (sq_lb_left (43/4) (275/100) x hxa (by norm_num)) (by norm_num)
  have t9 := gauss1_far_one (1/2) 3 x _ (by norm_num) (sq_lb_left (43/4) 3 x hxa (by norm_num)) (by norm_num)
  have t10 := gauss1_far 2 (32/100) 6 x _ (by norm_num) (by norm_num) (sq_lb_left (43/4) 6 x hxa (by norm_num)) (by norm_num)
  have t11 := gauss1_far (22/10) (18/100) 7 x _ (by norm_num) (by norm_num) (sq_lb_left (43/4) 7 x hxa (by norm_num)) (by norm_num)
  have t12 := gauss1_far (24/10) (1/2) 8 x _ (by norm_num) (by norm_num) (sq_lb_left (43/4) 8 x hxa (by norm_num)) (by norm_num)
  have t13 := gauss1_le (23/10) (1/2) (95/10) x _ _ (by norm_num) (by norm_num) (sq_lb_left (43/4) (95/10) x hxa (by norm_num))
    (exp_neg_le_of_poly 14 _ (21969/500000) (by norm_num) (by norm_num [Finset.sum_range_succ, Nat.factorial]))
  have t14 := gauss1_le (32/10) (18/100) 11 x _ _ (by norm_num) (by norm_num) (sq_lb_right (87/8) 11 x hxb (by norm_num))
    (exp_neg_le_of_poly 4 _ (458429/500000) (by norm_num) (by norm_num [Finset.sum_range_succ, Nat.factorial]))
  have t15 := gauss1_le (12/10) (18/100) 12 x _ _ (by norm_num) (by norm_num) (sq_lb_right (87/8) 12 x hxb (by norm_num))
    (exp_neg_le_of_poly 18 _ (177/200000) (by norm_num) (by norm_num [Finset.sum_range_succ, Nat.factorial]))
  linarith

theorem syn1_cell51 (x : ℝ) (hxa : (87/8) ≤ x) (hxb : x ≤ (175/16)) : synthetic1D x ≤ (3231 / 1000 : ℝ) := by
  rw [synthetic1D_at]
  have t1 := gauss1_far_one (1/2) 1 x _ (by norm_num) (sq_lb_left (87/8) 1 x hxa (by norm_num)) (by norm_num)
  have t2 := gauss1_far 2 (45/1000) (125/100) x _ (by norm_num) (by norm_num) (sq_lb_left (87/8) (125/100) x hxa (by norm_num)) (by norm_num)
  have t3 := gauss1_far (1/2) (128/10000) (15/10) x _ (by norm_num) (by norm_num) (sq_lb_left (87/8) (15/10) x hxa (by norm_num)) (by norm_num)
  have t4 := gauss1_far 2 (5/1000) (16/10) x _ (by norm_num) (by norm_num) (sq_lb_left (87/8) (16/10) x hxa (by norm_num)) (by norm_num)
  have t5 := gauss1_far (25/10) (2/100) (18/10) x _ (by norm_num) (by norm_num) (sq_lb_left (87/8) (18/10) x hxa (by norm_num)) (by norm_num)
  have t6 := gauss1_far (25/10) (2/100) (22/10) x _ (by norm_num) (by norm_num) (sq_lb_left (87/8) (22/10) x hxa (by norm_num)) (by norm_num)
  have t7 := gauss1_far 2 (5/1000) (24/10) x _ (by norm_num) (by norm_num) (sq_lb_left (87/8) (24/10) x hxa (by norm_num)) (by norm_num)
  have t8 := gauss1_far 2 (45/1000) (275/100) x _ (by norm_num) (by norm_num) (sq_lb_left (87/8) (275/100) x hxa (by norm_num)) (by norm_num)
  have t9 := gauss1_far_one (1/2) 3 x _ (by norm_num) (sq_lb_left (87/8) 3 x hxa (by norm_num)) (by norm_num)
  have t10 := gauss1_far 2 (32/100) 6 x _ (by norm_num) (by norm_num) (sq_lb_left (87/8) 6 x hxa (by norm_num)) (by norm_num)
  have t11 := gauss1_far (22/10) (18/100) 7 x _ (by norm_num) (by norm_num) (sq_lb_left (87/8) 7 x hxa (by norm_num)) (by norm_num)
  have t12 := gauss1_far (24/10) (1/2) 8 x _ (by norm_num) (by norm_num) (sq_lb_left (87/8) 8 x hxa (by norm_num)) (by norm_num)
  have t13 := gauss1_le (23/10) (1/2) (95/10) x _ _ (by norm_num) (by norm_num) (sq_lb_left (87/8) (95/10) x hxa (by norm_num))
    (exp_neg_le_of_poly 14 _ (5699/250000) (by norm_num) (by norm_num [Finset.sum_range_succ, Nat.factorial]))
  have t14 := gauss1_le (32/10) (18/100) 11 x _ _ (by norm_num) (by norm_num) (sq_lb_right (175/16) 11 x hxb (by norm_num))
    (exp_neg_le_of_poly 3 _ (195707/200000) (by norm_num) (by norm_num [Finset.sum_range_succ, Nat.factorial]))
  have t15 := gauss1_le (12/10) (18/100) 12 x _ _ (by norm_num) (by norm_num) (sq_lb_right (175/16) 12 x hxb (by norm_num))
    (exp_neg_le_of_poly 16 _ (1891/1000000) (by norm_num) (by norm_num [Finset.sum_range_succ, Nat.factorial]))
  linarith

theorem syn1_cell52 (x : ℝ) (hxa : (175/16) ≤ x) (hxb : x ≤ (351/32)) : synthetic1D x ≤ (3231 / 1000 : ℝ) := by
  rw [synthetic1D_at]
  have t1 := gauss1_far_one (1/2) 1 x _ (by norm_num) (sq_lb_left (175/16) 1 x hxa (by norm_num)) (by norm_num)
  have t2 := gauss1_far 2 (45/1000) (125/100) x _ (by norm_num) (by norm_num) (sq_lb_left (175/16) (125/100) x hxa (by norm_num)) (by norm_num)
  have t3 := gauss1_far (1/2) (128/10000) (15/10) x _ (by norm_num) (by norm_num) (sq_lb_left (175/16) (15/10) x hxa (by norm_num)) (by norm_num)
  have t4 := gauss1_far 2 (5/1000) (16/10) x _ (by norm_num) (by norm_num) (sq_lb_left (175/16) (16/10) x hxa (by norm_num)) (by norm_num)
  have t5 := gauss1_far (25/10) (2/100) (18/10) x _ (by norm_num) (by norm_num) (sq_lb_left (175/16) (18/10) x hxa (by norm_num)) (by norm_num)
  have t6 := gauss1_far (25/10) (2/100) (22/10) x _ (by norm_num) (by norm_num) (sq_lb_left (175/16) (22/10) x hxa (by norm_num)) (by norm_num)
  have t7 := gauss1_far 2 (5/1000) (24/10) x _ (by norm_num) (by norm_num) (sq_lb_left (175/16) (24/10) x hxa (by norm_num)) (by norm_num)
  have t8 := gauss1_far 2 (45/1000) (275/100) x _ (by norm_num) (by norm_num) (sq_lb_left (175/16) (275/100) x hxa (by norm_num)) (by norm_num)
  have t9 := gauss1_far_one (1/2) 3 x _ (by norm_num) (sq_lb_left (175/16) 3 x hxa (by norm_num)) (by norm_num)
  have t10 := gauss1_far 2 (32/100) 6 x _ (by norm_num) (by norm_num) (sq_lb_left (175/16) 6 x hxa (by norm_num)) (by norm_num)
  have t11 := gauss1_far (22/10) (18/100) 7 x _ (by norm_num) (by norm_num) (sq_lb_left (175/16) 7 x hxa (by norm_num)) (by norm_num)
  have t12 := gauss1_far (24/10) (1/2) 8 x _ (by norm_num) (by norm_num) (sq_lb_left (175/16) 8 x hxa (by norm_num)) (by norm_num)
  have t13 := gauss1_le (23/10) (1/2) (95/10) x _ _ (by norm_num) (by norm_num) (sq_lb_left (175/16) (95/10) x hxa (by norm_num))
    (exp_neg_le_of_poly 16 _ (8019/500000) (by norm_num) (by norm_num [Finset.sum_range_succ, Nat.factorial]))
  have t14 := gauss1_le (32/10) (18/100) 11 x _ _ (by norm_num) (by norm_num) (sq_lb_right (351/32) 11 x hxb (by norm_num))
    (exp_neg_le_of_poly 3 _ (99459/100000) (by norm_num) (by norm_num [Finset.sum_range_succ, Nat.factorial]))
  have t15 := gauss1_le (12/10) (18/100) 12 x _ _ (by norm_num) (by norm_num) (sq_lb_right (351/32) 12 x hxb (by norm_num))
    (exp_neg_le_of_poly 16 _ (2719/1000000) (by norm_num) (by norm_num [Finset.sum_range_succ, Nat.factorial]))
  linarith

theorem syn1_cell53 (x : ℝ) (hxa : (351/32) ≤ x) (hxb : x ≤ (703/64)) : synthetic1D x ≤ (3231 / 1000 : ℝ) := by
  rw [synthetic1D_at]
  have t1 := gauss1_far_one (1/2) 1 x _ (by norm_num) (sq_lb_left (351/32) 1 x hxa (by norm_num)) (by norm_num)
  have t2 := gauss1_far 2 (45/1000) (125/100) x _ (by norm_num) (by norm_num) (sq_lb_left (351/32) (125/100) x hxa (by norm_num)) (by norm_num)
  have t3 := gauss1_far (1/2) (128/10000) (15/10) x _ (by norm_num) (by norm_num) (sq_lb_left (351/32) (15/10) x hxa (by norm_num)) (by norm_num)
  have t4 := gauss1_far 2 (5/1000) (16/10) x _ (by norm_num) (by norm_num) (sq_lb_left (351/32) (16/10) x hxa (by norm_num)) (by norm_num)
  have t5 := gauss1_far (25/10) (2/100) (18/10) x _ (by norm_num) (by norm_num) (sq_lb_left (351/32) (18/10) x hxa (by norm_num)) (by norm_num)
  have t6 := gauss1_far (25/10) (2/100) (22/10) x _ (by norm_num) (by norm_num) (sq_lb_left (351/32) (22/10) x hxa (by norm_num)) (by norm_num)
  have t7 := gauss1_far 2 (5/1000) (24/10) x _ (by norm_num) (by norm_num) (sq_lb_left (351/32) (24/10) x hxa (by norm_num)) (by norm_num)
  have t8 := gauss1_far 2 (45/1000) (275/100) x _ (by norm_num) (by norm_num) (sq_lb_left (351/32) (275/100) x hxa (by norm_num)) (by norm_num)
  have t9 := gauss1_far_one (1/2) 3 x _ (by norm_num) (sq_lb_left (351/32) 3 x hxa (by norm_num)) (by norm_num)
  have t10 := gauss1_far 2 (32/100) 6 x _ (by norm_num) (by norm_num) (sq_lb_left (351/32) 6 x hxa (by norm_num)) (by norm_num)
  have t11 := gauss1_far (22/10) (18/100) 7 x _ (by norm_num) (by norm_num) (sq_lb_left (351/32) 7 x hxa (by norm_num)) (by norm_num)
  have t12 := gauss1_far (24/10) (1/2) 8 x _ (by norm_num) (by norm_num) (sq_lb_left (351/32) 8 x hxa (by norm_num)) (by norm_num)
  have t13 := gauss1_le (23/10) (1/2) (95/10) x _ _ (by norm_num) (by norm_num) (sq_lb_left (351/32) (95/10) x hxa (by norm_num))
    (exp_neg_le_of_poly 16 _ (107/8000) (by norm_num) (by norm_num [Finset.sum_range_succ, Nat.factorial]))
  have t14 := gauss1_le (32/10) (18/100) 11 x _ _ (by norm_num) (by norm_num) (sq_lb_right (703/64) 11 x hxb (by norm_num))
    (exp_neg_le_of_poly 2 _ (499323/500000) (by norm_num) (by norm_num [Finset.sum_range_succ, Nat.factorial]))
  have t15 := gauss1_le (12/10) (18/100) 12 x _ _ (by norm_num) (by norm_num) (sq_lb_right (703/64) 12 x hxb (by norm_num))
    (exp_neg_le_of_poly 16 _ (3247/1000000) (by norm_num) (by norm_num [Finset.sum_range_succ, Nat.factorial]))
  linarith

theorem syn1_cell54 (x : ℝ) (hxa : (703/64) ≤ x) (hxb : x ≤ (2813/256)) : synthetic1D x ≤ (3231 / 1000 : ℝ) := by
  rw [synthetic1D_at]
  have t1 := gauss1_far_one (1/2) 1 x _ (by norm_num) (sq_lb_left (703/64) 1 x hxa (by norm_num)) (by norm_num)
  have t2 := gauss1_far 2 (45/1000) (125/100) x _ (by norm_num) (by norm_num) (sq_lb_left (703/64) (125/100) x hxa (by norm_num)) (by norm_num)
  have t3 := gauss1_far (1/2) (128/10000) (15/10) x _ (by norm_num) (by norm_num) (sq_lb_left (703/64) (15/10) x hxa (by norm_num)) (by norm_num)
  have t4 := gauss1_far 2 (5/1000) (16/10) x _ (by norm_num) (by norm_num) (sq_lb_left (703/64) (16/10) x hxa (by norm_num)) (by norm_num)
  have t5 := gauss1_far (25/10) (2/100) (18/10) x _ (by norm_num) (by norm_num) (sq_lb_left (703/64) (18/10) x hxa (by norm_num)) (by norm_num)
  have t6 := gauss1_far (25/10) (2/100) (22/10) x _ (by norm_num) (by norm_num) (sq_lb_left (703/64) (22/10) x hxa (by norm_num)) (by norm_num)
  have t7 := gauss1_far 2 (5/1000) (24/10) x _ (by norm_num) (by norm_num) (sq_lb_left (703/64) (24/10) x hxa (by norm_num)) (by norm_num)
  have t8 := gauss1_far 2 (45/1000) (275/100) x _ (by norm_num) (by norm_num) (sq_lb_left (703/64) (275/100) x hxa (by norm_num)) (by norm_num)
  have t9 := gauss1_far_one (1/2) 3 x _ (by norm_num) (sq_lb_left (703/64) 3 x hxa (by norm_num)) (by norm_num)
  have t10 := gauss1_far 2 (32/100) 6 x _ (by norm_num) (by norm_num) (sq_lb_left (703/64) 6 x hxa (by norm_num)) (by norm_num)
  have t11 := gauss1_far (22/10) (18/100) 7 x _ (by norm_num) (by norm_num) (sq_lb_left (703/64) 7 x hxa (by norm_num)) (by norm_num)
  have t12 := gauss1_far (24/10) (1/2) 8 x _ (by norm_num) (by norm_num) (sq_lb_left (703/64) 8 x hxa (by norm_num)) (by norm_num)
  have t13 := gauss1_le (23/10) (1/2) (95/10) x _ _ (by norm_num) (by norm_num) (sq_lb_left (703/64) (95/10) x hxa (by norm_num))
    (exp_neg_le_of_poly 16 _ (3049/250000) (by norm_num) (by norm_num [Finset.sum_range_succ, Nat.factorial]))
  have t14 := gauss1_le (32/10) (18/100) 11 x _ _ (by norm_num) (by norm_num) (sq_lb_right (2813/256) 11 x hxb (by norm_num))
    (exp_neg_le_of_poly 2 _ (499619/500000) (by norm_num) (by norm_num [Finset.sum_range_succ, Nat.factorial]))
  have t15 := gauss1_le (12/10) (18/100) 12 x _ _ (by norm_num) (by norm_num) (sq_lb_right (2813/256) 12 x hxb (by norm_num))
    (exp_neg_le_of_poly 16 _ (3393/1000000) (by norm_num) (by norm_num [Finset.sum_range_succ, Nat.factorial]))
  linarith

theorem syn1_cell55 (x : ℝ) (hxa : (2813/256) ≤ x) (hxb : x ≤ (1407/128)) : synthetic1D x ≤ (3231 / 1000 : ℝ) := by
  rw [synthetic1D_at]
  have t1 := gauss1_far_one (1/2) 1 x _ (by norm_num) (sq_lb_left (2813/256) 1 x hxa (by norm_num)) (by norm_num)
  have t2 := gauss1_far 2 (45/1000) (125/100) x _ (by norm_num) (by norm_num) (sq_lb_left (2813/256) (125/100) x hxa (by norm_num)) (by norm_num)
  have t3 := gauss1_far (1/2) (128/10000) (15/10) x _ (by norm_num) (by norm_num) (sq_lb_left (2813/256) (15/10) x hxa (by norm_num)) (by norm_num)
  have t4 := gauss1_far 2 (5/1000) (16/10) x _ (by norm_num) (by norm_num) (sq_lb_left (2813/256) (16/10) x hxa (by norm_num)) (by norm_num)
  have t5 := gauss1_far (25/10) (2/100) (18/10) x _ (by norm_num) (by norm_num) (sq_lb_left (2813/256) (18/10) x hxa (by norm_num)) (by norm_num)
  have t6 := gauss1_far (25/10) (2/100) (22/10) x _ (by norm_num) (by norm_num) (sq_lb_left (2813/256) (22/10) x hxa (by norm_num)) (by norm_num)
  have t7 := gauss1_far 2 (5/1000) (24/10) x _ (by norm_num) (by norm_num) (sq_lb_left (2813/256) (24/10) x hxa (by norm_num)) (by norm_num)
  have t8 := gauss1_far 2 (45/1000) (275/100) x _ (by norm_num) (by norm_num) (sq_lb_left (2813/256) (275/100) x hxa (by norm_num)) (by norm_num)
  have t9 := gauss1_far_one (1/2) 3 x _ (by norm_num) (sq_lb_left (2813/256) 3 x hxa (by norm_num)) (by norm_num)
  have t10 := gauss1_far 2 (32/100) 6 x _ (by norm_num) (by norm_num) (sq_lb_left (2813/256) 6 x hxa (by norm_num)) (by norm_num)
  have t11 := gauss1_far (22/10) (18/100) 7 x _ (by norm_num) (by norm_num) (sq_lb_left (2813/256) 7 x hxa (by norm_num)) (by norm_num)
  have t12 := gauss1_far (24/10) (1/2) 8 x _ (by norm_num) (by norm_num) (sq_lb_left (2813/256) 8 x hxa (by norm_num)) (by norm_num)
  have t13 := gauss1_le (23/10) (1/2) (95/10) x _ _ (by norm_num) (by norm_num) (sq_lb_left (2813/256) (95/10) x hxa (by norm_num))
    (exp_neg_le_of_poly 16 _ (2979/250000) (by norm_num) (by norm_num [Finset.sum_range_succ, Nat.factorial]))
  have t14 := gauss1_le (32/10) (18/100) 11 x _ _ (by norm_num) (by norm_num) (sq_lb_right (1407/128) 11 x hxb (by norm_num))
    (exp_neg_le_of_poly 2 _ (499831/500000) (by norm_num) (by norm_num [Finset.sum_range_succ, Nat.factorial]))
  have t15 := gauss1_le (12/10) (18/100) 12 x _ _ (by norm_num) (by norm_num) (sq_lb_right (1407/128) 12 x hxb (by norm_num))
    (exp_neg_le_of_poly 16 _ (709/200000) (by norm_num) (by norm_num [Finset.sum_range_succ, Nat.factorial]))
  linarith

theorem syn1_node44 (x : ℝ) (hxa : (703/64) ≤ x) (hxb : x ≤ (1407/128)) : synthetic1D x ≤ (3231 / 1000 : ℝ) := by
  rcases le_total x (2813/256) with h | h
  · exact syn1_cell54 x hxa h
  · exact syn1_cell55 x h hxb

theorem syn1_cell56 (x : ℝ) (hxa : (1407/128) ≤ x) (hxb : x ≤ (2815/256)) : synthetic1D x ≤ (3231 / 1000 : ℝ) := by
  rw [synthetic1D_at]
  have t1 := gauss1_far_one (1/2) 1 x _ (by norm_num) (sq_lb_left (1407/128) 1 x hxa (by norm_num)) (by norm_num)
  have t2 := gauss1_far 2 (45/1000) (125/100) x _ (by norm_num) (by norm_num) (sq_lb_left (1407/128) (125/100) x hxa (by norm_num)) (by norm_num)
  have t3 := gauss1_far (1/2) (128/10000) (15/10) x _ (by norm_num) (by norm_num) (sq_lb_left (1407/128) (15/10) x hxa (by norm_num)) (by norm_num)
  have t4 := gauss1_far 2 (5/1000) (16/10) x _ (by norm_num) (by norm_num) (sq_lb_left (1407/128) (16/10) x hxa (by norm_num)) (by norm_num)
  have t5 := gauss1_far (25/10) (2/100) (18/10) x _ (by norm_num) (by norm_num) (sq_lb_left (1407/128) (18/10) x hxa (by norm_num)) (by norm_num)
  have t6 := gauss1_far (25/10) (2/100) (22/10) x _ (by norm_num) (by norm_num) (sq_lb_left (1407/128) (22/10) x hxa (by norm_num)) (by norm_num)
  have t7 := gauss1_far 2 (5/1000) (24/10) x _ (by norm_num) (by norm_num) (sq_lb_left (1407/128) (24/10) x hxa (by norm_num)) (by norm_num)
  have t8 := gauss1_far 2 (45/1000) (275/100) x _ (by norm_num) (by norm_num) (sq_lb_left (1407/128) (275/100) x hxa (by norm_num)) (by norm_num)
  have t9 := gauss1_far_one (1/2) 3 x _ (by norm_num) (sq_lb_left (1407/128) 3 x hxa (by norm_num)) (by norm_num)
  have t10 := gauss1_far 2 (32/100) 6 x _ (by norm_num) (by norm_num) (sq_lb_left (1407/128) 6 x hxa (by norm_num)) (by norm_num)
  have t11 := gauss1_far (22/10) (18/100) 7 x _ (by norm_num) (by norm_num) (sq_lb_left (1407/128) 7 x hxa (by norm_num)) (by norm_num)
  have t12 := gauss1_far (24/10) (1/2) 8 x _ (by norm_num) (by norm_num) (sq_lb_left (1407/128) 8 x hxa (by norm_num)) (by norm_num)
  have t13 := gauss1_le (23/10) (1/2) (95/10) x _ _ (by norm_num) (by norm_num) (sq_lb_left (1407/128) (95/10) x hxa (by norm_num))
    (exp_neg_le_of_poly 16 _ (11641/1000000) (by norm_num) (by norm_num [Finset.sum_range_succ, Nat.factorial]))
  have t14 := gauss1_le (32/10) (18/100) 11 x _ _ (by norm_num) (by norm_num) (sq_lb_right (2815/256) 11 x hxb (by norm_num))
    (exp_neg_le_of_poly 2 _ (249979/250000) (by norm_num) (by norm_num [Finset.sum_range_succ, Nat.factorial]))
  have t15 := gauss1_le (12/10) (18/100) 12 x _ _ (by norm_num) (by norm_num) (sq_lb_right (2815/256) 12 x hxb (by norm_num))
    (exp_neg_le_of_poly 16 _ (3703/1000000) (by norm_num) (by norm_num [Finset.sum_range_succ, Nat.factorial]))
  linarith

theorem syn1_cell57 (x : ℝ) (hxa : (2815/256) ≤ x) (hxb : x ≤ (11)) : synthetic1D x ≤ (3231 / 1000 : ℝ) := by
  rw [synthetic1D_at]
  have t1 := gauss1_far_one (1/2) 1 x _ (by norm_num) (sq_lb_left (2815/256) 1 x hxa (by norm_num)) (by norm_num)
  have t2 := gauss1_far 2 (45/1000) (125/100) x _ (by norm_num) (by norm_num) (sq_lb_left (2815/256) (125/100) x hxa (by norm_num)) (by norm_num)
  have t3 := gauss1_far (1/2) (128/10000) (15/10) x _ (by norm_num) (by norm_num) (sq_lb_left (2815/256) (15/10) x hxa (by norm_num)) (by norm_num)
  have t4 := gauss1_far 2 (5/1000) (16/10) x _ (by norm_num) (by norm_num) (sq_lb_left (2815/256) (16/10) x hxa (by norm_num)) (by norm_num)
  have t5 := gauss1_far (25/10) (2/100) (18/10) x _ (by norm_num) (by norm_num) (sq_lb_left (2815/256) (18/10) x hxa (by norm_num)) (by norm_num)
  have t6 := gauss1_far (25/10) (2/100) (22/10) x _ (by norm_num) (by norm_num) (sq_lb_left (2815/256) (22/10) x hxa (by norm_num)) (by norm_num)
  have t7 := gauss1_far 2 (5/1000) (24/10) x _ (by norm_num) (by norm_num) (sq_lb_left (2815/256) (24/10) x hxa (by norm_num)) (by norm_num)
  have t8 := gauss1_far 2 (45/1000) (275/100) x _ (by norm_num) (by norm_num) (sq_lb_left (2815/256) (275/100) x hxa (by norm_num)) (by norm_num)
  have t9 := gauss1_far_one (1/2) 3 x _ (by norm_num) (sq_lb_left (2815/256) 3 x hxa (by norm_num)) (by norm_num)
  have t10 := gauss1_far 2 (32/100) 6 x _ (by norm_num) (by norm_num) (sq_lb_left (2815/256) 6 x hxa (by norm_num)) (by norm_num)
  have t11 := gauss1_far (22/10) (18/100) 7 x _ (by norm_num) (by norm_num) (sq_lb_left (2815/256) 7 x hxa (by norm_num)) (by norm_num)
  have t12 := gauss1_far (24/10) (1/2) 8 x _ (by norm_num) (by norm_num) (sq_lb_left (2815/256) 8 x hxa (by norm_num)) (by norm_num)
  have t13 := gauss1_le (23/10) (1/2) (95/10) x _ _ (by norm_num) (by norm_num) (sq_lb_left (2815/256) (95/10) x hxa (by norm_num))
    (exp_neg_le_of_poly 16 _ (11373/1000000) (by norm_num) (by norm_num [Finset.sum_range_succ, Nat.factorial]))
  have t14 := gauss1_le (32/10) (18/100) 11 x _ _ (by norm_num) (by norm_num) (sq_lb_right (11) 11 x hxb (by norm_num))
    (exp_neg_le_of_poly 1 _ (1) (by norm_num) (by norm_num [Finset.sum_range_succ, Nat.factorial]))
  have t15 := gauss1_le (12/10) (18/100) 12 x _ _ (by norm_num) (by norm_num) (sq_lb_right (11) 12 x hxb (by norm_num))
    (exp_neg_le_of_poly 16 _ (3867/1000000) (by norm_num) (by norm_num [Finset.sum_range_succ, Nat.factorial]))
  linarith

theorem syn1_node45 (x : ℝ) (hxa : (1407/128) ≤ x) (hxb : x ≤ (11)) : synthetic1D x ≤ (3231 / 1000 : ℝ) := by
  rcases le_total x (2815/256) with h | h
  · exact syn1_cell56 x hxa h
  · exact syn1_cell57 x h hxb

theorem syn1_node46 (x : ℝ) (hxa : (703/64) ≤ x) (hxb : x ≤ (11)) : synthetic1D x ≤ (3231 / 1000 : ℝ) := by
  rcases le_total x (1407/128) with h | h
  · exact syn1_node44 x hxa h
  · exact syn1_node45 x h hxb

theorem syn1_node47 (x : ℝ) (hxa : (351/32) ≤ x) (hxb : x ≤ (11)) : synthetic1D x ≤ (3231 / 1000 : ℝ) := by
  rcases le_total x (703/64) with h | h
  · exact syn1_cell53 x hxa h
  · exact syn1_node46 x h hxb

theorem syn1_node48 (x : ℝ) (hxa : (175/16) ≤ x) (hxb : x ≤ (11)) : synthetic1D x ≤ (3231 / 1000 : ℝ) := by
  rcases le_total x (351/32) with h | h
  · exact syn1_cell52 x hxa h
  · exact syn1_node47 x h hxb

theorem syn1_node49 (x : ℝ) (hxa : (87/8) ≤ x) (hxb : x ≤ (11)) : synthetic1D x ≤ (3231 / 1000 : ℝ) := by
  rcases le_total x (175/16) with h | h
  · exact syn1_cell51 x hxa h
  · exact syn1_node48 x h hxb

theorem syn1_node50 (x : ℝ) (hxa : (43/4) ≤ x) (hxb : x ≤ (11)) : synthetic1D x ≤ (3231 / 1000 : ℝ) := by
  rcases le_total x (87/8) with h | h
  · exact syn1_cell50 x hxa h
  · exact syn1_node49 x h hxb

theorem syn1_node51 (x : ℝ) (hxa : (21/2) ≤ x) (hxb : x ≤ (11)) : synthetic1D x ≤ (3231 / 1000 : ℝ) := by
  rcases le_total x (43/4) with h | h
  · exact syn1_cell49 x hxa h
  · exact syn1_node50 x h hxb

theorem syn1_node52 (x : ℝ) (hxa : (10) ≤ x) (hxb : x ≤ (11)) : synthetic1D x ≤ (3231 / 1000 : ℝ) := by
  rcases le_total x (21/2) with h | h
  · exact syn1_cell48 x hxa h
  · exact syn1_node51 x h hxb

theorem syn1_node53 (x : ℝ) (hxa : (9) ≤ x) (hxb : x ≤ (11)) : synthetic1D x ≤ (3231 / 1000 : ℝ) := by
  rcases le_total x (10) with h | h
  · exact syn1_cell47 x hxa h
  · exact syn1_node52 x h hxb

theorem syn1_node54 (x : ℝ) (hxa : (7) ≤ x) (hxb : x ≤ (11)) : synthetic1D x ≤ (3231 / 1000 : ℝ) := by
  rcases le_total x (9) with h | h
  · exact syn1_node43 x hxa h
  · exact syn1_node53 x h hxb

theorem syn1_cell58 (x : ℝ) (hxa : (11) ≤ x) (hxb : x ≤ (1409/128)) : synthetic1D x ≤ (3231 / 1000 : ℝ) := by
  rw [synthetic1D_at]
  have t1 := gauss1_far_one (1/2) 1 x _ (by norm_num) (sq_lb_left (11) 1 x hxa (by norm_num)) (by norm_num)
  have t2 := gauss1_far 2 (45/1000) (125/100) x _ (by norm_num) (by norm_num) (sq_lb_left (11) (125/100) x hxa (by norm_num)) (by norm_num)
  have t3 := gauss1_far (1/2) (128/10000) (15/10) x _ (by norm_num) (by norm_num) (sq_lb_left (11) (15/10) x hxa (by norm_num)) (by norm_num)
  have t4 := gauss1_far 2 (5/1000) (16/10) x _ (by norm_num) (by norm_num) (sq_lb_left (11) (16/10) x hxa (by norm_num)) (by norm_num)
  have t5 := gauss1_far (25/10) (2/100) (18/10) x _ (by norm_num) (by norm_num) (sq_lb_left (11) (18/10) x hxa (by norm_num)) (by norm_num)
  have t6 := gauss1_far (25/10) (2/100) (22/10) x _ (by norm_num) (by norm_num) (sq_lb_left (11) (22/10) x hxa (by norm_num)) (by norm_num)
  have t7 := gauss1_far 2 (5/1000) (24/10) x _ (by norm_num) (by norm_num) (sq_lb_left (11) (24/10) x hxa (by norm_num)) (by norm_num)
  have t8 := gauss1_far 2 (45/1000) (275/100) x _ (by norm_num) (by norm_num) (sq_lb_left (11) (275/100) x hxa (by norm_num)) (by norm_num)
  have t9 := gauss1_far_one (1/2) 3 x _ (by norm_num) (sq_lb_left (11) 3 x hxa (by norm_num)) (by norm_num)
  have t10 := gauss1_far 2 (32/100) 6 x _ (by norm_num) (by norm_num) (sq_lb_left (11) 6 x hxa (by norm_num)) (by norm_num)
  have t11 := gauss1_far (22/10) (18/100) 7 x _ (by norm_num) (by norm_num) (sq_lb_left (11) 7 x hxa (by norm_num)) (by norm_num)
  have t12 := gauss1_far (24/10) (1/2) 8 x _ (by norm_num) (by norm_num) (sq_lb_left (11) 8 x hxa (by norm_num)) (by norm_num)
  have t13 := gauss1_le (23/10) (1/2) (95/10) x _ _ (by norm_num) (by norm_num) (sq_lb_left (11) (95/10) x hxa (by norm_num))
    (exp_neg_le_of_poly 16 _ (1111/100000) (by norm_num) (by norm_num [Finset.sum_range_succ, Nat.factorial]))
  have t14 := gauss1_le (32/10) (18/100) 11 x _ _ (by norm_num) (by norm_num) (sq_lb_left (11) 11 x hxa (by norm_num))
    (exp_neg_le_of_poly 1 _ (1) (by norm_num) (by norm_num [Finset.sum_range_succ, Nat.factorial]))
  have t15 := gauss1_le (12/10) (18/100) 12 x _ _ (by norm_num) (by norm_num) (sq_lb_right (1409/128) 12 x hxb (by norm_num))
    (exp_neg_le_of_poly 16 _ (527/125000) (by norm_num) (by norm_num [Finset.sum_range_succ, Nat.factorial]))
  linarith

theorem syn1_cell59 (x : ℝ) (hxa : (1409/128) ≤ x) (hxb : x ≤ (705/64)) : synthetic1D x ≤ (3231 / 1000 : ℝ) := by
  rw [synthetic1D_at]
  have t1 := gauss1_far_one (1/2) 1 x _ (by norm_num) (sq_lb_left (1409/128) 1 x hxa (by norm_num)) (by norm_num)
  have t2 := gauss1_far 2 (45/1000) (125/100) x _ (by norm_num) (by norm_num) (sq_lb_left (1409/128) (125/100) x hxa (by norm_num)) (by norm_num)
  have t3 := gauss1_far (1/2) (128/10000) (15/10) x _ (by norm_num) (by norm_num) (sq_lb_left (1409/128) (15/10) x hxa (by norm_num)) (by norm_num)
  have t4 := gauss1_far 2 (5/1000) (16/10) x _ (by norm_num) (by norm_num) (sq_lb_left (1409/128) (16/10) x hxa (by norm_num)) (by norm_num)
  have t5 := gauss1_far (25/10) (2/100) (18/10) x _ (by norm_num) (by norm_num) (sq_lb_left (1409/128) (18/10) x hxa (by norm_num)) (by norm_num)
  have t6 := gauss1_far (25/10) (2/100) (22/10) x _ (by norm_num) (by norm_num) (sq_lb_left (1409/128) (22/10) x hxa (by norm_num)) (by norm_num)
  have t7 := gauss1_far 2 (5/1000) (24/10) x _ (by norm_num) (by norm_num) (sq_lb_left (1409/128) (24/10) x hxa (by norm_num)) (by norm_num)
  have t8 := gauss1_far 2 (45/1000) (275/100) x _ (by norm_num) (by norm_num) (sq_lb_left (1409/128) (275/100) x hxa (by norm_num)) (by norm_num)
  have t9 := gauss1_far_one (1/2) 3 x _ (by norm_num) (sq_lb_left (1409/128) 3 x hxa (by norm_num)) (by norm_num)
  have t10 := gauss1_far 2 (32/100) 6 x _ (by norm_num) (by norm_num) (sq_lb_left (1409/128) 6 x hxa (by norm_num)) (by norm_num)
  have t11 := gauss1_far (22/10) (18/100) 7 x _ (by norm_num) (by norm_num) (sq_lb_left (1409/128) 7 x hxa (by norm_num)) (by norm_num)
  have t12 := gauss1_far (24/10) (1/2) 8 x _ (by norm_num) (by norm_num) (sq_lb_left (1409/128) 8 x hxa (by norm_num)) (by norm_num)
  have t13 := gauss1_le (23/10) (1/2) (95/10) x _ _ (by norm_num) (by norm_num) (sq_lb_left (1409/128) (95/10) x hxa (by norm_num))
    (exp_neg_le_of_poly 16 _ (53/5000) (by norm_num) (by norm_num [Finset.sum_range_succ, Nat.factorial]))
  have t14 := gauss1_le (32/10) (18/100) 11 x _ _ (by norm_num) (by norm_num) (sq_lb_left (1409/128) 11 x hxa (by norm_num))
    (exp_neg_le_of_poly 2 _ (499831/500000) (by norm_num) (by norm_num [Finset.sum_range_succ, Nat.factorial]))
  have t15 := gauss1_le (12/10) (18/100) 12 x _ _ (by norm_num) (by norm_num) (sq_lb_right (705/64) 12 x hxb (by norm_num))
    (exp_neg_le_of_poly 16 _ (2297/500000) (by norm_num) (by norm_num [Finset.sum_range_succ, Nat.factorial]))
  linarith

theorem syn1_node55 (x : ℝ) (hxa : (11) ≤ x) (hxb : x ≤ (705/64)) : synthetic1D x ≤ (3231 / 1000 : ℝ) := by
  rcases le_total x (1409/128) with h | h
  · exact syn1_cell58 x hxa h
  · exact syn1_cell59 x h hxb

theorem syn1_cell60 (x : ℝ) (hxa : (705/64) ≤ x) (hxb : x ≤ (353/32)) : synthetic1D x ≤ (3231 / 1000 : ℝ) := by
  rw [synthetic1D_at]
  have t1 := gauss1_far_one (1/2) 1 x _ (by norm_num) (sq_lb_left (705/64) 1 x hxa (by norm_num)) (by norm_num)
  have t2 := gauss1_far 2 (45/1000) (125/100) x _ (by norm_num) (by norm_num) (sq_lb_left (705/64) (125/100) x hxa (by norm_num)) (by norm_num)
  have t3 := gauss1_far (1/2) (128/10000) (15/10) x _ (by norm_num) (by norm_num) (sq_lb_left (705/64) (15/10) x hxa (by norm_num)) (by norm_num)
  have t4 := gauss1_far 2 (5/1000) (16/10) x _ (by norm_num) (by norm_num) (sq_lb_left (705/64) (16/10) x hxa (by norm_num)) (by norm_num)
  have t5 := gauss1_far (25/10) (2/100) (18/10) x _ (by norm_num) (by norm_num) (sq_lb_left (705/64) (18/10) x hxa (by norm_num)) (by norm_num)
  have t6 := gauss1_far (25/10) (2/100) (22/10) x _ (by norm_num) (by norm_num) (sq_lb_left (705/64) (22/10) x hxa (by norm_num)) (by norm_num)
  have t7 := gauss1_far 2 (5/1000) (24/10) x _ (by norm_num) (by norm_num) (sq_lb_left (705/64) (24/10) x hxa (by norm_num)) (by norm_num)
  have t8 := gauss1_far 2 (45/1000) (275/100) x _ (by norm_num) (by norm_num) (sq_lb_left (705/64) (275/100) x hxa (by norm_num)) (by norm_num)
  have t9 := gauss1_far_one (1/2) 3 x _ (by norm_num) (sq_lb_left (705/64) 3 x hxa (by norm_num)) (by norm_num)
  have t10 := gauss1_far 2 (32/100) 6 x _ (by norm_num) (by norm_num) (sq_lb_left (705/64) 6 x hxa (by norm_num)) (by norm_num)
  have t11 := gauss1_far (22/10) (18/100) 7 x _ (by norm_num) (by norm_num) (sq_lb_left (705/64) 7 x hxa (by norm_num)) (by norm_num)
  have t12 := gauss1_far (24/10) (1/2) 8 x _ (by norm_num) (by norm_num) (sq_lb_left (705/64) 8 x hxa (by norm_num)) (by norm_num)
  have t13 := gauss1_le (23/10) (1/2) (95/10) x _ _ (by norm_num) (by norm_num) (sq_lb_left (705/64) (95/10) x hxa (by norm_num))
    (exp_neg_le_of_poly 16 _ (10111/1000000) (by norm_num) (by norm_num [Finset.sum_range_succ, Nat.factorial]))
  have t14 := gauss1_le (32/10) (18/100) 11 x _ _ (by norm_num) (by norm_num) (sq_lb_left (705/64) 11 x hxa (by norm_num))
    (exp_neg_le_of_poly 2 _ (499323/500000) (by norm_num) (by norm_num [Finset.sum_range_succ, Nat.factorial]))
  have t15 := gauss1_le (12/10) (18/100) 12 x _ _ (by norm_num) (by norm_num) (sq_lb_right (353/32) 12 x hxb (by norm_num))
    (exp_neg_le_of_poly 16 _ (2721/500000) (by norm_num) (by norm_num [Finset.sum_range_succ, Nat.factorial]))
  linarith

theorem syn1_node56 (x : ℝ) (hxa : (11) ≤ x) (hxb : x ≤ (353/32)) : synthetic1D x ≤ (3231 / 1000 : ℝ) := by
  rcases le_total x (705/64) with h | h
  · exact syn1_node55 x hxa h
  · exact syn1_cell60 x h hxb

theorem syn1_cell61 (x : ℝ) (hxa : (353/32) ≤ x) (hxb : x ≤ (177/16)) : synthetic1D x ≤ (3231 / 1000 : ℝ) := by
  rw [synthetic1D_at]
  have t1 := gauss1_far_one (1/2) 1 x _ (by norm_num) (sq_lb_left (353/32) 1 x hxa (by norm_num)) (by norm_num)
  have t2 := gauss1_far 2 (45/1000) (125/100) x _ (by norm_num) (by norm_num) (sq_lb_left (353/32) (125/100) x hxa (by norm_num)) (by norm_num)
  have t3 := gauss1_far (1/2) (128/10000) (15/10) x _ (by norm_num) (by norm_num) (sq_lb_left (353/32) (15/10) x hxa (by norm_num)) (by norm_num)
  have t4 := gauss1_far 2 (5/1000) (16/10) x _ (by norm_num) (by norm_num) (sq_lb_left (353/32) (16/10) x hxa (by norm_num)) (by norm_num)
  have t5 := gauss1_far (25/10) (2/100) (18/10) x _ (by norm_num) (by norm_num) (sq_lb_left (353/32) (18/10) x hxa (by norm_num)) (by norm_num)
  have t6 := gauss1_far (25/10) (2/100) (22/10) x _ (by norm_num) (by norm_num) (sq_lb_left (353/32) (22/10) x hxa (by norm_num)) (by norm_num)
  have t7 := gauss1_far 2 (5/1000) (24/10) x _ (by norm_num) (by norm_num) (sq_lb_left (353/32) (24/10) x hxa (by norm_num)) (by norm_num)
  have t8 := gauss1_far 2 (45/1000) (275/100) x _ (by norm_num) (by norm_num) (sq_lb_left (353/32) (275/100) x hxa (by norm_num)) (by norm_num)
  have t9 := gauss1_far_one (1/2) 3 x _ (by norm_num) (sq_lb_left (353/32) 3 x hxa (by norm_num)) (by norm_num)
  have t10 := gauss1_far 2 (32/100) 6 x _ (by norm_num) (by norm_num) (sq_lb_left (353/32) 6 x hxa (by norm_num)) (by norm_num)
  have t11 := gauss1_far (22/10) (18/100) 7 x _ (by norm_num) (by norm_num) (sq_lb_left (353/32) 7 x hxa (by norm_num)) (by norm_num)
  have t12 := gauss1_far (24/10) (1/2) 8 x _ (by norm_num) (by norm_num) (sq_lb_left (353/32) 8 x hxa (by norm_num)) (by norm_num)
  have t13 := gauss1_le (23/10) (1/2) (95/10) x _ _ (by norm_num) (by norm_num) (sq_lb_left (353/32) (95/10) x hxa (by norm_num))
    (exp_neg_le_of_poly 16 _ (9193/1000000) (by norm_num) (by norm_num [Finset.sum_range_succ, Nat.factorial]))
  have t14 := gauss1_le (32/10) (18/100) 11 x _ _ (by norm_num) (by norm_num) (sq_lb_left (353/32) 11 x hxa (by norm_num))
    (exp_neg_le_of_poly 3 _ (99459/100000) (by norm_num) (by norm_num [Finset.sum_range_succ, Nat.factorial]))
  have t15 := gauss1_le (12/10) (18/100) 12 x _ _ (by norm_num) (by norm_num) (sq_lb_right (177/16) 12 x hxb (by norm_num))
    (exp_neg_le_of_poly 16 _ (7577/1000000) (by norm_num) (by norm_num [Finset.sum_range_succ, Nat.factorial]))
  linarith

theorem syn1_node57 (x : ℝ) (hxa : (11) ≤ x) (hxb : x ≤ (177/16)) : synthetic1D x ≤ (3231 / 1000 : ℝ) := by
  rcases le_total x (353/32) with h | h
  · exact syn1_node56 x hxa h
  · exact syn1_cell61 x h hxb

theorem syn1_cell62 (x : ℝ) (hxa : (177/16) ≤ x) (hxb : x ≤ (89/8)) : synthetic1D x ≤ (3231 / 1000 : ℝ) := by
  rw [synthetic1D_at]
  have t1 := gauss1_far_one (1/2) 1 x _ (by norm_num) (sq_lb_left (177/16) 1 x hxa (by norm_num)) (by norm_num)
  have t2 := gauss1_far 2 (45/1000) (125/100) x _ (by norm_num) (by norm_num) (sq_lb_left (177/16) (125/100) x hxa (by norm_num)) (by norm_num)
  have t3 := gauss1_far (1/2) (128/10000) (15/10) x _ (by norm_num) (by norm_num) (sq_lb_left (177/16) (15/10) x hxa (by norm_num)) (by norm_num)
  have t4 := gauss1_far 2 (5/1000) (16/10) x _ (by norm_num) (by norm_num) (sq_lb_left (177/16) (16/10) x hxa (by norm_num)) (by norm_num)
  have t5 := gauss1_far (25/10) (2/100) (18/10) x _ (by norm_num) (by norm_num) (sq_lb_left (177/16) (18/10) x hxa (by norm_num)) (by norm_num)
  have t6 := gauss1_far (25/10) (2/100) (22/10) x _ (by norm_num) (by norm_num) (sq_lb_left (177/16) (22/10) x hxa (by norm_num)) (by norm_num)
  have t7 := gauss1_far 2 (5/1000) (24/10) x _ (by norm_num) (by norm_num) (sq_lb_left (177/16) (24/10) x hxa (by norm_num)) (by norm_num)
  have t8 := gauss1_far 2 (45/1000) (275/100) x _ (by norm_num) (by norm_num) (sq_lb_left (177/16) (275/100) x hxa (by norm_num)) (by norm_num)
  have t9 := gauss1_far_one (1/2) 3 x _ (by norm_num) (sq_lb_left (177/16) 3 x hxa (by norm_num)) (by norm_num)
  have t10 := gauss1_far 2 (32/100) 6 x _ (by norm_num) (by norm_num) (sq_lb_left (177/16) 6 x hxa (by norm_num)) (by norm_num)
  have t11 := gauss1_far (22/10) (18/100) 7 x _ (by norm_num) (by norm_num) (sq_lb_left (177/16) 7 x hxa (by norm_num)) (by norm_num)
  have t12 := gauss1_far (24/10) (1/2) 8 x _ (by norm_num) (by norm_num) (sq_lb_left (177/16) 8 x hxa (by norm_num)) (by norm_num)
  have t13 := gauss1_le (23/10) (1/2) (95/10) x _ _ (by norm_num) (by norm_num) (sq_lb_left (177/16) (95/10) x hxa (by norm_num))
    (exp_neg_le_of_poly 16 _ (7577/1000000) (by norm_num) (by norm_num [Finset.sum_range_succ, Nat.factorial]))
  have t14 := gauss1_le (32/10) (18/100) 11 x _ _ (by norm_num) (by norm_num) (sq_lb_left (177/16) 11 x hxa (by norm_num))
    (exp_neg_le_of_poly 3 _ (195707/200000) (by norm_num) (by norm_num [Finset.sum_range_succ, Nat.factorial]))
  have t15 := gauss1_le (12/10) (18/100) 12 x _ _ (by norm_num) (by norm_num) (sq_lb_right (89/8) 12 x hxb (by norm_num))
    (exp_neg_le_of_poly 16 _ (2843/200000) (by norm_num) (by norm_num [Finset.sum_range_succ, Nat.factorial]))
  linarith

theorem syn1_node58 (x : ℝ) (hxa : (11) ≤ x) (hxb : x ≤ (89/8)) : synthetic1D x ≤ (3231 / 1000 : ℝ) := by
  rcases le_total x (177/16) with h | h
  · exact syn1_node57 x hxa h
  · exact syn1_cell62 x h hxb

theorem syn1_cell63 (x : ℝ) (hxa : (89/8) ≤ x) (hxb : x ≤ (45/4)) : synthetic1D x ≤ (3231 / 1000 : ℝ) := by
  rw [synthetic1D_at]
  have t1 := gauss1_far_one (1/2) 1 x _ (by norm_num) (sq_lb_left (89/8) 1 x hxa (by norm_num)) (by norm_num)
  have t2 := gauss1_far 2 (45/1000) (125/100) x _ (by norm_num) (by norm_num) (sq_lb_left (89/8) (125/100) x hxa (by norm_num)) (by norm_num)
  have t3 := gauss1_far (1/2) (128/10000) (15/10) x _ (by norm_num) (by norm_num) (sq_lb_left (89/8) (15/10) x hxa (by norm_num)) (by norm_num)
  have t4 := gauss1_far 2 (5/1000) (16/10) x _ (by norm_num) (by norm_num) (sq_lb_left (89/8) (16/10) x hxa (by norm_num)) (by norm_num)
  have t5 := gauss1_far (25/10) (2/100) (18/10) x _ (by norm_num) (by norm_num) (sq_lb_left (89/8) (18/10) x hxa (by norm_num)) (by norm_num)
  have t6 := gauss1_far (25/10) (2/100) (22/10) x _ (by norm_num) (by norm_num) (sq_lb_left (89/8) (22/10) x hxa (by norm_num)) (by norm_num)
  have t7 := gauss1_far 2 (5/1000) (24/10) x _ (by norm_num) (by norm_num) (sq_lb_left (89/8) (24/10) x hxa (by norm_num)) (by norm_num)
  have t8 := gauss1_far 2 (45/1000) (275/100) x _ (by norm_num) (by norm_num) (sq_lb_left (89/8) (275/100) x hxa (by norm_num)) (by norm_num)
  have t9 := gauss1_far_one (1/2) 3 x _ (by norm_num) (sq_lb_left (89/8) 3 x hxa (by norm_num)) (by norm_num)
  have t10 := gauss1_far 2 (32/100) 6 x _ (by norm_num) (by norm_num) (sq_lb_left (89/8) 6 x hxa (by norm_num)) (by norm_num)
  have t11 := gauss1_far (22/10) (18/100) 7 x _ (by norm_num) (by norm_num) (sq_lb_left (89/8) 7 x hxa (by norm_num)) (by norm_num)
  have t12 := gauss1_far (24/10) (1/2) 8 x _ (by norm_num) (by norm_num) (sq_lb_left (89/8) 8 x hxa (by norm_num)) (by norm_num)
  have t13 := gauss1_le (23/10) (1/2) (95/10) x _ _ (by norm_num) (by norm_num) (sq_lb_left (89/8) (95/10) x hxa (by norm_num))
    (exp_neg_le_of_poly 16 _ (5087/1000000) (by norm_num) (by norm_num [Finset.sum_range_succ, Nat.factorial]))
  have t14 := gauss1_le (32/10) (18/100) 11 x _ _ (by norm_num) (by norm_num) (sq_lb_left (89/8) 11 x hxa (by norm_num))
    (exp_neg_le_of_poly 4 _ (458429/500000) (by norm_num) (by norm_num [Finset.sum_range_succ, Nat.factorial]))
  have t15 := gauss1_le (12/10) (18/100) 12 x _ _ (by norm_num) (by norm_num) (sq_lb_right (45/4) 12 x hxb (by norm_num))
    (exp_neg_le_of_poly 14 _ (21969/500000) (by norm_num) (by norm_num [Finset.sum_range_succ, Nat.factorial]))
  linarith

theorem syn1_node59 (x : ℝ) (hxa : (11) ≤ x) (hxb : x ≤ (45/4)) : synthetic1D x ≤ (3231 / 1000 : ℝ) := by
  rcases le_total x (89/8) with h | h
  · exact syn1_node58 x hxa h
  · exact syn1_cell63 x h hxb

theorem syn1_cell64 (x : ℝ) (hxa : (45/4) ≤ x) (hxb : x ≤ (23/2)) : synthetic1D x ≤ (3231 / 1000 : ℝ) := by
  rw [synthetic1D_at]
  have t1 := gauss1_far_one (1/2) 1 x _ (by norm_num) (sq_lb_left (45/4) 1 x hxa (by norm_num)) (by norm_num)
  have t2 := gauss1_far 2 (45/1000) (125/100) x _ (by norm_num) (by norm_num) (sq_lb_left (45/4) (125/100) x hxa (by norm_num)) (by norm_num)
  have t3 := gauss1_far (1/2) (128/10000) (15/10) x _ (by norm_num) (by norm_num) (sq_lb_left (45/4) (15/10) x hxa (by norm_num)) (by norm_num)
  have t4 := gauss1_far 2 (5/1000) (16/10) x _ (by norm_num) (by norm_num) (sq_lb_left (45/4) (16/10) x hxa (by norm_num)) (by norm_num)
  have t5 := gauss1_far (25/10) (2/100) (18/10) x _ (by norm_num) (by norm_num) (sq_lb_left (45/4) (18/10) x hxa (by norm_num)) (by norm_num)
  have t6 := gauss1_far (25/10) (2/100) (22/10) x _ (by norm_num) (by norm_num) (sq_lb_left (45/4) (22/10) x hxa (by norm_num)) (by norm_num)
  have t7 := gauss1_far 2 (5/1000) (24/10) x _ (by norm_num) (by norm_num) (sq_lb_left (45/4) (24/10) x hxa (by norm_num)) (by norm_num)
  have t8 := gauss1_far 2 (45/1000) (275/100) x _ (by norm_num) (by norm_num) (sq_lb_left (45/4) (275/100) x hxa (by norm_num)) (by norm_num)
  have t9 := gauss1_far_one (1/2) 3 x _ (by norm_num) (sq_lb_left (45/4) 3 x hxa (by norm_num)) (by norm_num)
  have t10 := gauss1_far 2 (32/100) 6 x _ (by norm_num) (by norm_num) (sq_lb_left (45/4) 6 x hxa (by norm_num)) (by norm_num)
  have t11 := gauss1_far (22/10) (18/100) 7 x _ (by norm_num) (by norm_num) (sq_lb_left (45/4) 7 x hxa (by norm_num)) (by norm_num)
  have t12 := gauss1_far (24/10) (1/2) 8 x _ (by norm_num) (by norm_num) (sq_lb_left (45/4) 8 x hxa (by norm_num)) (by norm_num)
  have t13 := gauss1_le (23/10) (1/2) (95/10) x _ _ (by norm_num) (by norm_num) (sq_lb_left (45/4) (95/10) x hxa (by norm_num))
    (exp_neg_le_of_poly 16 _ (2189/1000000) (by norm_num) (by norm_num [Finset.sum_range_succ, Nat.factorial]))
  have t14 := gauss1_le (32/10) (18/100) 11 x _ _ (by norm_num) (by norm_num) (sq_lb_left (45/4) 11 x hxa (by norm_num))
    (exp_neg_le_of_poly 6 _ (14133/20000) (by norm_num) (by norm_num [Finset.sum_range_succ, Nat.factorial]))
  have t15 := gauss1_le (12/10) (18/100) 12 x _ _ (by norm_num) (by norm_num) (sq_lb_right (23/2) 12 x hxb (by norm_num))
    (exp_neg_le_of_poly 10 _ (249353/1000000) (by norm_num) (by norm_num [Finset.sum_range_succ, Nat.factorial]))
  linarith

theorem syn1_node60 (x : ℝ) (hxa : (11) ≤ x) (hxb : x ≤ (23/2)) : synthetic1D x ≤ (3231 / 1000 : ℝ) := by
  rcases le_total x (45/4) with h | h
  · exact syn1_node59 x hxa h
  · exact syn1_cell64 x h hxb

theorem syn1_cell65 (x : ℝ) (hxa : (23/2) ≤ x) (hxb : x ≤ (12)) : synthetic1D x ≤ (3231 / 1000 : ℝ) := by
  rw [synthetic1D_at]
  have t1 := gauss1_far_one (1/2) 1 x _ (by norm_num) (sq_lb_left (23/2) 1 x hxa (by norm_num)) (by norm_num)
  have t2 := gauss1_far 2 (45/1000) (125/100) x _ (by norm_num) (by norm_num) (sq_lb_left (23/2) (125/100) x hxa (by norm_num)) (by norm_num)
  have t3 := gauss1_far (1/2) (128/10000) (15/10) x _ (by norm_num) (by norm_num) (sq_lb_left (23/2) (15/10) x hxa (by norm_num)) (by norm_num)
  have t4 := gauss1_far 2 (5/1000) (16/10) x _ (by norm_num) (by norm_num) (sq_lb_left (23/2) (16/10) x hxa (by norm_num)) (by norm_num)
  have t5 := gauss1_far (25/10) (2/100) (18/10) x _ (by norm_num) (by norm_num) (sq_lb_left (23/2) (18/10) x hxa (by norm_num)) (by norm_num)
  have t6 := gauss1_far (25/10) (2/100) (22/10) x _ (by norm_num) (by norm_num) (sq_lb_left (23/2) (22/10) x hxa (by norm_num)) (by norm_num)
  have t7 := gauss1_far 2 (5/1000) (24/10) x _ (by norm_num) (by norm_num) (sq_lb_left (23/2) (24/10) x hxa (by norm_num)) (by norm_num)
  have t8 := gauss1_far 2 (45/1000) (275/100) x _ (by norm_num) (by norm_num) (sq_lb_left (23/2) (275/100) x hxa (by norm_num)) (by norm_num)
  have t9 := gauss1_far_one (1/2) 3 x _ (by norm_num) (sq_lb_left (23/2) 3 x hxa (by norm_num)) (by norm_num)
  have t10 := gauss1_far 2 (32/100) 6 x _ (by norm_num) (by norm_num) (sq_lb_left (23/2) 6 x hxa (by norm_num)) (by norm_num)
  have t11 := gauss1_far (22/10) (18/100) 7 x _ (by norm_num) (by norm_num) (sq_lb_left (23/2) 7 x hxa (by norm_num)) (by norm_num)
  have t12 := gauss1_far (24/10) (1/2) 8 x _ (by norm_num) (by norm_num) (sq_lb_left (23/2) 8 x hxa (by norm_num)) (by norm_num)
  have t13 := gauss1_le (23/10) (1/2) (95/10) x _ _ (by norm_num) (by norm_num) (sq_lb_left (23/2) (95/10) x hxa (by norm_num))
    (exp_neg_le_of_poly 18 _ (21/62500) (by norm_num) (by norm_num [Finset.sum_range_succ, Nat.factorial]))
  have t14 := gauss1_le (32/10) (18/100) 11 x _ _ (by norm_num) (by norm_num) (sq_lb_left (23/2) 11 x hxa (by norm_num))
    (exp_neg_le_of_poly 10 _ (249353/1000000) (by norm_num) (by norm_num [Finset.sum_range_succ, Nat.factorial]))
  have t15 := gauss1_le (12/10) (18/100) 12 x _ _ (by norm_num) (by norm_num) (sq_lb_right (12) 12 x hxb (by norm_num))
    (exp_neg_le_of_poly 1 _ (1) (by norm_num) (by norm_num [Finset.sum_range_succ, Nat.factorial]))
  linarith

theorem syn1_node61 (x : ℝ) (hxa : (11) ≤ x) (hxb : x ≤ (12)) : synthetic1D x ≤ (3231 / 1000 : ℝ) := by
  rcases le_total x (23/2) with h | h
  · exact syn1_node60 x hxa h
  · exact syn1_cell65 x h hxb

theorem syn1_cell66 (x : ℝ) (hxa : (12) ≤ x) (hxb : x ≤ (13)) : synthetic1D x ≤ (3231 / 1000 : ℝ) := by
  rw [synthetic1D_at]
  have t1 := gauss1_far_one (1/2) 1 x _ (by norm_num) (sq_lb_left (12) 1 x hxa (by norm_num)) (by norm_num)
  have t2 := gauss1_far 2 (45/1000) (125/100) x _ (by norm_num) (by norm_num) (sq_lb_left (12) (125/100) x hxa (by norm_num)) (by norm_num)
  have t3 := gauss1_far (1/2) (128/10000) (15/10) x _ (by norm_num) (by norm_num) (sq_lb_left (12) (15/10) x hxa (by norm_num)) (by norm_num)
  have t4 := gauss1_far 2 (5/1000) (16/10) x _ (by norm_num) (by norm_num) (sq_lb_left (12) (16/10) x hxa (by norm_num)) (by norm_num)
  have t5 := gauss1_far (25/10) (2/100) (18/10) x _ (by norm_num) (by norm_num) (sq_lb_left (12) (18/10) x hxa (by norm_num)) (by norm_num)
  have t6 := gauss1_far (25/10) (2/100) (22/10) x _ (by norm_num) (by norm_num) (sq_lb_left (12) (22/10) x hxa (by norm_num)) (by norm_num)
  have t7 := gauss1_far 2 (5/1000) (24/10) x _ (by norm_num) (by norm_num) (sq_lb_left (12) (24/10) x hxa (by norm_num)) (by norm_num)
  have t8 := gauss1_far 2 (45/1000) (275/100) x _ (by norm_num) (by norm_num) (sq_lb_left (12) (275/100) x hxa (by norm_num)) (by norm_num)
  have t9 := gauss1_far_one (1/2) 3 x _ (by norm_num) (sq_lb_left (12) 3 x hxa (by norm_num)) (by norm_num)
  have t10 := gauss1_far 2 (32/100) 6 x _ (by norm_num) (by norm_num) (sq_lb_left (12) 6 x hxa (by norm_num)) (by norm_num)
  have t11 := gauss1_far (22/10) (18/100) 7 x _ (by norm_num) (by norm_num) (sq_lb_left (12) 7 x hxa (by norm_num)) (by norm_num)
  have t12 := gauss1_far (24/10) (1/2) 8 x _ (by norm_num) (by norm_num) (sq_lb_left (12) 8 x hxa (by norm_num)) (by norm_num)
  have t13 := gauss1_le (23/10) (1/2) (95/10) x _ _ (by norm_num) (by norm_num) (sq_lb_left (12) (95/10) x hxa (by norm_num))
    (exp_neg_le_of_poly 16 _ (1/200000) (by norm_num) (by norm_num [Finset.sum_range_succ, Nat.factorial]))
  have t14 := gauss1_le (32/10) (18/100) 11 x _ _ (by norm_num) (by norm_num) (sq_lb_left (12) 11 x hxa (by norm_num))
    (exp_neg_le_of_poly 16 _ (3867/1000000) (by norm_num) (by norm_num [Finset.sum_range_succ, Nat.factorial]))
  have t15 := gauss1_le (12/10) (18/100) 12 x _ _ (by norm_num) (by norm_num) (sq_lb_left (12) 12 x hxa (by norm_num))
    (exp_neg_le_of_poly 1 _ (1) (by norm_num) (by norm_num [Finset.sum_range_succ, Nat.factorial]))
  linarith

theorem syn1_node62 (x : ℝ) (hxa : (11) ≤ x) (hxb : x ≤ (13)) : synthetic1D x ≤ (3231 / 1000 : ℝ) := by
  rcases le_total x (12) with h | h
  · exact syn1_node61 x hxa h
  · exact syn1_cell66 x h hxb

theorem syn1_cell67 (x : ℝ) (hxa : (13) ≤ x) (hxb : x ≤ (15)) : synthetic1D x ≤ (3231 / 1000 : ℝ) := by
  rw [synthetic1D_at]
  have t1 := gauss1_far_one (1/2) 1 x _ (by norm_num) (sq_lb_left (13) 1 x hxa (by norm_num)) (by norm_num)
  have t2 := gauss1_far 2 (45/1000) (125/100) x _ (by norm_num) (by norm_num) (sq_lb_left (13) (125/100) x hxa (by norm_num)) (by norm_num)
  have t3 := gauss1_far (1/2) (128/10000) (15/10) x _ (by norm_num) (by norm_num) (sq_lb_left (13) (15/10) x hxa (by norm_num)) (by norm_num)
  have t4 := gauss1_far 2 (5/1000) (16/10) x _ (by norm_num) (by norm_num) (sq_lb_left (13) (16/10) x hxa (by norm_num)) (by norm_num)
  have t5 := gauss1_far (25/10) (2/100) (18/10) x _ (by norm_num) (by norm_num) (sq_lb_left (13) (18/10) x hxa (by norm_num)) (by norm_num)
  have t6 := gauss1_far (25/10) (2/100) (22/10) x _ (by norm_num) (by norm_num) (sq_lb_left (13) (22/10) x hxa (by norm_num)) (by norm_num)
  have t7 := gauss1_far 2 (5/1000) (24/10) x _ (by norm_num) (by norm_num) (sq_lb_left (13) (24/10) x hxa (by norm_num)) (by norm_num)
  have t8 := gauss1_far 2 (45/1000) (275/100) x _ (by norm_num) (by norm_num) (sq_lb_left (13) (275/100) x hxa (by norm_num)) (by norm_num)
  have t9 := gauss1_far_one (1/2) 3 x _ (by norm_num) (sq_lb_left (13) 3 x hxa (by norm_num)) (by norm_num)
  have t10 := gauss1_far 2 (32/100) 6 x _ (by norm_num) (by norm_num) (sq_lb_left (13) 6 x hxa (by norm_num)) (by norm_num)
  have t11 := gauss1_far (22/10) (18/100) 7 x _ (by norm_num) (by norm_num) (sq_lb_left (13) 7 x hxa (by norm_num)) (by norm_num)
  have t12 := gauss1_far (24/10) (1/2) 8 x _ (by norm_num) (by norm_num) (sq_lb_left (13) 8 x hxa (by norm_num)) (by norm_num)
  have t13 := gauss1_far (23/10) (1/2) (95/10) x _ (by norm_num) (by norm_num) (sq_lb_left (13) (95/10) x hxa (by norm_num)) (by norm_num)
  have t14 := gauss1_far (32/10) (18/100) 11 x _ (by norm_num) (by norm_num) (sq_lb_left (13) 11 x hxa (by norm_num)) (by norm_num)
  have t15 := gauss1_le (12/10) (18/100) 12 x _ _ (by norm_num) (by norm_num) (sq_lb_left (13) 12 x hxa (by norm_num))
    (exp_neg_le_of_poly 16 _ (3867/1000000) (by norm_num) (by norm_num [Finset.sum_range_succ, Nat.factorial]))
  linarith

theorem syn1_node63 (x : ℝ) (hxa : (11) ≤ x) (hxb : x ≤ (15)) : synthetic1D x ≤ (3231 / 1000 : ℝ) := by
  rcases le_total x (13) with h | h
  · exact syn1_node62 x hxa h
  · exact syn1_cell67 x h hxb

theorem syn1_node64 (x : ℝ) (hxa : (7) ≤ x) (hxb : x ≤ (15)) : synthetic1D x ≤ (3231 / 1000 : ℝ) := by
  rcases le_total x (11) with h | h
  · exact syn1_node54 x hxa h
  · exact syn1_node63 x h hxb

theorem syn1_node65 (x : ℝ) (hxa : (-1) ≤ x) (hxb : x ≤ (15)) : synthetic1D x ≤ (3231 / 1000 : ℝ) := by
  rcases le_total x (7) with h | h
  · exact syn1_node39 x hxa h
  · exact syn1_node64 x h hxb

theorem syn1_cell68 (x : ℝ) (hxa : (15) ≤ x) : synthetic1D x ≤ (3231 / 1000 : ℝ) := by
  rw [synthetic1D_at]
  have t1 := gauss1_far_one (1/2) 1 x _ (by norm_num) (sq_lb_left (15) 1 x hxa (by norm_num)) (by norm_num)
  have t2 := gauss1_far 2 (45/1000) (125/100) x _ (by norm_num) (by norm_num) (sq_lb_left (15) (125/100) x hxa (by norm_num)) (by norm_num)
  have t3 := gauss1_far (1/2) (128/10000) (15/10) x _ (by norm_num) (by norm_num) (sq_lb_left (15) (15/10) x hxa (by norm_num)) (by norm_num)
  have t4 := gauss1_far 2 (5/1000) (16/10) x _ (by norm_num) (by norm_num) (sq_lb_left (15) (16/10) x hxa (by norm_num)) (by norm_num)
  have t5 := gauss1_far (25/10) (2/100) (18/10) x _ (by norm_num) (by norm_num) (sq_lb_left (15) (18/10) x hxa (by norm_num)) (by norm_num)
  have t6 := gauss1_far (25/10) (2/100) (22/10) x _ (by norm_num) (by norm_num) (sq_lb_left (15) (22/10) x hxa (by norm_num)) (by norm_num)
  have t7 := gauss1_far 2 (5/1000) (24/10) x _ (by norm_num) (by norm_num) (sq_lb_left (15) (24/10) x hxa (by norm_num)) (by norm_num)
  have t8 := gauss1_far 2 (45/1000) (275/100) x _ (by norm_num) (by norm_num) (sq_lb_left (15) (275/100) x hxa (by norm_num)) (by norm_num)
  have t9 := gauss1_far_one (1/2) 3 x _ (by norm_num) (sq_lb_left (15) 3 x hxa (by norm_num)) (by norm_num)
  have t10 := gauss1_far 2 (32/100) 6 x _ (by norm_num) (by norm_num) (sq_lb_left (15) 6 x hxa (by norm_num)) (by norm_num)
  have t11 := gauss1_far (22/10) (18/100) 7 x _ (by norm_num) (by norm_num) (sq_lb_left (15) 7 x hxa (by norm_num)) (by norm_num)
  have t12 := gauss1_far (24/10) (1/2) 8 x _ (by norm_num) (by norm_num) (sq_lb_left (15) 8 x hxa (by norm_num)) (by norm_num)
  have t13 := gauss1_far (23/10) (1/2) (95/10) x _ (by norm_num) (by norm_num) (sq_lb_left (15) (95/10) x hxa (by norm_num)) (by norm_num)
  have t14 := gauss1_far (32/10) (18/100) 11 x _ (by norm_num) (by norm_num) (sq_lb_left (15) 11 x hxa (by norm_num)) (by norm_num)
  have t15 := gauss1_far (12/10) (18/100) 12 x _ (by norm_num) (by norm_num) (sq_lb_left (15) 12 x hxa (by norm_num)) (by norm_num)
  linarith

theorem syn1_node66 (x : ℝ) (hxa : (-1) ≤ x) : synthetic1D x ≤ (3231 / 1000 : ℝ) := by
  rcases le_total x (15) with h | h
  · exact syn1_node65 x hxa h
  · exact syn1_cell68 x h

theorem syn1_node67 (x : ℝ)  : synthetic1D x ≤ (3231 / 1000 : ℝ) := by
  rcases le_total x (-1) with h | h
  · exact syn1_cell1 x h
  · exact syn1_node66 x h

/-- **bound clause of Synthetic1D** (maximised): no real point has a value above the documented maximum 3.23 by
more than the documented precision 10⁻³ (the supremum is ≈ 3.23034 at x ≈ 10.99703) -/
theorem synthetic1D_le (x : ℝ) : synthetic1D x ≤ 323 / 100 + 1 / 1000 := by
  have := syn1_node67 x
  linarith

/-! ## Synthetic5D / Synthetic10D (maximised): nothing above the documented maximum 1.2 by more than 10⁻³

Ten Gaussians `mₖ·exp(−tₖ)`, `tₖ = |x − zₖ|²/wₖ`.  For two centres `tₐ + t_b ≥ |zₐ − z_b|²/(wₐ + w_b)` at every point
(per coordinate `(x−a)²/wₐ + (x−b)²/w_b − (a−b)²/(wₐ+w_b) = (w_b(x−a) + wₐ(x−b))²/(wₐw_b(wₐ+w_b))`), which is at least
14 for the pairs with the highest peak (index 3, `m = 1.2`) and at least 10 for all others.  So at most one term has
`tₖ < 2`; if it is the highest peak all others have `t ≥ 12` (`exp ≤ 10⁻⁵`), if it is another one (`m ≤ 1`) all
others have `t ≥ 8` (`exp ≤ 3.4·10⁻⁴`), and if there is none the sum is at most `6.45·exp(−2) < 0.88`. -/

theorem exp_neg_two_le : Real.exp (-2) ≤ 1354 / 10000 :=
  exp_neg_le_of_poly 12 2 _ (by norm_num) (by norm_num [Finset.sum_range_succ, Nat.factorial])
theorem exp_neg_le_of_two_le (t : ℝ) (h : 2 ≤ t) : Real.exp (-t) ≤ 1354 / 10000 :=
  le_trans (Real.exp_le_exp.2 (by linarith)) exp_neg_two_le
theorem exp_neg_le_of_eight_le (t : ℝ) (h : 8 ≤ t) : Real.exp (-t) ≤ 34 / 100000 := by
  have e : Real.exp (-((4 : ℕ) : ℝ) * 2) = Real.exp (-2) ^ 4 := by
    rw [← Real.exp_nat_mul]; congr 1; push_cast; ring
  calc Real.exp (-t) ≤ Real.exp (-((4 : ℕ) : ℝ) * 2) := Real.exp_le_exp.2 (by push_cast; linarith)
    _ = Real.exp (-2) ^ 4 := e
    _ ≤ (1354 / 10000) ^ 4 := pow_le_pow_left₀ (Real.exp_nonneg _) exp_neg_two_le 4
    _ ≤ 34 / 100000 := by norm_num
theorem exp_neg_le_of_twelve_le (t : ℝ) (h : 12 ≤ t) : Real.exp (-t) ≤ 1 / 100000 := by
  have e : Real.exp (-((6 : ℕ) : ℝ) * 2) = Real.exp (-2) ^ 6 := by
    rw [← Real.exp_nat_mul]; congr 1; push_cast; ring
  calc Real.exp (-t) ≤ Real.exp (-((6 : ℕ) : ℝ) * 2) := Real.exp_le_exp.2 (by push_cast; linarith)
    _ = Real.exp (-2) ^ 6 := e
    _ ≤ (1354 / 10000) ^ 6 := pow_le_pow_left₀ (Real.exp_nonneg _) exp_neg_two_le 6
    _ ≤ 1 / 100000 := by norm_num
theorem exp_neg_le_one_of_nonneg (t : ℝ) (h : 0 ≤ t) : Real.exp (-t) ≤ 1 := by
  rw [Real.exp_le_one_iff]; linarith

/-- the abstract step: pairwise separated exponents, at most one term is not negligible -/
theorem atoms10_le (t0 t1 t2 t3 t4 t5 t6 t7 t8 t9 : ℝ) (n0 : 0 ≤ t0) (n1 : 0 ≤ t1) (n2 : 0 ≤ t2) (n3 : 0 ≤ t3) (n4 : 0 ≤ t4) (n5 : 0 ≤ t5) (n6 : 0 ≤ t6) (n7 : 0 ≤ t7) (n8 : 0 ≤ t8) (n9 : 0 ≤ t9)
    (h0_1 : 10 ≤ t0 + t1) (h0_2 : 10 ≤ t0 + t2) (h0_3 : 14 ≤ t0 + t3) (h0_4 : 10 ≤ t0 + t4) (h0_5 : 10 ≤ t0 + t5) (h0_6 : 10 ≤ t0 + t6) (h0_7 : 10 ≤ t0 + t7) (h0_8 : 10 ≤ t0 + t8) (h0_9 : 10 ≤ t0 + t9) (h1_2 : 10 ≤ t1 + t2) (h1_3 : 14 ≤ t1 + t3) (h1_4 : 10 ≤ t1 + t4) (h1_5 : 10 ≤ t1 + t5) (h1_6 : 10 ≤ t1 + t6) (h1_7 : 10 ≤ t1 + t7) (h1_8 : 10 ≤ t1 + t8) (h1_9 : 10 ≤ t1 + t9) (h2_3 : 14 ≤ t2 + t3) (h2_4 : 10 ≤ t2 + t4) (h2_5 : 10 ≤ t2 + t5) (h2_6 : 10 ≤ t2 + t6) (h2_7 : 10 ≤ t2 + t7) (h2_8 : 10 ≤ t2 + t8) (h2_9 : 10 ≤ t2 + t9) (h3_4 : 14 ≤ t3 + t4) (h3_5 : 14 ≤ t3 + t5) (h3_6 : 14 ≤ t3 + t6) (h3_7 : 14 ≤ t3 + t7) (h3_8 : 14 ≤ t3 + t8) (h3_9 : 14 ≤ t3 + t9) (h4_5 : 10 ≤ t4 + t5) (h4_6 : 10 ≤ t4 + t6) (h4_7 : 10 ≤ t4 + t7) (h4_8 : 10 ≤ t4 + t8) (h4_9 : 10 ≤ t4 + t9) (h5_6 : 10 ≤ t5 + t6) (h5_7 : 10 ≤ t5 + t7) (h5_8 : 10 ≤ t5 + t8) (h5_9 : 10 ≤ t5 + t9) (h6_7 : 10 ≤ t6 + t7) (h6_8 : 10 ≤ t6 + t8) (h6_9 : 10 ≤ t6 + t9) (h7_8 : 10 ≤ t7 + t8) (h7_9 : 10 ≤ t7 + t9) (h8_9 : 10 ≤ t8 + t9) :
    Real.exp (-t0) * (7/10) + Real.exp (-t1) * (75/100) + Real.exp (-t2) * (1) + Real.exp (-t3) * (12/10) + Real.exp (-t4) * (1) + Real.exp (-t5) * (6/10) + Real.exp (-t6) * (5/10) + Real.exp (-t7) * (2/10) + Real.exp (-t8) * (4/10) + Real.exp (-t9) * (1/10) ≤ 1201 / 1000 := by
  by_cases a0 : t0 < 2
  · have p0 := exp_neg_le_one_of_nonneg t0 n0
    have p1 := exp_neg_le_of_eight_le t1 (by linarith [h0_1])
    have p2 := exp_neg_le_of_eight_le t2 (by linarith [h0_2])
    have p3 := exp_neg_le_of_twelve_le t3 (by linarith [h0_3])
    have p4 := exp_neg_le_of_eight_le t4 (by linarith [h0_4])
    have p5 := exp_neg_le_of_eight_le t5 (by linarith [h0_5])
    have p6 := exp_neg_le_of_eight_le t6 (by linarith [h0_6])
    have p7 := exp_neg_le_of_eight_le t7 (by linarith [h0_7])
    have p8 := exp_neg_le_of_eight_le t8 (by linarith [h0_8])
    have p9 := exp_neg_le_of_eight_le t9 (by linarith [h0_9])
    linarith
  by_cases a1 : t1 < 2
  · have p1 := exp_neg_le_one_of_nonneg t1 n1
    have p0 := exp_neg_le_of_eight_le t0 (by linarith [h0_1])
    have p2 := exp_neg_le_of_eight_le t2 (by linarith [h1_2])
    have p3 := exp_neg_le_of_twelve_le t3 (by linarith [h1_3])
    have p4 := exp_neg_le_of_eight_le t4 (by linarith [h1_4])
    have p5 := exp_neg_le_of_eight_le t5 (by linarith [h1_5])
    have p6 := exp_neg_le_of_eight_le t6 (by linarith [h1_6])
    have p7 := exp_neg_le_of_eight_le t7 (by linarith [h1_7])
    have p8 := exp_neg_le_of_eight_le t8 (by linarith [h1_8])
    have p9 := exp_neg_le_of_eight_le t9 (by linarith [h1_9])
    linarith
  by_cases a2 : t2 < 2
  · have p2 := exp_neg_le_one_of_nonneg t2 n2
    have p0 := exp_neg_le_of_eight_le t0 (by linarith [h0_2])
    have p1 := exp_neg_le_of_eight_le t1 (by linarith [h1_2])
    have p3 := exp_neg_le_of_twelve_le t3 (by linarith [h2_3])
    have p4 := exp_neg_le_of_eight_le t4 (by linarith [h2_4])
    have p5 := exp_neg_le_of_eight_le t5 (by linarith [h2_5])
    have p6 := exp_neg_le_of_eight_le t6 (by linarith [h2_6])
    have p7 := exp_neg_le_of_eight_le t7 (by linarith [h2_7])
    have p8 := exp_neg_le_of_eight_le t8 (by linarith [h2_8])
    have p9 := exp_neg_le_of_eight_le t9 (by linarith [h2_9])
    linarith
  by_cases a3 : t3 < 2
  · have p3 := exp_neg_le_one_of_nonneg t3 n3
    have p0 := exp_neg_le_of_twelve_le t0 (by linarith [h0_3])
    have p1 := exp_neg_le_of_twelve_le t1 (by linarith [h1_3])
    have p2 := exp_neg_le_of_twelve_le t2 (by linarith [h2_3])
    have p4 := exp_neg_le_of_twelve_le t4 (by linarith [h3_4])
    have p5 := exp_neg_le_of_twelve_le t5 (by linarith [h3_5])
    have p6 := exp_neg_le_of_twelve_le t6 (by linarith [h3_6])
    have p7 := exp_neg_le_of_twelve_le t7 (by linarith [h3_7])
    have p8 := exp_neg_le_of_twelve_le t8 (by linarith [h3_8])
    have p9 := exp_neg_le_of_twelve_le t9 (by linarith [h3_9])
    linarith
  by_cases a4 : t4 < 2
  · have p4 := exp_neg_le_one_of_nonneg t4 n4
    have p0 := exp_neg_le_of_eight_le t0 (by linarith [h0_4])
    have p1 := exp_neg_le_of_eight_le t1 (by linarith [h1_4])
    have p2 := exp_neg_le_of_eight_le t2 (by linarith [h2_4])
    have p3 := exp_neg_le_of_twelve_le t3 (by linarith [h3_4])
    have p5 := exp_neg_le_of_eight_le t5 (by linarith [h4_5])
    have p6 := exp_neg_le_of_eight_le t6 (by linarith [h4_6])
    have p7 := exp_neg_le_of_eight_le t7 (by linarith [h4_7])
    have p8 := exp_neg_le_of_eight_le t8 (by linarith [h4_8])
    have p9 := exp_neg_le_of_eight_le t9 (by linarith [h4_9])
    linarith
  by_cases a5 : t5 < 2
  · have p5 := exp_neg_le_one_of_nonneg t5 n5
    have p0 := exp_neg_le_of_eight_le t0 (by linarith [h0_5])
    have p1 := exp_neg_le_of_eight_le t1 (by linarith [h1_5])
    have p2 := exp_neg_le_of_eight_le t2 (by linarith [h2_5])
    have p3 := exp_neg_le_of_twelve_le t3 (by linarith [h3_5])
    have p4 := exp_neg_le_of_eight_le t4 (by linarith [h4_5])
    have p6 := exp_neg_le_of_eight_le t6 (by linarith [h5_6])
    have p7 := exp_neg_le_of_eight_le t7 (by linarith [h5_7])
    have p8 := exp_neg_le_of_eight_le t8 (by linarith [h5_8])
    have p9 := exp_neg_le_of_eight_le t9 (by linarith [h5_9])
    linarith
  by_cases a6 : t6 < 2
  · have p6 := exp_neg_le_one_of_nonneg t6 n6
    have p0 := exp_neg_le_of_eight_le t0 (by linarith [h0_6])
    have p1 := exp_neg_le_of_eight_le t1 (by linarith [h1_6])
    have p2 := exp_neg_le_of_eight_le t2 (by linarith [h2_6])
    have p3 := exp_neg_le_of_twelve_le t3 (by linarith [h3_6])
    have p4 := exp_neg_le_of_eight_le t4 (by linarith [h4_6])
    have p5 := exp_neg_le_of_eight_le t5 (by linarith [h5_6])
    have p7 := exp_neg_le_of_eight_le t7 (by linarith [h6_7])
    have p8 := exp_neg_le_of_eight_le t8 (by linarith [h6_8])
    have p9 := exp_neg_le_of_eight_le t9 (by linarith [h6_9])
    linarith
  by_cases a7 : t7 < 2
  · have p7 := exp_neg_le_one_of_nonneg t7 n7
    have p0 := exp_neg_le_of_eight_le t0 (by linarith [h0_7])
    have p1 := exp_neg_le_of_eight_le t1 (by linarith [h1_7])
    have p2 := exp_neg_le_of_eight_le t2 (by linarith [h2_7])
    have p3 := exp_neg_le_of_twelve_le t3 (by linarith [h3_7])
    have p4 := exp_neg_le_of_eight_le t4 (by linarith [h4_7])
    have p5 := exp_neg_le_of_eight_le t5 (by linarith [h5_7])
    have p6 := exp_neg_le_of_eight_le t6 (by linarith [h6_7])
    have p8 := exp_neg_le_of_eight_le t8 (by linarith [h7_8])
    have p9 := exp_neg_le_of_eight_le t9 (by linarith [h7_9])
    linarith
  by_cases a8 : t8 < 2
  · have p8 := exp_neg_le_one_of_nonneg t8 n8
    have p0 := exp_neg_le_of_eight_le t0 (by linarith [h0_8])
    have p1 := exp_neg_le_of_eight_le t1 (by linarith [h1_8])
    have p2 := exp_neg_le_of_eight_le t2 (by linarith [h2_8])
    have p3 := exp_neg_le_of_twelve_le t3 (by linarith [h3_8])
    have p4 := exp_neg_le_of_eight_le t4 (by linarith [h4_8])
    have p5 := exp_neg_le_of_eight_le t5 (by linarith [h5_8])
    have p6 := exp_neg_le_of_eight_le t6 (by linarith [h6_8])
    have p7 := exp_neg_le_of_eight_le t7 (by linarith [h7_8])
    have p9 := exp_neg_le_of_eight_le t9 (by linarith [h8_9])
    linarith
  by_cases a9 : t9 < 2
  · have p9 := exp_neg_le_one_of_nonneg t9 n9
    have p0 := exp_neg_le_of_eight_le t0 (by linarith [h0_9])
    have p1 := exp_neg_le_of_eight_le t1 (by linarith [h1_9])
    have p2 := exp_neg_le_of_eight_le t2 (by linarith [h2_9])
    have p3 := exp_neg_le_of_twelve_le t3 (by linarith [h3_9])
    have p4 := exp_neg_le_of_eight_le t4 (by linarith [h4_9])
    have p5 := exp_neg_le_of_eight_le t5 (by linarith [h5_9])
    have p6 := exp_neg_le_of_eight_le t6 (by linarith [h6_9])
    have p7 := exp_neg_le_of_eight_le t7 (by linarith [h7_9])
    have p8 := exp_neg_le_of_eight_le t8 (by linarith [h8_9])
    linarith
  · have p0 := exp_neg_le_of_two_le t0 (not_lt.1 a0)
    have p1 := exp_neg_le_of_two_le t1 (not_lt.1 a1)
    have p2 := exp_neg_le_of_two_le t2 (not_lt.1 a2)
    have p3 := exp_neg_le_of_two_le t3 (not_lt.1 a3)
    have p4 := exp_neg_le_of_two_le t4 (not_lt.1 a4)
    have p5 := exp_neg_le_of_two_le t5 (not_lt.1 a5)
    have p6 := exp_neg_le_of_two_le t6 (not_lt.1 a6)
    have p7 := exp_neg_le_of_two_le t7 (not_lt.1 a7)
    have p8 := exp_neg_le_of_two_le t8 (not_lt.1 a8)
    have p9 := exp_neg_le_of_two_le t9 (not_lt.1 a9)
    linarith

/-! ### Synthetic5D: pairwise separation of the ten centres -/

theorem syn5_pair_0_1 (x1 x2 x3 x4 x5 : ℝ) :
    (10 : ℝ) ≤ ((x1 - 10) ^ 2 + (x2 - 1) ^ 2 + (x3 - 6) ^ 2 + (x4 - 7) ^ 2 + (x5 - 8) ^ 2) / (3/10) + ((x1 - 1) ^ 2 + (x2 - 3) ^ 2 + (x3 - 8) ^ 2 + (x4 - 95/10) ^ 2 + (x5 - 2) ^ 2) / (4/10) := by
  linarith [sq_nonneg ((4/10) * (x1 - 10) + (3/10) * (x1 - 1)), sq_nonneg ((4/10) * (x2 - 1) + (3/10) * (x2 - 3)), sq_nonneg ((4/10) * (x3 - 6) + (3/10) * (x3 - 8)), sq_nonneg ((4/10) * (x4 - 7) + (3/10) * (x4 - 95/10)), sq_nonneg ((4/10) * (x5 - 8) + (3/10) * (x5 - 2))]

theorem syn5_pair_0_2 (x1 x2 x3 x4 x5 : ℝ) :
    (10 : ℝ) ≤ ((x1 - 10) ^ 2 + (x2 - 1) ^ 2 + (x3 - 6) ^ 2 + (x4 - 7) ^ 2 + (x5 - 8) ^ 2) / (3/10) + ((x1 - 3) ^ 2 + (x2 - 1) ^ 2 + (x3 - 3) ^ 2 + (x4 - 2) ^ 2 + (x5 - 5) ^ 2) / (1) := by
  linarith [sq_nonneg ((1) * (x1 - 10) + (3/10) * (x1 - 3)), sq_nonneg ((1) * (x2 - 1) + (3/10) * (x2 - 1)), sq_nonneg ((1) * (x3 - 6) + (3/10) * (x3 - 3)), sq_nonneg ((1) * (x4 - 7) + (3/10) * (x4 - 2)), sq_nonneg ((1) * (x5 - 8) + (3/10) * (x5 - 5))]

theorem syn5_pair_0_3 (x1 x2 x3 x4 x5 : ℝ) :
    (14 : ℝ) ≤ ((x1 - 10) ^ 2 + (x2 - 1) ^ 2 + (x3 - 6) ^ 2 + (x4 - 7) ^ 2 + (x5 - 8) ^ 2) / (3/10) + ((x1 - 3) ^ 2 + (x2 - 4) ^ 2 + (x3 - 13/10) ^ 2 + (x4 - 5) ^ 2 + (x5 - 5) ^ 2) / (4/10) := by
  linarith [sq_nonneg ((4/10) * (x1 - 10) + (3/10) * (x1 - 3)), sq_nonneg ((4/10) * (x2 - 1) + (3/10) * (x2 - 4)), sq_nonneg ((4/10) * (x3 - 6) + (3/10) * (x3 - 13/10)), sq_nonneg ((4/10) * (x4 - 7) + (3/10) * (x4 - 5)), sq_nonneg ((4/10) * (x5 - 8) + (3/10) * (x5 - 5))]

theorem syn5_pair_0_4 (x1 x2 x3 x4 x5 : ℝ) :
    (10 : ℝ) ≤ ((x1 - 10) ^ 2 + (x2 - 1) ^ 2 + (x3 - 6) ^ 2 + (x4 - 7) ^ 2 + (x5 - 8) ^ 2) / (3/10) + ((x1 - 5) ^ 2 + (x2 - 2) ^ 2 + (x3 - 96/10) ^ 2 + (x4 - 73/10) ^ 2 + (x5 - 86/10) ^ 2) / (6/10) := by
  linarith [sq_nonneg ((6/10) * (x1 - 10) + (3/10) * (x1 - 5)), sq_nonneg ((6/10) * (x2 - 1) + (3/10) * (x2 - 2)), sq_nonneg ((6/10) * (x3 - 6) + (3/10) * (x3 - 96/10)), sq_nonneg ((6/10) * (x4 - 7) + (3/10) * (x4 - 73/10)), sq_nonneg ((6/10) * (x5 - 8) + (3/10) * (x5 - 86/10))]

theorem syn5_pair_0_5 (x1 x2 x3 x4 x5 : ℝ) :
    (10 : ℝ) ≤ ((x1 - 10) ^ 2 + (x2 - 1) ^ 2 + (x3 - 6) ^ 2 + (x4 - 7) ^ 2 + (x5 - 8) ^ 2) / (3/10) + ((x1 - 75/10) ^ 2 + (x2 - 8) ^ 2 + (x3 - 9) ^ 2 + (x4 - 32/10) ^ 2 + (x5 - 46/10) ^ 2) / (5/10) := by
  linarith [sq_nonneg ((5/10) * (x1 - 10) + (3/10) * (x1 - 75/10)), sq_nonneg ((5/10) * (x2 - 1) + (3/10) * (x2 - 8)), sq_nonneg ((5/10) * (x3 - 6) + (3/10) * (x3 - 9)), sq_nonneg ((5/10) * (x4 - 7) + (3/10) * (x4 - 32/10)), sq_nonneg ((5/10) * (x5 - 8) + (3/10) * (x5 - 46/10))]

theorem syn5_pair_0_6 (x1 x2 x3 x4 x5 : ℝ) :
    (10 : ℝ) ≤ ((x1 - 10) ^ 2 + (x2 - 1) ^ 2 + (x3 - 6) ^ 2 + (x4 - 7) ^ 2 + (x5 - 8) ^ 2) / (3/10) + ((x1 - 57/10) ^ 2 + (x2 - 93/10) ^ 2 + (x3 - 22/10) ^ 2 + (x4 - 84/10) ^ 2 + (x5 - 71/10) ^ 2) / (1/10) := by
  linarith [sq_nonneg ((1/10) * (x1 - 10) + (3/10) * (x1 - 57/10)), sq_nonneg ((1/10) * (x2 - 1) + (3/10) * (x2 - 93/10)), sq_nonneg ((1/10) * (x3 - 6) + (3/10) * (x3 - 22/10)), sq_nonneg ((1/10) * (x4 - 7) + (3/10) * (x4 - 84/10)), sq_nonneg ((1/10) * (x5 - 8) + (3/10) * (x5 - 71/10))]

theorem syn5_pair_0_7 (x1 x2 x3 x4 x5 : ℝ) :
    (10 : ℝ) ≤ ((x1 - 10) ^ 2 + (x2 - 1) ^ 2 + (x3 - 6) ^ 2 + (x4 - 7) ^ 2 + (x5 - 8) ^ 2) / (3/10) + ((x1 - 55/10) ^ 2 + (x2 - 72/10) ^ 2 + (x3 - 58/10) ^ 2 + (x4 - 23/10) ^ 2 + (x5 - 45/10) ^ 2) / (1) := by
  linarith [sq_nonneg ((1) * (x1 - 10) + (3/10) * (x1 - 55/10)), sq_nonneg ((1) * (x2 - 1) + (3/10) * (x2 - 72/10)), sq_nonneg ((1) * (x3 - 6) + (3/10) * (x3 - 58/10)), sq_nonneg ((1) * (x4 - 7) + (3/10) * (x4 - 23/10)), sq_nonneg ((1) * (x5 - 8) + (3/10) * (x5 - 45/10))]

theorem syn5_pair_0_8 (x1 x2 x3 x4 x5 : ℝ) :
    (10 : ℝ) ≤ ((x1 - 10) ^ 2 + (x2 - 1) ^ 2 + (x3 - 6) ^ 2 + (x4 - 7) ^ 2 + (x5 - 8) ^ 2) / (3/10) + ((x1 - 47/10) ^ 2 + (x2 - 32/10) ^ 2 + (x3 - 55/10) ^ 2 + (x4 - 71/10) ^ 2 + (x5 - 33/10) ^ 2) / (2/10) := by
  linarith [sq_nonneg ((2/10) * (x1 - 10) + (3/10) * (x1 - 47/10)), sq_nonneg ((2/10) * (x2 - 1) + (3/10) * (x2 - 32/10)), sq_nonneg ((2/10) * (x3 - 6) + (3/10) * (x3 - 55/10)), sq_nonneg ((2/10) * (x4 - 7) + (3/10) * (x4 - 71/10)), sq_nonneg ((2/10) * (x5 - 8) + (3/10) * (x5 - 33/10))]

theorem syn5_pair_0_9 (x1 x2 x3 x4 x5 : ℝ) :
    (10 : ℝ) ≤ ((x1 - 10) ^ 2 + (x2 - 1) ^ 2 + (x3 - 6) ^ 2 + (x4 - 7) ^ 2 + (x5 - 8) ^ 2) / (3/10) + ((x1 - 97/10) ^ 2 + (x2 - 84/10) ^ 2 + (x3 - 6/10) ^ 2 + (x4 - 32/10) ^ 2 + (x5 - 85/10) ^ 2) / (3/10) := by
  linarith [sq_nonneg ((3/10) * (x1 - 10) + (3/10) * (x1 - 97/10)), sq_nonneg ((3/10) * (x2 - 1) + (3/10) * (x2 - 84/10)), sq_nonneg ((3/10) * (x3 - 6) + (3/10) * (x3 - 6/10)), sq_nonneg ((3/10) * (x4 - 7) + (3/10) * (x4 - 32/10)), sq_nonneg ((3/10) * (x5 - 8) + (3/10) * (x5 - 85/10))]

theorem syn5_pair_1_2 (x1 x2 x3 x4 x5 : ℝ) :
    (10 : ℝ) ≤ ((x1 - 1) ^ 2 + (x2 - 3) ^ 2 + (x3 - 8) ^ 2 + (x4 - 95/10) ^ 2 + (x5 - 2) ^ 2) / (4/10) + ((x1 - 3) ^ 2 + (x2 - 1) ^ 2 + (x3 - 3) ^ 2 + (x4 - 2) ^ 2 + (x5 - 5) ^ 2) / (1) := by
  linarith [sq_nonneg ((1) * (x1 - 1) + (4/10) * (x1 - 3)), sq_nonneg ((1) * (x2 - 3) + (4/10) * (x2 - 1)), sq_nonneg ((1) * (x3 - 8) + (4/10) * (x3 - 3)), sq_nonneg ((1) * (x4 - 95/10) + (4/10) * (x4 - 2)), sq_nonneg ((1) * (x5 - 2) + (4/10) * (x5 - 5))]

theorem syn5_pair_1_3 (x1 x2 x3 x4 x5 : ℝ) :
    (14 : ℝ) ≤ ((x1 - 1) ^ 2 + (x2 - 3) ^ 2 + (x3 - 8) ^ 2 + (x4 - 95/10) ^ 2 + (x5 - 2) ^ 2) / (4/10) + ((x1 - 3) ^ 2 + (x2 - 4) ^ 2 + (x3 - 13/10) ^ 2 + (x4 - 5) ^ 2 + (x5 - 5) ^ 2) / (4/10) := by
  linarith [sq_nonneg ((4/10) * (x1 - 1) + (4/10) * (x1 - 3)), sq_nonneg ((4/10) * (x2 - 3) + (4/10) * (x2 - 4)), sq_nonneg ((4/10) * (x3 - 8) + (4/10) * (x3 - 13/10)), sq_nonneg ((4/10) * (x4 - 95/10) + (4/10) * (x4 - 5)), sq_nonneg ((4/10) * (x5 - 2) + (4/10) * (x5 - 5))]

theorem syn5_pair_1_4 (x1 x2 x3 x4 x5 : ℝ) :
    (10 : ℝ) ≤ ((x1 - 1) ^ 2 + (x2 - 3) ^ 2 + (x3 - 8) ^ 2 + (x4 - 95/10) ^ 2 + (x5 - 2) ^ 2) / (4/10) + ((x1 - 5) ^ 2 + (x2 - 2) ^ 2 + (x3 - 96/10) ^ 2 + (x4 - 73/10) ^ 2 + (x5 - 86/10) ^ 2) / (6/10) := by
  linarith [sq_nonneg ((6/10) * (x1 - 1) + (4/10) * (x1 - 5)), sq_nonneg ((6/10) * (x2 - 3) + (4/10) * (x2 - 2)), sq_nonneg ((6/10) * (x3 - 8) + (4/10) * (x3 - 96/10)), sq_nonneg ((6/10) * (x4 - 95/10) + (4/10) * (x4 - 73/10)), sq_nonneg ((6/10) * (x5 - 2) + (4/10) * (x5 - 86/10))]

theorem syn5_pair_1_5 (x1 x2 x3 x4 x5 : ℝ) :
    (10 : ℝ) ≤ ((x1 - 1) ^ 2 + (x2 - 3) ^ 2 + (x3 - 8) ^ 2 + (x4 - 95/10) ^ 2 + (x5 - 2) ^ 2) / (4/10) + ((x1 - 75/10) ^ 2 + (x2 - 8) ^ 2 + (x3 - 9) ^ 2 + (x4 - 32/10) ^ 2 + (x5 - 46/10) ^ 2) / (5/10) := by
  linarith [sq_nonneg ((5/10) * (x1 - 1) + (4/10) * (x1 - 75/10)), sq_nonneg ((5/10) * (x2 - 3) + (4/10) * (x2 - 8)), sq_nonneg ((5/10) * (x3 - 8) + (4/10) * (x3 - 9)), sq_nonneg ((5/10) * (x4 - 95/10) + (4/10) * (x4 - 32/10)), sq_nonneg ((5/10) * (x5 - 2) + (4/10) * (x5 - 46/10))]

theorem syn5_pair_1_6 (x1 x2 x3 x4 x5 : ℝ) :
    (10 : ℝ) ≤ ((x1 - 1) ^ 2 + (x2 - 3) ^ 2 + (x3 - 8) ^ 2 + (x4 - 95/10) ^ 2 + (x5 - 2) ^ 2) / (4/10) + ((x1 - 57/10) ^ 2 + (x2 - 93/10) ^ 2 + (x3 - 22/10) ^ 2 + (x4 - 84/10) ^ 2 + (x5 - 71/10) ^ 2) / (1/10) := by
  linarith [sq_nonneg ((1/10) * (x1 - 1) + (4/10) * (x1 - 57/10)), sq_nonneg ((1/10) * (x2 - 3) + (4/10) * (x2 - 93/10)), sq_nonneg ((1/10) * (x3 - 8) + (4/10) * (x3 - 22/10)), sq_nonneg ((1/10) * (x4 - 95/10) + (4/10) * (x4 - 84/10)), sq_nonneg ((1/10) * (x5 - 2) + (4/10) * (x5 - 71/10))]

theorem syn5_pair_1_7 (x1 x2 x3 x4 x5 : ℝ) :
    (10 : ℝ) ≤ ((x1 - 1) ^ 2 + (x2 - 3) ^ 2 + (x3 - 8) ^ 2 + (x4 - 95/10) ^ 2 + (x5 - 2) ^ 2) / (4/10) + ((x1 - 55/10) ^ 2 + (x2 - 72/10) ^ 2 + (x3 - 58/10) ^ 2 + (x4 - 23/10) ^ 2 + (x5 - 45/10) ^ 2) / (1) := by
  linarith [sq_nonneg ((1) * (x1 - 1) + (4/10) * (x1 - 55/10)), sq_nonneg ((1) * (x2 - 3) + (4/10) * (x2 - 72/10)), sq_nonneg ((1) * (x3 - 8) + (4/10) * (x3 - 58/10)), sq_nonneg ((1) * (x4 - 95/10) + (4/10) * (x4 - 23/10)), sq_nonneg ((1) * (x5 - 2) + (4/10) * (x5 - 45/10))]

theorem syn5_pair_1_8 (x1 x2 x3 x4 x5 : ℝ) :
    (10 : ℝ) ≤ ((x1 - 1) ^ 2 + (x2 - 3) ^ 2 + (x3 - 8) ^ 2 + (x4 - 95/10) ^ 2 + (x5 - 2) ^ 2) / (4/10) + ((x1 - 47/10) ^ 2 + (x2 - 32/10) ^ 2 + (x3 - 55/10) ^ 2 + (x4 - 71/10) ^ 2 + (x5 - 33/10) ^ 2) / (2/10) := by
  linarith [sq_nonneg ((2/10) * (x1 - 1) + (4/10) * (x1 - 47/10)), sq_nonneg ((2/10) * (x2 - 3) + (4/10) * (x2 - 32/10)), sq_nonneg ((2/10) * (x3 - 8) + (4/10) * (x3 - 55/10)), sq_nonneg ((2/10) * (x4 - 95/10) + (4/10) * (x4 - 71/10)), sq_nonneg ((2/10) * (x5 - 2) + (4/10) * (x5 - 33/10))]

theorem syn5_pair_1_9 (x1 x2 x3 x4 x5 : ℝ) :
    (10 : ℝ) ≤ ((x1 - 1) ^ 2 + (x2 - 3) ^ 2 + (x3 - 8) ^ 2 + (x4 - 95/10) ^ 2 + (x5 - 2) ^ 2) / (4/10) + ((x1 - 97/10) ^ 2 + (x2 - 84/10) ^ 2 + (x3 - 6/10) ^ 2 + (x4 - 32/10) ^ 2 + (x5 - 85/10) ^ 2) / (3/10) := by
  linarith [sq_nonneg ((3/10) * (x1 - 1) + (4/10) * (x1 - 97/10)), sq_nonneg ((3/10) * (x2 - 3) + (4/10) * (x2 - 84/10)), sq_nonneg ((3/10) * (x3 - 8) + (4/10) * (x3 - 6/10)), sq_nonneg ((3/10) * (x4 - 95/10) + (4/10) * (x4 - 32/10)), sq_nonneg ((3/10) * (x5 - 2) + (4/10) * (x5 - 85/10))]

theorem syn5_pair_2_3 (x1 x2 x3 x4 x5 : ℝ) :
    (14 : ℝ) ≤ ((x1 - 3) ^ 2 + (x2 - 1) ^ 2 + (x3 - 3) ^ 2 + (x4 - 2) ^ 2 + (x5 - 5) ^ 2) / (1) + ((x1 - 3) ^ 2 + (x2 - 4) ^ 2 + (x3 - 13/10) ^ 2 + (x4 - 5) ^ 2 + (x5 - 5) ^ 2) / (4/10) := by
  linarith [sq_nonneg ((4/10) * (x1 - 3) + (1) * (x1 - 3)), sq_nonneg ((4/10) * (x2 - 1) + (1) * (x2 - 4)), sq_nonneg ((4/10) * (x3 - 3) + (1) * (x3 - 13/10)), sq_nonneg ((4/10) * (x4 - 2) + (1) * (x4 - 5)), sq_nonneg ((4/10) * (x5 - 5) + (1) * (x5 - 5))]

theorem syn5_pair_2_4 (x1 x2 x3 x4 x5 : ℝ) :
    (10 : ℝ) ≤ ((x1 - 3) ^ 2 + (x2 - 1) ^ 2 + (x3 - 3) ^ 2 + (x4 - 2) ^ 2 + (x5 - 5) ^ 2) / (1) + ((x1 - 5) ^ 2 + (x2 - 2) ^ 2 + (x3 - 96/10) ^ 2 + (x4 - 73/10) ^ 2 + (x5 - 86/10) ^ 2) / (6/10) := by
  linarith [sq_nonneg ((6/10) * (x1 - 3) + (1) * (x1 - 5)), sq_nonneg ((6/10) * (x2 - 1) + (1) * (x2 - 2)), sq_nonneg ((6/10) * (x3 - 3) + (1) * (x3 - 96/10)), sq_nonneg ((6/10) * (x4 - 2) + (1) * (x4 - 73/10)), sq_nonneg ((6/10) * (x5 - 5) + (1) * (x5 - 86/10))]

theorem syn5_pair_2_5 (x1 x2 x3 x4 x5 : ℝ) :
    (10 : ℝ) ≤ ((x1 - 3) ^ 2 + (x2 - 1) ^ 2 + (x3 - 3) ^ 2 + (x4 - 2) ^ 2 + (x5 - 5) ^ 2) / (1) + ((x1 - 75/10) ^ 2 + (x2 - 8) ^ 2 + (x3 - 9) ^ 2 + (x4 - 32/10) ^ 2 + (x5 - 46/10) ^ 2) / (5/10) := by
  linarith [sq_nonneg ((5/10) * (x1 - 3) + (1) * (x1 - 75/10)), sq_nonneg ((5/10) * (x2 - 1) + (1) * (x2 - 8)), sq_nonneg ((5/10) * (x3 - 3) + (1) * (x3 - 9)), sq_nonneg ((5/10) * (x4 - 2) + (1) * (x4 - 32/10)), sq_nonneg ((5/10) * (x5 - 5) + (1) * (x5 - 46/10))]

theorem syn5_pair_2_6 (x1 x2 x3 x4 x5 : ℝ) :
    (10 : ℝ) ≤ ((x1 - 3) ^ 2 + (x2 - 1) ^ 2 + (x3 - 3) ^ 2 + (x4 - 2) ^ 2 + (x5 - 5) ^ 2) / (1) + ((x1 - 57/10) ^ 2 + (x2 - 93/10) ^ 2 + (x3 - 22/10) ^ 2 + (x4 - 84/10) ^ 2 + (x5 - 71/10) ^ 2) / (1/10) := by
  linarith [sq_nonneg ((1/10) * (x1 - 3) + (1) * (x1 - 57/10)), sq_nonneg ((1/10) * (x2 - 1) + (1) * (x2 - 93/10)), sq_nonneg ((1/10) * (x3 - 3) + (1) * (x3 - 22/10)), sq_nonneg ((1/10) * (x4 - 2) + (1) * (x4 - 84/10)), sq_nonneg ((1/10) * (x5 - 5) + (1) * (x5 - 71/10))]

theorem syn5_pair_2_7 (x1 x2 x3 x4 x5 : ℝ) :
    (10 : ℝ) ≤ ((x1 - 3) ^ 2 + (x2 - 1) ^ 2 + (x3 - 3) ^ 2 + (x4 - 2) ^ 2 + (x5 - 5) ^ 2) / (1) + ((x1 - 55/10) ^ 2 + (x2 - 72/10) ^ 2 + (x3 - 58/10) ^ 2 + (x4 - 23/10) ^ 2 + (x5 - 45/10) ^ 2) / (1) := by
  linarith [sq_nonneg ((1) * (x1 - 3) + (1) * (x1 - 55/10)), sq_nonneg ((1) * (x2 - 1) + (1) * (x2 - 72/10)), sq_nonneg ((1) * (x3 - 3) + (1) * (x3 - 58/10)), sq_nonneg ((1) * (x4 - 2) + (1) * (x4 - 23/10)), sq_nonneg ((1) * (x5 - 5) + (1) * (x5 - 45/10))]

theorem syn5_pair_2_8 (x1 x2 x3 x4 x5 : ℝ) :
    (10 : ℝ) ≤ ((x1 - 3) ^ 2 + (x2 - 1) ^ 2 + (x3 - 3) ^ 2 + (x4 - 2) ^ 2 + (x5 - 5) ^ 2) / (1) + ((x1 - 47/10) ^ 2 + (x2 - 32/10) ^ 2 + (x3 - 55/10) ^ 2 + (x4 - 71/10) ^ 2 + (x5 - 33/10) ^ 2) / (2/10) := by
  linarith [sq_nonneg ((2/10) * (x1 - 3) + (1) * (x1 - 47/10)), sq_nonneg ((2/10) * (x2 - 1) + (1) * (x2 - 32/10)), sq_nonneg ((2/10) * (x3 - 3) + (1) * (x3 - 55/10)), sq_nonneg ((2/10) * (x4 - 2) + (1) * (x4 - 71/10)), sq_nonneg ((2/10) * (x5 - 5) + (1) * (x5 - 33/10))]

theorem syn5_pair_2_9 (x1 x2 x3 x4 x5 : ℝ) :
    (10 : ℝ) ≤ ((x1 - 3) ^ 2 + (x2 - 1) ^ 2 + (x3 - 3) ^ 2 + (x4 - 2) ^ 2 + (x5 - 5) ^ 2) / (1) + ((x1 - 97/10) ^ 2 + (x2 - 84/10) ^ 2 + (x3 - 6/10) ^ 2 + (x4 - 32/10) ^ 2 + (x5 - 85/10) ^ 2) / (3/10) := by
  linarith [sq_nonneg ((3/10) * (x1 - 3) + (1) * (x1 - 97/10)), sq_nonneg ((3/10) * (x2 - 1) + (1) * (x2 - 84/10)), sq_nonneg ((3/10) * (x3 - 3) + (1) * (x3 - 6/10)), sq_nonneg ((3/10) * (x4 - 2) + (1) * (x4 - 32/10)), sq_nonneg ((3/10) * (x5 - 5) + (1) * (x5 - 85/10))]

theorem syn5_pair_3_4 (x1 x2 x3 x4 x5 : ℝ) :
    (14 : ℝ) ≤ ((x1 - 3) ^ 2 + (x2 - 4) ^ 2 + (x3 - 13/10) ^ 2 + (x4 - 5) ^ 2 + (x5 - 5) ^ 2) / (4/10) + ((x1 - 5) ^ 2 + (x2 - 2) ^ 2 + (x3 - 96/10) ^ 2 + (x4 - 73/10) ^ 2 + (x5 - 86/10) ^ 2) / (6/10) := by
  linarith [sq_nonneg ((6/10) * (x1 - 3) + (4/10) * (x1 - 5)), sq_nonneg ((6/10) * (x2 - 4) + (4/10) * (x2 - 2)), sq_nonneg ((6/10) * (x3 - 13/10) + (4/10) * (x3 - 96/10)), sq_nonneg ((6/10) * (x4 - 5) + (4/10) * (x4 - 73/10)), sq_nonneg ((6/10) * (x5 - 5) + (4/10) * (x5 - 86/10))]

theorem syn5_pair_3_5 (x1 x2 x3 x4 x5 : ℝ) :
    (14 : ℝ) ≤ ((x1 - 3) ^ 2 + (x2 - 4) ^ 2 + (x3 - 13/10) ^ 2 + (x4 - 5) ^ 2 + (x5 - 5) ^ 2) / (4/10) + ((x1 - 75/10) ^ 2 + (x2 - 8) ^ 2 + (x3 - 9) ^ 2 + (x4 - 32/10) ^ 2 + (x5 - 46/10) ^ 2) / (5/10) := by
  linarith [sq_nonneg ((5/10) * (x1 - 3) + (4/10) * (x1 - 75/10)), sq_nonneg ((5/10) * (x2 - 4) + (4/10) * (x2 - 8)), sq_nonneg ((5/10) * (x3 - 13/10) + (4/10) * (x3 - 9)), sq_nonneg ((5/10) * (x4 - 5) + (4/10) * (x4 - 32/10)), sq_nonneg ((5/10) * (x5 - 5) + (4/10) * (x5 - 46/10))]

theorem syn5_pair_3_6 (x1 x2 x3 x4 x5 : ℝ) :
    (14 : ℝ) ≤ ((x1 - 3) ^ 2 + (x2 - 4) ^ 2 + (x3 - 13/10) ^ 2 + (x4 - 5) ^ 2 + (x5 - 5) ^ 2) / (4/10) + ((x1 - 57/10) ^ 2 + (x2 - 93/10) ^ 2 + (x3 - 22/10) ^ 2 + (x4 - 84/10) ^ 2 + (x5 - 71/10) ^ 2) / (1/10) := by
  linarith [sq_nonneg ((1/10) * (x1 - 3) + (4/10) * (x1 - 57/10)), sq_nonneg ((1/10) * (x2 - 4) + (4/10) * (x2 - 93/10)), sq_nonneg ((1/10) * (x3 - 13/10) + (4/10) * (x3 - 22/10)), sq_nonneg ((1/10) * (x4 - 5) + (4/10) * (x4 - 84/10)), sq_nonneg ((1/10) * (x5 - 5) + (4/10) * (x5 - 71/10))]

theorem syn5_pair_3_7 (x1 x2 x3 x4 x5 : ℝ) :
    (14 : ℝ) ≤ ((x1 - 3) ^ 2 + (x2 - 4) ^ 2 + (x3 - 13/10) ^ 2 + (x4 - 5) ^ 2 + (x5 - 5) ^ 2) / (4/10) + ((x1 - 55/10) ^ 2 + (x2 - 72/10) ^ 2 + (x3 - 58/10) ^ 2 + (x4 - 23/10) ^ 2 + (x5 - 45/10) ^ 2) / (1) := by
  linarith [sq_nonneg ((1) * (x1 - 3) + (4/10) * (x1 - 55/10)), sq_nonneg ((1) * (x2 - 4) + (4/10) * (x2 - 72/10)), sq_nonneg ((1) * (x3 - 13/10) + (4/10) * (x3 - 58/10)), sq_nonneg ((1) * (x4 - 5) + (4/10) * (x4 - 23/10)), sq_nonneg ((1) * (x5 - 5) + (4/10) * (x5 - 45/10))]

theorem syn5_pair_3_8 (x1 x2 x3 x4 x5 : ℝ) :
    (14 : ℝ) ≤ ((x1 - 3) ^ 2 + (x2 - 4) ^ 2 + (x3 - 13/10) ^ 2 + (x4 - 5) ^ 2 + (x5 - 5) ^ 2) / (4/10) + ((x1 - 47/10) ^ 2 + (x2 - 32/10) ^ 2 + (x3 - 55/10) ^ 2 + (x4 - 71/10) ^ 2 + (x5 - 33/10) ^ 2) / (2/10) := by
  linarith [sq_nonneg ((2/10) * (x1 - 3) + (4/10) * (x1 - 47/10)), sq_nonneg ((2/10) * (x2 - 4) + (4/10) * (x2 - 32/10)), sq_nonneg ((2/10) * (x3 - 13/10) + (4/10) * (x3 - 55/10)), sq_nonneg ((2/10) * (x4 - 5) + (4/10) * (x4 - 71/10)), sq_nonneg ((2/10) * (x5 - 5) + (4/10) * (x5 - 33/10))]

theorem syn5_pair_3_9 (x1 x2 x3 x4 x5 : ℝ) :
    (14 : ℝ) ≤ ((x1 - 3) ^ 2 + (x2 - 4) ^ 2 + (x3 - 13/10) ^ 2 + (x4 - 5) ^ 2 + (x5 - 5) ^ 2) / (4/10) + ((x1 - 97/10) ^ 2 + (x2 - 84/10) ^ 2 + (x3 - 6/10) ^ 2 + (x4 - 32/10) ^ 2 + (x5 - 85/10) ^ 2) / (3/10) := by
  linarith [sq_nonneg ((3/10) * (x1 - 3) + (4/10) * (x1 - 97/10)), sq_nonneg ((3/10) * (x2 - 4) + (4/10) * (x2 - 84/10)), sq_nonneg ((3/10) * (x3 - 13/10) + (4/10) * (x3 - 6/10)), sq_nonneg ((3/10) * (x4 - 5) + (4/10) * (x4 - 32/10)), sq_nonneg ((3/10) * (x5 - 5) + (4/10) * (x5 - 85/10))]

theorem syn5_pair_4_5 (x1 x2 x3 x4 x5 : ℝ) :
    (10 : ℝ) ≤ ((x1 - 5) ^ 2 + (x2 - 2) ^ 2 + (x3 - 96/10) ^ 2 + (x4 - 73/10) ^ 2 + (x5 - 86/10) ^ 2) / (6/10) + ((x1 - 75/10) ^ 2 + (x2 - 8) ^ 2 + (x3 - 9) ^ 2 + (x4 - 32/10) ^ 2 + (x5 - 46/10) ^ 2) / (5/10) := by
  linarith [sq_nonneg ((5/10) * (x1 - 5) + (6/10) * (x1 - 75/10)), sq_nonneg ((5/10) * (x2 - 2) + (6/10) * (x2 - 8)), sq_nonneg ((5/10) * (x3 - 96/10) + (6/10) * (x3 - 9)), sq_nonneg ((5/10) * (x4 - 73/10) + (6/10) * (x4 - 32/10)), sq_nonneg ((5/10) * (x5 - 86/10) + (6/10) * (x5 - 46/10))]

theorem syn5_pair_4_6 (x1 x2 x3 x4 x5 : ℝ) :
    (10 : ℝ) ≤ ((x1 - 5) ^ 2 + (x2 - 2) ^ 2 + (x3 - 96/10) ^ 2 + (x4 - 73/10) ^ 2 + (x5 - 86/10) ^ 2) / (6/10) + ((x1 - 57/10) ^ 2 + (x2 - 93/10) ^ 2 + (x3 - 22/10) ^ 2 + (x4 - 84/10) ^ 2 + (x5 - 71/10) ^ 2) / (1/10) := by
  linarith [sq_nonneg ((1/10) * (x1 - 5) + (6/10) * (x1 - 57/10)), sq_nonneg ((1/10) * (x2 - 2) + (6/10) * (x2 - 93/10)), sq_nonneg ((1/10) * (x3 - 96/10) + (6/10) * (x3 - 22/10)), sq_nonneg ((1/10) * (x4 - 73/10) + (6/10) * (x4 - 84/10)), sq_nonneg ((1/10) * (x5 - 86/10) + (6/10) * (x5 - 71/10))]

theorem syn5_pair_4_7 (x1 x2 x3 x4 x5 : ℝ) :
    (10 : ℝ) ≤ ((x1 - 5) ^ 2 + (x2 - 2) ^ 2 + (x3 - 96/10) ^ 2 + (x4 - 73/10) ^ 2 + (x5 - 86/10) ^ 2) / (6/10) + ((x1 - 55/10) ^ 2 + (x2 - 72/10) ^ 2 + (x3 - 58/10) ^ 2 + (x4 - 23/10) ^ 2 + (x5 - 45/10) ^ 2) / (1) := by
  linarith [sq_nonneg ((1) * (x1 - 5) + (6/10) * (x1 - 55/10)), sq_nonneg ((1) * (x2 - 2) + (6/10) * (x2 - 72/10)), sq_nonneg ((1) * (x3 - 96/10) + (6/10) * (x3 - 58/10)), sq_nonneg ((1) * (x4 - 73/10) + (6/10) * (x4 - 23/10)), sq_nonneg ((1) * (x5 - 86/10) + (6/10) * (x5 - 45/10))]

theorem syn5_pair_4_8 (x1 x2 x3 x4 x5 : ℝ) :
    (10 : ℝ) ≤ ((x1 - 5) ^ 2 + (x2 - 2) ^ 2 + (x3 - 96/10) ^ 2 + (x4 - 73/10) ^ 2 + (x5 - 86/10) ^ 2) / (6/10) + ((x1 - 47/10) ^ 2 + (x2 - 32/10) ^ 2 + (x3 - 55/10) ^ 2 + (x4 - 71/10) ^ 2 + (x5 - 33/10) ^ 2) / (2/10) := by
  linarith [sq_nonneg ((2/10) * (x1 - 5) + (6/10) * (x1 - 47/10)), sq_nonneg ((2/10) * (x2 - 2) + (6/10) * (x2 - 32/10)), sq_nonneg ((2/10) * (x3 - 96/10) + (6/10) * (x3 - 55/10)), sq_nonneg ((2/10) * (x4 - 73/10) + (6/10) * (x4 - 71/10)), sq_nonneg ((2/10) * (x5 - 86/10) + (6/10) * (x5 - 33/10))]

theorem syn5_pair_4_9 (x1 x2 x3 x4 x5 : ℝ) :
    (10 : ℝ) ≤ ((x1 - 5) ^ 2 + (x2 - 2) ^ 2 + (x3 - 96/10) ^ 2 + (x4 - 73/10) ^ 2 + (x5 - 86/10) ^ 2) / (6/10) + ((x1 - 97/10) ^ 2 + (x2 - 84/10) ^ 2 + (x3 - 6/10) ^ 2 + (x4 - 32/10) ^ 2 + (x5 - 85/10) ^ 2) / (3/10) := by
  linarith [sq_nonneg ((3/10) * (x1 - 5) + (6/10) * (x1 - 97/10)), sq_nonneg ((3/10) * (x2 - 2) + (6/10) * (x2 - 84/10)), sq_nonneg ((3/10) * (x3 - 96/10) + (6/10) * (x3 - 6/10)), sq_nonneg ((3/10) * (x4 - 73/10) + (6/10) * (x4 - 32/10)), sq_nonneg ((3/10) * (x5 - 86/10) + (6/10) * (x5 - 85/10))]

theorem syn5_pair_5_6 (x1 x2 x3 x4 x5 : ℝ) :
    (10 : ℝ) ≤ ((x1 - 75/10) ^ 2 + (x2 - 8) ^ 2 + (x3 - 9) ^ 2 + (x4 - 32/10) ^ 2 + (x5 - 46/10) ^ 2) / (5/10) + ((x1 - 57/10) ^ 2 + (x2 - 93/10) ^ 2 + (x3 - 22/10) ^ 2 + (x4 - 84/10) ^ 2 + (x5 - 71/10) ^ 2) / (1/10) := by
  linarith [sq_nonneg ((1/10) * (x1 - 75/10) + (5/10) * (x1 - 57/10)), sq_nonneg ((1/10) * (x2 - 8) + (5/10) * (x2 - 93/10)), sq_nonneg ((1/10) * (x3 - 9) + (5/10) * (x3 - 22/10)), sq_nonneg ((1/10) * (x4 - 32/10) + (5/10) * (x4 - 84/10)), sq_nonneg ((1/10) * (x5 - 46/10) + (5/10) * (x5 - 71/10))]

theorem syn5_pair_5_7 (x1 x2 x3 x4 x5 : ℝ) :
    (10 : ℝ) ≤ ((x1 - 75/10) ^ 2 + (x2 - 8) ^ 2 + (x3 - 9) ^ 2 + (x4 - 32/10) ^ 2 + (x5 - 46/10) ^ 2) / (5/10) + ((x1 - 55/10) ^ 2 + (x2 - 72/10) ^ 2 + (x3 - 58/10) ^ 2 + (x4 - 23/10) ^ 2 + (x5 - 45/10) ^ 2) / (1) := by
  linarith [sq_nonneg ((1) * (x1 - 75/10) + (5/10) * (x1 - 55/10)), sq_nonneg ((1) * (x2 - 8) + (5/10) * (x2 - 72/10)), sq_nonneg ((1) * (x3 - 9) + (5/10) * (x3 - 58/10)), sq_nonneg ((1) * (x4 - 32/10) + (5/10) * (x4 - 23/10)), sq_nonneg ((1) * (x5 - 46/10) + (5/10) * (x5 - 45/10))]

theorem syn5_pair_5_8 (x1 x2 x3 x4 x5 : ℝ) :
    (10 : ℝ) ≤ ((x1 - 75/10) ^ 2 + (x2 - 8) ^ 2 + (x3 - 9) ^ 2 + (x4 - 32/10) ^ 2 + (x5 - 46/10) ^ 2) / (5/10) + ((x1 - 47/10) ^ 2 + (x2 - 32/10) ^ 2 + (x3 - 55/10) ^ 2 + (x4 - 71/10) ^ 2 + (x5 - 33/10) ^ 2) / (2/10) := by
  linarith [sq_nonneg ((2/10) * (x1 - 75/10) + (5/10) * (x1 - 47/10)), sq_nonneg ((2/10) * (x2 - 8) + (5/10) * (x2 - 32/10)), sq_nonneg ((2/10) * (x3 - 9) + (5/10) * (x3 - 55/10)), sq_nonneg ((2/10) * (x4 - 32/10) + (5/10) * (x4 - 71/10)), sq_nonneg ((2/10) * (x5 - 46/10) + (5/10) * (x5 - 33/10))]

theorem syn5_pair_5_9 (x1 x2 x3 x4 x5 : ℝ) :
    (10 : ℝ) ≤ ((x1 - 75/10) ^ 2 + (x2 - 8) ^ 2 + (x3 - 9) ^ 2 + (x4 - 32/10) ^ 2 + (x5 - 46/10) ^ 2) / (5/10) + ((x1 - 97/10) ^ 2 + (x2 - 84/10) ^ 2 + (x3 - 6/10) ^ 2 + (x4 - 32/10) ^ 2 + (x5 - 85/10) ^ 2) / (3/10) := by
  linarith [sq_nonneg ((3/10) * (x1 - 75/10) + (5/10) * (x1 - 97/10)), sq_nonneg ((3/10) * (x2 - 8) + (5/10) * (x2 - 84/10)), sq_nonneg ((3/10) * (x3 - 9) + (5/10) * (x3 - 6/10)), sq_nonneg ((3/10) * (x4 - 32/10) + (5/10) * (x4 - 32/10)), sq_nonneg ((3/10) * (x5 - 46/10) + (5/10) * (x5 - 85/10))]

theorem syn5_pair_6_7 (x1 x2 x3 x4 x5 : ℝ) :
    (10 : ℝ) ≤ ((x1 - 57/10) ^ 2 + (x2 - 93/10) ^ 2 + (x3 - 22/10) ^ 2 + (x4 - 84/10) ^ 2 + (x5 - 71/10) ^ 2) / (1/10) + ((x1 - 55/10) ^ 2 + (x2 - 72/10) ^ 2 + (x3 - 58/10) ^ 2 + (x4 - 23/10) ^ 2 + (x5 - 45/10) ^ 2) / (1) := by
  linarith [sq_nonneg ((1) * (x1 - 57/10) + (1/10) * (x1 - 55/10)), sq_nonneg ((1) * (x2 - 93/10) + (1/10) * (x2 - 72/10)), sq_nonneg ((1) * (x3 - 22/10) + (1/10) * (x3 - 58/10)), sq_nonneg ((1) * (x4 - 84/10) + (1/10) * (x4 - 23/10)), sq_nonneg ((1) * (x5 - 71/10) + (1/10) * (x5 - 45/10))]

theorem syn5_pair_6_8 (x1 x2 x3 x4 x5 : ℝ) :
    (10 : ℝ) ≤ ((x1 - 57/10) ^ 2 + (x2 - 93/10) ^ 2 + (x3 - 22/10) ^ 2 + (x4 - 84/10) ^ 2 + (x5 - 71/10) ^ 2) / (1/10) + ((x1 - 47/10) ^ 2 + (x2 - 32/10) ^ 2 + (x3 - 55/10) ^ 2 + (x4 - 71/10) ^ 2 + (x5 - 33/10) ^ 2) / (2/10) := by
  linarith [sq_nonneg ((2/10) * (x1 - 57/10) + (1/10) * (x1 - 47/10)), sq_nonneg ((2/10) * (x2 - 93/10) + (1/10) * (x2 - 32/10)), sq_nonneg ((2/10) * (x3 - 22/10) + (1/10) * (x3 - 55/10)), sq_nonneg ((2/10) * (x4 - 84/10) + (1/10) * (x4 - 71/10)), sq_nonneg ((2/10) * (x5 - 71/10) + (1/10) * (x5 - 33/10))]

theorem syn5_pair_6_9 (x1 x2 x3 x4 x5 : ℝ) :
    (10 : ℝ) ≤ ((x1 - 57/10) ^ 2 + (x2 - 93/10) ^ 2 + (x3 - 22/10) ^ 2 + (x4 - 84/10) ^ 2 + (x5 - 71/10) ^ 2) / (1/10) + ((x1 - 97/10) ^ 2 + (x2 - 84/10) ^ 2 + (x3 - 6/10) ^ 2 + (x4 - 32/10) ^ 2 + (x5 - 85/10) ^ 2) / (3/10) := by
  linarith [sq_nonneg ((3/10) * (x1 - 57/10) + (1/10) * (x1 - 97/10)), sq_nonneg ((3/10) * (x2 - 93/10) + (1/10) * (x2 - 84/10)), sq_nonneg ((3/10) * (x3 - 22/10) + (1/10) * (x3 - 6/10)), sq_nonneg ((3/10) * (x4 - 84/10) + (1/10) * (x4 - 32/10)), sq_nonneg ((3/10) * (x5 - 71/10) + (1/10) * (x5 - 85/10))]

theorem syn5_pair_7_8 (x1 x2 x3 x4 x5 : ℝ) :
    (10 : ℝ) ≤ ((x1 - 55/10) ^ 2 + (x2 - 72/10) ^ 2 + (x3 - 58/10) ^ 2 + (x4 - 23/10) ^ 2 + (x5 - 45/10) ^ 2) / (1) + ((x1 - 47/10) ^ 2 + (x2 - 32/10) ^ 2 + (x3 - 55/10) ^ 2 + (x4 - 71/10) ^ 2 + (x5 - 33/10) ^ 2) / (2/10) := by
  linarith [sq_nonneg ((2/10) * (x1 - 55/10) + (1) * (x1 - 47/10)), sq_nonneg ((2/10) * (x2 - 72/10) + (1) * (x2 - 32/10)), sq_nonneg ((2/10) * (x3 - 58/10) + (1) * (x3 - 55/10)), sq_nonneg ((2/10) * (x4 - 23/10) + (1) * (x4 - 71/10)), sq_nonneg ((2/10) * (x5 - 45/10) + (1) * (x5 - 33/10))]

theorem syn5_pair_7_9 (x1 x2 x3 x4 x5 : ℝ) :
    (10 : ℝ) ≤ ((x1 - 55/10) ^ 2 + (x2 - 72/10) ^ 2 + (x3 - 58/10) ^ 2 + (x4 - 23/10) ^ 2 + (x5 - 45/10) ^ 2) / (1) + ((x1 - 97/10) ^ 2 + (x2 - 84/10) ^ 2 + (x3 - 6/10) ^ 2 + (x4 - 32/10) ^ 2 + (x5 - 85/10) ^ 2) / (3/10) := by
  linarith [sq_nonneg ((3/10) * (x1 - 55/10) + (1) * (x1 - 97/10)), sq_nonneg ((3/10) * (x2 - 72/10) + (1) * (x2 - 84/10)), sq_nonneg ((3/10) * (x3 - 58/10) + (1) * (x3 - 6/10)), sq_nonneg ((3/10) * (x4 - 23/10) + (1) * (x4 - 32/10)), sq_nonneg ((3/10) * (x5 - 45/10) + (1) * (x5 - 85/10))]

theorem syn5_pair_8_9 (x1 x2 x3 x4 x5 : ℝ) :
    (10 : ℝ) ≤ ((x1 - 47/10) ^ 2 + (x2 - 32/10) ^ 2 + (x3 - 55/10) ^ 2 + (x4 - 71/10) ^ 2 + (x5 - 33/10) ^ 2) / (2/10) + ((x1 - 97/10) ^ 2 + (x2 - 84/10) ^ 2 + (x3 - 6/10) ^ 2 + (x4 - 32/10) ^ 2 + (x5 - 85/10) ^ 2) / (3/10) := by
  linarith [sq_nonneg ((3/10) * (x1 - 47/10) + (2/10) * (x1 - 97/10)), sq_nonneg ((3/10) * (x2 - 32/10) + (2/10) * (x2 - 84/10)), sq_nonneg ((3/10) * (x3 - 55/10) + (2/10) * (x3 - 6/10)), sq_nonneg ((3/10) * (x4 - 71/10) + (2/10) * (x4 - 32/10)), sq_nonneg ((3/10) * (x5 - 33/10) + (2/10) * (x5 - 85/10))]

theorem syn5_atom (w m : ℚ) (zs : List ℚ) (x1 x2 x3 x4 x5 : ℝ) (T : ℝ)
    (hT : (([x1, x2, x3, x4, x5].zip zs).map (fun p => (p.1 - (p.2 : ℝ)) ^ 2)).sum / (w : ℝ) = T) :
    atomNd w m [x1, x2, x3, x4, x5] zs = Real.exp (-T) * (m : ℝ) := by
  rw [atomNd_real, hT]

/-- **bound clause of synthetic5D** (maximised), for every real point with 5 coordinates -/
theorem syn5_le (x1 x2 x3 x4 x5 : ℝ) (v : ℝ) (hv : eval .synthetic5D [x1, x2, x3, x4, x5] = some v) : v ≤ 12 / 10 + 1 / 1000 := by
  have hl : ([x1, x2, x3, x4, x5] : List ℝ).length ≤ 5 := by simp
  simp only [eval, if_pos hl] at hv
  rw [synthetic5DTable, atomSum_real] at hv
  simp only [List.map_cons, List.map_nil, List.sum_cons, List.sum_nil, Option.some.injEq] at hv
  subst hv
  have e0 := syn5_atom (3/10) (7/10) [10, 1, 6, 7, 8] x1 x2 x3 x4 x5 (((x1 - 10) ^ 2 + (x2 - 1) ^ 2 + (x3 - 6) ^ 2 + (x4 - 7) ^ 2 + (x5 - 8) ^ 2) / (3/10)) (by
    simp only [List.zip_cons_cons, List.zip_nil_right, List.map_cons, List.map_nil, List.sum_cons, List.sum_nil]
    push_cast; ring)
  have e1 := syn5_atom (4/10) (75/100) [1, 3, 8, 95/10, 2] x1 x2 x3 x4 x5 (((x1 - 1) ^ 2 + (x2 - 3) ^ 2 + (x3 - 8) ^ 2 + (x4 - 95/10) ^ 2 + (x5 - 2) ^ 2) / (4/10)) (by
    simp only [List.zip_cons_cons, List.zip_nil_right, List.map_cons, List.map_nil, List.sum_cons, List.sum_nil]
    push_cast; ring)
  have e2 := syn5_atom (1) (1) [3, 1, 3, 2, 5] x1 x2 x3 x4 x5 (((x1 - 3) ^ 2 + (x2 - 1) ^ 2 + (x3 - 3) ^ 2 + (x4 - 2) ^ 2 + (x5 - 5) ^ 2) / (1)) (by
    simp only [List.zip_cons_cons, List.zip_nil_right, List.map_cons, List.map_nil, List.sum_cons, List.sum_nil]
    push_cast; ring)
  have e3 := syn5_atom (4/10) (12/10) [3, 4, 13/10, 5, 5] x1 x2 x3 x4 x5 (((x1 - 3) ^ 2 + (x2 - 4) ^ 2 + (x3 - 13/10) ^ 2 + (x4 - 5) ^ 2 + (x5 - 5) ^ 2) / (4/10)) (by
    simp only [List.zip_cons_cons, List.zip_nil_right, List.map_cons, List.map_nil, List.sum_cons, List.sum_nil]
    push_cast; ring)
  have e4 := syn5_atom (6/10) (1) [5, 2, 96/10, 73/10, 86/10] x1 x2 x3 x4 x5 (((x1 - 5) ^ 2 + (x2 - 2) ^ 2 + (x3 - 96/10) ^ 2 + (x4 - 73/10) ^ 2 + (x5 - 86/10) ^ 2) / (6/10)) (by
    simp only [List.zip_cons_cons, List.zip_nil_right, List.map_cons, List.map_nil, List.sum_cons, List.sum_nil]
    push_cast; ring)
  have e5 := syn5_atom (5/10) (6/10) [75/10, 8, 9, 32/10, 46/10] x1 x2 x3 x4 x5 (((x1 - 75/10) ^ 2 + (x2 - 8) ^ 2 + (x3 - 9) ^ 2 + (x4 - 32/10) ^ 2 + (x5 - 46/10) ^ 2) / (5/10)) (by
    simp only [List.zip_cons_cons, List.zip_nil_right, List.map_cons, List.map_nil, List.sum_cons, List.sum_nil]
    push_cast; ring)
  have e6 := syn5_atom (1/10) (5/10) [57/10, 93/10, 22/10, 84/10, 71/10] x1 x2 x3 x4 x5 (((x1 - 57/10) ^ 2 + (x2 - 93/10) ^ 2 + (x3 - 22/10) ^ 2 + (x4 - 84/10) ^ 2 + (x5 - 71/10) ^ 2) / (1/10)) (by
    simp only [List.zip_cons_cons, List.zip_nil_right, List.map_cons, List.map_nil, List.sum_cons, List.sum_nil]
    push_cast; ring)
  have e7 := syn5_atom (1) (2/10) [55/10, 72/10, 58/10, 23/10, 45/10] x1 x2 x3 x4 x5 (((x1 - 55/10) ^ 2 + (x2 - 72/10) ^ 2 + (x3 - 58/10) ^ 2 + (x4 - 23/10) ^ 2 + (x5 - 45/10) ^ 2) / (1)) (by
    simp only [List.zip_cons_cons, List.zip_nil_right, List.map_cons, List.map_nil, List.sum_cons, List.sum_nil]
    push_cast; ring)
  have e8 := syn5_atom (2/10) (4/10) [47/10, 32/10, 55/10, 71/10, 33/10] x1 x2 x3 x4 x5 (((x1 - 47/10) ^ 2 + (x2 - 32/10) ^ 2 + (x3 - 55/10) ^ 2 + (x4 - 71/10) ^ 2 + (x5 - 33/10) ^ 2) / (2/10)) (by
    simp only [List.zip_cons_cons, List.zip_nil_right, List.map_cons, List.map_nil, List.sum_cons, List.sum_nil]
    push_cast; ring)
  have e9 := syn5_atom (3/10) (1/10) [97/10, 84/10, 6/10, 32/10, 85/10] x1 x2 x3 x4 x5 (((x1 - 97/10) ^ 2 + (x2 - 84/10) ^ 2 + (x3 - 6/10) ^ 2 + (x4 - 32/10) ^ 2 + (x5 - 85/10) ^ 2) / (3/10)) (by
    simp only [List.zip_cons_cons, List.zip_nil_right, List.map_cons, List.map_nil, List.sum_cons, List.sum_nil]
    push_cast; ring)
  rw [e0, e1, e2, e3, e4, e5, e6, e7, e8, e9]
  have key := atoms10_le (((x1 - 10) ^ 2 + (x2 - 1) ^ 2 + (x3 - 6) ^ 2 + (x4 - 7) ^ 2 + (x5 - 8) ^ 2) / (3/10)) (((x1 - 1) ^ 2 + (x2 - 3) ^ 2 + (x3 - 8) ^ 2 + (x4 - 95/10) ^ 2 + (x5 - 2) ^ 2) / (4/10)) (((x1 - 3) ^ 2 + (x2 - 1) ^ 2 + (x3 - 3) ^ 2 + (x4 - 2) ^ 2 + (x5 - 5) ^ 2) / (1)) (((x1 - 3) ^ 2 + (x2 - 4) ^ 2 + (x3 - 13/10) ^ 2 + (x4 - 5) ^ 2 + (x5 - 5) ^ 2) / (4/10)) (((x1 - 5) ^ 2 + (x2 - 2) ^ 2 + (x3 - 96/10) ^ 2 + (x4 - 73/10) ^ 2 + (x5 - 86/10) ^ 2) / (6/10)) (((x1 - 75/10) ^ 2 + (x2 - 8) ^ 2 + (x3 - 9) ^ 2 + (x4 - 32/10) ^ 2 + (x5 - 46/10) ^ 2) / (5/10)) (((x1 - 57/10) ^ 2 + (x2 - 93/10) ^ 2 + (x3 - 22/10) ^ 2 + (x4 - 84/10) ^ 2 + (x5 - 71/10) ^ 2) / (1/10)) (((x1 - 55/10) ^ 2 + (x2 - 72/10) ^ 2 + (x3 - 58/10) ^ 2 + (x4 - 23/10) ^ 2 + (x5 - 45/10) ^ 2) / (1)) (((x1 - 47/10) ^ 2 + (x2 - 32/10) ^ 2 + (x3 - 55/10) ^ 2 + (x4 - 71/10) ^ 2 + (x5 - 33/10) ^ 2) / (2/10)) (((x1 - 97/10) ^ 2 + (x2 - 84/10) ^ 2 + (x3 - 6/10) ^ 2 + (x4 - 32/10) ^ 2 + (x5 - 85/10) ^ 2) / (3/10))
    (by positivity) (by positivity) (by positivity) (by positivity) (by positivity) (by positivity) (by positivity) (by positivity) (by positivity) (by positivity)
    (syn5_pair_0_1 x1 x2 x3 x4 x5) (syn5_pair_0_2 x1 x2 x3 x4 x5) (syn5_pair_0_3 x1 x2 x3 x4 x5) (syn5_pair_0_4 x1 x2 x3 x4 x5) (syn5_pair_0_5 x1 x2 x3 x4 x5) (syn5_pair_0_6 x1 x2 x3 x4 x5) (syn5_pair_0_7 x1 x2 x3 x4 x5) (syn5_pair_0_8 x1 x2 x3 x4 x5) (syn5_pair_0_9 x1 x2 x3 x4 x5) (syn5_pair_1_2 x1 x2 x3 x4 x5) (syn5_pair_1_3 x1 x2 x3 x4 x5) (syn5_pair_1_4 x1 x2 x3 x4 x5) (syn5_pair_1_5 x1 x2 x3 x4 x5) (syn5_pair_1_6 x1 x2 x3 x4 x5) (syn5_pair_1_7 x1 x2 x3 x4 x5) (syn5_pair_1_8 x1 x2 x3 x4 x5) (syn5_pair_1_9 x1 x2 x3 x4 x5) (syn5_pair_2_3 x1 x2 x3 x4 x5) (syn5_pair_2_4 x1 x2 x3 x4 x5) (syn5_pair_2_5 x1 x2 x3 x4 x5) (syn5_pair_2_6 x1 x2 x3 x4 x5) (syn5_pair_2_7 x1 x2 x3 x4 x5) (syn5_pair_2_8 x1 x2 x3 x4 x5) (syn5_pair_2_9 x1 x2 x3 x4 x5) (syn5_pair_3_4 x1 x2 x3 x4 x5) (syn5_pair_3_5 x1 x2 x3 x4 x5) (syn5_pair_3_6 x1 x2 x3 x4 x5) (syn5_pair_3_7 x1 x2 x3 x4 x5) (syn5_pair_3_8 x1 x2 x3 x4 x5) (syn5_pair_3_9 x1 x2 x3 x4 x5) (syn5_pair_4_5 x1 x2 x3 x4 x5) (syn5_pair_4_6 x1 x2 x3 x4 x5) (syn5_pair_4_7 x1 x2 x3 x4 x5) (syn5_pair_4_8 x1 x2 x3 x4 x5) (syn5_pair_4_9 x1 x2 x3 x4 x5) (syn5_pair_5_6 x1 x2 x3 x4 x5) (syn5_pair_5_7 x1 x2 x3 x4 x5) (syn5_pair_5_8 x1 x2 x3 x4 x5) (syn5_pair_5_9 x1 x2 x3 x4 x5) (syn5_pair_6_7 x1 x2 x3 x4 x5) (syn5_pair_6_8 x1 x2 x3 x4 x5) (syn5_pair_6_9 x1 x2 x3 x4 x5) (syn5_pair_7_8 x1 x2 x3 x4 x5) (syn5_pair_7_9 x1 x2 x3 x4 x5) (syn5_pair_8_9 x1 x2 x3 x4 x5)
  push_cast at key ⊢
  linarith

/-! ### Synthetic10D: pairwise separation of the ten centres -/

theorem syn10_pair_0_1 (x1 x2 x3 x4 x5 x6 x7 x8 x9 x10 : ℝ) :
    (10 : ℝ) ≤ ((x1 - 10) ^ 2 + (x2 - 1) ^ 2 + (x3 - 6) ^ 2 + (x4 - 7) ^ 2 + (x5 - 8) ^ 2 + (x6 - 1) ^ 2 + (x7 - 1) ^ 2 + (x8 - 6) ^ 2 + (x9 - 7) ^ 2 + (x10 - 8) ^ 2) / (3/10) + ((x1 - 1) ^ 2 + (x2 - 3) ^ 2 + (x3 - 8) ^ 2 + (x4 - 95/10) ^ 2 + (x5 - 2) ^ 2 + (x6 - 1) ^ 2 + (x7 - 3) ^ 2 + (x8 - 8) ^ 2 + (x9 - 95/10) ^ 2 + (x10 - 2) ^ 2) / (4/10) := by
  linarith [sq_nonneg ((4/10) * (x1 - 10) + (3/10) * (x1 - 1)), sq_nonneg ((4/10) * (x2 - 1) + (3/10) * (x2 - 3)), sq_nonneg ((4/10) * (x3 - 6) + (3/10) * (x3 - 8)), sq_nonneg ((4/10) * (x4 - 7) + (3/10) * (x4 - 95/10)), sq_nonneg ((4/10) * (x5 - 8) + (3/10) * (x5 - 2)), sq_nonneg ((4/10) * (x6 - 1) + (3/10) * (x6 - 1)), sq_nonneg ((4/10) * (x7 - 1) + (3/10) * (x7 - 3)), sq_nonneg ((4/10) * (x8 - 6) + (3/10) * (x8 - 8)), sq_nonneg ((4/10) * (x9 - 7) + (3/10) * (x9 - 95/10)), sq_nonneg ((4/10) * (x10 - 8) + (3/10) * (x10 - 2))]

theorem syn10_pair_0_2 (x1 x2 x3 x4 x5 x6 x7 x8 x9 x10 : ℝ) :
    (10 : ℝ) ≤ ((x1 - 10) ^ 2 + (x2 - 1) ^ 2 + (x3 - 6) ^ 2 + (x4 - 7) ^ 2 + (x5 - 8) ^ 2 + (x6 - 1) ^ 2 + (x7 - 1) ^ 2 + (x8 - 6) ^ 2 + (x9 - 7) ^ 2 + (x10 - 8) ^ 2) / (3/10) + ((x1 - 3) ^ 2 + (x2 - 1) ^ 2 + (x3 - 3) ^ 2 + (x4 - 2) ^ 2 + (x5 - 5) ^ 2 + (x6 - 3) ^ 2 + (x7 - 1) ^ 2 + (x8 - 3) ^ 2 + (x9 - 2) ^ 2 + (x10 - 5) ^ 2) / (1) := by
  linarith [sq_nonneg ((1) * (x1 - 10) + (3/10) * (x1 - 3)), sq_nonneg ((1) * (x2 - 1) + (3/10) * (x2 - 1)), sq_nonneg ((1) * (x3 - 6) + (3/10) * (x3 - 3)), sq_nonneg ((1) * (x4 - 7) + (3/10) * (x4 - 2)), sq_nonneg ((1) * (x5 - 8) + (3/10) * (x5 - 5)), sq_nonneg ((1) * (x6 - 1) + (3/10) * (x6 - 3)), sq_nonneg ((1) * (x7 - 1) + (3/10) * (x7 - 1)), sq_nonneg ((1) * (x8 - 6) + (3/10) * (x8 - 3)), sq_nonneg ((1) * (x9 - 7) + (3/10) * (x9 - 2)), sq_nonneg ((1) * (x10 - 8) + (3/10) * (x10 - 5))]

theorem syn10_pair_0_3 (x1 x2 x3 x4 x5 x6 x7 x8 x9 x10 : ℝ) :
    (14 : ℝ) ≤ ((x1 - 10) ^ 2 + (x2 - 1) ^ 2 + (x3 - 6) ^ 2 + (x4 - 7) ^ 2 + (x5 - 8) ^ 2 + (x6 - 1) ^ 2 + (x7 - 1) ^ 2 + (x8 - 6) ^ 2 + (x9 - 7) ^ 2 + (x10 - 8) ^ 2) / (3/10) + ((x1 - 3) ^ 2 + (x2 - 4) ^ 2 + (x3 - 13/10) ^ 2 + (x4 - 5) ^ 2 + (x5 - 5) ^ 2 + (x6 - 3) ^ 2 + (x7 - 4) ^ 2 + (x8 - 13/10) ^ 2 + (x9 - 5) ^ 2 + (x10 - 5) ^ 2) / (4/10) := by
  linarith [sq_nonneg ((4/10) * (x1 - 10) + (3/10) * (x1 - 3)), sq_nonneg ((4/10) * (x2 - 1) + (3/10) * (x2 - 4)), sq_nonneg ((4/10) * (x3 - 6) + (3/10) * (x3 - 13/10)), sq_nonneg ((4/10) * (x4 - 7) + (3/10) * (x4 - 5)), sq_nonneg ((4/10) * (x5 - 8) + (3/10) * (x5 - 5)), sq_nonneg ((4/10) * (x6 - 1) + (3/10) * (x6 - 3)), sq_nonneg ((4/10) * (x7 - 1) + (3/10) * (x7 - 4)), sq_nonneg ((4/10) * (x8 - 6) + (3/10) * (x8 - 13/10)), sq_nonneg ((4/10) * (x9 - 7) + (3/10) * (x9 - 5)), sq_nonneg ((4/10) * (x10 - 8) + (3/10) * (x10 - 5))]

theorem syn10_pair_0_4 (x1 x2 x3 x4 x5 x6 x7 x8 x9 x10 : ℝ) :
    (10 : ℝ) ≤ ((x1 - 10) ^ 2 + (x2 - 1) ^ 2 + (x3 - 6) ^ 2 + (x4 - 7) ^ 2 + (x5 - 8) ^ 2 + (x6 - 1) ^ 2 + (x7 - 1) ^ 2 + (x8 - 6) ^ 2 + (x9 - 7) ^ 2 + (x10 - 8) ^ 2) / (3/10) + ((x1 - 5) ^ 2 + (x2 - 2) ^ 2 + (x3 - 96/10) ^ 2 + (x4 - 73/10) ^ 2 + (x5 - 86/10) ^ 2 + (x6 - 5) ^ 2 + (x7 - 2) ^ 2 + (x8 - 96/10) ^ 2 + (x9 - 73/10) ^ 2 + (x10 - 86/10) ^ 2) / (6/10) := by
  linarith [sq_nonneg ((6/10) * (x1 - 10) + (3/10) * (x1 - 5)), sq_nonneg ((6/10) * (x2 - 1) + (3/10) * (x2 - 2)), sq_nonneg ((6/10) * (x3 - 6) + (3/10) * (x3 - 96/10)), sq_nonneg ((6/10) * (x4 - 7) + (3/10) * (x4 - 73/10)), sq_nonneg ((6/10) * (x5 - 8) + (3/10) * (x5 - 86/10)), sq_nonneg ((6/10) * (x6 - 1) + (3/10) * (x6 - 5)), sq_nonneg ((6/10) * (x7 - 1) + (3/10) * (x7 - 2)), sq_nonneg ((6/10) * (x8 - 6) + (3/10) * (x8 - 96/10)), sq_nonneg ((6/10) * (x9 - 7) + (3/10) * (x9 - 73/10)), sq_nonneg ((6/10) * (x10 - 8) + (3/10) * (x10 - 86/10))]

theorem syn10_pair_0_5 (x1 x2 x3 x4 x5 x6 x7 x8 x9 x10 : ℝ) :
    (10 : ℝ) ≤ ((x1 - 10) ^ 2 + (x2 - 1) ^ 2 + (x3 - 6) ^ 2 + (x4 - 7) ^ 2 + (x5 - 8) ^ 2 + (x6 - 1) ^ 2 + (x7 - 1) ^ 2 + (x8 - 6) ^ 2 + (x9 - 7) ^ 2 + (x10 - 8) ^ 2) / (3/10) + ((x1 - 75/10) ^ 2 + (x2 - 8) ^ 2 + (x3 - 9) ^ 2 + (x4 - 32/10) ^ 2 + (x5 - 46/10) ^ 2 + (x6 - 75/10) ^ 2 + (x7 - 8) ^ 2 + (x8 - 9) ^ 2 + (x9 - 32/10) ^ 2 + (x10 - 46/10) ^ 2) / (5/10) := by
  linarith [sq_nonneg ((5/10) * (x1 - 10) + (3/10) * (x1 - 75/10)), sq_nonneg ((5/10) * (x2 - 1) + (3/10) * (x2 - 8)), sq_nonneg ((5/10) * (x3 - 6) + (3/10) * (x3 - 9)), sq_nonneg ((5/10) * (x4 - 7) + (3/10) * (x4 - 32/10)), sq_nonneg ((5/10) * (x5 - 8) + (3/10) * (x5 - 46/10)), sq_nonneg ((5/10) * (x6 - 1) + (3/10) * (x6 - 75/10)), sq_nonneg ((5/10) * (x7 - 1) + (3/10) * (x7 - 8)), sq_nonneg ((5/10) * (x8 - 6) + (3/10) * (x8 - 9)), sq_nonneg ((5/10) * (x9 - 7) + (3/10) * (x9 - 32/10)), sq_nonneg ((5/10) * (x10 - 8) + (3/10) * (x10 - 46/10))]

theorem syn10_pair_0_6 (x1 x2 x3 x4 x5 x6 x7 x8 x9 x10 : ℝ) :
    (10 : ℝ) ≤ ((x1 - 10) ^ 2 + (x2 - 1) ^ 2 + (x3 - 6) ^ 2 + (x4 - 7) ^ 2 + (x5 - 8) ^ 2 + (x6 - 1) ^ 2 + (x7 - 1) ^ 2 + (x8 - 6) ^ 2 + (x9 - 7) ^ 2 + (x10 - 8) ^ 2) / (3/10) + ((x1 - 57/10) ^ 2 + (x2 - 93/10) ^ 2 + (x3 - 22/10) ^ 2 + (x4 - 84/10) ^ 2 + (x5 - 71/10) ^ 2 + (x6 - 57/10) ^ 2 + (x7 - 93/10) ^ 2 + (x8 - 22/10) ^ 2 + (x9 - 84/10) ^ 2 + (x10 - 71/10) ^ 2) / (1/10) := by
  linarith [sq_nonneg ((1/10) * (x1 - 10) + (3/10) * (x1 - 57/10)), sq_nonneg ((1/10) * (x2 - 1) + (3/10) * (x2 - 93/10)), sq_nonneg ((1/10) * (x3 - 6) + (3/10) * (x3 - 22/10)), sq_nonneg ((1/10) * (x4 - 7) + (3/10) * (x4 - 84/10)), sq_nonneg ((1/10) * (x5 - 8) + (3/10) * (x5 - 71/10)), sq_nonneg ((1/10) * (x6 - 1) + (3/10) * (x6 - 57/10)), sq_nonneg ((1/10) * (x7 - 1) + (3/10) * (x7 - 93/10)), sq_nonneg ((1/10) * (x8 - 6) + (3/10) * (x8 - 22/10)), sq_nonneg ((1/10) * (x9 - 7) + (3/10) * (x9 - 84/10)), sq_nonneg ((1/10) * (x10 - 8) + (3/10) * (x10 - 71/10))]

theorem syn10_pair_0_7 (x1 x2 x3 x4 x5 x6 x7 x8 x9 x10 : ℝ) :
    (10 : ℝ) ≤ ((x1 - 10) ^ 2 + (x2 - 1) ^ 2 + (x3 - 6) ^ 2 + (x4 - 7) ^ 2 + (x5 - 8) ^ 2 + (x6 - 1) ^ 2 + (x7 - 1) ^ 2 + (x8 - 6) ^ 2 + (x9 - 7) ^ 2 + (x10 - 8) ^ 2) / (3/10) + ((x1 - 55/10) ^ 2 + (x2 - 72/10) ^ 2 + (x3 - 58/10) ^ 2 + (x4 - 23/10) ^ 2 + (x5 - 45/10) ^ 2 + (x6 - 55/10) ^ 2 + (x7 - 72/10) ^ 2 + (x8 - 58/10) ^ 2 + (x9 - 23/10) ^ 2 + (x10 - 45/10) ^ 2) / (1) := by
  linarith [sq_nonneg ((1) * (x1 - 10) + (3/10) * (x1 - 55/10)), sq_nonneg ((1) * (x2 - 1) + (3/10) * (x2 - 72/10)), sq_nonneg ((1) * (x3 - 6) + (3/10) * (x3 - 58/10)), sq_nonneg ((1) * (x4 - 7) + (3/10) * (x4 - 23/10)), sq_nonneg ((1) * (x5 - 8) + (3/10) * (x5 - 45/10)), sq_nonneg ((1) * (x6 - 1) + (3/10) * (x6 - 55/10)), sq_nonneg ((1) * (x7 - 1) + (3/10) * (x7 - 72/10)), sq_nonneg ((1) * (x8 - 6) + (3/10) * (x8 - 58/10)), sq_nonneg ((1) * (x9 - 7) + (3/10) * (x9 - 23/10)), sq_nonneg ((1) * (x10 - 8) + (3/10) * (x10 - 45/10))]

theorem syn10_pair_0_8 (x1 x2 x3 x4 x5 x6 x7 x8 x9 x10 : ℝ) :
    (10 : ℝ) ≤ ((x1 - 10) ^ 2 + (x2 - 1) ^ 2 + (x3 - 6) ^ 2 + (x4 - 7) ^ 2 + (x5 - 8) ^ 2 + (x6 - 1) ^ 2 + (x7 - 1) ^ 2 + (x8 - 6) ^ 2 + (x9 - 7) ^ 2 + (x10 - 8) ^ 2) / (3/10) + ((x1 - 47/10) ^ 2 + (x2 - 32/10) ^ 2 + (x3 - 55/10) ^ 2 + (x4 - 71/10) ^ 2 + (x5 - 33/10) ^ 2 + (x6 - 47/10) ^ 2 + (x7 - 32/10) ^ 2 + (x8 - 55/10) ^ 2 + (x9 - 71/10) ^ 2 + (x10 - 33/10) ^ 2) / (2/10) := by
  linarith [sq_nonneg ((2/10) * (x1 - 10) + (3/10) * (x1 - 47/10)), sq_nonneg ((2/10) * (x2 - 1) + (3/10) * (x2 - 32/10)), sq_nonneg ((2/10) * (x3 - 6) + (3/10) * (x3 - 55/10)), sq_nonneg ((2/10) * (x4 - 7) + (3/10) * (x4 - 71/10)), sq_nonneg ((2/10) * (x5 - 8) + (3/10) * (x5 - 33/10)), sq_nonneg ((2/10) * (x6 - 1) + (3/10) * (x6 - 47/10)), sq_nonneg ((2/10) * (x7 - 1) + (3/10) * (x7 - 32/10)), sq_nonneg ((2/10) * (x8 - 6) + (3/10) * (x8 - 55/10)), sq_nonneg ((2/10) * (x9 - 7) + (3/10) * (x9 - 71/10)), sq_nonneg ((2/10) * (x10 - 8) + (3/10) * (x10 - 33/10))]

theorem syn10_pair_0_9 (x1 x2 x3 x4 x5 x6 x7 x8 x9 x10 : ℝ) :
    (10 : ℝ) ≤ ((x1 - 10) ^ 2 + (x2 - 1) ^ 2 + (x3 - 6) ^ 2 + (x4 - 7) ^ 2 + (x5 - 8) ^ 2 + (x6 - 1) ^ 2 + (x7 - 1) ^ 2 + (x8 - 6) ^ 2 + (x9 - 7) ^ 2 + (x10 - 8) ^ 2) / (3/10) + ((x1 - 97/10) ^ 2 + (x2 - 84/10) ^ 2 + (x3 - 6/10) ^ 2 + (x4 - 32/10) ^ 2 + (x5 - 85/10) ^ 2 + (x6 - 97/10) ^ 2 + (x7 - 84/10) ^ 2 + (x8 - 6/10) ^ 2 + (x9 - 32/10) ^ 2 + (x10 - 85/10) ^ 2) / (3/10) := by
  linarith [sq_nonneg ((3/10) * (x1 - 10) + (3/10) * (x1 - 97/10)), sq_nonneg ((3/10) * (x2 - 1) + (3/10) * (x2 - 84/10)), sq_nonneg ((3/10) * (x3 - 6) + (3/10) * (x3 - 6/10)), sq_nonneg ((3/10) * (x4 - 7) + (3/10) * (x4 - 32/10)), sq_nonneg ((3/10) * (x5 - 8) + (3/10) * (x5 - 85/10)), sq_nonneg ((3/10) * (x6 - 1) + (3/10) * (x6 - 97/10)), sq_nonneg ((3/10) * (x7 - 1) + (3/10) * (x7 - 84/10)), sq_nonneg ((3/10) * (x8 - 6) + (3/10) * (x8 - 6/10)), sq_nonneg ((3/10) * (x9 - 7) + (3/10) * (x9 - 32/10)), sq_nonneg ((3/10) * (x10 - 8) + (3/10) * (x10 - 85/10))]

theorem syn10_pair_1_2 (x1 x2 x3 x4 x5 x6 x7 x8 x9 x10 : ℝ) :
    (10 : ℝ) ≤ ((x1 - 1) ^ 2 + (x2 - 3) ^ 2 + (x3 - 8) ^ 2 + (x4 - 95/10) ^ 2 + (x5 - 2) ^ 2 + (x6 - 1) ^ 2 + (x7 - 3) ^ 2 + (x8 - 8) ^ 2 + (x9 - 95/10) ^ 2 + (x10 - 2) ^ 2) / (4/10) + ((x1 - 3) ^ 2 + (x2 - 1) ^ 2 + (x3 - 3) ^ 2 + (x4 - 2) ^ 2 + (x5 - 5) ^ 2 + (x6 - 3) ^ 2 + (x7 - 1) ^ 2 + (x8 - 3) ^ 2 + (x9 - 2) ^ 2 + (x10 - 5) ^ 2) / (1) := by
  linarith [sq_nonneg ((1) * (x1 - 1) + (4/10) * (x1 - 3)), sq_nonneg ((1) * (x2 - 3) + (4/10) * (x2 - 1)), sq_nonneg ((1) * (x3 - 8) + (4/10) * (x3 - 3)), sq_nonneg ((1) * (x4 - 95/10) + (4/10) * (x4 - 2)), sq_nonneg ((1) * (x5 - 2) + (4/10) * (x5 - 5)), sq_nonneg ((1) * (x6 - 1) + (4/10) * (x6 - 3)), sq_nonneg ((1) * (x7 - 3) + (4/10) * (x7 - 1)), sq_nonneg ((1) * (x8 - 8) + (4/10) * (x8 - 3)), sq_nonneg ((1) * (x9 - 95/10) + (4/10) * (x9 - 2)), sq_nonneg ((1) * (x10 - 2) + (4/10) * (x10 - 5))]

theorem syn10_pair_1_3 (x1 x2 x3 x4 x5 x6 x7 x8 x9 x10 : ℝ) :
    (14 : ℝ) ≤ ((x1 - 1) ^ 2 + (x2 - 3) ^ 2 + (x3 - 8) ^ 2 + (x4 - 95/10) ^ 2 + (x5 - 2) ^ 2 + (x6 - 1) ^ 2 + (x7 - 3) ^ 2 + (x8 - 8) ^ 2 + (x9 - 95/10) ^ 2 + (x10 - 2) ^ 2) / (4/10) + ((x1 - 3) ^ 2 + (x2 - 4) ^ 2 + (x3 - 13/10) ^ 2 + (x4 - 5) ^ 2 + (x5 - 5) ^ 2 + (x6 - 3) ^ 2 + (x7 - 4) ^ 2 + (x8 - 13/10) ^ 2 + (x9 - 5) ^ 2 + (x10 - 5) ^ 2) / (4/10) := by
  linarith [sq_nonneg ((4/10) * (x1 - 1) + (4/10) * (x1 - 3)), sq_nonneg ((4/10) * (x2 - 3) + (4/10) * (x2 - 4)), sq_nonneg ((4/10) * (x3 - 8) + (4/10) * (x3 - 13/10)), sq_nonneg ((4/10) * (x4 - 95/10) + (4/10) * (x4 - 5)), sq_nonneg ((4/10) * (x5 - 2) + (4/10) * (x5 - 5)), sq_nonneg ((4/10) * (x6 - 1) + (4/10) * (x6 - 3)), sq_nonneg ((4/10) * (x7 - 3) + (4/10) * (x7 - 4)), sq_nonneg ((4/10) * (x8 - 8) + (4/10) * (x8 - 13/10)), sq_nonneg ((4/10) * (x9 - 95/10) + (4/10) * (x9 - 5)), sq_nonneg ((4/10) * (x10 - 2) + (4/10) * (x10 - 5))]

theorem syn10_pair_1_4 (x1 x2 x3 x4 x5 x6 x7 x8 x9 x10 : ℝ) :
    (10 : ℝ) ≤ ((x1 - 1) ^ 2 + (x2 - 3) ^ 2 + (x3 - 8) ^ 2 + (x4 - 95/10) ^ 2 + (x5 - 2) ^ 2 + (x6 - 1) ^ 2 + (x7 - 3) ^ 2 + (x8 - 8) ^ 2 + (x9 - 95/10) ^ 2 + (x10 - 2) ^ 2) / (4/10) + ((x1 - 5) ^ 2 + (x2 - 2) ^ 2 + (x3 - 96/10) ^ 2 + (x4 - 73/10) ^ 2 + (x5 - 86/10) ^ 2 + (x6 - 5) ^ 2 + (x7 - 2) ^ 2 + (x8 - 96/10) ^ 2 + (x9 - 73/10) ^ 2 + (x10 - 86/10) ^ 2) / (6/10) := by
  linarith [sq_nonneg ((6/10) * (x1 - 1) + (4/10) * (x1 - 5)), sq_nonneg ((6/10) * (x2 - 3) + (4/10) * (x2 - 2)), sq_nonneg ((6/10) * (x3 - 8) + (4/10) * (x3 - 96/10)), sq_nonneg ((6/10) * (x4 - 95/10) + (4/10) * (x4 - 73/10)), sq_nonneg ((6/10) * (x5 - 2) + (4/10) * (x5 - 86/10)), sq_nonneg ((6/10) * (x6 - 1) + (4/10) * (x6 - 5)), sq_nonneg ((6/10) * (x7 - 3) + (4/10) * (x7 - 2)), sq_nonneg ((6/10) * (x8 - 8) + (4/10) * (x8 - 96/10)), sq_nonneg ((6/10) * (x9 - 95/10) + (4/10) * (x9 - 73/10)), sq_nonneg ((6/10) * (x10 - 2) + (4/10) * (x10 - 86/10))]

theorem syn10_pair_1_5 (x1 x2 x3 x4 x5 x6 x7 x8 x9 x10 : ℝ) :
    (10 : ℝ) ≤ ((x1 - 1) ^ 2 + (x2 - 3) ^ 2 + (x3 - 8) ^ 2 + (x4 - 95/10) ^ 2 + (x5 - 2) ^ 2 + (x6 - 1) ^ 2 + (x7 - 3) ^ 2 + (x8 - 8) ^ 2 + (x9 - 95/10) ^ 2 + (x10 - 2) ^ 2) / (4/10) + ((x1 - 75/10) ^ 2 + (x2 - 8) ^ 2 + (x3 - 9) ^ 2 + (x4 - 32/10) ^ 2 + (x5 - 46/10) ^ 2 + (x6 - 75/10) ^ 2 + (x7 - 8) ^ 2 + (x8 - 9) ^ 2 + (x9 - 32/10) ^ 2 + (x10 - 46/10) ^ 2) / (5/10) := by
  linarith [sq_nonneg ((5/10) * (x1 - 1) + (4/10) * (x1 - 75/10)), sq_nonneg ((5/10) * (x2 - 3) + (4/10) * (x2 - 8)), sq_nonneg ((5/10) * (x3 - 8) + (4/10) * (x3 - 9)), sq_nonneg ((5/10) * (x4 - 95/10) + (4/10) * (x4 - 32/10)), sq_nonneg ((5/10) * (x5 - 2) + (4/10) * (x5 - 46/10)), sq_nonneg ((5/10) * (x6 - 1) + (4/10) * (x6 - 75/10)), sq_nonneg ((5/10) * (x7 - 3) + (4/10) * (x7 - 8)), sq_nonneg ((5/10) * (x8 - 8) + (4/10) * (x8 - 9)), sq_nonneg ((5/10) * (x9 - 95/10) + (4/10) * (x9 - 32/10)), sq_nonneg ((5/10) * (x10 - 2) + (4/10) * (x10 - 46/10))]

theorem syn10_pair_1_6 (x1 x2 x3 x4 x5 x6 x7 x8 x9 x10 : ℝ) :
    (10 : ℝ) ≤ ((x1 - 1) ^ 2 + (x2 - 3) ^ 2 + (x3 - 8) ^ 2 + (x4 - 95/10) ^ 2 + (x5 - 2) ^ 2 + (x6 - 1) ^ 2 + (x7 - 3) ^ 2 + (x8 - 8) ^ 2 + (x9 - 95/10) ^ 2 + (x10 - 2) ^ 2) / (4/10) + ((x1 - 57/10) ^ 2 + (x2 - 93/10) ^ 2 + (x3 - 22/10) ^ 2 + (x4 - 84/10) ^ 2 + (x5 - 71/10) ^ 2 + (x6 - 57/10) ^ 2 + (x7 - 93/10) ^ 2 + (x8 - 22/10) ^ 2 + (x9 - 84/10) ^ 2 + (x10 - 71/10) ^ 2) / (1/10) := by
  linarith [sq_nonneg ((1/10) * (x1 - 1) + (4/10) * (x1 - 57/10)), sq_nonneg ((1/10) * (x2 - 3) + (4/10) * (x2 - 93/10)), sq_nonneg ((1/10) * (x3 - 8) + (4/10) * (x3 - 22/10)), sq_nonneg ((1/10) * (x4 - 95/10) + (4/10) * (x4 - 84/10)), sq_nonneg ((1/10) * (x5 - 2) + (4/10) * (x5 - 71/10)), sq_nonneg ((1/10) * (x6 - 1) + (4/10) * (x6 - 57/10)), sq_nonneg ((1/10) * (x7 - 3) + (4/10) * (x7 - 93/10)), sq_nonneg ((1/10) * (x8 - 8) + (4/10) * (x8 - 22/10)), sq_nonneg ((1/10) * (x9 - 95/10) + (4/10) * (x9 - 84/10)), sq_nonneg ((1/10) * (x10 - 2) + (4/10) * (x10 - 71/10))]

theorem syn10_pair_1_7 (x1 x2 x3 x4 x5 x6 x7 x8 x9 x10 : ℝ) :
    (10 : ℝ) ≤ ((x1 - 1) ^ 2 + (x2 - 3) ^ 2 + (x3 - 8) ^ 2 + (x4 - 95/10) ^ 2 + (x5 - 2) ^ 2 + (x6 - 1) ^ 2 + (x7 - 3) ^ 2 + (x8 - 8) ^ 2 + (x9 - 95/10) ^ 2 + (x10 - 2) ^ 2) / (4/10) + ((x1 - 55/10) ^ 2 + (x2 - 72/10) ^ 2 + (x3 - 58/10) ^ 2 + (x4 - 23/10) ^ 2 + (x5 - 45/10) ^ 2 + (x6 - 55/10) ^ 2 + (x7 - 72/10) ^ 2 + (x8 - 58/10) ^ 2 + (x9 - 23/10) ^ 2 + (x10 - 45/10) ^ 2) / (1) := by
  linarith [sq_nonneg ((1) * (x1 - 1) + (4/10) * (x1 - 55/10)), sq_nonneg ((1) * (x2 - 3) + (4/10) * (x2 - 72/10)), sq_nonneg ((1) * (x3 - 8) + (4/10) * (x3 - 58/10)), sq_nonneg ((1) * (x4 - 95/10) + (4/10) * (x4 - 23/10)), sq_nonneg ((1) * (x5 - 2) + (4/10) * (x5 - 45/10)), sq_nonneg ((1) * (x6 - 1) + (4/10) * (x6 - 55/10)), sq_nonneg ((1) * (x7 - 3) + (4/10) * (x7 - 72/10)), sq_nonneg ((1) * (x8 - 8) + (4/10) * (x8 - 58/10)), sq_nonneg ((1) * (x9 - 95/10) + (4/10) * (x9 - 23/10)), sq_nonneg ((1) * (x10 - 2) + (4/10) * (x10 - 45/10))]

theorem syn10_pair_1_8 (x1 x2 x3 x4 x5 x6 x7 x8 x9 x10 : ℝ) :
    (10 : ℝ) ≤ ((x1 - 1) ^ 2 + (x2 - 3) ^ 2 + (x3 - 8) ^ 2 + (x4 - 95/10) ^ 2 + (x5 - 2) ^ 2 + (x6 - 1) ^ 2 + (x7 - 3) ^ 2 + (x8 - 8) ^ 2 + (x9 - 95/10) ^ 2 + (x10 - 2) ^ 2) / (4/10) + ((x1 - 47/10) ^ 2 + (x2 - 32/10) ^ 2 + (x3 - 55/10) ^ 2 + (x4 - 71/10) ^ 2 + (x5 - 33/10) ^ 2 + (x6 - 47/10) ^ 2 + (x7 - 32/10) ^ 2 + (x8 - 55/10) ^ 2 + (x9 - 71/10) ^ 2 + (x10 - 33/10) ^ 2) / (2/10) := by
  linarith [sq_nonneg ((2/10) * (x1 - 1) + (4/10) * (x1 - 47/10)), sq_nonneg ((2/10) * (x2 - 3) + (4/10) * (x2 - 32/10)), sq_nonneg ((2/10) * (x3 - 8) + (4/10) * (x3 - 55/10)), sq_nonneg ((2/10) * (x4 - 95/10) + (4/10) * (x4 - 71/10)), sq_nonneg ((2/10) * (x5 - 2) + (4/10) * (x5 - 33/10)), sq_nonneg ((2/10) * (x6 - 1) + (4/10) * (x6 - 47/10)), sq_nonneg ((2/10) * (x7 - 3) + (4/10) * (x7 - 32/10)), sq_nonneg ((2/10) * (x8 - 8) + (4/10) * (x8 - 55/10)), sq_nonneg ((2/10) * (x9 - 95/10) + (4/10) * (x9 - 71/10)), sq_nonneg ((2/10) * (x10 - 2) + (4/10) * (x10 - 33/10))]

theorem syn10_pair_1_9 (x1 x2 x3 x4 x5 x6 x7 x8 x9 x10 : ℝ) :
    (10 : ℝ) ≤ ((x1 - 1) ^ 2 + (x2 - 3) ^ 2 + (x3 - 8) ^ 2 + (x4 - 95/10) ^ 2 + (x5 - 2) ^ 2 + (x6 - 1) ^ 2 + (x7 - 3) ^ 2 + (x8 - 8) ^ 2 + (x9 - 95/10) ^ 2 + (x10 - 2) ^ 2) / (4/10) + ((x1 - 97/10) ^ 2 + (x2 - 84/10) ^ 2 + (x3 - 6/10) ^ 2 + (x4 - 32/10) ^ 2 + (x5 - 85/10) ^ 2 + (x6 - 97/10) ^ 2 + (x7 - 84/10) ^ 2 + (x8 - 6/10) ^ 2 + (x9 - 32/10) ^ 2 + (x10 - 85/10) ^ 2) / (3/10) := by
  linarith [sq_nonneg ((3/10) * (x1 - 1) + (4/10) * (x1 - 97/10)), sq_nonneg ((3/10) * (x2 - 3) + (4/10) * (x2 - 84/10)), sq_nonneg ((3/10) * (x3 - 8) + (4/10) * (x3 - 6/10)), sq_nonneg ((3/10) * (x4 - 95/10) + (4/10) * (x4 - 32/10)), sq_nonneg ((3/10) * (x5 - 2) + (4/10) * (x5 - 85/10)), sq_nonneg ((3/10) * (x6 - 1) + (4/10) * (x6 - 97/10)), sq_nonneg ((3/10) * (x7 - 3) + (4/10) * (x7 - 84/10)), sq_nonneg ((3/10) * (x8 - 8) + (4/10) * (x8 - 6/10)), sq_nonneg ((3/10) * (x9 - 95/10) + (4/10) * (x9 - 32/10)), sq_nonneg ((3/10) * (x10 - 2) + (4/10) * (x10 - 85/10))]

theorem syn10_pair_2_3 (x1 x2 x3 x4 x5 x6 x7 x8 x9 x10 : ℝ) :
    (14 : ℝ) ≤ ((x1 - 3) ^ 2 + (x2 - 1) ^ 2 + (x3 - 3) ^ 2 + (x4 - 2) ^ 2 + (x5 - 5) ^ 2 + (x6 - 3) ^ 2 + (x7 - 1) ^ 2 + (x8 - 3) ^ 2 + (x9 - 2) ^ 2 + (x10 - 5) ^ 2) / (1) + ((x1 - 3) ^ 2 + (x2 - 4) ^ 2 + (x3 - 13/10) ^ 2 + (x4 - 5) ^ 2 + (x5 - 5) ^ 2 + (x6 - 3) ^ 2 + (x7 - 4) ^ 2 + (x8 - 13/10) ^ 2 + (x9 - 5) ^ 2 + (x10 - 5) ^ 2) / (4/10) := by
  linarith [sq_nonneg ((4/10) * (x1 - 3) + (1) * (x1 - 3)), sq_nonneg ((4/10) * (x2 - 1) + (1) * (x2 - 4)), sq_nonneg ((4/10) * (x3 - 3) + (1) * (x3 - 13/10)), sq_nonneg ((4/10) * (x4 - 2) + (1) * (x4 - 5)), sq_nonneg ((4/10) * (x5 - 5) + (1) * (x5 - 5)), sq_nonneg ((4/10) * (x6 - 3) + (1) * (x6 - 3)), sq_nonneg ((4/10) * (x7 - 1) + (1) * (x7 - 4)), sq_nonneg ((4/10) * (x8 - 3) + (1) * (x8 - 13/10)), sq_nonneg ((4/10) * (x9 - 2) + (1) * (x9 - 5)), sq_nonneg ((4/10) * (x10 - 5) + (1) * (x10 - 5))]

theorem syn10_pair_2_4 (x1 x2 x3 x4 x5 x6 x7 x8 x9 x10 : ℝ) :
    (10 : ℝ) ≤ ((x1 - 3) ^ 2 + (x2 - 1) ^ 2 + (x3 - 3) ^ 2 + (x4 - 2) ^ 2 + (x5 - 5) ^ 2 + (x6 - 3) ^ 2 + (x7 - 1) ^ 2 + (x8 - 3) ^ 2 + (x9 - 2) ^ 2 + (x10 - 5) ^ 2) / (1) + ((x1 - 5) ^ 2 + (x2 - 2) ^ 2 + (x3 - 96/10) ^ 2 + (x4 - 73/10) ^ 2 + (x5 - 86/10) ^ 2 + (x6 - 5) ^ 2 + (x7 - 2) ^ 2 + (x8 - 96/10) ^ 2 + (x9 - 73/10) ^ 2 + (x10 - 86/10) ^ 2) / (6/10) := by
  linarith [sq_nonneg ((6/10) * (x1 - 3) + (1) * (x1 - 5)), sq_nonneg ((6/10) * (x2 - 1) + (1) * (x2 - 2)), sq_nonneg ((6/10) * (x3 - 3) + (1) * (x3 - 96/10)), sq_nonneg ((6/10) * (x4 - 2) + (1) * (x4 - 73/10)), sq_nonneg ((6/10) * (x5 - 5) + (1) * (x5 - 86/10)), sq_nonneg ((6/10) * (x6 - 3) + (1) * (x6 - 5)), sq_nonneg ((6/10) * (x7 - 1) + (1) * (x7 - 2)), sq_nonneg ((6/10) * (x8 - 3) + (1) * (x8 - 96/10)), sq_nonneg ((6/10) * (x9 - 2) + (1) * (x9 - 73/10)), sq_nonneg ((6/10) * (x10 - 5) + (1) * (x10 - 86/10))]

theorem syn10_pair_2_5 (x1 x2 x3 x4 x5 x6 x7 x8 x9 x10 : ℝ) :
    (10 : ℝ) ≤ ((x1 - 3) ^ 2 + (x2 - 1) ^ 2 + (x3 - 3) ^ 2 + (x4 - 2) ^ 2 + (x5 - 5) ^ 2 + (x6 - 3) ^ 2 + (x7 - 1) ^ 2 + (x8 - 3) ^ 2 + (x9 - 2) ^ 2 + (x10 - 5) ^ 2) / (1) + ((x1 - 75/10) ^ 2 + (x2 - 8) ^ 2 + (x3 - 9) ^ 2 + (x4 - 32/10) ^ 2 + (x5 - 46/10) ^ 2 + (x6 - 75/10) ^ 2 + (x7 - 8) ^ 2 + (x8 - 9) ^ 2 + (x9 - 32/10) ^ 2 + (x10 - 46/10) ^ 2) / (5/10) := by
  linarith [sq_nonneg ((5/10) * (x1 - 3) + (1) * (x1 - 75/10)), sq_nonneg ((5/10) * (x2 - 1) + (1) * (x2 - 8)), sq_nonneg ((5/10) * (x3 - 3) + (1) * (x3 - 9)), sq_nonneg ((5/10) * (x4 - 2) + (1) * (x4 - 32/10)), sq_nonneg ((5/10) * (x5 - 5) + (1) * (x5 - 46/10)), sq_nonneg ((5/10) * (x6 - 3) + (1) * (x6 - 75/10)), sq_nonneg ((5/10) * (x7 - 1) + (1) * (x7 - 8)), sq_nonneg ((5/10) * (x8 - 3) + (1) * (x8 - 9)), sq_nonneg ((5/10) * (x9 - 2) + (1) * (x9 - 32/10)), sq_nonneg ((5/10) * (x10 - 5) + (1) * (x10 - 46/10))]

theorem syn10_pair_2_6 (x1 x2 x3 x4 x5 x6 x7 x8 x9 x10 : ℝ) :
    (10 : ℝ) ≤ ((x1 - 3) ^ 2 + (x2 - 1) ^ 2 + (x3 - 3) ^ 2 + (x4 - 2) ^ 2 + (x5 - 5) ^ 2 + (x6 - 3) ^ 2 + (x7 - 1) ^ 2 + (x8 - 3) ^ 2 + (x9 - 2) ^ 2 + (x10 - 5) ^ 2) / (1) + ((x1 - 57/10) ^ 2 + (x2 - 93/10) ^ 2 + (x3 - 22/10) ^ 2 + (x4 - 84/10) ^ 2 + (x5 - 71/10) ^ 2 + (x6 - 57/10) ^ 2 + (x7 - 93/10) ^ 2 + (x8 - 22/10) ^ 2 + (x9 - 84/10) ^ 2 + (x10 - 71/10) ^ 2) / (1/10) := by
  linarith [sq_nonneg ((1/10) * (x1 - 3) + (1) * (x1 - 57/10)), sq_nonneg ((1/10) * (x2 - 1) + (1) * (x2 - 93/10)), sq_nonneg ((1/10) * (x3 - 3) + (1) * (x3 - 22/10)), sq_nonneg ((1/10) * (x4 - 2) + (1) * (x4 - 84/10)), sq_nonneg ((1/10) * (x5 - 5) + (1) * (x5 - 71/10)), sq_nonneg ((1/10) * (x6 - 3) + (1) * (x6 - 57/10)), sq_nonneg ((1/10) * (x7 - 1) + (1) * (x7 - 93/10)), sq_nonneg ((1/10) * (x8 - 3) + (1) * (x8 - 22/10)), sq_nonneg ((1/10) * (x9 - 2) + (1) * (x9 - 84/10)), sq_nonneg ((1/10) * (x10 - 5) + (1) * (x10 - 71/10))]

theorem syn10_pair_2_7 (x1 x2 x3 x4 x5 x6 x7 x8 x9 x10 : ℝ) :
    (10 : ℝ) ≤ ((x1 - 3) ^ 2 + (x2 - 1) ^ 2 + (x3 - 3) ^ 2 + (x4 - 2) ^ 2 + (x5 - 5) ^ 2 + (x6 - 3) ^ 2 + (x7 - 1) ^ 2 + (x8 - 3) ^ 2 + (x9 - 2) ^ 2 + (x10 - 5) ^ 2) / (1) + ((x1 - 55/10) ^ 2 + (x2 - 72/10) ^ 2 + (x3 - 58/10) ^ 2 + (x4 - 23/10) ^ 2 + (x5 - 45/10) ^ 2 + (x6 - 55/10) ^ 2 + (x7 - 72/10) ^ 2 + (x8 - 58/10) ^ 2 + (x9 - 23/10) ^ 2 + (x10 - 45/10) ^ 2) / (1) := by
  linarith [sq_nonneg ((1) * (x1 - 3) + (1) * (x1 - 55/10)), sq_nonneg ((1) * (x2 - 1) + (1) * (x2 - 72/10)), sq_nonneg ((1) * (x3 - 3) + (1) * (x3 - 58/10)), sq_nonneg ((1) * (x4 - 2) + (1) * (x4 - 23/10)), sq_nonneg ((1) * (x5 - 5) + (1) * (x5 - 45/10)), sq_nonneg ((1) * (x6 - 3) + (1) * (x6 - 55/10)), sq_nonneg ((1) * (x7 - 1) + (1) * (x7 - 72/10)), sq_nonneg ((1) * (x8 - 3) + (1) * (x8 - 58/10)), sq_nonneg ((1) * (x9 - 2) + (1) * (x9 - 23/10)), sq_nonneg ((1) * (x10 - 5) + (1) * (x10 - 45/10))]

theorem syn10_pair_2_8 (x1 x2 x3 x4 x5 x6 x7 x8 x9 x10 : ℝ) :
    (10 : ℝ) ≤ ((x1 - 3) ^ 2 + (x2 - 1) ^ 2 + (x3 - 3) ^ 2 + (x4 - 2) ^ 2 + (x5 - 5) ^ 2 + (x6 - 3) ^ 2 + (x7 - 1) ^ 2 + (x8 - 3) ^ 2 + (x9 - 2) ^ 2 + (x10 - 5) ^ 2) / (1) + ((x1 - 47/10) ^ 2 + (x2 - 32/10) ^ 2 + (x3 - 55/10) ^ 2 + (x4 - 71/10) ^ 2 + (x5 - 33/10) ^ 2 + (x6 - 47/10) ^ 2 + (x7 - 32/10) ^ 2 + (x8 - 55/10) ^ 2 + (x9 - 71/10) ^ 2 + (x10 - 33/10) ^ 2) / (2/10) := by
  linarith [sq_nonneg ((2/10) * (x1 - 3) + (1) * (x1 - 47/10)), sq_nonneg ((2/10) * (x2 - 1) + (1) * (x2 - 32/10)), sq_nonneg ((2/10) * (x3 - 3) + (1) * (x3 - 55/10)), sq_nonneg ((2/10) * (x4 - 2) + (1) * (x4 - 71/10)), sq_nonneg ((2/10) * (x5 - 5) + (1) * (x5 - 33/10)), sq_nonneg ((2/10) * (x6 - 3) + (1) * (x6 - 47/10)), sq_nonneg ((2/10) * (x7 - 1) + (1) * (x7 - 32/10)), sq_nonneg ((2/10) * (x8 - 3) + (1) * (x8 - 55/10)), sq_nonneg ((2/10) * (x9 - 2) + (1) * (x9 - 71/10)), sq_nonneg ((2/10) * (x10 - 5) + (1) * (x10 - 33/10))]

theorem syn10_pair_2_9 (x1 x2 x3 x4 x5 x6 x7 x8 x9 x10 : ℝ) :
    (10 : ℝ) ≤ ((x1 - 3) ^ 2 + (x2 - 1) ^ 2 + (x3 - 3) ^ 2 + (x4 - 2) ^ 2 + (x5 - 5) ^ 2 + (x6 - 3) ^ 2 + (x7 - 1) ^ 2 + (x8 - 3) ^ 2 + (x9 - 2) ^ 2 + (x10 - 5) ^ 2) / (1) + ((x1 - 97/10) ^ 2 + (x2 - 84/10) ^ 2 + (x3 - 6/10) ^ 2 + (x4 - 32/10) ^ 2 + (x5 - 85/10) ^ 2 + (x6 - 97/10) ^ 2 + (x7 - 84/10) ^ 2 + (x8 - 6/10) ^ 2 + (x9 - 32/10) ^ 2 + (x10 - 85/10) ^ 2) / (3/10) := by
  linarith [sq_nonneg ((3/10) * (x1 - 3) + (1) * (x1 - 97/10)), sq_nonneg ((3/10) * (x2 - 1) + (1) * (x2 - 84/10)), sq_nonneg ((3/10) * (x3 - 3) + (1) * (x3 - 6/10)), sq_nonneg ((3/10) * (x4 - 2) + (1) * (x4 - 32/10)), sq_nonneg ((3/10) * (x5 - 5) + (1) * (x5 - 85/10)), sq_nonneg ((3/10) * (x6 - 3) + (1) * (x6 - 97/10)), sq_nonneg ((3/10) * (x7 - 1) + (1) * (x7 - 84/10)), sq_nonneg ((3/10) * (x8 - 3) + (1) * (x8 - 6/10)), sq_nonneg ((3/10) * (x9 - 2) + (1) * (x9 - 32/10)), sq_nonneg ((3/10) * (x10 - 5) + (1) * (x10 - 85/10))]

theorem syn10_pair_3_4 (x1 x2 x3 x4 x5 x6 x7 x8 x9 x10 : ℝ) :
    (14 : ℝ) ≤ ((x1 - 3) ^ 2 + (x2 - 4) ^ 2 + (x3 - 13/10) ^ 2 + (x4 - 5) ^ 2 + (x5 - 5) ^ 2 + (x6 - 3) ^ 2 + (x7 - 4) ^ 2 + (x8 - 13/10) ^ 2 + (x9 - 5) ^ 2 + (x10 - 5) ^ 2) / (4/10) + ((x1 - 5) ^ 2 + (x2 - 2) ^ 2 + (x3 - 96/10) ^ 2 + (x4 - 73/10) ^ 2 + (x5 - 86/10) ^ 2 + (x6 - 5) ^ 2 + (x7 - 2) ^ 2 + (x8 - 96/10) ^ 2 + (x9 - 73/10) ^ 2 + (x10 - 86/10) ^ 2) / (6/10) := by
  linarith [sq_nonneg ((6/10) * (x1 - 3) + (4/10) * (x1 - 5)), sq_nonneg ((6/10) * (x2 - 4) + (4/10) * (x2 - 2)), sq_nonneg ((6/10) * (x3 - 13/10) + (4/10) * (x3 - 96/10)), sq_nonneg ((6/10) * (x4 - 5) + (4/10) * (x4 - 73/10)), sq_nonneg ((6/10) * (x5 - 5) + (4/10) * (x5 - 86/10)), sq_nonneg ((6/10) * (x6 - 3) + (4/10) * (x6 - 5)), sq_nonneg ((6/10) * (x7 - 4) + (4/10) * (x7 - 2)), sq_nonneg ((6/10) * (x8 - 13/10) + (4/10) * (x8 - 96/10)), sq_nonneg ((6/10) * (x9 - 5) + (4/10) * (x9 - 73/10)), sq_nonneg ((6/10) * (x10 - 5) + (4/10) * (x10 - 86/10))]

theorem syn10_pair_3_5 (x1 x2 x3 x4 x5 x6 x7 x8 x9 x10 : ℝ) :
    (14 : ℝ) ≤ ((x1 - 3) ^ 2 + (x2 - 4) ^ 2 + (x3 - 13/10) ^ 2 + (x4 - 5) ^ 2 + (x5 - 5) ^ 2 + (x6 - 3) ^ 2 + (x7 - 4) ^ 2 + (x8 - 13/10) ^ 2 + (x9 - 5) ^ 2 + (x10 - 5) ^ 2) / (4/10) + ((x1 - 75/10) ^ 2 + (x2 - 8) ^ 2 + (x3 - 9) ^ 2 + (x4 - 32/10) ^ 2 + (x5 - 46/10) ^ 2 + (x6 - 75/10) ^ 2 + (x7 - 8) ^ 2 + (x8 - 9) ^ 2 + (x9 - 32/10) ^ 2 + (x10 - 46/10) ^ 2) / (5/10) := by
  linarith [sq_nonneg ((5/10) * (x1 - 3) + (4/10) * (x1 - 75/10)), sq_nonneg ((5/10) * (x2 - 4) + (4/10) * (x2 - 8)), sq_nonneg ((5/10) * (x3 - 13/10) + (4/10) * (x3 - 9)), sq_nonneg ((5/10) * (x4 - 5) + (4/10) * (x4 - 32/10)), sq_nonneg ((5/10) * (x5 - 5) + (4/10) * (x5 - 46/10)), sq_nonneg ((5/10) * (x6 - 3) + (4/10) * (x6 - 75/10)), sq_nonneg ((5/10) * (x7 - 4) + (4/10) * (x7 - 8)), sq_nonneg ((5/10) * (x8 - 13/10) + (4/10) * (x8 - 9)), sq_nonneg ((5/10) * (x9 - 5) + (4/10) * (x9 - 32/10)), sq_nonneg ((5/10) * (x10 - 5) + (4/10) * (x10 - 46/10))]

theorem syn10_pair_3_6 (x1 x2 x3 x4 x5 x6 x7 x8 x9 x10 : ℝ) :
    (14 : ℝ) ≤ ((x1 - 3) ^ 2 + (x2 - 4) ^ 2 + (x3 - 13/10) ^ 2 + (x4 - 5) ^ 2 + (x5 - 5) ^ 2 + (x6 - 3) ^ 2 + (x7 - 4) ^ 2 + (x8 - 13/10) ^ 2 + (x9 - 5) ^ 2 + (x10 - 5) ^ 2) / (4/10) + ((x1 - 57/10) ^ 2 + (x2 - 93/10) ^ 2 + (x3 - 22/10) ^ 2 + (x4 - 84/10) ^ 2 + (x5 - 71/10) ^ 2 + (x6 - 57/10) ^ 2 + (x7 - 93/10) ^ 2 + (x8 - 22/10) ^ 2 + (x9 - 84/10) ^ 2 + (x10 - 71/10) ^ 2) / (1/10) := by
  linarith [sq_nonneg ((1/10) * (x1 - 3) + (4/10) * (x1 - 57/10)), sq_nonneg ((1/10) * (x2 - 4) + (4/10) * (x2 - 93/10)), sq_nonneg ((1/10) * (x3 - 13/10) + (4/10) * (x3 - 22/10)), sq_nonneg ((1/10) * (x4 - 5) + (4/10) * (x4 - 84/10)), sq_nonneg ((1/10) * (x5 - 5) + (4/10) * (x5 - 71/10)), sq_nonneg ((1/10) * (x6 - 3) + (4/10) * (x6 - 57/10)), sq_nonneg ((1/10) * (x7 - 4) + (4/10) * (x7 - 93/10)), sq_nonneg ((1/10) * (x8 - 13/10) + (4/10) * (x8 - 22/10)), sq_nonneg ((1/10) * (x9 - 5) + (4/10) * (x9 - 84/10)), sq_nonneg ((1/10) * (x10 - 5) + (4/10) * (x10 - 71/10))]

theorem syn10_pair_3_7 (x1 x2 x3 x4 x5 x6 x7 x8 x9 x10 : ℝ) :
    (14 : ℝ) ≤ ((x1 - 3) ^ 2 + (x2 - 4) ^ 2 + (x3 - 13/10) ^ 2 + (x4 - 5) ^ 2 + (x5 - 5) ^ 2 + (x6 - 3) ^ 2 + (x7 - 4) ^ 2 + (x8 - 13/10) ^ 2 + (x9 - 5) ^ 2 + (x10 - 5) ^ 2) / (4/10) + ((x1 - 55/10) ^ 2 + (x2 - 72/10) ^ 2 + (x3 - 58/10) ^ 2 + (x4 - 23/10) ^ 2 + (x5 - 45/10) ^ 2 + (x6 - 55/10) ^ 2 + (x7 - 72/10) ^ 2 + (x8 - 58/10) ^ 2 + (x9 - 23/10) ^ 2 + (x10 - 45/10) ^ 2) / (1) := by
  linarith [sq_nonneg ((1) * (x1 - 3) + (4/10) * (x1 - 55/10)), sq_nonneg ((1) * (x2 - 4) + (4/10) * (x2 - 72/10)), sq_nonneg ((1) * (x3 - 13/10) + (4/10) * (x3 - 58/10)), sq_nonneg ((1) * (x4 - 5) + (4/10) * (x4 - 23/10)), sq_nonneg ((1) * (x5 - 5) + (4/10) * (x5 - 45/10)), sq_nonneg ((1) * (x6 - 3) + (4/10) * (x6 - 55/10)), sq_nonneg ((1) * (x7 - 4) + (4/10) * (x7 - 72/10)), sq_nonneg ((1) * (x8 - 13/10) + (4/10) * (x8 - 58/10)), sq_nonneg ((1) * (x9 - 5) + (4/10) * (x9 - 23/10)), sq_nonneg ((1) * (x10 - 5) + (4/10) * (x10 - 45/10))]

theorem syn10_pair_3_8 (x1 x2 x3 x4 x5 x6 x7 x8 x9 x10 : ℝ) :
    (14 : ℝ) ≤ ((x1 - 3) ^ 2 + (x2 - 4) ^ 2 + (x3 - 13/10) ^ 2 + (x4 - 5) ^ 2 + (x5 - 5) ^ 2 + (x6 - 3) ^ 2 + (x7 - 4) ^ 2 + (x8 - 13/10) ^ 2 + (x9 - 5) ^ 2 + (x10 - 5) ^ 2) / (4/10) + ((x1 - 47/10) ^ 2 + (x2 - 32/10) ^ 2 + (x3 - 55/10) ^ 2 + (x4 - 71/10) ^ 2 + (x5 - 33/10) ^ 2 + (x6 - 47/10) ^ 2 + (x7 - 32/10) ^ 2 + (x8 - 55/10) ^ 2 + (x9 - 71/10) ^ 2 + (x10 - 33/10) ^ 2) / (2/10) := by
  linarith [sq_nonneg ((2/10) * (x1 - 3) + (4/10) * (x1 - 47/10)), sq_nonneg ((2/10) * (x2 - 4) + (4/10) * (x2 - 32/10)), sq_nonneg ((2/10) * (x3 - 13/10) + (4/10) * (x3 - 55/10)), sq_nonneg ((2/10) * (x4 - 5) + (4/10) * (x4 - 71/10)), sq_nonneg ((2/10) * (x5 - 5) + (4/10) * (x5 - 33/10)), sq_nonneg ((2/10) * (x6 - 3) + (4/10) * (x6 - 47/10)), sq_nonneg ((2/10) * (x7 - 4) + (4/10) * (x7 - 32/10)), sq_nonneg ((2/10) * (x8 - 13/10) + (4/10) * (x8 - 55/10)), sq_nonneg ((2/10) * (x9 - 5) + (4/10) * (x9 - 71/10)), sq_nonneg ((2/10) * (x10 - 5) + (4/10) * (x10 - 33/10))]

theorem syn10_pair_3_9 (x1 x2 x3 x4 x5 x6 x7 x8 x9 x10 : ℝ) :
    (14 : ℝ) ≤ ((x1 - 3) ^ 2 + (x2 - 4) ^ 2 + (x3 - 13/10) ^ 2 + (x4 - 5) ^ 2 + (x5 - 5) ^ 2 + (x6 - 3) ^ 2 + (x7 - 4) ^ 2 + (x8 - 13/10) ^ 2 + (x9 - 5) ^ 2 + (x10 - 5) ^ 2) / (4/10) + ((x1 - 97/10) ^ 2 + (x2 - 84/10) ^ 2 + (x3 - 6/10) ^ 2 + (x4 - 32/10) ^ 2 + (x5 - 85/10) ^ 2 + (x6 - 97/10) ^ 2 + (x7 - 84/10) ^ 2 + (x8 - 6/10) ^ 2 + (x9 - 32/10) ^ 2 + (x10 - 85/10) ^ 2) / (3/10) := by
  linarith [sq_nonneg ((3/10) * (x1 - 3) + (4/10) * (x1 - 97/10)), sq_nonneg ((3/10) * (x2 - 4) + (4/10) * (x2 - 84/10)), sq_nonneg ((3/10) * (x3 - 13/10) + (4/10) * (x3 - 6/10)), sq_nonneg ((3/10) * (x4 - 5) + (4/10) * (x4 - 32/10)), sq_nonneg ((3/10) * (x5 - 5) + (4/10) * (x5 - 85/10)), sq_nonneg ((3/10) * (x6 - 3) + (4/10) * (x6 - 97/10)), sq_nonneg ((3/10) * (x7 - 4) + (4/10) * (x7 - 84/10)), sq_nonneg ((3/10) * (x8 - 13/10) + (4/10) * (x8 - 6/10)), sq_nonneg ((3/10) * (x9 - 5) + (4/10) * (x9 - 32/10)), sq_nonneg ((3/10) * (x10 - 5) + (4/10) * (x10 - 85/10))]

theorem syn10_pair_4_5 (x1 x2 x3 x4 x5 x6 x7 x8 x9 x10 : ℝ) :
    (10 : ℝ) ≤ ((x1 - 5) ^ 2 + (x2 - 2) ^ 2 + (x3 - 96/10) ^ 2 + (x4 - 73/10) ^ 2 + (x5 - 86/10) ^ 2 + (x6 - 5) ^ 2 + (x7 - 2) ^ 2 + (x8 - 96/10) ^ 2 + (x9 - 73/10) ^ 2 + (x10 - 86/10) ^ 2) / (6/10) + ((x1 - 75/10) ^ 2 + (x2 - 8) ^ 2 + (x3 - 9) ^ 2 + (x4 - 32/10) ^ 2 + (x5 - 46/10) ^ 2 + (x6 - 75/10) ^ 2 + (x7 - 8) ^ 2 + (x8 - 9) ^ 2 + (x9 - 32/10) ^ 2 + (x10 - 46/10) ^ 2) / (5/10) := by
  linarith [sq_nonneg ((5/10) * (x1 - 5) + (6/10) * (x1 - 75/10)), sq_nonneg ((5/10) * (x2 - 2) + (6/10) * (x2 - 8)), sq_nonneg ((5/10) * (x3 - 96/10) + (6/10) * (x3 - 9)), sq_nonneg ((5/10) * (x4 - 73/10) + (6/10) * (x4 - 32/10)), sq_nonneg ((5/10) * (x5 - 86/10) + (6/10) * (x5 - 46/10)), sq_nonneg ((5/10) * (x6 - 5) + (6/10) * (x6 - 75/10)), sq_nonneg ((5/10) * (x7 - 2) + (6/10) * (x7 - 8)), sq_nonneg ((5/10) * (x8 - 96/10) + (6/10) * (x8 - 9)), sq_nonneg ((5/10) * (x9 - 73/10) + (6/10) * (x9 - 32/10)), sq_nonneg ((5/10) * (x10 - 86/10) + (6/10) * (x10 - 46/10))]

theorem syn10_pair_4_6 (x1 x2 x3 x4 x5 x6 x7 x8 x9 x10 : ℝ) :
    (10 : ℝ) ≤ ((x1 - 5) ^ 2 + (x2 - 2) ^ 2 + (x3 - 96/10) ^ 2 + (x4 - 73/10) ^ 2 + (x5 - 86/10) ^ 2 + (x6 - 5) ^ 2 + (x7 - 2) ^ 2 + (x8 - 96/10) ^ 2 + (x9 - 73/10) ^ 2 + (x10 - 86/10) ^ 2) / (6/10) + ((x1 - 57/10) ^ 2 + (x2 - 93/10) ^ 2 + (x3 - 22/10) ^ 2 + (x4 - 84/10) ^ 2 + (x5 - 71/10) ^ 2 + (x6 - 57/10) ^ 2 + (x7 - 93/10) ^ 2 + (x8 - 22/10) ^ 2 + (x9 - 84/10) ^ 2 + (x10 - 71/10) ^ 2) / (1/10) := by
  linarith [sq_nonneg ((1/10) * (x1 - 5) + (6/10) * (x1 - 57/10)), sq_nonneg ((1/10) * (x2 - 2) + (6/10) * (x2 - 93/10)), sq_nonneg ((1/10) * (x3 - 96/10) + (6/10) * (x3 - 22/10)), sq_nonneg ((1/10) * (x4 - 73/10) + (6/10) * (x4 - 84/10)), sq_nonneg ((1/10) * (x5 - 86/10) + (6/10) * (x5 - 71/10)), sq_nonneg ((1/10) * (x6 - 5) + (6/10) * (x6 - 57/10)), sq_nonneg ((1/10) * (x7 - 2) + (6/10) * (x7 - 93/10)), sq_nonneg ((1/10) * (x8 - 96/10) + (6/10) * (x8 - 22/10)), sq_nonneg ((1/10) * (x9 - 73/10) + (6/10) * (x9 - 84/10)), sq_nonneg ((1/10) * (x10 - 86/10) + (6/10) * (x10 - 71/10))]

theorem syn10_pair_4_7 (x1 x2 x3 x4 x5 x6 x7 x8 x9 x10 : ℝ) :
    (10 : ℝ) ≤ ((x1 - 5) ^ 2 + (x2 - 2) ^ 2 + (x3 - 96/10) ^ 2 + (x4 - 73/10) ^ 2 + (x5 - 86/10) ^ 2 + (x6 - 5) ^ 2 + (x7 - 2) ^ 2 + (x8 - 96/10) ^ 2 + (x9 - 73/10) ^ 2 + (x10 - 86/10) ^ 2) / (6/10) + ((x1 - 55/10) ^ 2 + (x2 - 72/10) ^ 2 + (x3 - 58/10) ^ 2 + (x4 - 23/10) ^ 2 + (x5 - 45/10) ^ 2 + (x6 - 55/10) ^ 2 + (x7 - 72/10) ^ 2 + (x8 - 58/10) ^ 2 + (x9 - 23/10) ^ 2 + (x10 - 45/10) ^ 2) / (1) := by
  linarith [sq_nonneg ((1) * (x1 - 5) + (6/10) * (x1 - 55/10)), sq_nonneg ((1) * (x2 - 2) + (6/10) * (x2 - 72/10)), sq_nonneg ((1) * (x3 - 96/10) + (6/10) * (x3 - 58/10)), sq_nonneg ((1) * (x4 - 73/10) + (6/10) * (x4 - 23/10)), sq_nonneg ((1) * (x5 - 86/10) + (6/10) * (x5 - 45/10)), sq_nonneg ((1) * (x6 - 5) + (6/10) * (x6 - 55/10)), sq_nonneg ((1) * (x7 - 2) + (6/10) * (x7 - 72/10)), sq_nonneg ((1) * (x8 - 96/10) + (6/10) * (x8 - 58/10)), sq_nonneg ((1) * (x9 - 73/10) + (6/10) * (x9 - 23/10)), sq_nonneg ((1) * (x10 - 86/10) + (6/10) * (x10 - 45/10))]

theorem syn10_pair_4_8 (x1 x2 x3 x4 x5 x6 x7 x8 x9 x10 : ℝ) :
    (10 : ℝ) ≤ ((x1 - 5) ^ 2 + (x2 - 2) ^ 2 + (x3 - 96/10) ^ 2 + (x4 - 73/10) ^ 2 + (x5 - 86/10) ^ 2 + (x6 - 5) ^ 2 + (x7 - 2) ^ 2 + (x8 - 96/10) ^ 2 + (x9 - 73/10) ^ 2 + (x10 - 86/10) ^ 2) / (6/10) + ((x1 - 47/10) ^ 2 + (x2 - 32/10) ^ 2 + (x3 - 55/10) ^ 2 + (x4 - 71/10) ^ 2 + (x5 - 33/10) ^ 2 + (x6 - 47/10) ^ 2 + (x7 - 32/10) ^ 2 + (x8 - 55/10) ^ 2 + (x9 - 71/10) ^ 2 + (x10 - 33/10) ^ 2) / (2/10) := by
  linarith [sq_nonneg ((2/10) * (x1 - 5) + (6/10) * (x1 - 47/10)), sq_nonneg ((2/10) * (x2 - 2) + (6/10) * (x2 - 32/10)), sq_nonneg ((2/10) * (x3 - 96/10) + (6/10) * (x3 - 55/10)), sq_nonneg ((2/10) * (x4 - 73/10) + (6/10) * (x4 - 71/10)), sq_nonneg ((2/10) * (x5 - 86/10) + (6/10) * (x5 - 33/10)), sq_nonneg ((2/10) * (x6 - 5) + (6/10) * (x6 - 47/10)), sq_nonneg ((2/10) * (x7 - 2) + (6/10) * (x7 - 32/10)), sq_nonneg ((2/10) * (x8 - 96/10) + (6/10) * (x8 - 55/10)), sq_nonneg ((2/10) * (x9 - 73/10) + (6/10) * (x9 - 71/10)), sq_nonneg ((2/10) * (x10 - 86/10) + (6/10) * (x10 - 33/10))]

theorem syn10_pair_4_9 (x1 x2 x3 x4 x5 x6 x7 x8 x9 x10 : ℝ) :
    (10 : ℝ) ≤ ((x1 - 5) ^ 2 + (x2 - 2) ^ 2 + (x3 - 96/10) ^ 2 + (x4 - 73/10) ^ 2 + (x5 - 86/10) ^ 2 + (x6 - 5) ^ 2 + (x7 - 2) ^ 2 + (x8 - 96/10) ^ 2 + (x9 - 73/10) ^ 2 + (x10 - 86/10) ^ 2) / (6/10) + ((x1 - 97/10) ^ 2 + (x2 - 84/10) ^ 2 + (x3 - 6/10) ^ 2 + (x4 - 32/10) ^ 2 + (x5 - 85/10) ^ 2 + (x6 - 97/10) ^ 2 + (x7 - 84/10) ^ 2 + (x8 - 6/10) ^ 2 + (x9 - 32/10) ^ 2 + (x10 - 85/10) ^ 2) / (3/10) := by
  linarith [sq_nonneg ((3/10) * (x1 - 5) + (6/10) * (x1 - 97/10)), sq_nonneg ((3/10) * (x2 - 2) + (6/10) * (x2 - 84/10)), sq_nonneg ((3/10) * (x3 - 96/10) + (6/10) * (x3 - 6/10)), sq_nonneg ((3/10) * (x4 - 73/10) + (6/10) * (x4 - 32/10)), sq_nonneg ((3/10) * (x5 - 86/10) + (6/10) * (x5 - 85/10)), sq_nonneg ((3/10) * (x6 - 5) + (6/10) * (x6 - 97/10)), sq_nonneg ((3/10) * (x7 - 2) + (6/10) * (x7 - 84/10)), sq_nonneg ((3/10) * (x8 - 96/10) + (6/10) * (x8 - 6/10)), sq_nonneg ((3/10) * (x9 - 73/10) + (6/10) * (x9 - 32/10)), sq_nonneg ((3/10) * (x10 - 86/10) + (6/10) * (x10 - 85/10))]

theorem syn10_pair_5_6 (x1 x2 x3 x4 x5 x6 x7 x8 x9 x10 : ℝ) :
    (10 : ℝ) ≤ ((x1 - 75/10) ^ 2 + (x2 - 8) ^ 2 + (x3 - 9) ^ 2 + (x4 - 32/10) ^ 2 + (x5 - 46/10) ^ 2 + (x6 - 75/10) ^ 2 + (x7 - 8) ^ 2 + (x8 - 9) ^ 2 + (x9 - 32/10) ^ 2 + (x10 - 46/10) ^ 2) / (5/10) + ((x1 - 57/10) ^ 2 + (x2 - 93/10) ^ 2 + (x3 - 22/10) ^ 2 + (x4 - 84/10) ^ 2 + (x5 - 71/10) ^ 2 + (x6 - 57/10) ^ 2 + (x7 - 93/10) ^ 2 + (x8 - 22/10) ^ 2 + (x9 - 84/10) ^ 2 + (x10 - 71/10) ^ 2) / (1/10) := by
  linarith [sq_nonneg ((1/10) * (x1 - 75/10) + (5/10) * (x1 - 57/10)), sq_nonneg ((1/10) * (x2 - 8) + (5/10) * (x2 - 93/10)), sq_nonneg ((1/10) * (x3 - 9) + (5/10) * (x3 - 22/10)), sq_nonneg ((1/10) * (x4 - 32/10) + (5/10) * (x4 - 84/10)), sq_nonneg ((1/10) * (x5 - 46/10) + (5/10) * (x5 - 71/10)), sq_nonneg ((1/10) * (x6 - 75/10) + (5/10) * (x6 - 57/10)), sq_nonneg ((1/10) * (x7 - 8) + (5/10) * (x7 - 93/10)), sq_nonneg ((1/10) * (x8 - 9) + (5/10) * (x8 - 22/10)), sq_nonneg ((1/10) * (x9 - 32/10) + (5/10) * (x9 - 84/10)), sq_nonneg ((1/10) * (x10 - 46/10) + (5/10) * (x10 - 71/10))]

theorem syn10_pair_5_7 (x1 x2 x3 x4 x5 x6 x7 x8 x9 x10 : ℝ) :
    (10 : ℝ) ≤ ((x1 - 75/10) ^ 2 + (x2 - 8) ^ 2 + (x3 - 9) ^ 2 + (x4 - 32/10) ^ 2 + (x5 - 46/10) ^ 2 + (x6 - 75/10) ^ 2 + (x7 - 8) ^ 2 + (x8 - 9) ^ 2 + (x9 - 32/10) ^ 2 + (x10 - 46/10) ^ 2) / (5/10) + ((x1 - 55/10) ^ 2 + (x2 - 72/10) ^ 2 + (x3 - 58/10) ^ 2 + (x4 - 23/10) ^ 2 + (x5 - 45/10) ^ 2 + (x6 - 55/10) ^ 2 + (x7 - 72/10) ^ 2 + (x8 - 58/10) ^ 2 + (x9 - 23/10) ^ 2 + (x10 - 45/10) ^ 2) / (1) := by
  linarith [sq_nonneg ((1) * (x1 - 75/10) + (5/10) * (x1 - 55/10)), sq_nonneg ((1) * (x2 - 8) + (5/10) * (x2 - 72/10)), sq_nonneg ((1) * (x3 - 9) + (5/10) * (x3 - 58/10)), sq_nonneg ((1) * (x4 - 32/10) + (5/10) * (x4 - 23/10)), sq_nonneg ((1) * (x5 - 46/10) + (5/10) * (x5 - 45/10)), sq_nonneg ((1) * (x6 - 75/10) + (5/10) * (x6 - 55/10)), sq_nonneg ((1) * (x7 - 8) + (5/10) * (x7 - 72/10)), sq_nonneg ((1) * (x8 - 9) + (5/10) * (x8 - 58/10)), sq_nonneg ((1) * (x9 - 32/10) + (5/10) * (x9 - 23/10)), sq_nonneg ((1) * (x10 - 46/10) + (5/10) * (x10 - 45/10))]

theorem syn10_pair_5_8 (x1 x2 x3 x4 x5 x6 x7 x8 x9 x10 : ℝ) :
    (10 : ℝ) ≤ ((x1 - 75/10) ^ 2 + (x2 - 8) ^ 2 + (x3 - 9) ^ 2 + (x4 - 32/10) ^ 2 + (x5 - 46/10) ^ 2 + (x6 - 75/10) ^ 2 + (x7 - 8) ^ 2 + (x8 - 9) ^ 2 + (x9 - 32/10) ^ 2 + (x10 - 46/10) ^ 2) / (5/10) + ((x1 - 47/10) ^ 2 + (x2 - 32/10) ^ 2 + (x3 - 55/10) ^ 2 + (x4 - 71/10) ^ 2 + (x5 - 33/10) ^ 2 + (x6 - 47/10) ^ 2 + (x7 - 32/10) ^ 2 + (x8 - 55/10) ^ 2 + (x9 - 71/10) ^ 2 + (x10 - 33/10) ^ 2) / (2/10) := by
  linarith [sq_nonneg ((2/10) * (x1 - 75/10) + (5/10) * (x1 - 47/10)), sq_nonneg ((2/10) * (x2 - 8) + (5/10) * (x2 - 32/10)), sq_nonneg ((2/10) * (x3 - 9) + (5/10) * (x3 - 55/10)), sq_nonneg ((2/10) * (x4 - 32/10) + (5/10) * (x4 - 71/10)), sq_nonneg ((2/10) * (x5 - 46/10) + (5/10) * (x5 - 33/10)), sq_nonneg ((2/10) * (x6 - 75/10) + (5/10) * (x6 - 47/10)), sq_nonneg ((2/10) * (x7 - 8) + (5/10) * (x7 - 32/10)), sq_nonneg ((2/10) * (x8 - 9) + (5/10) * (x8 - 55/10)), sq_nonneg ((2/10) * (x9 - 32/10) + (5/10) * (x9 - 71/10)), sq_nonneg ((2/10) * (x10 - 46/10) + (5/10) * (x10 - 33/10))]

theorem syn10_pair_5_9 (x1 x2 x3 x4 x5 x6 x7 x8 x9 x10 : ℝ) :
    (10 : ℝ) ≤ ((x1 - 75/10) ^ 2 + (x2 - 8) ^ 2 + (x3 - 9) ^ 2 + (x4 - 32/10) ^ 2 + (x5 - 46/10) ^ 2 + (x6 - 75/10) ^ 2 + (x7 - 8) ^ 2 + (x8 - 9) ^ 2 + (x9 - 32/10) ^ 2 + (x10 - 46/10) ^ 2) / (5/10) + ((x1 - 97/10) ^ 2 + (x2 - 84/10) ^ 2 + (x3 - 6/10) ^ 2 + (x4 - 32/10) ^ 2 + (x5 - 85/10) ^ 2 + (x6 - 97/10) ^ 2 + (x7 - 84/10) ^ 2 + (x8 - 6/10) ^ 2 + (x9 - 32/10) ^ 2 + (x10 - 85/10) ^ 2) / (3/10) := by
  linarith [sq_nonneg ((3/10) * (x1 - 75/10) + (5/10) * (x1 - 97/10)), sq_nonneg ((3/10) * (x2 - 8) + (5/10) * (x2 - 84/10)), sq_nonneg ((3/10) * (x3 - 9) + (5/10) * (x3 - 6/10)), sq_nonneg ((3/10) * (x4 - 32/10) + (5/10) * (x4 - 32/10)), sq_nonneg ((3/10) * (x5 - 46/10) + (5/10) * (x5 - 85/10)), sq_nonneg ((3/10) * (x6 - 75/10) + (5/10) * (x6 - 97/10)), sq_nonneg ((3/10) * (x7 - 8) + (5/10) * (x7 - 84/10)), sq_nonneg ((3/10) * (x8 - 9) + (5/10) * (x8 - 6/10)), sq_nonneg ((3/10) * (x9 - 32/10) + (5/10) * (x9 - 32/10)), sq_nonneg ((3/10) * (x10 - 46/10) + (5/10) * (x10 - 85/10))]

theorem syn10_pair_6_7 (x1 x2 x3 x4 x5 x6 x7 x8 x9 x10 : ℝ) :
    (10 : ℝ) ≤ ((x1 - 57/10) ^ 2 + (x2 - 93/10) ^ 2 + (x3 - 22/10) ^ 2 + (x4 - 84/10) ^ 2 + (x5 - 71/10) ^ 2 + (x6 - 57/10) ^ 2 + (x7 - 93/10) ^ 2 + (x8 - 22/10) ^ 2 + (x9 - 84/10) ^ 2 + (x10 - 71/10) ^ 2) / (1/10) + ((x1 - 55/10) ^ 2 + (x2 - 72/10) ^ 2 + (x3 - 58/10) ^ 2 + (x4 - 23/10) ^ 2 + (x5 - 45/10) ^ 2 + (x6 - 55/10) ^ 2 + (x7 - 72/10) ^ 2 + (x8 - 58/10) ^ 2 + (x9 - 23/10) ^ 2 + (x10 - 45/10) ^ 2) / (1) := by
  linarith [sq_nonneg ((1) * (x1 - 57/10) + (1/10) * (x1 - 55/10)), sq_nonneg ((1) * (x2 - 93/10) + (1/10) * (x2 - 72/10)), sq_nonneg ((1) * (x3 - 22/10) + (1/10) * (x3 - 58/10)), sq_nonneg ((1) * (x4 - 84/10) + (1/10) * (x4 - 23/10)), sq_nonneg ((1) * (x5 - 71/10) + (1/10) * (x5 - 45/10)), sq_nonneg ((1) * (x6 - 57/10) + (1/10) * (x6 - 55/10)), sq_nonneg ((1) * (x7 - 93/10) + (1/10) * (x7 - 72/10)), sq_nonneg ((1) * (x8 - 22/10) + (1/10) * (x8 - 58/10)), sq_nonneg ((1) * (x9 - 84/10) + (1/10) * (x9 - 23/10)), sq_nonneg ((1) * (x10 - 71/10) + (1/10) * (x10 - 45/10))]

theorem syn10_pair_6_8 (x1 x2 x3 x4 x5 x6 x7 x8 x9 x10 : ℝ) :
    (10 : ℝ) ≤ ((x1 - 57/10) ^ 2 + (x2 - 93/10) ^ 2 + (x3 - 22/10) ^ 2 + (x4 - 84/10) ^ 2 + (x5 - 71/10) ^ 2 + (x6 - 57/10) ^ 2 + (x7 - 93/10) ^ 2 + (x8 - 22/10) ^ 2 + (x9 - 84/10) ^ 2 + (x10 - 71/10) ^ 2) / (1/10) + ((x1 - 47/10) ^ 2 + (x2 - 32/10) ^ 2 + (x3 - 55/10) ^ 2 + (x4 - 71/10) ^ 2 + (x5 - 33/10) ^ 2 + (x6 - 47/10) ^ 2 + (x7 - 32/10) ^ 2 + (x8 - 55/10) ^ 2 + (x9 - 71/10) ^ 2 + (x10 - 33/10) ^ 2) / (2/10) := by
  linarith [sq_nonneg ((2/10) * (x1 - 57/10) + (1/10) * (x1 - 47/10)), sq_nonneg ((2/10) * (x2 - 93/10) + (1/10) * (x2 - 32/10)), sq_nonneg ((2/10) * (x3 - 22/10) + (1/10) * (x3 - 55/10)), sq_nonneg ((2/10) * (x4 - 84/10) + (1/10) * (x4 - 71/10)), sq_nonneg ((2/10) * (x5 - 71/10) + (1/10) * (x5 - 33/10)), sq_nonneg ((2/10) * (x6 - 57/10) + (1/10) * (x6 - 47/10)), sq_nonneg ((2/10) * (x7 - 93/10) + (1/10) * (x7 - 32/10)), sq_nonneg ((2/10) * (x8 - 22/10) + (1/10) * (x8 - 55/10)), sq_nonneg ((2/10) * (x9 - 84/10) + (1/10) * (x9 - 71/10)), sq_nonneg ((2/10) * (x10 - 71/10) + (1/10) * (x10 - 33/10))]

theorem syn10_pair_6_9 (x1 x2 x3 x4 x5 x6 x7 x8 x9 x10 : ℝ) :
    (10 : ℝ) ≤ ((x1 - 57/10) ^ 2 + (x2 - 93/10) ^ 2 + (x3 - 22/10) ^ 2 + (x4 - 84/10) ^ 2 + (x5 - 71/10) ^ 2 + (x6 - 57/10) ^ 2 + (x7 - 93/10) ^ 2 + (x8 - 22/10) ^ 2 + (x9 - 84/10) ^ 2 + (x10 - 71/10) ^ 2) / (1/10) + ((x1 - 97/10) ^ 2 + (x2 - 84/10) ^ 2 + (x3 - 6/10) ^ 2 + (x4 - 32/10) ^ 2 + (x5 - 85/10) ^ 2 + (x6 - 97/10) ^ 2 + (x7 - 84/10) ^ 2 + (x8 - 6/10) ^ 2 + (x9 - 32/10) ^ 2 + (x10 - 85/10) ^ 2) / (3/10) := by
  linarith [sq_nonneg ((3/10) * (x1 - 57/10) + (1/10) * (x1 - 97/10)), sq_nonneg ((3/10) * (x2 - 93/10) + (1/10) * (x2 - 84/10)), sq_nonneg ((3/10) * (x3 - 22/10) + (1/10) * (x3 - 6/10)), sq_nonneg ((3/10) * (x4 - 84/10) + (1/10) * (x4 - 32/10)), sq_nonneg ((3/10) * (x5 - 71/10) + (1/10) * (x5 - 85/10)), sq_nonneg ((3/10) * (x6 - 57/10) + (1/10) * (x6 - 97/10)), sq_nonneg ((3/10) * (x7 - 93/10) + (1/10) * (x7 - 84/10)), sq_nonneg ((3/10) * (x8 - 22/10) + (1/10) * (x8 - 6/10)), sq_nonneg ((3/10) * (x9 - 84/10) + (1/10) * (x9 - 32/10)), sq_nonneg ((3/10) * (x10 - 71/10) + (1/10) * (x10 - 85/10))]

theorem syn10_pair_7_8 (x1 x2 x3 x4 x5 x6 x7 x8 x9 x10 : ℝ) :
    (10 : ℝ) ≤ ((x1 - 55/10) ^ 2 + (x2 - 72/10) ^ 2 + (x3 - 58/10) ^ 2 + (x4 - 23/10) ^ 2 + (x5 - 45/10) ^ 2 + (x6 - 55/10) ^ 2 + (x7 - 72/10) ^ 2 + (x8 - 58/10) ^ 2 + (x9 - 23/10) ^ 2 + (x10 - 45/10) ^ 2) / (1) + ((x1 - 47/10) ^ 2 + (x2 - 32/10) ^ 2 + (x3 - 55/10) ^ 2 + (x4 - 71/10) ^ 2 + (x5 - 33/10) ^ 2 + (x6 - 47/10) ^ 2 + (x7 - 32/10) ^ 2 + (x8 - 55/10) ^ 2 + (x9 - 71/10) ^ 2 + (x10 - 33/10) ^ 2) / (2/10) := by
  linarith [sq_nonneg ((2/10) * (x1 - 55/10) + (1) * (x1 - 47/10)), sq_nonneg ((2/10) * (x2 - 72/10) + (1) * (x2 - 32/10)), sq_nonneg ((2/10) * (x3 - 58/10) + (1) * (x3 - 55/10)), sq_nonneg ((2/10) * (x4 - 23/10) + (1) * (x4 - 71/10)), sq_nonneg ((2/10) * (x5 - 45/10) + (1) * (x5 - 33/10)), sq_nonneg ((2/10) * (x6 - 55/10) + (1) * (x6 - 47/10)), sq_nonneg ((2/10) * (x7 - 72/10) + (1) * (x7 - 32/10)), sq_nonneg ((2/10) * (x8 - 58/10) + (1) * (x8 - 55/10)), sq_nonneg ((2/10) * (x9 - 23/10) + (1) * (x9 - 71/10)), sq_nonneg ((2/10) * (x10 - 45/10) + (1) * (x10 - 33/10))]

theorem syn10_pair_7_9 (x1 x2 x3 x4 x5 x6 x7 x8 x9 x10 : ℝ) :
    (10 : ℝ) ≤ ((x1 - 55/10) ^ 2 + (x2 - 72/10) ^ 2 + (x3 - 58/10) ^ 2 + (x4 - 23/10) ^ 2 + (x5 - 45/10) ^ 2 + (x6 - 55/10) ^ 2 + (x7 - 72/10) ^ 2 + (x8 - 58/10) ^ 2 + (x9 - 23/10) ^ 2 + (x10 - 45/10) ^ 2) / (1) + ((x1 - 97/10) ^ 2 + (x2 - 84/10) ^ 2 + (x3 - 6/10) ^ 2 + (x4 - 32/10) ^ 2 + (x5 - 85/10) ^ 2 + (x6 - 97/10) ^ 2 + (x7 - 84/10) ^ 2 + (x8 - 6/10) ^ 2 + (x9 - 32/10) ^ 2 + (x10 - 85/10) ^ 2) / (3/10) := by
  linarith [sq_nonneg ((3/10) * (x1 - 55/10) + (1) * (x1 - 97/10)), sq_nonneg ((3/10) * (x2 - 72/10) + (1) * (x2 - 84/10)), sq_nonneg ((3/10) * (x3 - 58/10) + (1) * (x3 - 6/10)), sq_nonneg ((3/10) * (x4 - 23/10) + (1) * (x4 - 32/10)), sq_nonneg ((3/10) * (x5 - 45/10) + (1) * (x5 - 85/10)), sq_nonneg ((3/10) * (x6 - 55/10) + (1) * (x6 - 97/10)), sq_nonneg ((3/10) * (x7 - 72/10) + (1) * (x7 - 84/10)), sq_nonneg ((3/10) * (x8 - 58/10) + (1) * (x8 - 6/10)), sq_nonneg ((3/10) * (x9 - 23/10) + (1) * (x9 - 32/10)), sq_nonneg ((3/10) * (x10 - 45/10) + (1) * (x10 - 85/10))]

theorem syn10_pair_8_9 (x1 x2 x3 x4 x5 x6 x7 x8 x9 x10 : ℝ) :
    (10 : ℝ) ≤ ((x1 - 47/10) ^ 2 + (x2 - 32/10) ^ 2 + (x3 - 55/10) ^ 2 + (x4 - 71/10) ^ 2 + (x5 - 33/10) ^ 2 + (x6 - 47/10) ^ 2 + (x7 - 32/10) ^ 2 + (x8 - 55/10) ^ 2 + (x9 - 71/10) ^ 2 + (x10 - 33/10) ^ 2) / (2/10) + ((x1 - 97/10) ^ 2 + (x2 - 84/10) ^ 2 + (x3 - 6/10) ^ 2 + (x4 - 32/10) ^ 2 + (x5 - 85/10) ^ 2 + (x6 - 97/10) ^ 2 + (x7 - 84/10) ^ 2 + (x8 - 6/10) ^ 2 + (x9 - 32/10) ^ 2 + (x10 - 85/10) ^ 2) / (3/10) := by
  linarith [sq_nonneg ((3/10) * (x1 - 47/10) + (2/10) * (x1 - 97/10)), sq_nonneg ((3/10) * (x2 - 32/10) + (2/10) * (x2 - 84/10)), sq_nonneg ((3/10) * (x3 - 55/10) + (2/10) * (x3 - 6/10)), sq_nonneg ((3/10) * (x4 - 71/10) + (2/10) * (x4 - 32/10)), sq_nonneg ((3/10) * (x5 - 33/10) + (2/10) * (x5 - 85/10)), sq_nonneg ((3/10) * (x6 - 47/10) + (2/10) * (x6 - 97/10)), sq_nonneg ((3/10) * (x7 - 32/10) + (2/10) * (x7 - 84/10)), sq_nonneg ((3/10) * (x8 - 55/10) + (2/10) * (x8 - 6/10)), sq_nonneg ((3/10) * (x9 - 71/10) + (2/10) * (x9 - 32/10)), sq_nonneg ((3/10) * (x10 - 33/10) + (2/10) * (x10 - 85/10))]

theorem syn10_atom (w m : ℚ) (zs : List ℚ) (x1 x2 x3 x4 x5 x6 x7 x8 x9 x10 : ℝ) (T : ℝ)
    (hT : (([x1, x2, x3, x4, x5, x6, x7, x8, x9, x10].zip zs).map (fun p => (p.1 - (p.2 : ℝ)) ^ 2)).sum / (w : ℝ) = T) :
    atomNd w m [x1, x2, x3, x4, x5, x6, x7, x8, x9, x10] zs = Real.exp (-T) * (m : ℝ) := by
  rw [atomNd_real, hT]

/-- **bound clause of synthetic10D** (maximised), for every real point with 10 coordinates -/
theorem syn10_le (x1 x2 x3 x4 x5 x6 x7 x8 x9 x10 : ℝ) (v : ℝ) (hv : eval .synthetic10D [x1, x2, x3, x4, x5, x6, x7, x8, x9, x10] = some v) : v ≤ 12 / 10 + 1 / 1000 := by
  have hl : ([x1, x2, x3, x4, x5, x6, x7, x8, x9, x10] : List ℝ).length ≤ 10 := by simp
  simp only [eval, if_pos hl] at hv
  rw [synthetic10DTable, atomSum_real] at hv
  simp only [List.map_cons, List.map_nil, List.sum_cons, List.sum_nil, Option.some.injEq] at hv
  subst hv
  have e0 := syn10_atom (3/10) (7/10) [10, 1, 6, 7, 8, 1, 1, 6, 7, 8] x1 x2 x3 x4 x5 x6 x7 x8 x9 x10 (((x1 - 10) ^ 2 + (x2 - 1) ^ 2 + (x3 - 6) ^ 2 + (x4 - 7) ^ 2 + (x5 - 8) ^ 2 + (x6 - 1) ^ 2 + (x7 - 1) ^ 2 + (x8 - 6) ^ 2 + (x9 - 7) ^ 2 + (x10 - 8) ^ 2) / (3/10)) (by
    simp only [List.zip_cons_cons, List.zip_nil_right, List.map_cons, List.map_nil, List.sum_cons, List.sum_nil]
    push_cast; ring)
  have e1 := syn10_atom (4/10) (75/100) [1, 3, 8, 95/10, 2, 1, 3, 8, 95/10, 2] x1 x2 x3 x4 x5 x6 x7 x8 x9 x10 (((x1 - 1) ^ 2 + (x2 - 3) ^ 2 + (x3 - 8) ^ 2 + (x4 - 95/10) ^ 2 + (x5 - 2) ^ 2 + (x6 - 1) ^ 2 + (x7 - 3) ^ 2 + (x8 - 8) ^ 2 + (x9 - 95/10) ^ 2 + (x10 - 2) ^ 2) / (4/10)) (by
    simp only [List.zip_cons_cons, List.zip_nil_right, List.map_cons, List.map_nil, List.sum_cons, List.sum_nil]
    push_cast; ring)
  have e2 := syn10_atom (1) (1) [3, 1, 3, 2, 5, 3, 1, 3, 2, 5] x1 x2 x3 x4 x5 x6 x7 x8 x9 x10 (((x1 - 3) ^ 2 + (x2 - 1) ^ 2 + (x3 - 3) ^ 2 + (x4 - 2) ^ 2 + (x5 - 5) ^ 2 + (x6 - 3) ^ 2 + (x7 - 1) ^ 2 + (x8 - 3) ^ 2 + (x9 - 2) ^ 2 + (x10 - 5) ^ 2) / (1)) (by
    simp only [List.zip_cons_cons, List.zip_nil_right, List.map_cons, List.map_nil, List.sum_cons, List.sum_nil]
    push_cast; ring)
  have e3 := syn10_atom (4/10) (12/10) [3, 4, 13/10, 5, 5, 3, 4, 13/10, 5, 5] x1 x2 x3 x4 x5 x6 x7 x8 x9 x10 (((x1 - 3) ^ 2 + (x2 - 4) ^ 2 + (x3 - 13/10) ^ 2 + (x4 - 5) ^ 2 + (x5 - 5) ^ 2 + (x6 - 3) ^ 2 + (x7 - 4) ^ 2 + (x8 - 13/10) ^ 2 + (x9 - 5) ^ 2 + (x10 - 5) ^ 2) / (4/10)) (by
    simp only [List.zip_cons_cons, List.zip_nil_right, List.map_cons, List.map_nil, List.sum_cons, List.sum_nil]
    push_cast; ring)
  have e4 := syn10_atom (6/10) (1) [5, 2, 96/10, 73/10, 86/10, 5, 2, 96/10, 73/10, 86/10] x1 x2 x3 x4 x5 x6 x7 x8 x9 x10 (((x1 - 5) ^ 2 + (x2 - 2) ^ 2 + (x3 - 96/10) ^ 2 + (x4 - 73/10) ^ 2 + (x5 - 86/10) ^ 2 + (x6 - 5) ^ 2 + (x7 - 2) ^ 2 + (x8 - 96/10) ^ 2 + (x9 - 73/10) ^ 2 + (x10 - 86/10) ^ 2) / (6/10)) (by
    simp only [List.zip_cons_cons, List.zip_nil_right, List.map_cons, List.map_nil, List.sum_cons, List.sum_nil]
    push_cast; ring)
  have e5 := syn10_atom (5/10) (6/10) [75/10, 8, 9, 32/10, 46/10, 75/10, 8, 9, 32/10, 46/10] x1 x2 x3 x4 x5 x6 x7 x8 x9 x10 (((x1 - 75/10) ^ 2 + (x2 - 8) ^ 2 + (x3 - 9) ^ 2 + (x4 - 32/10) ^ 2 + (x5 - 46/10) ^ 2 + (x6 - 75/10) ^ 2 + (x7 - 8) ^ 2 + (x8 - 9) ^ 2 + (x9 - 32/10) ^ 2 + (x10 - 46/10) ^ 2) / (5/10)) (by
    simp only [List.zip_cons_cons, List.zip_nil_right, List.map_cons, List.map_nil, List.sum_cons, List.sum_nil]
    push_cast; ring)
  have e6 := syn10_atom (1/10) (5/10) [57/10, 93/10, 22/10, 84/10, 71/10, 57/10, 93/10, 22/10, 84/10, 71/10] x1 x2 x3 x4 x5 x6 x7 x8 x9 x10 (((x1 - 57/10) ^ 2 + (x2 - 93/10) ^ 2 + (x3 - 22/10) ^ 2 + (x4 - 84/10) ^ 2 + (x5 - 71/10) ^ 2 + (x6 - 57/10) ^ 2 + (x7 - 93/10) ^ 2 + (x8 - 22/10) ^ 2 + (x9 - 84/10) ^ 2 + (x10 - 71/10) ^ 2) / (1/10)) (by
    simp only [List.zip_cons_cons, List.zip_nil_right, List.map_cons, List.map_nil, List.sum_cons, List.sum_nil]
    push_cast; ring)
  have e7 := syn10_atom (1) (2/10) [55/10, 72/10, 58/10, 23/10, 45/10, 55/10, 72/10, 58/10, 23/10, 45/10] x1 x2 x3 x4 x5 x6 x7 x8 x9 x10 (((x1 - 55/10) ^ 2 + (x2 - 72/10) ^ 2 + (x3 - 58/10) ^ 2 + (x4 - 23/10) ^ 2 + (x5 - 45/10) ^ 2 + (x6 - 55/10) ^ 2 + (x7 - 72/10) ^ 2 + (x8 - 58/10) ^ 2 + (x9 - 23/10) ^ 2 + (x10 - 45/10) ^ 2) / (1)) (by
    simp only [List.zip_cons_cons, List.zip_nil_right, List.map_cons, List.map_nil, List.sum_cons, List.sum_nil]
    push_cast; ring)
  have e8 := syn10_atom (2/10) (4/10) [47/10, 32/10, 55/10, 71/10, 33/10, 47/10, 32/10, 55/10, 71/10, 33/10] x1 x2 x3 x4 x5 x6 x7 x8 x9 x10 (((x1 - 47/10) ^ 2 + (x2 - 32/10) ^ 2 + (x3 - 55/10) ^ 2 + (x4 - 71/10) ^ 2 + (x5 - 33/10) ^ 2 + (x6 - 47/10) ^ 2 + (x7 - 32/10) ^ 2 + (x8 - 55/10) ^ 2 + (x9 - 71/10) ^ 2 + (x10 - 33/10) ^ 2) / (2/10)) (by
    simp only [List.zip_cons_cons, List.zip_nil_right, List.map_cons, List.map_nil, List.sum_cons, List.sum_nil]
    push_cast; ring)
  have e9 := syn10_atom (3/10) (1/10) [97/10, 84/10, 6/10, 32/10, 85/10, 97/10, 84/10, 6/10, 32/10, 85/10] x1 x2 x3 x4 x5 x6 x7 x8 x9 x10 (((x1 - 97/10) ^ 2 + (x2 - 84/10) ^ 2 + (x3 - 6/10) ^ 2 + (x4 - 32/10) ^ 2 + (x5 - 85/10) ^ 2 + (x6 - 97/10) ^ 2 + (x7 - 84/10) ^ 2 + (x8 - 6/10) ^ 2 + (x9 - 32/10) ^ 2 + (x10 - 85/10) ^ 2) / (3/10)) (by
    simp only [List.zip_cons_cons, List.zip_nil_right, List.map_cons, List.map_nil, List.sum_cons, List.sum_nil]
    push_cast; ring)
  rw [e0, e1, e2, e3, e4, e5, e6, e7, e8, e9]
  have key := atoms10_le (((x1 - 10) ^ 2 + (x2 - 1) ^ 2 + (x3 - 6) ^ 2 + (x4 - 7) ^ 2 + (x5 - 8) ^ 2 + (x6 - 1) ^ 2 + (x7 - 1) ^ 2 + (x8 - 6) ^ 2 + (x9 - 7) ^ 2 + (x10 - 8) ^ 2) / (3/10)) (((x1 - 1) ^ 2 + (x2 - 3) ^ 2 + (x3 - 8) ^ 2 + (x4 - 95/10) ^ 2 + (x5 - 2) ^ 2 + (x6 - 1) ^ 2 + (x7 - 3) ^ 2 + (x8 - 8) ^ 2 + (x9 - 95/10) ^ 2 + (x10 - 2) ^ 2) / (4/10)) (((x1 - 3) ^ 2 + (x2 - 1) ^ 2 + (x3 - 3) ^ 2 + (x4 - 2) ^ 2 + (x5 - 5) ^ 2 + (x6 - 3) ^ 2 + (x7 - 1) ^ 2 + (x8 - 3) ^ 2 + (x9 - 2) ^ 2 + (x10 - 5) ^ 2) / (1)) (((x1 - 3) ^ 2 + (x2 - 4) ^ 2 + (x3 - 13/10) ^ 2 + (x4 - 5) ^ 2 + (x5 - 5) ^ 2 + (x6 - 3) ^ 2 + (x7 - 4) ^ 2 + (x8 - 13/10) ^ 2 + (x9 - 5) ^ 2 + (x10 - 5) ^ 2) / (4/10)) (((x1 - 5) ^ 2 + (x2 - 2) ^ 2 + (x3 - 96/10) ^ 2 + (x4 - 73/10) ^ 2 + (x5 - 86/10) ^ 2 + (x6 - 5) ^ 2 + (x7 - 2) ^ 2 + (x8 - 96/10) ^ 2 + (x9 - 73/10) ^ 2 + (x10 - 86/10) ^ 2) / (6/10)) (((x1 - 75/10) ^ 2 + (x2 - 8) ^ 2 + (x3 - 9) ^ 2 + (x4 - 32/10) ^ 2 + (x5 - 46/10) ^ 2 + (x6 - 75/10) ^ 2 + (x7 - 8) ^ 2 + (x8 - 9) ^ 2 + (x9 - 32/10) ^ 2 + (x10 - 46/10) ^ 2) / (5/10)) (((x1 - 57/10) ^ 2 + (x2 - 93/10) ^ 2 + (x3 - 22/10) ^ 2 + (x4 - 84/10) ^ 2 + (x5 - 71/10) ^ 2 + (x6 - 57/10) ^ 2 + (x7 - 93/10) ^ 2 + (x8 - 22/10) ^ 2 + (x9 - 84/10) ^ 2 + (x10 - 71/10) ^ 2) / (1/10)) (((x1 - 55/10) ^ 2 + (x2 - 72/10) ^ 2 + (x3 - 58/10) ^ 2 + (x4 - 23/10) ^ 2 + (x5 - 45/10) ^ 2 + (x6 - 55/10) ^ 2 + (x7 - 72/10) ^ 2 + (x8 - 58/10) ^ 2 + (x9 - 23/10) ^ 2 + (x10 - 45/10) ^ 2) / (1)) (((x1 - 47/10) ^ 2 + (x2 - 32/10) ^ 2 + (x3 - 55/10) ^ 2 + (x4 - 71/10) ^ 2 + (x5 - 33/10) ^ 2 + (x6 - 47/10) ^ 2 + (x7 - 32/10) ^ 2 + (x8 - 55/10) ^ 2 + (x9 - 71/10) ^ 2 + (x10 - 33/10) ^ 2) / (2/10)) (((x1 - 97/10) ^ 2 + (x2 - 84/10) ^ 2 + (x3 - 6/10) ^ 2 + (x4 - 32/10) ^ 2 + (x5 - 85/10) ^ 2 + (x6 - 97/10) ^ 2 + (x7 - 84/10) ^ 2 + (x8 - 6/10) ^ 2 + (x9 - 32/10) ^ 2 + (x10 - 85/10) ^ 2) / (3/10))
    (by positivity) (by positivity) (by positivity) (by positivity) (by positivity) (by positivity) (by positivity) (by positivity) (by positivity) (by positivity)
    (syn10_pair_0_1 x1 x2 x3 x4 x5 x6 x7 x8 x9 x10) (syn10_pair_0_2 x1 x2 x3 x4 x5 x6 x7 x8 x9 x10) (syn10_pair_0_3 x1 x2 x3 x4 x5 x6 x7 x8 x9 x10) (syn10_pair_0_4 x1 x2 x3 x4 x5 x6 x7 x8 x9 x10) (syn10_pair_0_5 x1 x2 x3 x4 x5 x6 x7 x8 x9 x10) (syn10_pair_0_6 x1 x2 x3 x4 x5 x6 x7 x8 x9 x10) (syn10_pair_0_7 x1 x2 x3 x4 x5 x6 x7 x8 x9 x10) (syn10_pair_0_8 x1 x2 x3 x4 x5 x6 x7 x8 x9 x10) (syn10_pair_0_9 x1 x2 x3 x4 x5 x6 x7 x8 x9 x10) (syn10_pair_1_2 x1 x2 x3 x4 x5 x6 x7 x8 x9 x10) (syn10_pair_1_3 x1 x2 x3 x4 x5 x6 x7 x8 x9 x10) (syn10_pair_1_4 x1 x2 x3 x4 x5 x6 x7 x8 x9 x10) (syn10_pair_1_5 x1 x2 x3 x4 x5 x6 x7 x8 x9 x10) (syn10_pair_1_6 x1 x2 x3 x4 x5 x6 x7 x8 x9 x10) (syn10_pair_1_7 x1 x2 x3 x4 x5 x6 x7 x8 x9 x10) (syn10_pair_1_8 x1 x2 x3 x4 x5 x6 x7 x8 x9 x10) (syn10_pair_1_9 x1 x2 x3 x4 x5 x6 x7 x8 x9 x10) (syn10_pair_2_3 x1 x2 x3 x4 x5 x6 x7 x8 x9 x10) (syn10_pair_2_4 x1 x2 x3 x4 x5 x6 x7 x8 x9 x10) (syn10_pair_2_5 x1 x2 x3 x4 x5 x6 x7 x8 x9 x10) (syn10_pair_2_6 x1 x2 x3 x4 x5 x6 x7 x8 x9 x10) (syn10_pair_2_7 x1 x2 x3 x4 x5 x6 x7 x8 x9 x10) (syn10_pair_2_8 x1 x2 x3 x4 x5 x6 x7 x8 x9 x10) (syn10_pair_2_9 x1 x2 x3 x4 x5 x6 x7 x8 x9 x10) (syn10_pair_3_4 x1 x2 x3 x4 x5 x6 x7 x8 x9 x10) (syn10_pair_3_5 x1 x2 x3 x4 x5 x6 x7 x8 x9 x10) (syn10_pair_3_6 x1 x2 x3 x4 x5 x6 x7 x8 x9 x10) (syn10_pair_3_7 x1 x2 x3 x4 x5 x6 x7 x8 x9 x10) (syn10_pair_3_8 x1 x2 x3 x4 x5 x6 x7 x8 x9 x10) (syn10_pair_3_9 x1 x2 x3 x4 x5 x6 x7 x8 x9 x10) (syn10_pair_4_5 x1 x2 x3 x4 x5 x6 x7 x8 x9 x10) (syn10_pair_4_6 x1 x2 x3 x4 x5 x6 x7 x8 x9 x10) (syn10_pair_4_7 x1 x2 x3 x4 x5 x6 x7 x8 x9 x10) (syn10_pair_4_8 x1 x2 x3 x4 x5 x6 x7 x8 x9 x10) (syn10_pair_4_9 x1 x2 x3 x4 x5 x6 x7 x8 x9 x10) (syn10_pair_5_6 x1 x2 x3 x4 x5 x6 x7 x8 x9 x10) (syn10_pair_5_7 x1 x2 x3 x4 x5 x6 x7 x8 x9 x10) (syn10_pair_5_8 x1 x2 x3 x4 x5 x6 x7 x8 x9 x10) (syn10_pair_5_9 x1 x2 x3 x4 x5 x6 x7 x8 x9 x10) (syn10_pair_6_7 x1 x2 x3 x4 x5 x6 x7 x8 x9 x10) (syn10_pair_6_8 x1 x2 x3 x4 x5 x6 x7 x8 x9 x10) (syn10_pair_6_9 x1 x2 x3 x4 x5 x6 x7 x8 x9 x10) (syn10_pair_7_8 x1 x2 x3 x4 x5 x6 x7 x8 x9 x10) (syn10_pair_7_9 x1 x2 x3 x4 x5 x6 x7 x8 x9 x10) (syn10_pair_8_9 x1 x2 x3 x4 x5 x6 x7 x8 x9 x10)
  push_cast at key ⊢
  linarith

end Artap.Bench
