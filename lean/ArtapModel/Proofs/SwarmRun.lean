import ArtapModel.Model.SwarmRun
import ArtapModel.Proofs.Swarm
import ArtapModel.Proofs.Nsga2
import ArtapModel.Proofs.Variation
import ArtapModel.Proofs.Eval
import Mathlib.Data.List.Forall2
import Mathlib.Tactic.Linarith
/-!
# Helper lemmas for the composed OMOPSO / SMPSO run model (`Model/SwarmRun.lean`)

Property theorems are in `Props/C18.lean` (`swarm_run_*`).
-/
namespace Artap.SwarmRun
open Artap Artap.Eval Artap.Proto
open Artap.Variation (Param MutDraw)

/-! ## List plumbing -/

theorem zipMapOpt_forall₂ {α β γ} {f : α → β → Option γ} :
    ∀ {as : List α} {bs : List β} {cs : List γ}, zipMapOpt f as bs = some cs →
      List.Forall₂ (fun a c => ∃ b, f a b = some c) as cs
  | [], _, cs, h => by simp only [zipMapOpt, Option.some.injEq] at h; subst h; exact List.Forall₂.nil
  | _ :: _, [], _, h => by simp [zipMapOpt] at h
  | a :: as, b :: bs, cs, h => by
    simp only [zipMapOpt] at h
    cases h1 : f a b with
    | none => simp [h1] at h
    | some c =>
      cases h2 : zipMapOpt f as bs with
      | none => simp [h1, h2] at h
      | some cs' =>
        simp only [h1, h2, Option.some.injEq] at h
        subst h
        exact List.Forall₂.cons ⟨b, h1⟩ (zipMapOpt_forall₂ h2)

theorem mapOpt_forall₂ {α β} {f : α → Option β} :
    ∀ {as : List α} {cs : List β}, mapOpt f as = some cs → List.Forall₂ (fun a c => f a = some c) as cs
  | [], cs, h => by simp only [mapOpt, Option.some.injEq] at h; subst h; exact List.Forall₂.nil
  | a :: as, cs, h => by
    simp only [mapOpt] at h
    cases h1 : f a with
    | none => simp [h1] at h
    | some c =>
      cases h2 : mapOpt f as with
      | none => simp [h1, h2] at h
      | some cs' =>
        simp only [h1, h2, Option.some.injEq] at h
        subst h
        exact List.Forall₂.cons h1 (mapOpt_forall₂ h2)

theorem turbFrom_forall₂ {cfg : Cfg} :
    ∀ {i : Nat} {ps : List Particle} {drs : List (List MutDraw)} {qs : List Particle},
      turbFrom cfg i ps drs = some qs → List.Forall₂ (fun p q => ∃ j dr, turbOne cfg j p dr = some q) ps qs
  | _, [], _, qs, h => by simp only [turbFrom, Option.some.injEq] at h; subst h; exact List.Forall₂.nil
  | _, _ :: _, [], _, h => by simp [turbFrom] at h
  | i, p :: ps, dr :: drs, qs, h => by
    simp only [turbFrom] at h
    cases h1 : turbOne cfg i p dr with
    | none => simp [h1] at h
    | some q =>
      cases h2 : turbFrom cfg (i + 1) ps drs with
      | none => simp [h1, h2] at h
      | some qs' =>
        simp only [h1, h2, Option.some.injEq] at h
        subst h
        exact List.Forall₂.cons ⟨i, dr, h1⟩ (turbFrom_forall₂ h2)

theorem forall₂_mem_right {α β} {R : α → β → Prop} {as : List α} {bs : List β} (h : List.Forall₂ R as bs) :
    ∀ b ∈ bs, ∃ a ∈ as, R a b := by
  induction h with
  | nil => intro b hb; simp at hb
  | cons hab _ ih =>
    intro b hb
    rcases List.mem_cons.1 hb with rfl | hb
    · exact ⟨_, by simp, hab⟩
    · obtain ⟨a, ha, hr⟩ := ih b hb
      exact ⟨a, by simp [ha], hr⟩

theorem forall₂_trans {α β γ} {R : α → β → Prop} {S : β → γ → Prop} {T : α → γ → Prop}
    (hT : ∀ a b c, R a b → S b c → T a c) {as : List α} {bs : List β} {cs : List γ}
    (h1 : List.Forall₂ R as bs) (h2 : List.Forall₂ S bs cs) : List.Forall₂ T as cs := by
  induction h1 generalizing cs with
  | nil => cases h2; exact List.Forall₂.nil
  | cons hab _ ih =>
    cases h2 with
    | cons hbc h2' => exact List.Forall₂.cons (hT _ _ _ hab hbc) (ih h2')

theorem forall₂_zipWith_right {α β γ} {R : α → γ → Prop} {f : α → β → γ} :
    ∀ {as : List α} {bs : List β}, as.length = bs.length → (∀ a b, R a (f a b)) →
      List.Forall₂ R as (List.zipWith f as bs)
  | [], [], _, _ => List.Forall₂.nil
  | [], _ :: _, h, _ => by simp at h
  | _ :: _, [], h, _ => by simp at h
  | a :: as, b :: bs, h, hr => by
    simp only [List.zipWith_cons_cons]
    exact List.Forall₂.cons (hr a b) (forall₂_zipWith_right (by simpa using h) hr)

/-! ## The copies handed to the phases -/

theorem copiesFrom_forall₂ (tag : Nat) : ∀ (start : Nat) (ps : List Particle),
    List.Forall₂ (fun p q => ∃ k, q = copyParticle k tag p) ps (copiesFrom start tag ps)
  | _, [] => List.Forall₂.nil
  | start, _ :: ps => List.Forall₂.cons ⟨start, rfl⟩ (copiesFrom_forall₂ tag (start + 1) ps)

theorem copiesFrom_length (start tag : Nat) (ps : List Particle) : (copiesFrom start tag ps).length = ps.length :=
  (List.Forall₂.length_eq (copiesFrom_forall₂ tag start ps)).symm

/-! ## One step taken apart -/

/-- the `GenRecord` an iteration appends to the history -/
def stepRecord (it : Nat) (vel pos turb : List Particle) (ev : List Particle × World) (pb : List Particle)
    (gb : GlobalBest) : GenRecord :=
  { tag := it + 1, velAfter := vel, posAfter := pos, handed := turb, evaluated := ev.1, pbest := pb,
    swarm := gb.ordered, leaders := gb.leaders }

/-- the `GenRecord` of the initial swarm -/
def initRecord (cfg : Cfg) (init : List Vec) (ev : List Particle × World) (gb : GlobalBest) : GenRecord :=
  { tag := 0, velAfter := [], posAfter := [], handed := freshParticles 0 cfg.prec init, evaluated := ev.1,
    pbest := ev.1.map initPbest, swarm := gb.ordered, leaders := gb.leaders }

structure StepFacts (cfg : Cfg) (it : Nat) (o : StepOracle) (s s' : RunState)
    (vel pos turb : List Particle) (ev : List Particle × World) (pb : List Particle) (gb : GlobalBest) : Prop where
  hvel : velocityPhase cfg s.leaders (copiesFrom s.nextKey (it + 1) s.swarm) o.vel = some vel
  hpos : positionPhase cfg vel = some pos
  hturb : turbulencePhase cfg pos o.turb = some turb
  heval : evalPhase cfg turb s.world = some ev
  hpb : pbestPhase ev.1 = some pb
  hgb : globalBest cfg pb s.leaders s.archive = some gb
  hswarm : s'.swarm = gb.ordered
  hleaders : s'.leaders = gb.leaders
  hworld : s'.world = ev.2
  hrec : s'.recorded = s.recorded ++ gb.ordered
  hhist : s'.history = s.history ++ [stepRecord it vel pos turb ev pb gb]

theorem swarmStep_some {cfg : Cfg} {it : Nat} {o : StepOracle} {s s' : RunState}
    (h : swarmStep cfg it o s = some s') :
    ∃ vel pos turb ev pb gb, StepFacts cfg it o s s' vel pos turb ev pb gb := by
  unfold swarmStep at h
  cases h1 : velocityPhase cfg s.leaders (copiesFrom s.nextKey (it + 1) s.swarm) o.vel with
  | none => simp [h1] at h
  | some vel =>
    cases h2 : positionPhase cfg vel with
    | none => simp [h1, h2] at h
    | some pos =>
      cases h3 : turbulencePhase cfg pos o.turb with
      | none => simp [h1, h2, h3] at h
      | some turb =>
        cases h4 : evalPhase cfg turb s.world with
        | none => simp [h1, h2, h3, h4] at h
        | some ev =>
          cases h5 : pbestPhase ev.1 with
          | none => simp [h1, h2, h3, h4, h5] at h
          | some pb =>
            cases h6 : globalBest cfg pb s.leaders s.archive with
            | none => simp [h1, h2, h3, h4, h5, h6] at h
            | some gb =>
              simp only [h1, h2, h3, h4, h5, h6, Option.some.injEq] at h
              subst h
              exact ⟨vel, pos, turb, ev, pb, gb, ⟨h1, h2, h3, h4, h5, h6, rfl, rfl, rfl, rfl, rfl⟩⟩

structure InitFacts (cfg : Cfg) (init : List Vec) (s0 : RunState) (ev : List Particle × World) (gb : GlobalBest) : Prop where
  heval : evalPhase cfg (freshParticles 0 cfg.prec init) { log := [], failed := [] } = some ev
  hgb : globalBest cfg (ev.1.map initPbest) [] [] = some gb
  hswarm : s0.swarm = gb.ordered
  hleaders : s0.leaders = gb.leaders
  hworld : s0.world = ev.2
  hrec : s0.recorded = gb.marked
  hhist : s0.history = [initRecord cfg init ev gb]

theorem swarmInit_some {cfg : Cfg} {init : List Vec} {s0 : RunState} (h : swarmInit cfg init = some s0) :
    ∃ ev gb, InitFacts cfg init s0 ev gb := by
  unfold swarmInit at h
  cases h1 : evalPhase cfg (freshParticles 0 cfg.prec init) { log := [], failed := [] } with
  | none => simp [h1] at h
  | some ev =>
    cases h2 : globalBest cfg (ev.1.map initPbest) [] [] with
    | none => simp [h1, h2] at h
    | some gb =>
      simp only [h1, h2, Option.some.injEq] at h
      subst h
      exact ⟨ev, gb, ⟨h1, h2, rfl, rfl, rfl, rfl, rfl⟩⟩

theorem swarmLoop_induct {cfg : Cfg} (P : Nat → RunState → Prop)
    (hstep : ∀ it o s s', P it s → swarmStep cfg it o s = some s' → P (it + 1) s') :
    ∀ (n a : Nat) (os : List StepOracle) (s s' : RunState),
      swarmLoop cfg (List.range' a n) os s = some s' → P a s → P (a + n) s' := by
  intro n
  induction n with
  | zero =>
    intro a os s s' h hp
    simp only [List.range'_zero, swarmLoop, Option.some.injEq] at h
    subst h; simpa using hp
  | succ n ih =>
    intro a os s s' h hp
    rw [List.range'_succ] at h
    cases os with
    | nil => simp [swarmLoop] at h
    | cons o os =>
      simp only [swarmLoop] at h
      cases hs : swarmStep cfg a o s with
      | none => simp [hs] at h
      | some s1 =>
        simp only [hs] at h
        have := ih (a + 1) os s1 s' h (hstep a o s s1 hp hs)
        have e : a + (n + 1) = a + 1 + n := by omega
        rw [e]; exact this

/-- Induction over a whole run: an invariant that the initial swarm establishes and every
iteration preserves holds of the final state, from which the result is read off. -/
theorem swarmRun_induct {cfg : Cfg} (P : Nat → RunState → Prop) {G : Nat} {init : List Vec}
    {steps : List StepOracle} {r : RunResult}
    (hinit : ∀ s0, swarmInit cfg init = some s0 → P 0 s0)
    (hstep : ∀ it o s s', P it s → swarmStep cfg it o s = some s' → P (it + 1) s')
    (h : swarmRun cfg G init steps = some r) :
    ∃ s, P G s ∧ r.recorded = s.recorded ∧ r.evals = Nsga2.okCalls s.world ∧ r.world = s.world ∧
      r.swarm = s.swarm ∧ r.leaders = s.leaders ∧ r.history = s.history := by
  unfold swarmRun at h
  cases h0 : swarmInit cfg init with
  | none => simp [h0] at h
  | some s0 =>
    simp only [h0] at h
    cases hl : swarmLoop cfg (List.range G) steps s0 with
    | none => simp [hl] at h
    | some s =>
      simp only [hl, Option.some.injEq] at h
      subst h
      rw [List.range_eq_range'] at hl
      have := swarmLoop_induct P hstep G 0 steps s0 s hl (hinit s0 h0)
      simp only [Nat.zero_add] at this
      exact ⟨s, this, rfl, rfl, rfl, rfl, rfl, rfl⟩

/-! ## Evaluation -/

/-- What the retry loop guarantees about a design that started EMPTY and ended without an exception. -/
structure EvalRel (env : Env) (d r : Design) : Prop where
  key : r.key = d.key
  prec : r.prec = d.prec
  state : r.state = .evaluated
  marker : ∃ m, r.marker = some m ∧ 0 ≤ m
  signed : ∃ c k n v, env.obj k n v = .ok c ∧ r.signed = signedCosts env d.prec c
  vec : r.vec = d.vec ∨ ∃ n, r.vec = env.reroll d.key n
  vecNoFault : (∀ k n v t, env.obj k n v ≠ .transient t) → r.vec = d.vec

theorem markerOf_nonneg (f : Feas) : 0 ≤ markerOf f := by
  unfold markerOf; split <;> decide

theorem attempts_rel (env : Env) : ∀ (k : Nat) (d : Design) (w : World),
    (attempts env k d w).1 = none → EvalRel env d (attempts env k d w).2.1 := by
  intro k
  induction k with
  | zero => intro d w h; simp [attempts] at h
  | succ k ih =>
    intro d w h
    cases ho : env.obj d.key d.ncalls d.vec with
    | ok c =>
      simp only [attempts, ho]
      exact ⟨rfl, rfl, rfl, ⟨_, rfl, markerOf_nonneg _⟩, ⟨c, _, _, _, ho, rfl⟩, Or.inl rfl, fun _ => rfl⟩
    | fatal t => simp [attempts, ho] at h
    | transient t =>
      simp only [attempts, ho] at h ⊢
      have R := ih (failDesign env d) (failWorld d w) h
      refine ⟨R.key, R.prec, R.state, R.marker, R.signed, Or.inr ?_, fun hn => absurd ho (hn _ _ _ _)⟩
      rcases R.vec with e | ⟨n, e⟩
      · exact ⟨d.ncalls, e⟩
      · exact ⟨n, e⟩

theorem attempts_log (env : Env) : ∀ (k : Nat) (d : Design) (w : World),
    ∀ e ∈ (attempts env k d w).2.2.log, e ∈ w.log ∨ e.2 = d.vec ∨ ∃ n, e.2 = env.reroll d.key n := by
  intro k
  induction k with
  | zero => intro d w e he; left; simpa [attempts] using he
  | succ k ih =>
    intro d w e he
    cases ho : env.obj d.key d.ncalls d.vec with
    | ok c =>
      simp only [attempts, ho, logCall, List.mem_append, List.mem_singleton] at he
      rcases he with he | rfl
      · exact Or.inl he
      · exact Or.inr (Or.inl rfl)
    | fatal t =>
      simp only [attempts, ho, logCall, List.mem_append, List.mem_singleton] at he
      rcases he with he | rfl
      · exact Or.inl he
      · exact Or.inr (Or.inl rfl)
    | transient t =>
      simp only [attempts, ho] at he
      rcases ih (failDesign env d) (failWorld d w) e he with h1 | h1 | ⟨n, h1⟩
      · simp only [failWorld, List.mem_append, List.mem_singleton] at h1
        rcases h1 with h1 | rfl
        · exact Or.inl h1
        · exact Or.inr (Or.inl rfl)
      · exact Or.inr (Or.inr ⟨d.ncalls, h1⟩)
      · exact Or.inr (Or.inr ⟨n, h1⟩)

theorem evalSerial_rel (env : Env) : ∀ (ds : List Design) (w : World),
    (∀ d ∈ ds, d.state = .empty) → (evalSerial env ds w).1 = none →
    List.Forall₂ (EvalRel env) ds (evalSerial env ds w).2.1 := by
  intro ds
  induction ds with
  | nil => intro w _ _; exact List.Forall₂.nil
  | cons d ds ih =>
    intro w he h
    have hs : d.state = .empty := he d (by simp)
    have hne : d.state ≠ .evaluated := by rw [hs]; decide
    rcases hj : jobEvaluate env d w with ⟨r, d', w'⟩
    cases r with
    | some e' => simp [evalSerial, hs, hj] at h
    | none =>
      simp only [evalSerial, hs, if_true, hj] at h ⊢
      have hj' := hj
      simp only [jobEvaluate, hne, if_false] at hj'
      have h1 : (attempts env 5 d w).1 = none := by rw [hj']
      have R := attempts_rel env 5 d w h1
      rw [hj'] at R
      exact List.Forall₂.cons R (ih w' (fun x hx => he x (by simp [hx])) h)

theorem evalSerial_log (env : Env) : ∀ (ds : List Design) (w : World),
    ∀ e ∈ (evalSerial env ds w).2.2.log,
      e ∈ w.log ∨ ∃ d ∈ ds, e.2 = d.vec ∨ ∃ n, e.2 = env.reroll d.key n := by
  intro ds
  induction ds with
  | nil => intro w e he; left; simpa [evalSerial] using he
  | cons d ds ih =>
    intro w e he
    by_cases hs : d.state = .empty
    · have hne : d.state ≠ .evaluated := by rw [hs]; decide
      rcases hj : jobEvaluate env d w with ⟨r, d', w'⟩
      have hj' := hj
      simp only [jobEvaluate, hne, if_false] at hj'
      have hl := attempts_log env 5 d w
      rw [hj'] at hl
      cases r with
      | some e' =>
        simp only [evalSerial, hs, if_true, hj] at he
        rcases hl e he with h1 | h1
        · exact Or.inl h1
        · exact Or.inr ⟨d, by simp, h1⟩
      | none =>
        simp only [evalSerial, hs, if_true, hj] at he
        rcases ih w' e he with h1 | ⟨x, hx, h1⟩
        · rcases hl e h1 with h2 | h2
          · exact Or.inl h2
          · exact Or.inr ⟨d, by simp, h2⟩
        · exact Or.inr ⟨x, by simp [hx], h1⟩
    · simp only [evalSerial, hs, if_false] at he
      rcases ih w e he with h1 | ⟨x, hx, h1⟩
      · exact Or.inl h1
      · exact Or.inr ⟨x, by simp [hx], h1⟩

/-- What the phases other than evaluation leave untouched. -/
def SameFeat (p q : Particle) : Prop :=
  q.best = p.best ∧ q.bestVec = p.bestVec ∧ q.tag = p.tag

theorem zipWith_setDesign_forall₂ {env : Env} : ∀ {ps : List Particle} {ds : List Design},
    List.Forall₂ (EvalRel env) (ps.map (·.d)) ds →
    List.Forall₂ (fun p q => EvalRel env p.d q.d ∧ SameFeat p q) ps (List.zipWith setDesign ps ds)
  | [], _, R => by cases R; exact List.Forall₂.nil
  | p :: ps, _, R => by
    cases R with
    | cons hr R' =>
      simp only [List.zipWith_cons_cons]
      exact List.Forall₂.cons ⟨hr, rfl, rfl, rfl⟩ (zipWith_setDesign_forall₂ R')

theorem evalPhase_spec {cfg : Cfg} {ps : List Particle} {w : World} {ev : List Particle × World}
    (hs : ∀ p ∈ ps, p.d.state = .empty) (h : evalPhase cfg ps w = some ev) :
    List.Forall₂ (fun p q => EvalRel cfg.env p.d q.d ∧ SameFeat p q) ps ev.1 ∧
    (evalSerial cfg.env (ps.map (·.d)) w).1 = none ∧
    ev.2 = (evalSerial cfg.env (ps.map (·.d)) w).2.2 := by
  unfold evalPhase at h
  cases he : (evalSerial cfg.env (ps.map (·.d)) w).1 with
  | some e => simp [he] at h
  | none =>
    simp only [he, Option.some.injEq] at h
    subst h
    refine ⟨?_, rfl, rfl⟩
    exact zipWith_setDesign_forall₂ (evalSerial_rel cfg.env (ps.map (·.d)) w
      (by intro d hd; obtain ⟨p, hp, rfl⟩ := List.mem_map.1 hd; exact hs p hp) he)

/-! ## The other phases -/

theorem copyParticle_state (k t : Nat) (p : Particle) : (copyParticle k t p).d.state = .empty := rfl

theorem velOne_spec {cfg : Cfg} {ls : List Particle} {p q : Particle} {d : VelDraw}
    (h : velOne cfg ls p d = some q) :
    q.d = p.d ∧ SameFeat p q ∧ ∃ g, velCoords d cfg.params p.d.vec p.bestVec g d.w = some q.vel := by
  unfold velOne at h
  split at h
  · cases h
  · rename_i g _
    cases hv : velCoords d cfg.params p.d.vec p.bestVec g.d.vec d.w with
    | none => simp [hv] at h
    | some v =>
      simp only [hv, Option.some.injEq] at h
      subst h
      exact ⟨rfl, ⟨rfl, rfl, rfl⟩, g.d.vec, hv⟩

theorem posOne_spec {cfg : Cfg} {p q : Particle} (h : posOne cfg p = some q) :
    q.d.state = p.d.state ∧ SameFeat p q ∧
    ∃ r, posCoords cfg.alg.factor cfg.params p.d.vec p.vel = some r ∧ q.d.vec = r.1 := by
  unfold posOne at h
  cases hv : posCoords cfg.alg.factor cfg.params p.d.vec p.vel with
  | none => simp [hv] at h
  | some r =>
    simp only [hv, Option.some.injEq] at h
    subst h
    exact ⟨rfl, ⟨rfl, rfl, rfl⟩, r, rfl, rfl⟩

theorem turbOne_spec {cfg : Cfg} {i : Nat} {p q : Particle} {dr : List MutDraw} (h : turbOne cfg i p dr = some q) :
    q.d.state = p.d.state ∧ SameFeat p q ∧
    (q.d.vec = p.d.vec ∨ Variation.mutate cfg.params p.d.vec dr = some q.d.vec) := by
  unfold turbOne at h
  split at h
  · cases hv : Variation.mutate cfg.params p.d.vec dr with
    | none => simp [hv] at h
    | some v =>
      simp only [hv, Option.some.injEq] at h
      subst h
      exact ⟨rfl, ⟨rfl, rfl, rfl⟩, Or.inr rfl⟩
  · simp only [Option.some.injEq] at h
    subst h
    exact ⟨rfl, ⟨rfl, rfl, rfl⟩, Or.inl rfl⟩

/-! ## In-box lemmas -/

theorem updatePosition_mem (f x v lb ub : Rat) (h : lb ≤ ub) :
    lb ≤ (Swarm.updatePosition f x v lb ub).1 ∧ (Swarm.updatePosition f x v lb ub).1 ≤ ub := by
  unfold Swarm.updatePosition
  by_cases h1 : ub < x + v
  · have h2 : ¬ ub < lb := not_lt.mpr h
    simp [h1, h2, h]
  · by_cases h2 : x + v < lb
    · simp [h1, h2, h]
    · simp [h1, h2, not_lt.mp h1, not_lt.mp h2]

theorem posCoords_exact (f : Rat) : ∀ (ps : List Param) (xs vs : List Rat) (r : List Rat × List Rat),
    (∀ p ∈ ps, p.lb ≤ p.ub) → xs.length = ps.length → posCoords f ps xs vs = some r →
    Variation.inBoxExact ps r.1 = true := by
  intro ps
  induction ps with
  | nil =>
    intro xs vs r _ hl h
    have : xs = [] := List.length_eq_zero_iff.1 (by simpa using hl)
    subst this
    simp only [posCoords, Option.some.injEq] at h
    subst h
    rfl
  | cons p ps ih =>
    intro xs vs r hb hl h
    cases xs with
    | nil => simp at hl
    | cons x xs =>
      cases vs with
      | nil => simp [posCoords] at h
      | cons v vs =>
        simp only [posCoords] at h
        cases hr : posCoords f ps xs vs with
        | none => simp [hr] at h
        | some r' =>
          simp only [hr, Option.some.injEq] at h
          subst h
          have hm := updatePosition_mem f x v p.lb p.ub (hb p (by simp))
          simp only [Variation.inBoxExact, Bool.and_eq_true]
          refine ⟨?_, ih xs vs r' (fun q hq => hb q (by simp [hq])) (by simpa using hl) hr⟩
          rw [Variation.within_iff]; exact hm

theorem mutate_exact : ∀ (ps : List Param) (xs : List Rat) (ds : List MutDraw) (r : List Rat),
    (∀ p ∈ ps, p.lb ≤ p.ub) → Variation.inBoxExact ps xs = true → Variation.mutate ps xs ds = some r →
    Variation.inBoxExact ps r = true := by
  intro ps
  induction ps with
  | nil =>
    intro xs ds r _ _ h
    simp only [Variation.mutate, Option.some.injEq] at h
    subst h; rfl
  | cons p ps ih =>
    intro xs ds r hb hx h
    cases xs with
    | nil => simp [Variation.inBoxExact] at hx
    | cons x xs =>
      cases ds with
      | nil => simp [Variation.mutate] at h
      | cons d ds =>
        simp only [Variation.mutate] at h
        cases hr : Variation.mutate ps xs ds with
        | none => simp [hr] at h
        | some r' =>
          simp only [hr, Option.some.injEq] at h
          subst h
          simp only [Variation.inBoxExact, Bool.and_eq_true] at hx ⊢
          refine ⟨?_, ih xs ds r' (fun q hq => hb q (by simp [hq])) hx.2 hr⟩
          unfold Variation.mutCoord
          split
          · exact Variation.within_clip p d.a (hb p (by simp))
          · exact hx.1

theorem inBoxExact_length {ps : List Param} {x : List Rat} (h : Variation.inBoxExact ps x = true) :
    x.length = ps.length := by
  induction ps generalizing x with
  | nil => cases x <;> simp_all [Variation.inBoxExact]
  | cons p ps ih =>
    cases x with
    | nil => simp [Variation.inBoxExact] at h
    | cons a x =>
      simp only [Variation.inBoxExact, Bool.and_eq_true] at h
      simp [ih h.2]

/-! ## update_global_best: the particles stay the same, only crowding distance, front number and order change -/

def Core (p q : Particle) : Prop := q.d = p.d ∧ SameFeat p q

theorem mem_zipWith_setCrowd {ps : List Particle} {fc : List (Nat × Option Rat)} {q : Particle}
    (h : q ∈ List.zipWith setCrowd ps fc) : ∃ p ∈ ps, Core p q := by
  induction ps generalizing fc with
  | nil => simp at h
  | cons p ps ih =>
    cases fc with
    | nil => simp at h
    | cons x fc =>
      simp only [List.zipWith_cons_cons, List.mem_cons] at h
      rcases h with rfl | h
      · exact ⟨p, by simp, rfl, rfl, rfl, rfl⟩
      · obtain ⟨p', hp', hc⟩ := ih h
        exact ⟨p', by simp [hp'], hc⟩

structure GbFacts (sw : List Particle) (gb : GlobalBest) : Prop where
  ordered : ∀ q ∈ gb.ordered, ∃ p ∈ sw, Core p q
  marked : ∀ q ∈ gb.marked, ∃ p ∈ sw, Core p q
  markedLen : gb.marked.length = sw.length
  orderedLen : gb.ordered.length = sw.length

theorem globalBest_facts {cfg : Cfg} {sw ls ar : List Particle} {gb : GlobalBest}
    (h : globalBest cfg sw ls ar = some gb) : GbFacts sw gb := by
  unfold globalBest at h
  cases ha : cfg.alg with
  | omopso =>
    simp only [ha] at h
    cases h1 : Nsga2.sortCrowd (sw.map (·.d)) with
    | none => simp [h1] at h
    | some fc =>
      simp only [h1] at h
      cases h2 : leadersUpdate cfg ls ((List.zipWith setCrowd sw fc).filter (fun p => p.front == 1)) with
      | none => simp [h2] at h
      | some l =>
        simp only [h2] at h
        cases h3 : Archive.addAll (leaderCmp cfg.epsA) sameP ar (List.zipWith setCrowd sw fc) with
        | none => simp [h3] at h
        | some a =>
          simp only [h3, Option.some.injEq] at h
          subst h
          have hl : fc.length = sw.length := by
            obtain ⟨_, _, this, _⟩ := Nsga2.sortCrowd_spec h1
            simpa using this
          exact ⟨fun q hq => mem_zipWith_setCrowd hq, fun q hq => mem_zipWith_setCrowd hq,
            by simp [hl], by simp [hl]⟩
  | smpso =>
    simp only [ha] at h
    cases h1 : crowding (sw.map (·.d.signed)) with
    | none => simp [h1] at h
    | some ents =>
      simp only [h1] at h
      cases h2 : mapOpt (fun e => (sw[e.idx]?).map (fun p => { p with crowd := e.acc })) ents with
      | none => simp [h2] at h
      | some ordered =>
        cases h3 : mapOpt (fun (pi : Particle × Nat) =>
            (ents.find? (fun e => e.idx == pi.2)).map (fun e => { pi.1 with crowd := e.acc })) sw.zipIdx with
        | none => simp [h2, h3] at h
        | some marked =>
          simp only [h2, h3] at h
          cases h4 : leadersUpdate cfg ls ordered with
          | none => simp [h4] at h
          | some l =>
            simp only [h4, Option.some.injEq] at h
            subst h
            have F2 := mapOpt_forall₂ h2
            have F3 := mapOpt_forall₂ h3
            have hlen : ents.length = sw.length := by
              have := (C03.crowd_members _ _ h1).length_eq
              simpa using this
            refine ⟨?_, ?_, ?_, ?_⟩
            · intro q hq
              obtain ⟨e, _, he⟩ := forall₂_mem_right F2 q hq
              cases hg : sw[e.idx]? with
              | none => simp [hg] at he
              | some p =>
                simp only [hg, Option.map_some, Option.some.injEq] at he
                subst he
                exact ⟨p, List.mem_of_getElem? hg, rfl, rfl, rfl, rfl⟩
            · intro q hq
              obtain ⟨pi, hpi, he⟩ := forall₂_mem_right F3 q hq
              cases hg : ents.find? (fun e => e.idx == pi.2) with
              | none => simp [hg] at he
              | some e =>
                simp only [hg, Option.map_some, Option.some.injEq] at he
                subst he
                exact ⟨pi.1, List.fst_mem_of_mem_zipIdx hpi, rfl, rfl, rfl, rfl⟩
            · have := F3.length_eq
              simpa using this.symm
            · have := F2.length_eq
              simp only at this ⊢
              omega

theorem pbestOne_spec {p q : Particle} (h : pbestOne p = some q) :
    q.d = p.d ∧ q.tag = p.tag ∧ ∃ m b, p.d.marker = some m ∧ p.best = some b ∧
      q.best = some (Swarm.updatePBest (p.d.signed, m) b) ∧
      q.bestVec = (if Swarm.pbestReplaced (p.d.signed, m) b then p.d.vec else p.bestVec) := by
  unfold pbestOne at h
  split at h
  · rename_i m b hm hb
    simp only [Option.some.injEq] at h
    subst h
    exact ⟨rfl, rfl, m, b, hm, hb, rfl, rfl⟩
  · cases h

/-! ## In-box invariant of a run -/

/-- the objective never raises a transient error -/
def NoFault (env : Env) : Prop := ∀ k n v t, env.obj k n v ≠ .transient t

/-- Where an evaluated position of a generation `≥ 1` comes from: exactly inside the box (bound
reset of `update_position`, `clip` of the mutators), or re-rolled by the sampler after a failed call. -/
def BoxOrigin (cfg : Cfg) (x : Vec) : Prop :=
  (Variation.inBoxExact cfg.params x = true ∨ ∃ k n, x = cfg.env.reroll k n) ∧
  (NoFault cfg.env → Variation.inBoxExact cfg.params x = true)

structure BoxInv (cfg : Cfg) (s : RunState) : Prop where
  len : ∀ p ∈ s.swarm, p.d.vec.length = cfg.params.length
  hist : ∀ g ∈ s.history, 1 ≤ g.tag →
    (∀ p ∈ g.posAfter, Variation.inBoxExact cfg.params p.d.vec = true) ∧
    (∀ p ∈ g.handed, Variation.inBoxExact cfg.params p.d.vec = true) ∧
    (∀ p ∈ g.evaluated, BoxOrigin cfg p.d.vec)
  recd : ∀ p ∈ s.recorded, 1 ≤ p.tag → BoxOrigin cfg p.d.vec
  recAll : ∀ p ∈ s.recorded, Variation.inBox cfg.params p.d.vec = true
  log : ∀ e ∈ s.world.log, Variation.inBox cfg.params e.2 = true

theorem boxOrigin_inBox {cfg : Cfg} (hb : Variation.ValidBox cfg.params)
    (hre : ∀ k n, Variation.inBox cfg.params (cfg.env.reroll k n) = true) {x : Vec} (h : BoxOrigin cfg x) :
    Variation.inBox cfg.params x = true := by
  rcases h.1 with h1 | ⟨k, n, rfl⟩
  · exact Variation.inBox_of_exact hb h1
  · exact hre k n

theorem box_step {cfg : Cfg} (hb : Variation.ValidBox cfg.params)
    (hre : ∀ k n, Variation.inBox cfg.params (cfg.env.reroll k n) = true)
    {it : Nat} {o : StepOracle} {s s' : RunState} (I : BoxInv cfg s) (h : swarmStep cfg it o s = some s') :
    BoxInv cfg s' := by
  obtain ⟨vel, pos, turb, ev, pb, gb, F⟩ := swarmStep_some h
  have hbl : ∀ p ∈ cfg.params, p.lb ≤ p.ub := fun p hp => (hb p hp).1
  have h0 : ∀ c ∈ copiesFrom s.nextKey (it + 1) s.swarm,
      c.d.vec.length = cfg.params.length ∧ c.d.state = .empty ∧ c.tag = it + 1 := by
    intro c hc
    obtain ⟨p, hp, k, rfl⟩ := forall₂_mem_right (copiesFrom_forall₂ (it + 1) s.nextKey s.swarm) c hc
    exact ⟨I.len p hp, rfl, rfl⟩
  have h1 : ∀ v ∈ vel, v.d.vec.length = cfg.params.length ∧ v.d.state = .empty ∧ v.tag = it + 1 := by
    intro v hv
    obtain ⟨c, hc, d, hd⟩ := forall₂_mem_right (zipMapOpt_forall₂ (show zipMapOpt _ _ _ = some vel from F.hvel)) v hv
    obtain ⟨e1, e2, _⟩ := velOne_spec hd
    obtain ⟨a, b, c'⟩ := h0 c hc
    rw [e1]; exact ⟨a, b, e2.2.2.trans c'⟩
  have h2 : ∀ x ∈ pos, Variation.inBoxExact cfg.params x.d.vec = true ∧ x.d.state = .empty ∧ x.tag = it + 1 := by
    intro x hx
    obtain ⟨v, hv, hd⟩ := forall₂_mem_right (mapOpt_forall₂ (show mapOpt _ _ = some pos from F.hpos)) x hx
    obtain ⟨e1, e2, r, hr, er⟩ := posOne_spec hd
    obtain ⟨a, b, c'⟩ := h1 v hv
    refine ⟨?_, e1.trans b, e2.2.2.trans c'⟩
    rw [er]; exact posCoords_exact _ _ _ _ _ hbl a hr
  have h3 : ∀ t ∈ turb, Variation.inBoxExact cfg.params t.d.vec = true ∧ t.d.state = .empty ∧ t.tag = it + 1 := by
    intro t ht
    obtain ⟨x, hx, j, dr, hd⟩ := forall₂_mem_right (turbFrom_forall₂ (show turbFrom cfg 0 _ _ = some turb from F.hturb)) t ht
    obtain ⟨e1, e2, e3⟩ := turbOne_spec hd
    obtain ⟨a, b, c'⟩ := h2 x hx
    refine ⟨?_, e1.trans b, e2.2.2.trans c'⟩
    rcases e3 with e3 | e3
    · rw [e3]; exact a
    · exact mutate_exact _ _ _ _ hbl a e3
  obtain ⟨E, _, hw⟩ := evalPhase_spec (fun p hp => (h3 p hp).2.1) F.heval
  have h4 : ∀ e ∈ ev.1, BoxOrigin cfg e.d.vec ∧ e.tag = it + 1 := by
    intro e he
    obtain ⟨t, ht, R, sf⟩ := forall₂_mem_right E e he
    obtain ⟨a, _, c'⟩ := h3 t ht
    refine ⟨⟨?_, fun hn => by rw [R.vecNoFault hn]; exact a⟩, sf.2.2.trans c'⟩
    rcases R.vec with e1 | ⟨n, e1⟩
    · left; rw [e1]; exact a
    · right; exact ⟨_, n, e1⟩
  have h5 : ∀ b ∈ pb, BoxOrigin cfg b.d.vec ∧ b.tag = it + 1 := by
    intro b hb'
    obtain ⟨e, he, hd⟩ := forall₂_mem_right (mapOpt_forall₂ (show mapOpt _ _ = some pb from F.hpb)) b hb'
    obtain ⟨e1, e2, _⟩ := pbestOne_spec hd
    obtain ⟨a, c'⟩ := h4 e he
    rw [e1]; exact ⟨a, e2.trans c'⟩
  have G := globalBest_facts F.hgb
  have h6 : ∀ q ∈ gb.ordered, BoxOrigin cfg q.d.vec ∧ q.tag = it + 1 := by
    intro q hq
    obtain ⟨b, hb', e1, e2⟩ := G.ordered q hq
    obtain ⟨a, c'⟩ := h5 b hb'
    rw [e1]; exact ⟨a, e2.2.2.trans c'⟩
  refine ⟨?_, ?_, ?_, ?_, ?_⟩
  · intro p hp
    rw [F.hswarm] at hp
    have := boxOrigin_inBox hb hre (h6 p hp).1
    exact Variation.inBox_length this
  · intro g hg hg1
    rw [F.hhist, List.mem_append, List.mem_singleton] at hg
    rcases hg with hg | rfl
    · exact I.hist g hg hg1
    · exact ⟨fun p hp => (h2 p hp).1, fun p hp => (h3 p hp).1, fun p hp => (h4 p hp).1⟩
  · intro p hp hp1
    rw [F.hrec, List.mem_append] at hp
    rcases hp with hp | hp
    · exact I.recd p hp hp1
    · exact (h6 p hp).1
  · intro p hp
    rw [F.hrec, List.mem_append] at hp
    rcases hp with hp | hp
    · exact I.recAll p hp
    · exact boxOrigin_inBox hb hre (h6 p hp).1
  · intro e he
    rw [F.hworld, hw] at he
    rcases evalSerial_log cfg.env _ _ e he with h7 | ⟨d, hd, h7⟩
    · exact I.log e h7
    · obtain ⟨t, ht, rfl⟩ := List.mem_map.1 hd
      rcases h7 with h7 | ⟨n, h7⟩
      · rw [h7]; exact Variation.inBox_of_exact hb (h3 t ht).1
      · rw [h7]; exact hre _ n

theorem freshParticles_mem {start prec : Nat} {vs : List Vec} {p : Particle} (h : p ∈ freshParticles start prec vs) :
    ∃ k, ∃ v ∈ vs, p = freshParticle k prec v := by
  induction vs generalizing start with
  | nil => simp [freshParticles] at h
  | cons v vs ih =>
    simp only [freshParticles, List.mem_cons] at h
    rcases h with rfl | h
    · exact ⟨start, v, by simp, rfl⟩
    · obtain ⟨k, v', hv', e⟩ := ih h
      exact ⟨k, v', by simp [hv'], e⟩

theorem freshParticles_length (start prec : Nat) (vs : List Vec) : (freshParticles start prec vs).length = vs.length := by
  induction vs generalizing start with
  | nil => rfl
  | cons v vs ih => simp [freshParticles, ih]

theorem box_init {cfg : Cfg} (hre : ∀ k n, Variation.inBox cfg.params (cfg.env.reroll k n) = true)
    {init : List Vec} (hinit : ∀ v ∈ init, Variation.inBox cfg.params v = true)
    {s0 : RunState} (h : swarmInit cfg init = some s0) : BoxInv cfg s0 := by
  obtain ⟨ev, gb, F⟩ := swarmInit_some h
  have h3 : ∀ t ∈ freshParticles 0 cfg.prec init,
      Variation.inBox cfg.params t.d.vec = true ∧ t.d.state = .empty ∧ t.tag = 0 := by
    intro t ht
    obtain ⟨k, v, hv, rfl⟩ := freshParticles_mem ht
    exact ⟨hinit v hv, rfl, rfl⟩
  obtain ⟨E, _, hw⟩ := evalPhase_spec (fun p hp => (h3 p hp).2.1) F.heval
  have h4 : ∀ e ∈ ev.1, Variation.inBox cfg.params e.d.vec = true ∧ e.tag = 0 := by
    intro e he
    obtain ⟨t, ht, R, sf⟩ := forall₂_mem_right E e he
    obtain ⟨a, _, c'⟩ := h3 t ht
    refine ⟨?_, sf.2.2.trans c'⟩
    rcases R.vec with e1 | ⟨n, e1⟩
    · rw [e1]; exact a
    · rw [e1]; exact hre _ n
  have h5 : ∀ b ∈ ev.1.map initPbest, Variation.inBox cfg.params b.d.vec = true ∧ b.tag = 0 := by
    intro b hb'
    obtain ⟨e, he, rfl⟩ := List.mem_map.1 hb'
    exact h4 e he
  have G := globalBest_facts F.hgb
  refine ⟨?_, ?_, ?_, ?_, ?_⟩
  · intro p hp
    rw [F.hswarm] at hp
    obtain ⟨b, hb', e1, _⟩ := G.ordered p hp
    rw [e1]; exact Variation.inBox_length (h5 b hb').1
  · intro g hg hg1
    rw [F.hhist, List.mem_singleton] at hg
    subst hg
    simp [initRecord] at hg1
  · intro p hp hp1
    rw [F.hrec] at hp
    obtain ⟨b, hb', _, e2⟩ := G.marked p hp
    have := (h5 b hb').2
    rw [e2.2.2] at hp1
    omega
  · intro p hp
    rw [F.hrec] at hp
    obtain ⟨b, hb', e1, _⟩ := G.marked p hp
    rw [e1]; exact (h5 b hb').1
  · intro e he
    rw [F.hworld, hw] at he
    rcases evalSerial_log cfg.env _ _ e he with h7 | ⟨d, hd, h7⟩
    · simp at h7
    · obtain ⟨t, ht, rfl⟩ := List.mem_map.1 hd
      rcases h7 with h7 | ⟨n, h7⟩
      · rw [h7]; exact (h3 t ht).1
      · rw [h7]; exact hre _ n

/-! ## Velocity band -/

theorem speedConstriction_band (v ub lb : Rat) (h : lb ≤ ub) :
    -((ub - lb) / 2) ≤ Swarm.speedConstriction v ub lb ∧ Swarm.speedConstriction v ub lb ≤ (ub - lb) / 2 := by
  have hd : 0 ≤ (ub - lb) / 2 := by linarith
  unfold Swarm.speedConstriction Swarm.pyMin Swarm.pyMax
  simp only
  split_ifs <;> constructor <;> linarith

/-- every component of a velocity lies within ± half the range of its parameter -/
def InBand (ps : List Param) (v : List Rat) : Prop :=
  ∀ pc ∈ List.zip ps v, -((pc.1.ub - pc.1.lb) / 2) ≤ pc.2 ∧ pc.2 ≤ (pc.1.ub - pc.1.lb) / 2

theorem velCoords_band (d : VelDraw) : ∀ (ps : List Param) (xs bs gs ws r : List Rat),
    (∀ p ∈ ps, p.lb ≤ p.ub) → velCoords d ps xs bs gs ws = some r → r.length = xs.length ∧ InBand ps r := by
  intro ps
  induction ps with
  | nil =>
    intro xs bs gs ws r _ h
    cases xs with
    | nil =>
      simp only [velCoords, Option.some.injEq] at h
      subst h; exact ⟨rfl, by intro pc hpc; simp at hpc⟩
    | cons x xs => simp [velCoords] at h
  | cons p ps ih =>
    intro xs bs gs ws r hb h
    cases xs with
    | nil =>
      simp only [velCoords, Option.some.injEq] at h
      subst h; exact ⟨rfl, by intro pc hpc; simp at hpc⟩
    | cons x xs =>
      cases bs with
      | nil => simp [velCoords] at h
      | cons b bs =>
        cases gs with
        | nil => simp [velCoords] at h
        | cons g gs =>
          cases ws with
          | nil => simp [velCoords] at h
          | cons w ws =>
            simp only [velCoords] at h
            cases hr : velCoords d ps xs bs gs ws with
            | none => simp [hr] at h
            | some r' =>
              simp only [hr, Option.some.injEq] at h
              subst h
              obtain ⟨hl, hband⟩ := ih xs bs gs ws r' (fun q hq => hb q (by simp [hq])) hr
              refine ⟨by simp [hl], ?_⟩
              intro pc hpc
              simp only [List.zip_cons_cons, List.mem_cons] at hpc
              rcases hpc with rfl | hpc
              · exact speedConstriction_band _ _ _ (hb p (by simp))
              · exact hband pc hpc

def VelInv (cfg : Cfg) (s : RunState) : Prop :=
  ∀ g ∈ s.history, ∀ p ∈ g.velAfter, p.vel.length = p.d.vec.length ∧ InBand cfg.params p.vel

theorem vel_step {cfg : Cfg} (hb : ∀ p ∈ cfg.params, p.lb ≤ p.ub) {it : Nat} {o : StepOracle} {s s' : RunState}
    (I : VelInv cfg s) (h : swarmStep cfg it o s = some s') : VelInv cfg s' := by
  obtain ⟨vel, pos, turb, ev, pb, gb, F⟩ := swarmStep_some h
  intro g hg
  rw [F.hhist, List.mem_append, List.mem_singleton] at hg
  rcases hg with hg | rfl
  · exact I g hg
  · intro v hv
    obtain ⟨c, _, d, hd⟩ := forall₂_mem_right (zipMapOpt_forall₂ (show zipMapOpt _ _ _ = some vel from F.hvel)) v hv
    obtain ⟨e1, _, gv, hv'⟩ := velOne_spec hd
    obtain ⟨hl, hband⟩ := velCoords_band _ _ _ _ _ _ _ hb hv'
    rw [e1]; exact ⟨hl, hband⟩

theorem vel_init {cfg : Cfg} {init : List Vec} {s0 : RunState} (h : swarmInit cfg init = some s0) : VelInv cfg s0 := by
  obtain ⟨ev, gb, F⟩ := swarmInit_some h
  intro g hg
  rw [F.hhist, List.mem_singleton] at hg
  subst hg
  intro p hp
  simp [initRecord] at hp

/-! ## Budget and generations -/

/-- Generation `t` of a record: the particles tagged `t`, in recording order. -/
def genP (t : Nat) (rec : List Particle) : List Particle := rec.filter (fun p => p.tag == t)

theorem genP_append (t : Nat) (a b : List Particle) : genP t (a ++ b) = genP t a ++ genP t b := by
  simp [genP]

theorem genP_eq_self {t : Nat} {l : List Particle} (h : ∀ p ∈ l, p.tag = t) : genP t l = l := by
  unfold genP
  rw [List.filter_eq_self]
  intro p hp; simp [h p hp]

theorem genP_eq_nil {t : Nat} {l : List Particle} (h : ∀ p ∈ l, p.tag ≠ t) : genP t l = [] := by
  unfold genP
  rw [List.filter_eq_nil_iff]
  intro p hp; simp [h p hp]

structure BookInv (cfg : Cfg) (k : Nat) (s : RunState) : Prop where
  size : s.swarm.length = cfg.N
  tags : ∀ p ∈ s.recorded, p.tag ≤ k
  sizes : ∀ t, t ≤ k → (genP t s.recorded).length = cfg.N
  count : s.world.log.length = s.world.failed.length + cfg.N * (k + 1)
  htags : s.history.map (·.tag) = List.range (k + 1)
  hsizes : ∀ g ∈ s.history, g.handed.length = cfg.N ∧ g.evaluated.length = cfg.N ∧ g.swarm.length = cfg.N

theorem book_step {cfg : Cfg} {k : Nat} {o : StepOracle} {s s' : RunState}
    (I : BookInv cfg k s) (h : swarmStep cfg k o s = some s') : BookInv cfg (k + 1) s' := by
  obtain ⟨vel, pos, turb, ev, pb, gb, F⟩ := swarmStep_some h
  have C := copiesFrom_forall₂ (k + 1) s.nextKey s.swarm
  have V := zipMapOpt_forall₂ (show zipMapOpt _ _ _ = some vel from F.hvel)
  have P := mapOpt_forall₂ (show mapOpt _ _ = some pos from F.hpos)
  have T := turbFrom_forall₂ (show turbFrom cfg 0 _ _ = some turb from F.hturb)
  have hst : ∀ t ∈ turb, t.d.state = .empty ∧ t.tag = k + 1 := by
    intro t ht
    obtain ⟨x, hx, j, dr, hd⟩ := forall₂_mem_right T t ht
    obtain ⟨v, hv, hd2⟩ := forall₂_mem_right P x hx
    obtain ⟨c, hc, d, hd3⟩ := forall₂_mem_right V v hv
    obtain ⟨p, _, kk, rfl⟩ := forall₂_mem_right C c hc
    obtain ⟨a1, a2, _⟩ := turbOne_spec hd
    obtain ⟨b1, b2, _⟩ := posOne_spec hd2
    obtain ⟨c1, c2, _⟩ := velOne_spec hd3
    refine ⟨?_, ?_⟩
    · rw [a1, b1, c1]; rfl
    · rw [a2.2.2, b2.2.2, c2.2.2]; rfl
  obtain ⟨E, herr, hw⟩ := evalPhase_spec (fun p hp => (hst p hp).1) F.heval
  have B := mapOpt_forall₂ (show mapOpt _ _ = some pb from F.hpb)
  have G := globalBest_facts F.hgb
  have hlen : turb.length = cfg.N := by
    rw [← T.length_eq, ← P.length_eq, ← V.length_eq, ← C.length_eq]; exact I.size
  have hevl : ev.1.length = cfg.N := by rw [← E.length_eq]; exact hlen
  have hordl : gb.ordered.length = cfg.N := by rw [G.orderedLen, ← B.length_eq]; exact hevl
  have htag : ∀ q ∈ gb.ordered, q.tag = k + 1 := by
    intro q hq
    obtain ⟨b, hb', _, e2⟩ := G.ordered q hq
    obtain ⟨e, he, hd⟩ := forall₂_mem_right B b hb'
    obtain ⟨_, e3, _⟩ := pbestOne_spec hd
    obtain ⟨t, ht, _, sf⟩ := forall₂_mem_right E e he
    rw [e2.2.2, e3, sf.2.2]; exact (hst t ht).2
  have hcnt := (Nsga2.evalSerial_count cfg.env (turb.map (·.d)) s.world
    (by intro d hd; obtain ⟨t, ht, rfl⟩ := List.mem_map.1 hd; exact (hst t ht).1) herr).2
  refine ⟨by rw [F.hswarm]; exact hordl, ?_, ?_, ?_, ?_, ?_⟩
  · intro p hp
    rw [F.hrec, List.mem_append] at hp
    rcases hp with hp | hp
    · have := I.tags p hp; omega
    · have := htag p hp; omega
  · intro t ht
    rw [F.hrec, genP_append]
    by_cases e : t = k + 1
    · subst e
      rw [genP_eq_nil (l := s.recorded) (fun p hp => by have := I.tags p hp; omega), genP_eq_self htag]
      simpa using hordl
    · rw [genP_eq_nil (l := gb.ordered) (fun p hp => by have := htag p hp; omega), List.append_nil]
      exact I.sizes t (by omega)
  · rw [F.hworld, hw]
    have := I.count
    simp only [List.length_map] at hcnt
    rw [hlen] at hcnt
    rw [Nat.mul_add, Nat.mul_one]
    omega
  · rw [F.hhist, List.map_append, I.htags, List.range_succ (n := k + 1)]
    rfl
  · intro g hg
    rw [F.hhist, List.mem_append, List.mem_singleton] at hg
    rcases hg with hg | rfl
    · exact I.hsizes g hg
    · exact ⟨hlen, hevl, hordl⟩

theorem book_init {cfg : Cfg} {init : List Vec} (hN : init.length = cfg.N) {s0 : RunState}
    (h : swarmInit cfg init = some s0) : BookInv cfg 0 s0 := by
  obtain ⟨ev, gb, F⟩ := swarmInit_some h
  have hst : ∀ t ∈ freshParticles 0 cfg.prec init, t.d.state = .empty ∧ t.tag = 0 := by
    intro t ht
    obtain ⟨k, v, _, rfl⟩ := freshParticles_mem ht
    exact ⟨rfl, rfl⟩
  obtain ⟨E, herr, hw⟩ := evalPhase_spec (fun p hp => (hst p hp).1) F.heval
  have G := globalBest_facts F.hgb
  have hlen : (freshParticles 0 cfg.prec init).length = cfg.N := by rw [freshParticles_length]; exact hN
  have hevl : ev.1.length = cfg.N := by rw [← E.length_eq]; exact hlen
  have hpbl : (ev.1.map initPbest).length = cfg.N := by simpa using hevl
  have htagm : ∀ q ∈ gb.marked, q.tag = 0 := by
    intro q hq
    obtain ⟨b, hb', _, e2⟩ := G.marked q hq
    obtain ⟨e, he, rfl⟩ := List.mem_map.1 hb'
    obtain ⟨t, ht, _, sf⟩ := forall₂_mem_right E e he
    rw [e2.2.2]
    show e.tag = 0
    rw [sf.2.2]; exact (hst t ht).2
  have hcnt := (Nsga2.evalSerial_count cfg.env ((freshParticles 0 cfg.prec init).map (·.d)) { log := [], failed := [] }
    (by intro d hd; obtain ⟨t, ht, rfl⟩ := List.mem_map.1 hd; exact (hst t ht).1) herr).2
  refine ⟨by rw [F.hswarm, G.orderedLen]; exact hpbl, ?_, ?_, ?_, ?_, ?_⟩
  · intro p hp
    rw [F.hrec] at hp
    have := htagm p hp; omega
  · intro t ht
    have : t = 0 := by omega
    subst this
    rw [F.hrec, genP_eq_self htagm, G.markedLen]; exact hpbl
  · rw [F.hworld, hw]
    simp only [List.length_map, List.length_nil] at hcnt
    rw [hlen] at hcnt
    omega
  · rw [F.hhist]; rfl
  · intro g hg
    rw [F.hhist, List.mem_singleton] at hg
    subst hg
    exact ⟨hlen, hevl, by show gb.ordered.length = cfg.N; rw [G.orderedLen]; exact hpbl⟩

/-! ## Leader archive -/
section leaders
open Artap.Archive

/-- A comparator specification pulls back along a map (on the elements where the pulled-back
comparator and equality agree with the original ones). -/
theorem cmpSpec_pullback {α β : Type} {V : α → Prop} {cmp : α → α → Option Nat} {same : α → α → Bool}
    {Dom : α → α → Prop} (S : CmpSpec V cmp same Dom) (g : β → α) (V' : β → Prop)
    (cmp' : β → β → Option Nat) (same' : β → β → Bool)
    (hV : ∀ a, V' a → V (g a)) (hc : ∀ a b, V' a → V' b → cmp' a b = cmp (g a) (g b))
    (hs : ∀ a b, V' a → V' b → same' a b = same (g a) (g b)) :
    CmpSpec V' cmp' same' (fun a b => Dom (g a) (g b)) where
  total := fun a b ha hb => by rw [hc a b ha hb]; exact S.total _ _ (hV a ha) (hV b hb)
  one_iff := fun a b ha hb => by rw [hc a b ha hb]; exact S.one_iff _ _ (hV a ha) (hV b hb)
  two_of_dom := fun a b ha hb h => by rw [hc a b ha hb]; exact S.two_of_dom _ _ (hV a ha) (hV b hb) h
  two_imp := fun a b ha hb h => by
    rw [hc a b ha hb] at h; rw [hs a b ha hb]; exact S.two_imp _ _ (hV a ha) (hV b hb) h
  same_flag := fun a b ha hb h => by
    rw [hs a b ha hb] at h; rw [hc a b ha hb]; exact S.same_flag _ _ (hV a ha) (hV b hb) h
  dom_irrefl := fun a b ha hb h => by
    rw [hs a b ha hb] at h; exact S.dom_irrefl _ _ (hV a ha) (hV b hb) h
  dom_trans := fun a b c ha hb hc' h1 h2 => S.dom_trans _ _ _ (hV a ha) (hV b hb) (hV c hc') h1 h2
  same_refl := fun a ha => by rw [hs a a ha ha]; exact S.same_refl _ (hV a ha)
  same_symm := fun a b ha hb h => by
    rw [hs a b ha hb] at h; rw [hs b a hb ha]; exact S.same_symm _ _ (hV a ha) (hV b hb) h
  dom_same_left := fun a b c ha hb hc' h hd => by
    rw [hs a b ha hb] at h; exact S.dom_same_left _ _ _ (hV a ha) (hV b hb) (hV c hc') h hd
  dom_same_right := fun a b c ha hb hc' h hd => by
    rw [hs a b ha hb] at h; exact S.dom_same_right _ _ _ (hV a ha) (hV b hb) (hV c hc') h hd

/-- what the archive comparators see of a particle -/
def toInd (p : Particle) : Archive.Ind Rat := ⟨0, p.d.signed, p.d.marker.getD 0, 0⟩

/-- an evaluated particle with `m` signed costs and a non-negative marker -/
def ValidP (m : Nat) (p : Particle) : Prop :=
  ∃ mk, p.d.marker = some mk ∧ 0 ≤ mk ∧ p.d.signed.length = m

/-- constrained Pareto dominance between evaluated particles -/
def DomP (a b : Particle) : Prop := ParetoDom (toInd a) (toInd b)

theorem leader_cmpSpec (eps : List Rat) (he : PosEps eps) (m : Nat) :
    CmpSpec (ValidP m) (leaderCmp eps) sameP DomP := by
  refine cmpSpec_pullback (eps_cmpSpec eps he m) toInd (ValidP m) (leaderCmp eps) sameP ?_ ?_ ?_
  · rintro a ⟨mk, h1, h2, h3⟩
    exact ⟨h3, by simp [toInd, h1, h2]⟩
  · rintro a b ⟨ma, ha, _, _⟩ ⟨mb, hb, _, _⟩
    simp [leaderCmp, epsCmp, toInd, ha, hb]
  · rintro a b ⟨ma, ha, _, _⟩ ⟨mb, hb, _, _⟩
    simp [sameP, sameCosts, toInd, ha, hb]

theorem leadersUpdate_spec {cfg : Cfg} (he : PosEps cfg.eps) (m : Nat) {ls offered l : List Particle}
    (ho : ∀ x ∈ offered, ValidP m x) (hA : Antichain (ValidP m) sameP DomP ls)
    (h : leadersUpdate cfg ls offered = some l) :
    l.length ≤ cfg.N ∧ Antichain (ValidP m) sameP DomP l := by
  unfold leadersUpdate at h
  obtain ⟨bs, c, l', hg, hlen, hAl⟩ := Swarm.generation_spec (leader_cmpSpec cfg.eps he m)
    (fun p => Nsga2.encCrowd ((ls ++ offered).map (·.crowd)) p.crowd) cfg.N ho hA
  rw [hg] at h
  simp only [Option.some.injEq] at h
  subst h
  exact ⟨hlen, hAl⟩

theorem validP_core {m : Nat} {p q : Particle} (h : Core p q) (hp : ValidP m p) : ValidP m q := by
  obtain ⟨mk, h1, h2, h3⟩ := hp
  exact ⟨mk, by rw [h.1]; exact h1, h2, by rw [h.1]; exact h3⟩

theorem globalBest_leaders {cfg : Cfg} (he : PosEps cfg.eps) (m : Nat) {sw ls ar : List Particle} {gb : GlobalBest}
    (hv : ∀ p ∈ sw, ValidP m p) (hA : Antichain (ValidP m) sameP DomP ls)
    (h : globalBest cfg sw ls ar = some gb) :
    gb.leaders.length ≤ cfg.N ∧ Antichain (ValidP m) sameP DomP gb.leaders := by
  have G := globalBest_facts h
  unfold globalBest at h
  cases ha : cfg.alg with
  | omopso =>
    simp only [ha] at h
    cases h1 : Nsga2.sortCrowd (sw.map (·.d)) with
    | none => simp [h1] at h
    | some fc =>
      simp only [h1] at h
      cases h2 : leadersUpdate cfg ls ((List.zipWith setCrowd sw fc).filter (fun p => p.front == 1)) with
      | none => simp [h2] at h
      | some l =>
        simp only [h2] at h
        cases h3 : Archive.addAll (leaderCmp cfg.epsA) sameP ar (List.zipWith setCrowd sw fc) with
        | none => simp [h3] at h
        | some a =>
          simp only [h3, Option.some.injEq] at h
          subst h
          refine leadersUpdate_spec he m ?_ hA h2
          intro x hx
          obtain ⟨p, hp, hc⟩ := mem_zipWith_setCrowd (List.mem_filter.1 hx).1
          exact validP_core hc (hv p hp)
  | smpso =>
    simp only [ha] at h
    cases h1 : crowding (sw.map (·.d.signed)) with
    | none => simp [h1] at h
    | some ents =>
      simp only [h1] at h
      cases h2 : mapOpt (fun e => (sw[e.idx]?).map (fun p => { p with crowd := e.acc })) ents with
      | none => simp [h2] at h
      | some ordered =>
        cases h3 : mapOpt (fun (pi : Particle × Nat) =>
            (ents.find? (fun e => e.idx == pi.2)).map (fun e => { pi.1 with crowd := e.acc })) sw.zipIdx with
        | none => simp [h2, h3] at h
        | some marked =>
          simp only [h2, h3] at h
          cases h4 : leadersUpdate cfg ls ordered with
          | none => simp [h4] at h
          | some l =>
            simp only [h4, Option.some.injEq] at h
            subst h
            refine leadersUpdate_spec he m ?_ hA h4
            intro x hx
            obtain ⟨p, hp, hc⟩ := G.ordered x hx
            exact validP_core hc (hv p hp)

end leaders

/-- every successful objective call returns `m` costs -/
def CostLen (env : Env) (m : Nat) : Prop := ∀ k n v c, env.obj k n v = .ok c → c.length = m

/-- number of signed costs of an evaluated design -/
def signedLen (env : Env) (m : Nat) : Nat := min env.signs.length m

theorem evalRel_valid {env : Env} {m : Nat} (hc : CostLen env m) {d r : Design} (R : EvalRel env d r) :
    ∃ mk, r.marker = some mk ∧ 0 ≤ mk ∧ r.signed.length = signedLen env m := by
  obtain ⟨mk, h1, h2⟩ := R.marker
  obtain ⟨c, k, n, v, ho, hs⟩ := R.signed
  refine ⟨mk, h1, h2, ?_⟩
  rw [hs]
  unfold signedCosts signedLen
  rw [List.length_zipWith, hc k n v c ho]

/-- The evaluated particles of an iteration / of the initial swarm are valid archive members. -/
theorem evaluated_valid {cfg : Cfg} {m : Nat} (hc : CostLen cfg.env m) {ps : List Particle} {w : World}
    {ev : List Particle × World} (hs : ∀ p ∈ ps, p.d.state = .empty) (h : evalPhase cfg ps w = some ev) :
    ∀ e ∈ ev.1, ValidP (signedLen cfg.env m) e := by
  obtain ⟨E, _, _⟩ := evalPhase_spec hs h
  intro e he
  obtain ⟨t, _, R, _⟩ := forall₂_mem_right E e he
  exact evalRel_valid hc R

/-- the particles handed to the evaluator in an iteration are EMPTY design objects -/
theorem step_turb_empty {cfg : Cfg} {it : Nat} {o : StepOracle} {s s' : RunState} {vel pos turb ev pb gb}
    (F : StepFacts cfg it o s s' vel pos turb ev pb gb) : ∀ t ∈ turb, t.d.state = .empty := by
  intro t ht
  obtain ⟨x, hx, j, dr, hd⟩ := forall₂_mem_right (turbFrom_forall₂ (show turbFrom cfg 0 _ _ = some turb from F.hturb)) t ht
  obtain ⟨v, hv, hd2⟩ := forall₂_mem_right (mapOpt_forall₂ (show mapOpt _ _ = some pos from F.hpos)) x hx
  obtain ⟨c, hc, d, hd3⟩ := forall₂_mem_right (zipMapOpt_forall₂ (show zipMapOpt _ _ _ = some vel from F.hvel)) v hv
  obtain ⟨p, _, kk, rfl⟩ := forall₂_mem_right (copiesFrom_forall₂ (it + 1) s.nextKey s.swarm) c hc
  obtain ⟨a1, _, _⟩ := turbOne_spec hd
  obtain ⟨b1, _, _⟩ := posOne_spec hd2
  obtain ⟨c1, _, _⟩ := velOne_spec hd3
  rw [a1, b1, c1]; rfl

theorem fresh_empty {start prec : Nat} {vs : List Vec} : ∀ t ∈ freshParticles start prec vs, t.d.state = .empty := by
  intro t ht
  obtain ⟨k, v, _, rfl⟩ := freshParticles_mem ht
  rfl

structure LeadInv (cfg : Cfg) (m : Nat) (s : RunState) : Prop where
  cur : Archive.Antichain (ValidP m) sameP DomP s.leaders
  hist : ∀ g ∈ s.history, g.leaders.length ≤ cfg.N ∧ Archive.Antichain (ValidP m) sameP DomP g.leaders

theorem lead_step {cfg : Cfg} (he : PosEps cfg.eps) {m : Nat} (hc : CostLen cfg.env m)
    {it : Nat} {o : StepOracle} {s s' : RunState} (I : LeadInv cfg (signedLen cfg.env m) s)
    (h : swarmStep cfg it o s = some s') : LeadInv cfg (signedLen cfg.env m) s' := by
  obtain ⟨vel, pos, turb, ev, pb, gb, F⟩ := swarmStep_some h
  have hv := evaluated_valid hc (step_turb_empty F) F.heval
  have hpbv : ∀ b ∈ pb, ValidP (signedLen cfg.env m) b := by
    intro b hb
    obtain ⟨e, he', hd⟩ := forall₂_mem_right (mapOpt_forall₂ (show mapOpt _ _ = some pb from F.hpb)) b hb
    obtain ⟨e1, _, _⟩ := pbestOne_spec hd
    obtain ⟨mk, h1, h2, h3⟩ := hv e he'
    exact ⟨mk, by rw [e1]; exact h1, h2, by rw [e1]; exact h3⟩
  have L := globalBest_leaders he _ hpbv I.cur F.hgb
  refine ⟨by rw [F.hleaders]; exact L.2, ?_⟩
  intro g hg
  rw [F.hhist, List.mem_append, List.mem_singleton] at hg
  rcases hg with hg | rfl
  · exact I.hist g hg
  · exact L

theorem lead_init {cfg : Cfg} (he : PosEps cfg.eps) {m : Nat} (hc : CostLen cfg.env m) {init : List Vec}
    {s0 : RunState} (h : swarmInit cfg init = some s0) : LeadInv cfg (signedLen cfg.env m) s0 := by
  obtain ⟨ev, gb, F⟩ := swarmInit_some h
  have hv := evaluated_valid hc fresh_empty F.heval
  have hpbv : ∀ b ∈ ev.1.map initPbest, ValidP (signedLen cfg.env m) b := by
    intro b hb
    obtain ⟨e, he', rfl⟩ := List.mem_map.1 hb
    exact hv e he'
  have L := globalBest_leaders he _ hpbv ⟨by simp, List.Pairwise.nil⟩ F.hgb
  refine ⟨by rw [F.hleaders]; exact L.2, ?_⟩
  intro g hg
  rw [F.hhist, List.mem_singleton] at hg
  subst hg
  exact L

/-! ## Personal best -/

/-- What `update_particle_best` does to one particle (`e` after evaluation, `q` afterwards), in
the computational form of the model; `Props/C18.lean` turns it into the dominance statement. -/
def PbestRel (e q : Particle) : Prop :=
  ∃ m b, e.d.marker = some m ∧ e.best = some b ∧ e.d.signed.length = b.1.length ∧
    q.best = some (Swarm.updatePBest (e.d.signed, m) b) ∧
    q.bestVec = (if Swarm.pbestReplaced (e.d.signed, m) b then e.d.vec else e.bestVec)

def HasBest (m : Nat) (p : Particle) : Prop := ∃ b, p.best = some b ∧ b.1.length = m

structure PbInv (m : Nat) (s : RunState) : Prop where
  cur : ∀ p ∈ s.swarm, HasBest m p
  hist : ∀ g ∈ s.history, 1 ≤ g.tag → List.Forall₂ PbestRel g.evaluated g.pbest
  hist0 : ∀ g ∈ s.history, g.tag = 0 → g.pbest = g.evaluated.map initPbest

theorem pbestPhase_rel {m : Nat} : ∀ {es qs : List Particle},
    List.Forall₂ (fun e q => pbestOne e = some q) es qs → (∀ e ∈ es, ValidP m e ∧ HasBest m e) →
    List.Forall₂ (fun e q => PbestRel e q ∧ HasBest m q) es qs := by
  intro es qs B
  induction B with
  | nil => intro _; exact List.Forall₂.nil
  | @cons e q es qs hd _ ih =>
    intro hall
    refine List.Forall₂.cons ?_ (ih (fun x hx => hall x (by simp [hx])))
    obtain ⟨⟨mk, v1, _, v3⟩, b0, hb1, hb2⟩ := hall e (by simp)
    obtain ⟨_, _, m', b', h1, h2, h3, h4⟩ := pbestOne_spec hd
    rw [v1] at h1; cases h1
    rw [hb1] at h2; cases h2
    refine ⟨⟨mk, b0, v1, hb1, by rw [v3, hb2], h3, h4⟩, ?_⟩
    refine ⟨_, h3, ?_⟩
    unfold Swarm.updatePBest
    split
    · exact v3
    · exact hb2

theorem pb_step {cfg : Cfg} {m : Nat} (hc : CostLen cfg.env m)
    {it : Nat} {o : StepOracle} {s s' : RunState} (I : PbInv (signedLen cfg.env m) s)
    (h : swarmStep cfg it o s = some s') : PbInv (signedLen cfg.env m) s' := by
  obtain ⟨vel, pos, turb, ev, pb, gb, F⟩ := swarmStep_some h
  have hv := evaluated_valid hc (step_turb_empty F) F.heval
  obtain ⟨E, _, _⟩ := evalPhase_spec (step_turb_empty F) F.heval
  have hbest : ∀ e ∈ ev.1, HasBest (signedLen cfg.env m) e := by
    intro e he
    obtain ⟨t, ht, _, sf⟩ := forall₂_mem_right E e he
    obtain ⟨x, hx, j, dr, hd⟩ := forall₂_mem_right (turbFrom_forall₂ (show turbFrom cfg 0 _ _ = some turb from F.hturb)) t ht
    obtain ⟨v, hv', hd2⟩ := forall₂_mem_right (mapOpt_forall₂ (show mapOpt _ _ = some pos from F.hpos)) x hx
    obtain ⟨c, hc', d, hd3⟩ := forall₂_mem_right (zipMapOpt_forall₂ (show zipMapOpt _ _ _ = some vel from F.hvel)) v hv'
    obtain ⟨p, hp, kk, rfl⟩ := forall₂_mem_right (copiesFrom_forall₂ (it + 1) s.nextKey s.swarm) c hc'
    obtain ⟨_, a2, _⟩ := turbOne_spec hd
    obtain ⟨_, b2, _⟩ := posOne_spec hd2
    obtain ⟨_, c2, _⟩ := velOne_spec hd3
    obtain ⟨b, hb1, hb2⟩ := I.cur p hp
    exact ⟨b, by rw [sf.1, a2.1, b2.1, c2.1]; exact hb1, hb2⟩
  have B := mapOpt_forall₂ (show mapOpt _ _ = some pb from F.hpb)
  have hrel := pbestPhase_rel B (fun e he => ⟨hv e he, hbest e he⟩)
  have G := globalBest_facts F.hgb
  refine ⟨?_, ?_, ?_⟩
  · intro p hp
    rw [F.hswarm] at hp
    obtain ⟨b, hb', _, e2⟩ := G.ordered p hp
    obtain ⟨e, _, _, hq⟩ := forall₂_mem_right hrel b hb'
    obtain ⟨bb, h1, h2⟩ := hq
    exact ⟨bb, by rw [e2.1]; exact h1, h2⟩
  · intro g hg hg1
    rw [F.hhist, List.mem_append, List.mem_singleton] at hg
    rcases hg with hg | rfl
    · exact I.hist g hg hg1
    · exact hrel.imp (fun _ _ hh => hh.1)
  · intro g hg hg0
    rw [F.hhist, List.mem_append, List.mem_singleton] at hg
    rcases hg with hg | rfl
    · exact I.hist0 g hg hg0
    · simp [stepRecord] at hg0

theorem pb_init {cfg : Cfg} {m : Nat} (hc : CostLen cfg.env m) {init : List Vec}
    {s0 : RunState} (h : swarmInit cfg init = some s0) : PbInv (signedLen cfg.env m) s0 := by
  obtain ⟨ev, gb, F⟩ := swarmInit_some h
  have hv := evaluated_valid hc fresh_empty F.heval
  have G := globalBest_facts F.hgb
  refine ⟨?_, ?_, ?_⟩
  · intro p hp
    rw [F.hswarm] at hp
    obtain ⟨b, hb', _, e2⟩ := G.ordered p hp
    obtain ⟨e, he, rfl⟩ := List.mem_map.1 hb'
    obtain ⟨mk, h1, _, h3⟩ := hv e he
    exact ⟨(e.d.signed, mk), by rw [e2.1]; simp [initPbest, h1], h3⟩
  · intro g hg hg1
    rw [F.hhist, List.mem_singleton] at hg
    subst hg
    simp [initRecord] at hg1
  · intro g hg _
    rw [F.hhist, List.mem_singleton] at hg
    subst hg
    rfl

/-! ## PSOGA flight -/

theorem velCoordsGA_band (d : VelDraw) : ∀ (ps : List Param) (xs bs gs r : List Rat),
    (∀ p ∈ ps, p.lb ≤ p.ub) → velCoordsGA d ps xs bs gs = some r → r.length = xs.length ∧ InBand ps r := by
  intro ps
  induction ps with
  | nil =>
    intro xs bs gs r _ h
    cases xs with
    | nil =>
      simp only [velCoordsGA, Option.some.injEq] at h
      subst h; exact ⟨rfl, by intro pc hpc; simp at hpc⟩
    | cons x xs => simp [velCoordsGA] at h
  | cons p ps ih =>
    intro xs bs gs r hb h
    cases xs with
    | nil =>
      simp only [velCoordsGA, Option.some.injEq] at h
      subst h; exact ⟨rfl, by intro pc hpc; simp at hpc⟩
    | cons x xs =>
      cases bs with
      | nil => simp [velCoordsGA] at h
      | cons b bs =>
        cases gs with
        | nil => simp [velCoordsGA] at h
        | cons g gs =>
          simp only [velCoordsGA] at h
          cases hr : velCoordsGA d ps xs bs gs with
          | none => simp [hr] at h
          | some r' =>
            simp only [hr, Option.some.injEq] at h
            subst h
            obtain ⟨hl, hband⟩ := ih xs bs gs r' (fun q hq => hb q (by simp [hq])) hr
            refine ⟨by simp [hl], ?_⟩
            intro pc hpc
            simp only [List.zip_cons_cons, List.mem_cons] at hpc
            rcases hpc with rfl | hpc
            · exact speedConstriction_band _ _ _ (hb p (by simp))
            · exact hband pc hpc

theorem psogaFlight_spec {params : List Param} (hb : ∀ p ∈ params, p.lb ≤ p.ub) {leaders ps : List Particle}
    {ds : List VelDraw} {r : List Particle × List Particle} (h : psogaFlight params leaders ps ds = some r) :
    r.1.length = ps.length ∧ r.2.length = ps.length ∧
    (∀ v ∈ r.1, v.vel.length = v.d.vec.length ∧ InBand params v.vel) ∧
    ((∀ p ∈ ps, p.d.vec.length = params.length) → ∀ q ∈ r.2, Variation.inBoxExact params q.d.vec = true) := by
  unfold psogaFlight at h
  cases h1 : zipMapOpt (velOneGA params leaders) ps ds with
  | none => simp [h1] at h
  | some vel =>
    cases h2 : mapOpt (posOneGA params) vel with
    | none => simp [h1, h2] at h
    | some pos =>
      simp only [h1, h2, Option.some.injEq] at h
      subst h
      have V := zipMapOpt_forall₂ h1
      have P := mapOpt_forall₂ h2
      have hv : ∀ v ∈ vel, ∃ p ∈ ps, v.d = p.d ∧ v.vel.length = v.d.vec.length ∧ InBand params v.vel := by
        intro v hv
        obtain ⟨p, hp, d, hd⟩ := forall₂_mem_right V v hv
        unfold velOneGA at hd
        split at hd
        · cases hd
        · rename_i g _
          cases hc : velCoordsGA d params p.d.vec p.bestVec g.d.vec with
          | none => simp [hc] at hd
          | some vv =>
            simp only [hc, Option.some.injEq] at hd
            subst hd
            obtain ⟨hl, hband⟩ := velCoordsGA_band _ _ _ _ _ _ hb hc
            exact ⟨p, hp, rfl, hl, hband⟩
      refine ⟨V.length_eq.symm, by rw [← P.length_eq]; exact V.length_eq.symm, ?_, ?_⟩
      · intro v hv'
        obtain ⟨_, _, _, a, b⟩ := hv v hv'
        exact ⟨a, b⟩
      · intro hlen q hq
        obtain ⟨v, hv', hd⟩ := forall₂_mem_right P q hq
        obtain ⟨p, hp, e, _, _⟩ := hv v hv'
        unfold posOneGA at hd
        cases hc : posCoords (-1) params v.d.vec v.vel with
        | none => simp [hc] at hd
        | some rr =>
          simp only [hc, Option.some.injEq] at hd
          subst hd
          exact posCoords_exact _ _ _ _ _ hb (by rw [e]; exact hlen p hp) hc

end Artap.SwarmRun
