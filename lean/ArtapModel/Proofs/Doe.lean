import ArtapModel.Model.Doe
import Mathlib.Data.List.Nodup
import Mathlib.Tactic.Linarith
/-!
# Lemmas about the design generators (helper file; property theorems are in `Props/C13.lean`)
-/
namespace Artap.Doe

/-! ## sequencing -/

theorem allSome_eq_some {α} : ∀ {l : List (Option α)} {r : List α}, allSome l = some r ↔ l = r.map some
  | [], r => by cases r <;> simp [allSome]
  | none :: l, r => by cases r <;> simp [allSome]
  | some a :: l, r => by
    cases r with
    | nil => simp [allSome]
    | cons b r =>
      simp only [allSome, Option.map_eq_some_iff, List.map_cons, List.cons.injEq, Option.some.injEq]
      constructor
      · rintro ⟨r', h, h'⟩
        obtain ⟨rfl, rfl⟩ := h'
        exact ⟨rfl, allSome_eq_some.mp h⟩
      · rintro ⟨rfl, h⟩
        exact ⟨r, allSome_eq_some.mpr h, rfl, rfl⟩

theorem allSome_isSome {α} : ∀ {l : List (Option α)}, (∀ x ∈ l, ∃ a, x = some a) → ∃ r, allSome l = some r
  | [], _ => ⟨[], rfl⟩
  | x :: l, h => by
    obtain ⟨a, rfl⟩ := h x (by simp)
    obtain ⟨r, hr⟩ := allSome_isSome (l := l) (fun y hy => h y (by simp [hy]))
    exact ⟨a :: r, by simp [allSome, hr]⟩

/-! ## full factorial: mixed-radix digits -/

/-- mixed-radix digits of `t`, least significant first -/
def digits : List Nat → Nat → List Nat
  | [], _ => []
  | l :: ls, t => t % l :: digits ls (t / l)

theorem rowGo_eq_digits : ∀ (levels : List Nat) (rep t : Nat),
    rowGo levels rep t = digits levels (t / rep)
  | [], _, _ => rfl
  | l :: ls, rep, t => by
    simp only [rowGo, digits]
    rw [Nat.mod_mul_right_div_self, rowGo_eq_digits ls (rep * l) t, Nat.div_div_eq_div_mul]

theorem fullfactRows_eq (levels : List Nat) :
    fullfactRows levels = (List.range (prod levels)).map (digits levels) := by
  unfold fullfactRows
  apply List.map_congr_left
  intro t _
  rw [rowGo_eq_digits, Nat.div_one]

/-- `row` is a combination of level indices: one index below each level count. -/
abbrev InBox (row levels : List Nat) : Prop := List.Forall₂ (· < ·) row levels

theorem prod_pos_of_inBox : ∀ {row levels : List Nat}, InBox row levels → 0 < prod levels
  | _, _, .nil => by simp [prod]
  | _, _, .cons (a := x) (b := l) h t => by
    have := prod_pos_of_inBox t
    simp only [prod]
    exact Nat.mul_pos (by omega) this

theorem digits_inBox : ∀ (levels : List Nat) (t : Nat), 0 < prod levels → InBox (digits levels t) levels
  | [], _, _ => .nil
  | l :: ls, t, h => by
    simp only [prod] at h
    have hl : 0 < l := Nat.pos_of_mul_pos_right h
    have hp : 0 < prod ls := Nat.pos_of_mul_pos_left h
    exact .cons (Nat.mod_lt _ hl) (digits_inBox ls _ hp)

theorem digits_surj : ∀ {row levels : List Nat}, InBox row levels → ∃ t, t < prod levels ∧ digits levels t = row
  | _, _, .nil => ⟨0, by simp [prod], rfl⟩
  | _, _, .cons (a := x) (b := l) h t => by
    obtain ⟨t', ht', hd⟩ := digits_surj t
    refine ⟨x + l * t', ?_, ?_⟩
    · simp only [prod]
      calc x + l * t' < l + l * t' := by omega
        _ = l * (t' + 1) := by rw [Nat.mul_succ]; omega
        _ ≤ l * prod _ := Nat.mul_le_mul_left _ ht'
    · simp only [digits]
      rw [Nat.add_mul_mod_self_left, Nat.mod_eq_of_lt h, Nat.add_mul_div_left _ _ (by omega : 0 < l),
        Nat.div_eq_of_lt h, Nat.zero_add, hd]

theorem digits_inj : ∀ (levels : List Nat) {s t : Nat}, s < prod levels → t < prod levels →
    digits levels s = digits levels t → s = t
  | [], s, t, hs, ht, _ => by simp [prod] at hs ht; omega
  | l :: ls, s, t, hs, ht, h => by
    simp only [digits, List.cons.injEq] at h
    simp only [prod] at hs ht
    have h2 := digits_inj ls (Nat.div_lt_of_lt_mul hs) (Nat.div_lt_of_lt_mul ht) h.2
    have e1 := Nat.div_add_mod s l
    have e2 := Nat.div_add_mod t l
    rw [h.1, h2] at e1
    omega

theorem mem_fullfactRows {levels row : List Nat} : row ∈ fullfactRows levels ↔ InBox row levels := by
  rw [fullfactRows_eq]
  simp only [List.mem_map, List.mem_range]
  constructor
  · rintro ⟨t, ht, rfl⟩
    exact digits_inBox _ _ (by omega)
  · intro h
    exact digits_surj h

theorem nodup_fullfactRows (levels : List Nat) : (fullfactRows levels).Nodup := by
  rw [fullfactRows_eq]
  apply List.Nodup.map_on _ List.nodup_range
  intro s hs t ht h
  exact digits_inj levels (List.mem_range.mp hs) (List.mem_range.mp ht) h

theorem length_fullfactRows (levels : List Nat) : (fullfactRows levels).length = prod levels := by
  simp [fullfactRows]

/-! ## `construct_df` on non-negative in-range indices -/

theorem pyGet_ofNat {α} (l : List α) (x : Nat) : pyGet l (Int.ofNat x) = l[x]? := by
  simp [pyGet]

/-- `construct_df` row for natural indices -/
def pickNat {α} : List (List α) → List Nat → Option (List α)
  | _, [] => some []
  | [], _ :: _ => none
  | l :: ls, v :: vs =>
    match l[v]?, pickNat ls vs with
    | some a, some r => some (a :: r)
    | _, _ => none

theorem pickRow_ofNat {α} : ∀ (lists : List (List α)) (row : List Nat),
    pickRow lists (row.map Int.ofNat) = pickNat lists row
  | _, [] => by simp [pickRow, pickNat]
  | [], _ :: _ => by simp [pickRow, pickNat]
  | l :: ls, v :: vs => by
    simp only [List.map_cons, pickRow, pickNat, pyGet_ofNat, pickRow_ofNat ls vs]
    cases l[v]? <;> cases pickNat ls vs <;> rfl

theorem pickNat_cons_eq_some {α} {l : List α} {ls : List (List α)} {v : Nat} {vs : List Nat} {out : List α} :
    pickNat (l :: ls) (v :: vs) = some out ↔ ∃ a r, l[v]? = some a ∧ pickNat ls vs = some r ∧ out = a :: r := by
  simp only [pickNat]
  cases h1 : l[v]? <;> cases h2 : pickNat ls vs <;> simp [eq_comm]

/-- selecting by a combination of indices succeeds … -/
theorem pickNat_isSome {α} : ∀ {lists : List (List α)} {row : List Nat},
    InBox row (lists.map List.length) → ∃ out, pickNat lists row = some out
  | [], [], _ => ⟨[], rfl⟩
  | [], _ :: _, h => by simp [InBox] at h
  | _ :: _, [], h => by simp [InBox] at h
  | l :: ls, v :: vs, h => by
    simp only [InBox, List.map_cons, List.forall₂_cons] at h
    obtain ⟨r, hr⟩ := pickNat_isSome (lists := ls) h.2
    exact ⟨l[v] :: r, pickNat_cons_eq_some.mpr ⟨l[v], r, by simp [h.1], hr, rfl⟩⟩

/-- … and the selected rows are exactly the combinations of the level values. -/
theorem pickNat_range {α} : ∀ {lists : List (List α)} {out : List α},
    (∃ row, InBox row (lists.map List.length) ∧ pickNat lists row = some out) ↔ List.Forall₂ (· ∈ ·) out lists
  | [], out => by
    constructor
    · rintro ⟨row, h, hp⟩
      cases row with
      | nil => simp [pickNat] at hp; subst hp; exact .nil
      | cons _ _ => simp [InBox] at h
    · intro h
      cases h
      exact ⟨[], .nil, rfl⟩
  | l :: ls, out => by
    constructor
    · rintro ⟨row, h, hp⟩
      cases row with
      | nil => simp [InBox] at h
      | cons v vs =>
        simp only [InBox, List.map_cons, List.forall₂_cons] at h
        obtain ⟨a, r, ha, hr, rfl⟩ := pickNat_cons_eq_some.mp hp
        exact .cons (List.mem_of_getElem? ha) (pickNat_range.mp ⟨vs, h.2, hr⟩)
    · intro h
      cases h with
      | cons ha hr =>
        obtain ⟨vs, hvs, hp⟩ := pickNat_range.mpr hr
        obtain ⟨v, hv, hget⟩ := List.getElem_of_mem ha
        refine ⟨v :: vs, ?_, pickNat_cons_eq_some.mpr ⟨_, _, ?_, hp, rfl⟩⟩
        · simp only [InBox, List.map_cons, List.forall₂_cons]; exact ⟨hv, hvs⟩
        · simp [hv, hget]

/-- distinct level values: different index combinations select different rows -/
theorem pickNat_inj {α} : ∀ {lists : List (List α)} {r1 r2 : List Nat} {out : List α},
    (∀ l ∈ lists, l.Nodup) → r1.length = lists.length → r2.length = lists.length →
    pickNat lists r1 = some out → pickNat lists r2 = some out → r1 = r2
  | [], [], [], _, _, _, _, _, _ => rfl
  | [], _ :: _, _, _, _, h, _, _, _ => by simp at h
  | [], [], _ :: _, _, _, _, h, _, _ => by simp at h
  | _ :: _, [], _, _, _, h, _, _, _ => by simp at h
  | _ :: _, _ :: _, [], _, _, _, h, _, _ => by simp at h
  | l :: ls, v :: vs, w :: ws, out, hn, h1, h2, p1, p2 => by
    obtain ⟨a, r, ha, hr, rfl⟩ := pickNat_cons_eq_some.mp p1
    obtain ⟨a', r', ha', hr', e⟩ := pickNat_cons_eq_some.mp p2
    simp only [List.cons.injEq] at e
    obtain ⟨rfl, rfl⟩ := e
    have hvw : v = w := by
      obtain ⟨hv, hva⟩ := List.getElem?_eq_some_iff.mp ha
      obtain ⟨hw, hwa⟩ := List.getElem?_eq_some_iff.mp ha'
      exact (List.Nodup.getElem_inj_iff (hn l (by simp))).mp (hva.trans hwa.symm)
    have := pickNat_inj (lists := ls) (fun l hl => hn l (by simp [hl])) (by simpa using h1) (by simpa using h2) hr hr'
    rw [hvw, this]

theorem length_of_inBox {row levels : List Nat} (h : InBox row levels) : row.length = levels.length :=
  List.Forall₂.length_eq h

/-- `construct_df` applied to a duplicate-free set of index combinations: every run is a combination of the supplied
values, and with distinct values per factor no run repeats. -/
theorem constructDf_box {α} {lists : List (List α)} {d : List (List Nat)} {V : List (List α)}
    (hd : d.Nodup) (hbox : ∀ y ∈ d, InBox y (lists.map List.length))
    (h : constructDf (toIntRows d) lists = some V) :
    (∀ v ∈ V, List.Forall₂ (· ∈ ·) v lists) ∧ ((∀ l ∈ lists, l.Nodup) → V.Nodup) := by
  have hmap : (toIntRows d).map (pickRow lists) = d.map (pickNat lists) := by
    simp only [toIntRows, List.map_map]
    apply List.map_congr_left
    intro row _
    exact pickRow_ofNat lists row
  unfold constructDf at h
  rw [hmap] at h
  have hV := allSome_eq_some.mp h
  constructor
  · intro v hv
    have : some v ∈ d.map (pickNat lists) := by rw [hV]; exact List.mem_map_of_mem hv
    obtain ⟨y, hy, hp⟩ := List.mem_map.mp this
    exact pickNat_range.mp ⟨y, hbox y hy, hp⟩
  · intro hn
    have hnd : (d.map (pickNat lists)).Nodup := by
      apply List.Nodup.map_on _ hd
      intro r1 h1 r2 h2 e
      have l1 := length_of_inBox (hbox r1 h1)
      have l2 := length_of_inBox (hbox r2 h2)
      obtain ⟨out, ho⟩ := pickNat_isSome (hbox r1 h1)
      simp only [List.length_map] at l1 l2
      exact pickNat_inj hn l1 l2 ho (e ▸ ho)
    rw [hV] at hnd
    exact List.Nodup.of_map _ hnd

end Artap.Doe
