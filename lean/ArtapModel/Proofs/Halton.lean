import ArtapModel.Proofs.Sampling
import Mathlib.Data.Nat.Digits.Defs
import Mathlib.Data.Nat.Prime.Basic
/-!
# Lemmas about the Halton sampler (helper file; property theorems are in `Props/C12.lean`)

`radicalInverse` is the specification (digits of `i` in base `b` via `Nat.digits`, mirrored at the radix point);
`vdcLoop_eq` ties the `while` loop of `_van_der_corput` to it; `haltonBases_spec` characterises the bases as the
first primes.
-/
namespace Artap.Sampling

/-- `Σ_k d_k / b^(k+1)` over a digit list (least significant digit first), first index `k`. -/
def digitSum (b : Nat) (k : Nat) (ds : List Nat) : Rat :=
  ((ds.zipIdx k).map fun p => (p.1 : Rat) / (b : Rat) ^ (p.2 + 1)).sum

/-- The radical inverse of `i` in base `b`: the base-`b` digits of `i` mirrored at the radix point,
`Σ_k digit_k(i) / b^(k+1)`. -/
def radicalInverse (b i : Nat) : Rat := digitSum b 0 (Nat.digits b i)

theorem digitSum_nil (b k : Nat) : digitSum b k [] = 0 := by simp [digitSum]

theorem digitSum_cons (b k d : Nat) (ds : List Nat) :
    digitSum b k (d :: ds) = (d : Rat) / (b : Rat) ^ (k + 1) + digitSum b (k + 1) ds := by
  simp [digitSum, List.zipIdx_cons]

theorem digitSum_succ {b : Nat} (hb : b ≠ 0) (k : Nat) (ds : List Nat) :
    digitSum b (k + 1) ds = digitSum b k ds / b := by
  have hb' : (b : Rat) ≠ 0 := by exact_mod_cast hb
  induction ds generalizing k with
  | nil => simp [digitSum_nil]
  | cons d ds ih =>
    rw [digitSum_cons, digitSum_cons, ih (k + 1), ih k]
    field_simp
    ring

theorem radicalInverse_zero (b : Nat) : radicalInverse b 0 = 0 := by
  simp [radicalInverse, digitSum_nil]

theorem radicalInverse_step {b i : Nat} (hb : 2 ≤ b) (hi : 0 < i) :
    radicalInverse b i = (((i % b : Nat) : Rat) + radicalInverse b (i / b)) / b := by
  have hb' : (b : Rat) ≠ 0 := by exact_mod_cast (by omega : b ≠ 0)
  unfold radicalInverse
  rw [Nat.digits_def' (by omega) hi, digitSum_cons, digitSum_succ (by omega)]
  field_simp
  ring

theorem vdcLoop_eq {b : Nat} (hb : 2 ≤ b) : ∀ (i : Nat) (D x : Rat), D ≠ 0 →
    vdcLoop b i D x = x + radicalInverse b i / D := by
  intro i
  induction i using Nat.strong_induction_on with
  | _ i ih =>
    intro D x hD
    have hb' : (b : Rat) ≠ 0 := by exact_mod_cast (by omega : b ≠ 0)
    rw [vdcLoop]
    split
    · rename_i h
      rw [ih (i / b) (Nat.div_lt_self h.1 h.2) _ _ (mul_ne_zero hD hb'), radicalInverse_step hb h.1]
      field_simp
      ring
    · rename_i h
      have : i = 0 := by omega
      subst this
      simp [radicalInverse_zero]


theorem vanDerCorput_eq {b i : Nat} {r : Rat} (h : vanDerCorput b i = some r) :
    2 ≤ b ∧ r = radicalInverse b i := by
  unfold vanDerCorput at h
  split at h
  · simp at h
  · have hb : 2 ≤ b := by omega
    refine ⟨hb, ?_⟩
    have := vdcLoop_eq hb i 1 0 one_ne_zero
    simp only [Option.some.injEq] at h
    rw [← h, this]; simp

theorem isPrime_iff (n : Nat) : isPrime n = true ↔ Nat.Prime n := by
  rw [Nat.prime_def_lt']
  unfold isPrime
  simp only [Bool.and_eq_true, decide_eq_true_eq, List.all_eq_true, List.mem_range, Bool.or_eq_true,
    bne_iff_ne, ne_eq]
  constructor
  · rintro ⟨h2, h⟩
    refine ⟨h2, fun m hm hlt hdvd => ?_⟩
    rcases h m hlt with h' | h'
    · omega
    · exact h' (Nat.mod_eq_zero_of_dvd hdvd)
  · rintro ⟨h2, h⟩
    refine ⟨h2, fun m hlt => ?_⟩
    by_cases hm : m < 2
    · exact Or.inl hm
    · exact Or.inr fun h0 => h m (by omega) hlt (Nat.dvd_of_mod_eq_zero h0)

theorem mem_primesBelow {n p : Nat} : p ∈ primesBelow n ↔ p < n ∧ Nat.Prime p := by
  simp [primesBelow, isPrime_iff]

theorem primesBelow_sorted (n : Nat) : (primesBelow n).Pairwise (· < ·) :=
  List.Pairwise.sublist List.filter_sublist List.pairwise_lt_range

theorem mem_take_of_lt {L : List Nat} (hs : L.Pairwise (· < ·)) {d p q : Nat} (hp : p ∈ L.take d)
    (hq : q ∈ L) (hqp : q < p) : q ∈ L.take d := by
  rw [← List.take_append_drop d L] at hs hq
  rcases List.mem_append.mp hq with h | h
  · exact h
  · have := (List.pairwise_append.mp hs).2.2 p hp q h
    omega

theorem basesLoop_spec : ∀ {fuel big dim : Nat} {l : List Nat}, basesLoop fuel big dim = some l →
    ∃ big', l = (primesBelow big').take dim ∧ l.length = dim
  | 0, _, _, _, h => by simp [basesLoop] at h
  | fuel + 1, big, dim, l, h => by
    simp only [basesLoop] at h
    split at h
    · rename_i hlen
      simp only [Option.some.injEq] at h
      subst h
      exact ⟨big, rfl, by simpa using hlen⟩
    · exact basesLoop_spec h

/-- The bases used by `halton` are exactly the first `dim` primes: `dim` of them, strictly increasing, all
prime, and no prime below one of them is skipped. -/
theorem haltonBases_spec {dim : Nat} {l : List Nat} (h : haltonBases dim = some l) :
    l.length = dim ∧ l.Pairwise (· < ·) ∧ (∀ p ∈ l, Nat.Prime p) ∧
    ∀ p ∈ l, ∀ q, Nat.Prime q → q < p → q ∈ l := by
  obtain ⟨big, rfl, hlen⟩ := basesLoop_spec h
  refine ⟨hlen, List.Pairwise.sublist (List.take_sublist _ _) (primesBelow_sorted big), ?_, ?_⟩
  · intro p hp
    exact (mem_primesBelow.mp (List.mem_of_mem_take hp)).2
  · intro p hp q hq hqp
    have hpb := (mem_primesBelow.mp (List.mem_of_mem_take hp)).1
    exact mem_take_of_lt (primesBelow_sorted big) hp (mem_primesBelow.mpr ⟨by omega, hq⟩) hqp

theorem haltonUnit_spec {N dim : Nat} {H : List (List Rat)} (h : haltonUnit N dim = some H) :
    ∃ base, haltonBases dim = some base ∧ 0 < dim ∧ H.length = N ∧ (∀ row ∈ H, row.length = dim) ∧
      ∀ (i j p : Nat), i < N → base[j]? = some p → entry H i j = some (radicalInverse p (i + 1)) := by
  simp only [haltonUnit, Option.bind_eq_bind, Option.bind_eq_some_iff] at h
  obtain ⟨base, hbase, h⟩ := h
  split at h
  · simp at h
  · rename_i hne
    simp only [Option.bind_eq_some_iff, Option.some.injEq] at h
    obtain ⟨rows, hrows, rfl⟩ := h
    obtain ⟨blen, _⟩ := haltonBases_spec hbase
    obtain ⟨r1, r2⟩ := allSome_range hrows
    have rowspec : ∀ i : Nat, i < N → ∃ row, (rows.drop 1)[i]? = some row ∧ row.length = dim ∧
        ∀ (j p : Nat), base[j]? = some p → row[j]? = some (radicalInverse p (i + 1)) := by
      intro i hi
      have hi1 : 1 + i < rows.length := by omega
      refine ⟨rows[1 + i], ?_, ?_⟩
      · rw [List.getElem?_drop, List.getElem?_eq_getElem hi1]
      · have hr := r2 (1 + i) (by omega)
        rw [List.getElem?_eq_getElem hi1] at hr
        obtain ⟨a1, a2⟩ := allSome_map hr
        refine ⟨by rw [a1, blen], fun j p hjp => ?_⟩
        have := a2 j p hjp
        have hj : j < rows[1 + i].length := by
          rw [a1]; exact (List.getElem?_eq_some_iff.mp hjp).1
        rw [List.getElem?_eq_getElem hj] at this ⊢
        have e := (vanDerCorput_eq this).2
        rw [e, Nat.add_comm 1 i]
    refine ⟨base, hbase, ?_, by simp [r1], ?_, ?_⟩
    · cases base with
      | nil => simp at hne
      | cons a t => simp at blen; omega
    · intro row hrow
      obtain ⟨i, hi, rfl⟩ := List.mem_iff_getElem.mp hrow
      have hiN : i < N := by simpa [r1] using hi
      obtain ⟨row, hr, hl, _⟩ := rowspec i hiN
      rw [List.getElem?_eq_getElem hi] at hr
      cases Option.some.inj hr
      exact hl
    · intro i j p hi hjp
      obtain ⟨row, hr, _, hv⟩ := rowspec i hi
      unfold entry
      rw [hr]
      exact hv j p hjp


theorem radicalInverse_unit {b : Nat} (hb : 2 ≤ b) : ∀ i : Nat, 0 ≤ radicalInverse b i ∧ radicalInverse b i < 1 := by
  intro i
  induction i using Nat.strong_induction_on with
  | _ i ih =>
    rcases Nat.eq_zero_or_pos i with rfl | hi
    · simp [radicalInverse_zero]
    · have hb0 : (0 : Rat) < b := by exact_mod_cast (by omega : 0 < b)
      obtain ⟨h0, h1⟩ := ih (i / b) (Nat.div_lt_self hi hb)
      have hm : ((i % b : Nat) : Rat) + 1 ≤ b := by
        have : i % b + 1 ≤ b := Nat.mod_lt i (by omega)
        exact_mod_cast this
      have hm0 : (0 : Rat) ≤ ((i % b : Nat) : Rat) := by exact_mod_cast Nat.zero_le _
      rw [radicalInverse_step hb hi]
      constructor
      · exact div_nonneg (by linarith) hb0.le
      · rw [div_lt_one hb0]; linarith

theorem buildHalton_spec {N : Nat} {bounds : List (Rat × Rat)} {X : List (List Rat)}
    (h : buildHalton N bounds = some X) :
    ∃ base, haltonBases bounds.length = some base ∧ 0 < bounds.length ∧ X.length = N ∧
      (∀ row ∈ X, row.length = bounds.length) ∧
      ∀ (i j p : Nat) (b : Rat × Rat), i < N → base[j]? = some p → bounds[j]? = some b →
        entry X i j = some (b.1 + radicalInverse p (i + 1) * |b.2 - b.1|) := by
  simp only [buildHalton, Option.bind_eq_bind, Option.bind_eq_some_iff] at h
  obtain ⟨H, hH, hX⟩ := h
  obtain ⟨base, hbase, hd, hl, hr, he⟩ := haltonUnit_spec hH
  obtain ⟨c1, _⟩ := constructDf_spec hX
  refine ⟨base, hbase, hd, by rw [c1, hl], constructDf_rowlen hX hr, ?_⟩
  intro i j p b hi hp hb
  have := constructDf_entry hX (he i j p hi hp) hb
  rw [this, affine, rabs_eq]

/-! ## the bases loop succeeds (up to the second sieve round) -/


theorem primesBelow_1010_length : (primesBelow 1010).length = 169 := by decide +kernel

theorem haltonBases_defined_169 {dim : Nat} (h : dim ≤ 169) : ∃ l, haltonBases dim = some l := by
  unfold haltonBases
  rw [basesLoop]
  split
  · exact ⟨_, rfl⟩
  · rename_i h1
    cases dim with
    | zero => simp at h1
    | succ d =>
      rw [basesLoop]
      have : ((primesBelow (10 + 1000)).take (d + 1)).length = d + 1 := by
        rw [List.length_take, show 10 + 1000 = 1010 from rfl, primesBelow_1010_length]; omega
      simp only [this, beq_self_eq_true, if_true]
      exact ⟨_, rfl⟩

end Artap.Sampling
