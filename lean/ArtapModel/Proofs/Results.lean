import ArtapModel.Model.Results
import Mathlib.Order.Defs.LinearOrder
import Mathlib.Tactic.Linarith
import Mathlib.Algebra.Order.Field.Basic
import Mathlib.Algebra.Order.Field.Rat
import Mathlib.Data.List.Forall2
/-! # Lemmas about the result queries and quality indicators (helper file for `Props/C17.lean`) -/
namespace Artap.Results

theorem population_foldl (inds acc : List Ind) (pid : Int) :
    inds.foldl (fun acc i => if i.tag == pid then acc ++ [i] else acc) acc =
      acc ++ inds.filter (fun i => i.tag == pid) := by
  induction inds generalizing acc with
  | nil => simp
  | cons i is ih =>
    simp only [List.foldl_cons, ih, List.filter_cons]
    by_cases h : (i.tag == pid) = true <;> simp [h]

theorem population_eq_filter (inds : List Ind) (pid : Int) :
    population inds pid = inds.filter (fun i => i.tag == pid) := by
  unfold population; rw [population_foldl]; simp


theorem lastTag_foldl (inds : List Ind) (m : Int) :
    let r := inds.foldl (fun m i => if i.tag > m then i.tag else m) m
    m ≤ r ∧ (∀ i ∈ inds, i.tag ≤ r) ∧ (r = m ∨ ∃ i ∈ inds, i.tag = r) := by
  induction inds generalizing m with
  | nil => simp
  | cons i is ih =>
    simp only [List.foldl_cons]
    by_cases h : i.tag > m
    · simp only [h, if_true]
      obtain ⟨h1, h2, h3⟩ := ih i.tag
      refine ⟨by omega, ?_, ?_⟩
      · intro x hx
        rcases List.mem_cons.mp hx with rfl | hx
        · exact h1
        · exact h2 x hx
      · right
        rcases h3 with h3 | ⟨x, hx, hx'⟩
        · exact ⟨i, by simp, h3.symm⟩
        · exact ⟨x, by simp [hx], hx'⟩
    · simp only [h, if_false]
      obtain ⟨h1, h2, h3⟩ := ih m
      refine ⟨h1, ?_, ?_⟩
      · intro x hx
        rcases List.mem_cons.mp hx with rfl | hx
        · omega
        · exact h2 x hx
      · rcases h3 with h3 | ⟨x, hx, hx'⟩
        · exact Or.inl h3
        · exact Or.inr ⟨x, by simp [hx], hx'⟩

theorem lastTag_spec (inds : List Ind) :
    -1 ≤ lastTag inds ∧ (∀ i ∈ inds, i.tag ≤ lastTag inds) ∧
      (lastTag inds = -1 ∨ ∃ i ∈ inds, i.tag = lastTag inds) := lastTag_foldl inds (-1)

/-- the accumulator of `min`/`max` -/
theorem best_foldl (better : Int → Int → Bool) (index : Nat)
    (hasym : ∀ a b, better a b = true → better b a = false)
    (htr : ∀ a b c, better a b = false → better b c = false → better a c = false)
    (is : List Ind) (hc : ∀ x ∈ is, index < x.costs.length) (b : Ind) (cb : Int)
    (hb : b.costs[index]? = some cb) :
    ∃ o co, is.foldl (bestStep better index) (some (b, cb)) = some (o, co) ∧ (o = b ∨ o ∈ is) ∧
      o.costs[index]? = some co ∧ better cb co = false ∧
      ∀ x ∈ is, ∀ cx, x.costs[index]? = some cx → better cx co = false := by
  induction is generalizing b cb with
  | nil =>
    refine ⟨b, cb, rfl, Or.inl rfl, hb, ?_, by simp⟩
    cases h : better cb cb
    · rfl
    · have := hasym _ _ h; rw [h] at this; exact absurd this (by simp)
  | cons x xs ih =>
    have hx : index < x.costs.length := hc x (by simp)
    have hxc : x.costs[index]? = some x.costs[index] := by simp [hx]
    have hc' : ∀ y ∈ xs, index < y.costs.length := fun y hy => hc y (by simp [hy])
    simp only [List.foldl_cons, bestStep, hxc]
    by_cases hbt : better x.costs[index] cb = true
    · simp only [hbt, if_true]
      obtain ⟨o, co, h1, h2, h3, h4, h5⟩ := ih hc' x x.costs[index] hxc
      refine ⟨o, co, h1, ?_, h3, ?_, ?_⟩
      · rcases h2 with rfl | h2
        · right; simp
        · right; simp [h2]
      · exact htr _ _ _ (hasym _ _ hbt) h4
      · intro y hy cy hcy
        rcases List.mem_cons.mp hy with rfl | hy
        · rw [hxc] at hcy; cases hcy; exact h4
        · exact h5 y hy cy hcy
    · have hbf : better x.costs[index] cb = false := by simpa using hbt
      simp only [hbf, Bool.false_eq_true, if_false]
      obtain ⟨o, co, h1, h2, h3, h4, h5⟩ := ih hc' b cb hb
      refine ⟨o, co, h1, ?_, h3, h4, ?_⟩
      · rcases h2 with rfl | h2
        · left; rfl
        · right; simp [h2]
      · intro y hy cy hcy
        rcases List.mem_cons.mp hy with rfl | hy
        · rw [hxc] at hcy; cases hcy; exact htr _ _ _ hbf h4
        · exact h5 y hy cy hcy

theorem bestByCost_spec (better : Int → Int → Bool) (index : Nat)
    (hasym : ∀ a b, better a b = true → better b a = false)
    (htr : ∀ a b c, better a b = false → better b c = false → better a c = false)
    (inds : List Ind) (hne : inds ≠ []) (hc : ∀ x ∈ inds, index < x.costs.length) :
    ∃ o co, bestByCost better index inds = some o ∧ o ∈ inds ∧ o.costs[index]? = some co ∧
      ∀ x ∈ inds, ∀ cx, x.costs[index]? = some cx → better cx co = false := by
  cases inds with
  | nil => exact absurd rfl hne
  | cons i is =>
    have hi : index < i.costs.length := hc i (by simp)
    have hic : i.costs[index]? = some i.costs[index] := by simp [hi]
    obtain ⟨o, co, h1, h2, h3, h4, h5⟩ := best_foldl better index hasym htr is
      (fun x hx => hc x (by simp [hx])) i i.costs[index] hic
    refine ⟨o, co, ?_, ?_, h3, ?_⟩
    · simp only [bestByCost, hic, h1, Option.map_some]
    · rcases h2 with rfl | h2 <;> simp [*]
    · intro y hy cy hcy
      rcases List.mem_cons.mp hy with rfl | hy
      · rw [hic] at hcy; cases hcy; exact h4
      · exact h5 y hy cy hcy


/-- all points have dimension `n` -/
def Dim (n : Nat) (pts : List Pt) : Prop := ∀ p ∈ pts, p.length = n

/-- every coordinate of `c` exceeds that of `r` by at most `e` -/
def Within (e : Rat) (c r : Pt) : Prop := List.Forall₂ (fun a b => a - b ≤ e) c r

/-- `x ≤ e` for an extended value -/
def LeE : Ext → Rat → Prop
  | .fin v, e => v ≤ e
  | .inf, _ => False

theorem maxDiffAux_spec (cs rs : Pt) (m : Rat) (hl : cs.length = rs.length) :
    ∃ out, maxDiffAux m cs rs = some out ∧ ∀ e, out ≤ e ↔ (m ≤ e ∧ Within e cs rs) := by
  induction cs generalizing rs m with
  | nil =>
    cases rs with
    | nil => exact ⟨m, rfl, fun e => by simp [Within]⟩
    | cons b bs => simp at hl
  | cons a as ih =>
    cases rs with
    | nil => simp at hl
    | cons b bs =>
      simp only [List.length_cons, Nat.add_right_cancel_iff] at hl
      obtain ⟨out, h1, h2⟩ := ih bs (if a - b > m then a - b else m) hl
      refine ⟨out, by simpa [maxDiffAux] using h1, fun e => ?_⟩
      rw [h2 e]
      simp only [Within, List.forall₂_cons]
      by_cases hm : a - b > m
      · simp only [hm, if_true]
        constructor
        · rintro ⟨h, h'⟩; exact ⟨by linarith, h, h'⟩
        · rintro ⟨_, h, h'⟩; exact ⟨h, h'⟩
      · simp only [hm, if_false]
        constructor
        · rintro ⟨h, h'⟩; exact ⟨h, by linarith, h'⟩
        · rintro ⟨h, _, h'⟩; exact ⟨h, h'⟩

theorem maxDiff_spec (c r : Pt) (hl : c.length = r.length) (hn : 1 ≤ c.length) :
    ∃ m, maxDiff c r = some m ∧ (∀ e, m ≤ e ↔ Within e c r) := by
  cases c with
  | nil => simp at hn
  | cons a as =>
    cases r with
    | nil => simp at hl
    | cons b bs =>
      simp only [List.length_cons, Nat.add_right_cancel_iff] at hl
      obtain ⟨out, h1, h2⟩ := maxDiffAux_spec as bs (a - b) hl
      refine ⟨out, by simpa [maxDiff] using h1, fun e => ?_⟩
      rw [h2 e]
      simp only [Within, List.forall₂_cons]

theorem epsJ_spec {n : Nat} (hn : 1 ≤ n) (r : Pt) (hr : r.length = n) (cs : List Pt) (hcs : Dim n cs)
    (acc : Ext) :
    ∃ out, epsJ r cs acc = some out ∧ (∀ e, LeE out e ↔ (LeE acc e ∨ ∃ c ∈ cs, Within e c r)) ∧
      ((acc ≠ .inf ∨ cs ≠ []) → out ≠ .inf) := by
  induction cs generalizing acc with
  | nil => exact ⟨acc, rfl, by simp, by simp⟩
  | cons c cs ih =>
    have hc : c.length = n := hcs c (by simp)
    obtain ⟨m, h1, h2⟩ := maxDiff_spec c r (hc.trans hr.symm) (by omega)
    simp only [epsJ, h1]
    obtain ⟨out, g1, g2, g3⟩ := ih (fun p hp => hcs p (by simp [hp]))
      (extMin m acc)
    refine ⟨out, g1, ?_, ?_⟩
    · intro e
      rw [g2 e]
      simp only [List.mem_cons, exists_eq_or_imp, ← h2 e]
      cases acc with
      | inf => simp [LeE, extMin]
      | fin j =>
        by_cases hj : j < m
        · simp only [extMin, hj, if_true, LeE]
          constructor
          · rintro (h | h); exact Or.inl h; exact Or.inr (Or.inr h)
          · rintro (h | h | h); exact Or.inl h; exact Or.inl (by linarith); exact Or.inr h
        · simp only [extMin, hj, if_false, LeE]
          constructor
          · rintro (h | h); exact Or.inr (Or.inl h); exact Or.inr (Or.inr h)
          · rintro (h | h | h); exact Or.inl (by linarith); exact Or.inl h; exact Or.inr h
    · intro _
      apply g3
      left
      cases acc with
      | inf => simp [extMin]
      | fin j => by_cases hj : j < m <;> simp [extMin, hj]

theorem epsLoop_spec {n : Nat} (hn : 1 ≤ n) (comp : List Pt) (hcomp : Dim n comp) (rs : List Pt)
    (hrs : Dim n rs) (acc : Ext) :
    ∃ out, epsLoop comp rs acc = some out ∧
      (∀ e, LeE out e ↔ (LeE acc e ∧ ∀ r ∈ rs, ∃ c ∈ comp, Within e c r)) ∧
      (acc ≠ .inf → comp ≠ [] → out ≠ .inf) := by
  induction rs generalizing acc with
  | nil => exact ⟨acc, rfl, by simp, fun h _ => h⟩
  | cons r rs ih =>
    have hr : r.length = n := hrs r (by simp)
    obtain ⟨j, h1, h2, h3⟩ := epsJ_spec hn r hr comp hcomp .inf
    simp only [epsLoop, h1]
    obtain ⟨out, g1, g2, g3⟩ := ih (fun p hp => hrs p (by simp [hp]))
      (extMax acc j)
    refine ⟨out, g1, ?_, ?_⟩
    · intro e
      rw [g2 e]
      simp only [List.mem_cons, forall_eq_or_imp]
      have h2e := h2 e
      simp only [LeE, false_or] at h2e
      rw [← h2e]
      cases acc with
      | inf => simp [LeE, extMax]
      | fin a =>
        cases j with
        | inf => simp [LeE, extMax]
        | fin j =>
          by_cases hj : j > a
          · simp only [extMax, hj, if_true, LeE]
            constructor
            · rintro ⟨h, h'⟩; exact ⟨by linarith, h, h'⟩
            · rintro ⟨_, h, h'⟩; exact ⟨h, h'⟩
          · simp only [extMax, hj, if_false, LeE]
            constructor
            · rintro ⟨h, h'⟩; exact ⟨h, by linarith, h'⟩
            · rintro ⟨h, _, h'⟩; exact ⟨h, h'⟩
    · intro ha hc
      apply g3 _ hc
      have hj := h3 (Or.inr hc)
      cases acc with
      | inf => exact absurd rfl ha
      | fin a =>
        cases j with
        | inf => exact absurd rfl hj
        | fin j => by_cases hj : j > a <;> simp [extMax, hj]

/-- Characterisation of the additive epsilon indicator: it is a number `v` (non-empty computed set) and
`v ≤ e` iff `0 ≤ e` and every reference point is within `e` of some computed point in every
coordinate — i.e. `v = max(0, max_r min_c max_i (c_i − r_i))`. -/
theorem epsilonAdd_char {n : Nat} (hn : 1 ≤ n) (ref comp : List Pt) (hr : Dim n ref) (hc : Dim n comp)
    (hne : comp ≠ []) :
    ∃ v, epsilonAdd ref comp = some (.fin v) ∧
      ∀ e, v ≤ e ↔ (0 ≤ e ∧ ∀ r ∈ ref, ∃ c ∈ comp, Within e c r) := by
  obtain ⟨out, h1, h2, h3⟩ := epsLoop_spec hn comp hc ref hr (.fin 0)
  cases out with
  | inf => exact absurd rfl (h3 (by simp) hne)
  | fin v => exact ⟨v, h1, fun e => by simpa [LeE] using h2 e⟩



/-- the point `r` moved by `d` in every coordinate -/
def shift (d : Rat) (r : Pt) : Pt := r.map (· + d)

theorem within_shift (d : Rat) (r : Pt) : Within d (shift d r) r := by
  induction r with
  | nil => exact List.Forall₂.nil
  | cons a r ih => exact List.Forall₂.cons (by simp) ih

theorem exists_min_head (ref : List Pt) (hne : ref ≠ []) :
    ∃ r ∈ ref, ∀ r' ∈ ref, r.headD 0 ≤ r'.headD 0 := by
  induction ref with
  | nil => exact absurd rfl hne
  | cons a ref ih =>
    by_cases h : ref = []
    · subst h; exact ⟨a, by simp, by simp⟩
    · obtain ⟨m, hm, hmin⟩ := ih h
      by_cases hc : a.headD 0 ≤ m.headD 0
      · refine ⟨a, by simp, ?_⟩
        intro r' hr'
        rcases List.mem_cons.mp hr' with rfl | hr'
        · exact le_refl _
        · exact le_trans hc (hmin r' hr')
      · refine ⟨m, by simp [hm], ?_⟩
        intro r' hr'
        rcases List.mem_cons.mp hr' with rfl | hr'
        · linarith
        · exact hmin r' hr'

theorem within_head {e : Rat} {c r : Pt} (h : Within e c r) (hc : c ≠ []) :
    c.headD 0 - r.headD 0 ≤ e := by
  cases h with
  | nil => exact absurd rfl hc
  | cons h _ => simpa using h

/-- computed = reference shifted by `d ≥ 0` in every coordinate (as sets: any order, repeats allowed)
⇒ the indicator is exactly `d`. -/
theorem epsilonAdd_shift {n : Nat} (hn : 1 ≤ n) (ref comp : List Pt) (d : Rat) (hd : 0 ≤ d)
    (hr : Dim n ref) (hne : ref ≠ [])
    (h1 : ∀ r ∈ ref, shift d r ∈ comp) (h2 : ∀ c ∈ comp, ∃ r ∈ ref, c = shift d r) :
    epsilonAdd ref comp = some (.fin d) := by
  have hc : Dim n comp := by
    intro c hc
    obtain ⟨r, hr', rfl⟩ := h2 c hc
    simpa [shift] using hr r hr'
  have hcne : comp ≠ [] := by
    obtain ⟨r, hr'⟩ := List.exists_mem_of_ne_nil ref hne
    exact List.ne_nil_of_mem (h1 r hr')
  obtain ⟨v, hv, hchar⟩ := epsilonAdd_char hn ref comp hr hc hcne
  have hle : v ≤ d := (hchar d).2 ⟨hd, fun r hr' => ⟨shift d r, h1 r hr', within_shift d r⟩⟩
  have hge : d ≤ v := by
    obtain ⟨_, hall⟩ := (hchar v).1 (le_refl v)
    obtain ⟨m, hm, hmin⟩ := exists_min_head ref hne
    obtain ⟨c, hcm, hw⟩ := hall m hm
    obtain ⟨r', hr', rfl⟩ := h2 c hcm
    have hr'n : r' ≠ [] := by
      intro e; have := hr r' hr'; rw [e] at this; simp at this; omega
    have hs : shift d r' ≠ [] := by simpa [shift] using hr'n
    have := within_head hw hs
    have hh : (shift d r').headD 0 = r'.headD 0 + d := by
      cases r' with
      | nil => exact absurd rfl hr'n
      | cons a t => simp [shift]
    rw [hh] at this
    have := hmin r' hr'
    linarith
  rw [hv, le_antisymm hle hge]



theorem lexLe_trans (a b c : Int × Int) (h1 : lexLe a b = true) (h2 : lexLe b c = true) :
    lexLe a c = true := by
  simp only [lexLe, Bool.or_eq_true, decide_eq_true_eq, Bool.and_eq_true, beq_iff_eq] at *
  omega

theorem lexLe_total (a b : Int × Int) : (lexLe a b || lexLe b a) = true := by
  simp only [lexLe, Bool.or_eq_true, decide_eq_true_eq, Bool.and_eq_true, beq_iff_eq]
  omega

theorem lexLe_fst {a b : Int × Int} (h : lexLe a b = true) : a.1 ≤ b.1 := by
  simp only [lexLe, Bool.or_eq_true, decide_eq_true_eq, Bool.and_eq_true, beq_iff_eq] at h
  omega

theorem sortAsc_perm (l : List Int) : (sortAsc l).Perm l := List.mergeSort_perm _ _

theorem sortAsc_pairwise (l : List Int) : (sortAsc l).Pairwise (· ≤ ·) := by
  have := List.pairwise_mergeSort (le := fun (a b : Int) => decide (a ≤ b))
    (by intro a b c; simp only [decide_eq_true_eq]; omega)
    (by intro a b; simp only [Bool.or_eq_true, decide_eq_true_eq]; omega) l
  simpa [sortAsc] using this

/-- the sorted pairs -/
def sortedPairs (l1 l2 : List Int) : List (Int × Int) :=
  (List.zip l1 l2).mergeSort (fun p q => lexLe p q)

theorem sortedPairs_perm (l1 l2 : List Int) : (sortedPairs l1 l2).Perm (List.zip l1 l2) :=
  List.mergeSort_perm _ _

theorem sortedPairs_pairwise (l1 l2 : List Int) :
    (sortedPairs l1 l2).Pairwise (fun p q => lexLe p q = true) :=
  List.pairwise_mergeSort (le := fun p q => lexLe p q) lexLe_trans lexLe_total _

theorem sortedPairs_fst (l1 l2 : List Int) (hl : l1.length = l2.length) :
    (sortedPairs l1 l2).map (·.1) = sortAsc l1 := by
  apply List.Perm.eq_of_pairwise (le := (· ≤ ·))
  · intro a b _ _ h1 h2; omega
  · rw [List.pairwise_map]
    exact (sortedPairs_pairwise l1 l2).imp lexLe_fst
  · exact sortAsc_pairwise l1
  · have h1 : ((sortedPairs l1 l2).map (·.1)).Perm ((List.zip l1 l2).map (·.1)) :=
      (sortedPairs_perm l1 l2).map _
    have h2 : (List.zip l1 l2).map (·.1) = l1 := by
      rw [List.map_fst_zip]; omega
    rw [h2] at h1
    exact h1.trans (sortAsc_perm l1).symm

theorem zip_map_fst_snd (l : List (Int × Int)) : List.zip (l.map (·.1)) (l.map (·.2)) = l := by
  induction l with
  | nil => rfl
  | cons a l ih => simp [ih]

/-- Sorting keeps every value of the second list paired with its own value of the first list. -/
theorem sortList_zip (l1 l2 : List Int) (hl : l1.length = l2.length) :
    List.zip (sortAsc l1) (sortList l1 l2) = sortedPairs l1 l2 := by
  rw [← sortedPairs_fst l1 l2 hl]
  exact zip_map_fst_snd _

theorem collect_spec {α β} (f : α → Option β) (xs : List α) (ys : List β) :
    collect f xs = some ys ↔ List.Forall₂ (fun x y => f x = some y) xs ys := by
  induction xs generalizing ys with
  | nil => cases ys <;> simp [collect]
  | cons x xs ih =>
    cases hx : f x with
    | none =>
      simp only [collect, hx]
      constructor
      · intro h; cases h
      · intro h; cases h with
        | cons h _ => rw [hx] at h; cases h
    | some b =>
      cases hc : collect f xs with
      | none =>
        simp only [collect, hx, hc]
        constructor
        · intro h; cases h
        · intro h; cases h with
          | cons _ h' => rw [← ih] at h'; rw [hc] at h'; cases h'
      | some bs =>
        simp only [collect, hx, hc, Option.some.injEq]
        constructor
        · rintro rfl; exact List.Forall₂.cons hx ((ih bs).1 hc)
        · intro h; cases h with
          | cons h1 h' =>
            rw [hx] at h1; cases h1
            rw [← ih] at h'; rw [hc] at h'; cases h'; rfl

theorem both_eq_some {a b : Option Int} {p : Int × Int} :
    both a b = some p ↔ a = some p.1 ∧ b = some p.2 := by
  cases a <;> cases b <;> simp [both, Prod.ext_iff]

/-- What a two-column listing returns. -/
theorem pairListing_spec (fa fb : Ind → Option Int) (pop : List Ind) (srt : Bool)
    (v1 v2 : List Int) (h : pairListing fa fb pop srt = some (v1, v2)) :
    ∃ pairs : List (Int × Int),
      List.Forall₂ (fun i p => fa i = some p.1 ∧ fb i = some p.2) pop pairs ∧
      v1.length = pairs.length ∧ v2.length = pairs.length ∧
      (List.zip v1 v2).Perm pairs ∧
      (srt = false → List.zip v1 v2 = pairs) ∧
      (srt = true → (List.zip v1 v2).Pairwise (fun p q => lexLe p q = true) ∧
        v1.Pairwise (· ≤ ·)) := by
  unfold pairListing at h
  cases hc : collect (fun i => both (fa i) (fb i)) pop with
  | none => rw [hc] at h; cases h
  | some pairs =>
    rw [hc] at h
    have hf := (collect_spec _ _ _).1 hc
    refine ⟨pairs, hf.imp (fun _ _ h => both_eq_some.1 h), ?_⟩
    cases srt with
    | false =>
      simp only [Bool.false_eq_true, if_false, Option.some.injEq, Prod.mk.injEq] at h
      obtain ⟨rfl, rfl⟩ := h
      simp [zip_map_fst_snd]
    | true =>
      simp only [if_true, Option.some.injEq, Prod.mk.injEq] at h
      obtain ⟨rfl, rfl⟩ := h
      have hl : (pairs.map (·.1)).length = (pairs.map (·.2)).length := by simp
      have hz := sortList_zip _ _ hl
      have hp := sortedPairs_perm (pairs.map (·.1)) (pairs.map (·.2))
      rw [zip_map_fst_snd] at hp
      refine ⟨?_, ?_, ?_, by simp, ?_⟩
      · simpa using (sortAsc_perm (pairs.map (·.1))).length_eq
      · have := hp.length_eq
        simp only [sortList, sortedPairs, List.length_map] at this ⊢
        exact this
      · rw [hz]; exact hp
      · intro _
        rw [hz]
        exact ⟨sortedPairs_pairwise _ _, sortAsc_pairwise _⟩


/-- tags in order of first appearance (the keys of the `populations()` dict) -/
def tagStep (ks : List Int) (i : Ind) : List Int := if i.tag ∈ ks then ks else ks ++ [i.tag]
def tagOrder (l : List Ind) : List Int := l.foldl tagStep []

theorem tagOrder_snoc (l : List Ind) (i : Ind) : tagOrder (l ++ [i]) = tagStep (tagOrder l) i := by
  simp [tagOrder, List.foldl_append]

theorem tagOrder_foldl (l : List Ind) (ks : List Int) (hk : ks.Nodup) :
    (l.foldl tagStep ks).Nodup ∧ ∀ k, k ∈ l.foldl tagStep ks ↔ k ∈ ks ∨ ∃ i ∈ l, i.tag = k := by
  induction l generalizing ks with
  | nil => simp [hk]
  | cons a l ih =>
    simp only [List.foldl_cons]
    by_cases h : a.tag ∈ ks
    · have : tagStep ks a = ks := by simp [tagStep, h]
      rw [this]
      obtain ⟨h1, h2⟩ := ih ks hk
      refine ⟨h1, fun k => ?_⟩
      rw [h2 k]
      simp only [List.mem_cons, exists_eq_or_imp]
      constructor
      · rintro (h' | h'); exact Or.inl h'; exact Or.inr (Or.inr h')
      · rintro (h' | rfl | h'); exact Or.inl h'; exact Or.inl h; exact Or.inr h'
    · have : tagStep ks a = ks ++ [a.tag] := by simp [tagStep, h]
      rw [this]
      have hn : (ks ++ [a.tag]).Nodup := by
        rw [List.nodup_append]
        refine ⟨hk, by simp, ?_⟩
        intro x hx y hy
        simp at hy; subst hy
        intro e; subst e; exact h hx
      obtain ⟨h1, h2⟩ := ih _ hn
      refine ⟨h1, fun k => ?_⟩
      rw [h2 k]
      simp only [List.mem_append, List.mem_cons, List.not_mem_nil, or_false, exists_eq_or_imp]
      constructor
      · rintro ((h' | rfl) | h'); exact Or.inl h'; exact Or.inr (Or.inl rfl); exact Or.inr (Or.inr h')
      · rintro (h' | rfl | h'); exact Or.inl (Or.inl h'); exact Or.inl (Or.inr rfl); exact Or.inr h'

theorem nodup_tagOrder (l : List Ind) : (tagOrder l).Nodup := (tagOrder_foldl l [] List.nodup_nil).1

theorem mem_tagOrder (l : List Ind) (k : Int) : k ∈ tagOrder l ↔ ∃ i ∈ l, i.tag = k := by
  have := (tagOrder_foldl l [] List.nodup_nil).2 k
  simpa [tagOrder] using this

/-- the dict `populations()` should be: key ↦ the individuals with that tag, in recording order -/
def groupsSpec (l : List Ind) : List (Int × List Ind) :=
  (tagOrder l).map (fun k => (k, l.filter (fun i => i.tag == k)))

theorem popStep_groupsSpec (pre : List Ind) (i : Ind) :
    popStep (groupsSpec pre) i = groupsSpec (pre ++ [i]) := by
  unfold popStep groupsSpec
  rw [tagOrder_snoc]
  by_cases h : i.tag ∈ tagOrder pre
  · have hany : ((tagOrder pre).map (fun k => (k, pre.filter (fun i => i.tag == k)))).any
        (fun kg => kg.1 == i.tag) = true := by
      simp only [List.any_map, List.any_eq_true, Function.comp, beq_iff_eq]
      exact ⟨i.tag, h, rfl⟩
    simp only [hany, if_true, tagStep, h, List.map_map]
    apply List.map_congr_left
    intro k _
    simp only [Function.comp, List.filter_append, List.filter_cons, List.filter_nil]
    by_cases hk : k = i.tag
    · subst hk; simp
    · have : (i.tag == k) = false := by simpa using fun e => hk e.symm
      simp [hk, this]
  · have hany : ((tagOrder pre).map (fun k => (k, pre.filter (fun i => i.tag == k)))).any
        (fun kg => kg.1 == i.tag) = false := by
      rw [Bool.eq_false_iff]
      simp only [ne_eq, List.any_map, List.any_eq_true, Function.comp, beq_iff_eq, not_exists, not_and]
      intro k hk e; subst e; exact h hk
    simp only [hany, Bool.false_eq_true, if_false, tagStep, h, List.map_append, List.map_cons, List.map_nil]
    congr 1
    · apply List.map_congr_left
      intro k hk
      have : (i.tag == k) = false := by
        rw [beq_eq_false_iff_ne]
        intro e; rw [e] at h; exact h hk
      simp [List.filter_append, this]
    · have : pre.filter (fun j => j.tag == i.tag) = [] := by
        rw [List.filter_eq_nil_iff]
        intro j hj
        simp only [beq_iff_eq]
        intro e
        exact h ((mem_tagOrder pre i.tag).2 ⟨j, hj, e⟩)
      simp [List.filter_append, this]

theorem populations_foldl (pre l : List Ind) :
    l.foldl popStep (groupsSpec pre) = groupsSpec (pre ++ l) := by
  induction l generalizing pre with
  | nil => simp
  | cons i l ih =>
    simp only [List.foldl_cons, popStep_groupsSpec, ih]
    simp

/-- `Problem.populations()` is the dict tag ↦ individuals with that tag (recording order), keys in order
of first appearance. -/
theorem populations_eq (l : List Ind) : populations l = groupsSpec l := by
  have := populations_foldl [] l
  simpa [populations, groupsSpec, tagOrder] using this

theorem grouped_eq (l : List Ind) :
    grouped l = (tagOrder l).flatMap (fun k => l.filter (fun i => i.tag == k)) := by
  simp [grouped, populations_eq, groupsSpec, List.flatMap_map]

theorem flatMap_filter_perm (l : List Ind) (ks : List Int) (hk : ks.Nodup) :
    (ks.flatMap (fun k => l.filter (fun i => i.tag == k))).Perm (l.filter (fun i => decide (i.tag ∈ ks))) := by
  induction ks with
  | nil => simp
  | cons k ks ih =>
    have hk' := List.nodup_cons.mp hk
    simp only [List.flatMap_cons]
    have h1 := ih hk'.2
    have h2 : (l.filter (fun i => decide (i.tag ∈ k :: ks))).Perm
        ((l.filter (fun i => decide (i.tag ∈ k :: ks))).filter (fun i => i.tag == k) ++
         (l.filter (fun i => decide (i.tag ∈ k :: ks))).filter (fun i => !(i.tag == k))) :=
      (List.filter_append_perm _ _).symm
    have e1 : (l.filter (fun i => decide (i.tag ∈ k :: ks))).filter (fun i => i.tag == k) =
        l.filter (fun i => i.tag == k) := by
      rw [List.filter_filter]
      apply List.filter_congr
      intro x _
      by_cases hx : x.tag = k <;> simp [hx]
    have e2 : (l.filter (fun i => decide (i.tag ∈ k :: ks))).filter (fun i => !(i.tag == k)) =
        l.filter (fun i => decide (i.tag ∈ ks)) := by
      rw [List.filter_filter]
      apply List.filter_congr
      intro x _
      by_cases hx : x.tag = k
      · have : x.tag ∉ ks := hx ▸ hk'.1
        simp [hx, hk'.1]
      · simp [hx]
    rw [e1, e2] at h2
    exact (List.Perm.append_left _ h1).trans h2.symm

/-- every recorded individual occurs exactly once in the table order -/
theorem grouped_perm (l : List Ind) : (grouped l).Perm l := by
  rw [grouped_eq]
  refine (flatMap_filter_perm l _ (nodup_tagOrder l)).trans ?_
  have : l.filter (fun i => decide (i.tag ∈ tagOrder l)) = l := by
    rw [List.filter_eq_self]
    intro i hi
    simpa using (mem_tagOrder l i.tag).2 ⟨i, hi, rfl⟩
  rw [this]



theorem flatMap_filter_tag (l : List Ind) (ks : List Int) (hk : ks.Nodup) (t : Int) :
    (ks.flatMap (fun k => l.filter (fun i => i.tag == k))).filter (fun i => i.tag == t) =
      if t ∈ ks then l.filter (fun i => i.tag == t) else [] := by
  induction ks with
  | nil => simp
  | cons k ks ih =>
    have hk' := List.nodup_cons.mp hk
    simp only [List.flatMap_cons, List.filter_append, ih hk'.2, List.filter_filter]
    by_cases hkt : k = t
    · subst hkt
      have : (l.filter (fun a => a.tag == k && a.tag == k)) = l.filter (fun i => i.tag == k) := by
        apply List.filter_congr; intro x _; simp
      simp [hk'.1]
    · have : (l.filter (fun a => a.tag == t && a.tag == k)) = [] := by
        rw [List.filter_eq_nil_iff]
        intro x _
        simp only [Bool.and_eq_true, beq_iff_eq, not_and]
        intro e1 e2; exact hkt (e2.symm.trans e1)
      have hne : ¬ t = k := fun e => hkt e.symm
      simp [this, hne]

/-- within one tag the table order is the recording order -/
theorem grouped_filter_tag (l : List Ind) (t : Int) :
    (grouped l).filter (fun i => i.tag == t) = l.filter (fun i => i.tag == t) := by
  rw [grouped_eq, flatMap_filter_tag l _ (nodup_tagOrder l) t]
  by_cases h : t ∈ tagOrder l
  · simp [h]
  · simp only [h, if_false]
    symm
    rw [List.filter_eq_nil_iff]
    intro i hi
    simp only [beq_iff_eq]
    intro e
    exact h ((mem_tagOrder l t).2 ⟨i, hi, e⟩)

/-! ### generational distance -/

theorem sqDist_spec (c r : Pt) (hl : c.length = r.length) :
    ∃ s, sqDist c r = some s ∧ 0 ≤ s ∧ (s = 0 ↔ c = r) := by
  induction c generalizing r with
  | nil =>
    cases r with
    | nil => exact ⟨0, rfl, le_refl _, by simp⟩
    | cons b bs => simp at hl
  | cons a as ih =>
    cases r with
    | nil => simp at hl
    | cons b bs =>
      simp only [List.length_cons, Nat.add_right_cancel_iff] at hl
      obtain ⟨s, h1, h2, h3⟩ := ih bs hl
      refine ⟨(a - b) * (a - b) + s, by simp [sqDist, h1], ?_, ?_⟩
      · have := mul_self_nonneg (a - b); linarith
      · have hsq := mul_self_nonneg (a - b)
        constructor
        · intro h
          have h0 : (a - b) * (a - b) = 0 := by linarith
          have hs : s = 0 := by linarith
          have : a - b = 0 := by simpa using mul_self_eq_zero.mp h0
          rw [h3.1 hs, show a = b by linarith]
        · intro h
          simp only [List.cons.injEq] at h
          obtain ⟨rfl, rfl⟩ := h
          have := h3.2 rfl
          simp [this]

/-- `minSq c ref` is the smallest squared distance from `c` to a reference point, attained. -/
theorem minSq_spec {n : Nat} (c : Pt) (hc : c.length = n) (ref : List Pt) (hr : ∀ r ∈ ref, r.length = n)
    (hne : ref ≠ []) :
    ∃ m, minSq c ref = some m ∧ (∃ r ∈ ref, sqDist c r = some m) ∧
      ∀ r ∈ ref, ∀ s, sqDist c r = some s → m ≤ s := by
  induction ref with
  | nil => exact absurd rfl hne
  | cons r rs ih =>
    obtain ⟨d, hd, _, _⟩ := sqDist_spec c r (hc.trans (hr r (by simp)).symm)
    cases rs with
    | nil =>
      refine ⟨d, by simp [minSq, hd], ⟨r, by simp, hd⟩, ?_⟩
      intro r' hr' s hs
      simp at hr'; subst hr'; rw [hd] at hs; cases hs; exact le_refl _
    | cons r2 rs' =>
      obtain ⟨m, h1, ⟨w, hw, hw'⟩, h3⟩ := ih (fun x hx => hr x (by simp [hx])) (by simp)
      simp only [minSq, hd, h1]
      by_cases hlt : d < m
      · refine ⟨d, by simp [hlt], ⟨r, by simp, hd⟩, ?_⟩
        intro r' hr' s hs
        rcases List.mem_cons.mp hr' with rfl | hr'
        · rw [hd] at hs; cases hs; exact le_refl _
        · have := h3 r' hr' s hs; linarith
      · refine ⟨m, by simp [hlt], ⟨w, by simp [hw], hw'⟩, ?_⟩
        intro r' hr' s hs
        rcases List.mem_cons.mp hr' with rfl | hr'
        · rw [hd] at hs; cases hs; linarith
        · exact h3 r' hr' s hs



theorem minLength_le (rows : List (List Int)) : ∀ r ∈ rows, minLength rows ≤ r.length := by
  induction rows with
  | nil => simp
  | cons a rows ih =>
    cases rows with
    | nil => simp [minLength]
    | cons b rows' =>
      intro r hr
      simp only [minLength]
      rcases List.mem_cons.mp hr with rfl | hr
      · exact Nat.min_le_left _ _
      · exact le_trans (Nat.min_le_right _ _) (ih r hr)

theorem collect_some {α β} (f : α → Option β) (xs : List α) (h : ∀ x ∈ xs, ∃ y, f x = some y) :
    ∃ ys, collect f xs = some ys := by
  induction xs with
  | nil => exact ⟨[], rfl⟩
  | cons x xs ih =>
    obtain ⟨y, hy⟩ := h x (by simp)
    obtain ⟨ys, hys⟩ := ih (fun z hz => h z (by simp [hz]))
    exact ⟨y :: ys, by simp [collect, hy, hys]⟩

/-- column `j` of a list of rows: the `j`-th entry of every row, in row order -/
def IsColumn {α} (get : α → Nat → Option Int) (rows : List α) (j : Nat) (col : List Int) : Prop :=
  List.Forall₂ (fun r x => get r j = some x) rows col

theorem collect_columns {α} (get : α → Nat → Option Int) (rows : List α) (js : List Nat)
    (t : List (List Int)) :
    collect (fun j => collect (fun r => get r j) rows) js = some t ↔
      List.Forall₂ (fun j col => IsColumn get rows j col) js t := by
  rw [collect_spec]
  constructor
  · intro h; exact h.imp (fun _ _ h => (collect_spec _ _ _).1 h)
  · intro h; exact h.imp (fun _ _ h => (collect_spec _ _ _).2 h)

/-- `zip(*rows)` never raises and lists, for every `j` below the shortest row length, column `j`. -/
theorem zipStar_spec (rows : List (List Int)) :
    ∃ cols, zipStar rows = some cols ∧
      List.Forall₂ (fun j col => IsColumn (fun r j => r[j]?) rows j col)
        (List.range (minLength rows)) cols := by
  have : ∃ cols, zipStar rows = some cols := by
    apply collect_some
    intro j hj
    apply collect_some
    intro r hr
    have := minLength_le rows r hr
    have hj' : j < minLength rows := by simpa using hj
    exact ⟨r[j]'(by omega), by simp [show j < r.length by omega]⟩
  obtain ⟨cols, h⟩ := this
  exact ⟨cols, h, (collect_columns (fun (r : List Int) j => r[j]?) rows _ cols).1 h⟩

theorem minLength_uniform (rows : List (List Int)) (m : Nat) (hne : rows ≠ [])
    (h : ∀ r ∈ rows, r.length = m) : minLength rows = m := by
  induction rows with
  | nil => exact absurd rfl hne
  | cons a rows ih =>
    cases rows with
    | nil => simpa [minLength] using h a (by simp)
    | cons b rows' =>
      have h1 := h a (by simp)
      have h2 := ih (by simp) (fun r hr => h r (by simp [hr]))
      show min a.length (minLength (b :: rows')) = m
      rw [h1, h2]; simp


theorem zip_swap (a b : List Int) : List.zip b a = (List.zip a b).map Prod.swap := by
  induction a generalizing b with
  | nil => simp
  | cons x a ih =>
    cases b with
    | nil => simp
    | cons y b => simp [ih]

theorem forall₂_of_mem {α β} {R S : α → β → Prop} {l1 : List α} {l2 : List β}
    (h : List.Forall₂ R l1 l2) (himp : ∀ a ∈ l1, ∀ b, R a b → S a b) : List.Forall₂ S l1 l2 := by
  induction h with
  | nil => exact List.Forall₂.nil
  | cons hab _ ih =>
    exact List.Forall₂.cons (himp _ (by simp) _ hab) (ih (fun a ha b => himp a (by simp [ha]) b))

end Artap.Results
