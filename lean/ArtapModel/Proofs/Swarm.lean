import ArtapModel.Model.Swarm
import ArtapModel.Props.C04
import Mathlib.Tactic.Linarith
/-!
# Lemmas about the swarm model (helper file; property theorems are in `Props/C18.lean`)
-/
namespace Artap.Swarm
open Artap Artap.Archive

variable {α : Type} {V : α → Prop} {cmp : α → α → Option Nat} {same : α → α → Bool}
  {Dom : α → α → Prop}

/-- A batch of additions keeps an antichain an antichain and never raises (no knowledge of
the history needed, so this also holds for leaders that have been truncated before). -/
theorem addAll_antichain (S : CmpSpec V cmp same Dom) {xs l : List α}
    (hxs : ∀ x ∈ xs, V x) (hA : Antichain V same Dom l) :
    ∃ l' bs, addAll cmp same l xs = some (l', bs) ∧ bs.length = xs.length ∧
      Antichain V same Dom l' := by
  induction xs generalizing l with
  | nil => exact ⟨l, [], rfl, rfl, hA⟩
  | cons x xs ih =>
    have hx : V x := hxs x (by simp)
    obtain ⟨l1, b, h1⟩ := add_total S hx hA
    have hA1 := add_antichain S hx hA h1
    obtain ⟨l', bs, h2, hlen, hA2⟩ := ih (fun y hy => hxs y (by simp [hy])) hA1
    exact ⟨l', b :: bs, by simp [addAll, h1, h2], by simp [hlen], hA2⟩

theorem generation_spec (S : CmpSpec V cmp same Dom) (feat : α → Int) (n : Nat)
    {leaders offered : List α} (ho : ∀ x ∈ offered, V x) (hA : Antichain V same Dom leaders) :
    ∃ bs c l, generation cmp same feat n leaders offered = some (bs, c, l) ∧
      l.length ≤ n ∧ Antichain V same Dom l := by
  obtain ⟨c, bs, h, _, hA'⟩ := addAll_antichain S ho hA
  refine ⟨bs, c, truncate feat c n true, by simp [generation, h], ?_, ?_⟩
  · unfold truncate; exact List.length_take_le _ _
  · exact truncate_antichain feat n true hA'

theorem generations_spec (S : CmpSpec V cmp same Dom) (feat : α → Int) (n : Nat)
    {sws : List (List α)} {leaders : List α} (hV : ∀ sw ∈ sws, ∀ x ∈ sw, V x)
    (hA : Antichain V same Dom leaders) :
    ∃ t, generations cmp same feat n leaders sws = some t ∧ t.length = sws.length ∧
      ∀ l ∈ t, l.length ≤ n ∧ Antichain V same Dom l := by
  induction sws generalizing leaders with
  | nil => exact ⟨[], rfl, rfl, by simp⟩
  | cons sw rest ih =>
    obtain ⟨bs, c, l, hg, hlen, hAl⟩ := generation_spec S feat n (hV sw (by simp)) hA
    obtain ⟨t, ht, htl, hall⟩ := ih (fun s hs => hV s (by simp [hs])) hAl
    refine ⟨l :: t, by simp [generations, hg, ht], by simp [htl], ?_⟩
    intro l' hl'
    rcases List.mem_cons.1 hl' with h | h
    · subst h; exact ⟨hlen, hAl⟩
    · exact hall l' h

end Artap.Swarm
