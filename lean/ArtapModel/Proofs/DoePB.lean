import ArtapModel.Proofs.Doe
import Mathlib.Tactic.Ring
/-!
# Plackett–Burman: Hadamard invariant, Sylvester doubling, column selection (helper file for `Props/C13.lean`)
-/
namespace Artap.Doe

/-! ## sums over lists of integers -/

theorem sum_map_add {α} (l : List α) (f g : α → Int) :
    (l.map fun a => f a + g a).sum = (l.map f).sum + (l.map g).sum := by
  induction l with
  | nil => simp
  | cons a l ih => simp only [List.map_cons, List.sum_cons, ih]; ring

theorem sum_map_mul_left {α} (l : List α) (c : Int) (f : α → Int) :
    (l.map fun a => c * f a).sum = c * (l.map f).sum := by
  induction l with
  | nil => simp
  | cons a l ih => simp only [List.map_cons, List.sum_cons, ih]; ring

theorem sum_map_zero {α} (l : List α) : (l.map fun _ => (0 : Int)).sum = 0 := by
  induction l with
  | nil => simp
  | cons a l ih => simp only [List.map_cons, List.sum_cons, ih]; ring

theorem sum_map_congr {α} {l : List α} {f g : α → Int} (h : ∀ a ∈ l, f a = g a) :
    (l.map f).sum = (l.map g).sum := by
  rw [List.map_congr_left h]

/-! ## entries, column sums, column dot products -/

/-- entry `i` of a row (`0` outside; the invariants below fix the row lengths) -/
abbrev ent (r : List Int) (i : Nat) : Int := r.getD i 0

/-- dot product of columns `i` and `j` -/
def colDot (H : List (List Int)) (i j : Nat) : Int := (H.map fun r => ent r i * ent r j).sum

/-- sum of column `j` -/
def colSum (H : List (List Int)) (j : Nat) : Int := (H.map fun r => ent r j).sum

theorem ent_append (a b : List Int) (i : Nat) :
    ent (a ++ b) i = if i < a.length then ent a i else ent b (i - a.length) := by
  simp only [ent, List.getD_eq_getElem?_getD, List.getElem?_append]
  split <;> rfl

theorem ent_neg (a : List Int) (i : Nat) : ent (a.map (- ·)) i = - ent a i := by
  simp only [ent, List.getD_eq_getElem?_getD, List.getElem?_map]
  cases a[i]? <;> simp

theorem ent_mem {r : List Int} {i : Nat} (h : i < r.length) : ent r i ∈ r := by
  simp only [ent, List.getD_eq_getElem?_getD, List.getElem?_eq_getElem h, Option.getD_some]
  exact List.getElem_mem h

theorem ent_sel (r : List Int) (n j : Nat) (hj : j < n) : ent ((r.drop 1).take n) j = ent r (j + 1) := by
  simp only [ent, List.getD_eq_getElem?_getD, List.getElem?_take, List.getElem?_drop, hj, if_true,
    Nat.add_comm 1 j]

/-- Hadamard invariant of the square seed / doubled matrices: `m` rows of `m` entries `±1`, first column all ones,
distinct columns orthogonal. -/
structure Had (m : Nat) (H : List (List Int)) : Prop where
  rows : H.length = m
  width : ∀ r ∈ H, r.length = m
  pm : ∀ r ∈ H, ∀ x ∈ r, x = 1 ∨ x = -1
  first : ∀ r ∈ H, ent r 0 = 1
  orth : ∀ i j, i < m → j < m → i ≠ j → colDot H i j = 0

/-- executable form of `Had` (used with `decide +kernel` on the two finite seed tables only) -/
def hadB (m : Nat) (H : List (List Int)) : Bool :=
  H.length == m && H.all (fun r => r.length == m) && H.all (fun r => r.all fun x => x == 1 || x == -1) &&
  H.all (fun r => ent r 0 == 1) &&
  (List.range m).all fun i => (List.range m).all fun j => i == j || colDot H i j == 0

theorem had_of_hadB {m : Nat} {H : List (List Int)} (h : hadB m H = true) : Had m H := by
  simp only [hadB, Bool.and_eq_true, List.all_eq_true, beq_iff_eq, Bool.or_eq_true, List.mem_range] at h
  obtain ⟨⟨⟨⟨h1, h2⟩, h3⟩, h4⟩, h5⟩ := h
  refine ⟨h1, h2, h3, h4, ?_⟩
  intro i j hi hj hij
  rcases h5 i hi j hj with e | e
  · exact absurd e hij
  · exact e

theorem had_one : Had 1 [[1]] := had_of_hadB (by decide)

/-! ## Sylvester doubling -/

theorem mem_double {H : List (List Int)} {r : List Int} :
    r ∈ double H ↔ ∃ a ∈ H, r = a ++ a ∨ r = a ++ a.map (- ·) := by
  simp only [double, List.mem_append, List.mem_map]
  constructor
  · rintro (⟨a, ha, rfl⟩ | ⟨a, ha, rfl⟩)
    · exact ⟨a, ha, .inl rfl⟩
    · exact ⟨a, ha, .inr rfl⟩
  · rintro ⟨a, ha, rfl | rfl⟩
    · exact .inl ⟨a, ha, rfl⟩
    · exact .inr ⟨a, ha, rfl⟩

theorem colDot_double {m : Nat} {H : List (List Int)} (hw : ∀ r ∈ H, r.length = m) (i j : Nat) :
    colDot (double H) i j =
      if (i < m ↔ j < m) then 2 * colDot H (if i < m then i else i - m) (if j < m then j else j - m) else 0 := by
  simp only [colDot, double, List.map_append, List.map_map, List.sum_append, Function.comp_def]
  rw [← sum_map_add, ← sum_map_mul_left]
  by_cases hi : i < m <;> by_cases hj : j < m
  · simp only [hi, hj, if_true]
    apply sum_map_congr
    intro a ha
    simp only [ent_append, hw a ha, hi, hj, if_true]
    ring
  · simp only [hi, hj, if_false, iff_false, not_true_eq_false]
    rw [← sum_map_zero H]
    apply sum_map_congr
    intro a ha
    simp only [ent_append, hw a ha, hi, hj, if_true, if_false, ent_neg]
    ring
  · simp only [hi, hj, if_false, false_iff, not_true_eq_false]
    rw [← sum_map_zero H]
    apply sum_map_congr
    intro a ha
    simp only [ent_append, hw a ha, hi, hj, if_true, if_false, ent_neg]
    ring
  · simp only [hi, hj, if_false, if_true]
    apply sum_map_congr
    intro a ha
    simp only [ent_append, hw a ha, hi, hj, if_false, ent_neg]
    ring

/-- Doubling preserves `±1` entries, the all-ones first column and pairwise column orthogonality. -/
theorem had_double {m : Nat} {H : List (List Int)} (hm : 0 < m) (h : Had m H) : Had (2 * m) (double H) := by
  refine ⟨?_, ?_, ?_, ?_, ?_⟩
  · simp [double, h.rows]; omega
  · intro r hr
    obtain ⟨a, ha, rfl | rfl⟩ := mem_double.mp hr <;> simp [h.width a ha] <;> omega
  · intro r hr x hx
    obtain ⟨a, ha, rfl | rfl⟩ := mem_double.mp hr
    · rcases List.mem_append.mp hx with hx | hx <;> exact h.pm a ha x hx
    · rcases List.mem_append.mp hx with hx | hx
      · exact h.pm a ha x hx
      · obtain ⟨y, hy, rfl⟩ := List.mem_map.mp hx
        rcases h.pm a ha y hy with rfl | rfl <;> simp
  · intro r hr
    obtain ⟨a, ha, rfl | rfl⟩ := mem_double.mp hr <;>
      simp only [ent_append, h.width a ha, hm, if_true] <;> exact h.first a ha
  · intro i j hi hj hij
    rw [colDot_double h.width]
    split
    · next hiff =>
      have : colDot H (if i < m then i else i - m) (if j < m then j else j - m) = 0 := by
        apply h.orth
        · split <;> omega
        · split <;> omega
        · by_cases hi' : i < m
          · have hj' : j < m := hiff.mp hi'
            simp only [hi', hj', if_true]; exact hij
          · have hj' : ¬ j < m := fun c => hi' (hiff.mpr c)
            simp only [hi', hj', if_false]; omega
      rw [this]; rfl
    · rfl

theorem doubleN_had : ∀ (e : Nat) {m : Nat} {H : List (List Int)}, 0 < m → Had m H → Had (2 ^ e * m) (doubleN e H)
  | 0, m, H, _, h => by simpa [doubleN] using h
  | e + 1, m, H, hm, h => by
    have := doubleN_had e (by omega : 0 < 2 * m) (had_double hm h)
    simpa [doubleN, Nat.pow_succ, Nat.mul_assoc] using this

/-! ## seed selection -/

theorem log2Go_some : ∀ (fuel x : Nat) {a : Nat}, log2Go fuel x = some a → x = 2 ^ a
  | 0, _, _, h => by simp [log2Go] at h
  | fuel + 1, x, a, h => by
    simp only [log2Go] at h
    split at h
    · next h1 => simp at h; subst h; simpa using h1
    · split at h
      · next h2 =>
        obtain ⟨b, hb, rfl⟩ := Option.map_eq_some_iff.mp h
        have := log2Go_some fuel (x / 2) hb
        rw [Nat.pow_succ]
        omega
      · exact absurd h (by simp)

theorem log2?_some {x a : Nat} (h : log2? x = some a) : x = 2 ^ a := log2Go_some _ _ h

/-- the 12-run Toeplitz seed (finite table: kernel evaluation of the checker) -/
theorem had_h12 : Had 12 h12 := had_of_hadB (by decide +kernel)

/-- the 20-run Hankel seed (finite table: kernel evaluation of the checker) -/
theorem had_h20 : Had 20 h20 := had_of_hadB (by decide +kernel)

/-- the seed chosen by `pbSeed` is a Hadamard matrix of size `m0` with `N = 2^e * m0` -/
theorem pbSeed_had {N e : Nat} {H0 : List (List Int)}
    (h : pbSeed N = some (H0, e)) : ∃ m0, 0 < m0 ∧ Had m0 H0 ∧ N = 2 ^ e * m0 := by
  unfold pbSeed at h
  split at h
  · next a ha =>
    simp only [Option.some.injEq, Prod.mk.injEq] at h
    obtain ⟨rfl, rfl⟩ := h
    exact ⟨1, by omega, had_one, by simpa using log2?_some ha⟩
  · split at h
    · next a ha =>
      simp only [Option.some.injEq, Prod.mk.injEq] at h
      obtain ⟨rfl, rfl⟩ := h
      split at ha
      · next h12m =>
        have := log2?_some ha
        exact ⟨12, by omega, had_h12, by omega⟩
      · exact absurd ha (by simp)
    · split at h
      · next a ha =>
        simp only [Option.some.injEq, Prod.mk.injEq] at h
        obtain ⟨rfl, rfl⟩ := h
        split at ha
        · next h20m =>
          have := log2?_some ha
          exact ⟨20, by omega, had_h20, by omega⟩
        · exact absurd ha (by simp)
      · exact absurd h (by simp)

/-! ## column selection `H[:, 1:n+1]` and `flipud` -/

theorem colDot_sel (H : List (List Int)) (n i j : Nat) (hi : i < n) (hj : j < n) :
    colDot ((H.map fun r => (r.drop 1).take n).reverse) i j = colDot H (i + 1) (j + 1) := by
  simp only [colDot, ← List.map_reverse, List.map_map, Function.comp_def]
  rw [List.map_reverse, List.sum_reverse]
  apply sum_map_congr
  intro a _
  rw [ent_sel _ _ _ hi, ent_sel _ _ _ hj]

theorem colSum_sel (H : List (List Int)) (n j : Nat) (hj : j < n) :
    colSum ((H.map fun r => (r.drop 1).take n).reverse) j = colSum H (j + 1) := by
  simp only [colSum, ← List.map_reverse, List.map_map, Function.comp_def]
  rw [List.map_reverse, List.sum_reverse]
  apply sum_map_congr
  intro a _
  rw [ent_sel _ _ _ hj]

/-- a column orthogonal to the all-ones column is balanced -/
theorem Had.colSum_zero {m : Nat} {H : List (List Int)} (h : Had m H) {j : Nat} (hj : j < m) (hj0 : j ≠ 0) :
    colSum H j = 0 := by
  have := h.orth 0 j (by omega) hj (by omega)
  rw [← this]
  simp only [colSum, colDot]
  apply sum_map_congr
  intro a ha
  rw [h.first a ha]; ring

/-! ## `construct_df` on a `±1` row with lists `[lb, ub]` -/

/-- the level a coded entry selects: `-1 ↦ lb`, otherwise `ub` -/
def selBound {α} (x : Int) (b : α × α) : α := if x = -1 then b.1 else b.2

theorem pickRow_pm {α} : ∀ (bounds : List (α × α)) (r : List Int), r.length = bounds.length →
    (∀ x ∈ r, x = 1 ∨ x = -1) →
    pickRow (bounds.map fun (lb, ub) => [lb, ub]) (r.map indexChange) = some (List.zipWith selBound r bounds)
  | [], [], _, _ => rfl
  | [], _ :: _, h, _ => by simp at h
  | _ :: _, [], h, _ => by simp at h
  | b :: bs, x :: xs, h, hp => by
    have ih := pickRow_pm bs xs (by simpa using h) (fun y hy => hp y (by simp [hy]))
    simp only [List.map_cons, pickRow, ih, List.zipWith_cons_cons]
    rcases hp x (by simp) with rfl | rfl <;> simp [indexChange, pyGet, selBound]

end Artap.Doe
