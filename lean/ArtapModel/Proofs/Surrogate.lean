import ArtapModel.Model.Surrogate
import Mathlib.Tactic.Ring
/-! Helper lemmas for C19 (surrogate wrapper state machine). -/
namespace Artap.Surrogate

/-- One request, predicting branch. -/
theorem step_predict {f : List Int → List Int} {hh : Bool} {ts : Int} {s : St} {r : Req} {p : List Int}
    (h : prediction hh s r = some p) :
    step f hh ts s r = some ({ s with predCount := s.predCount + 1 }, p) := by
  simp [step, h]

/-- One request, true-evaluation branch. -/
theorem step_true {f : List Int → List Int} {hh : Bool} {ts : Int} {s : St} {r : Req}
    (h : prediction hh s r = none) : step f hh ts s r = trueEval f ts s r := by
  simp [step, h]

theorem prediction_eq_some {hh : Bool} {s : St} {r : Req} {p : List Int} :
    prediction hh s r = some p ↔ s.trained = true ∧ hh = true ∧ r.hook = some p := by
  unfold prediction
  cases s.trained <;> cases hh <;> simp

/-- What a true evaluation does to the state, whatever the retraining decision. -/
theorem trueEval_spec {f : List Int → List Int} {ts : Int} {s s' : St} {r : Req} {v : List Int}
    (h : trueEval f ts s r = some (s', v)) :
    v = f r.x ∧ s'.evalCount = s.evalCount + 1 ∧ s'.predCount = s.predCount ∧
    s'.xs = s.xs ++ [r.x] ∧ s'.ys = s.ys ++ [f r.x] ∧ s'.fcalls = s.fcalls ++ [r.x] := by
  unfold trueEval at h
  dsimp only at h
  split at h
  · cases h; simp
  · split at h
    · cases h
    · split at h <;> (cases h; simp)

/-- The retraining decision of a true evaluation for a positive step. -/
theorem trueEval_train {f : List Int → List Int} {st : Nat} (hst : 0 < st) {s s' : St} {r : Req} {v : List Int}
    (h : trueEval f (st : Int) s r = some (s', v)) :
    (st ∣ s.evalCount + 1 → s'.trained = true ∧ s'.trainCalls = s.trainCalls + 1 ∧
        s'.trainSizes = s.trainSizes ++ [s.xs.length + 1]) ∧
    (¬ st ∣ s.evalCount + 1 → s'.trained = s.trained ∧ s'.trainCalls = s.trainCalls ∧
        s'.trainSizes = s.trainSizes) := by
  unfold trueEval at h
  dsimp only at h
  have h1 : ¬ ((st : Int) = -1) := by omega
  have h0 : ¬ ((st : Int) = 0) := by omega
  simp only [h1, h0, if_false] at h
  have hc : (((s.evalCount + 1 : Nat) : Int) % (st : Int) = 0) ↔ st ∣ s.evalCount + 1 := by
    rw [Nat.dvd_iff_mod_eq_zero]; norm_cast
  split at h
  · rename_i hm
    have hd := hc.mp hm
    cases h
    simp [hd]
  · rename_i hm
    have hd : ¬ st ∣ s.evalCount + 1 := fun hd => hm (hc.mpr hd)
    cases h
    simp [hd]

/-- `train_step = -1`: a true evaluation never retrains. -/
theorem trueEval_never {f : List Int → List Int} {s s' : St} {r : Req} {v : List Int}
    (h : trueEval f (-1) s r = some (s', v)) :
    s'.trained = s.trained ∧ s'.trainCalls = s.trainCalls ∧ s'.trainSizes = s.trainSizes := by
  unfold trueEval at h
  simp at h
  obtain ⟨rfl, _⟩ := h
  simp

theorem run_cons {f : List Int → List Int} {hh : Bool} {ts : Int} {s s' : St} {r : Req} {rs : List Req}
    {vs : List (List Int)} (h : run f hh ts s (r :: rs) = some (s', vs)) :
    ∃ s1 v vs', step f hh ts s r = some (s1, v) ∧ run f hh ts s1 rs = some (s', vs') ∧ vs = v :: vs' := by
  simp only [run] at h
  split at h
  · rename_i s1 v hs
    split at h
    · rename_i s2 vs' hr
      cases h
      exact ⟨s1, v, vs', hs, hr, rfl⟩
    · cases h
  · cases h

end Artap.Surrogate
