import ArtapModel.Proofs.Doe
/-!
# Generalized subset designs: orthogonal-array layer, partitions, designs (helper file for `Props/C13.lean`)
-/
namespace Artap.Doe

/-! ## arithmetic modulo the reduction -/

theorem mod_two {x r : Nat} (h : x < 2 * r) : x % r = if x < r then x else x - r := by
  split
  · next h1 => exact Nat.mod_eq_of_lt h1
  · next h1 =>
    rw [Nat.mod_eq_sub_mod (by omega)]
    exact Nat.mod_eq_of_lt (by omega)

theorem add_mod_cancel {i j c r : Nat} (hi : i < r) (hj : j < r) (hc : c < r)
    (h : (i + c) % r = (j + c) % r) : i = j := by
  rw [mod_two (by omega : i + c < 2 * r), mod_two (by omega : j + c < 2 * r)] at h
  split at h <;> split at h <;> omega

/-! ## the orthogonal arrays -/

/-- membership of a partition row in the `i`-th orthogonal array, following the recursion of the code:
`[v]` belongs to array `v`; `c :: rest` belongs to array `i` iff `rest` belongs to array `latin[i][c] = (i+c) mod r`. -/
def InOA (r : Nat) : Nat → List Nat → Prop
  | _, [] => False
  | i, [v] => v = i
  | i, c :: d :: rest => c < r ∧ InOA r ((i + c) % r) (d :: rest)

theorem inOA_lt {r : Nat} : ∀ {row : List Nat} {i : Nat}, i < r → InOA r i row → ∀ x ∈ row, x < r
  | [], _, _, h => by simp [InOA] at h
  | [v], i, hi, h => by simp only [InOA] at h; subst h; simpa using hi
  | c :: d :: rest, i, hi, h => by
    simp only [InOA] at h
    intro x hx
    rcases List.mem_cons.mp hx with rfl | hx
    · exact h.1
    · exact inOA_lt (Nat.mod_lt _ (by omega)) h.2 x hx

theorem inOA_exists {r : Nat} : ∀ {row : List Nat}, row ≠ [] → (∀ x ∈ row, x < r) → ∃ i, i < r ∧ InOA r i row
  | [], h, _ => absurd rfl h
  | [v], _, h => ⟨v, h v (by simp), rfl⟩
  | c :: d :: rest, _, h => by
    obtain ⟨i', hi', hin⟩ := inOA_exists (row := d :: rest) (by simp) (fun x hx => h x (by simp [hx]))
    have hc : c < r := h c (by simp)
    refine ⟨(i' + (r - c)) % r, Nat.mod_lt _ (by omega), hc, ?_⟩
    have : ((i' + (r - c)) % r + c) % r = i' := by
      rw [mod_two (by omega : i' + (r - c) < 2 * r)]
      split
      · rw [mod_two (by omega)]; split <;> omega
      · rw [mod_two (by omega)]; split <;> omega
    rw [this]
    exact hin

theorem inOA_unique {r : Nat} : ∀ {row : List Nat} {i j : Nat}, i < r → j < r → InOA r i row → InOA r j row → i = j
  | [], _, _, _, _, h, _ => by simp [InOA] at h
  | [v], i, j, _, _, h1, h2 => by simp only [InOA] at h1 h2; omega
  | c :: d :: rest, i, j, hi, hj, h1, h2 => by
    simp only [InOA] at h1 h2
    have := inOA_unique (Nat.mod_lt _ (by omega)) (Nat.mod_lt _ (by omega)) h1.2 h2.2
    exact add_mod_cancel hi hj h1.1 this

/-- closed form of the class predicate: all entries but the last are below `r` and the last one is
`i + Σ (the others)  (mod r)` – i.e. `last − Σ others ≡ i (mod r)` -/
theorem inOA_closed {r : Nat} : ∀ {row : List Nat} {i : Nat}, i < r →
    (InOA r i row ↔ ∃ init last, row = init ++ [last] ∧ (∀ x ∈ init, x < r) ∧ last = (i + init.sum) % r)
  | [], _, _ => by simp [InOA]
  | [v], i, hi => by
    simp only [InOA]
    constructor
    · rintro rfl
      exact ⟨[], v, rfl, by simp, by simp [Nat.mod_eq_of_lt hi]⟩
    · rintro ⟨init, last, h, _, hl⟩
      cases init with
      | nil =>
        simp only [List.nil_append, List.cons.injEq, and_true] at h
        subst h
        simpa [Nat.mod_eq_of_lt hi] using hl
      | cons a t =>
        have := congrArg List.length h
        simp at this
  | c :: d :: rest, i, hi => by
    simp only [InOA]
    rw [inOA_closed (row := d :: rest) (Nat.mod_lt _ (by omega))]
    constructor
    · rintro ⟨hc, init, last, h, hlt, hl⟩
      refine ⟨c :: init, last, by rw [h]; rfl, ?_, ?_⟩
      · intro x hx
        rcases List.mem_cons.mp hx with rfl | hx
        · exact hc
        · exact hlt x hx
      · rw [hl, Nat.mod_add_mod, List.sum_cons, Nat.add_assoc]
    · rintro ⟨init, last, h, hlt, hl⟩
      cases init with
      | nil =>
        have := congrArg List.length h
        simp at this
      | cons a t =>
        simp only [List.cons_append, List.cons.injEq] at h
        obtain ⟨rfl, h⟩ := h
        refine ⟨hlt c (by simp), t, last, h, fun x hx => hlt x (by simp [hx]), ?_⟩
        rw [hl, Nat.mod_add_mod, List.sum_cons, Nat.add_assoc]

theorem zip_map_self {α β} (l : List α) (g : α → β) : List.zip l (l.map g) = l.map fun c => (c, g c) := by
  induction l with
  | nil => rfl
  | cons a l ih => simp [ih]

theorem getD_map_range {β} (r i : Nat) (f : Nat → β) (d : β) (hi : i < r) :
    ((List.range r).map f).getD i d = f i := by
  simp [List.getD_eq_getElem?_getD, List.getElem?_map, List.getElem?_range hi]

/-- array `i` after one pass of the `while` loop -/
theorem orthStep_getD {r : Nat} (A : List (List (List Nat))) {i : Nat} (hi : i < r) :
    (orthStep r A).getD i [] = (List.range r).flatMap fun c => (A.getD ((c + i) % r) []).map (c :: ·) := by
  unfold orthStep latin
  rw [List.map_map, getD_map_range _ _ _ _ hi]
  simp only [Function.comp, List.map_map, zip_map_self, List.flatMap_map]

/-- invariant of the `while` loop: `r` arrays with `c` columns; array `i` lists the rows of `InOA r i` once each -/
structure OAInv (r c : Nat) (A : List (List (List Nat))) : Prop where
  len : A.length = r
  nodup : ∀ i, i < r → (A.getD i []).Nodup
  mem : ∀ i, i < r → ∀ row, row ∈ A.getD i [] ↔ row.length = c ∧ InOA r i row

theorem oaInv_init (r : Nat) : OAInv r 1 ((List.range r).map fun v => [[v]]) := by
  refine ⟨by simp, ?_, ?_⟩
  · intro i hi
    rw [getD_map_range _ _ _ _ hi]; simp
  · intro i hi row
    rw [getD_map_range _ _ _ _ hi]
    simp only [List.mem_singleton]
    constructor
    · rintro rfl; exact ⟨rfl, rfl⟩
    · rintro ⟨hl, h⟩
      match row, hl, h with
      | [v], _, h => simp only [InOA] at h; rw [h]

theorem oaInv_step {r c : Nat} {A : List (List (List Nat))} (hc : 1 ≤ c) (h : OAInv r c A) :
    OAInv r (c + 1) (orthStep r A) := by
  refine ⟨by simp [orthStep, latin], ?_, ?_⟩
  · intro i hi
    rw [orthStep_getD A hi, List.nodup_flatMap]
    constructor
    · intro a _
      apply List.Nodup.map _ (h.nodup _ (Nat.mod_lt _ (by omega)))
      intro x y hxy
      simpa using hxy
    · apply List.Nodup.pairwise_of_forall_ne List.nodup_range
      intro a _ b _ hab
      simp only [Function.onFun, List.Disjoint, List.mem_map]
      rintro x ⟨y, _, rfl⟩ ⟨z, _, hz⟩
      simp only [List.cons.injEq] at hz
      exact hab hz.1.symm
  · intro i hi row
    rw [orthStep_getD A hi]
    simp only [List.mem_flatMap, List.mem_range, List.mem_map]
    constructor
    · rintro ⟨a, ha, rest, hrest, rfl⟩
      obtain ⟨hl, hin⟩ := (h.mem _ (Nat.mod_lt _ (by omega)) rest).mp hrest
      refine ⟨by simp [hl], ?_⟩
      match rest, hl, hin with
      | d :: rest', _, hin =>
        simp only [InOA]
        rw [Nat.add_comm i a]
        exact ⟨ha, hin⟩
    · rintro ⟨hl, hin⟩
      match row, hl, hin with
      | [v], hl, _ => simp at hl; omega
      | a :: d :: rest', hl, hin =>
        simp only [InOA] at hin
        refine ⟨a, hin.1, d :: rest', ?_, rfl⟩
        rw [h.mem _ (Nat.mod_lt _ (by omega))]
        refine ⟨by simpa using hl, ?_⟩
        rw [Nat.add_comm a i]
        exact hin.2

theorem oaInv_iter {r : Nat} : ∀ (m : Nat) {c : Nat} {A : List (List (List Nat))}, 1 ≤ c → OAInv r c A →
    OAInv r (c + m) (orthIter r m A)
  | 0, _, _, _, h => h
  | m + 1, c, A, hc, h => by
    have := oaInv_iter m (by omega : 1 ≤ c + 1) (oaInv_step hc h)
    simpa [orthIter, Nat.add_assoc, Nat.add_comm 1 m] using this

/-- the orthogonal arrays of `k ≥ 1` columns -/
theorem oaInv_orthArrays (r : Nat) {k : Nat} (hk : 1 ≤ k) : OAInv r k (orthArrays r k) := by
  have := oaInv_iter (r := r) (k - 1) (le_refl 1) (oaInv_init r)
  rw [show 1 + (k - 1) = k by omega] at this
  exact this

/-! ## partitions of the levels of one factor -/

theorem mem_part {r L p x : Nat} : x ∈ part r L p ↔ (∃ m, m + 2 ≤ L ∧ x = p + m * r) ∧ x ≤ L := by
  simp only [part, List.mem_filter, List.mem_map, List.mem_range'_1, decide_eq_true_eq]
  constructor
  · rintro ⟨⟨li, hli, rfl⟩, hx⟩
    exact ⟨⟨li - 1, by omega, rfl⟩, hx⟩
  · rintro ⟨⟨m, hm, rfl⟩, hx⟩
    exact ⟨⟨m + 1, by omega, by simp⟩, hx⟩

theorem nodup_part {r L p : Nat} (hr : 0 < r) : (part r L p).Nodup := by
  unfold part
  apply List.Nodup.filter
  apply List.Nodup.map_on _ (List.nodup_range' 1)
  intro a ha b hb h
  have ha := (List.mem_range'_1.mp ha).1
  have hb := (List.mem_range'_1.mp hb).1
  have h' : (a - 1) * r = (b - 1) * r := by omega
  have := Nat.eq_of_mul_eq_mul_right hr h'
  omega

/-- a (1-based) level `x` lies in partition `q+1` iff its 0-based index is `≡ q (mod r)` (and small enough to be
reached by `range(1, L)`) -/
theorem mem_part_iff {r L q x : Nat} (hq : q < r) :
    x ∈ part r L (q + 1) ↔ 1 ≤ x ∧ x ≤ L ∧ (x - 1) % r = q ∧ (x - 1) / r + 2 ≤ L := by
  rw [mem_part]
  constructor
  · rintro ⟨⟨m, hm, rfl⟩, hx⟩
    have e : q + 1 + m * r - 1 = q + m * r := by omega
    refine ⟨by omega, hx, ?_, ?_⟩
    · rw [e, Nat.add_mul_mod_self_right, Nat.mod_eq_of_lt hq]
    · rw [e, Nat.add_mul_div_right _ _ (by omega : 0 < r), Nat.div_eq_of_lt hq]; omega
  · rintro ⟨h1, h2, h3, h4⟩
    refine ⟨⟨(x - 1) / r, h4, ?_⟩, h2⟩
    have := Nat.div_add_mod (x - 1) r
    rw [h3, Nat.mul_comm] at this
    omega

/-- with at least two levels and a reduction of at least two, `range(1, L)` reaches every level -/
theorem div_bound {r L x : Nat} (hr : 2 ≤ r) (hL : 2 ≤ L) (hx : x < L) : x / r + 2 ≤ L := by
  have h1 : x / r ≤ x / 2 := Nat.div_le_div_left hr (by omega)
  omega

/-! ## `itertools.product` -/

theorem mem_product {α} : ∀ {sets : List (List α)} {y : List α}, y ∈ product sets ↔ List.Forall₂ (· ∈ ·) y sets
  | [], y => by
    simp only [product, List.mem_singleton]
    constructor
    · rintro rfl; exact .nil
    · intro h; cases h; rfl
  | s :: ss, y => by
    simp only [product, List.mem_flatMap, List.mem_map]
    constructor
    · rintro ⟨x, hx, t, ht, rfl⟩
      exact .cons hx (mem_product.mp ht)
    · intro h
      cases h with
      | cons hx ht => exact ⟨_, hx, _, mem_product.mpr ht, rfl⟩

theorem nodup_product {α} : ∀ {sets : List (List α)}, (∀ s ∈ sets, s.Nodup) → (product sets).Nodup
  | [], _ => by simp [product]
  | s :: ss, h => by
    simp only [product]
    rw [List.nodup_flatMap]
    constructor
    · intro x _
      apply List.Nodup.map _ (nodup_product fun t ht => h t (by simp [ht]))
      intro a b hab
      simpa using hab
    · apply List.Nodup.pairwise_of_forall_ne (h s (by simp))
      intro a _ b _ hab
      simp only [Function.onFun, List.Disjoint, List.mem_map]
      rintro x ⟨y, _, rfl⟩ ⟨z, _, hz⟩
      simp only [List.cons.injEq] at hz
      exact hab hz.1.symm

theorem product_nil_of_empty {α} : ∀ {sets : List (List α)}, sets.any List.isEmpty = true → product sets = []
  | [], h => by simp at h
  | s :: ss, h => by
    simp only [List.any_cons, Bool.or_eq_true] at h
    simp only [product]
    rcases h with h | h
    · rw [List.isEmpty_iff.mp h]; rfl
    · rw [product_nil_of_empty h]; simp

/-! ## from partition rows to design rows -/

/-- run `y1` (1-based levels) is built from partition row `prow`: every level lies in the partition the row names -/
def Match3 (r : Nat) : List Nat → List Nat → List Nat → Prop
  | [], [], [] => True
  | x :: xs, q :: qs, L :: Ls => x ∈ part r L (q + 1) ∧ Match3 r xs qs Ls
  | _, _, _ => False

theorem setsOf_eq {levels : List Nat} {r : Nat} : ∀ (row : List Nat) (j : Nat), (∀ q ∈ row, q < r) →
    j + row.length ≤ levels.length →
    setsOf (makePartitions levels r) j row = List.zipWith (fun q L => part r L (q + 1)) row (levels.drop j)
  | [], _, _, _ => by simp [setsOf]
  | q :: qs, j, hq, hl => by
    simp only [List.length_cons] at hl
    have hj : j < levels.length := by omega
    have hq0 : q < r := hq q (by simp)
    rw [List.drop_eq_getElem_cons hj, List.zipWith_cons_cons, setsOf,
      setsOf_eq qs (j + 1) (fun x hx => hq x (by simp [hx])) (by omega)]
    congr 1
    simp only [makePartitions, List.getD_eq_getElem?_getD, List.getElem?_map, List.getElem?_range' , hq0, hj,
      Option.map_some, Option.getD_some, List.getElem?_eq_getElem]
    congr 1
    omega

theorem mem_product_zipWith {r : Nat} : ∀ {y1 prow levels : List Nat}, prow.length = levels.length →
    (y1 ∈ product (List.zipWith (fun q L => part r L (q + 1)) prow levels) ↔ Match3 r y1 prow levels)
  | y1, [], [], _ => by
    cases y1 <;> simp [product, Match3]
  | _, [], _ :: _, h => by simp at h
  | _, _ :: _, [], h => by simp at h
  | y1, q :: qs, L :: Ls, h => by
    rw [List.zipWith_cons_cons, mem_product]
    cases y1 with
    | nil => simp [Match3]
    | cons x xs =>
      rw [List.forall₂_cons, ← mem_product, mem_product_zipWith (by simpa using h)]
      simp [Match3]

/-- the partition row of a run is determined by the run -/
theorem match3_prow {r : Nat} : ∀ {y1 prow levels : List Nat}, (∀ q ∈ prow, q < r) → Match3 r y1 prow levels →
    prow = y1.map fun x => (x - 1) % r
  | [], [], [], _, _ => rfl
  | x :: xs, q :: qs, L :: Ls, hq, h => by
    simp only [Match3] at h
    have hx := (mem_part_iff (hq q (by simp))).mp h.1
    rw [List.map_cons, match3_prow (fun p hp => hq p (by simp [hp])) h.2, hx.2.2.1]
  | [], [], _ :: _, _, h | [], _ :: _, _, _, h | _ :: _, [], _, _, h | _ :: _, _ :: _, [], _, h => by
    simp [Match3] at h

/-- a run built from a partition row lies in the full factorial (1-based: `1 ≤ x ≤ L`) -/
theorem match3_box {r : Nat} : ∀ {y1 prow levels : List Nat}, (∀ q ∈ prow, q < r) → Match3 r y1 prow levels →
    List.Forall₂ (fun x L => 1 ≤ x ∧ x ≤ L) y1 levels
  | [], [], [], _, _ => .nil
  | x :: xs, q :: qs, L :: Ls, hq, h => by
    simp only [Match3] at h
    have hx := (mem_part_iff (hq q (by simp))).mp h.1
    exact .cons ⟨hx.1, hx.2.1⟩ (match3_box (fun p hp => hq p (by simp [hp])) h.2)
  | [], [], _ :: _, _, h | [], _ :: _, _, _, h | _ :: _, [], _, _, h | _ :: _, _ :: _, [], _, h => by
    simp [Match3] at h

/-- every run of the full factorial is built from its own partition row (needs `L ≥ 2`, `r ≥ 2`) -/
theorem match3_of_box {r : Nat} (hr : 2 ≤ r) : ∀ {y levels : List Nat}, InBox y levels → (∀ L ∈ levels, 2 ≤ L) →
    Match3 r (y.map (· + 1)) (y.map (· % r)) levels
  | _, _, .nil, _ => by simp [Match3]
  | _, _, .cons (a := x) (b := L) hx ht, hL => by
    simp only [List.map_cons, Match3]
    refine ⟨?_, match3_of_box hr ht (fun M hM => hL M (by simp [hM]))⟩
    rw [mem_part_iff (Nat.mod_lt _ (by omega))]
    simp only [Nat.add_sub_cancel]
    exact ⟨by omega, by omega, trivial, div_bound hr (hL L (by simp)) hx⟩

/-! ## `_map_partitions_to_design` and `build_gsd` -/

/-- the design (1-based levels) an orthogonal array is mapped to: the runs of every row, in row order -/
def design1 (levels : List Nat) (r : Nat) (oa : List (List Nat)) : List (List Nat) :=
  oa.flatMap fun row => product (setsOf (makePartitions levels r) 0 row)

theorem flatten_filterMap_product (P : List (List (List Nat))) : ∀ (oa : List (List Nat)),
    (oa.filterMap fun row =>
      if (setsOf P 0 row).any List.isEmpty then none else some (product (setsOf P 0 row))).flatten
      = oa.flatMap fun row => product (setsOf P 0 row)
  | [] => rfl
  | row :: oa => by
    have ih := flatten_filterMap_product P oa
    rw [List.filterMap_cons, List.flatMap_cons]
    cases hb : (setsOf P 0 row).any List.isEmpty
    · simp only [Bool.false_eq_true, if_false, List.flatten_cons, ih]
    · simp only [if_true, product_nil_of_empty hb, List.nil_append, ih]

theorem mapPartitions_ok {P : List (List (List Nat))} {oa D : List (List Nat)} (h : mapPartitions P oa = .ok D) :
    D = oa.flatMap fun row => product (setsOf P 0 row) := by
  unfold mapPartitions at h
  split at h
  · simp only at h
    split at h
    · exact absurd h (by simp)
    · simp only [Except.ok.injEq] at h
      rw [← h]
      exact flatten_filterMap_product P oa
  · exact absurd h (by simp)

theorem exceptAll_ok {α} : ∀ {l : List (Except Err α)} {r : List α}, exceptAll l = .ok r → l = r.map .ok
  | [], r, h => by simp only [exceptAll, Except.ok.injEq] at h; subst h; rfl
  | .error e :: l, r, h => by simp [exceptAll] at h
  | .ok a :: l, r, h => by
    simp only [exceptAll] at h
    split at h
    · exact absurd h (by simp)
    · next l' hl =>
      simp only [Except.ok.injEq] at h
      subst h
      rw [List.map_cons, exceptAll_ok hl]

/-- what `gsdDesigns` returns: `r` designs, the `i`-th one mapped from the `i`-th orthogonal array, levels shifted to 0-based -/
theorem gsdDesigns_ok {levels : List Nat} {r : Nat} {ds : List (List (List Nat))} (h : gsdDesigns levels r = .ok ds)
    (hk : 1 ≤ levels.length) :
    ds.length = r ∧ ∀ i, i < r →
      ds.getD i [] = (design1 levels r ((orthArrays r levels.length).getD i [])).map (·.map (· - 1)) := by
  have hlen := (oaInv_orthArrays r hk).len
  have e := exceptAll_ok h
  have hl : ds.length = r := by
    have := congrArg List.length e
    simp only [List.length_map, hlen] at this
    exact this.symm
  refine ⟨hl, fun i hi => ?_⟩
  have ei := congrArg (fun l => l[i]?) e
  simp only [List.getElem?_map, List.getElem?_eq_getElem (by omega : i < (orthArrays r levels.length).length),
    List.getElem?_eq_getElem (by omega : i < ds.length), Option.map_some, Option.some.injEq] at ei
  simp only [List.getD_eq_getElem?_getD, List.getElem?_eq_getElem (by omega : i < (orthArrays r levels.length).length),
    List.getElem?_eq_getElem (by omega : i < ds.length), Option.getD_some]
  split at ei
  · exact absurd ei (by simp)
  · next d hd =>
    simp only [Except.ok.injEq] at ei
    rw [← ei, mapPartitions_ok hd]
    rfl

/-- membership in the 1-based design of array `i` -/
theorem mem_design1 {levels : List Nat} {r i : Nat} (hk : 1 ≤ levels.length) (hi : i < r) {y1 : List Nat} :
    y1 ∈ design1 levels r ((orthArrays r levels.length).getD i []) ↔
      ∃ prow, prow.length = levels.length ∧ InOA r i prow ∧ Match3 r y1 prow levels := by
  have inv := oaInv_orthArrays r hk
  simp only [design1, List.mem_flatMap]
  constructor
  · rintro ⟨prow, hp, hy⟩
    obtain ⟨hl, hin⟩ := (inv.mem i hi prow).mp hp
    rw [setsOf_eq prow 0 (inOA_lt hi hin) (by omega), List.drop_zero, mem_product_zipWith hl] at hy
    exact ⟨prow, hl, hin, hy⟩
  · rintro ⟨prow, hl, hin, hy⟩
    refine ⟨prow, (inv.mem i hi prow).mpr ⟨hl, hin⟩, ?_⟩
    rw [setsOf_eq prow 0 (inOA_lt hi hin) (by omega), List.drop_zero, mem_product_zipWith hl]
    exact hy

theorem nodup_zipWith_part {r : Nat} (hr : 0 < r) : ∀ (row levels : List Nat),
    ∀ s ∈ List.zipWith (fun q L => part r L (q + 1)) row levels, s.Nodup
  | [], _, s, h => by simp at h
  | _ :: _, [], s, h => by simp at h
  | q :: qs, L :: Ls, s, h => by
    rw [List.zipWith_cons_cons, List.mem_cons] at h
    rcases h with rfl | h
    · exact nodup_part hr
    · exact nodup_zipWith_part hr qs Ls s h

theorem nodup_design1 {levels : List Nat} {r i : Nat} (hk : 1 ≤ levels.length) (hi : i < r) :
    (design1 levels r ((orthArrays r levels.length).getD i [])).Nodup := by
  have inv := oaInv_orthArrays r hk
  unfold design1
  rw [List.nodup_flatMap]
  constructor
  · intro prow hp
    obtain ⟨hl, hin⟩ := (inv.mem i hi prow).mp hp
    rw [setsOf_eq prow 0 (inOA_lt hi hin) (by omega), List.drop_zero]
    exact nodup_product (nodup_zipWith_part (by omega) _ _)
  · apply List.Nodup.pairwise_of_forall_ne (inv.nodup i hi)
    intro p hp q hq hpq
    obtain ⟨hlp, hinp⟩ := (inv.mem i hi p).mp hp
    obtain ⟨hlq, hinq⟩ := (inv.mem i hi q).mp hq
    simp only [Function.onFun, List.Disjoint]
    intro y hy1 hy2
    rw [setsOf_eq p 0 (inOA_lt hi hinp) (by omega), List.drop_zero, mem_product_zipWith hlp] at hy1
    rw [setsOf_eq q 0 (inOA_lt hi hinq) (by omega), List.drop_zero, mem_product_zipWith hlq] at hy2
    exact hpq ((match3_prow (inOA_lt hi hinp) hy1).trans (match3_prow (inOA_lt hi hinq) hy2).symm)

/-! ## 0-based levels -/

theorem map_add_sub (y : List Nat) : (y.map (· + 1)).map (· - 1) = y := by
  simp [List.map_map, Function.comp_def]

theorem map_sub_add {y1 : List Nat} (h : ∀ x ∈ y1, 1 ≤ x) : (y1.map (· - 1)).map (· + 1) = y1 := by
  rw [List.map_map]
  conv => rhs; rw [← List.map_id y1]
  apply List.map_congr_left
  intro x hx
  have := h x hx
  simp only [Function.comp, id]
  omega

theorem box_pos {y1 levels : List Nat} (h : List.Forall₂ (fun x L => 1 ≤ x ∧ x ≤ L) y1 levels) : ∀ x ∈ y1, 1 ≤ x := by
  induction h with
  | nil => simp
  | cons hx _ ih =>
    intro x hx'
    rcases List.mem_cons.mp hx' with rfl | hx'
    · exact hx.1
    · exact ih x hx'

theorem box_shift {y1 levels : List Nat} (h : List.Forall₂ (fun x L => 1 ≤ x ∧ x ≤ L) y1 levels) :
    InBox (y1.map (· - 1)) levels := by
  induction h with
  | nil => exact .nil
  | cons hx _ ih =>
    simp only [List.map_cons]
    exact .cons (by omega) ih

/-- the `i`-th design of `build_gsd`, 0-based -/
def design0 (levels : List Nat) (r i : Nat) : List (List Nat) :=
  (design1 levels r ((orthArrays r levels.length).getD i [])).map (·.map (· - 1))

theorem design1_box {levels : List Nat} {r i : Nat} (hk : 1 ≤ levels.length) (hi : i < r) {y1 : List Nat}
    (h : y1 ∈ design1 levels r ((orthArrays r levels.length).getD i [])) :
    List.Forall₂ (fun x L => 1 ≤ x ∧ x ≤ L) y1 levels := by
  obtain ⟨prow, _, hin, hm⟩ := (mem_design1 hk hi).mp h
  exact match3_box (inOA_lt hi hin) hm

theorem mem_design0 {levels : List Nat} {r i : Nat} (hk : 1 ≤ levels.length) (hi : i < r) {y : List Nat} :
    y ∈ design0 levels r i ↔ y.map (· + 1) ∈ design1 levels r ((orthArrays r levels.length).getD i []) := by
  simp only [design0, List.mem_map]
  constructor
  · rintro ⟨y1, h1, rfl⟩
    rw [map_sub_add (box_pos (design1_box hk hi h1))]
    exact h1
  · intro h
    exact ⟨_, h, map_add_sub y⟩

theorem nodup_design0 {levels : List Nat} {r i : Nat} (hk : 1 ≤ levels.length) (hi : i < r) :
    (design0 levels r i).Nodup := by
  apply List.Nodup.map_on _ (nodup_design1 hk hi)
  intro a ha b hb hab
  rw [← map_sub_add (box_pos (design1_box hk hi ha)), ← map_sub_add (box_pos (design1_box hk hi hb)), hab]

theorem design0_box {levels : List Nat} {r i : Nat} (hk : 1 ≤ levels.length) (hi : i < r) {y : List Nat}
    (h : y ∈ design0 levels r i) : InBox y levels := by
  obtain ⟨y1, h1, rfl⟩ := List.mem_map.mp h
  exact box_shift (design1_box hk hi h1)

theorem design0_disjoint {levels : List Nat} {r i j : Nat} (hk : 1 ≤ levels.length) (hi : i < r) (hj : j < r)
    {y : List Nat} (h1 : y ∈ design0 levels r i) (h2 : y ∈ design0 levels r j) : i = j := by
  obtain ⟨p, _, hinp, hmp⟩ := (mem_design1 hk hi).mp ((mem_design0 hk hi).mp h1)
  obtain ⟨q, _, hinq, hmq⟩ := (mem_design1 hk hj).mp ((mem_design0 hk hj).mp h2)
  have e : p = q := (match3_prow (inOA_lt hi hinp) hmp).trans (match3_prow (inOA_lt hj hinq) hmq).symm
  subst e
  exact inOA_unique hi hj hinp hinq

theorem design0_cover {levels : List Nat} {r : Nat} (hk : 1 ≤ levels.length) (hr : 2 ≤ r)
    (hL : ∀ L ∈ levels, 2 ≤ L) {y : List Nat} (hy : InBox y levels) : ∃ i, i < r ∧ y ∈ design0 levels r i := by
  have hlen : y.length = levels.length := length_of_inBox hy
  have hne : y.map (· % r) ≠ [] := by
    intro h
    rw [List.map_eq_nil_iff] at h
    subst h
    simp only [List.length_nil] at hlen
    omega
  obtain ⟨i, hi, hin⟩ := inOA_exists (r := r) hne (by
    intro x hx
    obtain ⟨z, _, rfl⟩ := List.mem_map.mp hx
    exact Nat.mod_lt _ (by omega))
  refine ⟨i, hi, (mem_design0 hk hi).mpr ((mem_design1 hk hi).mpr ⟨y.map (· % r), by simpa using hlen, hin, ?_⟩)⟩
  exact match3_of_box hr hy hL

/-- what `build_gsd` returns when it returns: `min n r` designs, the `i`-th one being `design0 levels r i` -/
theorem buildGsd_ok {levels : List Nat} {r n : Nat} {out : List (List (List Nat))}
    (h : buildGsd levels r n = .ok out) (hk : 1 ≤ levels.length) :
    2 ≤ r ∧ 1 ≤ n ∧ out.length = min n r ∧ ∀ i d, out[i]? = some d → i < r ∧ d = design0 levels r i := by
  unfold buildGsd at h
  split at h
  · exact absurd h (by simp)
  · next hrn =>
    split at h
    · exact absurd h (by simp)
    · next ds hds =>
      simp only [Except.ok.injEq] at h
      subst h
      obtain ⟨hl, hget⟩ := gsdDesigns_ok hds hk
      refine ⟨by omega, by omega, by simp [hl], ?_⟩
      intro i d hid
      rw [List.getElem?_take] at hid
      split at hid
      · have hi : i < r := by
          have := (List.getElem?_eq_some_iff.mp hid).1
          omega
        refine ⟨hi, ?_⟩
        have := hget i hi
        rw [List.getD_eq_getElem?_getD, hid, Option.getD_some] at this
        exact this
      · exact absurd hid (by simp)

end Artap.Doe
