import ArtapModel.Model.Variation
import Mathlib.Algebra.Order.Field.Basic
import Mathlib.Algebra.Order.Field.Rat
import Mathlib.Data.Rat.Floor
import Mathlib.Tactic.Linarith
/-! # Lemmas about the box-preserving operators (helper file for `Props/C08.lean`) -/
namespace Artap.Variation

/-- A well-formed parameter: non-empty range, non-negative tolerance. -/
def Param.Valid (p : Param) : Prop := p.lb ≤ p.ub ∧ 0 ≤ p.tol

def ValidBox (ps : List Param) : Prop := ∀ p ∈ ps, p.Valid

theorem ValidBox.head {p : Param} {ps : List Param} (h : ValidBox (p :: ps)) : p.Valid :=
  h p (List.mem_cons_self)

theorem ValidBox.tail {p : Param} {ps : List Param} (h : ValidBox (p :: ps)) : ValidBox ps :=
  fun q hq => h q (List.mem_cons_of_mem _ hq)

/-! ## clip -/

theorem pmin_le_right (a b : Rat) : pmin a b ≤ b := by
  unfold pmin; split <;> [exact le_refl _; exact not_lt.mp ‹_›]

theorem le_pmax_left (a b : Rat) : a ≤ pmax a b := by
  unfold pmax; split <;> [exact le_of_lt ‹_›; exact le_refl _]

theorem clip_ge (v lo hi : Rat) : lo ≤ clip v lo hi := le_pmax_left _ _

theorem clip_le (v lo hi : Rat) (h : lo ≤ hi) : clip v lo hi ≤ hi := by
  unfold clip pmax
  split
  · exact pmin_le_right _ _
  · exact h

theorem clip_eq_self (v lo hi : Rat) (h1 : lo ≤ v) (h2 : v ≤ hi) : clip v lo hi = v := by
  unfold clip pmax pmin
  split <;> split <;> first | rfl | (exfalso; linarith) | linarith

/-! ## membership predicates -/

theorem within_iff (p : Param) (x : Rat) : within p x = true ↔ p.lb ≤ x ∧ x ≤ p.ub := by
  simp [within]

theorem withinTol_iff (p : Param) (x : Rat) :
    withinTol p x = true ↔ p.lb - p.tol ≤ x ∧ x ≤ p.ub + p.tol := by
  simp [withinTol]

theorem within_clip (p : Param) (a : Rat) (h : p.lb ≤ p.ub) : within p (clip a p.lb p.ub) = true :=
  (within_iff _ _).2 ⟨clip_ge _ _ _, clip_le _ _ _ h⟩

theorem withinTol_of_within {p : Param} {x : Rat} (hv : p.Valid) (h : within p x = true) :
    withinTol p x = true := by
  rw [within_iff] at h
  rw [withinTol_iff]
  constructor <;> linarith [hv.1, hv.2, h.1, h.2]

theorem inBox_length {ps : List Param} {x : List Rat} (h : inBox ps x = true) : x.length = ps.length := by
  induction ps generalizing x with
  | nil => cases x <;> simp_all [inBox]
  | cons p ps ih =>
    cases x with
    | nil => simp [inBox] at h
    | cons a x =>
      simp only [inBox, Bool.and_eq_true] at h
      simp [ih h.2]

theorem inBox_of_exact {ps : List Param} {x : List Rat} (hv : ValidBox ps) (h : inBoxExact ps x = true) :
    inBox ps x = true := by
  induction ps generalizing x with
  | nil => cases x <;> simp_all [inBox, inBoxExact]
  | cons p ps ih =>
    cases x with
    | nil => simp [inBoxExact] at h
    | cons a x =>
      simp only [inBoxExact, Bool.and_eq_true] at h
      simp only [inBox, Bool.and_eq_true]
      exact ⟨withinTol_of_within hv.head h.1, ih hv.tail h.2⟩

/-! ## SBX -/

theorem sbxCoord_admitted (p : Param) (h : p.lb ≤ p.ub) (x1 x2 : Rat) (d : SbxDraw) :
    admitsSbxCoord p x1 x2 (sbxCoord p x1 x2 d).1 (sbxCoord p x1 x2 d).2 = true := by
  unfold sbxCoord admitsSbxCoord
  split
  · split
    · split <;> simp [within_clip _ _ h]
    · simp
  · simp

theorem admitsSbxCoord_withinTol {p : Param} {x1 x2 c1 c2 : Rat} (hv : p.Valid)
    (h1 : withinTol p x1 = true) (h2 : withinTol p x2 = true)
    (ha : admitsSbxCoord p x1 x2 c1 c2 = true) : withinTol p c1 = true ∧ withinTol p c2 = true := by
  unfold admitsSbxCoord at ha
  simp only [Bool.or_eq_true, Bool.and_eq_true, beq_iff_eq] at ha
  rcases ha with ⟨rfl, rfl⟩ | ⟨a, b⟩
  · exact ⟨h1, h2⟩
  · exact ⟨withinTol_of_within hv a, withinTol_of_within hv b⟩

theorem admitsSbx_refl {ps : List Param} {x1 x2 : List Rat} (h1 : x1.length = ps.length)
    (h2 : x2.length = ps.length) : admitsSbx ps x1 x2 x1 x2 = true := by
  induction ps generalizing x1 x2 with
  | nil =>
    cases x1 <;> cases x2 <;> simp_all [admitsSbx]
  | cons p ps ih =>
    cases x1 with
    | nil => simp at h1
    | cons a x1 =>
      cases x2 with
      | nil => simp at h2
      | cons b x2 =>
        simp only [List.length_cons, Nat.add_right_cancel_iff] at h1 h2
        simp [admitsSbx, admitsSbxCoord, ih h1 h2]

theorem sbxLoop_admitted {ps : List Param} (hv : ValidBox ps) {x1 x2 : List Rat} {ds : List SbxDraw}
    {c1 c2 : List Rat} (h1 : x1.length = ps.length) (h2 : x2.length = ps.length)
    (h : sbxLoop ps x1 x2 ds = some (c1, c2)) : admitsSbx ps x1 x2 c1 c2 = true := by
  induction ps generalizing x1 x2 ds c1 c2 with
  | nil =>
    cases x1 <;> cases x2 <;> simp_all [sbxLoop, admitsSbx]
  | cons p ps ih =>
    cases x1 with
    | nil => simp at h1
    | cons a x1 =>
      cases x2 with
      | nil => simp at h2
      | cons b x2 =>
        cases ds with
        | nil => simp [sbxLoop] at h
        | cons d ds =>
          simp only [List.length_cons, Nat.add_right_cancel_iff] at h1 h2
          simp only [sbxLoop] at h
          cases hr : sbxLoop ps x1 x2 ds with
          | none => simp [hr] at h
          | some r =>
            obtain ⟨r1, r2⟩ := r
            simp only [hr, Option.some.injEq, Prod.mk.injEq] at h
            obtain ⟨rfl, rfl⟩ := h
            simp only [admitsSbx, Bool.and_eq_true]
            exact ⟨sbxCoord_admitted p hv.head.1 a b d, ih hv.tail h1 h2 hr⟩

theorem admitsSbx_inBox {ps : List Param} (hv : ValidBox ps) {x1 x2 c1 c2 : List Rat}
    (h1 : inBox ps x1 = true) (h2 : inBox ps x2 = true) (ha : admitsSbx ps x1 x2 c1 c2 = true) :
    inBox ps c1 = true ∧ inBox ps c2 = true := by
  induction ps generalizing x1 x2 c1 c2 with
  | nil =>
    cases x1 <;> cases x2 <;> cases c1 <;> cases c2 <;> simp_all [admitsSbx, inBox]
  | cons p ps ih =>
    cases x1 <;> cases x2 <;> cases c1 <;> cases c2 <;> try (simp [admitsSbx] at ha)
    rename_i a x1 b x2 c c1 d c2
    simp only [inBox, Bool.and_eq_true] at h1 h2 ⊢
    have hc := admitsSbxCoord_withinTol hv.head h1.1 h2.1 ha.1
    have hr := ih hv.tail h1.2 h2.2 ha.2
    exact ⟨⟨hc.1, hr.1⟩, ⟨hc.2, hr.2⟩⟩

/-! ## mutation -/

theorem mutCoord_admitted (p : Param) (h : p.lb ≤ p.ub) (x : Rat) (d : MutDraw) :
    admitsMutCoord p x (mutCoord p x d) = true := by
  unfold mutCoord admitsMutCoord
  split <;> simp [within_clip _ _ h]

theorem mutate_admitted {ps : List Param} (hv : ValidBox ps) {x : List Rat} {ds : List MutDraw}
    {c : List Rat} (h1 : x.length = ps.length) (h : mutate ps x ds = some c) :
    admitsMut ps x c = true := by
  induction ps generalizing x ds c with
  | nil =>
    cases x <;> simp_all [mutate, admitsMut]
  | cons p ps ih =>
    cases x with
    | nil => simp at h1
    | cons a x =>
      cases ds with
      | nil => simp [mutate] at h
      | cons d ds =>
        simp only [List.length_cons, Nat.add_right_cancel_iff] at h1
        simp only [mutate] at h
        cases hr : mutate ps x ds with
        | none => simp [hr] at h
        | some r =>
          simp only [hr, Option.some.injEq] at h
          subst h
          simp only [admitsMut, Bool.and_eq_true]
          exact ⟨mutCoord_admitted p hv.head.1 a d, ih hv.tail h1 hr⟩

theorem admitsMut_inBox {ps : List Param} (hv : ValidBox ps) {x c : List Rat}
    (h1 : inBox ps x = true) (ha : admitsMut ps x c = true) : inBox ps c = true := by
  induction ps generalizing x c with
  | nil => cases x <;> cases c <;> simp_all [admitsMut, inBox]
  | cons p ps ih =>
    cases x <;> cases c <;> try (simp [admitsMut] at ha)
    rename_i a x b c
    simp only [inBox, Bool.and_eq_true] at h1 ⊢
    refine ⟨?_, ih hv.tail h1.2 ha.2⟩
    have := ha.1
    unfold admitsMutCoord at this
    simp only [Bool.or_eq_true, beq_iff_eq] at this
    rcases this with rfl | w
    · exact h1.1
    · exact withinTol_of_within hv.head w

/-! ## gen_number -/

theorem floor_le' (q : Rat) : (q.floor : Rat) ≤ q := Int.floor_le q
theorem lt_floor_add_one' (q : Rat) : q < (q.floor : Rat) + 1 := Int.lt_floor_add_one q

theorem roundHalfEven_ge (q : Rat) : q - 1 / 2 ≤ (roundHalfEven q : Rat) := by
  have h1 := floor_le' q
  have h2 := lt_floor_add_one' q
  unfold roundHalfEven
  simp only
  split
  · linarith
  · split
    · push_cast; linarith
    · split
      · linarith
      · push_cast; linarith

theorem roundHalfEven_le (q : Rat) : (roundHalfEven q : Rat) ≤ q + 1 / 2 := by
  have h1 := floor_le' q
  have h2 := lt_floor_add_one' q
  unfold roundHalfEven
  simp only
  split
  · linarith
  · split
    · push_cast; linarith
    · split
      · linarith
      · push_cast; linarith

theorem effPrecision_pos {prec : Rat} (h : 0 ≤ prec) : 0 < effPrecision prec := by
  unfold effPrecision
  split
  · unfold defaultPrecision; norm_num
  · rename_i hne
    have : prec ≠ 0 := by simpa using hne
    exact lt_of_le_of_ne h (Ne.symm this)

/-! ## run-level envelope -/

theorem admitsDesign_inBox {ps : List Param} (hv : ValidBox ps) {pool : List (List Rat)} {c : List Rat}
    (hp : ∀ d ∈ pool, inBox ps d = true) (ha : admitsDesign ps pool c = true) : inBox ps c = true := by
  induction ps generalizing pool c with
  | nil => cases c <;> simp_all [admitsDesign, inBox]
  | cons p ps ih =>
    cases c with
    | nil => simp [admitsDesign] at ha
    | cons x cs =>
      simp only [admitsDesign, Bool.and_eq_true, Bool.or_eq_true, List.any_eq_true, beq_iff_eq] at ha
      simp only [inBox, Bool.and_eq_true]
      constructor
      · rcases ha.1 with w | ⟨d, hd, hh⟩
        · exact withinTol_of_within hv.head w
        · have hb := hp d hd
          cases d with
          | nil => simp at hh
          | cons y ys =>
            simp only [List.head?_cons, Option.some.injEq] at hh
            subst hh
            simp only [inBox, Bool.and_eq_true] at hb
            exact hb.1
      · apply ih hv.tail _ ha.2
        intro d' hd'
        simp only [List.mem_map] at hd'
        obtain ⟨d, hd, rfl⟩ := hd'
        have hb := hp d hd
        cases d with
        | nil => simp [inBox] at hb
        | cons y ys =>
          simp only [inBox, Bool.and_eq_true] at hb
          exact hb.2

theorem admitsTrace_inBox {ps : List Param} (hv : ValidBox ps) {pool rest : List (List Rat)}
    (hp : ∀ d ∈ pool, inBox ps d = true) (ha : admitsTrace ps pool rest = true) :
    ∀ d ∈ rest, inBox ps d = true := by
  induction rest generalizing pool with
  | nil => intro d hd; simp at hd
  | cons e rest ih =>
    simp only [admitsTrace, Bool.and_eq_true] at ha
    have he := admitsDesign_inBox hv hp ha.1
    intro d hd
    rcases List.mem_cons.mp hd with rfl | hd
    · exact he
    · apply ih (pool := e :: pool) _ ha.2 d hd
      intro d' hd'
      rcases List.mem_cons.mp hd' with rfl | hd'
      · exact he
      · exact hp d' hd'

theorem firstBad_none_iff (ps : List Param) (pool rest : List (List Rat)) (k : Nat) :
    firstBad ps pool rest k = none ↔ admitsTrace ps pool rest = true := by
  induction rest generalizing pool k with
  | nil => simp [firstBad, admitsTrace]
  | cons e rest ih =>
    simp only [firstBad, admitsTrace, Bool.and_eq_true]
    split
    · rename_i h; simp [h, ih]
    · rename_i h; simp [h]

/-! ## tolerance zero: the exact statements are instances of the tolerant ones -/

def zeroTol (p : Param) : Param := { p with tol := 0 }

theorem validBox_zeroTol {ps : List Param} (hb : ∀ p ∈ ps, p.lb ≤ p.ub) : ValidBox (ps.map zeroTol) := by
  intro q hq
  simp only [List.mem_map] at hq
  obtain ⟨p, hp, rfl⟩ := hq
  exact ⟨hb p hp, le_refl _⟩

theorem withinTol_zeroTol (p : Param) (x : Rat) : withinTol (zeroTol p) x = within p x := by
  simp [withinTol, within, zeroTol]

theorem inBox_zeroTol (ps : List Param) (x : List Rat) :
    inBox (ps.map zeroTol) x = true ↔ inBoxExact ps x = true := by
  induction ps generalizing x with
  | nil => cases x <;> simp [inBox, inBoxExact]
  | cons p ps ih =>
    cases x with
    | nil => simp [inBox, inBoxExact]
    | cons a x => simp [inBox, inBoxExact, withinTol_zeroTol, ih]

theorem sbxLoop_zeroTol (ps : List Param) (x1 x2 : List Rat) (ds : List SbxDraw) :
    sbxLoop (ps.map zeroTol) x1 x2 ds = sbxLoop ps x1 x2 ds := by
  induction ps generalizing x1 x2 ds with
  | nil => simp [sbxLoop]
  | cons p ps ih =>
    cases x1 <;> cases x2 <;> cases ds <;> simp [sbxLoop, ih, sbxCoord, zeroTol]

theorem sbx_zeroTol (ps : List Param) (go : Bool) (x1 x2 : List Rat) (ds : List SbxDraw) :
    sbx (ps.map zeroTol) go x1 x2 ds = sbx ps go x1 x2 ds := by
  simp [sbx, sbxLoop_zeroTol]

theorem mutate_zeroTol (ps : List Param) (x : List Rat) (ds : List MutDraw) :
    mutate (ps.map zeroTol) x ds = mutate ps x ds := by
  induction ps generalizing x ds with
  | nil => simp [mutate]
  | cons p ps ih =>
    cases x <;> cases ds <;> simp [mutate, ih, mutCoord, zeroTol]

/-! ## the operators' children are admitted by the run envelope -/

theorem admitsDesign_of_exact {ps : List Param} {pool : List (List Rat)} {c : List Rat}
    (h : inBoxExact ps c = true) : admitsDesign ps pool c = true := by
  induction ps generalizing pool c with
  | nil => cases c <;> simp_all [admitsDesign, inBoxExact]
  | cons p ps ih =>
    cases c with
    | nil => simp [inBoxExact] at h
    | cons x cs =>
      simp only [inBoxExact, Bool.and_eq_true] at h
      simp [admitsDesign, h.1, ih h.2]

theorem admitsDesign_of_mem {ps : List Param} {pool : List (List Rat)} {c : List Rat}
    (hl : c.length = ps.length) (h : c ∈ pool) : admitsDesign ps pool c = true := by
  induction ps generalizing pool c with
  | nil => cases c <;> simp_all [admitsDesign]
  | cons p ps ih =>
    cases c with
    | nil => simp at hl
    | cons x cs =>
      simp only [List.length_cons, Nat.add_right_cancel_iff] at hl
      simp only [admitsDesign, Bool.and_eq_true, Bool.or_eq_true, List.any_eq_true, beq_iff_eq]
      refine ⟨Or.inr ⟨x :: cs, h, by simp⟩, ih hl ?_⟩
      exact List.mem_map.mpr ⟨x :: cs, h, rfl⟩

theorem admitsDesign_sbx {ps : List Param} {pool : List (List Rat)} {x1 x2 c1 c2 : List Rat}
    (h1 : admitsDesign ps pool x1 = true) (h2 : admitsDesign ps pool x2 = true)
    (ha : admitsSbx ps x1 x2 c1 c2 = true) :
    admitsDesign ps pool c1 = true ∧ admitsDesign ps pool c2 = true := by
  induction ps generalizing pool x1 x2 c1 c2 with
  | nil => cases x1 <;> cases x2 <;> cases c1 <;> cases c2 <;> simp_all [admitsSbx, admitsDesign]
  | cons p ps ih =>
    cases x1 <;> cases x2 <;> cases c1 <;> cases c2 <;> try (simp [admitsSbx] at ha)
    rename_i a x1 b x2 c c1 d c2
    simp only [admitsDesign, Bool.and_eq_true] at h1 h2 ⊢
    have hr := ih h1.2 h2.2 ha.2
    have hc := ha.1
    unfold admitsSbxCoord at hc
    simp only [Bool.or_eq_true, Bool.and_eq_true, beq_iff_eq] at hc
    rcases hc with ⟨rfl, rfl⟩ | ⟨w1, w2⟩
    · exact ⟨⟨h1.1, hr.1⟩, ⟨h2.1, hr.2⟩⟩
    · exact ⟨⟨by simp [w1], hr.1⟩, ⟨by simp [w2], hr.2⟩⟩

theorem admitsDesign_mut {ps : List Param} {pool : List (List Rat)} {x c : List Rat}
    (h1 : admitsDesign ps pool x = true) (ha : admitsMut ps x c = true) :
    admitsDesign ps pool c = true := by
  induction ps generalizing pool x c with
  | nil => cases x <;> cases c <;> simp_all [admitsMut, admitsDesign]
  | cons p ps ih =>
    cases x <;> cases c <;> try (simp [admitsMut] at ha)
    rename_i a x b c
    simp only [admitsDesign, Bool.and_eq_true] at h1 ⊢
    refine ⟨?_, ih h1.2 ha.2⟩
    have hc := ha.1
    unfold admitsMutCoord at hc
    simp only [Bool.or_eq_true, beq_iff_eq] at hc
    rcases hc with rfl | w
    · exact h1.1
    · simp [w]

theorem admitsSbx_length_left {ps : List Param} {x1 x2 c1 c2 : List Rat}
    (ha : admitsSbx ps x1 x2 c1 c2 = true) : c1.length = ps.length := by
  induction ps generalizing x1 x2 c1 c2 with
  | nil => cases x1 <;> cases x2 <;> cases c1 <;> cases c2 <;> simp_all [admitsSbx]
  | cons p ps ih =>
    cases x1 <;> cases x2 <;> cases c1 <;> cases c2 <;> try (simp [admitsSbx] at ha)
    simp only [List.length_cons, Nat.add_right_cancel_iff]
    exact ih ha.2

theorem admitsSbx_length_right {ps : List Param} {x1 x2 c1 c2 : List Rat}
    (ha : admitsSbx ps x1 x2 c1 c2 = true) : c2.length = ps.length := by
  induction ps generalizing x1 x2 c1 c2 with
  | nil => cases x1 <;> cases x2 <;> cases c1 <;> cases c2 <;> simp_all [admitsSbx]
  | cons p ps ih =>
    cases x1 <;> cases x2 <;> cases c1 <;> cases c2 <;> try (simp [admitsSbx] at ha)
    simp only [List.length_cons, Nat.add_right_cancel_iff]
    exact ih ha.2

end Artap.Variation
