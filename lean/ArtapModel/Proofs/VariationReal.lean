import ArtapModel.Model.Variation
import ArtapModel.Proofs.NumReal
import Mathlib.Tactic.Linarith
/-!
# The `pow` formulas of SBX / polynomial / non-uniform mutation over `ℝ` (regime R3)

Python's `pow(x, y)` on floats returns a complex number exactly when `x < 0` and `y` is not
an integer, and raises `ZeroDivisionError` for `x = 0`, `y < 0`.  The lemmas here unfold the
`Num ℝ` interpretation of the formulas of `Model/Variation.lean`; `Props/C08.lean` shows that
no base is negative (and no zero base meets a negative exponent) for parents inside the box.
-/
namespace Artap.Variation
open Artap

theorem sbxBeta_real (gap dy : ℝ) : sbxBeta gap dy = 1 + 2 * gap / dy := by
  show Num.add (Num.ofNat 1) (Num.div (Num.mul (Num.ofNat 2) gap) dy) = _
  simp

theorem sbxAlpha_real (beta eta : ℝ) : sbxAlpha beta eta = 2 - beta ^ (-(eta + 1)) := by
  show Num.sub (Num.ofNat 2) (Num.pow beta (Num.neg (Num.add eta (Num.ofNat 1)))) = _
  simp

theorem sbxBetaqLow_real (rand alpha eta : ℝ) :
    sbxBetaqLow rand alpha eta = (rand * alpha) ^ (1 / (eta + 1)) := by
  show Num.pow (Num.mul rand alpha) (Num.div (Num.ofNat 1) (Num.add eta (Num.ofNat 1))) = _
  simp

theorem sbxBetaqHigh_real (rand alpha eta : ℝ) :
    sbxBetaqHigh rand alpha eta = (1 / (2 - rand * alpha)) ^ (1 / (eta + 1)) := by
  show Num.pow (Num.div (Num.ofNat 1) (Num.sub (Num.ofNat 2) (Num.mul rand alpha)))
    (Num.div (Num.ofNat 1) (Num.add eta (Num.ofNat 1))) = _
  simp

theorem pmValLow_real (rnd d eta : ℝ) :
    pmValLow rnd d eta = 2 * rnd + (1 - 2 * rnd) * (1 - d) ^ (eta + 1) := by
  show Num.add (Num.mul (Num.ofNat 2) rnd)
    (Num.mul (Num.sub (Num.ofNat 1) (Num.mul (Num.ofNat 2) rnd))
      (Num.pow (Num.sub (Num.ofNat 1) d) (Num.add eta (Num.ofNat 1)))) = _
  simp

theorem pmValHigh_real (rnd d eta : ℝ) :
    pmValHigh rnd d eta = 2 * (1 - rnd) + 2 * (rnd - 1 / 2) * (1 - d) ^ (eta + 1) := by
  show Num.add (Num.mul (Num.ofNat 2) (Num.sub (Num.ofNat 1) rnd))
    (Num.mul (Num.mul (Num.ofNat 2) (Num.sub rnd (Num.ofRat (1 / 2))))
      (Num.pow (Num.sub (Num.ofNat 1) d) (Num.add eta (Num.ofNat 1)))) = _
  simp

theorem pmChildLow_real (x dx val eta : ℝ) :
    pmChildLow x dx val eta = x + (val ^ (1 / (eta + 1)) - 1) * dx := by
  show Num.add x (Num.mul (Num.sub (Num.pow val (Num.div (Num.ofNat 1) (Num.add eta (Num.ofNat 1))))
    (Num.ofNat 1)) dx) = _
  simp

theorem pmChildHigh_real (x dx val eta : ℝ) :
    pmChildHigh x dx val eta = x + (1 - val ^ (1 / (eta + 1))) * dx := by
  show Num.add x (Num.mul (Num.sub (Num.ofNat 1)
    (Num.pow val (Num.div (Num.ofNat 1) (Num.add eta (Num.ofNat 1))))) dx) = _
  simp

theorem nuInner_real (it maxIt : ℝ) : nuInner it maxIt = 1 - 1 * it / maxIt := by
  show Num.sub (Num.ofNat 1) (Num.div (Num.mul (Num.ofNat 1) it) maxIt) = _
  simp

theorem nuDelta_real (y r it maxIt b : ℝ) :
    nuDelta y r it maxIt b = y * (1 - r ^ ((nuInner it maxIt) ^ b)) := by
  show Num.mul y (Num.sub (Num.ofNat 1) (Num.pow r (Num.pow (nuInner it maxIt) b))) = _
  simp

end Artap.Variation
