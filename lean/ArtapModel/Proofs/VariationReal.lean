import ArtapModel.Model.Variation
import ArtapModel.Proofs.NumReal
import Mathlib.Tactic.Linarith
/-!
# The `pow` formulas of SBX / polynomial / non-uniform mutation over `ℝ` (regime R3)

Python's `pow(x, y)` on floats returns a complex number exactly when `x < 0` and `y` is not
an integer, and raises `ZeroDivisionError` for `x = 0`, `y < 0`.  The lemmas here unfold the
`Num ℝ` interpretation of the formulas of `Model/Variation.lean`; `Props/C08.lean` shows that
no base is negative (and no zero base meets a negative exponent) for parents inside the box.
-/
namespace Artap.Variation
open Artap

theorem sbxBeta_real (gap dy : ℝ) : sbxBeta gap dy = 1 + 2 * gap / dy := by
  show Num.add (Num.ofNat 1) (Num.div (Num.mul (Num.ofNat 2) gap) dy) = _
  simp

theorem sbxAlpha_real (beta eta : ℝ) : sbxAlpha beta eta = 2 - beta ^ (-(eta + 1)) := by
  show Num.sub (Num.ofNat 2) (Num.pow beta (Num.neg (Num.add eta (Num.ofNat 1)))) = _
  simp

theorem sbxBetaqLow_real (rand alpha eta : ℝ) :
    sbxBetaqLow rand alpha eta = (rand * alpha) ^ (1 / (eta + 1)) := by
  show Num.pow (Num.mul rand alpha) (Num.div (Num.ofNat 1) (Num.add eta (Num.ofNat 1))) = _
  simp

theorem sbxBetaqHigh_real (rand alpha eta : ℝ) :
    sbxBetaqHigh rand alpha eta = (1 / (2 - rand * alpha)) ^ (1 / (eta + 1)) := by
  show Num.pow (Num.div (Num.ofNat 1) (Num.sub (Num.ofNat 2) (Num.mul rand alpha)))
    (Num.div (Num.ofNat 1) (Num.add eta (Num.ofNat 1))) = _
  simp

theorem pmValLow_real (rnd d eta : ℝ) :
    pmValLow rnd d eta = 2 * rnd + (1 - 2 * rnd) * (1 - d) ^ (eta + 1) := by
  show Num.add (Num.mul (Num.ofNat 2) rnd)
    (Num.mul (Num.sub (Num.ofNat 1) (Num.mul (Num.ofNat 2) rnd))
      (Num.pow (Num.sub (Num.ofNat 1) d) (Num.add eta (Num.ofNat 1)))) = _
  simp

theorem pmValHigh_real (rnd d eta : ℝ) :
    pmValHigh rnd d eta = 2 * (1 - rnd) + 2 * (rnd - 1 / 2) * (1 - d) ^ (eta + 1) := by
  show Num.add (Num.mul (Num.ofNat 2) (Num.sub (Num.ofNat 1) rnd))
    (Num.mul (Num.mul (Num.ofNat 2) (Num.sub rnd (Num.ofRat (1 / 2))))
      (Num.pow (Num.sub (Num.ofNat 1) d) (Num.add eta (Num.ofNat 1)))) = _
  simp

theorem pmChildLow_real (x dx val eta : ℝ) :
    pmChildLow x dx val eta = x + (val ^ (1 / (eta + 1)) - 1) * dx := by
  show Num.add x (Num.mul (Num.sub (Num.pow val (Num.div (Num.ofNat 1) (Num.add eta (Num.ofNat 1))))
    (Num.ofNat 1)) dx) = _
  simp

theorem pmChildHigh_real (x dx val eta : ℝ) :
    pmChildHigh x dx val eta = x + (1 - val ^ (1 / (eta + 1))) * dx := by
  show Num.add x (Num.mul (Num.sub (Num.ofNat 1)
    (Num.pow val (Num.div (Num.ofNat 1) (Num.add eta (Num.ofNat 1))))) dx) = _
  simp

theorem nuInner_real (it maxIt : ℝ) : nuInner it maxIt = 1 - 1 * it / maxIt := by
  show Num.sub (Num.ofNat 1) (Num.div (Num.mul (Num.ofNat 1) it) maxIt) = _
  simp

theorem nuDelta_real (y r it maxIt b : ℝ) :
    nuDelta y r it maxIt b = y * (1 - r ^ ((nuInner it maxIt) ^ b)) := by
  show Num.mul y (Num.sub (Num.ofNat 1) (Num.pow r (Num.pow (nuInner it maxIt) b))) = _
  simp

theorem sbxChild1_real (y1 y2 bq : ℝ) : sbxChild1 y1 y2 bq = 1 / 2 * (y1 + y2 - bq * (y2 - y1)) := by
  show Num.mul (Num.ofRat (1 / 2)) (Num.sub (Num.add y1 y2) (Num.mul bq (Num.sub y2 y1))) = _
  simp
theorem sbxChild2_real (y1 y2 bq : ℝ) : sbxChild2 y1 y2 bq = 1 / 2 * (y1 + y2 + bq * (y2 - y1)) := by
  show Num.mul (Num.ofRat (1 / 2)) (Num.add (Num.add y1 y2) (Num.mul bq (Num.sub y2 y1))) = _
  simp

/-- the spread factor chosen by the code (`rand <= 1/alpha` decides the branch) -/
noncomputable def sbxBetaqR (gap dy eta rand : ℝ) : ℝ :=
  if rand ≤ 1 / sbxAlpha (sbxBeta gap dy) eta then sbxBetaqLow rand (sbxAlpha (sbxBeta gap dy) eta) eta
  else sbxBetaqHigh rand (sbxAlpha (sbxBeta gap dy) eta) eta

theorem betaq_bounds (gap dy eta rand : ℝ) (hg : 0 ≤ gap) (hd : 0 < dy) (he : 0 ≤ eta)
    (hr0 : 0 ≤ rand) (hr1 : rand < 1) :
    0 ≤ sbxBetaqR gap dy eta rand ∧ sbxBetaqR gap dy eta rand ≤ sbxBeta gap dy := by
  have hee : 0 < eta + 1 := by linarith
  have hie : 0 ≤ 1 / (eta + 1) := le_of_lt (one_div_pos.mpr hee)
  have hb : 1 ≤ sbxBeta gap dy := by
    rw [sbxBeta_real]
    have : 0 ≤ 2 * gap / dy := div_nonneg (by linarith) (le_of_lt hd)
    linarith
  have hb0 : 0 ≤ sbxBeta gap dy := by linarith
  have hbpos : 0 < sbxBeta gap dy := by linarith
  have hp0 : 0 < (sbxBeta gap dy) ^ (-(eta + 1)) := Real.rpow_pos_of_pos hbpos _
  have hp1 : (sbxBeta gap dy) ^ (-(eta + 1)) ≤ 1 :=
    Real.rpow_le_one_of_one_le_of_nonpos hb (by linarith)
  have ha : sbxAlpha (sbxBeta gap dy) eta = 2 - (sbxBeta gap dy) ^ (-(eta + 1)) := sbxAlpha_real _ _
  have ha1 : 1 ≤ sbxAlpha (sbxBeta gap dy) eta := by rw [ha]; linarith
  have hapos : 0 < sbxAlpha (sbxBeta gap dy) eta := by linarith
  unfold sbxBetaqR
  split
  · rename_i hbr
    rw [sbxBetaqLow_real]
    have hra0 : 0 ≤ rand * sbxAlpha (sbxBeta gap dy) eta := mul_nonneg hr0 (le_of_lt hapos)
    have hra1 : rand * sbxAlpha (sbxBeta gap dy) eta ≤ 1 := by
      rw [le_div_iff₀ hapos] at hbr
      exact hbr
    exact ⟨Real.rpow_nonneg hra0 _, le_trans (Real.rpow_le_one hra0 hra1 hie) hb⟩
  · rw [sbxBetaqHigh_real]
    have hlt : rand * sbxAlpha (sbxBeta gap dy) eta < sbxAlpha (sbxBeta gap dy) eta := by
      have := mul_lt_mul_of_pos_right hr1 hapos
      linarith
    have hden : (sbxBeta gap dy) ^ (-(eta + 1)) < 2 - rand * sbxAlpha (sbxBeta gap dy) eta := by
      rw [ha] at hlt ⊢
      linarith
    have hdpos : 0 < 2 - rand * sbxAlpha (sbxBeta gap dy) eta := lt_trans hp0 hden
    have hbase0 : 0 ≤ 1 / (2 - rand * sbxAlpha (sbxBeta gap dy) eta) := le_of_lt (one_div_pos.mpr hdpos)
    have hbase : 1 / (2 - rand * sbxAlpha (sbxBeta gap dy) eta) ≤ (sbxBeta gap dy) ^ (eta + 1) := by
      have h1 : 1 / (2 - rand * sbxAlpha (sbxBeta gap dy) eta) ≤ 1 / (sbxBeta gap dy) ^ (-(eta + 1)) :=
        one_div_le_one_div_of_le hp0 (le_of_lt hden)
      rw [Real.rpow_neg hb0, one_div, one_div, inv_inv] at h1
      rw [one_div]
      exact h1
    refine ⟨Real.rpow_nonneg hbase0 _, ?_⟩
    have h := Real.rpow_le_rpow hbase0 hbase hie
    rw [← Real.rpow_mul hb0, mul_one_div_cancel (ne_of_gt hee), Real.rpow_one] at h
    exact h


/-- core inequality: for `t = (1-d)^e ≤ val ≤ 1` the root `val^(1/e)` lies in `[1-d, 1]` -/
theorem root_bounds (d e val : ℝ) (hd1 : d ≤ 1) (he : 0 < e)
    (hv0 : (1 - d) ^ e ≤ val) (hv1 : val ≤ 1) :
    1 - d ≤ val ^ (1 / e) ∧ val ^ (1 / e) ≤ 1 := by
  have hb : 0 ≤ 1 - d := by linarith
  have ht0 : 0 ≤ (1 - d) ^ e := Real.rpow_nonneg hb _
  have hie : 0 ≤ 1 / e := le_of_lt (one_div_pos.mpr he)
  constructor
  · have h := Real.rpow_le_rpow ht0 hv0 hie
    rw [← Real.rpow_mul hb, mul_one_div_cancel (ne_of_gt he), Real.rpow_one] at h
    exact h
  · exact Real.rpow_le_one (le_trans ht0 hv0) hv1 hie


end Artap.Variation
