import ArtapModel.Proofs.Results
import Mathlib.Analysis.Real.Sqrt
/-! # Generational distance over the reals (helper file for `Props/C17.lean`) -/
namespace Artap.Results

/-- `np.sum(minimums) / len(computed)` where `minimums[k] = sqrt(sq[k])`: what `gd` returns, as a real
number, given the exact minimal squared distances `sq = gdSq reference computed`. -/
noncomputable def gdReal (sq : List Rat) : ℝ :=
  (sq.map (fun (s : Rat) => Real.sqrt (s : ℝ))).sum / (sq.length : ℝ)

theorem sum_sqrt_nonneg (sq : List Rat) : 0 ≤ (sq.map (fun (s : Rat) => Real.sqrt (s : ℝ))).sum := by
  induction sq with
  | nil => simp
  | cons s sq ih =>
    simp only [List.map_cons, List.sum_cons]
    have := Real.sqrt_nonneg (s : ℝ)
    linarith

theorem sum_sqrt_eq_zero_iff {α} (P : α → Prop) (comp : List α) (sq : List Rat)
    (h : List.Forall₂ (fun c s => 0 ≤ s ∧ (s = 0 ↔ P c)) comp sq) :
    (sq.map (fun (s : Rat) => Real.sqrt (s : ℝ))).sum = 0 ↔ ∀ c ∈ comp, P c := by
  induction h with
  | nil => simp
  | @cons c s comp sq hcs _ ih =>
    simp only [List.map_cons, List.sum_cons, List.mem_cons, forall_eq_or_imp]
    have h1 := Real.sqrt_nonneg (s : ℝ)
    have h2 := sum_sqrt_nonneg sq
    have hs : (0 : ℝ) ≤ (s : ℝ) := by exact_mod_cast hcs.1
    rw [add_eq_zero_iff_of_nonneg h1 h2, ih, Real.sqrt_eq_zero hs]
    have : ((s : ℝ) = 0) ↔ s = 0 := by exact_mod_cast Iff.rfl
    rw [this, hcs.2]

theorem gdSq_forall₂ (ref comp : List Pt) (sq : List Rat) (h : gdSq ref comp = some sq) :
    comp ≠ [] ∧ List.Forall₂ (fun c s => minSq c ref = some s) comp sq := by
  unfold gdSq at h
  by_cases he : comp.isEmpty = true
  · rw [if_pos he] at h; cases h
  · rw [if_neg he] at h
    exact ⟨by simpa using he, (collect_spec _ _ _).1 h⟩

theorem ref_ne_nil_of_gdSq (ref comp : List Pt) (sq : List Rat) (h : gdSq ref comp = some sq) :
    ref ≠ [] := by
  obtain ⟨hne, hf⟩ := gdSq_forall₂ ref comp sq h
  intro e
  subst e
  cases hf with
  | nil => exact hne rfl
  | @cons c s _ _ h' _ =>
    have : minSq c [] = none := rfl
    rw [this] at h'; cases h'

end Artap.Results
