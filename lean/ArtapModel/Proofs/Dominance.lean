import ArtapModel.Model.Dominance
import Mathlib.Order.Defs.LinearOrder
import Mathlib.Order.Basic
/-!
# Lemmas about the dominance scan (helper file; property theorems are in `Props/C01.lean`)
-/
namespace Artap

variable {α : Type} [LinearOrder α]

/-- Textbook weak dominance `p ≤ q` coordinatewise (equal length required). -/
def LeqAll : List α → List α → Prop
  | [], [] => True
  | a :: p, b :: q => a ≤ b ∧ LeqAll p q
  | _, _ => False

/-- Some coordinate of `p` is strictly smaller than the corresponding one of `q`. -/
def SomeLt : List α → List α → Prop
  | a :: p, b :: q => a < b ∨ SomeLt p q
  | _, _ => False

/-- Textbook Pareto dominance (minimisation of signed costs). -/
def Dominates (p q : List α) : Prop := LeqAll p q ∧ SomeLt p q

/-- Boolean form of `SomeLt` (what the scan's flags compute). -/
def someLtB : List α → List α → Bool
  | a :: p, b :: q => decide (a < b) || someLtB p q
  | _, _ => false

theorem someLtB_iff (p q : List α) : someLtB p q = true ↔ SomeLt p q := by
  induction p generalizing q with
  | nil => simp [someLtB, SomeLt]
  | cons a p ih => cases q <;> simp [someLtB, SomeLt, ih]

def verdict (a b : Bool) : Nat := if a == b then 0 else if a then 1 else 2

theorem scan_eq (p q : List α) (dp dq : Bool) :
    scan p q dp dq = verdict (dp || someLtB p q) (dq || someLtB q p) := by
  induction p generalizing q dp dq with
  | nil => cases q <;> cases dp <;> cases dq <;> simp [scan, verdict, someLtB]
  | cons a p ih =>
    cases q with
    | nil => cases dp <;> cases dq <;> simp [scan, verdict, someLtB]
    | cons b q =>
      simp only [scan, someLtB]
      rcases lt_trichotomy a b with h | h | h
      · have h2 : ¬ b < a := not_lt.mpr h.le
        simp only [h, h2, if_true, if_false]
        cases dq <;> cases dp <;> simp [ih, verdict]
      · subst h
        simp [ih]
      · have h2 : ¬ a < b := not_lt.mpr h.le
        simp only [h, h2, if_true, if_false]
        cases dp <;> cases dq <;> simp [ih, verdict]

theorem leqAll_iff_not_someLt {p q : List α} (hl : p.length = q.length) :
    LeqAll p q ↔ ¬ SomeLt q p := by
  induction p generalizing q with
  | nil => cases q <;> simp_all [LeqAll, SomeLt]
  | cons a p ih =>
    cases q with
    | nil => simp at hl
    | cons b q =>
      simp only [List.length_cons, Nat.add_right_cancel_iff] at hl
      simp [LeqAll, SomeLt, ih hl, not_or]

theorem leqAll_length {p q : List α} (h : LeqAll p q) : p.length = q.length := by
  induction p generalizing q with
  | nil => cases q <;> simp_all [LeqAll]
  | cons a p ih =>
    cases q with
    | nil => simp [LeqAll] at h
    | cons b q => simp [ih h.2]

theorem leqAll_refl (p : List α) : LeqAll p p := by
  induction p with
  | nil => trivial
  | cons a p ih => exact ⟨le_refl a, ih⟩

theorem not_someLt_self (p : List α) : ¬ SomeLt p p := by
  induction p with
  | nil => simp [SomeLt]
  | cons a p ih => simp [SomeLt, ih]

theorem leqAll_trans {p q r : List α} (h1 : LeqAll p q) (h2 : LeqAll q r) : LeqAll p r := by
  induction p generalizing q r with
  | nil => cases q <;> cases r <;> simp_all [LeqAll]
  | cons a p ih =>
    cases q with
    | nil => simp [LeqAll] at h1
    | cons b q =>
      cases r with
      | nil => simp [LeqAll] at h2
      | cons c r => exact ⟨le_trans h1.1 h2.1, ih h1.2 h2.2⟩

theorem someLt_of_someLt_leqAll {p q r : List α} (h1 : SomeLt p q) (h2 : LeqAll q r) :
    SomeLt p r := by
  induction p generalizing q r with
  | nil => simp [SomeLt] at h1
  | cons a p ih =>
    cases q with
    | nil => simp [SomeLt] at h1
    | cons b q =>
      cases r with
      | nil => simp [LeqAll] at h2
      | cons c r =>
        rcases h1 with h | h
        · exact Or.inl (lt_of_lt_of_le h h2.1)
        · exact Or.inr (ih h h2.2)

theorem someLt_of_leqAll_someLt {p q r : List α} (h1 : LeqAll p q) (h2 : SomeLt q r) :
    SomeLt p r := by
  induction p generalizing q r with
  | nil => cases q <;> simp_all [LeqAll, SomeLt]
  | cons a p ih =>
    cases q with
    | nil => simp [LeqAll] at h1
    | cons b q =>
      cases r with
      | nil => simp [SomeLt] at h2
      | cons c r =>
        rcases h2 with h | h
        · exact Or.inl (lt_of_le_of_lt h1.1 h)
        · exact Or.inr (ih h1.2 h)

theorem dominates_trans {p q r : List α} (h1 : Dominates p q) (h2 : Dominates q r) :
    Dominates p r :=
  ⟨leqAll_trans h1.1 h2.1, someLt_of_someLt_leqAll h1.2 h2.1⟩

theorem dominates_irrefl (p : List α) : ¬ Dominates p p := fun h => not_someLt_self p h.2

theorem dominates_asymm {p q : List α} (h : Dominates p q) : ¬ Dominates q p := fun h2 =>
  dominates_irrefl p (dominates_trans h h2)

theorem dominates_iff {p q : List α} (hl : p.length = q.length) :
    Dominates p q ↔ SomeLt p q ∧ ¬ SomeLt q p := by
  unfold Dominates; rw [leqAll_iff_not_someLt hl]; exact and_comm

theorem leqAll_iff_index {p q : List α} (hl : p.length = q.length) :
    LeqAll p q ↔ ∀ i (hp : i < p.length) (hq : i < q.length), p[i] ≤ q[i] := by
  induction p generalizing q with
  | nil => cases q <;> simp_all [LeqAll]
  | cons a p ih =>
    cases q with
    | nil => simp at hl
    | cons b q =>
      simp only [List.length_cons, Nat.add_right_cancel_iff] at hl
      simp only [LeqAll, ih hl]
      constructor
      · rintro ⟨h0, h⟩ i hp hq
        cases i with
        | zero => exact h0
        | succ i => simpa using h i (by simpa using hp) (by simpa using hq)
      · intro h
        refine ⟨h 0 (by simp) (by simp), fun i hp hq => ?_⟩
        have := h (i + 1) (by simpa using hp) (by simpa using hq)
        simpa using this

theorem someLt_iff_index {p q : List α} :
    SomeLt p q ↔ ∃ i, ∃ (hp : i < p.length) (hq : i < q.length), p[i] < q[i] := by
  induction p generalizing q with
  | nil => simp [SomeLt]
  | cons a p ih =>
    cases q with
    | nil => simp [SomeLt]
    | cons b q =>
      simp only [SomeLt, ih]
      constructor
      · rintro (h | ⟨i, hp, hq, h⟩)
        · exact ⟨0, by simp, by simp, h⟩
        · exact ⟨i + 1, by simpa using hp, by simpa using hq, by simpa using h⟩
      · rintro ⟨i, hp, hq, h⟩
        cases i with
        | zero => exact Or.inl h
        | succ i => exact Or.inr ⟨i, by simpa using hp, by simpa using hq, by simpa using h⟩

/-- Index form of the textbook definition, for readers: same thing as `Dominates`. -/
theorem dominates_index {p q : List α} (hl : p.length = q.length) :
    Dominates p q ↔ (∀ i (hp : i < p.length) (hq : i < q.length), p[i] ≤ q[i]) ∧
      ∃ i, ∃ (hp : i < p.length) (hq : i < q.length), p[i] < q[i] := by
  unfold Dominates; rw [leqAll_iff_index hl, someLt_iff_index]

end Artap
