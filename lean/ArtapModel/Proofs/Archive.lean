import ArtapModel.Model.Archive
import ArtapModel.Props.C01
/-!
# Lemmas about the archive model (helper file; property theorems are in `Props/C04.lean`)
-/
namespace Artap.Archive

variable {α : Type}

/-- What the loop body does with one member. -/
inductive Step | evict | reject | keep | raise
  deriving DecidableEq

def step (cmp : α → α → Option Nat) (same : α → α → Bool) (x c : α) : Step :=
  match cmp x c with
  | none => .raise
  | some f =>
    if f == 1 then .evict else if f == 2 then .reject
    else if f == 0 && same x c then .reject else .keep

/-- The clean scan the index arithmetic implements: delete the members the newcomer
dominates until a member dominates or equals it.  Result: surviving members (the unscanned
tail included) and "rejected". -/
def cleanScan (cmp : α → α → Option Nat) (same : α → α → Bool) (x : α) :
    List α → Option (List α × Bool)
  | [] => some ([], false)
  | c :: rest =>
    match step cmp same x c with
    | .raise => none
    | .evict => cleanScan cmp same x rest
    | .reject => some (c :: rest, true)
    | .keep => (cleanScan cmp same x rest).map (fun r => (c :: r.1, r.2))

theorem addLoop_eq (cmp : α → α → Option Nat) (same : α → α → Bool) (x : α)
    (rest kept : List α) (i d : Nat) (hd : d ≤ i) (hk : kept.length = i - d) :
    (addLoop cmp same x rest i (kept ++ rest) d).map (fun r => (r.1, r.2.1 || r.2.2)) =
      (cleanScan cmp same x rest).map (fun r => (kept ++ r.1, r.2)) := by
  induction rest generalizing kept i d with
  | nil => simp [addLoop, cleanScan]
  | cons c rest ih =>
    unfold addLoop cleanScan step
    cases hc : cmp x c with
    | none => simp
    | some f =>
      simp only
      by_cases h1 : (f == 1) = true
      · have hlt : i - d < (kept ++ c :: rest).length := by
          simp only [List.length_append, List.length_cons]; omega
        have he : (kept ++ c :: rest).eraseIdx (i - d) = kept ++ rest := by
          rw [← hk, List.eraseIdx_append_of_length_le (Nat.le_refl _)]
          simp
        simp only [h1, if_true, hd, hlt, and_self, he]
        exact ih kept (i + 1) (d + 1) (by omega) (by omega)
      · simp only [h1, Bool.false_eq_true, if_false]
        by_cases h2 : (f == 2) = true
        · simp [h2]
        · simp only [h2, Bool.false_eq_true, if_false]
          have hstep : kept ++ c :: rest = (kept ++ [c]) ++ rest := by simp
          by_cases h0 : (f == 0) = true
          · by_cases hs : same x c = true
            · simp [h0, hs]
            · simp only [h0, hs, if_true, Bool.false_eq_true, if_false, Bool.and_false]
              rw [hstep, ih (kept ++ [c]) (i + 1) d (by omega) (by simp; omega)]
              cases cleanScan cmp same x rest <;> simp
          · simp only [h0, Bool.false_eq_true, if_false, Bool.false_and]
            rw [hstep, ih (kept ++ [c]) (i + 1) d (by omega) (by simp; omega)]
            cases cleanScan cmp same x rest <;> simp


/-- `add` is the clean scan followed by "append unless rejected" (the empty-archive shortcut
of the code is the same thing). -/
theorem add_eq_clean (cmp : α → α → Option Nat) (same : α → α → Bool) (contents : List α) (x : α) :
    add cmp same contents x =
      (cleanScan cmp same x contents).map (fun r => if r.2 then (r.1, false) else (r.1 ++ [x], true)) := by
  unfold add
  cases contents with
  | nil => simp [cleanScan]
  | cons c rest =>
    have h := addLoop_eq cmp same x (c :: rest) [] 0 0 (Nat.le_refl _) rfl
    simp only [List.nil_append] at h
    simp only [List.isEmpty_cons, Bool.false_eq_true, if_false]
    cases hl : addLoop cmp same x (c :: rest) 0 (c :: rest) 0 with
    | none =>
      rw [hl] at h
      cases hs : cleanScan cmp same x (c :: rest) with
      | none => simp
      | some r => rw [hs] at h; simp at h
    | some r =>
      rw [hl] at h
      cases hs : cleanScan cmp same x (c :: rest) with
      | none => rw [hs] at h; simp at h
      | some r' =>
        rw [hs] at h
        simp only [Option.map_some, Option.some.injEq, Prod.mk.injEq] at h
        obtain ⟨r1, rd, rc⟩ := r
        obtain ⟨k, b⟩ := r'
        simp only at h
        obtain ⟨h1, h2⟩ := h
        subst h1
        subst h2
        cases rd <;> cases rc <;> simp

/-! ## Comparators that decide a strict partial order -/

/-- Explicit hypotheses on a comparator, relative to the valid elements `V` (for the
instances: cost vectors of one common length): `cmp` never raises, answers `1` exactly on
`Dom`, answers `2` when dominated and only when dominated or equal, answers `0` or `2` on
equal signed costs; `Dom` is a strict partial order compatible with the equivalence `same`. -/
structure CmpSpec (V : α → Prop) (cmp : α → α → Option Nat) (same : α → α → Bool)
    (Dom : α → α → Prop) : Prop where
  total : ∀ a b, V a → V b → ∃ v, cmp a b = some v
  one_iff : ∀ a b, V a → V b → (cmp a b = some 1 ↔ Dom a b)
  two_of_dom : ∀ a b, V a → V b → Dom b a → cmp a b = some 2
  two_imp : ∀ a b, V a → V b → cmp a b = some 2 → Dom b a ∨ same a b = true
  same_flag : ∀ a b, V a → V b → same a b = true → cmp a b = some 0 ∨ cmp a b = some 2
  dom_irrefl : ∀ a b, V a → V b → same a b = true → ¬ Dom a b
  dom_trans : ∀ a b c, V a → V b → V c → Dom a b → Dom b c → Dom a c
  same_refl : ∀ a, V a → same a a = true
  same_symm : ∀ a b, V a → V b → same a b = true → same b a = true
  dom_same_left : ∀ a b c, V a → V b → V c → same a b = true → Dom a c → Dom b c
  dom_same_right : ∀ a b c, V a → V b → V c → same a b = true → Dom c a → Dom c b

variable {V : α → Prop} {cmp : α → α → Option Nat} {same : α → α → Bool} {Dom : α → α → Prop}

theorem CmpSpec.dom_asymm (S : CmpSpec V cmp same Dom) {a b : α} (ha : V a) (hb : V b)
    (h : Dom a b) : ¬ Dom b a := fun h2 =>
  S.dom_irrefl a a ha ha (S.same_refl a ha) (S.dom_trans a b a ha hb ha h h2)

/-- the newcomer is evicting `c` exactly when it dominates it -/
theorem CmpSpec.step_evict (S : CmpSpec V cmp same Dom) {x c : α} (hx : V x) (hc : V c) :
    step cmp same x c = .evict ↔ Dom x c := by
  rw [← S.one_iff x c hx hc]
  unfold step
  obtain ⟨v, hv⟩ := S.total x c hx hc
  rw [hv]
  by_cases h1 : v = 1
  · subst h1; simp
  · have : (v == 1) = false := by simpa using h1
    simp only [this, Bool.false_eq_true, if_false, Option.some.injEq, h1, iff_false]
    split <;> (try split) <;> simp

/-- `c` stops the scan exactly when it dominates or equals the newcomer -/
theorem CmpSpec.step_reject (S : CmpSpec V cmp same Dom) {x c : α} (hx : V x) (hc : V c) :
    step cmp same x c = .reject ↔ (Dom c x ∨ same x c = true) := by
  unfold step
  obtain ⟨v, hv⟩ := S.total x c hx hc
  rw [hv]
  constructor
  · intro h
    by_cases h1 : v = 1
    · subst h1; simp at h
    · have h1' : (v == 1) = false := by simpa using h1
      simp only [h1', Bool.false_eq_true, if_false] at h
      by_cases h2 : v = 2
      · subst h2; exact S.two_imp x c hx hc hv
      · have h2' : (v == 2) = false := by simpa using h2
        simp only [h2', Bool.false_eq_true, if_false] at h
        by_cases h0 : ((v == 0) && same x c) = true
        · simp only [Bool.and_eq_true] at h0
          exact Or.inr h0.2
        · simp [h0] at h
  · intro h
    have hne : v ≠ 1 := by
      intro h1
      subst h1
      have hd : Dom x c := (S.one_iff x c hx hc).1 hv
      rcases h with h | h
      · exact S.dom_asymm hx hc hd h
      · exact S.dom_irrefl x c hx hc h hd
    have h1' : (v == 1) = false := by simpa using hne
    simp only [h1', Bool.false_eq_true, if_false]
    rcases h with h | h
    · have := S.two_of_dom x c hx hc h
      rw [hv] at this
      simp only [Option.some.injEq] at this
      subst this
      simp
    · rcases S.same_flag x c hx hc h with h0 | h2
      · rw [hv] at h0
        simp only [Option.some.injEq] at h0
        subst h0
        simp [h]
      · rw [hv] at h2
        simp only [Option.some.injEq] at h2
        subst h2
        simp

theorem CmpSpec.step_ne_raise (S : CmpSpec V cmp same Dom) {x c : α} (hx : V x) (hc : V c) :
    step cmp same x c ≠ .raise := by
  unfold step
  obtain ⟨v, hv⟩ := S.total x c hx hc
  rw [hv]
  simp only
  split <;> (try split) <;> (try split) <;> simp

/-- Members are valid, pairwise non-dominated and have pairwise different signed costs. -/
def Antichain (V : α → Prop) (same : α → α → Bool) (Dom : α → α → Prop) (l : List α) : Prop :=
  (∀ a ∈ l, V a) ∧
    l.Pairwise (fun a b => ¬ Dom a b ∧ ¬ Dom b a ∧ same a b = false ∧ same b a = false)

/-- some member dominates or equals `x` -/
def Rejects (same : α → α → Bool) (Dom : α → α → Prop) (l : List α) (x : α) : Prop :=
  ∃ m ∈ l, Dom m x ∨ same x m = true

/-- the members `x` does not dominate -/
def survivors (cmp : α → α → Option Nat) (x : α) (l : List α) : List α :=
  l.filter (fun c => cmp x c != some 1)

/-- Rejection leaves the contents untouched: under the antichain invariant an eviction is
never followed by a rejection. -/
theorem cleanScan_reject (S : CmpSpec V cmp same Dom) {l : List α} {x : α} (hx : V x)
    (hA : Antichain V same Dom l) (hR : Rejects same Dom l x) :
    cleanScan cmp same x l = some (l, true) := by
  induction l with
  | nil => obtain ⟨m, hm, _⟩ := hR; simp at hm
  | cons c rest ih =>
    have hc : V c := hA.1 c (by simp)
    have hArest : Antichain V same Dom rest :=
      ⟨fun a ha => hA.1 a (by simp [ha]), (List.pairwise_cons.1 hA.2).2⟩
    unfold cleanScan
    by_cases hrej : step cmp same x c = .reject
    · simp [hrej]
    · obtain ⟨m, hm, hmx⟩ := hR
      have hm' : m ∈ rest := by
        rcases List.mem_cons.1 hm with h | h
        · subst h; exact absurd ((S.step_reject hx hc).2 hmx) hrej
        · exact h
      have hmV : V m := hArest.1 m hm'
      have hcm := (List.pairwise_cons.1 hA.2).1 m hm'
      have hnev : step cmp same x c ≠ .evict := by
        intro he
        have hd : Dom x c := (S.step_evict hx hc).1 he
        rcases hmx with h | h
        · exact hcm.2.1 (S.dom_trans m x c hmV hx hc h hd)
        · exact hcm.2.1 (S.dom_same_left x m c hx hmV hc h hd)
      have hnr := S.step_ne_raise (x := x) (c := c) hx hc
      have hk : step cmp same x c = .keep := by
        cases hs : step cmp same x c <;> simp_all
      rw [hk, ih hArest ⟨m, hm', hmx⟩]
      simp

/-- Without a rejecting member the scan deletes exactly the dominated members. -/
theorem cleanScan_accept (S : CmpSpec V cmp same Dom) {l : List α} {x : α} (hx : V x)
    (hV : ∀ a ∈ l, V a) (hR : ¬ Rejects same Dom l x) :
    cleanScan cmp same x l = some (survivors cmp x l, false) := by
  induction l with
  | nil => simp [cleanScan, survivors]
  | cons c rest ih =>
    have hc : V c := hV c (by simp)
    have hVr : ∀ a ∈ rest, V a := fun a ha => hV a (by simp [ha])
    have hRr : ¬ Rejects same Dom rest x := fun ⟨m, hm, h⟩ => hR ⟨m, by simp [hm], h⟩
    have hnrej : step cmp same x c ≠ .reject := fun h =>
      hR ⟨c, by simp, (S.step_reject hx hc).1 h⟩
    have hnr := S.step_ne_raise (x := x) (c := c) hx hc
    unfold cleanScan survivors
    by_cases he : step cmp same x c = .evict
    · have h1 : cmp x c = some 1 := (S.one_iff x c hx hc).2 ((S.step_evict hx hc).1 he)
      rw [he]
      simp only [List.filter_cons, h1, bne_self_eq_false, Bool.false_eq_true, if_false]
      exact ih hVr hRr
    · have hk : step cmp same x c = .keep := by
        cases hs : step cmp same x c <;> simp_all
      have h1 : cmp x c ≠ some 1 := fun h =>
        he ((S.step_evict hx hc).2 ((S.one_iff x c hx hc).1 h))
      rw [hk]
      simp only [ih hVr hRr, Option.map_some, List.filter_cons]
      have : (cmp x c != some 1) = true := by simpa using h1
      simp [this, survivors]

theorem add_reject (S : CmpSpec V cmp same Dom) {l : List α} {x : α} (hx : V x)
    (hA : Antichain V same Dom l) (hR : Rejects same Dom l x) :
    add cmp same l x = some (l, false) := by
  rw [add_eq_clean, cleanScan_reject S hx hA hR]; simp

theorem add_accept (S : CmpSpec V cmp same Dom) {l : List α} {x : α} (hx : V x)
    (hV : ∀ a ∈ l, V a) (hR : ¬ Rejects same Dom l x) :
    add cmp same l x = some (survivors cmp x l ++ [x], true) := by
  rw [add_eq_clean, cleanScan_accept S hx hV hR]; simp

theorem mem_survivors (S : CmpSpec V cmp same Dom) {l : List α} {x a : α} (hx : V x)
    (hV : ∀ a ∈ l, V a) : a ∈ survivors cmp x l ↔ a ∈ l ∧ ¬ Dom x a := by
  unfold survivors
  rw [List.mem_filter]
  constructor
  · rintro ⟨ha, h⟩
    refine ⟨ha, fun hd => ?_⟩
    have := (S.one_iff x a hx (hV a ha)).2 hd
    simp [this] at h
  · rintro ⟨ha, h⟩
    refine ⟨ha, ?_⟩
    have : cmp x a ≠ some 1 := fun h1 => h ((S.one_iff x a hx (hV a ha)).1 h1)
    simpa using this

theorem antichain_sublist {l l' : List α} (h : l'.Sublist l) (hA : Antichain V same Dom l) :
    Antichain V same Dom l' :=
  ⟨fun a ha => hA.1 a (h.subset ha), hA.2.sublist h⟩

/-- `add` keeps the archive an antichain (this part needs no knowledge of the history, so it
also holds after a `truncate`). -/
theorem add_antichain (S : CmpSpec V cmp same Dom) {l l' : List α} {x : α} {b : Bool} (hx : V x)
    (hA : Antichain V same Dom l) (h : add cmp same l x = some (l', b)) :
    Antichain V same Dom l' := by
  by_cases hR : Rejects same Dom l x
  · rw [add_reject S hx hA hR] at h
    simp only [Option.some.injEq, Prod.mk.injEq] at h
    rw [← h.1]; exact hA
  · rw [add_accept S hx hA.1 hR] at h
    simp only [Option.some.injEq, Prod.mk.injEq] at h
    rw [← h.1]
    have hsub : (survivors cmp x l).Sublist l := List.filter_sublist
    have hA' := antichain_sublist hsub hA
    refine ⟨?_, ?_⟩
    · intro a ha
      rcases List.mem_append.1 ha with h1 | h1
      · exact hA'.1 a h1
      · simp only [List.mem_singleton] at h1; subst h1; exact hx
    · rw [List.pairwise_append]
      refine ⟨hA'.2, by simp, ?_⟩
      intro a ha y hy
      simp only [List.mem_singleton] at hy
      subst hy
      have ham := (mem_survivors S hx hA.1).1 ha
      have haV : V a := hA.1 a ham.1
      refine ⟨?_, ham.2, ?_, ?_⟩
      · exact fun hd => hR ⟨a, ham.1, Or.inl hd⟩
      · cases hs : same a y with
        | false => rfl
        | true => exact absurd ⟨a, ham.1, Or.inr (S.same_symm a y haV hx hs)⟩ hR
      · cases hs : same y a with
        | false => rfl
        | true => exact absurd ⟨a, ham.1, Or.inr hs⟩ hR

/-- every offered solution is dominated by or equal to a member -/
def Covers (same : α → α → Bool) (Dom : α → α → Prop) (l offered : List α) : Prop :=
  ∀ a ∈ offered, ∃ m ∈ l, Dom m a ∨ same m a = true

/-- The full invariant of A.3: members were offered, form an antichain, and cover the history. -/
def Inv (V : α → Prop) (same : α → α → Bool) (Dom : α → α → Prop) (l offered : List α) : Prop :=
  (∀ a ∈ offered, V a) ∧ (∀ a ∈ l, a ∈ offered) ∧ Antichain V same Dom l ∧ Covers same Dom l offered

theorem add_inv_aux (S : CmpSpec V cmp same Dom) {l l' offered : List α} {x : α} {b : Bool}
    (hx : V x) (hI : Inv V same Dom l offered) (h : add cmp same l x = some (l', b)) :
    Inv V same Dom l' (offered ++ [x]) := by
  obtain ⟨hO, hsub, hA, hC⟩ := hI
  have hO' : ∀ a ∈ offered ++ [x], V a := by
    intro a ha
    rcases List.mem_append.1 ha with h1 | h1
    · exact hO a h1
    · simp only [List.mem_singleton] at h1; subst h1; exact hx
  refine ⟨hO', ?_, add_antichain S hx hA h, ?_⟩
  · by_cases hR : Rejects same Dom l x
    · rw [add_reject S hx hA hR] at h
      simp only [Option.some.injEq, Prod.mk.injEq] at h
      rw [← h.1]
      intro a ha; exact List.mem_append_left _ (hsub a ha)
    · rw [add_accept S hx hA.1 hR] at h
      simp only [Option.some.injEq, Prod.mk.injEq] at h
      rw [← h.1]
      intro a ha
      rcases List.mem_append.1 ha with h1 | h1
      · exact List.mem_append_left _ (hsub a ((mem_survivors S hx hA.1).1 h1).1)
      · exact List.mem_append_right _ h1
  · by_cases hR : Rejects same Dom l x
    · have hR' := hR
      rw [add_reject S hx hA hR] at h
      simp only [Option.some.injEq, Prod.mk.injEq] at h
      rw [← h.1]
      intro a ha
      rcases List.mem_append.1 ha with h1 | h1
      · exact hC a h1
      · simp only [List.mem_singleton] at h1; subst h1
        obtain ⟨m, hm, hmx⟩ := hR'
        refine ⟨m, hm, ?_⟩
        rcases hmx with h2 | h2
        · exact Or.inl h2
        · exact Or.inr (S.same_symm a m hx (hA.1 m hm) h2)
    · rw [add_accept S hx hA.1 hR] at h
      simp only [Option.some.injEq, Prod.mk.injEq] at h
      rw [← h.1]
      intro a ha
      rcases List.mem_append.1 ha with h1 | h1
      · obtain ⟨m, hm, hma⟩ := hC a h1
        have hmV := hA.1 m hm
        have haV := hO a h1
        by_cases hd : Dom x m
        · refine ⟨x, by simp, Or.inl ?_⟩
          rcases hma with h2 | h2
          · exact S.dom_trans x m a hx hmV haV hd h2
          · exact S.dom_same_right m a x hmV haV hx h2 hd
        · exact ⟨m, List.mem_append_left _ ((mem_survivors S hx hA.1).2 ⟨hm, hd⟩), hma⟩
      · simp only [List.mem_singleton] at h1; subst h1
        exact ⟨a, by simp, Or.inr (S.same_refl a hx)⟩

theorem pairwise_mem_ne {R : α → α → Prop} (hsym : ∀ a b, R a b → R b a) {l : List α}
    (hp : l.Pairwise R) {a b : α} (ha : a ∈ l) (hb : b ∈ l) : a = b ∨ R a b := by
  induction l with
  | nil => simp at ha
  | cons c rest ih =>
    rw [List.pairwise_cons] at hp
    rcases List.mem_cons.1 ha with h1 | h1 <;> rcases List.mem_cons.1 hb with h2 | h2
    · left; rw [h1, h2]
    · right; subst h1; exact hp.1 b h2
    · right; subst h2; exact hsym _ _ (hp.1 a h1)
    · exact ih hp.2 h1 h2

/-- From the invariant: the members are exactly the non-dominated offered solutions, one
representative per class of equal signed costs. -/
theorem inv_characterisation (S : CmpSpec V cmp same Dom) {l offered : List α}
    (hI : Inv V same Dom l offered) :
    (∀ a ∈ l, a ∈ offered ∧ ∀ b ∈ offered, ¬ Dom b a) ∧
    (∀ a ∈ offered, (∀ b ∈ offered, ¬ Dom b a) → ∃ m ∈ l, same m a = true) := by
  obtain ⟨hO, hsub, hA, hC⟩ := hI
  constructor
  · intro a ha
    refine ⟨hsub a ha, fun b hb hd => ?_⟩
    have haV := hA.1 a ha
    have hbV := hO b hb
    obtain ⟨m, hm, hmb⟩ := hC b hb
    have hmV := hA.1 m hm
    have hma : Dom m a := by
      rcases hmb with h | h
      · exact S.dom_trans m b a hmV hbV haV h hd
      · exact S.dom_same_left b m a hbV hmV haV (S.same_symm m b hmV hbV h) hd
    have hp : l.Pairwise (fun a b => ¬ Dom a b ∧ ¬ Dom b a) :=
      hA.2.imp (fun h => ⟨h.1, h.2.1⟩)
    rcases pairwise_mem_ne (fun a b h => ⟨h.2, h.1⟩) hp hm ha with h | h
    · subst h; exact S.dom_irrefl m m hmV hmV (S.same_refl m hmV) hma
    · exact h.1 hma
  · intro a ha hnd
    obtain ⟨m, hm, hma⟩ := hC a ha
    rcases hma with h | h
    · exact absurd h (hnd m (hsub m hm))
    · exact ⟨m, hm, h⟩

/-! ## Histories -/

theorem add_total (S : CmpSpec V cmp same Dom) {l : List α} {x : α} (hx : V x)
    (hA : Antichain V same Dom l) : ∃ l' b, add cmp same l x = some (l', b) := by
  by_cases hR : Rejects same Dom l x
  · exact ⟨_, _, add_reject S hx hA hR⟩
  · exact ⟨_, _, add_accept S hx hA.1 hR⟩

theorem addAll_inv_aux (S : CmpSpec V cmp same Dom) {xs l offered : List α}
    (hxs : ∀ x ∈ xs, V x) (hI : Inv V same Dom l offered) :
    ∃ l' bs, addAll cmp same l xs = some (l', bs) ∧ bs.length = xs.length ∧
      Inv V same Dom l' (offered ++ xs) := by
  induction xs generalizing l offered with
  | nil => exact ⟨l, [], rfl, rfl, by simpa using hI⟩
  | cons x xs ih =>
    have hx : V x := hxs x (by simp)
    obtain ⟨l1, b, h1⟩ := add_total S hx hI.2.2.1
    have hI1 := add_inv_aux S hx hI h1
    obtain ⟨l', bs, h2, hlen, hI2⟩ := ih (fun y hy => hxs y (by simp [hy])) hI1
    refine ⟨l', b :: bs, ?_, by simp [hlen], by simpa using hI2⟩
    simp [addAll, h1, h2]

theorem inv_nil : Inv V same Dom ([] : List α) [] :=
  ⟨by simp, by simp, ⟨by simp, List.Pairwise.nil⟩, by simp [Covers]⟩

/-- The driver's per-step trace ends in what `addAll` computes. -/
theorem trace_addAll {xs l : List α} {t : List (List α × Bool)}
    (h : trace cmp same l xs = some t) :
    addAll cmp same l xs = some ((t.getLast?.map Prod.fst).getD l, t.map Prod.snd) := by
  induction xs generalizing l t with
  | nil => simp [trace] at h; subst h; simp [addAll]
  | cons x xs ih =>
    unfold trace at h
    unfold addAll
    cases ha : add cmp same l x with
    | none => simp [ha] at h
    | some r =>
      obtain ⟨c', b⟩ := r
      simp only [ha] at h
      cases ht : trace cmp same c' xs with
      | none => simp [ht] at h
      | some t' =>
        simp only [ht, Option.map_some, Option.some.injEq] at h
        subst h
        simp only [ih ht, Option.map_some, List.map_cons, Option.some.injEq, Prod.mk.injEq, and_true]
        cases t' with
        | nil => simp
        | cons s t'' =>
          rw [List.getLast?_cons_cons]
          cases hg : (s :: t'').getLast? with
          | none => simp at hg
          | some g => simp

/-- Every prefix of a history is a history: the trace's `i`-th entry is `addAll` of the
first `i + 1` additions. -/
theorem trace_prefix {xs l : List α} {t : List (List α × Bool)}
    (h : trace cmp same l xs = some t) :
    t.length = xs.length ∧ ∀ i (hi : i < t.length), ∃ bs,
      addAll cmp same l (xs.take (i + 1)) = some (t[i].1, bs) ∧ bs.getLast? = some t[i].2 := by
  induction xs generalizing l t with
  | nil => simp [trace] at h; subst h; simp
  | cons x xs ih =>
    unfold trace at h
    cases ha : add cmp same l x with
    | none => simp [ha] at h
    | some r =>
      obtain ⟨c', b⟩ := r
      simp only [ha] at h
      cases ht : trace cmp same c' xs with
      | none => simp [ht] at h
      | some t' =>
        simp only [ht, Option.map_some, Option.some.injEq] at h
        subst h
        obtain ⟨hlen, hpre⟩ := ih ht
        refine ⟨by simp [hlen], ?_⟩
        intro i hi
        cases i with
        | zero => exact ⟨[b], by simp [addAll, ha], by simp⟩
        | succ i =>
          have hi' : i < t'.length := by simpa using hi
          obtain ⟨bs, h1, h2⟩ := hpre i hi'
          refine ⟨b :: bs, ?_, ?_⟩
          · simp [addAll, ha, h1]
          · cases bs with
            | nil => simp at h2
            | cons b' bs' => simpa [List.getLast?_cons_cons] using h2

/-! ## Truncation -/

/-- what `truncate` drops -/
def truncateRest (feat : α → Int) (contents : List α) (size : Nat) (larger : Bool) : List α :=
  let sorted := contents.mergeSort (fun a b => decide (feat a ≤ feat b))
  (if larger then sorted.reverse else sorted).drop size

theorem truncate_perm (feat : α → Int) (l : List α) (size : Nat) (larger : Bool) :
    (truncate feat l size larger ++ truncateRest feat l size larger).Perm l := by
  unfold truncate truncateRest
  simp only [List.take_append_drop]
  cases larger
  · simpa using List.mergeSort_perm l _
  · simpa using (List.reverse_perm _).trans (List.mergeSort_perm l _)

theorem sorted_by_feat (feat : α → Int) (l : List α) :
    (l.mergeSort (fun a b => decide (feat a ≤ feat b))).Pairwise (fun a b => feat a ≤ feat b) := by
  have := List.pairwise_mergeSort (le := fun a b => decide (feat a ≤ feat b))
    (by intro a b c h1 h2; simp only [decide_eq_true_eq] at *; omega)
    (by intro a b; simp only [Bool.or_eq_true, decide_eq_true_eq]; omega) l
  exact this.imp (by intro a b h; simpa using h)

theorem truncate_split_order (feat : α → Int) (l : List α) (size : Nat) (larger : Bool) :
    ∀ a ∈ truncate feat l size larger, ∀ b ∈ truncateRest feat l size larger,
      if larger then feat b ≤ feat a else feat a ≤ feat b := by
  intro a ha b hb
  unfold truncate at ha
  unfold truncateRest at hb
  cases larger
  · simp only [Bool.false_eq_true, if_false] at ha hb ⊢
    have hs := sorted_by_feat feat l
    rw [← List.take_append_drop size (l.mergeSort _)] at hs
    exact (List.pairwise_append.1 hs).2.2 a ha b hb
  · simp only [if_true] at ha hb ⊢
    have hs : (l.mergeSort (fun a b => decide (feat a ≤ feat b))).reverse.Pairwise
        (fun a b => feat b ≤ feat a) := List.pairwise_reverse.2 (sorted_by_feat feat l)
    rw [← List.take_append_drop size (l.mergeSort _).reverse] at hs
    exact (List.pairwise_append.1 hs).2.2 a ha b hb

theorem truncate_antichain (feat : α → Int) {l : List α} (size : Nat) (larger : Bool)
    (hA : Antichain V same Dom l) : Antichain V same Dom (truncate feat l size larger) := by
  have hperm : ((if larger then (l.mergeSort (fun a b => decide (feat a ≤ feat b))).reverse
      else l.mergeSort (fun a b => decide (feat a ≤ feat b)))).Perm l := by
    cases larger
    · simpa using List.mergeSort_perm l _
    · simpa using (List.reverse_perm _).trans (List.mergeSort_perm l _)
  have hA' : Antichain V same Dom (if larger then (l.mergeSort (fun a b => decide (feat a ≤ feat b))).reverse
      else l.mergeSort (fun a b => decide (feat a ≤ feat b))) := by
    refine ⟨fun a ha => hA.1 a (hperm.subset ha), ?_⟩
    exact (List.Perm.pairwise_iff (fun h => ⟨h.2.1, h.1, h.2.2.2, h.2.2.1⟩) hperm).2 hA.2
  exact antichain_sublist (List.take_sublist _ _) hA'

/-- The characterisation in terms of a key (the signed-cost vector) that `same` and `Dom`
factor through: the keys held are exactly the non-dominated offered keys, each once. -/
theorem key_set (S : CmpSpec V cmp same Dom) {β : Type} (key : α → β) (KD : β → β → Prop)
    (hsame : ∀ a b, same a b = true ↔ key a = key b) (hdom : ∀ a b, Dom a b ↔ KD (key a) (key b))
    {l offered : List α} (hI : Inv V same Dom l offered) :
    (l.map key).Nodup ∧
    ∀ k, k ∈ l.map key ↔ (k ∈ offered.map key ∧ ∀ k' ∈ offered.map key, ¬ KD k' k) := by
  have hch := inv_characterisation S hI
  constructor
  · rw [List.Nodup, List.pairwise_map]
    refine hI.2.2.1.2.imp ?_
    intro a b h he
    have := (hsame a b).2 he
    rw [h.2.2.1] at this
    exact absurd this (by simp)
  · intro k
    constructor
    · intro hk
      obtain ⟨a, ha, rfl⟩ := List.mem_map.1 hk
      obtain ⟨hao, hnd⟩ := hch.1 a ha
      refine ⟨List.mem_map.2 ⟨a, hao, rfl⟩, ?_⟩
      intro k' hk'
      obtain ⟨b, hb, rfl⟩ := List.mem_map.1 hk'
      exact fun h => hnd b hb ((hdom b a).2 h)
    · rintro ⟨hk, hnd⟩
      obtain ⟨a, ha, rfl⟩ := List.mem_map.1 hk
      obtain ⟨m, hm, hs⟩ := hch.2 a ha (fun b hb h =>
        hnd (key b) (List.mem_map.2 ⟨b, hb, rfl⟩) ((hdom b a).1 h))
      exact List.mem_map.2 ⟨m, hm, (hsame m a).1 hs⟩

/-! ## The two comparators of the code satisfy `CmpSpec` -/

section instances
open Artap.C01

variable {κ : Type} [LinearOrder κ]

/-- Constrained Pareto dominance between archived solutions: smaller `|marker|` first, then
textbook dominance of the cost vectors. -/
def ParetoDom (a b : Ind κ) : Prop :=
  a.marker.natAbs < b.marker.natAbs ∨
    (a.marker.natAbs = b.marker.natAbs ∧ Dominates a.costs b.costs)

/-- all cost vectors of a history have the same number `m` of objectives -/
def ValidLen (m : Nat) (a : Ind κ) : Prop := a.costs.length = m

theorem sameCosts_iff (a b : Ind κ) :
    sameCosts a b = true ↔ a.costs = b.costs ∧ a.marker = b.marker := by
  simp [sameCosts]

theorem paretoDom_trans {a b c : Ind κ} (h1 : ParetoDom a b) (h2 : ParetoDom b c) :
    ParetoDom a c := by
  unfold ParetoDom at *
  rcases h1 with h1 | ⟨e1, d1⟩ <;> rcases h2 with h2 | ⟨e2, d2⟩
  · left; omega
  · left; omega
  · left; omega
  · right; exact ⟨e1.trans e2, dominates_trans d1 d2⟩

theorem paretoDom_irrefl_of_same {a b : Ind κ} (h : sameCosts a b = true) : ¬ ParetoDom a b := by
  rw [sameCosts_iff] at h
  unfold ParetoDom
  rw [h.1, h.2]
  rintro (h1 | ⟨_, h1⟩)
  · omega
  · exact dominates_irrefl _ h1

theorem paretoCmp_one_iff {m : Nat} {a b : Ind κ} (ha : ValidLen m a) (hb : ValidLen m b) :
    paretoCmp a b = some 1 ↔ ParetoDom a b := by
  unfold paretoCmp ParetoDom
  rw [Option.some.injEq]
  exact pareto_one_iff _ _ _ _ (ha.trans hb.symm)

theorem pareto_cmpSpec (m : Nat) :
    CmpSpec (ValidLen m) (paretoCmp (κ := κ)) sameCosts ParetoDom where
  total := fun a b _ _ => ⟨_, rfl⟩
  one_iff := fun a b ha hb => paretoCmp_one_iff ha hb
  two_of_dom := by
    intro a b ha hb hd
    have h1 := (paretoCmp_one_iff hb ha).2 hd
    unfold paretoCmp at *
    rw [pareto_swap b.costs a.costs b.marker a.marker]
    simp only [Option.some.injEq] at h1
    rw [h1]; rfl
  two_imp := by
    intro a b ha hb h
    left
    apply (paretoCmp_one_iff hb ha).1
    unfold paretoCmp at *
    rw [pareto_swap a.costs b.costs a.marker b.marker]
    simp only [Option.some.injEq] at h
    rw [h]; rfl
  same_flag := by
    intro a b _ _ h
    rw [sameCosts_iff] at h
    left
    unfold paretoCmp
    rw [h.1, h.2, pareto_irrefl]
  dom_irrefl := fun a b _ _ h => paretoDom_irrefl_of_same h
  dom_trans := fun a b c _ _ _ h1 h2 => paretoDom_trans h1 h2
  same_refl := fun a _ => by simp [sameCosts]
  same_symm := by
    intro a b _ _ h
    rw [sameCosts_iff] at *
    exact ⟨h.1.symm, h.2.symm⟩
  dom_same_left := by
    intro a b c _ _ _ h hd
    rw [sameCosts_iff] at h
    unfold ParetoDom at *
    rw [← h.1, ← h.2]; exact hd
  dom_same_right := by
    intro a b c _ _ _ h hd
    rw [sameCosts_iff] at h
    unfold ParetoDom at *
    rw [← h.1, ← h.2]; exact hd

/-- ε archive: common length and non-negative markers (the code stores `not feasible`). -/
def ValidEps (m : Nat) (a : Ind Rat) : Prop := a.costs.length = m ∧ 0 ≤ a.marker

/-- identical cost vectors: feasibility decides, otherwise the second argument loses -/
theorem eps_same_costs (eps p : List Rat) (mp mq : Int) (he : PosEps eps) :
    epsCompare eps p p mp mq = if mp.natAbs < mq.natAbs then some 1 else some 2 := by
  unfold epsCompare
  have hne' : eps.isEmpty = false := by simpa using he.1
  simp only [hne', Bool.false_eq_true, if_false]
  rw [markerVerdict_eq]
  by_cases h1 : mp.natAbs < mq.natAbs
  · simp [h1]
  · by_cases h2 : mq.natAbs < mp.natAbs
    · simp [h1, h2]
    · simp only [h1, h2, if_false]
      have hany : (List.zip (scaleBy eps 0 p) (scaleBy eps 0 p)).any
          (fun (a, b) => decide (a < b) || decide (b < a)) = false := by
        rw [any_zip_eq, someLtB_self]; rfl
      simp only [hany, Bool.false_eq_true, if_false]
      have hz : (List.range (min p.length p.length)).any
          (fun i => eps.getD (i % eps.length) 0 == 0) = false := by
        rw [List.any_eq_false]
        intro i _
        simpa using raw_eps_ne_zero he i
      simp only [hz, Bool.false_eq_true, if_false, lt_irrefl]

theorem epsCmp_eq_pareto {eps : List Rat} (he : PosEps eps) {m : Nat} {a b : Ind Rat}
    (ha : ValidEps m a) (hb : ValidEps m b) (hne : a.costs ≠ b.costs) :
    epsCmp eps a b = paretoCmp a b := by
  unfold epsCmp paretoCmp
  exact eps_agrees eps _ _ _ _ he (ha.1.trans hb.1.symm) hne

theorem eps_cmpSpec (eps : List Rat) (he : PosEps eps) (m : Nat) :
    CmpSpec (ValidEps m) (epsCmp eps) sameCosts ParetoDom where
  total := by
    intro a b ha hb
    by_cases hc : a.costs = b.costs
    · unfold epsCmp; rw [hc, eps_same_costs _ _ _ _ he]; split <;> exact ⟨_, rfl⟩
    · rw [epsCmp_eq_pareto he ha hb hc]; exact ⟨_, rfl⟩
  one_iff := by
    intro a b ha hb
    by_cases hc : a.costs = b.costs
    · unfold epsCmp ParetoDom
      rw [hc, eps_same_costs _ _ _ _ he]
      constructor
      · intro h
        left
        by_contra hn
        simp [hn] at h
      · rintro (h | ⟨_, h⟩)
        · simp [h]
        · exact absurd h (dominates_irrefl _)
    · rw [epsCmp_eq_pareto he ha hb hc]; exact paretoCmp_one_iff ha.1 hb.1
  two_of_dom := by
    intro a b ha hb hd
    by_cases hc : a.costs = b.costs
    · unfold epsCmp
      rw [hc, eps_same_costs _ _ _ _ he]
      unfold ParetoDom at hd
      rcases hd with h | ⟨_, h⟩
      · have : ¬ a.marker.natAbs < b.marker.natAbs := by omega
        simp [this]
      · rw [hc] at h; exact absurd h (dominates_irrefl _)
    · rw [epsCmp_eq_pareto he ha hb hc]
      exact (pareto_cmpSpec m).two_of_dom a b ha.1 hb.1 hd
  two_imp := by
    intro a b ha hb h
    by_cases hc : a.costs = b.costs
    · unfold epsCmp at h
      rw [hc, eps_same_costs _ _ _ _ he] at h
      have hn : ¬ a.marker.natAbs < b.marker.natAbs := by
        intro hlt; simp [hlt] at h
      by_cases h2 : b.marker.natAbs < a.marker.natAbs
      · left; left; exact h2
      · right
        rw [sameCosts_iff]
        refine ⟨hc, ?_⟩
        have := ha.2; have := hb.2
        omega
    · rw [epsCmp_eq_pareto he ha hb hc] at h
      exact (pareto_cmpSpec m).two_imp a b ha.1 hb.1 h
  same_flag := by
    intro a b _ _ h
    rw [sameCosts_iff] at h
    right
    unfold epsCmp
    rw [h.1, h.2, eps_dup_rejected _ _ _ he]
  dom_irrefl := fun a b _ _ h => paretoDom_irrefl_of_same h
  dom_trans := fun a b c _ _ _ h1 h2 => paretoDom_trans h1 h2
  same_refl := fun a _ => by simp [sameCosts]
  same_symm := by
    intro a b _ _ h
    rw [sameCosts_iff] at *
    exact ⟨h.1.symm, h.2.symm⟩
  dom_same_left := by
    intro a b c _ _ _ h hd
    rw [sameCosts_iff] at h
    unfold ParetoDom at *
    rw [← h.1, ← h.2]; exact hd
  dom_same_right := by
    intro a b c _ _ _ h hd
    rw [sameCosts_iff] at h
    unfold ParetoDom at *
    rw [← h.1, ← h.2]; exact hd

end instances

end Artap.Archive
