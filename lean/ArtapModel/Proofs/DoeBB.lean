import ArtapModel.Proofs.DoePB
import Mathlib.Algebra.Order.Field.Basic
import Mathlib.Algebra.Order.Field.Rat
/-!
# Box–Behnken: pair enumeration, corner rows, level sorting (helper file for `Props/C13.lean`)
-/
namespace Artap.Doe

theorem ff2n_two : ff2n 2 = [[-1, -1], [1, -1], [-1, 1], [1, 1]] := by decide

/-! ## the pair loop -/

theorem mem_pairs {n : Nat} {p : Nat × Nat} : p ∈ pairs n ↔ p.1 < p.2 ∧ p.2 < n := by
  obtain ⟨i, j⟩ := p
  simp only [pairs, List.mem_flatMap, List.mem_range, List.mem_map, List.mem_range'_1, Prod.mk.injEq]
  constructor
  · rintro ⟨a, ha, b, hb, rfl, rfl⟩
    omega
  · rintro ⟨h1, h2⟩
    exact ⟨i, by omega, j, by omega, rfl, rfl⟩

theorem nodup_pairs (n : Nat) : (pairs n).Nodup := by
  unfold pairs
  rw [List.nodup_flatMap]
  constructor
  · intro i _
    apply List.Nodup.map _ (List.nodup_range' 1)
    intro a b h
    simpa using h
  · apply List.Nodup.pairwise_of_forall_ne List.nodup_range
    intro a _ b _ hab
    simp only [Function.onFun, List.Disjoint, List.mem_map]
    rintro x ⟨c, _, rfl⟩ ⟨d, _, h⟩
    simp only [Prod.mk.injEq] at h
    exact hab h.1.symm

/-- `Σ_{i<m} (c - (i+1))`, doubled -/
theorem sum_pairs_aux (c : Nat) : ∀ m, m ≤ c →
    2 * ((List.range m).map fun i => c - (i + 1)).sum + m * m + m = 2 * m * c
  | 0, _ => by simp
  | m + 1, h => by
    have ih := sum_pairs_aux c m (by omega)
    rw [List.range_succ, List.map_append, List.sum_append]
    simp only [List.map_cons, List.map_nil, List.sum_cons, List.sum_nil, Nat.add_zero]
    obtain ⟨d, rfl⟩ : ∃ d, c = d + (m + 1) := ⟨c - (m + 1), by omega⟩
    have e : d + (m + 1) - (m + 1) = d := by omega
    rw [e]
    ring_nf at ih ⊢
    omega

theorem length_pairs (n : Nat) : 2 * (pairs n).length = n * (n - 1) := by
  unfold pairs
  rw [List.length_flatMap]
  simp only [List.length_map, List.length_range']
  cases n with
  | zero => simp
  | succ k =>
    have := sum_pairs_aux (k + 1) k (by omega)
    simp only [Nat.add_sub_cancel]
    ring_nf at this ⊢
    omega

/-! ## corner rows -/

/-- the run with `a` at factor `i`, `b` at factor `j`, mid-level (`0`) elsewhere -/
def corner (n i j : Nat) (a b : Int) : List Int := ((List.replicate n (0 : Int)).set i a).set j b

theorem ent_corner {n i j : Nat} (hi : i < n) (hj : j < n) (a b : Int) (k : Nat) :
    ent (corner n i j a b) k = if j = k then b else if i = k then a else 0 := by
  simp only [ent, corner, List.getD_eq_getElem?_getD, List.getElem?_set, List.length_set, List.length_replicate,
    List.getElem?_replicate, hi, hj, if_true]
  by_cases h1 : j = k
  · simp [h1]
  · by_cases h2 : i = k
    · simp [h1, h2]
    · simp only [h1, h2, if_false]
      split <;> rfl

theorem length_corner (n i j : Nat) (a b : Int) : (corner n i j a b).length = n := by simp [corner]

theorem ent_zeros (n k : Nat) : ent (List.replicate n (0 : Int)) k = 0 := by
  simp only [ent, List.getD_eq_getElem?_getD, List.getElem?_replicate]
  split <;> rfl

theorem corner_ne_zeros {n i j : Nat} (hi : i < n) (hj : j < n) {a b : Int} (hb : b ≠ 0) :
    corner n i j a b ≠ List.replicate n 0 := by
  intro h
  have := congrArg (fun r => ent r j) h
  simp only [ent_corner hi hj, ent_zeros, if_true] at this
  exact hb this

theorem corner_inj {n i j i' j' : Nat} {a b a' b' : Int} (hij : i < j) (hj : j < n) (hij' : i' < j') (hj' : j' < n)
    (ha : a ≠ 0) (hb : b ≠ 0) (ha' : a' ≠ 0) (_hb' : b' ≠ 0)
    (h : corner n i j a b = corner n i' j' a' b') : i = i' ∧ j = j' ∧ a = a' ∧ b = b' := by
  have e := fun k => congrArg (fun r => ent r k) h
  simp only [ent_corner (by omega : i < n) hj, ent_corner (by omega : i' < n) hj'] at e
  have ei := e i
  have ej := e j
  have ei' := e i'
  have ej' := e j'
  simp only [if_true] at ei ej ei' ej'
  have hji : ¬ j = i := by omega
  have hji' : ¬ j' = i' := by omega
  simp only [hji, hji', if_false] at ei ei'
  -- the supports {i, j} and {i', j'} coincide
  have s1 : i = i' ∨ i = j' := by
    by_contra hc
    have hc := not_or.mp hc
    have h1 : ¬ j' = i := fun c => hc.2 c.symm
    have h2 : ¬ i' = i := fun c => hc.1 c.symm
    simp only [h1, h2, if_false] at ei
    exact ha ei
  have s2 : j = i' ∨ j = j' := by
    by_contra hc
    have hc := not_or.mp hc
    have h1 : ¬ j' = j := fun c => hc.2 c.symm
    have h2 : ¬ i' = j := fun c => hc.1 c.symm
    simp only [h1, h2, if_false] at ej
    exact hb ej
  have s3 : i' = i ∨ i' = j := by
    by_contra hc
    have hc := not_or.mp hc
    have h1 : ¬ j = i' := fun c => hc.2 c.symm
    have h2 : ¬ i = i' := fun c => hc.1 c.symm
    simp only [h1, h2, if_false] at ei'
    exact ha' ei'.symm
  have hi : i = i' := by omega
  have hjj : j = j' := by omega
  subst hi hjj
  simp only [if_true, hji, if_false] at ei ej
  exact ⟨rfl, rfl, ei, ej⟩

theorem mem_bbBlock {n : Nat} {p : Nat × Nat} {row : List Int} :
    row ∈ bbBlock n p ↔ ∃ a b : Int, (a = 1 ∨ a = -1) ∧ (b = 1 ∨ b = -1) ∧ row = corner n p.1 p.2 a b := by
  simp only [bbBlock, ff2n_two, List.map_cons, List.map_nil, List.mem_cons, List.not_mem_nil, or_false, corner,
    List.getD_cons_zero, List.getD_cons_succ]
  constructor
  · rintro (h | h | h | h)
    · exact ⟨-1, -1, by simp, by simp, h⟩
    · exact ⟨1, -1, by simp, by simp, h⟩
    · exact ⟨-1, 1, by simp, by simp, h⟩
    · exact ⟨1, 1, by simp, by simp, h⟩
  · rintro ⟨a, b, ha | ha, hb | hb, h⟩ <;> subst ha hb <;> simp [h]

theorem nodup_bbBlock {n : Nat} {p : Nat × Nat} (h1 : p.1 < p.2) (h2 : p.2 < n) : (bbBlock n p).Nodup := by
  have key : ∀ a b a' b' : Int, (a, b) ≠ (a', b') → a ≠ 0 → b ≠ 0 → a' ≠ 0 → b' ≠ 0 →
      corner n p.1 p.2 a b ≠ corner n p.1 p.2 a' b' := by
    intro a b a' b' hne ha hb ha' hb' h
    obtain ⟨_, _, e1, e2⟩ := corner_inj h1 h2 h1 h2 ha hb ha' hb' h
    exact hne (by rw [e1, e2])
  simp only [bbBlock, ff2n_two, List.map_cons, List.map_nil, List.getD_cons_zero, List.getD_cons_succ]
  change [corner n p.1 p.2 (-1) (-1), corner n p.1 p.2 1 (-1), corner n p.1 p.2 (-1) 1, corner n p.1 p.2 1 1].Nodup
  simp only [List.nodup_cons, List.mem_cons, List.not_mem_nil, or_false, not_or, List.nodup_nil, and_true,
    not_false_eq_true]
  refine ⟨⟨?_, ?_, ?_⟩, ⟨?_, ?_⟩, ?_⟩ <;> apply key <;> decide

theorem length_bbBlock (n : Nat) (p : Nat × Nat) : (bbBlock n p).length = 4 := by
  simp [bbBlock, ff2n_two]

/-- all corner blocks together: duplicate-free -/
theorem nodup_blocks (n : Nat) : ((pairs n).flatMap (bbBlock n)).Nodup := by
  rw [List.nodup_flatMap]
  constructor
  · intro p hp
    obtain ⟨h1, h2⟩ := mem_pairs.mp hp
    exact nodup_bbBlock h1 h2
  · apply List.Nodup.pairwise_of_forall_ne (nodup_pairs n)
    intro p hp q hq hpq
    obtain ⟨p1, p2⟩ := mem_pairs.mp hp
    obtain ⟨q1, q2⟩ := mem_pairs.mp hq
    simp only [Function.onFun, List.Disjoint]
    intro row hr1 hr2
    obtain ⟨a, b, ha, hb, rfl⟩ := mem_bbBlock.mp hr1
    obtain ⟨a', b', ha', hb', h⟩ := mem_bbBlock.mp hr2
    have nz : ∀ x : Int, (x = 1 ∨ x = -1) → x ≠ 0 := by rintro x (rfl | rfl) <;> decide
    obtain ⟨e1, e2, _, _⟩ := corner_inj p1 p2 q1 q2 (nz a ha) (nz b hb) (nz a' ha') (nz b' hb') h
    exact hpq (Prod.ext e1 e2)

/-! ## the three levels of a factor -/

theorem bbLevels_eq (b : Rat × Rat) : bbLevels b = [min b.1 b.2, (b.1 + b.2) / 2, max b.1 b.2] := by
  obtain ⟨a, b⟩ := b
  by_cases c1 : (a + b) / 2 ≤ b <;> by_cases c2 : (a + b) / 2 ≤ a <;> by_cases c3 : b ≤ a <;>
    by_cases c4 : a ≤ b <;>
    simp only [bbLevels, pySort, insertSorted, min_def, max_def, c1, c2, c3, c4, if_true, if_false] <;>
    first
    | rfl
    | (exfalso; linarith)
    | (simp only [List.cons.injEq, and_true]; (repeat' constructor) <;> linarith)

/-- the level a coded Box–Behnken entry selects -/
def selLevel (x : Int) (b : Rat × Rat) : Rat :=
  if x = -1 then min b.1 b.2 else if x = 0 then (b.1 + b.2) / 2 else max b.1 b.2

theorem pickRow_bb : ∀ (bounds : List (Rat × Rat)) (r : List Int), r.length = bounds.length →
    (∀ x ∈ r, x = 1 ∨ x = -1 ∨ x = 0) →
    pickRow (bounds.map bbLevels) (r.map (· + 1)) = some (List.zipWith selLevel r bounds)
  | [], [], _, _ => rfl
  | [], _ :: _, h, _ => by simp at h
  | _ :: _, [], h, _ => by simp at h
  | b :: bs, x :: xs, h, hp => by
    have ih := pickRow_bb bs xs (by simpa using h) (fun y hy => hp y (by simp [hy]))
    simp only [List.map_cons, pickRow, ih, List.zipWith_cons_cons, bbLevels_eq]
    rcases hp x (by simp) with rfl | rfl | rfl <;> simp [pyGet, selLevel]

end Artap.Doe
