import ArtapModel.Proofs.Bench
import Mathlib.Tactic.Linarith
import Mathlib.Tactic.Ring
/-!
# Six-hump camel back: the global lower bound (C15, bound clause)

`f(x, y) = (4 − 2.1x² + x⁴/3)x² + xy − 4y² + 4y⁴ ≥ −1.0316 − 10⁻³` for **all** real `x`, `y`
(true minimum −1.0316284535 at (±0.0898420, ∓0.7126564)).

With `t = x²`, `s = y²`, `p = xy` the cross term is decoupled by weighted AM–GM
`p ≥ −(a·t + s/(4a))` (from `0 ≤ (2a·x + y)²`), with a rational `a` per region of `t`:

| region of `t = x²` | `a`  | square used          | y-part `4s² − (4 + 1/(4a))s ≥` | x-part `(4 − a)t − 2.1t² + t³/3 ≥` | margin  |
|--------------------|------|----------------------|--------------------------------|------------------------------------|---------|
| `0 ≤ t ≤ 1/50`     | 4    | `0 ≤ (8x + y)²`      | `−4225/4096`                   | `−21/25000`                        | 2.6e-4  |
| `1/50 ≤ t ≤ 1/5`   | 2    | `0 ≤ (4x + y)²`      | `−1089/1024`                   | `2t − 2.1t² ≥ 979/25000`           | 8.2e-3  |
| `1/5 ≤ t`          | 1/4  | `0 ≤ (x/2 + y)²`     | `−25/16`                       | `(t − 1/5)(⅓(t − 61/20)² + …) + …` | 1.3e-1  |

Each region is a lemma in the three real variables `t s p` (polynomial, closed by `nlinarith` with the
explicit squares / products as hints).
-/
namespace Artap.Bench

/-- region `x² ≤ 1/50` (contains the two global minimisers), `a = 4` -/
theorem sixHump_regionA (t s p : ℝ) (ht0 : 0 ≤ t) (ht : t ≤ 1 / 50) (hp : -(4 * t + s / 16) ≤ p) :
    -(10316 / 10000 : ℝ) - 1 / 1000 ≤ 4 * t - 21 / 10 * t ^ 2 + t ^ 3 / 3 + p - 4 * s + 4 * s ^ 2 := by
  have h3 : 0 ≤ t ^ 3 := pow_nonneg ht0 3
  have h2 : 0 ≤ t * (1 / 50 - t) := mul_nonneg ht0 (sub_nonneg.2 ht)
  nlinarith [sq_nonneg (s - 65 / 128), h3, h2]

/-- region `1/50 ≤ x² ≤ 1/5`, `a = 2` -/
theorem sixHump_regionB (t s p : ℝ) (ht0 : 1 / 50 ≤ t) (ht : t ≤ 1 / 5) (hp : -(2 * t + s / 8) ≤ p) :
    -(10316 / 10000 : ℝ) - 1 / 1000 ≤ 4 * t - 21 / 10 * t ^ 2 + t ^ 3 / 3 + p - 4 * s + 4 * s ^ 2 := by
  have h0 : 0 ≤ t := by linarith
  have h3 : 0 ≤ t ^ 3 := pow_nonneg h0 3
  have h2 : 0 ≤ (t - 1 / 50) * (1 / 5 - t) := mul_nonneg (sub_nonneg.2 ht0) (sub_nonneg.2 ht)
  nlinarith [sq_nonneg (s - 33 / 64), h3, h2]

/-- region `1/5 ≤ x²` (all other stationary points), `a = 1/4` -/
theorem sixHump_regionC (t s p : ℝ) (ht0 : 1 / 5 ≤ t) (hp : -(t / 4 + s) ≤ p) :
    -(10316 / 10000 : ℝ) - 1 / 1000 ≤ 4 * t - 21 / 10 * t ^ 2 + t ^ 3 / 3 + p - 4 * s + 4 * s ^ 2 := by
  have h2 : 0 ≤ (t - 1 / 5) * (t - 61 / 20) ^ 2 := mul_nonneg (sub_nonneg.2 ht0) (sq_nonneg _)
  nlinarith [sq_nonneg (s - 5 / 8), h2]

/-- the polynomial form, for all real `x`, `y` -/
theorem sixHump_poly_ge (x y : ℝ) :
    -(10316 / 10000 : ℝ) - 1 / 1000 ≤
      (4 - 21 / 10 * x ^ 2 + x ^ 4 / 3) * x ^ 2 + x * y - 4 * y ^ 2 + 4 * y ^ 4 := by
  have e : (4 - 21 / 10 * x ^ 2 + x ^ 4 / 3) * x ^ 2 + x * y - 4 * y ^ 2 + 4 * y ^ 4
      = 4 * x ^ 2 - 21 / 10 * (x ^ 2) ^ 2 + (x ^ 2) ^ 3 / 3 + x * y - 4 * y ^ 2 + 4 * (y ^ 2) ^ 2 := by ring
  rw [e]
  have ht0 : 0 ≤ x ^ 2 := sq_nonneg x
  have hA : -(4 * x ^ 2 + y ^ 2 / 16) ≤ x * y := by nlinarith [sq_nonneg (8 * x + y)]
  have hB : -(2 * x ^ 2 + y ^ 2 / 8) ≤ x * y := by nlinarith [sq_nonneg (4 * x + y)]
  have hC : -(x ^ 2 / 4 + y ^ 2) ≤ x * y := by nlinarith [sq_nonneg (x / 2 + y)]
  rcases le_total (x ^ 2) (1 / 50) with h1 | h1
  · exact sixHump_regionA _ _ _ ht0 h1 hA
  rcases le_total (x ^ 2) (1 / 5) with h2 | h2
  · exact sixHump_regionB _ _ _ h1 h2 hB
  · exact sixHump_regionC _ _ _ h2 hC

/-- **bound clause of SixHump**: nothing is below the documented optimum −1.0316 by more than the documented
precision 10⁻³ — for every real point, in particular every point of the box `[−3,3]×[−2,2]` -/
theorem sixHump_ge (x y : ℝ) : -(10316 / 10000 : ℝ) - 1 / 1000 ≤ sixHump x y := by
  rw [sixHump_at]; exact sixHump_poly_ge x y

end Artap.Bench
