import ArtapModel.Model.Nsga2
import ArtapModel.Props.C02
import ArtapModel.Props.C03
import ArtapModel.Proofs.Eval
/-!
# Helper lemmas for the composed NSGA-II / ε-MOEA run model (`Model/Nsga2.lean`)

Property theorems are in `Props/C09.lean`.
-/
namespace Artap.Nsga2
open Artap Artap.Eval Artap.Proto

/-! ## `allSome` -/

theorem allSome_eq_some {α} : ∀ {l : List (Option α)} {r : List α}, allSome l = some r → l = r.map some
  | [], r, h => by simp [allSome] at h; subst h; rfl
  | none :: l, r, h => by simp [allSome] at h
  | some a :: l, r, h => by
    simp only [allSome, Option.map_eq_some_iff] at h
    obtain ⟨t, ht, rfl⟩ := h
    rw [allSome_eq_some ht]; rfl

theorem allSome_length {α} {l : List (Option α)} {r : List α} (h : allSome l = some r) :
    r.length = l.length := by
  rw [allSome_eq_some h]; simp

theorem allSome_get {α} {l : List (Option α)} {r : List α} (h : allSome l = some r) (i : Nat)
    (hi : i < r.length) : l[i]? = some (some r[i]) := by
  rw [allSome_eq_some h]; simp [hi]

theorem allSome_map_range {α} {n : Nat} {f : Nat → Option α} {r : List α}
    (h : allSome ((List.range n).map f) = some r) :
    r.length = n ∧ ∀ i (hi : i < r.length), f i = some r[i] := by
  have hl := allSome_length h
  simp only [List.length_map, List.length_range] at hl
  refine ⟨hl, fun i hi => ?_⟩
  have := allSome_get h i hi
  rw [List.getElem?_map, List.getElem?_range (by omega)] at this
  simpa using this

theorem allSome_map {α β} {l : List α} {f : α → Option β} {r : List β}
    (h : allSome (l.map f) = some r) :
    r.length = l.length ∧ ∀ i (hi : i < r.length) (hl : i < l.length), f l[i] = some r[i] := by
  have hl := allSome_length h
  simp only [List.length_map] at hl
  refine ⟨hl, fun i hi hl' => ?_⟩
  have := allSome_get h i hi
  rw [List.getElem?_map, List.getElem?_eq_getElem hl'] at this
  simpa using this

/-! ## Sorting: `peelF` is `peel` -/

theorem peelF_fst : ∀ (fuel : Nat) (s : SortState) (cur : List Nat) (k : Nat) (acc : List (List Nat)),
    (peelF fuel s cur k acc).map (·.1) = peel fuel s cur k := by
  intro fuel
  induction fuel with
  | zero =>
    intro s cur k acc
    unfold peelF peel
    by_cases h : cur.isEmpty <;> simp [h]
  | succ fuel ih =>
    intro s cur k acc
    unfold peelF peel
    by_cases h : cur.isEmpty
    · simp [h]
    · simp only [h, Bool.false_eq_true, if_false]
      exact ih _ _ _ _

theorem sortFronts_fnds {pop : List (List Rat × Int)} {fronts : List (Option Nat)} {lists : List (List Nat)}
    (h : sortFronts pop = some (fronts, lists)) : fnds? pop = some fronts := by
  unfold sortFronts at h
  unfold fnds? fndsCmp
  rw [← peelF_fst _ _ _ _ []]
  cases hp : peelF (pop.length + 1) (phase1 (popCmp pop) pop.length).1 (phase1 (popCmp pop) pop.length).2 1 [] with
  | none => rw [hp] at h; simp at h
  | some r =>
    rw [hp] at h
    simp only [Option.map_some, Option.some.injEq, Prod.mk.injEq] at h
    simp [h.1]

/-! ## `signedPop`, `sortCrowd` -/

theorem signedPop_spec {ds : List Design} {pop : List (List Rat × Int)} (h : signedPop ds = some pop) :
    pop.length = ds.length ∧
    ∀ i (hi : i < pop.length) (hd : i < ds.length), ds[i].marker = some pop[i].2 ∧ ds[i].signed = pop[i].1 := by
  obtain ⟨hl, hg⟩ := allSome_map h
  refine ⟨hl, fun i hi hd => ?_⟩
  have := hg i hi hd
  cases hm : ds[i].marker with
  | none => rw [hm] at this; simp at this
  | some m =>
    rw [hm] at this
    simp only [Option.map_some, Option.some.injEq] at this
    rw [← this]; exact ⟨rfl, rfl⟩

/-- What a successful `fast_nondominated_sorting` returns: one entry per member, whose front
number is the one the sorting model `fnds` (C02) assigns. -/
theorem sortCrowd_spec {ds : List Design} {fc : List (Nat × Option Rat)} (h : sortCrowd ds = some fc) :
    ∃ pop, signedPop ds = some pop ∧ fc.length = ds.length ∧
      ∀ i (hi : i < fc.length), rankOf pop i = some fc[i].1 := by
  unfold sortCrowd at h
  cases hp : signedPop ds with
  | none => simp [hp] at h
  | some pop =>
    simp only [hp] at h
    cases hf : sortFronts pop with
    | none => simp [hf] at h
    | some fl =>
      obtain ⟨fronts, lists⟩ := fl
      simp only [hf] at h
      cases hc : crowdAll (pop.map (·.1)) lists with
      | none => simp [hc] at h
      | some cd =>
        simp only [hc] at h
        obtain ⟨hl, hget⟩ := allSome_map_range h
        refine ⟨pop, rfl, hl, fun i hi => ?_⟩
        have hi' := hget i hi
        have e := sortFronts_fnds hf
        unfold rankOf fnds; rw [e]
        cases hfi : fronts[i]?.join with
        | none => simp [hfi] at hi'
        | some f =>
          cases hcd : cd.find? (fun p => p.1 == i) with
          | none => simp [hfi, hcd] at hi'
          | some p =>
            simp only [hfi, hcd, Option.some.injEq] at hi'
            rw [← hi']

/-! ## `designId`, `mkInds`, `member?` -/

theorem designId_lt {ds : List Design} {i : Nat} (hi : i < ds.length) : designId ds ds[i].vec < ds.length := by
  unfold designId
  apply List.findIdx_lt_length_of_exists
  exact ⟨ds[i], List.getElem_mem hi, by simp⟩

theorem designId_vec {ds : List Design} {i : Nat} (hi : i < ds.length) :
    (ds[designId ds ds[i].vec]'(designId_lt hi)).vec = ds[i].vec := by
  have h := List.findIdx_getElem (p := fun d : Design => decide (d.vec = ds[i].vec)) (xs := ds) (w := designId_lt hi)
  exact of_decide_eq_true h

theorem designId_inj {ds : List Design} {i j : Nat} (hi : i < ds.length) (hj : j < ds.length) :
    designId ds ds[i].vec = designId ds ds[j].vec ↔ ds[i].vec = ds[j].vec := by
  constructor
  · intro h
    have a := designId_vec hi
    have b := designId_vec hj
    simp only [h] at a
    rw [← a, b]
  · intro h; rw [h]

theorem mkInds_length {ds : List Design} {fc : List (Nat × Option Rat)} (h : fc.length = ds.length) :
    (mkInds ds fc).length = ds.length := by
  simp [mkInds, h]

theorem mkInds_get {ds : List Design} {fc : List (Nat × Option Rat)} (h : fc.length = ds.length)
    (i : Nat) (hi : i < ds.length) :
    (mkInds ds fc)[i]'(by rw [mkInds_length h]; exact hi) =
      { design := designId ds ds[i].vec, front := (fc[i]'(by omega)).1,
        crowd := encCrowd (fc.map (·.2)) (fc[i]'(by omega)).2 } := by
  simp [mkInds]

theorem member?_some {ds : List Design} {fc : List (Nat × Option Rat)} {tag i : Nat} {m : Member}
    (h : member? ds fc tag i = some m) :
    ∃ (hd : i < ds.length) (hf : i < fc.length), m = { d := ds[i], front := fc[i].1, crowd := fc[i].2, tag := tag } := by
  unfold member? at h
  cases h1 : ds[i]? with
  | none => simp [h1] at h
  | some d =>
    cases h2 : fc[i]? with
    | none => simp [h1, h2] at h
    | some p =>
      simp only [h1, h2, Option.some.injEq] at h
      obtain ⟨hd, e1⟩ := List.getElem?_eq_some_iff.1 h1
      obtain ⟨hf, e2⟩ := List.getElem?_eq_some_iff.1 h2
      exact ⟨hd, hf, by rw [← h, e1, e2]⟩

/-- The survivors looked up from the truncation result. -/
theorem survivors_spec {ds : List Design} {fc : List (Nat × Option Rat)} {tag : Nat} {r : List Nat}
    {surv : List Member} (h : allSome (r.map (member? ds fc tag)) = some surv) :
    surv.length = r.length ∧
    ∀ k (hk : k < surv.length) (hr : k < r.length), ∃ (hd : r[k] < ds.length) (hf : r[k] < fc.length),
      surv[k] = { d := ds[r[k]], front := fc[r[k]].1, crowd := fc[r[k]].2, tag := tag } := by
  obtain ⟨hl, hg⟩ := allSome_map h
  exact ⟨hl, fun k hk hr => member?_some (hg k hk hr)⟩

/-! ## Evaluation: counting successful calls, costs as a function of the design -/

/-- The objective is a function of the vector whenever it succeeds (it may still fail at will). -/
def Pure (env : Env) (f : Vec → List Rat) : Prop := ∀ key n v c, env.obj key n v = .ok c → c = f v

/-- The marker of a design that was never marked feasible before, as a function of its vector. -/
def markerFn (env : Env) (v : Vec) : Int := markerOf (feasAfter (env.cons v) .dflt)

theorem markerOf_feasAfter (g : List Rat) (fz : Feas) (hf : fz ≠ .yes) :
    markerOf (feasAfter g fz) = markerOf (feasAfter g .dflt) := by
  unfold feasAfter
  by_cases hg : g.isEmpty
  · simp only [hg, if_true]
    cases fz <;> simp_all [markerOf, Feas.truthy]
  · simp [hg]

/-- "Costs are a function of the design": signed costs and marker of `d` are those of its vector. -/
structure Good (env : Env) (f : Vec → List Rat) (prec : Nat) (d : Design) : Prop where
  signed : d.signed = signedCosts env prec (f d.vec)
  marker : d.marker = some (markerFn env d.vec)

theorem attempts_good {env : Env} {f : Vec → List Rat} (hp : Pure env f) :
    ∀ (k : Nat) (d : Design) (w : World), d.feasible ≠ .yes → (attempts env k d w).1 = none →
      Good env f d.prec (attempts env k d w).2.1 := by
  intro k
  induction k with
  | zero => intro d w _ h; simp [attempts] at h
  | succ k ih =>
    intro d w hf h
    cases ho : env.obj d.key d.ncalls d.vec with
    | ok c =>
      have hc := hp _ _ _ _ ho
      simp only [attempts, ho]
      exact ⟨by simp [succeed, hc], by simp [succeed, markerFn, markerOf_feasAfter _ _ hf]⟩
    | fatal t => simp [attempts, ho] at h
    | transient t =>
      simp only [attempts, ho] at h ⊢
      exact ih (failDesign env d) (failWorld d w) (by simp [failDesign]) h

theorem attempts_count (env : Env) (k : Nat) (d : Design) (w : World) (h : (attempts env k d w).1 = none) :
    (attempts env k d w).2.2.log.length + w.failed.length =
      w.log.length + (attempts env k d w).2.2.failed.length + 1 := by
  obtain ⟨fs, _, hf, _, _, hl, _⟩ := attempts_shape env k d w
  rw [hl, hf]
  simp [h]
  omega

/-- A batch of EMPTY designs evaluated without an exception: exactly one successful call per
design (`log` grows by one more than `failed` for each). -/
theorem evalSerial_count (env : Env) : ∀ (ds : List Design) (w : World),
    (∀ d ∈ ds, d.state = .empty) → (evalSerial env ds w).1 = none →
    (evalSerial env ds w).2.1.length = ds.length ∧
    (evalSerial env ds w).2.2.log.length + w.failed.length =
      w.log.length + (evalSerial env ds w).2.2.failed.length + ds.length := by
  intro ds
  induction ds with
  | nil => intro w _ _; simp [evalSerial]
  | cons d ds ih =>
    intro w he h
    have hs : d.state = .empty := he d (by simp)
    have hne : d.state ≠ .evaluated := by rw [hs]; decide
    rcases hj : jobEvaluate env d w with ⟨r, d', w'⟩
    cases r with
    | some e' => simp [evalSerial, hs, hj] at h
    | none =>
      simp only [evalSerial, hs, if_true, hj] at h ⊢
      have hi := ih w' (fun x hx => he x (by simp [hx])) (by
        rcases he2 : evalSerial env ds w' with ⟨r2, ds2, w2⟩
        rw [he2] at h; simpa using h)
      have hj' := hj
      simp only [jobEvaluate, hne, if_false] at hj'
      have h1 : (attempts env 5 d w).1 = none := by rw [hj']
      have hc := attempts_count env 5 d w h1
      rw [hj'] at hc
      simp only at hc
      rcases he2 : evalSerial env ds w' with ⟨r2, ds2, w2⟩
      rw [he2] at hi
      simp only at hi ⊢
      refine ⟨by simp [hi.1], ?_⟩
      simp only [List.length_cons]
      omega

theorem evalSerial_good {env : Env} {f : Vec → List Rat} (hp : Pure env f) (prec : Nat) :
    ∀ (ds : List Design) (w : World),
    (∀ d ∈ ds, d.state = .empty ∧ d.feasible ≠ .yes ∧ d.prec = prec) → (evalSerial env ds w).1 = none →
    ∀ r ∈ (evalSerial env ds w).2.1, Good env f prec r := by
  intro ds
  induction ds with
  | nil => intro w _ _ r hr; simp [evalSerial] at hr
  | cons d ds ih =>
    intro w he h
    obtain ⟨hs, hfz, hpr⟩ := he d (by simp)
    have hne : d.state ≠ .evaluated := by rw [hs]; decide
    rcases hj : jobEvaluate env d w with ⟨r, d', w'⟩
    cases r with
    | some e' => simp [evalSerial, hs, hj] at h
    | none =>
      simp only [evalSerial, hs, if_true, hj] at h ⊢
      have hj' := hj
      simp only [jobEvaluate, hne, if_false] at hj'
      have h1 : (attempts env 5 d w).1 = none := by rw [hj']
      have hg := attempts_good hp 5 d w hfz h1
      rw [hj', hpr] at hg
      simp only at hg
      rcases he2 : evalSerial env ds w' with ⟨r2, ds2, w2⟩
      have hi := ih w' (fun x hx => he x (by simp [hx])) (by rw [he2]; rw [he2] at h; simpa using h)
      rw [he2] at hi
      simp only at hi ⊢
      intro r hr
      rcases List.mem_cons.1 hr with rfl | hr
      · exact hg
      · exact hi r hr

theorem freshFrom_props (s p : Nat) (vs : List Vec) :
    ∀ d ∈ freshFrom s p vs, d.state = .empty ∧ d.feasible ≠ .yes ∧ d.prec = p := by
  induction vs generalizing s with
  | nil => intro d hd; simp [freshFrom] at hd
  | cons v vs ih =>
    intro d hd
    simp only [freshFrom, List.mem_cons] at hd
    rcases hd with rfl | hd
    · simp [fresh]
    · exact ih _ d hd

/-! ## One NSGA-II iteration taken apart -/

def stepEval (cfg : Cfg) (s : RunState) (offs : List Vec) : Option Err × List Design × World :=
  evalSerial cfg.env (freshFrom s.nextKey cfg.prec offs) s.world

/-- `offsprings` after the parent copies were appended. -/
def stepMerged (cfg : Cfg) (s : RunState) (offs : List Vec) : List Design :=
  (stepEval cfg s offs).2.1 ++ copiesFrom (s.nextKey + offs.length) cfg.prec s.parents

structure StepFacts (cfg : Cfg) (it : Nat) (o : StepOracle) (s s' : RunState)
    (offs : List Vec) (fc : List (Nat × Option Rat)) (r : List Nat) : Prop where
  hgen : Runs.generate cfg.eq cfg.N o.children [] = some offs
  heval : (stepEval cfg s offs).1 = none
  hsort : sortCrowd (stepMerged cfg s offs) = some fc
  htrunc : truncate (mkInds (stepMerged cfg s offs) fc) cfg.N o.setOrder = some r
  hsurv : allSome (r.map (member? (stepMerged cfg s offs) fc (it + 2))) = some s'.parents
  hworld : s'.world = (stepEval cfg s offs).2.2
  hrec : s'.recorded = s.recorded ++ s'.parents

theorem nsga2Step_some {cfg : Cfg} {it : Nat} {o : StepOracle} {s s' : RunState}
    (h : nsga2Step cfg it o s = some s') : ∃ offs fc r, StepFacts cfg it o s s' offs fc r := by
  unfold nsga2Step at h
  cases hg : Runs.generate cfg.eq cfg.N o.children [] with
  | none => simp [hg] at h
  | some offs =>
    simp only [hg] at h
    cases he : (evalSerial cfg.env (freshFrom s.nextKey cfg.prec offs) s.world).1 with
    | some e => simp [he] at h
    | none =>
      simp only [he] at h
      cases hs : sortCrowd ((evalSerial cfg.env (freshFrom s.nextKey cfg.prec offs) s.world).2.1 ++
          copiesFrom (s.nextKey + offs.length) cfg.prec s.parents) with
      | none => simp [hs] at h
      | some fc =>
        simp only [hs] at h
        cases ht : truncate (mkInds ((evalSerial cfg.env (freshFrom s.nextKey cfg.prec offs) s.world).2.1 ++
            copiesFrom (s.nextKey + offs.length) cfg.prec s.parents) fc) cfg.N o.setOrder with
        | none => simp [ht] at h
        | some r =>
          simp only [ht] at h
          cases hv : allSome (r.map (member? ((evalSerial cfg.env (freshFrom s.nextKey cfg.prec offs) s.world).2.1 ++
              copiesFrom (s.nextKey + offs.length) cfg.prec s.parents) fc (it + 2))) with
          | none => simp [hv] at h
          | some surv =>
            simp only [hv, Option.some.injEq] at h
            subst h
            exact ⟨offs, fc, r, ⟨hg, he, hs, ht, hv, rfl, rfl⟩⟩

theorem copiesFrom_length (st prec : Nat) (ps : List Member) : (copiesFrom st prec ps).length = ps.length := by
  induction ps generalizing st with
  | nil => rfl
  | cons p ps ih => simp [copiesFrom, ih]

theorem copiesFrom_get (st prec : Nat) (ps : List Member) (j : Nat) (hj : j < ps.length) :
    (copiesFrom st prec ps)[j]'(by rw [copiesFrom_length]; exact hj) = copyOf (st + j) prec ps[j] := by
  induction ps generalizing st j with
  | nil => simp at hj
  | cons p ps ih =>
    cases j with
    | zero => simp [copiesFrom]
    | succ j =>
      simp only [copiesFrom, List.getElem_cons_succ]
      rw [ih (st + 1) j (by simpa using hj)]
      congr 1; omega

theorem copiesFrom_mem {st prec : Nat} {ps : List Member} {d : Design} (h : d ∈ copiesFrom st prec ps) :
    ∃ p ∈ ps, d.vec = p.d.vec ∧ d.signed = p.d.signed ∧ d.marker = p.d.marker := by
  induction ps generalizing st with
  | nil => simp [copiesFrom] at h
  | cons p ps ih =>
    simp only [copiesFrom, List.mem_cons] at h
    rcases h with rfl | h
    · exact ⟨p, by simp, rfl, rfl, rfl⟩
    · obtain ⟨q, hq, e⟩ := ih h
      exact ⟨q, by simp [hq], e⟩

/-- Everything of an iteration that does not need a hypothesis on the objective. -/
theorem stepEval_length {cfg : Cfg} {s : RunState} {offs : List Vec} (h : (stepEval cfg s offs).1 = none) :
    (stepEval cfg s offs).2.1.length = offs.length ∧
    (stepEval cfg s offs).2.2.log.length + s.world.failed.length =
      s.world.log.length + (stepEval cfg s offs).2.2.failed.length + offs.length := by
  have := evalSerial_count cfg.env (freshFrom s.nextKey cfg.prec offs) s.world
    (fun d hd => (freshFrom_props _ _ _ d hd).1) h
  simpa [stepEval, freshFrom_length] using this

theorem stepMerged_length {cfg : Cfg} {s : RunState} {offs : List Vec} (h : (stepEval cfg s offs).1 = none) :
    (stepMerged cfg s offs).length = offs.length + s.parents.length := by
  simp [stepMerged, (stepEval_length h).1, copiesFrom_length]

/-- The parent with index `j` sits at position `offs.length + j` of the merged population. -/
theorem stepMerged_parent {cfg : Cfg} {s : RunState} {offs : List Vec} (h : (stepEval cfg s offs).1 = none)
    (j : Nat) (hj : j < s.parents.length) :
    ∃ (hm : offs.length + j < (stepMerged cfg s offs).length),
      (stepMerged cfg s offs)[offs.length + j].vec = s.parents[j].d.vec ∧
      (stepMerged cfg s offs)[offs.length + j].signed = s.parents[j].d.signed ∧
      (stepMerged cfg s offs)[offs.length + j].marker = s.parents[j].d.marker := by
  have hl := (stepEval_length h).1
  refine ⟨by rw [stepMerged_length h]; omega, ?_⟩
  have : (stepMerged cfg s offs)[offs.length + j]'(by rw [stepMerged_length h]; omega) =
      copyOf (s.nextKey + offs.length + j) cfg.prec s.parents[j] := by
    unfold stepMerged
    rw [List.getElem_append_right (by omega)]
    simp only [hl, Nat.add_sub_cancel_left]
    exact copiesFrom_get _ _ _ j hj
  rw [this]
  exact ⟨rfl, rfl, rfl⟩

/-- The survivors of an iteration: tags, and as designs they are members of the merged population
at the positions the truncation returned. -/
theorem step_survivors {cfg : Cfg} {it : Nat} {o : StepOracle} {s s' : RunState} {offs fc r}
    (F : StepFacts cfg it o s s' offs fc r) :
    s'.parents.length = r.length ∧
    (∀ m ∈ s'.parents, m.tag = it + 2) ∧
    ∀ k (hk : k < s'.parents.length) (hr : k < r.length),
      ∃ (hd : r[k] < (stepMerged cfg s offs).length) (hf : r[k] < fc.length),
        s'.parents[k].d = (stepMerged cfg s offs)[r[k]] ∧ s'.parents[k].front = fc[r[k]].1 := by
  obtain ⟨hl, hg⟩ := survivors_spec F.hsurv
  refine ⟨hl, ?_, ?_⟩
  · intro m hm
    obtain ⟨k, hk, rfl⟩ := List.mem_iff_getElem.1 hm
    obtain ⟨_, _, e⟩ := hg k hk (by omega)
    rw [e]
  · intro k hk hr
    obtain ⟨hd, hf, e⟩ := hg k hk hr
    exact ⟨hd, hf, by rw [e], by rw [e]⟩

/-! ## Distinct designs: size and absence of repetitions after the truncation -/

theorem designId_eq_imp {ds : List Design} {v w : Vec} (hv : ∃ d ∈ ds, d.vec = v)
    (h : designId ds v = designId ds w) : v = w := by
  obtain ⟨d, hd, rfl⟩ := hv
  have hlt : designId ds d.vec < ds.length :=
    List.findIdx_lt_length_of_exists ⟨d, hd, by simp⟩
  have a : (ds[designId ds d.vec]?).map (·.vec) = some d.vec := by
    rw [List.getElem?_eq_getElem hlt]
    have := of_decide_eq_true (List.findIdx_getElem (p := fun x : Design => decide (x.vec = d.vec)) (xs := ds) (w := hlt))
    exact congrArg some this
  have hlt' : designId ds w < ds.length := h ▸ hlt
  have b : (ds[designId ds w]?).map (·.vec) = some w := by
    rw [List.getElem?_eq_getElem hlt']
    have := of_decide_eq_true (List.findIdx_getElem (p := fun x : Design => decide (x.vec = w)) (xs := ds) (w := hlt'))
    exact congrArg some this
  rw [h, b] at a
  exact (Option.some.inj a).symm

/-- A list of pairwise different vectors that all occur in the population: at least that many
distinct designs for `set()`. -/
theorem distinct_of_vecs {ds : List Design} {fc : List (Nat × Option Rat)} (hfc : fc.length = ds.length)
    (vs : List Vec) (hn : vs.Nodup) (hp : ∀ v ∈ vs, ∃ d ∈ ds, d.vec = v) :
    vs.length ≤ distinctDesigns (mkInds ds fc) := by
  have hL : (vs.map (designId ds)).Nodup :=
    List.Nodup.map_on (fun v hv w _ e => designId_eq_imp (hp v hv) e) hn
  have hsub : vs.map (designId ds) ⊆ dedupNat ((mkInds ds fc).map (·.design)) := by
    intro a ha
    rw [mem_dedupNat]
    obtain ⟨v, hv, rfl⟩ := List.mem_map.1 ha
    obtain ⟨d, hd, rfl⟩ := hp v hv
    obtain ⟨i, hi, rfl⟩ := List.mem_iff_getElem.1 hd
    have hi' : i < (mkInds ds fc).length := by rw [mkInds_length hfc]; exact hi
    refine List.mem_map.2 ⟨(mkInds ds fc)[i], List.getElem_mem hi', ?_⟩
    rw [mkInds_get hfc i hi]
  have := (List.subperm_of_subset hL hsub).length_le
  simpa [distinctDesigns] using this

theorem step_fc_length {cfg : Cfg} {it : Nat} {o : StepOracle} {s s' : RunState} {offs fc r}
    (F : StepFacts cfg it o s s' offs fc r) : fc.length = (stepMerged cfg s offs).length := by
  obtain ⟨_, _, h, _⟩ := sortCrowd_spec F.hsort
  exact h

/-- No design twice among the survivors (from `truncate_nodup`, C03). -/
theorem step_nodup {cfg : Cfg} {it : Nat} {o : StepOracle} {s s' : RunState} {offs fc r}
    (F : StepFacts cfg it o s s' offs fc r) : (s'.parents.map (·.d.vec)).Nodup := by
  have hfc := step_fc_length F
  obtain ⟨hnd, hlt, hinj⟩ := C03.truncate_nodup _ _ _ _ F.htrunc
  obtain ⟨hl, _, hg⟩ := step_survivors F
  have e : s'.parents.map (·.d.vec) =
      r.map (fun i => (((stepMerged cfg s offs)[i]?).map (·.vec)).getD []) := by
    apply List.ext_getElem (by simp [hl])
    intro k h1 h2
    simp only [List.length_map] at h1 h2
    obtain ⟨hd, _, e1, _⟩ := hg k h1 h2
    simp [e1, List.getElem?_eq_getElem hd]
  rw [e]
  refine List.Nodup.map_on ?_ hnd
  intro x hx y hy hxy
  have hx' : x < (stepMerged cfg s offs).length := by
    have := hlt x hx; rwa [mkInds_length hfc] at this
  have hy' : y < (stepMerged cfg s offs).length := by
    have := hlt y hy; rwa [mkInds_length hfc] at this
  simp only [List.getElem?_eq_getElem hx', List.getElem?_eq_getElem hy', Option.map_some, Option.getD_some] at hxy
  refine hinj x hx y hy _ _ (List.getElem?_eq_getElem (by rw [mkInds_length hfc]; exact hx'))
    (List.getElem?_eq_getElem (by rw [mkInds_length hfc]; exact hy')) ?_
  rw [mkInds_get hfc x hx', mkInds_get hfc y hy']
  simp only
  rw [hxy]

/-- Exactly `N` survivors as soon as the merged population holds `N` pairwise different designs
(from `truncate_size`, C03). -/
theorem step_size {cfg : Cfg} {it : Nat} {o : StepOracle} {s s' : RunState} {offs fc r}
    (F : StepFacts cfg it o s s' offs fc r) (vs : List Vec) (hn : vs.Nodup) (hlen : vs.length = cfg.N)
    (hp : ∀ v ∈ vs, ∃ d ∈ stepMerged cfg s offs, d.vec = v) : s'.parents.length = cfg.N := by
  have hfc := step_fc_length F
  have h1 := C03.truncate_size _ _ _ _ F.htrunc
  have h2 := distinct_of_vecs hfc vs hn hp
  rw [(step_survivors F).1, h1]
  omega

/-- Parents with pairwise different designs suffice: their copies are in the merged population. -/
theorem step_size_of_parents {cfg : Cfg} {it : Nat} {o : StepOracle} {s s' : RunState} {offs fc r}
    (F : StepFacts cfg it o s s' offs fc r) (hn : (s.parents.map (·.d.vec)).Nodup)
    (hlen : s.parents.length = cfg.N) : s'.parents.length = cfg.N := by
  refine step_size F _ hn (by simpa using hlen) ?_
  intro v hv
  obtain ⟨p, hp, rfl⟩ := List.mem_map.1 hv
  obtain ⟨j, hj, rfl⟩ := List.mem_iff_getElem.1 hp
  obtain ⟨hm, e, _⟩ := stepMerged_parent F.heval j hj
  exact ⟨_, List.getElem_mem hm, e⟩

/-- So do evaluated offspring with pairwise different designs. -/
theorem step_size_of_offspring {cfg : Cfg} {it : Nat} {o : StepOracle} {s s' : RunState} {offs fc r}
    (F : StepFacts cfg it o s s' offs fc r) (hn : ((stepEval cfg s offs).2.1.map (·.vec)).Nodup)
    (hlen : offs.length = cfg.N) : s'.parents.length = cfg.N := by
  refine step_size F _ hn (by simp [(stepEval_length F.heval).1, hlen]) ?_
  intro v hv
  obtain ⟨d, hd, rfl⟩ := List.mem_map.1 hv
  exact ⟨d, by simp [stepMerged, hd], rfl⟩

/-! ## Costs as a function of the design: what the sorting then guarantees -/

theorem stepMerged_good {cfg : Cfg} {s : RunState} {offs : List Vec} {f : Vec → List Rat}
    (hp : Pure cfg.env f) (hgood : ∀ p ∈ s.parents, Good cfg.env f cfg.prec p.d)
    (heval : (stepEval cfg s offs).1 = none) :
    ∀ d ∈ stepMerged cfg s offs, Good cfg.env f cfg.prec d := by
  intro d hd
  unfold stepMerged at hd
  rcases List.mem_append.1 hd with hd | hd
  · exact evalSerial_good hp cfg.prec _ _ (freshFrom_props _ _ _) heval d hd
  · obtain ⟨p, hpm, e1, e2, e3⟩ := copiesFrom_mem hd
    have g := hgood p hpm
    exact ⟨by rw [e2, e1]; exact g.signed, by rw [e3, e1]; exact g.marker⟩

theorem step_good {cfg : Cfg} {it : Nat} {o : StepOracle} {s s' : RunState} {offs fc r}
    {f : Vec → List Rat} (F : StepFacts cfg it o s s' offs fc r)
    (hp : Pure cfg.env f) (hgood : ∀ p ∈ s.parents, Good cfg.env f cfg.prec p.d) :
    ∀ p ∈ s'.parents, Good cfg.env f cfg.prec p.d := by
  intro p hpm
  obtain ⟨k, hk, rfl⟩ := List.mem_iff_getElem.1 hpm
  obtain ⟨hl, _, hg⟩ := step_survivors F
  obtain ⟨hd, _, e, _⟩ := hg k hk (by omega)
  rw [e]
  exact stepMerged_good hp hgood F.heval _ (List.getElem_mem hd)

/-- The sorting of a population whose costs are a function of the design (all cost vectors of
one length `m`): the populations of the C02 and C03 models that belong to it, with
* `SameLen` (hypothesis of `fnds_rank`),
* the front numbers the truncation sees are those of `fnds`,
* `RankConsistent` (hypothesis of `truncate_rank_first`): equal designs carry equal front
  numbers, because `fnds` depends only on the member's own costs and the set of members
  (`fnds_perm`). -/
theorem sorting_facts {env : Env} {f : Vec → List Rat} {prec m : Nat} {ds : List Design}
    {fc : List (Nat × Option Rat)} (hgood : ∀ d ∈ ds, Good env f prec d) (hlen : ∀ v, (f v).length = m)
    (hsort : sortCrowd ds = some fc) :
    ∃ pop : List (List Rat × Int), pop.length = ds.length ∧ fc.length = ds.length ∧ SameLen pop ∧
      (∀ i (hi : i < pop.length) (hd : i < ds.length), pop[i] = (ds[i].signed, markerFn env ds[i].vec)) ∧
      (∀ i (hi : i < (mkInds ds fc).length), rankOf pop i = some (mkInds ds fc)[i].front) ∧
      RankConsistent (mkInds ds fc) := by
  obtain ⟨pop, hpop, hfc, hrank⟩ := sortCrowd_spec hsort
  obtain ⟨hpl, hpg⟩ := signedPop_spec hpop
  have hget : ∀ i (hi : i < pop.length) (hd : i < ds.length), pop[i] = (ds[i].signed, markerFn env ds[i].vec) := by
    intro i hi hd
    obtain ⟨a, b⟩ := hpg i hi hd
    have g := (hgood ds[i] (List.getElem_mem hd)).marker
    rw [a] at g
    have : pop[i].2 = markerFn env ds[i].vec := Option.some.inj g
    rw [← this, b]
  have hs : SameLen pop := by
    intro a ha b hb
    obtain ⟨i, hi, rfl⟩ := List.mem_iff_getElem.1 ha
    obtain ⟨j, hj, rfl⟩ := List.mem_iff_getElem.1 hb
    rw [hget i hi (by omega), hget j hj (by omega)]
    simp only
    rw [(hgood _ (List.getElem_mem (by omega : i < ds.length))).signed,
      (hgood _ (List.getElem_mem (by omega : j < ds.length))).signed]
    simp [signedCosts, hlen]
  have hil := mkInds_length hfc
  have hfront : ∀ i (hi : i < (mkInds ds fc).length), rankOf pop i = some (mkInds ds fc)[i].front := by
    intro i hi
    have hi' : i < ds.length := by omega
    rw [mkInds_get hfc i hi']
    exact hrank i (by omega)
  refine ⟨pop, hpl, hfc, hs, hget, hfront, ?_⟩
  intro x hx y hy hxy
  obtain ⟨i, hi, rfl⟩ := List.mem_iff_getElem.1 hx
  obtain ⟨j, hj, rfl⟩ := List.mem_iff_getElem.1 hy
  have hi' : i < ds.length := by omega
  have hj' : j < ds.length := by omega
  have hv : ds[i].vec = ds[j].vec := by
    rw [mkInds_get hfc i hi', mkInds_get hfc j hj'] at hxy
    exact (designId_inj hi' hj').1 hxy
  have hpe : pop[i]'(by omega) = pop[j]'(by omega) := by
    rw [hget i (by omega) hi', hget j (by omega) hj']
    rw [(hgood _ (List.getElem_mem hi')).signed, (hgood _ (List.getElem_mem hj')).signed, hv]
  have := C02.fnds_perm pop pop hs (fun _ => Iff.rfl) i j (pop[i]'(by omega))
    (List.getElem?_eq_getElem (by omega)) (by rw [List.getElem?_eq_getElem (by omega), hpe])
  rw [hfront i hi, hfront j hj] at this
  exact Option.some.inj this

/-! ## The run: recorded generations -/

/-- Generation `t` of a record: the members tagged `t`, in recording order. -/
def gen (t : Nat) (rec : List Member) : List Member := rec.filter (fun m => m.tag == t)

theorem gen_append (t : Nat) (a b : List Member) : gen t (a ++ b) = gen t a ++ gen t b := by
  simp [gen]

theorem gen_eq_self {t : Nat} {l : List Member} (h : ∀ m ∈ l, m.tag = t) : gen t l = l := by
  unfold gen
  rw [List.filter_eq_self]
  intro m hm; simp [h m hm]

theorem gen_eq_nil {t : Nat} {l : List Member} (h : ∀ m ∈ l, m.tag ≠ t) : gen t l = [] := by
  unfold gen
  rw [List.filter_eq_nil_iff]
  intro m hm; simp [h m hm]

/-- Bookkeeping after `k` iterations: tags `1..k+1`, and the working population is the last
recorded generation. -/
structure Book (k : Nat) (s : RunState) : Prop where
  tags : ∀ m ∈ s.recorded, 1 ≤ m.tag ∧ m.tag ≤ k + 1
  cur : gen (k + 1) s.recorded = s.parents

theorem step_book {cfg : Cfg} {k : Nat} {o : StepOracle} {s s' : RunState}
    (h : nsga2Step cfg k o s = some s') (B : Book k s) :
    Book (k + 1) s' ∧ ∀ t, t ≤ k + 1 → gen t s'.recorded = gen t s.recorded := by
  obtain ⟨offs, fc, r, F⟩ := nsga2Step_some h
  obtain ⟨_, htag, _⟩ := step_survivors F
  refine ⟨⟨?_, ?_⟩, ?_⟩
  · intro m hm
    rw [F.hrec, List.mem_append] at hm
    rcases hm with hm | hm
    · have := B.tags m hm; omega
    · have := htag m hm; omega
  · rw [F.hrec, gen_append, gen_eq_self htag, gen_eq_nil, List.nil_append]
    intro m hm; have := B.tags m hm; omega
  · intro t ht
    rw [F.hrec, gen_append, gen_eq_nil (l := s'.parents), List.append_nil]
    intro m hm; have := htag m hm; omega

theorem nsga2Loop_induct {cfg : Cfg} (P : Nat → RunState → Prop)
    (hstep : ∀ it o s s', P it s → nsga2Step cfg it o s = some s' → P (it + 1) s') :
    ∀ (n a : Nat) (os : List StepOracle) (s s' : RunState),
      nsga2Loop cfg (List.range' a n) os s = some s' → P a s → P (a + n) s' := by
  intro n
  induction n with
  | zero =>
    intro a os s s' h hp
    simp only [List.range'_zero, nsga2Loop, Option.some.injEq] at h
    subst h; simpa using hp
  | succ n ih =>
    intro a os s s' h hp
    rw [List.range'_succ] at h
    cases os with
    | nil => simp [nsga2Loop] at h
    | cons o os =>
      simp only [nsga2Loop] at h
      cases hs : nsga2Step cfg a o s with
      | none => simp [hs] at h
      | some s1 =>
        simp only [hs] at h
        have := ih (a + 1) os s1 s' h (hstep a o s s1 hp hs)
        have e : a + (n + 1) = a + 1 + n := by omega
        rw [e]; exact this

/-- Master induction over the generation loop.  `I k s` is an invariant of the state after `k`
iterations, `R t g` a property of generation `t`, `Q t g g'` a property of the consecutive
generations `t`, `t + 1`; if every iteration establishes them for its own parents and survivors,
they hold of *all recorded* generations at the end. -/
theorem loop_history {cfg : Cfg} (I : Nat → RunState → Prop) (R : Nat → List Member → Prop)
    (Q : Nat → List Member → List Member → Prop)
    (hs : ∀ it o s s', I it s → R (it + 1) s.parents → nsga2Step cfg it o s = some s' →
      I (it + 1) s' ∧ R (it + 2) s'.parents ∧ Q (it + 1) s.parents s'.parents)
    (n : Nat) (os : List StepOracle) (s0 s : RunState) (B0 : Book 0 s0)
    (h : nsga2Loop cfg (List.range n) os s0 = some s) (hI : I 0 s0) (hR : R 1 s0.parents) :
    Book n s ∧ I n s ∧ (∀ t, 1 ≤ t → t ≤ n + 1 → R t (gen t s.recorded)) ∧
      (∀ t, 1 ≤ t → t ≤ n → Q t (gen t s.recorded) (gen (t + 1) s.recorded)) := by
  rw [List.range_eq_range'] at h
  have := nsga2Loop_induct (cfg := cfg)
    (fun k s => Book k s ∧ I k s ∧ (∀ t, 1 ≤ t → t ≤ k + 1 → R t (gen t s.recorded)) ∧
      (∀ t, 1 ≤ t → t ≤ k → Q t (gen t s.recorded) (gen (t + 1) s.recorded)))
    (by
      rintro it o s s' ⟨B, hi, hr, hq⟩ hstep
      obtain ⟨B', frame⟩ := step_book hstep B
      have hcur : R (it + 1) s.parents := by rw [← B.cur]; exact hr (it + 1) (by omega) (by omega)
      obtain ⟨hi', hr', hq'⟩ := hs it o s s' hi hcur hstep
      refine ⟨B', hi', ?_, ?_⟩
      · intro t h1 h2
        by_cases e : t = it + 2
        · subst e; rw [B'.cur]; exact hr'
        · rw [frame t (by omega)]; exact hr t h1 (by omega)
      · intro t h1 h2
        by_cases e : t = it + 1
        · subst e
          rw [frame (it + 1) (by omega), B.cur, B'.cur]; exact hq'
        · rw [frame t (by omega), frame (t + 1) (by omega)]; exact hq t h1 (by omega))
    n 0 os s0 s h ⟨B0, hI, by
      intro t h1 h2
      have : t = 1 := by omega
      subst this; rw [B0.cur]; exact hR, by intro t h1 h2; omega⟩
  simpa using this

/-! ## The initial population and the run as a whole -/

structure InitFacts (cfg : Cfg) (init : List Vec) (s0 : RunState) : Prop where
  heval : (evalSerial cfg.env (freshFrom 0 cfg.prec init) { log := [], failed := [] }).1 = none
  hworld : s0.world = (evalSerial cfg.env (freshFrom 0 cfg.prec init) { log := [], failed := [] }).2.2
  hrec : s0.recorded = s0.parents
  htag : ∀ m ∈ s0.parents, m.tag = 1
  hlen : s0.parents.length = init.length
  hds : ∀ m ∈ s0.parents,
    m.d ∈ (evalSerial cfg.env (freshFrom 0 cfg.prec init) { log := [], failed := [] }).2.1

theorem nsga2Init_some {cfg : Cfg} {init : List Vec} {s0 : RunState} (h : nsga2Init cfg init = some s0) :
    InitFacts cfg init s0 := by
  unfold nsga2Init at h
  cases he : (evalSerial cfg.env (freshFrom 0 cfg.prec init) { log := [], failed := [] }).1 with
  | some e => simp [he] at h
  | none =>
    simp only [he] at h
    cases hs : sortCrowd (evalSerial cfg.env (freshFrom 0 cfg.prec init) { log := [], failed := [] }).2.1 with
    | none => simp [hs] at h
    | some fc =>
      simp only [hs] at h
      cases hv : allSome ((List.range (evalSerial cfg.env (freshFrom 0 cfg.prec init) { log := [], failed := [] }).2.1.length).map
          (member? (evalSerial cfg.env (freshFrom 0 cfg.prec init) { log := [], failed := [] }).2.1 fc 1)) with
      | none => simp [hv] at h
      | some ms =>
        simp only [hv, Option.some.injEq] at h
        subst h
        obtain ⟨hl, hg⟩ := allSome_map_range hv
        have hcount := evalSerial_count cfg.env (freshFrom 0 cfg.prec init) { log := [], failed := [] }
          (fun d hd => (freshFrom_props _ _ _ d hd).1) he
        refine ⟨he, rfl, rfl, ?_, ?_, ?_⟩
        · intro m hm
          obtain ⟨k, hk, rfl⟩ := List.mem_iff_getElem.1 hm
          obtain ⟨_, _, e⟩ := member?_some (hg k hk)
          rw [e]
        · show ms.length = init.length
          rw [hl, hcount.1, freshFrom_length]
        · intro m hm
          obtain ⟨k, hk, rfl⟩ := List.mem_iff_getElem.1 hm
          obtain ⟨hd, _, e⟩ := member?_some (hg k hk)
          rw [e]; exact List.getElem_mem hd

theorem init_book {cfg : Cfg} {init : List Vec} {s0 : RunState} (F : InitFacts cfg init s0) : Book 0 s0 :=
  ⟨fun m hm => by rw [F.hrec] at hm; have := F.htag m hm; omega,
   by rw [F.hrec]; exact gen_eq_self F.htag⟩

theorem init_count {cfg : Cfg} {init : List Vec} {s0 : RunState} (F : InitFacts cfg init s0) :
    s0.world.log.length = s0.world.failed.length + init.length := by
  have := evalSerial_count cfg.env (freshFrom 0 cfg.prec init) { log := [], failed := [] }
    (fun d hd => (freshFrom_props _ _ _ d hd).1) F.heval
  rw [F.hworld]
  simpa [freshFrom_length] using this.2

theorem init_good {cfg : Cfg} {init : List Vec} {s0 : RunState} {f : Vec → List Rat}
    (F : InitFacts cfg init s0) (hp : Pure cfg.env f) : ∀ p ∈ s0.parents, Good cfg.env f cfg.prec p.d :=
  fun p hpm => evalSerial_good hp cfg.prec _ _ (freshFrom_props _ _ _) F.heval _ (F.hds p hpm)

theorem nsga2Run_some {cfg : Cfg} {G : Nat} {init : List Vec} {steps : List StepOracle} {r : RunResult}
    (h : nsga2Run cfg G init steps = some r) :
    ∃ s0 s, nsga2Init cfg init = some s0 ∧ nsga2Loop cfg (List.range (G - 1)) steps s0 = some s ∧
      r.recorded = s.recorded ∧ r.evals = okCalls s.world ∧ r.world = s.world ∧ r.final = s.parents := by
  unfold nsga2Run at h
  cases h0 : nsga2Init cfg init with
  | none => simp [h0] at h
  | some s0 =>
    simp only [h0] at h
    cases hl : nsga2Loop cfg (List.range (G - 1)) steps s0 with
    | none => simp [hl] at h
    | some s =>
      simp only [hl, Option.some.injEq] at h
      subst h
      exact ⟨s0, s, rfl, hl, rfl, rfl, rfl, rfl⟩

/-! ## Single objective -/

theorem signed_single {env : Env} {f : Vec → List Rat} {prec : Nat} {d : Design} (g : Good env f prec d)
    (hone : ∀ v, (f v).length = 1) (hsg : env.signs ≠ []) : ∃ c, d.signed = [c] := by
  rw [g.signed]
  unfold signedCosts
  have h1 := hone d.vec
  cases hf : f d.vec with
  | nil => rw [hf] at h1; simp at h1
  | cons c cs =>
    rw [hf] at h1
    have : cs = [] := by
      cases cs with
      | nil => rfl
      | cons _ _ => simp at h1
    subst this
    cases hs : env.signs with
    | nil => exact absurd hs hsg
    | cons s ss => exact ⟨s * env.rnd prec c, by simp⟩

theorem markerFn_unconstrained {env : Env} (hcons : ∀ v, env.cons v = []) (v : Vec) : markerFn env v = 1 := by
  simp [markerFn, hcons, feasAfter, markerOf, Feas.truthy]

theorem pareto_single (cy cx : Rat) (h : cy < cx) : paretoCompare [cy] [cx] 1 1 = 1 := by
  have h2 : ¬ cx < cy := by
    intro h3; exact absurd (lt_trans h h3) (lt_irrefl _)
  simp [paretoCompare, markerVerdict, scan, h, h2]

/-! ## ε-MOEA -/

/-- The acceptance step keeps the size of a non-empty population (`popAccept_size`, C09). -/
def PopSize (eqm : Member → Member → Bool) : Prop :=
  ∀ pop flags x p1 p2, 0 < pop.length → (Runs.popAccept eqm pop flags x p1 p2).length = pop.length

theorem acceptAll_spec {cfg : Cfg} {eps : List Rat} {tag : Nat}
    (hps : PopSize (fun a b => cfg.eq a.d.vec b.d.vec)) :
    ∀ (ds : List Design) (pks : List (Nat × Nat)) (s s' : EpsState),
      acceptAll cfg eps tag ds pks s = some s' → 0 < s.pop.length →
      s'.recorded = s.recorded ++ ds.map (fun d => ({ d := d, front := 0, crowd := some 0, tag := tag } : Member)) ∧
      s'.pop.length = s.pop.length ∧ s'.world = s.world := by
  intro ds
  induction ds with
  | nil =>
    intro pks s s' h _
    simp only [acceptAll, Option.some.injEq] at h
    subst h; simp
  | cons d ds ih =>
    intro pks s s' h hpos
    cases pks with
    | nil => simp [acceptAll] at h
    | cons pk pks =>
      simp only [acceptAll] at h
      cases hf : flagsOf { d := d, front := 0, crowd := some 0, tag := tag } s.pop with
      | none => simp [hf] at h
      | some flags =>
        simp only [hf] at h
        cases ha : Archive.add (archCmp eps) archSame s.archive { d := d, front := 0, crowd := some 0, tag := tag } with
        | none => simp [ha] at h
        | some a =>
          simp only [ha] at h
          have hsz := hps s.pop flags { d := d, front := 0, crowd := some 0, tag := tag } pk.1 pk.2 hpos
          obtain ⟨h1, h2, h3⟩ := ih pks _ s' h (by simp only; omega)
          refine ⟨?_, ?_, ?_⟩
          · rw [h1]; simp
          · rw [h2]; exact hsz
          · rw [h3]

structure EpsStepFacts (cfg : Cfg) (it : Nat) (s s' : EpsState) (offs : List Vec) : Prop where
  hlen : offs.length = cfg.N
  hrec : ∃ new : List Member, new.length = offs.length ∧ (∀ m ∈ new, m.tag = it + 1) ∧
    s'.recorded = s.recorded ++ new
  hpop : s'.pop.length = s.pop.length
  hcount : s'.world.log.length + s.world.failed.length =
    s.world.log.length + s'.world.failed.length + offs.length

theorem epsStep_some {cfg : Cfg} {eps : List Rat} {it : Nat} {o : EpsOracle} {s s' : EpsState}
    (hps : PopSize (fun a b => cfg.eq a.d.vec b.d.vec))
    (hgen : ∀ ps offs, Runs.generate cfg.eq cfg.N ps [] = some offs → offs.length = cfg.N)
    (hpos : 0 < s.pop.length) (h : epsStep cfg eps it o s = some s') :
    ∃ offs, EpsStepFacts cfg it s s' offs := by
  unfold epsStep at h
  cases hg : Runs.generate cfg.eq cfg.N o.children [] with
  | none => simp [hg] at h
  | some offs =>
    simp only [hg] at h
    cases he : (evalSerial cfg.env (freshFrom s.nextKey cfg.prec offs) s.world).1 with
    | some e => simp [he] at h
    | none =>
      simp only [he] at h
      have hc := evalSerial_count cfg.env (freshFrom s.nextKey cfg.prec offs) s.world
        (fun d hd => (freshFrom_props _ _ _ d hd).1) he
      obtain ⟨h1, h2, h3⟩ := acceptAll_spec hps _ _ _ s' h (by simpa using hpos)
      refine ⟨offs, hgen _ _ hg, ⟨_, ?_, ?_, h1⟩, by simpa using h2, ?_⟩
      · simp [hc.1, freshFrom_length]
      · intro m hm
        obtain ⟨d, _, rfl⟩ := List.mem_map.1 hm
        rfl
      · rw [h3]
        simpa [freshFrom_length] using hc.2

theorem epsLoop_induct {cfg : Cfg} {eps : List Rat} (P : Nat → EpsState → Prop)
    (hstep : ∀ it o s s', P it s → epsStep cfg eps it o s = some s' → P (it + 1) s') :
    ∀ (n a : Nat) (os : List EpsOracle) (s s' : EpsState),
      epsLoop cfg eps (List.range' a n) os s = some s' → P a s → P (a + n) s' := by
  intro n
  induction n with
  | zero =>
    intro a os s s' h hp
    simp only [List.range'_zero, epsLoop, Option.some.injEq] at h
    subst h; simpa using hp
  | succ n ih =>
    intro a os s s' h hp
    rw [List.range'_succ] at h
    cases os with
    | nil => simp [epsLoop] at h
    | cons o os =>
      simp only [epsLoop] at h
      cases hs : epsStep cfg eps a o s with
      | none => simp [hs] at h
      | some s1 =>
        simp only [hs] at h
        have := ih (a + 1) os s1 s' h (hstep a o s s1 hp hs)
        have e : a + (n + 1) = a + 1 + n := by omega
        rw [e]; exact this

/-- Bookkeeping of the ε-MOEA run after `k` iterations. -/
structure EpsInv (N k : Nat) (s : EpsState) : Prop where
  tags : ∀ m ∈ s.recorded, m.tag ≤ k
  sizes : ∀ t, t ≤ k → (gen t s.recorded).length = N
  pop : s.pop.length = N
  count : s.world.log.length = s.world.failed.length + N * (k + 1)

theorem epsInit_inv {cfg : Cfg} {eps : List Rat} {init : List Vec} {s0 : EpsState}
    (h : epsInit cfg eps init = some s0) : EpsInv init.length 0 s0 := by
  unfold epsInit at h
  cases he : (evalSerial cfg.env (freshFrom 0 cfg.prec init) { log := [], failed := [] }).1 with
  | some e => simp [he] at h
  | none =>
    simp only [he] at h
    cases ha : archiveAll eps ((evalSerial cfg.env (freshFrom 0 cfg.prec init) { log := [], failed := [] }).2.1.map
        (fun d => ({ d := d, front := 0, crowd := some 0, tag := 0 } : Member))) [] with
    | none => simp [ha] at h
    | some a =>
      simp only [ha, Option.some.injEq] at h
      subst h
      have hc := evalSerial_count cfg.env (freshFrom 0 cfg.prec init) { log := [], failed := [] }
        (fun d hd => (freshFrom_props _ _ _ d hd).1) he
      have htag : ∀ m ∈ (evalSerial cfg.env (freshFrom 0 cfg.prec init) { log := [], failed := [] }).2.1.map
          (fun d => ({ d := d, front := 0, crowd := some 0, tag := 0 } : Member)), m.tag = 0 := by
        intro m hm
        obtain ⟨d, _, rfl⟩ := List.mem_map.1 hm
        rfl
      refine ⟨fun m hm => by have := htag m hm; omega, ?_, ?_, ?_⟩
      · intro t ht
        have : t = 0 := by omega
        subst this
        rw [gen_eq_self htag]
        simp [hc.1, freshFrom_length]
      · simp [hc.1, freshFrom_length]
      · have := hc.2
        simp only [List.length_nil, freshFrom_length] at this
        simp only
        omega

theorem epsStep_inv {cfg : Cfg} {eps : List Rat} {k : Nat} {o : EpsOracle} {s s' : EpsState}
    (hps : PopSize (fun a b => cfg.eq a.d.vec b.d.vec))
    (hgen : ∀ ps offs, Runs.generate cfg.eq cfg.N ps [] = some offs → offs.length = cfg.N)
    (hN : 0 < cfg.N) (I : EpsInv cfg.N k s) (h : epsStep cfg eps k o s = some s') :
    EpsInv cfg.N (k + 1) s' := by
  obtain ⟨offs, F⟩ := epsStep_some hps hgen (by rw [I.pop]; exact hN) h
  obtain ⟨new, hnl, hnt, hrec⟩ := F.hrec
  refine ⟨?_, ?_, by rw [F.hpop, I.pop], ?_⟩
  · intro m hm
    rw [hrec, List.mem_append] at hm
    rcases hm with hm | hm
    · have := I.tags m hm; omega
    · have := hnt m hm; omega
  · intro t ht
    rw [hrec, gen_append]
    by_cases e : t = k + 1
    · subst e
      rw [gen_eq_nil (l := s.recorded), gen_eq_self hnt]
      · simp [hnl, F.hlen]
      · intro m hm; have := I.tags m hm; omega
    · rw [gen_eq_nil (l := new), List.append_nil]
      · exact I.sizes t (by omega)
      · intro m hm; have := hnt m hm; omega
  · have := F.hcount
    have hc := I.count
    rw [F.hlen] at this
    rw [Nat.mul_succ]
    omega

theorem epsMoeaRun_some {cfg : Cfg} {eps : List Rat} {G : Nat} {init : List Vec} {steps : List EpsOracle}
    {r : EpsResult} (h : epsMoeaRun cfg eps G init steps = some r) :
    ∃ s0 s, epsInit cfg eps init = some s0 ∧ epsLoop cfg eps (List.range G) steps s0 = some s ∧
      r.recorded = s.recorded ∧ r.evals = okCalls s.world ∧ r.world = s.world ∧ r.pop = s.pop := by
  unfold epsMoeaRun at h
  cases h0 : epsInit cfg eps init with
  | none => simp [h0] at h
  | some s0 =>
    simp only [h0] at h
    cases hl : epsLoop cfg eps (List.range G) steps s0 with
    | none => simp [hl] at h
    | some s =>
      simp only [hl, Option.some.injEq] at h
      subst h
      exact ⟨s0, s, rfl, hl, rfl, rfl, rfl, rfl⟩

/-! ## Non-vacuity support: runs whose `set()` oracle happens to be sorted already

`List.mergeSort` does not reduce in the kernel.  For the concrete instances in `Props/C09.lean`
the oracle lists the de-duplicated population in sorted order; then the truncation returns the
first `k` oracle positions (`truncS`, kernel-computable), and a run computed with `truncS` is a
run of the model (`runS_sound`). -/

def sortedB : List (Nat × Ind) → Bool
  | [] => true
  | a :: l => l.all (fun b => ndLe a b) && sortedB l

def truncS (pop : List Ind) (k : Nat) (o : List Nat) : Option (List Nat) :=
  match pick pop o with
  | none => none
  | some picked => if isDedup pop picked && sortedB picked then some (o.take k) else none

theorem sortedB_pairwise : ∀ {l : List (Nat × Ind)}, sortedB l = true → l.Pairwise (fun a b => ndLe a b = true)
  | [], _ => List.Pairwise.nil
  | a :: l, h => by
    simp only [sortedB, Bool.and_eq_true, List.all_eq_true] at h
    exact List.Pairwise.cons h.1 (sortedB_pairwise h.2)

theorem truncS_sound {pop : List Ind} {k : Nat} {o r : List Nat} (h : truncS pop k o = some r) :
    truncate pop k o = some r := by
  unfold truncS at h
  unfold truncate
  cases hp : pick pop o with
  | none => simp [hp] at h
  | some picked =>
    simp only [hp] at h ⊢
    by_cases hc : (isDedup pop picked && sortedB picked) = true
    · simp only [hc, if_true, Option.some.injEq] at h
      simp only [Bool.and_eq_true] at hc
      simp only [hc.1, if_true, Option.some.injEq]
      rw [List.mergeSort_of_pairwise (sortedB_pairwise hc.2), ← h, ← (pick_spec hp).1, List.map_take]
    · simp [hc] at h

def stepS (cfg : Cfg) (it : Nat) (o : StepOracle) (s : RunState) : Option RunState :=
  match Runs.generate cfg.eq cfg.N o.children [] with
  | none => none
  | some offs =>
    let res := evalSerial cfg.env (freshFrom s.nextKey cfg.prec offs) s.world
    match res.1 with
    | some _ => none
    | none =>
      let merged := res.2.1 ++ copiesFrom (s.nextKey + offs.length) cfg.prec s.parents
      match sortCrowd merged with
      | none => none
      | some fc =>
        match truncS (mkInds merged fc) cfg.N o.setOrder with
        | none => none
        | some r =>
          match allSome (r.map (member? merged fc (it + 2))) with
          | none => none
          | some surv =>
            some { parents := surv, nextKey := s.nextKey + offs.length + s.parents.length,
                   world := res.2.2, recorded := s.recorded ++ surv }

theorem stepS_sound {cfg : Cfg} {it : Nat} {o : StepOracle} {s s' : RunState}
    (h : stepS cfg it o s = some s') : nsga2Step cfg it o s = some s' := by
  unfold stepS at h
  unfold nsga2Step
  cases hg : Runs.generate cfg.eq cfg.N o.children [] with
  | none => simp [hg] at h
  | some offs =>
    simp only [hg] at h ⊢
    cases he : (evalSerial cfg.env (freshFrom s.nextKey cfg.prec offs) s.world).1 with
    | some e => simp [he] at h
    | none =>
      simp only [he] at h ⊢
      cases hs : sortCrowd ((evalSerial cfg.env (freshFrom s.nextKey cfg.prec offs) s.world).2.1 ++
          copiesFrom (s.nextKey + offs.length) cfg.prec s.parents) with
      | none => simp [hs] at h
      | some fc =>
        simp only [hs] at h ⊢
        cases ht : truncS (mkInds ((evalSerial cfg.env (freshFrom s.nextKey cfg.prec offs) s.world).2.1 ++
            copiesFrom (s.nextKey + offs.length) cfg.prec s.parents) fc) cfg.N o.setOrder with
        | none => simp [ht] at h
        | some r =>
          simp only [ht] at h
          simp only [truncS_sound ht]
          exact h

def loopS (cfg : Cfg) : List Nat → List StepOracle → RunState → Option RunState
  | [], _, s => some s
  | _ :: _, [], _ => none
  | it :: its, o :: os, s =>
    match stepS cfg it o s with
    | none => none
    | some s' => loopS cfg its os s'

theorem loopS_sound {cfg : Cfg} : ∀ (its : List Nat) (os : List StepOracle) (s s' : RunState),
    loopS cfg its os s = some s' → nsga2Loop cfg its os s = some s' := by
  intro its
  induction its with
  | nil => intro os s s' h; simpa [loopS, nsga2Loop] using h
  | cons it its ih =>
    intro os s s' h
    cases os with
    | nil => simp [loopS] at h
    | cons o os =>
      simp only [loopS] at h
      cases hs : stepS cfg it o s with
      | none => simp [hs] at h
      | some s1 =>
        simp only [hs] at h
        simp only [nsga2Loop, stepS_sound hs]
        exact ih os s1 s' h

def runS (cfg : Cfg) (G : Nat) (init : List Vec) (steps : List StepOracle) : Option RunResult :=
  match nsga2Init cfg init with
  | none => none
  | some s0 =>
    match loopS cfg (List.range (G - 1)) steps s0 with
    | none => none
    | some s => some { recorded := s.recorded, evals := okCalls s.world, world := s.world, final := s.parents }

theorem runS_sound {cfg : Cfg} {G : Nat} {init : List Vec} {steps : List StepOracle}
    (h : (runS cfg G init steps).isSome = true) : ∃ r, nsga2Run cfg G init steps = some r := by
  unfold runS at h
  unfold nsga2Run
  cases h0 : nsga2Init cfg init with
  | none => simp [h0] at h
  | some s0 =>
    simp only [h0] at h ⊢
    cases hl : loopS cfg (List.range (G - 1)) steps s0 with
    | none => simp [hl] at h
    | some s => exact ⟨_, by simp only [loopS_sound _ _ _ _ hl]; rfl⟩

theorem runS_sound_P {cfg : Cfg} {G : Nat} {init : List Vec} {steps : List StepOracle} (P : RunResult → Bool)
    (h : (runS cfg G init steps).map P = some true) : ∃ r, nsga2Run cfg G init steps = some r ∧ P r = true := by
  cases hr : runS cfg G init steps with
  | none => simp [hr] at h
  | some r =>
    rw [hr] at h
    simp only [Option.map_some, Option.some.injEq] at h
    refine ⟨r, ?_, h⟩
    unfold runS at hr
    unfold nsga2Run
    cases h0 : nsga2Init cfg init with
    | none => simp [h0] at hr
    | some s0 =>
      simp only [h0] at hr ⊢
      cases hl : loopS cfg (List.range (G - 1)) steps s0 with
      | none => simp [hl] at hr
      | some s =>
        simp only [hl] at hr
        simp only [loopS_sound _ _ _ _ hl]
        exact hr

end Artap.Nsga2
