import ArtapModel.Model.Nsga2
import ArtapModel.Props.C02
import ArtapModel.Props.C03
import ArtapModel.Proofs.Eval
/-!
# Helper lemmas for the composed NSGA-II / ε-MOEA run model (`Model/Nsga2.lean`)

Property theorems are in `Props/C09.lean`.
-/
namespace Artap.Nsga2
open Artap Artap.Eval Artap.Proto

/-! ## `allSome` -/

theorem allSome_eq_some {α} : ∀ {l : List (Option α)} {r : List α}, allSome l = some r → l = r.map some
  | [], r, h => by simp [allSome] at h; subst h; rfl
  | none :: l, r, h => by simp [allSome] at h
  | some a :: l, r, h => by
    simp only [allSome, Option.map_eq_some_iff] at h
    obtain ⟨t, ht, rfl⟩ := h
    rw [allSome_eq_some ht]; rfl

theorem allSome_length {α} {l : List (Option α)} {r : List α} (h : allSome l = some r) :
    r.length = l.length := by
  rw [allSome_eq_some h]; simp

theorem allSome_get {α} {l : List (Option α)} {r : List α} (h : allSome l = some r) (i : Nat)
    (hi : i < r.length) : l[i]? = some (some r[i]) := by
  rw [allSome_eq_some h]; simp [hi]

theorem allSome_map_range {α} {n : Nat} {f : Nat → Option α} {r : List α}
    (h : allSome ((List.range n).map f) = some r) :
    r.length = n ∧ ∀ i (hi : i < r.length), f i = some r[i] := by
  have hl := allSome_length h
  simp only [List.length_map, List.length_range] at hl
  refine ⟨hl, fun i hi => ?_⟩
  have := allSome_get h i hi
  rw [List.getElem?_map, List.getElem?_range (by omega)] at this
  simpa using this

theorem allSome_map {α β} {l : List α} {f : α → Option β} {r : List β}
    (h : allSome (l.map f) = some r) :
    r.length = l.length ∧ ∀ i (hi : i < r.length) (hl : i < l.length), f l[i] = some r[i] := by
  have hl := allSome_length h
  simp only [List.length_map] at hl
  refine ⟨hl, fun i hi hl' => ?_⟩
  have := allSome_get h i hi
  rw [List.getElem?_map, List.getElem?_eq_getElem hl'] at this
  simpa using this

/-! ## Sorting: `peelF` is `peel` -/

theorem peelF_fst : ∀ (fuel : Nat) (s : SortState) (cur : List Nat) (k : Nat) (acc : List (List Nat)),
    (peelF fuel s cur k acc).map (·.1) = peel fuel s cur k := by
  intro fuel
  induction fuel with
  | zero =>
    intro s cur k acc
    unfold peelF peel
    by_cases h : cur.isEmpty <;> simp [h]
  | succ fuel ih =>
    intro s cur k acc
    unfold peelF peel
    by_cases h : cur.isEmpty
    · simp [h]
    · simp only [h, Bool.false_eq_true, if_false]
      exact ih _ _ _ _

theorem sortFronts_fnds {pop : List (List Rat × Int)} {fronts : List (Option Nat)} {lists : List (List Nat)}
    (h : sortFronts pop = some (fronts, lists)) : fnds? pop = some fronts := by
  unfold sortFronts at h
  unfold fnds? fndsCmp
  rw [← peelF_fst _ _ _ _ []]
  cases hp : peelF (pop.length + 1) (phase1 (popCmp pop) pop.length).1 (phase1 (popCmp pop) pop.length).2 1 [] with
  | none => rw [hp] at h; simp at h
  | some r =>
    rw [hp] at h
    simp only [Option.map_some, Option.some.injEq, Prod.mk.injEq] at h
    simp [h.1]

/-! ## `signedPop`, `sortCrowd` -/

theorem signedPop_spec {ds : List Design} {pop : List (List Rat × Int)} (h : signedPop ds = some pop) :
    pop.length = ds.length ∧
    ∀ i (hi : i < pop.length) (hd : i < ds.length), ds[i].marker = some pop[i].2 ∧ ds[i].signed = pop[i].1 := by
  obtain ⟨hl, hg⟩ := allSome_map h
  refine ⟨hl, fun i hi hd => ?_⟩
  have := hg i hi hd
  cases hm : ds[i].marker with
  | none => rw [hm] at this; simp at this
  | some m =>
    rw [hm] at this
    simp only [Option.map_some, Option.some.injEq] at this
    rw [← this]; exact ⟨rfl, rfl⟩

/-- What a successful `fast_nondominated_sorting` returns: one entry per member, whose front
number is the one the sorting model `fnds` (C02) assigns. -/
theorem sortCrowd_spec {ds : List Design} {fc : List (Nat × Option Rat)} (h : sortCrowd ds = some fc) :
    ∃ pop, signedPop ds = some pop ∧ fc.length = ds.length ∧
      ∀ i (hi : i < fc.length), rankOf pop i = some fc[i].1 := by
  unfold sortCrowd at h
  cases hp : signedPop ds with
  | none => simp [hp] at h
  | some pop =>
    simp only [hp] at h
    cases hf : sortFronts pop with
    | none => simp [hf] at h
    | some fl =>
      obtain ⟨fronts, lists⟩ := fl
      simp only [hf] at h
      cases hc : crowdAll (pop.map (·.1)) lists with
      | none => simp [hc] at h
      | some cd =>
        simp only [hc] at h
        obtain ⟨hl, hget⟩ := allSome_map_range h
        refine ⟨pop, rfl, hl, fun i hi => ?_⟩
        have hi' := hget i hi
        have e := sortFronts_fnds hf
        unfold rankOf fnds; rw [e]
        cases hfi : fronts[i]?.join with
        | none => simp [hfi] at hi'
        | some f =>
          cases hcd : cd.find? (fun p => p.1 == i) with
          | none => simp [hfi, hcd] at hi'
          | some p =>
            simp only [hfi, hcd, Option.some.injEq] at hi'
            rw [← hi']

/-! ## `designId`, `mkInds`, `member?` -/

theorem designId_lt {ds : List Design} {i : Nat} (hi : i < ds.length) : designId ds ds[i].vec < ds.length := by
  unfold designId
  apply List.findIdx_lt_length_of_exists
  exact ⟨ds[i], List.getElem_mem hi, by simp⟩

theorem designId_vec {ds : List Design} {i : Nat} (hi : i < ds.length) :
    (ds[designId ds ds[i].vec]'(designId_lt hi)).vec = ds[i].vec := by
  have h := List.findIdx_getElem (p := fun d : Design => decide (d.vec = ds[i].vec)) (xs := ds) (w := designId_lt hi)
  exact of_decide_eq_true h

theorem designId_inj {ds : List Design} {i j : Nat} (hi : i < ds.length) (hj : j < ds.length) :
    designId ds ds[i].vec = designId ds ds[j].vec ↔ ds[i].vec = ds[j].vec := by
  constructor
  · intro h
    have a := designId_vec hi
    have b := designId_vec hj
    simp only [h] at a
    rw [← a, b]
  · intro h; rw [h]

theorem mkInds_length {ds : List Design} {fc : List (Nat × Option Rat)} (h : fc.length = ds.length) :
    (mkInds ds fc).length = ds.length := by
  simp [mkInds, h]

theorem mkInds_get {ds : List Design} {fc : List (Nat × Option Rat)} (h : fc.length = ds.length)
    (i : Nat) (hi : i < ds.length) :
    (mkInds ds fc)[i]'(by rw [mkInds_length h]; exact hi) =
      { design := designId ds ds[i].vec, front := (fc[i]'(by omega)).1,
        crowd := encCrowd (fc.map (·.2)) (fc[i]'(by omega)).2 } := by
  simp [mkInds]

theorem member?_some {ds : List Design} {fc : List (Nat × Option Rat)} {tag i : Nat} {m : Member}
    (h : member? ds fc tag i = some m) :
    ∃ (hd : i < ds.length) (hf : i < fc.length), m = { d := ds[i], front := fc[i].1, crowd := fc[i].2, tag := tag } := by
  unfold member? at h
  cases h1 : ds[i]? with
  | none => simp [h1] at h
  | some d =>
    cases h2 : fc[i]? with
    | none => simp [h1, h2] at h
    | some p =>
      simp only [h1, h2, Option.some.injEq] at h
      obtain ⟨hd, e1⟩ := List.getElem?_eq_some_iff.1 h1
      obtain ⟨hf, e2⟩ := List.getElem?_eq_some_iff.1 h2
      exact ⟨hd, hf, by rw [← h, e1, e2]⟩

/-- The survivors looked up from the truncation result. -/
theorem survivors_spec {ds : List Design} {fc : List (Nat × Option Rat)} {tag : Nat} {r : List Nat}
    {surv : List Member} (h : allSome (r.map (member? ds fc tag)) = some surv) :
    surv.length = r.length ∧
    ∀ k (hk : k < surv.length) (hr : k < r.length), ∃ (hd : r[k] < ds.length) (hf : r[k] < fc.length),
      surv[k] = { d := ds[r[k]], front := fc[r[k]].1, crowd := fc[r[k]].2, tag := tag } := by
  obtain ⟨hl, hg⟩ := allSome_map h
  exact ⟨hl, fun k hk hr => member?_some (hg k hk hr)⟩

/-! ## Evaluation: counting successful calls, costs as a function of the design -/

/-- The objective is a function of the vector whenever it succeeds (it may still fail at will). -/
def Pure (env : Env) (f : Vec → List Rat) : Prop := ∀ key n v c, env.obj key n v = .ok c → c = f v

/-- The marker of a design that was never marked feasible before, as a function of its vector. -/
def markerFn (env : Env) (v : Vec) : Int := markerOf (feasAfter (env.cons v) .dflt)

theorem markerOf_feasAfter (g : List Rat) (fz : Feas) (hf : fz ≠ .yes) :
    markerOf (feasAfter g fz) = markerOf (feasAfter g .dflt) := by
  unfold feasAfter
  by_cases hg : g.isEmpty
  · simp only [hg, if_true]
    cases fz <;> simp_all [markerOf, Feas.truthy]
  · simp [hg]

/-- "Costs are a function of the design": signed costs and marker of `d` are those of its vector. -/
structure Good (env : Env) (f : Vec → List Rat) (prec : Nat) (d : Design) : Prop where
  signed : d.signed = signedCosts env prec (f d.vec)
  marker : d.marker = some (markerFn env d.vec)

theorem attempts_good {env : Env} {f : Vec → List Rat} (hp : Pure env f) :
    ∀ (k : Nat) (d : Design) (w : World), d.feasible ≠ .yes → (attempts env k d w).1 = none →
      Good env f d.prec (attempts env k d w).2.1 := by
  intro k
  induction k with
  | zero => intro d w _ h; simp [attempts] at h
  | succ k ih =>
    intro d w hf h
    cases ho : env.obj d.key d.ncalls d.vec with
    | ok c =>
      have hc := hp _ _ _ _ ho
      simp only [attempts, ho]
      exact ⟨by simp [succeed, hc], by simp [succeed, markerFn, markerOf_feasAfter _ _ hf]⟩
    | fatal t => simp [attempts, ho] at h
    | transient t =>
      simp only [attempts, ho] at h ⊢
      exact ih (failDesign env d) (failWorld d w) (by simp [failDesign]) h

theorem attempts_count (env : Env) (k : Nat) (d : Design) (w : World) (h : (attempts env k d w).1 = none) :
    (attempts env k d w).2.2.log.length + w.failed.length =
      w.log.length + (attempts env k d w).2.2.failed.length + 1 := by
  obtain ⟨fs, _, hf, _, _, hl, _⟩ := attempts_shape env k d w
  rw [hl, hf]
  simp [h]
  omega

/-- A batch of EMPTY designs evaluated without an exception: exactly one successful call per
design (`log` grows by one more than `failed` for each). -/
theorem evalSerial_count (env : Env) : ∀ (ds : List Design) (w : World),
    (∀ d ∈ ds, d.state = .empty) → (evalSerial env ds w).1 = none →
    (evalSerial env ds w).2.1.length = ds.length ∧
    (evalSerial env ds w).2.2.log.length + w.failed.length =
      w.log.length + (evalSerial env ds w).2.2.failed.length + ds.length := by
  intro ds
  induction ds with
  | nil => intro w _ _; simp [evalSerial]
  | cons d ds ih =>
    intro w he h
    have hs : d.state = .empty := he d (by simp)
    have hne : d.state ≠ .evaluated := by rw [hs]; decide
    rcases hj : jobEvaluate env d w with ⟨r, d', w'⟩
    cases r with
    | some e' => simp [evalSerial, hs, hj] at h
    | none =>
      simp only [evalSerial, hs, if_true, hj] at h ⊢
      have hi := ih w' (fun x hx => he x (by simp [hx])) (by
        rcases he2 : evalSerial env ds w' with ⟨r2, ds2, w2⟩
        rw [he2] at h; simpa using h)
      have hj' := hj
      simp only [jobEvaluate, hne, if_false] at hj'
      have h1 : (attempts env 5 d w).1 = none := by rw [hj']
      have hc := attempts_count env 5 d w h1
      rw [hj'] at hc
      simp only at hc
      rcases he2 : evalSerial env ds w' with ⟨r2, ds2, w2⟩
      rw [he2] at hi
      simp only at hi ⊢
      refine ⟨by simp [hi.1], ?_⟩
      simp only [List.length_cons]
      omega

theorem evalSerial_good {env : Env} {f : Vec → List Rat} (hp : Pure env f) (prec : Nat) :
    ∀ (ds : List Design) (w : World),
    (∀ d ∈ ds, d.state = .empty ∧ d.feasible ≠ .yes ∧ d.prec = prec) → (evalSerial env ds w).1 = none →
    ∀ r ∈ (evalSerial env ds w).2.1, Good env f prec r := by
  intro ds
  induction ds with
  | nil => intro w _ _ r hr; simp [evalSerial] at hr
  | cons d ds ih =>
    intro w he h
    obtain ⟨hs, hfz, hpr⟩ := he d (by simp)
    have hne : d.state ≠ .evaluated := by rw [hs]; decide
    rcases hj : jobEvaluate env d w with ⟨r, d', w'⟩
    cases r with
    | some e' => simp [evalSerial, hs, hj] at h
    | none =>
      simp only [evalSerial, hs, if_true, hj] at h ⊢
      have hj' := hj
      simp only [jobEvaluate, hne, if_false] at hj'
      have h1 : (attempts env 5 d w).1 = none := by rw [hj']
      have hg := attempts_good hp 5 d w hfz h1
      rw [hj', hpr] at hg
      simp only at hg
      rcases he2 : evalSerial env ds w' with ⟨r2, ds2, w2⟩
      have hi := ih w' (fun x hx => he x (by simp [hx])) (by rw [he2]; rw [he2] at h; simpa using h)
      rw [he2] at hi
      simp only at hi ⊢
      intro r hr
      rcases List.mem_cons.1 hr with rfl | hr
      · exact hg
      · exact hi r hr

theorem freshFrom_props (s p : Nat) (vs : List Vec) :
    ∀ d ∈ freshFrom s p vs, d.state = .empty ∧ d.feasible ≠ .yes ∧ d.prec = p := by
  induction vs generalizing s with
  | nil => intro d hd; simp [freshFrom] at hd
  | cons v vs ih =>
    intro d hd
    simp only [freshFrom, List.mem_cons] at hd
    rcases hd with rfl | hd
    · simp [fresh]
    · exact ih _ d hd

end Artap.Nsga2
