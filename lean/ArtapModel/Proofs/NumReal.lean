import ArtapModel.Model.Num
import Mathlib.Analysis.SpecialFunctions.Trigonometric.Basic
import Mathlib.Analysis.SpecialFunctions.Pow.Real
import Mathlib.Analysis.SpecialFunctions.Sqrt
/-! # The real-number interpretation of `Num` (what the C15/C16 theorems are about) -/
namespace Artap

noncomputable instance instNumReal : Num ℝ where
  add := (· + ·)
  sub := (· - ·)
  mul := (· * ·)
  div := (· / ·)
  neg := fun x => -x
  ofNat := fun n => (n : ℝ)
  ofRat := fun r => (r : ℝ)
  sin := Real.sin
  cos := Real.cos
  exp := Real.exp
  sqrt := Real.sqrt
  abs := fun x => |x|
  pow := fun x y => x ^ y
  pi := Real.pi

section
open scoped Artap.NumOps
@[simp] theorem real_add (a b : ℝ) : Num.add a b = a + b := rfl
@[simp] theorem real_sub (a b : ℝ) : Num.sub a b = a - b := rfl
@[simp] theorem real_mul (a b : ℝ) : Num.mul a b = a * b := rfl
@[simp] theorem real_div (a b : ℝ) : Num.div a b = a / b := rfl
@[simp] theorem real_neg (a : ℝ) : Num.neg a = -a := rfl
@[simp] theorem real_ofNat (n : Nat) : (Num.ofNat n : ℝ) = (n : ℝ) := rfl
@[simp] theorem real_ofRat (r : Rat) : (Num.ofRat r : ℝ) = (r : ℝ) := rfl
@[simp] theorem real_sin (a : ℝ) : Num.sin a = Real.sin a := rfl
@[simp] theorem real_cos (a : ℝ) : Num.cos a = Real.cos a := rfl
@[simp] theorem real_exp (a : ℝ) : Num.exp a = Real.exp a := rfl
@[simp] theorem real_sqrt (a : ℝ) : Num.sqrt a = Real.sqrt a := rfl
@[simp] theorem real_abs (a : ℝ) : Num.abs a = |a| := rfl
@[simp] theorem real_pow (a b : ℝ) : Num.pow a b = a ^ b := rfl
@[simp] theorem real_pi : (Num.pi : ℝ) = Real.pi := rfl
end

end Artap
