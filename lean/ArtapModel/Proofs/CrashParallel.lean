import ArtapModel.Props.C07
import ArtapModel.Proofs.Crash
/-!
# Composition of the schedule model (C07) and the crash model (C11)

Every scheduling step of `Conc.run` is turned into store events: a step whose action writes a row performs
that upsert on a connection of its own and commits it (`sync_individual`), every other step does not touch
the file.  Helper lemmas for `Props/C11.lean`'s `parallel_crash_rows_final`.
-/
namespace Artap.CrashPar
open Artap.Conc Artap.Crash Artap.C07

/-- store events of the scheduling step "task `t` executes its next action" in state `s` (step number `n`
serves as the connection id: every synchronisation opens its own connection). -/
def stepEvents (P : Prob) (s : Sys Design Row) (n t : Nat) : List (Ev Row) :=
  match s.locals[t]?, s.pc[t]? with
  | some l, some k =>
    match (jobProg P)[k]? with
    | some a =>
      match a.write (a.upd l) with
      | some b => [Ev.upsert n t b, Ev.commit n]
      | none => [Ev.other]
    | none => [Ev.other]
  | _, _ => [Ev.other]

/-- the event trace of a whole schedule -/
def traceOf (P : Prob) : List Nat → Sys Design Row → Nat → List (Ev Row)
  | [], _, _ => []
  | t :: σ, s, n => stepEvents P s n t ++ traceOf P σ (step (jobProg P) s t) (n + 1)

/-- every design's triple is what some number of its own steps makes of its initial state -/
def Reach (P : Prob) (ds : List Design) (s : Sys Design Row) : Prop :=
  WF s ds.length ∧ ∀ t (ht : t < ds.length), ∃ m, view s t = some (iter (tstep (jobProg P)) m (ds[t], none, 0))

theorem reach_init (P : Prob) (ds : List Design) : Reach P ds (init ds) :=
  ⟨init_wf ds, fun t ht => ⟨0, by rw [init_view ds t ht]; rfl⟩⟩

theorem reach_step (P : Prob) (ds : List Design) {s : Sys Design Row} (h : Reach P ds s) (u : Nat) :
    Reach P ds (step (jobProg P) s u) := by
  refine ⟨step_wf _ h.1 u, fun t ht => ?_⟩
  obtain ⟨m, hm⟩ := h.2 t ht
  rw [step_view _ h.1]
  by_cases e : u = t
  · subst e
    refine ⟨m + 1, ?_⟩
    simp only [if_true, hm, Option.map_some, iter_succ']
  · exact ⟨m, by simp [e, hm]⟩

/-- the state of one design after `m` of its own steps, in closed form as far as the write is concerned:
a row is written exactly by the fifth action, and it is the design's final row -/
theorem write_is_final (P : Prob) (d : Design) (m : Nat) (l : Design) (b0 : Option Row) (k : Nat)
    (hv : iter (tstep (jobProg P)) m (d, none, 0) = (l, b0, k)) (a : Action Design Row)
    (ha : (jobProg P)[k]? = some a) (b : Row) (hb : a.write (a.upd l) = some b) :
    some b = finalRow P d := by
  -- only index 4 writes
  have hk : k = 4 := by
    rcases k with _ | _ | _ | _ | _ | k
    all_goals first
      | rfl
      | (simp [jobProg] at ha; try (subst ha; simp at hb))
  subst hk
  -- pc = 4 forces m = 4
  have hm : m = 4 := by
    have pcs : ∀ j, (iter (tstep (jobProg P)) j (d, none, 0)).2.2 = min j 5 := by
      intro j
      have fix : ∀ v : Design × Option Row × Nat, v.2.2 = 5 → tstep (jobProg P) v = v := by
        rintro ⟨l', b', k'⟩ h; simp only at h; subst h; simp [tstep, jobProg]
      have h5 : (iter (tstep (jobProg P)) 5 (d, none, 0)).2.2 = 5 := by rw [(job_alone P d).1]
      rcases j with _ | _ | _ | _ | _ | _ | j
      · rfl
      · simp [iter, tstep, jobProg]
      · simp [iter, tstep, jobProg]
      · simp [iter, tstep, jobProg]
      · simp [iter, tstep, jobProg]
      · simpa using h5
      · have : ∀ i, iter (tstep (jobProg P)) (5 + i) (d, none, 0) = iter (tstep (jobProg P)) 5 (d, none, 0) := by
          intro i
          induction i with
          | zero => rfl
          | succ i ih =>
            rw [show 5 + (i + 1) = (5 + i) + 1 by omega, iter_succ', ih]
            exact fix _ h5
        have e : j + 1 + 1 + 1 + 1 + 1 + 1 = 5 + (j + 1) := by omega
        rw [e, this (j + 1), h5]; omega
    have := pcs m
    rw [hv] at this
    simp only at this
    omega
  subst hm
  -- compute the four steps and the fifth action's write
  simp only [jobProg, List.getElem?_cons_succ, List.getElem?_cons_zero, Option.some.injEq] at ha
  subst ha
  by_cases he : d.state = St.evaluated
  · simp [iter, tstep, jobProg, he] at hv
    obtain ⟨rfl, _, _⟩ := hv
    simp at hb
  · cases hc : P.cons d.vec with
    | nil =>
      simp [iter, tstep, jobProg, he, hc] at hv
      obtain ⟨rfl, _, _⟩ := hv
      simp at hb
      subst hb
      simp [finalRow, finalDesign, he, hc]
      cases d.feasible <;> rfl
    | cons g gs =>
      simp [iter, tstep, jobProg, he, hc] at hv
      obtain ⟨rfl, _, _⟩ := hv
      simp at hb
      subst hb
      simp [finalRow, finalDesign, he, hc]

theorem upsert_in_trace (P : Prob) (ds : List Design) (σ : List Nat) (s : Sys Design Row) (n : Nat)
    (h : Reach P ds s) (c id : Nat) (b : Row) (hmem : Ev.upsert c id b ∈ traceOf P σ s n) :
    ∃ (hid : id < ds.length), some b = finalRow P ds[id] := by
  induction σ generalizing s n with
  | nil => simp [traceOf] at hmem
  | cons t σ ih =>
    simp only [traceOf, List.mem_append] at hmem
    rcases hmem with hm | hm
    · unfold stepEvents at hm
      cases hl : s.locals[t]? with
      | none => simp [hl] at hm
      | some l =>
        cases hp : s.pc[t]? with
        | none => simp [hl, hp] at hm
        | some k =>
          simp only [hl, hp] at hm
          cases ha : (jobProg P)[k]? with
          | none => simp [ha] at hm
          | some a =>
            simp only [ha] at hm
            cases hw : a.write (a.upd l) with
            | none => simp [hw] at hm
            | some b' =>
              simp only [hw, List.mem_cons, Ev.upsert.injEq, reduceCtorEq, or_false, List.not_mem_nil] at hm
              obtain ⟨_, rfl, rfl⟩ := hm
              have ht : id < ds.length := by
                have := h.1.1
                have hlt : id < s.locals.length := by
                  rcases Nat.lt_or_ge id s.locals.length with h1 | h1
                  · exact h1
                  · rw [List.getElem?_eq_none_iff.mpr h1] at hl; cases hl
                omega
              obtain ⟨m, hm'⟩ := h.2 id ht
              -- read the triple off the view
              have hs : id < s.store.length := by have := h.1.2.1; omega
              have hview : view s id = some (l, s.store[id], k) := by
                unfold view
                rw [hl, hp, List.getElem?_eq_getElem hs]
              rw [hview] at hm'
              have e := (Option.some.inj hm').symm
              exact ⟨ht, write_is_final P ds[id] m l _ k e a ha b hw⟩
    · exact ih _ _ (reach_step P ds h t) hm

end Artap.CrashPar
