import ArtapModel.Model.Sorting
import ArtapModel.Props.C01
import Mathlib.Data.List.Perm.Subperm
/-!
# Helper lemmas for C02 (non-dominated sorting); property theorems are in `Props/C02.lean`

Everything here is about an abstract verdict function `cmp : Nat → Nat → Nat` on positions
`< n` that behaves like a strict partial order (`CmpOK`); `Props/C02.lean` instantiates it
with `popCmp pop` through the C01 theorems.
-/
namespace Artap

/-! ## Counting over `range n` -/

def cnt (n : Nat) (f : Nat → Bool) : Nat := (List.range n).countP f

theorem cnt_succ (n : Nat) (f : Nat → Bool) : cnt (n + 1) f = cnt n f + (if f n then 1 else 0) := by
  simp [cnt, List.range_succ, List.countP_append, List.countP_cons]

theorem cnt_congr {n : Nat} {f g : Nat → Bool} (h : ∀ p, p < n → f p = g p) : cnt n f = cnt n g := by
  induction n with
  | zero => simp [cnt]
  | succ n ih =>
    rw [cnt_succ, cnt_succ, ih (fun p hp => h p (by omega)), h n (by omega)]

theorem cnt_le {n : Nat} {f g : Nat → Bool} (h : ∀ p, p < n → f p = true → g p = true) :
    cnt n f ≤ cnt n g := by
  induction n with
  | zero => simp [cnt]
  | succ n ih =>
    rw [cnt_succ, cnt_succ]
    have := ih (fun p hp => h p (by omega))
    have h2 := h n (by omega)
    (cases hf : f n <;> cases hg : g n <;> simp_all); omega

theorem cnt_lt {n : Nat} {f g : Nat → Bool} (h : ∀ p, p < n → f p = true → g p = true)
    (a : Nat) (ha : a < n) (hfa : f a = false) (hga : g a = true) : cnt n f < cnt n g := by
  induction n with
  | zero => omega
  | succ n ih =>
    rw [cnt_succ, cnt_succ]
    have hle := cnt_le (n := n) (fun p hp => h p (by omega))
    by_cases han : a = n
    · subst han; simp [hfa, hga]; omega
    · have := ih (fun p hp => h p (by omega)) (by omega)
      have h2 := h n (by omega)
      (cases hf : f n <;> cases hg : g n <;> simp_all); omega

theorem cnt_point {n : Nat} {f g : Nat → Bool} (a : Nat) (ha : a < n) (hfa : f a = false)
    (h : ∀ p, p < n → g p = (f p || p == a)) : cnt n g = cnt n f + 1 := by
  induction n with
  | zero => omega
  | succ n ih =>
    rw [cnt_succ, cnt_succ]
    by_cases han : a = n
    · subst han
      have hc : cnt a g = cnt a f := cnt_congr (fun p hp => by
        rw [h p (by omega)]
        have : (p == a) = false := by simp; omega
        simp [this])
      have hg : g a = true := by rw [h a (by omega)]; simp
      simp [hc, hfa, hg]
    · have := ih (by omega) (fun p hp => h p (by omega))
      have hn : g n = f n := by
        rw [h n (by omega)]
        have : (n == a) = false := by simp; omega
        simp [this]
      rw [this, hn]; omega

theorem cnt_eq_zero {n : Nat} {f : Nat → Bool} : cnt n f = 0 ↔ ∀ p, p < n → f p = false := by
  induction n with
  | zero => simp [cnt]
  | succ n ih =>
    rw [cnt_succ]
    constructor
    · intro h p hp
      have h1 : cnt n f = 0 := by omega
      by_cases hpn : p = n
      · subst hpn
        cases hf : f p
        · rfl
        · simp [hf] at h
      · exact ih.mp h1 p (by omega)
    · intro h
      have h1 := ih.mpr (fun p hp => h p (by omega))
      simp [h1, h n (by omega)]

/-! ## Views of the three feature lists -/

theorem getD_set {α} (l : List α) (i q : Nat) (v d : α) :
    (l.set i v).getD q d = if q = i ∧ i < l.length then v else l.getD q d := by
  simp only [List.getD_eq_getElem?_getD, List.getElem?_set]
  by_cases h : i = q
  · subst h
    by_cases h2 : i < l.length
    · simp [h2]
    · simp [h2]
  · have : ¬ q = i := fun e => h e.symm
    simp [h, this]

theorem getD_bump (l : List Int) (i q : Nat) (d : Int) :
    (bump l i d).getD q 0 = if q = i ∧ i < l.length then l.getD i 0 + d else l.getD q 0 := by
  unfold bump; rw [getD_set]

theorem length_bump (l : List Int) (i : Nat) (d : Int) : (bump l i d).length = l.length := by
  simp [bump]

theorem getD_push (l : List (List Nat)) (i x q : Nat) :
    (push l i x).getD q [] = if q = i ∧ i < l.length then l.getD i [] ++ [x] else l.getD q [] := by
  unfold push; rw [getD_set]

theorem length_push (l : List (List Nat)) (i x : Nat) : (push l i x).length = l.length := by
  simp [push]

theorem getD_replicate' {α} (n q : Nat) (v : α) : (List.replicate n v).getD q v = v := by
  simp only [List.getD_eq_getElem?_getD, List.getElem?_replicate]
  split <;> rfl

/-! ## The recurrence of the property and what follows from it alone -/

/-- `f q` is a front number `r ≥ 1`, every member that dominates `q` has a smaller one, and
`r = 1` or some dominator has `r − 1`: `r` is `1 +` the largest front number among the
dominators of `q`, and `1` when there are none. -/
def RecAt (dom : Nat → Nat → Prop) (f : Nat → Option Nat) (q : Nat) : Prop :=
  ∃ r, f q = some r ∧ 1 ≤ r ∧ (∀ p, dom p q → ∃ r', f p = some r' ∧ r' < r) ∧
    (r = 1 ∨ ∃ p r', dom p q ∧ f p = some r' ∧ r' + 1 = r)

/-- The recurrence at `q` only looks at `q` and at ranked members: it survives every
extension of the assignment. -/
theorem RecAt.mono {dom : Nat → Nat → Prop} {f g : Nat → Option Nat} {q : Nat}
    (h : RecAt dom f q) (hfg : ∀ x r, f x = some r → g x = some r) : RecAt dom g q := by
  obtain ⟨r, h1, h2, h3, h4⟩ := h
  refine ⟨r, hfg _ _ h1, h2, ?_, ?_⟩
  · intro p hp
    obtain ⟨r', a, b⟩ := h3 p hp
    exact ⟨r', hfg _ _ a, b⟩
  · rcases h4 with h4 | ⟨p, r', a, b, c⟩
    · exact Or.inl h4
    · exact Or.inr ⟨p, r', a, hfg _ _ b, c⟩

/-- Two assignments on two index sets related by `rel` (think: "same member"), each closed
under its recurrence, agree on related positions.  Induction on the front number. -/
theorem rec_unique_rel {domA domB : Nat → Nat → Prop} {f g : Nat → Option Nat}
    (inA inB : Nat → Prop) (rel : Nat → Nat → Prop)
    (hA : ∀ q, inA q → RecAt domA f q) (hB : ∀ q, inB q → RecAt domB g q)
    (hdA : ∀ p q, domA p q → inA p) (hdB : ∀ p q, domB p q → inB p)
    (toB : ∀ p i j, rel i j → domA p i → ∃ p', rel p p' ∧ domB p' j)
    (toA : ∀ p' i j, rel i j → domB p' j → ∃ p, rel p p' ∧ domA p i) :
    ∀ k i j, inA i → inB j → rel i j → (f i = some k ↔ g j = some k) := by
  intro k
  induction k using Nat.strong_induction_on with
  | _ k ih =>
    -- one direction, stated symmetrically
    have key : ∀ (dA dB : Nat → Nat → Prop) (f g : Nat → Option Nat) (iA iB : Nat → Prop)
        (rl : Nat → Nat → Prop),
        (∀ q, iA q → RecAt dA f q) → (∀ q, iB q → RecAt dB g q) →
        (∀ p q, dA p q → iA p) → (∀ p q, dB p q → iB p) →
        (∀ p i j, rl i j → dA p i → ∃ p', rl p p' ∧ dB p' j) →
        (∀ p' i j, rl i j → dB p' j → ∃ p, rl p p' ∧ dA p i) →
        (∀ m, m < k → ∀ i j, iA i → iB j → rl i j → (f i = some m ↔ g j = some m)) →
        ∀ i j, iA i → iB j → rl i j → f i = some k → g j = some k := by
      intro dA dB f g iA iB rl hA hB hdA hdB toB toA ih i j hi hj hr hf
      obtain ⟨r, fr, r1, rall, rex⟩ := hA i hi
      obtain ⟨s, gs, s1, sall, sex⟩ := hB j hj
      rw [hf] at fr
      have hrk : r = k := (Option.some.inj fr).symm
      subst hrk
      -- s ≥ r
      have hge : r ≤ s := by
        rcases rex with e | ⟨p, r', dp, fp, e⟩
        · omega
        · obtain ⟨p', rp, dp'⟩ := toB p i j hr dp
          have := (ih r' (by omega) p p' (hdA _ _ dp) (hdB _ _ dp') rp).mp fp
          obtain ⟨s', gs', lt⟩ := sall p' dp'
          rw [this] at gs'
          have : r' = s' := Option.some.inj gs'
          omega
      -- s ≤ r
      have hle : s ≤ r := by
        rcases sex with e | ⟨p', s', dp', gp', e⟩
        · omega
        · by_contra hlt
          obtain ⟨p, rp, dp⟩ := toA p' i j hr dp'
          obtain ⟨r', fp, lt⟩ := rall p dp
          have := (ih r' lt p p' (hdA _ _ dp) (hdB _ _ dp') rp).mp fp
          rw [this] at gp'
          have : r' = s' := Option.some.inj gp'
          omega
      have : s = r := by omega
      rw [gs, this]
    intro i j hi hj hr
    constructor
    · exact key domA domB f g inA inB rel hA hB hdA hdB toB toA ih i j hi hj hr
    · refine key domB domA g f inB inA (fun a b => rel b a) hB hA hdB hdA ?_ ?_ ?_ j i hj hi hr
      · intro p' j' i' hr' d
        obtain ⟨p, a, b⟩ := toA p' i' j' hr' d
        exact ⟨p, a, b⟩
      · intro p j' i' hr' d
        obtain ⟨p', a, b⟩ := toB p i' j' hr' d
        exact ⟨p', a, b⟩
      · intro m hm a b ha hb hab
        exact (ih m hm b a hb ha hab).symm

/-! ## Phase 1: the two nested comparison loops -/

structure CmpOK (n : Nat) (cmp : Nat → Nat → Nat) : Prop where
  two : ∀ i j, i < n → j < n → (cmp i j = 2 ↔ cmp j i = 1)
  irrefl : ∀ i, i < n → cmp i i ≠ 1
  trans : ∀ i j k, i < n → j < n → k < n → cmp i j = 1 → cmp j k = 1 → cmp i k = 1

theorem CmpOK.asymm {n cmp} (h : CmpOK n cmp) {i j : Nat} (hi : i < n) (hj : j < n)
    (h1 : cmp i j = 1) : cmp j i ≠ 1 :=
  fun h2 => h.irrefl i hi (h.trans i j i hi hj hi h1 h2)

structure Inv1 (n : Nat) (cmp : Nat → Nat → Nat) (P : Nat → Nat → Bool) (s : SortState) : Prop where
  lc : s.counter.length = n
  ld : s.dominate.length = n
  lf : s.front.length = n
  cn : ∀ q, q < n → s.counter.getD q 0 = ((cnt n (fun p => cmp p q == 1 && P p q) : Nat) : Int)
  nd : ∀ p, p < n → (s.dominate.getD p []).Nodup
  mem : ∀ p, p < n → ∀ q, q ∈ s.dominate.getD p [] ↔ (q < n ∧ cmp p q = 1 ∧ P p q = true)

theorem Inv1.win {n cmp P P' s} {a b : Nat} (hc : CmpOK n cmp) (ha : a < n) (hb : b < n)
    (h1 : cmp a b = 1) (hP : P a b = false)
    (hP2 : ∀ p q, p < n → q < n → P' p q = (P p q || (p == a && q == b) || (p == b && q == a)))
    (h : Inv1 n cmp P s) :
    Inv1 n cmp P' { s with dominate := push s.dominate a b, counter := bump s.counter b 1 } := by
  have hab : a ≠ b := fun e => hc.irrefl a ha (by rw [e] at h1 ⊢; exact h1)
  have h21 : cmp b a ≠ 1 := hc.asymm ha hb h1
  refine ⟨by simp [length_bump, h.lc], by simp [length_push, h.ld], h.lf, ?_, ?_, ?_⟩
  · intro q hq
    simp only [getD_bump, h.lc]
    by_cases hqb : q = b
    · subst hqb
      simp only [hq, and_self, if_true, h.cn q hq]
      rw [cnt_point a ha (f := fun p => cmp p q == 1 && P p q) (g := fun p => cmp p q == 1 && P' p q)]
      · push_cast; rfl
      · simp [hP]
      · intro p hp
        rw [hP2 p q hp hq]
        by_cases hpa : p = a
        · subst hpa; simp [h1]
        · grind
    · simp only [hqb, false_and, if_false]
      rw [h.cn q hq]
      congr 1
      apply cnt_congr
      intro p hp
      rw [hP2 p q hp hq]
      by_cases hpb : p = b
      · subst hpb
        by_cases hqa : q = a
        · subst hqa; simp [h21]
        · grind
      · grind
  · intro p hp
    simp only [getD_push, h.ld]
    by_cases hpa : p = a
    · subst hpa
      simp only [hp, and_self, if_true]
      rw [List.nodup_append]
      refine ⟨h.nd p hp, by simp, ?_⟩
      intro x hx y hy
      simp at hy
      subst hy
      intro e; subst e
      have := ((h.mem p hp x).mp hx).2.2
      rw [hP] at this; exact absurd this (by simp)
    · simp only [hpa, false_and, if_false]
      exact h.nd p hp
  · intro p hp q
    simp only [getD_push, h.ld]
    by_cases hpa : p = a
    · subst hpa
      simp only [hp, and_self, if_true, List.mem_append, List.mem_singleton, h.mem p hp q]
      constructor
      · rintro (⟨hq, c, pp⟩ | e)
        · exact ⟨hq, c, by rw [hP2 p q hp hq]; simp [pp]⟩
        · subst e; exact ⟨hb, h1, by rw [hP2 p q hp hb]; simp⟩
      · rintro ⟨hq, c, pp⟩
        rw [hP2 p q hp hq] at pp
        by_cases hqb : q = b
        · exact Or.inr hqb
        · left; refine ⟨hq, c, ?_⟩
          simpa [hqb, hab] using pp
    · simp only [hpa, false_and, if_false, h.mem p hp q]
      constructor
      · rintro ⟨hq, c, pp⟩
        exact ⟨hq, c, by rw [hP2 p q hp hq]; simp [pp]⟩
      · rintro ⟨hq, c, pp⟩
        refine ⟨hq, c, ?_⟩
        rw [hP2 p q hp hq] at pp
        by_cases hpb : p = b
        · subst hpb
          by_cases hqa : q = a
          · subst hqa; exact absurd c h21
          · simpa [hpa, hqa] using pp
        · simpa [hpa, hpb] using pp

theorem Inv1.skip {n cmp P P' s} {a b : Nat} (h1 : cmp a b ≠ 1) (h2 : cmp b a ≠ 1)
    (hP2 : ∀ p q, p < n → q < n → P' p q = (P p q || (p == a && q == b) || (p == b && q == a)))
    (h : Inv1 n cmp P s) : Inv1 n cmp P' s := by
  have key : ∀ p q, p < n → q < n → (cmp p q == 1 && P' p q) = (cmp p q == 1 && P p q) := by
    intro p q hp hq
    rw [hP2 p q hp hq]
    by_cases e1 : p = a ∧ q = b
    · obtain ⟨rfl, rfl⟩ := e1; simp [h1]
    · by_cases e2 : p = b ∧ q = a
      · obtain ⟨rfl, rfl⟩ := e2; simp [h2]
      · have x1 : (p == a && q == b) = false := by simpa using e1
        have x2 : (p == b && q == a) = false := by simpa using e2
        simp [x1, x2]
  refine ⟨h.lc, h.ld, h.lf, ?_, h.nd, ?_⟩
  · intro q hq
    rw [h.cn q hq]; congr 1; apply cnt_congr; intro p hp; exact (key p q hp hq).symm
  · intro p hp q
    rw [h.mem p hp q]
    constructor
    · rintro ⟨hq, c, pp⟩
      refine ⟨hq, c, ?_⟩
      have := key p q hp hq; grind
    · rintro ⟨hq, c, pp⟩
      refine ⟨hq, c, ?_⟩
      have := key p q hp hq; grind

/-- Which pairs the two nested loops of phase 1 have compared when the outer loop is at
`i0` and the inner one is about to compare `(i0, j0)`. -/
def Pij (i0 j0 p q : Nat) : Bool :=
  decide ((p < q ∧ (p < i0 ∨ (p = i0 ∧ q < j0))) ∨ (q < p ∧ (q < i0 ∨ (q = i0 ∧ p < j0))))

theorem Inv1.congr {n cmp P P' s}
    (key : ∀ p q, p < n → q < n → (cmp p q == 1 && P' p q) = (cmp p q == 1 && P p q))
    (h : Inv1 n cmp P s) : Inv1 n cmp P' s := by
  refine ⟨h.lc, h.ld, h.lf, ?_, h.nd, ?_⟩
  · intro q hq
    rw [h.cn q hq]; congr 1; apply cnt_congr; intro p hp; exact (key p q hp hq).symm
  · intro p hp q
    rw [h.mem p hp q]
    constructor
    · rintro ⟨hq, c, pp⟩
      refine ⟨hq, c, ?_⟩
      have := key p q hp hq; grind
    · rintro ⟨hq, c, pp⟩
      refine ⟨hq, c, ?_⟩
      have := key p q hp hq; grind

theorem Pij_step (i j p q : Nat) (hij : i < j) :
    Pij i (j + 1) p q = (Pij i j p q || (p == i && q == j) || (p == j && q == i)) := by
  unfold Pij
  rw [Bool.eq_iff_iff]
  simp only [Bool.or_eq_true, Bool.and_eq_true, decide_eq_true_eq, beq_iff_eq]
  omega

theorem Pij_step' (i j p q : Nat) (hij : i < j) :
    Pij i (j + 1) p q = (Pij i j p q || (p == j && q == i) || (p == i && q == j)) := by
  rw [Pij_step i j p q hij]
  cases Pij i j p q <;> cases (p == i && q == j) <;> cases (p == j && q == i) <;> rfl

theorem cmpStep_inv {n cmp s} {i j : Nat} (hc : CmpOK n cmp) (hij : i < j) (hj : j < n)
    (h : Inv1 n cmp (Pij i j) s) : Inv1 n cmp (Pij i (j + 1)) (cmpStep cmp i s j) := by
  have hi : i < n := by omega
  have hPf : Pij i j i j = false := by
    unfold Pij; simp only [decide_eq_false_iff_not]; omega
  have hPf' : Pij i j j i = false := by
    unfold Pij; simp only [decide_eq_false_iff_not]; omega
  unfold cmpStep
  split
  next h1 =>
    exact Inv1.win hc hi hj h1 hPf (fun p q _ _ => Pij_step i j p q hij) h
  next h2 =>
    have h1 : cmp j i = 1 := (hc.two i j hi hj).mp h2
    exact Inv1.win (a := j) (b := i) hc hj hi h1 hPf' (fun p q _ _ => Pij_step' i j p q hij) h
  next n1 n2 =>
    have h2 : cmp j i ≠ 1 := fun e => n2 ((hc.two i j hi hj).mpr e)
    exact Inv1.skip (a := i) (b := j) n1 h2 (fun p q _ _ => Pij_step i j p q hij) h

theorem cmpStep_front (cmp : Nat → Nat → Nat) (i j : Nat) (s : SortState) :
    (cmpStep cmp i s j).front = s.front := by
  unfold cmpStep; split <;> rfl

theorem foldl_cmpStep_front (cmp : Nat → Nat → Nat) (i : Nat) (l : List Nat) (s : SortState) :
    (l.foldl (cmpStep cmp i) s).front = s.front := by
  induction l generalizing s with
  | nil => rfl
  | cons j l ih => rw [List.foldl_cons, ih, cmpStep_front]

theorem inner_fold {n cmp} {i : Nat} (hc : CmpOK n cmp) :
    ∀ (m j0 : Nat) (s : SortState), j0 + m = n → i < j0 → Inv1 n cmp (Pij i j0) s →
      Inv1 n cmp (Pij i n) ((List.range' j0 m).foldl (cmpStep cmp i) s) := by
  intro m
  induction m with
  | zero =>
    intro j0 s hn _ h
    have : j0 = n := by omega
    subst this; simpa using h
  | succ m ih =>
    intro j0 s hn hij h
    rw [List.range'_succ, List.foldl_cons]
    exact ih (j0 + 1) _ (by omega) (by omega) (cmpStep_inv hc hij (by omega) h)

/-- `h q` of Appendix A.1: the number of members that dominate `q`. -/
def hcnt (n : Nat) (cmp : Nat → Nat → Nat) (q : Nat) : Nat := cnt n (fun p => cmp p q == 1)

structure Inv1o (n : Nat) (cmp : Nat → Nat → Nat) (i0 : Nat) (acc : SortState × List Nat) : Prop where
  inv : Inv1 n cmp (Pij i0 (i0 + 1)) acc.1
  fr : ∀ q, q < n → acc.1.front.getD q none = if q < i0 ∧ hcnt n cmp q = 0 then some 1 else none
  f1nd : acc.2.Nodup
  f1mem : ∀ q, q ∈ acc.2 ↔ q < i0 ∧ hcnt n cmp q = 0

theorem outerStep_inv {n cmp acc} {i : Nat} (hc : CmpOK n cmp) (hi : i < n)
    (h : Inv1o n cmp i acc) : Inv1o n cmp (i + 1) (outerStep cmp n acc i) := by
  have hs := inner_fold (i := i) hc (n - (i + 1)) (i + 1) acc.1 (by omega) (by omega) h.inv
  have hfront := foldl_cmpStep_front cmp i (List.range' (i + 1) (n - (i + 1))) acc.1
  generalize hsdef : (List.range' (i + 1) (n - (i + 1))).foldl (cmpStep cmp i) acc.1 = s at hs hfront
  have hci : s.counter.getD i 0 = ((hcnt n cmp i : Nat) : Int) := by
    rw [hs.cn i hi]; congr 1; unfold hcnt; apply cnt_congr
    intro p hp
    by_cases hpi : p = i
    · subst hpi
      have := hc.irrefl p hp
      simp [this]
    · have : Pij i n p i = true := by
        unfold Pij; simp only [decide_eq_true_eq]
        rcases Nat.lt_or_gt_of_ne hpi with h' | h'
        · exact Or.inl ⟨h', Or.inl h'⟩
        · exact Or.inr ⟨h', Or.inr ⟨trivial, hp⟩⟩
      simp [this]
  have hnext : Inv1 n cmp (Pij (i + 1) (i + 1 + 1)) s := by
    refine Inv1.congr ?_ hs
    intro p q hp hq
    have : Pij (i + 1) (i + 1 + 1) p q = Pij i n p q := by
      unfold Pij
      rw [Bool.eq_iff_iff]
      simp only [decide_eq_true_eq]
      omega
    rw [this]
  have hout : outerStep cmp n acc i =
      if s.counter.getD i 0 == 0 then ({ s with front := s.front.set i (some 1) }, acc.2 ++ [i])
      else (s, acc.2) := by
    unfold outerStep; simp only [hsdef]
  rw [hout]
  by_cases hz : hcnt n cmp i = 0
  · have : (s.counter.getD i 0 == 0) = true := by rw [hci, hz]; rfl
    simp only [this, if_true]
    refine ⟨⟨hnext.lc, hnext.ld, by simp [hnext.lf], hnext.cn, hnext.nd, hnext.mem⟩, ?_, ?_, ?_⟩
    · intro q hq
      simp only [getD_set, hfront, h.inv.lf]
      by_cases hqi : q = i
      · subst hqi; simp [hq, hz]
      · simp only [hqi, false_and, if_false, h.fr q hq]
        have : q < i + 1 ↔ q < i := by omega
        simp only [this]
    · rw [List.nodup_append]
      refine ⟨h.f1nd, by simp, ?_⟩
      intro a ha b hb
      simp at hb; subst hb
      have := ((h.f1mem a).mp ha).1
      omega
    · intro q
      simp only [List.mem_append, List.mem_singleton, h.f1mem q]
      constructor
      · rintro (⟨a, b⟩ | e)
        · exact ⟨by omega, b⟩
        · subst e; exact ⟨by omega, hz⟩
      · rintro ⟨a, b⟩
        by_cases hqi : q = i
        · exact Or.inr hqi
        · exact Or.inl ⟨by omega, b⟩
  · have : (s.counter.getD i 0 == 0) = false := by
      rw [hci]; simp only [beq_eq_false_iff_ne, ne_eq]; omega
    simp only [this, Bool.false_eq_true, if_false]
    refine ⟨hnext, ?_, h.f1nd, ?_⟩
    · intro q hq
      rw [hfront, h.fr q hq]
      by_cases hqi : q = i
      · subst hqi; simp [hz]
      · have : q < i + 1 ↔ q < i := by omega
        simp only [this]
    · intro q
      rw [h.f1mem q]
      constructor
      · rintro ⟨a, b⟩; exact ⟨by omega, b⟩
      · rintro ⟨a, b⟩
        refine ⟨?_, b⟩
        by_cases hqi : q = i
        · subst hqi; exact absurd b hz
        · omega

theorem init_inv (n : Nat) (cmp : Nat → Nat → Nat) : Inv1o n cmp 0 (SortState.init n, []) := by
  have hP : ∀ p q, Pij 0 (0 + 1) p q = false := by
    intro p q; unfold Pij; simp only [decide_eq_false_iff_not]; omega
  refine ⟨⟨by simp [SortState.init], by simp [SortState.init], by simp [SortState.init], ?_, ?_, ?_⟩,
    ?_, by simp, by simp⟩
  · intro q _
    have : cnt n (fun p => cmp p q == 1 && Pij 0 (0 + 1) p q) = 0 := by
      rw [cnt_eq_zero]; intro p _; simp [hP]
    rw [this]
    simp only [SortState.init]
    exact getD_replicate' n q 0
  · intro p _
    simp only [SortState.init]
    rw [getD_replicate']; simp
  · intro p _ q
    simp only [SortState.init]
    rw [getD_replicate']; simp [hP]
  · intro q _
    simp only [SortState.init]
    rw [getD_replicate']; simp

theorem phase1_inv {n cmp} (hc : CmpOK n cmp) :
    ∀ m, m ≤ n → Inv1o n cmp m ((List.range m).foldl (outerStep cmp n) (SortState.init n, [])) := by
  intro m
  induction m with
  | zero => intro _; simpa using init_inv n cmp
  | succ m ih =>
    intro hm
    rw [List.range_succ, List.foldl_append, List.foldl_cons, List.foldl_nil]
    exact outerStep_inv hc (by omega) (ih (by omega))

/-- `phase1_counts`: what the state looks like after the two nested loops. -/
structure Phase1Spec (n : Nat) (cmp : Nat → Nat → Nat) (s : SortState) (f1 : List Nat) : Prop where
  lc : s.counter.length = n
  ld : s.dominate.length = n
  lf : s.front.length = n
  cn : ∀ q, q < n → s.counter.getD q 0 = ((hcnt n cmp q : Nat) : Int)
  nd : ∀ p, p < n → (s.dominate.getD p []).Nodup
  mem : ∀ p, p < n → ∀ q, q ∈ s.dominate.getD p [] ↔ (q < n ∧ cmp p q = 1)
  fr : ∀ q, q < n → s.front.getD q none = if hcnt n cmp q = 0 then some 1 else none
  f1nd : f1.Nodup
  f1mem : ∀ q, q ∈ f1 ↔ q < n ∧ hcnt n cmp q = 0

theorem phase1_spec {n cmp} (hc : CmpOK n cmp) :
    Phase1Spec n cmp (phase1 cmp n).1 (phase1 cmp n).2 := by
  have h := phase1_inv hc n (Nat.le_refl n)
  have hP : ∀ p q, p < n → q < n → p ≠ q → Pij n (n + 1) p q = true := by
    intro p q hp hq hpq; unfold Pij; simp only [decide_eq_true_eq]; omega
  have key : ∀ p q, p < n → q < n → (cmp p q == 1 && Pij n (n + 1) p q) = (cmp p q == 1) := by
    intro p q hp hq
    by_cases hpq : p = q
    · subst hpq; simp [hc.irrefl p hp]
    · simp [hP p q hp hq hpq]
  unfold phase1
  refine ⟨h.inv.lc, h.inv.ld, h.inv.lf, ?_, h.inv.nd, ?_, ?_, h.f1nd, h.f1mem⟩
  · intro q hq
    rw [h.inv.cn q hq]; congr 1; unfold hcnt; apply cnt_congr; intro p hp; exact key p q hp hq
  · intro p hp q
    rw [h.inv.mem p hp q]
    constructor
    · rintro ⟨a, b, _⟩; exact ⟨a, b⟩
    · rintro ⟨a, b⟩
      refine ⟨a, b, ?_⟩
      have := key p q hp a; simp [b] at this; exact this
  · intro q hq
    rw [h.fr q hq]; simp [hq]

/-! ## Phase 2: the peeling `while` loop -/

/-- Dominance between positions of the population. -/
def domN (n : Nat) (cmp : Nat → Nat → Nat) (p q : Nat) : Prop := p < n ∧ q < n ∧ cmp p q = 1

/-- What phase 1 leaves in `dominate` (never changed afterwards). -/
def DomSpec (n : Nat) (cmp : Nat → Nat → Nat) (D : List (List Nat)) : Prop :=
  ∀ p, p < n → (D.getD p []).Nodup ∧ ∀ q, q ∈ D.getD p [] ↔ (q < n ∧ cmp p q = 1)

/-- Invariant of the peeling loop at pair granularity (Appendix A.1 of DESIGN.md).
`k` = front number of the front being processed, `proc` = members whose `dominate` list has
been (or is being) walked, `rest` = remainder of the current front, `nxt` = the front under
construction, `todo` = remainder of the `dominate` list being walked. -/
structure Inv2 (n : Nat) (cmp : Nat → Nat → Nat) (D : List (List Nat)) (k : Nat)
    (proc rest nxt todo : List Nat) (s : SortState) : Prop where
  lc : s.counter.length = n
  ld : s.dominate = D
  lf : s.front.length = n
  cn : ∀ q, q < n → s.counter.getD q 0 =
    ((cnt n (fun p => cmp p q == 1 && decide (p ∉ proc)) + (if q ∈ todo then 1 else 0) : Nat) : Int)
  fz : ∀ q, q < n → (s.front.getD q none = none ↔ s.counter.getD q 0 ≠ 0)
  rk : ∀ q, q < n → s.front.getD q none ≠ none → RecAt (domN n cmp) (fun x => s.front.getD x none) q
  pr : ∀ p, p ∈ proc → p < n ∧ ∃ r, s.front.getD p none = some r ∧ r ≤ k
  rs : ∀ p, p ∈ rest → p < n ∧ s.front.getD p none = some k
  nx : ∀ p, p ∈ nxt → p < n ∧ s.front.getD p none = some (k + 1)
  cov : ∀ q, q < n → s.front.getD q none ≠ none → q ∈ proc ∨ q ∈ rest ∨ q ∈ nxt
  nd1 : (proc ++ rest).Nodup
  nd2 : nxt.Nodup
  tdn : todo.Nodup
  td : ∀ q, q ∈ todo → q < n ∧ ∃ p, p ∈ proc ∧ cmp p q = 1 ∧ s.front.getD p none = some k

theorem decStep_inv {n cmp D k proc rest nxt todo s} {q0 : Nat} (hk : 1 ≤ k)
    (h : Inv2 n cmp D k proc rest nxt (q0 :: todo) s) :
    Inv2 n cmp D k proc rest (decStep (k + 1) (s, nxt) q0).2 todo (decStep (k + 1) (s, nxt) q0).1 := by
  obtain ⟨hq0, pw, pwm, pwd, pwk⟩ := h.td q0 (by simp)
  have hq0t : q0 ∉ todo := (List.nodup_cons.mp h.tdn).1
  have htn : todo.Nodup := (List.nodup_cons.mp h.tdn).2
  have hc0 := h.cn q0 hq0
  simp only [List.mem_cons, true_or, if_true] at hc0
  have hf0 : s.front.getD q0 none = none := by
    rw [h.fz q0 hq0, hc0]; push_cast; omega
  -- counters after the decrement
  have hcn' : ∀ q, q < n → (bump s.counter q0 (-1)).getD q 0 =
      ((cnt n (fun p => cmp p q == 1 && decide (p ∉ proc)) + (if q ∈ todo then 1 else 0) : Nat) : Int) := by
    intro q hq
    rw [getD_bump, h.lc]
    by_cases hqq : q = q0
    · subst hqq
      simp only [hq, and_self, if_true, hc0, hq0t, if_false]
      push_cast; omega
    · simp only [hqq, false_and, if_false, h.cn q hq, List.mem_cons, false_or]
  have hbq0 : (bump s.counter q0 (-1)).getD q0 0 =
      ((cnt n (fun p => cmp p q0 == 1 && decide (p ∉ proc)) : Nat) : Int) := by
    rw [hcn' q0 hq0]; simp [hq0t]
  have htd' : ∀ q, q ∈ todo → q < n ∧ ∃ p, p ∈ proc ∧ cmp p q = 1 ∧ s.front.getD p none = some k :=
    fun q hq => h.td q (List.mem_cons_of_mem _ hq)
  by_cases hz : cnt n (fun p => cmp p q0 == 1 && decide (p ∉ proc)) = 0
  · -- the counter reaches 0: `q0` joins the next front with front number `k + 1`
    have hstep : decStep (k + 1) (s, nxt) q0 =
        ({ counter := bump s.counter q0 (-1), dominate := s.dominate,
           front := s.front.set q0 (some (k + 1)) }, nxt ++ [q0]) := by
      unfold decStep
      simp only [hbq0, hz, hf0]
      rfl
    rw [hstep]
    have hfv : ∀ x, (s.front.set q0 (some (k + 1))).getD x none =
        if x = q0 then some (k + 1) else s.front.getD x none := by
      intro x; rw [getD_set, h.lf]; simp [hq0]
    have hmono : ∀ x r, s.front.getD x none = some r →
        (s.front.set q0 (some (k + 1))).getD x none = some r := by
      intro x r hx
      rw [hfv]
      by_cases e : x = q0
      · subst e; rw [hf0] at hx; exact absurd hx (by simp)
      · rw [if_neg e]; exact hx
    have hall : ∀ p, p < n → cmp p q0 = 1 → p ∈ proc := by
      intro p hp hd
      have := (cnt_eq_zero.mp hz) p hp
      simp only [hd, beq_self_eq_true, Bool.true_and, decide_eq_false_iff_not, not_not] at this
      exact this
    refine ⟨by simp [length_bump, h.lc], h.ld, by simp [h.lf], hcn', ?_, ?_, ?_, ?_, ?_, ?_, h.nd1, ?_, htn, ?_⟩
    · intro q hq
      simp only [hfv]
      by_cases e : q = q0
      · subst e; rw [if_pos rfl, hbq0, hz]; simp
      · simp only [e, if_false, h.fz q hq]
        rw [getD_bump, h.lc]; simp [e]
    · intro q hq hne
      simp only [hfv] at hne
      by_cases e : q = q0
      · subst e
        refine ⟨k + 1, by show (s.front.set q (some (k + 1))).getD q none = _; rw [hfv, if_pos rfl], by omega, ?_, ?_⟩
        · intro p hp
          obtain ⟨r, fr, rk⟩ := (h.pr p (hall p hp.1 hp.2.2)).2
          exact ⟨r, hmono p r fr, by omega⟩
        · exact Or.inr ⟨pw, k, ⟨(h.pr pw pwm).1, hq, pwd⟩, hmono pw k pwk, rfl⟩
      · simp only [e, if_false] at hne
        exact (h.rk q hq hne).mono hmono
    · intro p hp
      obtain ⟨a, r, b, c⟩ := h.pr p hp
      exact ⟨a, r, hmono p r b, c⟩
    · intro p hp
      obtain ⟨a, b⟩ := h.rs p hp
      exact ⟨a, hmono p k b⟩
    · intro p hp
      simp only [List.mem_append, List.mem_singleton] at hp
      rcases hp with hp | e
      · obtain ⟨a, b⟩ := h.nx p hp
        exact ⟨a, hmono p (k + 1) b⟩
      · subst e; exact ⟨hq0, by rw [hfv, if_pos rfl]⟩
    · intro q hq hne
      simp only [hfv] at hne
      by_cases e : q = q0
      · subst e; right; right; simp
      · simp only [e, if_false] at hne
        rcases h.cov q hq hne with a | a | a
        · exact Or.inl a
        · exact Or.inr (Or.inl a)
        · right; right; simp [a]
    · rw [List.nodup_append]
      refine ⟨h.nd2, by simp, ?_⟩
      intro a ha b hb
      simp only [List.mem_singleton] at hb
      subst hb
      intro e; subst e
      have := (h.nx a ha).2
      rw [hf0] at this; exact absurd this (by simp)
    · intro q hq
      obtain ⟨a, p, b, c, d⟩ := htd' q hq
      exact ⟨a, p, b, c, hmono p k d⟩
  · -- the counter stays positive: only the counter changes
    have hstep : decStep (k + 1) (s, nxt) q0 =
        ({ counter := bump s.counter q0 (-1), dominate := s.dominate, front := s.front }, nxt) := by
      unfold decStep
      have : ((bump s.counter q0 (-1)).getD q0 0 == 0) = false := by
        rw [hbq0]; simp only [beq_eq_false_iff_ne, ne_eq]; omega
      simp only [this, Bool.false_and]
      rfl
    rw [hstep]
    refine ⟨by simp [length_bump, h.lc], h.ld, h.lf, hcn', ?_, h.rk, h.pr, h.rs, h.nx, h.cov, h.nd1, h.nd2, htn, htd'⟩
    intro q hq
    by_cases e : q = q0
    · subst e
      simp only [hf0, true_iff, hbq0]
      omega
    · rw [h.fz q hq, getD_bump, h.lc]; simp [e]

theorem decFold_inv {n cmp D k proc rest} (hk : 1 ≤ k) :
    ∀ (todo nxt : List Nat) (s : SortState), Inv2 n cmp D k proc rest nxt todo s →
      Inv2 n cmp D k proc rest (todo.foldl (decStep (k + 1)) (s, nxt)).2 []
        (todo.foldl (decStep (k + 1)) (s, nxt)).1 := by
  intro todo
  induction todo with
  | nil => intro nxt s h; simpa using h
  | cons q0 todo ih =>
    intro nxt s h
    rw [List.foldl_cons]
    have := decStep_inv hk h
    exact ih _ _ this

/-- Start walking the `dominate` list of the head `p` of the current front. -/
theorem open_inv {n cmp D k proc rest nxt s} {p : Nat} (hD : DomSpec n cmp D)
    (h : Inv2 n cmp D k proc (p :: rest) nxt [] s) :
    Inv2 n cmp D k (p :: proc) rest nxt (D.getD p []) s := by
  obtain ⟨hp, hfp⟩ := h.rs p (by simp)
  have hnd : (proc ++ p :: rest).Nodup := h.nd1
  have hperm : (proc ++ p :: rest).Perm (p :: (proc ++ rest)) := List.perm_middle
  have hnd' : (p :: proc ++ rest).Nodup := hperm.nodup_iff.mp hnd
  have hpp : p ∉ proc := by
    have := (List.nodup_cons.mp hnd').1
    intro hm; exact this (by simp [hm])
  obtain ⟨hDnd, hDmem⟩ := hD p hp
  refine ⟨h.lc, h.ld, h.lf, ?_, h.fz, h.rk, ?_, ?_, h.nx, ?_, hnd', h.nd2, hDnd, ?_⟩
  · intro q hq
    rw [h.cn q hq]
    congr 1
    simp only [List.not_mem_nil, if_false, Nat.add_zero, hDmem q, hq, true_and]
    by_cases hd : cmp p q = 1
    · simp only [hd, if_true]
      apply cnt_point p hp
      · simp
      · intro x hx
        by_cases e : x = p
        · subst e; simp [hd, hpp]
        · simp [e]
    · simp only [hd, if_false, Nat.add_zero]
      apply cnt_congr
      intro x hx
      by_cases e : x = p
      · subst e; simp [hd]
      · simp [e]
  · intro x hx
    simp only [List.mem_cons] at hx
    rcases hx with e | hx
    · subst e; exact ⟨hp, k, hfp, Nat.le_refl k⟩
    · exact h.pr x hx
  · intro x hx; exact h.rs x (List.mem_cons_of_mem _ hx)
  · intro q hq hne
    rcases h.cov q hq hne with a | a | a
    · exact Or.inl (List.mem_cons_of_mem _ a)
    · simp only [List.mem_cons] at a
      rcases a with e | a
      · subst e; exact Or.inl (by simp)
      · exact Or.inr (Or.inl a)
    · exact Or.inr (Or.inr a)
  · intro q hq
    have := (hDmem q).mp hq
    exact ⟨this.1, p, by simp, this.2, hfp⟩

theorem procStep_inv {n cmp D k proc rest nxt s} {p : Nat} (hk : 1 ≤ k) (hD : DomSpec n cmp D)
    (h : Inv2 n cmp D k proc (p :: rest) nxt [] s) :
    Inv2 n cmp D k (p :: proc) rest (procStep (k + 1) (s, nxt) p).2 [] (procStep (k + 1) (s, nxt) p).1 := by
  unfold procStep
  simp only [h.ld]
  exact decFold_inv hk _ _ _ (open_inv hD h)

theorem level_inv {n cmp D k} (hk : 1 ≤ k) (hD : DomSpec n cmp D) :
    ∀ (rest proc nxt : List Nat) (s : SortState), Inv2 n cmp D k proc rest nxt [] s →
      Inv2 n cmp D k (rest.reverse ++ proc) [] (rest.foldl (procStep (k + 1)) (s, nxt)).2 []
        (rest.foldl (procStep (k + 1)) (s, nxt)).1 := by
  intro rest
  induction rest with
  | nil => intro proc nxt s h; simpa using h
  | cons p rest ih =>
    intro proc nxt s h
    rw [List.foldl_cons]
    have := ih (p :: proc) _ _ (procStep_inv hk hD h)
    simpa using this

/-- From the end of one iteration of the `while` loop to the start of the next. -/
theorem next_inv {n cmp D k proc nxt s} (h : Inv2 n cmp D k proc [] nxt [] s) :
    Inv2 n cmp D (k + 1) proc nxt [] [] s := by
  refine ⟨h.lc, h.ld, h.lf, h.cn, h.fz, h.rk, ?_, h.nx, by simp, ?_, ?_, by simp, by simp, by simp⟩
  · intro p hp
    obtain ⟨a, r, b, c⟩ := h.pr p hp
    exact ⟨a, r, b, by omega⟩
  · intro q hq hne
    rcases h.cov q hq hne with a | a | a
    · exact Or.inl a
    · simp at a
    · exact Or.inr (Or.inl a)
  · rw [List.nodup_append]
    refine ⟨by simpa using h.nd1, h.nd2, ?_⟩
    intro a ha b hb e
    subst e
    obtain ⟨_, r, b1, c⟩ := h.pr a ha
    have := (h.nx a hb).2
    rw [b1] at this
    have : r = k + 1 := Option.some.inj this
    omega

theorem nodup_bound {l : List Nat} {n : Nat} (hd : l.Nodup) (h : ∀ x, x ∈ l → x < n) :
    l.length ≤ n := by
  have : l ⊆ List.range n := fun x hx => List.mem_range.mpr (h x hx)
  simpa using (List.subperm_of_subset hd this).length_le

/-- The state after phase 1 satisfies the invariant of the peeling loop. -/
theorem init2_inv {n cmp s f1} (h : Phase1Spec n cmp s f1) :
    DomSpec n cmp s.dominate ∧ Inv2 n cmp s.dominate 1 [] f1 [] [] s := by
  refine ⟨fun p hp => ⟨h.nd p hp, h.mem p hp⟩, ?_⟩
  have hcn : ∀ q, q < n → s.counter.getD q 0 =
      ((cnt n (fun p => cmp p q == 1 && decide (p ∉ ([] : List Nat))) +
        (if q ∈ ([] : List Nat) then 1 else 0) : Nat) : Int) := by
    intro q hq
    rw [h.cn q hq]; congr 1
    simp only [List.not_mem_nil, if_false, Nat.add_zero]
    unfold hcnt; apply cnt_congr; intro p _; simp
  refine ⟨h.lc, rfl, h.lf, hcn, ?_, ?_, by simp, ?_, by simp, ?_, by simpa using h.f1nd, by simp,
    by simp, by simp⟩
  · intro q hq
    rw [h.fr q hq, h.cn q hq]
    by_cases hz : hcnt n cmp q = 0
    · simp [hz]
    · simp only [hz, if_false, true_iff]
      exact_mod_cast hz
  · intro q hq hne
    have hz : hcnt n cmp q = 0 := by
      by_contra hz
      rw [h.fr q hq] at hne
      simp [hz] at hne
    refine ⟨1, ?_, Nat.le_refl 1, ?_, Or.inl rfl⟩
    · show s.front.getD q none = some 1
      rw [h.fr q hq]; simp [hz]
    · intro p hp
      have := (cnt_eq_zero.mp hz) p hp.1
      simp [hp.2.2] at this
  · intro p hp
    obtain ⟨a, b⟩ := (h.f1mem p).mp hp
    exact ⟨a, by rw [h.fr p a]; simp [b]⟩
  · intro q hq hne
    have hz : hcnt n cmp q = 0 := by
      by_contra hz
      rw [h.fr q hq] at hne
      simp [hz] at hne
    exact Or.inr (Or.inl ((h.f1mem q).mpr ⟨hq, hz⟩))

theorem hcnt_lt {n cmp} (hc : CmpOK n cmp) {p q : Nat} (hp : p < n) (hq : q < n)
    (hd : cmp p q = 1) : hcnt n cmp p < hcnt n cmp q := by
  unfold hcnt
  apply cnt_lt (a := p) _ hp
  · simp [hc.irrefl p hp]
  · simp [hd]
  · intro x hx hxp
    simp only [beq_iff_eq] at hxp ⊢
    exact hc.trans x p q hx hp hq hxp hd

/-- When the `while` loop stops, nobody is left unranked. -/
theorem exit_ranked {n cmp D k proc s} (hc : CmpOK n cmp) (h : Inv2 n cmp D k proc [] [] [] s) :
    ∀ q, q < n → s.front.getD q none ≠ none := by
  have key : ∀ m q, q < n → hcnt n cmp q = m → s.front.getD q none ≠ none := by
    intro m
    induction m using Nat.strong_induction_on with
    | _ m ih =>
      intro q hq hm hnone
      have hc0 := (h.fz q hq).mp hnone
      rw [h.cn q hq] at hc0
      simp only [List.not_mem_nil, if_false, Nat.add_zero] at hc0
      have hne : cnt n (fun p => cmp p q == 1 && decide (p ∉ proc)) ≠ 0 := by
        intro e; rw [e] at hc0; exact hc0 rfl
      have : ¬ ∀ p, p < n → (cmp p q == 1 && decide (p ∉ proc)) = false :=
        fun hall => hne (cnt_eq_zero.mpr hall)
      obtain ⟨p, hp⟩ := Classical.not_forall.mp this
      obtain ⟨hpn, hp2⟩ := Classical.not_imp.mp hp
      simp only [Bool.and_eq_false_iff, not_or, Bool.not_eq_false, beq_iff_eq, decide_eq_true_eq] at hp2
      obtain ⟨hd, hpp⟩ := hp2
      have hpnone : s.front.getD p none = none := by
        by_contra hne'
        rcases h.cov p hpn hne' with a | a | a
        · exact hpp a
        · simp at a
        · simp at a
      have hlt := hcnt_lt hc hpn hq hd
      exact ih (hcnt n cmp p) (by omega) p hpn rfl hpnone
  intro q hq
  exact key _ q hq rfl

theorem peel_inv {n cmp D} (hD : DomSpec n cmp D) :
    ∀ (fuel k : Nat) (proc cur : List Nat) (s : SortState), 1 ≤ k →
      Inv2 n cmp D k proc cur [] [] s → n + 1 ≤ fuel + proc.length →
      ∃ s' k' proc', peel fuel s cur k = some s' ∧ Inv2 n cmp D k' proc' [] [] [] s' := by
  intro fuel
  induction fuel with
  | zero =>
    intro k proc cur s hk h hf
    cases cur with
    | nil => exact ⟨s, k, proc, by unfold peel; simp, h⟩
    | cons a cur =>
      exfalso
      have := nodup_bound h.nd1 (by
        intro x hx
        rcases List.mem_append.mp hx with m | m
        · exact (h.pr x m).1
        · exact (h.rs x m).1)
      simp at this; omega
  | succ fuel ih =>
    intro k proc cur s hk h hf
    cases cur with
    | nil => exact ⟨s, k, proc, by unfold peel; simp, h⟩
    | cons a cur =>
      have hl := level_inv hk hD (a :: cur) proc [] s h
      have hn := next_inv hl
      have hstep : peel (fuel + 1) s (a :: cur) k =
          peel fuel (level s (a :: cur) (k + 1)).1 (level s (a :: cur) (k + 1)).2 (k + 1) := by
        rw [peel]; simp
      rw [hstep]
      unfold level
      exact ih (k + 1) _ _ _ (by omega) hn (by simp; omega)

/-- Everything about the abstract sort: it terminates within its fuel, every position gets a
front number, and the front numbers satisfy the recurrence of the property. -/
theorem fndsCmp_spec {n cmp} (hc : CmpOK n cmp) :
    ∃ l, fndsCmp n cmp = some l ∧ l.length = n ∧
      ∀ q, q < n → RecAt (domN n cmp) (fun x => l.getD x none) q := by
  obtain ⟨hD, h2⟩ := init2_inv (phase1_spec hc)
  obtain ⟨s', k', proc', hp, hinv⟩ := peel_inv hD (n + 1) 1 [] _ _ (Nat.le_refl 1) h2 (by simp)
  refine ⟨s'.front, ?_, hinv.lf, ?_⟩
  · unfold fndsCmp; rw [hp]; rfl
  · intro q hq
    exact hinv.rk q hq (exit_ranked hc hinv q hq)

/-! ## The executable check `recAtB` decides the recurrence -/

theorem recAtB_iff (n : Nat) (cmp : Nat → Nat → Nat) (f : List (Option Nat)) (q : Nat) (hq : q < n) :
    recAtB n cmp f q = true ↔ RecAt (domN n cmp) (fun x => f[x]?.join) q := by
  unfold recAtB RecAt
  cases hfq : f[q]?.join with
  | none =>
    simp only [Bool.false_eq_true, false_iff]
    rintro ⟨x, hx, _⟩
    rw [hfq] at hx; cases hx
  | some r =>
    simp only [Bool.and_eq_true, decide_eq_true_eq, List.all_eq_true, List.mem_range, Bool.or_eq_true,
      bne_iff_ne, ne_eq, beq_iff_eq, List.any_eq_true]
    constructor
    · rintro ⟨⟨r1, hall⟩, hex⟩
      refine ⟨r, hfq, r1, ?_, ?_⟩
      · intro p hp
        rcases hall p hp.1 with hne | hm
        · exact absurd hp.2.2 hne
        · cases hfp : f[p]?.join with
          | none => rw [hfp] at hm; simp at hm
          | some r' => rw [hfp] at hm; exact ⟨r', rfl, by simpa using hm⟩
      · rcases hex with e | ⟨p, hp, hd, hf⟩
        · exact Or.inl e
        · exact Or.inr ⟨p, r - 1, ⟨hp, hq, hd⟩, hf, by omega⟩
    · rintro ⟨r0, e, r1, hall, hex⟩
      rw [hfq] at e; cases e
      refine ⟨⟨r1, ?_⟩, ?_⟩
      · intro p hp
        by_cases hd : cmp p q = 1
        · right
          obtain ⟨r', a, b⟩ := hall p ⟨hp, hq, hd⟩
          rw [a]; simpa using b
        · exact Or.inl hd
      · rcases hex with e | ⟨p, r', hd, a, b⟩
        · exact Or.inl e
        · exact Or.inr ⟨p, hd.1, hd.2.2, by rw [a]; congr 1; omega⟩
/-! ## Populations: `popCmp pop` is a strict partial order (C01), hence everything above applies -/

variable {α : Type} [LinearOrder α]

/-- Member `p` dominates member `q` (verdict `1` of the C01 comparator; both are positions
of the population – `popCmp` answers `0` outside). -/
def Dom (pop : List (List α × Int)) (p q : Nat) : Prop := popCmp pop p q = 1

/-- All members have the same number of objectives. -/
def SameLen (pop : List (List α × Int)) : Prop :=
  ∀ a, a ∈ pop → ∀ b, b ∈ pop → a.1.length = b.1.length

/-- The statement of the property for an arbitrary assignment `f` of front numbers. -/
def IsTrueRank (pop : List (List α × Int)) (f : Nat → Option Nat) : Prop :=
  ∀ q, q < pop.length → RecAt (Dom pop) f q

theorem popCmp_eq {pop : List (List α × Int)} {i j : Nat} (hi : i < pop.length) (hj : j < pop.length) :
    popCmp pop i j = paretoCompare pop[i].1 pop[j].1 pop[i].2 pop[j].2 := by
  unfold popCmp
  simp [List.getElem?_eq_getElem hi, List.getElem?_eq_getElem hj]

theorem popCmp_out {pop : List (List α × Int)} {i j : Nat} (h : ¬ (i < pop.length ∧ j < pop.length)) :
    popCmp pop i j = 0 := by
  unfold popCmp
  by_cases hi : i < pop.length
  · have hj : ¬ j < pop.length := fun hj => h ⟨hi, hj⟩
    have : pop[j]? = none := by simp; omega
    simp [List.getElem?_eq_getElem hi, this]
  · have : pop[i]? = none := by simp; omega
    simp [this]

theorem Dom.lt {pop : List (List α × Int)} {p q : Nat} (h : Dom pop p q) :
    p < pop.length ∧ q < pop.length := by
  by_contra hc
  unfold Dom at h
  rw [popCmp_out hc] at h
  exact absurd h (by decide)

theorem dom_iff_domN {pop : List (List α × Int)} {p q : Nat} :
    Dom pop p q ↔ domN pop.length (popCmp pop) p q :=
  ⟨fun h => ⟨h.lt.1, h.lt.2, h⟩, fun h => h.2.2⟩

theorem cmpOK_of_sameLen {pop : List (List α × Int)} (h : SameLen pop) :
    CmpOK pop.length (popCmp pop) := by
  refine ⟨?_, ?_, ?_⟩
  · intro i j hi hj
    rw [popCmp_eq hi hj, popCmp_eq hj hi, C01.pareto_swap pop[i].1 pop[j].1 pop[i].2 pop[j].2]
    generalize paretoCompare pop[i].1 pop[j].1 pop[i].2 pop[j].2 = v
    match v with
    | 0 => simp [C01.swapV]
    | 1 => simp [C01.swapV]
    | 2 => simp [C01.swapV]
    | (k + 3) => simp [C01.swapV]
  · intro i hi
    rw [popCmp_eq hi hi, C01.pareto_irrefl]
    decide
  · intro i j k hi hj hk h1 h2
    rw [popCmp_eq hi hj] at h1
    rw [popCmp_eq hj hk] at h2
    rw [popCmp_eq hi hk]
    exact C01.pareto_trans _ _ _ _ _ _
      (h _ (List.getElem_mem hi) _ (List.getElem_mem hj))
      (h _ (List.getElem_mem hj) _ (List.getElem_mem hk)) h1 h2

theorem RecAt.congr {dom dom' : Nat → Nat → Prop} {f : Nat → Option Nat} {q : Nat}
    (hd : ∀ p q, dom p q ↔ dom' p q) (h : RecAt dom f q) : RecAt dom' f q := by
  obtain ⟨r, h1, h2, h3, h4⟩ := h
  refine ⟨r, h1, h2, fun p hp => h3 p ((hd p q).mpr hp), ?_⟩
  rcases h4 with h4 | ⟨p, r', a, b, c⟩
  · exact Or.inl h4
  · exact Or.inr ⟨p, r', (hd p q).mp a, b, c⟩

theorem getD_none_eq_join (l : List (Option Nat)) (x : Nat) : l.getD x none = l[x]?.join := by
  rw [List.getD_eq_getElem?_getD]
  cases l[x]? with
  | none => rfl
  | some v => cases v <;> rfl

/-- The model on a population: terminates, ranks everybody, satisfies the recurrence. -/
theorem fnds?_spec {pop : List (List α × Int)} (h : SameLen pop) :
    ∃ l, fnds? pop = some l ∧ l.length = pop.length ∧ IsTrueRank pop (fun x => l[x]?.join) := by
  obtain ⟨l, h1, h2, h3⟩ := fndsCmp_spec (cmpOK_of_sameLen h)
  refine ⟨l, h1, h2, ?_⟩
  intro q hq
  have := (h3 q hq).congr (fun p q => (dom_iff_domN (pop := pop) (p := p) (q := q)).symm)
  simpa only [getD_none_eq_join] using this

end Artap
