import ArtapModel.Model.Robust
import Mathlib.Tactic.Ring
/-!
# Helper lemmas for C14 (heap model of the worst-case and gradient evaluators)

* `foldO_applyAt`: a loop "for i in l: mutate object i" over pairwise different identities
  changes exactly the objects of `l`, each by one application of the mutation to its
  *original* value, and logs their objective calls in order;
* `wcEvaluate_spec` / `gradEvaluate_spec`: one batch through the evaluator = the pure
  per-design function `wcOne` / `gradOne` applied to every design of the batch, nothing else
  touched, work lists empty again;
* `wcOne_fresh` / `gradOne_fresh`: what that function computes for a fresh design.
-/
namespace Artap.Robust

/-! ## the generic loop -/

def callsOf (g : Ind → Option (Ind × List (List Rat))) (d : Ind) : List (List Rat) :=
  match g d with
  | some (_, cl) => cl
  | none => []

theorem applyAt_some {g : Ind → Option (Ind × List (List Rat))} {h h' : Heap} {i : Nat}
    (H : applyAt g h i = some h') :
    i < h.next ∧ ∃ d' cl, g (h.mem i) = some (d', cl) ∧
      h' = { h with mem := upd h.mem i d', calls := h.calls ++ cl } := by
  unfold applyAt at H
  split at H
  · rename_i hi
    split at H
    · rename_i d' cl hg
      cases H
      exact ⟨hi, d', cl, hg, rfl⟩
    · cases H
  · cases H

theorem foldO_cons_some {σ : Type} {step : σ → Nat → Option σ} {s s' : σ} {i : Nat} {r : List Nat}
    (H : foldO step s (i :: r) = some s') : ∃ s1, step s i = some s1 ∧ foldO step s1 r = some s' := by
  simp only [foldO] at H
  split at H
  · rename_i s1 hs
    exact ⟨s1, hs, H⟩
  · cases H

theorem foldO_applyAt {g : Ind → Option (Ind × List (List Rat))} :
    ∀ (l : List Nat) (h h' : Heap), l.Nodup → foldO (applyAt g) h l = some h' →
      h'.next = h.next ∧ (∀ i ∈ l, i < h.next) ∧ (∀ j, j ∉ l → h'.mem j = h.mem j) ∧
      (∀ i ∈ l, ∃ d' cl, g (h.mem i) = some (d', cl) ∧ h'.mem i = d') ∧
      h'.calls = h.calls ++ (l.map (fun i => callsOf g (h.mem i))).flatten := by
  intro l
  induction l with
  | nil =>
    intro h h' _ H
    simp only [foldO, Option.some.injEq] at H
    subst H
    simp
  | cons i r ih =>
    intro h h' hnd H
    obtain ⟨h1, hs, hr⟩ := foldO_cons_some H
    obtain ⟨hi, d', cl, hg, rfl⟩ := applyAt_some hs
    have hnd' := List.nodup_cons.mp hnd
    obtain ⟨a1, a2, a3, a4, a5⟩ := ih _ h' hnd'.2 hr
    dsimp only at a1 a2 a3 a4 a5
    have hmem : ∀ k ∈ r, upd h.mem i d' k = h.mem k := by
      intro k hk
      have : k ≠ i := fun e => hnd'.1 (e ▸ hk)
      simp [upd, this]
    refine ⟨a1, ?_, ?_, ?_, ?_⟩
    · intro k hk
      rcases List.mem_cons.mp hk with rfl | hk
      · exact hi
      · exact a2 k hk
    · intro j hj
      have hj' : j ≠ i ∧ j ∉ r := by simpa using hj
      rw [a3 j hj'.2]
      simp [upd, hj'.1]
    · intro k hk
      rcases List.mem_cons.mp hk with rfl | hk
      · refine ⟨d', cl, hg, ?_⟩
        rw [a3 k hnd'.1]
        simp [upd]
      · obtain ⟨d'', cl', e1, e2⟩ := a4 k hk
        rw [hmem k hk] at e1
        exact ⟨d'', cl', e1, e2⟩
    · rw [a5]
      simp only [List.map_cons, List.flatten_cons]
      have : callsOf g (h.mem i) = cl := by simp [callsOf, hg]
      rw [this]
      have : r.map (fun k => callsOf g (upd h.mem i d' k)) = r.map (fun k => callsOf g (h.mem k)) := by
        apply List.map_congr_left
        intro k hk
        rw [hmem k hk]
      rw [this, List.append_assoc]

theorem flatten_map_nil {α β : Type} (l : List α) : (l.map (fun _ => ([] : List β))).flatten = [] := by
  induction l with
  | nil => rfl
  | cons a r ih => simp

/-! ## pure per-design functions -/

/-- What one batch does to one of its designs (worst-case evaluator): evaluate, create the
neighbours, evaluate them, compute the sensitivity and extend the cost vectors. -/
def wcOne (P : Prob) (n : Nat) (d : Ind) : Option Ind :=
  match wcAddInd P (jobEval P d).1 with
  | some (d1, _) => (wcProcInd n (famEval P d1).1).map (·.1)
  | none => none

/-- objective calls made for one design of a batch: the design itself … -/
def wcCalls1 (P : Prob) (d : Ind) : List (List Rat) := (jobEval P d).2
/-- … and its neighbours. -/
def wcCalls2 (P : Prob) (d : Ind) : List (List Rat) :=
  match wcAddInd P (jobEval P d).1 with
  | some (d1, _) => (famEval P d1).2
  | none => []

theorem foldO_wcAdd (P : Prob) : ∀ (b : List Nat) (e : Ev),
    foldO (wcAdd P) e b = (foldO (applyAt (wcAddInd P)) e.heap b).map
      (fun h => { e with heap := h, individuals := e.individuals ++ b, toEvaluate := e.toEvaluate ++ b }) := by
  intro b
  induction b with
  | nil => intro e; simp [foldO]
  | cons i r ih =>
    intro e
    simp only [foldO, wcAdd]
    cases h : applyAt (wcAddInd P) e.heap i with
    | none => simp
    | some h1 =>
      simp only [ih, List.append_assoc, List.singleton_append]

theorem foldO_gradAdd (dl : Rat) : ∀ (b : List Nat) (e : Ev),
    foldO (gradAdd dl) e b = (foldO (applyAt (gradAddInd dl)) e.heap b).map
      (fun h => { e with heap := h, individuals := e.individuals ++ b, toEvaluate := e.toEvaluate ++ b }) := by
  intro b
  induction b with
  | nil => intro e; simp [foldO]
  | cons i r ih =>
    intro e
    simp only [foldO, gradAdd]
    cases h : applyAt (gradAddInd dl) e.heap i with
    | none => simp
    | some h1 =>
      simp only [ih, List.append_assoc, List.singleton_append]

/-- One batch through the worst-case evaluator as it is now (`reset = true`), started with
empty work lists. -/
theorem wcEvaluate_spec (P : Prob) (e e' : Ev) (b : List Nat) (hb : b.Nodup)
    (hi : e.individuals = []) (ht : e.toEvaluate = [])
    (H : wcEvaluate P true e b = some e') :
    e'.heap.next = e.heap.next ∧ e'.n = e.n ∧ e'.individuals = [] ∧ e'.toEvaluate = [] ∧
    (∀ i ∈ b, i < e.heap.next) ∧
    (∀ j, j ∉ b → e'.heap.mem j = e.heap.mem j) ∧
    (∀ i ∈ b, ∃ d', wcOne P e.n (e.heap.mem i) = some d' ∧ e'.heap.mem i = d') ∧
    e'.heap.calls = e.heap.calls ++ (b.map (fun i => wcCalls1 P (e.heap.mem i))).flatten
        ++ (b.map (fun i => wcCalls2 P (e.heap.mem i))).flatten := by
  unfold wcEvaluate at H
  split at H
  · rename_i h0 H0
    rw [foldO_wcAdd] at H
    cases H1 : foldO (applyAt (wcAddInd P)) h0 b with
    | none => simp [H1] at H
    | some h1 =>
      simp only [H1, Option.map_some, hi, ht, List.nil_append] at H
      unfold wcRun at H
      simp only at H
      split at H
      · rename_i h2 H2
        split at H
        · rename_i h3 H3
          simp only [if_true, Option.some.injEq] at H
          subst H
          obtain ⟨a1, a2, a3, a4, a5⟩ := foldO_applyAt b _ _ hb H0
          obtain ⟨b1, b2, b3, b4, b5⟩ := foldO_applyAt b _ _ hb H1
          obtain ⟨c1, c2, c3, c4, c5⟩ := foldO_applyAt b _ _ hb H2
          obtain ⟨d1, d2, d3, d4, d5⟩ := foldO_applyAt b _ _ hb H3
          refine ⟨by simp only; omega, rfl, rfl, rfl, a2, ?_, ?_, ?_⟩
          · intro j hj
            simp only
            rw [d3 j hj, c3 j hj, b3 j hj, a3 j hj]
          · intro i hib
            obtain ⟨x0, cl0, e0, m0⟩ := a4 i hib
            obtain ⟨x1, cl1, e1, m1⟩ := b4 i hib
            obtain ⟨x2, cl2, e2, m2⟩ := c4 i hib
            obtain ⟨x3, cl3, e3, m3⟩ := d4 i hib
            simp only [Option.some.injEq] at e0 e2
            have e0' := congrArg Prod.fst e0
            have e2' := congrArg Prod.fst e2
            simp only at e0' e2'
            refine ⟨x3, ?_, m3⟩
            unfold wcOne
            rw [m0, ← e0'] at e1
            rw [e1]
            simp only
            rw [m1] at e2'
            rw [m2, ← e2'] at e3
            simp [e3]
          · simp only
            rw [d5, c5, b5, a5]
            have z1 : b.map (fun i => callsOf (wcAddInd P) (h0.mem i)) = b.map (fun _ => []) := by
              apply List.map_congr_left
              intro i hib
              obtain ⟨x1, cl1, e1, _⟩ := b4 i hib
              simp only [callsOf, e1]
              unfold wcAddInd at e1
              split at e1
              · simp only [Option.some.injEq, Prod.mk.injEq] at e1; exact e1.2.symm
              · cases e1
            have z3 : b.map (fun i => callsOf (wcProcInd e.n) (h2.mem i)) = b.map (fun _ => []) := by
              apply List.map_congr_left
              intro i hib
              obtain ⟨x3, cl3, e3, _⟩ := d4 i hib
              simp only [callsOf, e3]
              unfold wcProcInd at e3
              split at e3
              · simp only at e3
                split at e3
                · split at e3
                  · cases e3
                  · simp only [Option.some.injEq, Prod.mk.injEq] at e3; exact e3.2.symm
                · simp only [Option.some.injEq, Prod.mk.injEq] at e3; exact e3.2.symm
              · cases e3
            have z0 : b.map (fun i => callsOf (fun d => some (jobEval P d)) (e.heap.mem i))
                = b.map (fun i => wcCalls1 P (e.heap.mem i)) := by
              apply List.map_congr_left
              intro i _
              simp [callsOf, wcCalls1]
            have z2 : b.map (fun i => callsOf (fun d => some (famEval P d)) (h1.mem i))
                = b.map (fun i => wcCalls2 P (e.heap.mem i)) := by
              apply List.map_congr_left
              intro i hib
              obtain ⟨x0, cl0, e0, m0⟩ := a4 i hib
              obtain ⟨x1, cl1, e1, m1⟩ := b4 i hib
              simp only [Option.some.injEq] at e0
              have e0' := congrArg Prod.fst e0
              simp only at e0'
              rw [m0, ← e0'] at e1
              simp only [callsOf, wcCalls2, e1, m1]
            rw [z0, z1, z2, z3]
            simp [flatten_map_nil]
        · cases H
      · cases H
  · cases H

/-! ## the neighbour designs -/

/-- `x ± t_k e_k` for the axes `ks`, in the order of the double loop. -/
def wcNbrs (t : Nat → Rat) (x : List Rat) (ks : List Nat) : List (List Rat) :=
  ks.flatMap (fun k => [shift x k ((-1) * t k), shift x k (1 * t k)])

theorem wcPairs_eq {tol : List (Option Rat)} {x : List Rat} {t : Nat → Rat} :
    ∀ ks : List Nat, (∀ k ∈ ks, tol[k]? = some (some (t k))) → wcPairs tol x ks = some (wcNbrs t x ks) := by
  intro ks
  induction ks with
  | nil => intro _; rfl
  | cons k r ih =>
    intro h
    have hk := h k (by simp)
    have hr := ih (fun j hj => h j (by simp [hj]))
    simp [wcPairs, hk, hr, wcNbrs]

theorem wcNbrs_length (t : Nat → Rat) (x : List Rat) (ks : List Nat) :
    (wcNbrs t x ks).length = 2 * ks.length := by
  induction ks with
  | nil => rfl
  | cons k r ih =>
    simp only [wcNbrs, List.flatMap_cons, List.length_append, List.length_cons, List.length_nil] at ih ⊢
    omega

theorem wcNbrs_getElem (t : Nat → Rat) (x : List Rat) :
    ∀ (ks : List Nat) (i : Nat) (hi : i < ks.length),
      (wcNbrs t x ks)[2 * i]? = some (shift x ks[i] ((-1) * t ks[i])) ∧
      (wcNbrs t x ks)[2 * i + 1]? = some (shift x ks[i] (1 * t ks[i])) := by
  intro ks
  induction ks with
  | nil => intro i hi; simp at hi
  | cons k r ih =>
    intro i hi
    cases i with
    | zero => simp [wcNbrs]
    | succ j =>
      have hj : j < r.length := by simpa using hi
      obtain ⟨a, b⟩ := ih j hj
      have e1 : 2 * (j + 1) = 2 * j + 1 + 1 := by omega
      simp only [wcNbrs, List.flatMap_cons, List.cons_append, List.nil_append] at a b ⊢
      rw [e1]
      simp only [List.getElem?_cons_succ, List.getElem_cons_succ]
      exact ⟨a, b⟩

theorem shift_getElem? (x : List Rat) (k : Nat) (d : Rat) (j : Nat) :
    (shift x k d)[j]? = (x[j]?).map (fun a => if k = j then a + d else a) := by
  simp [shift, List.getElem?_modify]

theorem shift_length (x : List Rat) (k : Nat) (d : Rat) : (shift x k d).length = x.length := by
  simp [shift]

/-! ## one fresh design through one batch (worst case) -/

/-- a neighbour after its evaluation -/
def childDone (P : Prob) (v : List Rat) : Child := ⟨v, P.f v, true⟩

theorem diffs_done (P : Prob) (d : Ind) (f0 : List Rat → Rat) (a : Rat)
    (ha : d.costs[0]? = some a) (hf0 : ∀ y, (P.f y)[0]? = some (f0 y)) :
    ∀ cs : List (List Rat), diffs d (cs.map (childDone P)) = some (cs.map (fun v => absR (a - f0 v))) := by
  intro cs
  induction cs with
  | nil => rfl
  | cons v r ih => simp [diffs, ha, childDone, hf0 v, ih]

theorem children_done (P : Prob) (cs : List (List Rat)) :
    (cs.map Child.fresh).map (childEval P) = cs.map (childDone P) := by
  simp [childEval, Child.fresh, childDone]

theorem children_calls (cs : List (List Rat)) :
    ((cs.map Child.fresh).filter (fun c => !c.evaluated)).map (·.x) = cs := by
  induction cs with
  | nil => rfl
  | cons v r ih => simpa [Child.fresh] using ih

/-- The sensitivity `Σ |f₀ x − f₀ v|` over the neighbours `cs`. -/
def sensOf (f0 : List Rat → Rat) (x : List Rat) (cs : List (List Rat)) : Rat :=
  (cs.map (fun v => absR (f0 x - f0 v))).sum

theorem wcOne_fresh (P : Prob) (n : Nat) (d : Ind) (cs : List (List Rat)) (f0 : List Rat → Rat)
    (hd : d.evaluated = false) (hc : wcChildVecs P.tol d.x = some cs)
    (hf0 : ∀ y, (P.f y)[0]? = some (f0 y)) (hlen : (P.f d.x).length ≤ n) :
    wcOne P n d = some
      { x := d.x, costs := P.f d.x ++ [sensOf f0 d.x cs],
        signed := insertBeforeLast (signedCosts P (P.f d.x) d.x) (sensOf f0 d.x cs),
        evaluated := true, children := cs.map (childDone P),
        sens := some (sensOf f0 d.x cs), grad := d.grad } := by
  have hnot : ¬ (P.f d.x).length > n := by omega
  unfold wcOne
  simp only [jobEval, hd, Bool.false_eq_true, if_false, wcAddInd, hc, famEval, if_true, children_done]
  unfold wcProcInd
  simp only
  rw [diffs_done P _ f0 (f0 d.x) (hf0 d.x) hf0]
  simp [hnot, sensOf]

theorem wcCalls1_fresh (P : Prob) (d : Ind) (hd : d.evaluated = false) : wcCalls1 P d = [d.x] := by
  simp [wcCalls1, jobEval, hd]

theorem wcCalls2_fresh (P : Prob) (d : Ind) (cs : List (List Rat)) (hd : d.evaluated = false)
    (hc : wcChildVecs P.tol d.x = some cs) : wcCalls2 P d = cs := by
  simp [wcCalls2, jobEval, hd, wcAddInd, hc, famEval, children_calls]

theorem insertBeforeLast_append_singleton (l : List Rat) (m s : Rat) :
    insertBeforeLast (l ++ [m]) s = l ++ [s, m] := by
  simp [insertBeforeLast]

theorem wcPairs_length {tol : List (Option Rat)} {x : List Rat} :
    ∀ (ks : List Nat) (cs : List (List Rat)), wcPairs tol x ks = some cs → cs.length = 2 * ks.length := by
  intro ks
  induction ks with
  | nil => intro cs h; simp [wcPairs] at h; simp [← h]
  | cons k r ih =>
    intro cs h
    simp only [wcPairs] at h
    split at h
    · split at h
      · rename_i r' hr
        cases h
        have := ih r' hr
        simp only [List.length_cons]
        omega
      · cases h
    · cases h

theorem wcChildVecs_length {tol : List (Option Rat)} {x : List Rat} {cs : List (List Rat)}
    (h : wcChildVecs tol x = some cs) : cs.length = 2 * x.length := by
  have := wcPairs_length _ _ h
  simpa using this

/-! ## any sequence of batches (worst case) -/

theorem wcBatches_spec (P : Prob) : ∀ (bs : List (List Nat)) (e e' : Ev), bs.flatten.Nodup →
    e.individuals = [] → e.toEvaluate = [] → wcBatches P true e bs = some e' →
    e'.heap.next = e.heap.next ∧ e'.n = e.n ∧ e'.individuals = [] ∧ e'.toEvaluate = [] ∧
    (∀ i ∈ bs.flatten, i < e.heap.next) ∧
    (∀ j, j ∉ bs.flatten → e'.heap.mem j = e.heap.mem j) ∧
    (∀ i ∈ bs.flatten, ∃ d', wcOne P e.n (e.heap.mem i) = some d' ∧ e'.heap.mem i = d') := by
  intro bs
  induction bs with
  | nil =>
    intro e e' _ hi ht H
    simp only [wcBatches, Option.some.injEq] at H
    subst H
    simp [hi, ht]
  | cons b rest ih =>
    intro e e' hnd hi ht H
    simp only [wcBatches] at H
    split at H
    · rename_i e1 H1
      rw [List.flatten_cons, List.nodup_append] at hnd
      obtain ⟨hb, hrest, hdisj⟩ := hnd
      obtain ⟨a1, a2, a3, a4, a5, a6, a7, _⟩ := wcEvaluate_spec P e e1 b hb hi ht H1
      obtain ⟨b1, b2, b3, b4, b5, b6, b7⟩ := ih e1 e' hrest a3 a4 H
      refine ⟨by omega, by omega, b3, b4, ?_, ?_, ?_⟩
      · intro i hi'
        rcases List.mem_append.mp (List.flatten_cons ▸ hi') with h | h
        · exact a5 i h
        · have := b5 i h; omega
      · intro j hj
        have hj' : j ∉ b ∧ j ∉ rest.flatten := by
          constructor
          · intro h; exact hj (by simp [h])
          · intro h; exact hj (by simp only [List.flatten_cons, List.mem_append]; exact Or.inr h)
        rw [b6 j hj'.2, a6 j hj'.1]
      · intro i hi'
        rcases List.mem_append.mp (List.flatten_cons ▸ hi') with h | h
        · have hn : i ∉ rest.flatten := fun h' => hdisj i h i h' rfl
          obtain ⟨d', w1, w2⟩ := a7 i h
          exact ⟨d', w1, by rw [b6 i hn, w2]⟩
        · have hn : i ∉ b := fun h' => hdisj i h' i h rfl
          obtain ⟨d', w1, w2⟩ := b7 i h
          rw [a6 i hn, a2] at w1
          exact ⟨d', w1, w2⟩
    · cases H

/-! ## the worst-case evaluator does not raise on a batch of fresh designs -/

theorem foldO_applyAt_total {g : Ind → Option (Ind × List (List Rat))} :
    ∀ (l : List Nat) (h : Heap), l.Nodup → (∀ i ∈ l, i < h.next) →
      (∀ i ∈ l, ∃ r, g (h.mem i) = some r) → ∃ h', foldO (applyAt g) h l = some h' := by
  intro l
  induction l with
  | nil => intro h _ _ _; exact ⟨h, rfl⟩
  | cons i r ih =>
    intro h hnd hlt hg
    have hnd' := List.nodup_cons.mp hnd
    obtain ⟨⟨d', cl⟩, hgi⟩ := hg i (by simp)
    have hi := hlt i (by simp)
    have hstep : applyAt g h i = some { h with mem := upd h.mem i d', calls := h.calls ++ cl } := by
      simp [applyAt, hi, hgi]
    have hmem : ∀ k ∈ r, upd h.mem i d' k = h.mem k := by
      intro k hk
      have : k ≠ i := fun e => hnd'.1 (e ▸ hk)
      simp [upd, this]
    obtain ⟨h', hr⟩ := ih { h with mem := upd h.mem i d', calls := h.calls ++ cl } hnd'.2
      (fun k hk => hlt k (by simp [hk]))
      (fun k hk => by
        obtain ⟨r', hr'⟩ := hg k (by simp [hk])
        exact ⟨r', by simp only [hmem k hk, hr']⟩)
    exact ⟨h', by simp only [foldO, hstep, hr]⟩

theorem wcEvaluate_total (P : Prob) (f0 : List Rat → Rat) (e : Ev) (b : List Nat) (hb : b.Nodup)
    (hi : e.individuals = []) (ht : e.toEvaluate = [])
    (hlt : ∀ i ∈ b, i < e.heap.next) (hfresh : ∀ i ∈ b, (e.heap.mem i).evaluated = false)
    (hc : ∀ i ∈ b, ∃ cs, wcChildVecs P.tol (e.heap.mem i).x = some cs)
    (hf0 : ∀ y, (P.f y)[0]? = some (f0 y)) (hlen : ∀ y, (P.f y).length ≤ e.n) :
    ∃ e', wcEvaluate P true e b = some e' := by
  obtain ⟨h0, H0⟩ := foldO_applyAt_total (g := fun d => some (jobEval P d)) b e.heap hb hlt
    (fun i _ => ⟨_, rfl⟩)
  obtain ⟨a1, _, _, a4, _⟩ := foldO_applyAt b _ _ hb H0
  have one : ∀ i ∈ b, ∃ d', wcOne P e.n (e.heap.mem i) = some d' := by
    intro i hib
    obtain ⟨cs, hcs⟩ := hc i hib
    exact ⟨_, wcOne_fresh P e.n _ cs f0 (hfresh i hib) hcs hf0 (hlen _)⟩
  have m0 : ∀ i ∈ b, h0.mem i = (jobEval P (e.heap.mem i)).1 := by
    intro i hib
    obtain ⟨x0, cl0, e0, m0⟩ := a4 i hib
    simp only [Option.some.injEq] at e0
    rw [m0, e0]
  obtain ⟨h1, H1⟩ := foldO_applyAt_total (g := wcAddInd P) b h0 hb (fun i hib => by rw [a1]; exact hlt i hib)
    (fun i hib => by
      obtain ⟨d', hd'⟩ := one i hib
      unfold wcOne at hd'
      rw [m0 i hib]
      cases hw : wcAddInd P (jobEval P (e.heap.mem i)).1 with
      | none => simp [hw] at hd'
      | some r => exact ⟨r, rfl⟩)
  obtain ⟨b1, _, _, b4, _⟩ := foldO_applyAt b _ _ hb H1
  obtain ⟨h2, H2⟩ := foldO_applyAt_total (g := fun d => some (famEval P d)) b h1 hb
    (fun i hib => by rw [b1, a1]; exact hlt i hib) (fun i _ => ⟨_, rfl⟩)
  obtain ⟨c1, _, _, c4, _⟩ := foldO_applyAt b _ _ hb H2
  obtain ⟨h3, H3⟩ := foldO_applyAt_total (g := wcProcInd e.n) b h2 hb
    (fun i hib => by rw [c1, b1, a1]; exact hlt i hib)
    (fun i hib => by
      obtain ⟨d', hd'⟩ := one i hib
      obtain ⟨x1, cl1, e1, m1⟩ := b4 i hib
      obtain ⟨x2, cl2, e2, m2⟩ := c4 i hib
      simp only [Option.some.injEq] at e2
      have e2' := congrArg Prod.fst e2
      simp only at e2'
      unfold wcOne at hd'
      rw [m0 i hib] at e1
      rw [e1] at hd'
      simp only at hd'
      rw [m1] at e2'
      rw [m2, ← e2']
      cases hw : wcProcInd e.n (famEval P x1).1 with
      | none => simp [hw] at hd'
      | some r => exact ⟨r, rfl⟩)
  refine ⟨{ e with heap := h3, individuals := [], toEvaluate := [] }, ?_⟩
  unfold wcEvaluate
  simp only [evalList, H0, foldO_wcAdd, H1, Option.map_some, hi, ht, List.nil_append]
  unfold wcRun
  simp only [evalFamilies, H2, H3, if_true]

/-! ## gradient evaluator -/

/-- What one batch does to one of its designs (gradient evaluator); `np` = `n_params`, the
dimension of the first design of the batch. -/
def gradOne (P : Prob) (dl : Rat) (np : Nat) (d : Ind) : Option Ind :=
  match gradAddInd dl d with
  | some (d1, _) => (gradProcInd dl np (famEval P d1).1).map (·.1)
  | none => none

def gradCalls (P : Prob) (dl : Rat) (d : Ind) : List (List Rat) :=
  match gradAddInd dl d with
  | some (d1, _) => (famEval P d1).2
  | none => []

theorem gradEvaluate_spec (P : Prob) (dl : Rat) (e e' : Ev) (b : List Nat) (hb : b.Nodup)
    (hi : e.individuals = []) (ht : e.toEvaluate = [])
    (H : gradEvaluate P dl e b = some e') :
    ∃ i0 rest, b = i0 :: rest ∧
    e'.heap.next = e.heap.next ∧ e'.n = e.n ∧ e'.individuals = [] ∧ e'.toEvaluate = [] ∧
    (∀ i ∈ b, i < e.heap.next) ∧
    (∀ j, j ∉ b → e'.heap.mem j = e.heap.mem j) ∧
    (∀ i ∈ b, ∃ d', gradOne P dl (e.heap.mem i0).x.length (e.heap.mem i) = some d' ∧ e'.heap.mem i = d') ∧
    e'.heap.calls = e.heap.calls ++ (b.map (fun i => gradCalls P dl (e.heap.mem i))).flatten := by
  unfold gradEvaluate at H
  rw [foldO_gradAdd] at H
  cases H1 : foldO (applyAt (gradAddInd dl)) e.heap b with
  | none => simp [H1] at H
  | some h1 =>
    simp only [H1, Option.map_some, hi, ht, List.nil_append] at H
    unfold gradRun at H
    simp only at H
    cases b with
    | nil => simp at H
    | cons i0 rest =>
      simp only at H
      split at H
      · rename_i hlt
        split at H
        · rename_i h2 H2
          split at H
          · rename_i h3 H3
            simp only [Option.some.injEq] at H
            subst H
            obtain ⟨b1, b2, b3, b4, b5⟩ := foldO_applyAt _ _ _ hb H1
            obtain ⟨c1, c2, c3, c4, c5⟩ := foldO_applyAt _ _ _ hb H2
            obtain ⟨d1, d2, d3, d4, d5⟩ := foldO_applyAt _ _ _ hb H3
            have hx0 : (h1.mem i0).x = (e.heap.mem i0).x := by
              obtain ⟨x1, cl1, e1, m1⟩ := b4 i0 (by simp)
              simp only [gradAddInd, Option.some.injEq, Prod.mk.injEq] at e1
              rw [m1, ← e1.1]
            refine ⟨i0, rest, rfl, by simp only; omega, rfl, rfl, rfl, b2, ?_, ?_, ?_⟩
            · intro j hj
              simp only
              rw [d3 j hj, c3 j hj, b3 j hj]
            · intro i hib
              obtain ⟨x1, cl1, e1, m1⟩ := b4 i hib
              obtain ⟨x2, cl2, e2, m2⟩ := c4 i hib
              obtain ⟨x3, cl3, e3, m3⟩ := d4 i hib
              simp only [Option.some.injEq] at e2
              have e2' := congrArg Prod.fst e2
              simp only at e2'
              refine ⟨x3, ?_, m3⟩
              unfold gradOne
              rw [e1]
              simp only
              rw [m1] at e2'
              rw [m2, ← e2', hx0] at e3
              simp [e3]
            · simp only
              rw [d5, c5, b5]
              have z1 : (i0 :: rest).map (fun i => callsOf (gradAddInd dl) (e.heap.mem i))
                  = (i0 :: rest).map (fun _ => []) := by
                apply List.map_congr_left
                intro i _
                simp [callsOf, gradAddInd]
              have z3 : (i0 :: rest).map (fun i => callsOf (gradProcInd dl (h1.mem i0).x.length) (h2.mem i))
                  = (i0 :: rest).map (fun _ => []) := by
                apply List.map_congr_left
                intro i hib
                obtain ⟨x3, cl3, e3, _⟩ := d4 i hib
                simp only [callsOf, e3]
                unfold gradProcInd at e3
                split at e3
                · cases e3
                · split at e3
                  · simp only [Option.some.injEq, Prod.mk.injEq] at e3; exact e3.2.symm
                  · cases e3
              have z2 : (i0 :: rest).map (fun i => callsOf (fun d => some (famEval P d)) (h1.mem i))
                  = (i0 :: rest).map (fun i => gradCalls P dl (e.heap.mem i)) := by
                apply List.map_congr_left
                intro i hib
                obtain ⟨x1, cl1, e1, m1⟩ := b4 i hib
                simp only [callsOf, gradCalls, e1, m1]
              rw [z1, z2, z3]
              simp [flatten_map_nil]
          · cases H
        · cases H
      · cases H

theorem quots_done (P : Prob) (dl : Rat) (hdl : dl ≠ 0) (d : Ind) (f0 : List Rat → Rat) (a : Rat)
    (ha : d.costs[0]? = some a) (hf0 : ∀ y, (P.f y)[0]? = some (f0 y)) :
    ∀ cs : List (List Rat), quots dl d (cs.map (childDone P)) = some (cs.map (fun v => (f0 v - a) / dl)) := by
  intro cs
  induction cs with
  | nil => rfl
  | cons v r ih => simp [quots, ha, childDone, hf0 v, hdl, ih]

/-- The forward-difference gradient of the first objective. -/
def fwdGrad (f0 : List Rat → Rat) (dl : Rat) (x : List Rat) : List Rat :=
  (gradVecs dl x).map (fun v => (f0 v - f0 x) / dl)

theorem gradVecs_length (dl : Rat) (x : List Rat) : (gradVecs dl x).length = x.length := by
  simp [gradVecs]

theorem gradOne_fresh (P : Prob) (dl : Rat) (hdl : dl ≠ 0) (np : Nat) (d : Ind) (f0 : List Rat → Rat)
    (hd : d.evaluated = false) (hf0 : ∀ y, (P.f y)[0]? = some (f0 y)) (hnp : d.x.length ≤ np) :
    gradOne P dl np d = some
      { x := d.x, costs := P.f d.x, signed := signedCosts P (P.f d.x) d.x, evaluated := true,
        children := (gradVecs dl d.x).map (childDone P), sens := d.sens,
        grad := some (fwdGrad f0 dl d.x ++ List.replicate (np - d.x.length) 0) } := by
  have hnot : ¬ (gradVecs dl d.x).length > np := by rw [gradVecs_length]; omega
  unfold gradOne
  simp only [gradAddInd, famEval, jobEval, hd, Bool.false_eq_true, if_false, children_done]
  unfold gradProcInd
  simp only [List.length_map, hnot, if_false]
  rw [quots_done P dl hdl _ f0 (f0 d.x) (hf0 d.x) hf0]
  simp [fwdGrad, gradVecs_length]

theorem gradCalls_fresh (P : Prob) (dl : Rat) (d : Ind) (hd : d.evaluated = false) :
    gradCalls P dl d = d.x :: gradVecs dl d.x := by
  simp [gradCalls, gradAddInd, famEval, jobEval, hd, children_calls]

end Artap.Robust
