import ArtapModel.Proofs.Sorting
/-!
# C02 — Non-dominated sorting assigns every individual its true Pareto rank

Property theorems only.  Model: `Model/Sorting.lean` (`fnds`, the counter / peeling loops of
`Selector.fast_nondominated_sorting`); invariants and helper lemmas: `Proofs/Sorting.lean`.

Vocabulary (defined in `Proofs/Sorting.lean`):
* `Dom pop p q` – the member at position `p` dominates the one at position `q`
  (C01 verdict `1`; `dom_iff` unfolds it to the textbook relation);
* `RecAt (Dom pop) f q` – the statement of the property at `q`: `f q` is a front number `r ≥ 1`,
  every dominator of `q` has a smaller one, and `r = 1` or some dominator has `r − 1`;
* `IsTrueRank pop f` – `RecAt` at every position; `rankOf pop q` – the model's front number;
* `SameLen pop` – all members have the same number of objectives (any number, also `0`).
-/
namespace Artap.C02
open Artap

variable {α : Type} [LinearOrder α]

/-- `Dom` is textbook constrained dominance between two members: better feasibility marker,
or equal markers (in absolute value) and Pareto dominance of the cost vectors. -/
theorem dom_iff (pop : List (List α × Int)) (h : SameLen pop) (p q : Nat) :
    Dom pop p q ↔ ∃ (hp : p < pop.length) (hq : q < pop.length),
      pop[p].2.natAbs < pop[q].2.natAbs ∨
        (pop[p].2.natAbs = pop[q].2.natAbs ∧ Dominates pop[p].1 pop[q].1) := by
  constructor
  · intro hd
    obtain ⟨hp, hq⟩ := hd.lt
    refine ⟨hp, hq, ?_⟩
    unfold Dom at hd
    rw [popCmp_eq hp hq] at hd
    exact (C01.pareto_one_iff _ _ _ _ (h _ (List.getElem_mem hp) _ (List.getElem_mem hq))).mp hd
  · rintro ⟨hp, hq, hd⟩
    unfold Dom
    rw [popCmp_eq hp hq]
    exact (C01.pareto_one_iff _ _ _ _ (h _ (List.getElem_mem hp) _ (List.getElem_mem hq))).mpr hd

/-- After the two nested comparison loops: `counter[q]` is the number of members that
dominate `q`, `dominate[p]` lists exactly the members `p` dominates (no repetition),
front number `1` is set exactly where the counter is `0`, and the first front lists exactly
those positions (fields of `Phase1Spec`). -/
theorem phase1_counts (pop : List (List α × Int)) (h : SameLen pop) :
    Phase1Spec pop.length (popCmp pop) (phase1 (popCmp pop) pop.length).1
      (phase1 (popCmp pop) pop.length).2 :=
  phase1_spec (cmpOK_of_sameLen h)

/-- Termination: the fuel `n + 1` of the `while` loop is never exhausted, and every
position gets an entry. -/
theorem peel_fuel (pop : List (List α × Int)) (h : SameLen pop) :
    ∃ l, fnds? pop = some l ∧ l.length = pop.length := by
  obtain ⟨l, a, b, _⟩ := fnds?_spec h
  exact ⟨l, a, b⟩

theorem fnds_length (pop : List (List α × Int)) (h : SameLen pop) :
    (fnds pop).length = pop.length := by
  obtain ⟨l, a, b, _⟩ := fnds?_spec h
  unfold fnds; rw [a]; exact b

/-- **The property.**  For every population (any size, any order, duplicates, any markers)
the front numbers computed by the counter / peeling loops satisfy the recurrence of the
statement at every position: `1` if no member dominates it, otherwise one more than the
largest front number among the members that dominate it. -/
theorem fnds_rank (pop : List (List α × Int)) (h : SameLen pop) :
    ∀ q, q < pop.length → RecAt (Dom pop) (rankOf pop) q := by
  obtain ⟨l, a, _, c⟩ := fnds?_spec h
  have : rankOf pop = fun x => l[x]?.join := by
    funext x; unfold rankOf fnds; rw [a]
  rw [this]; exact c

/-- The recurrence has exactly one solution: two assignments that satisfy it everywhere
agree on every position ("the true Pareto rank" is well defined). -/
theorem rec_unique (pop : List (List α × Int)) (f g : Nat → Option Nat)
    (hf : IsTrueRank pop f) (hg : IsTrueRank pop g) : ∀ q, q < pop.length → f q = g q := by
  intro q hq
  have key := rec_unique_rel (domA := Dom pop) (domB := Dom pop) (f := f) (g := g)
    (fun i => i < pop.length) (fun i => i < pop.length) (fun i j => i = j) hf hg
    (fun p q h => h.lt.1) (fun p q h => h.lt.1)
    (fun p i j e d => ⟨p, rfl, e ▸ d⟩) (fun p i j e d => ⟨p, rfl, e ▸ d⟩)
  obtain ⟨r, fr, _⟩ := hf q hq
  rw [fr]
  exact ((key r q q hq hq rfl).mp fr).symm

/-- Order independence, in its strongest form: the front number of a member depends only
on its own (costs, marker) and on the *set* of members – not on positions, order or
multiplicities.  In particular it is invariant under every permutation of the input. -/
theorem fnds_perm (A B : List (List α × Int)) (hA : SameLen A) (hAB : ∀ x, x ∈ A ↔ x ∈ B)
    (i j : Nat) (x : List α × Int) (hi : A[i]? = some x) (hj : B[j]? = some x) :
    rankOf A i = rankOf B j := by
  have hB : SameLen B := fun a ha b hb => hA a ((hAB a).mpr ha) b ((hAB b).mpr hb)
  have hcmp : ∀ {p i p' j : Nat} {y x : List α × Int}, A[p]? = some y → A[i]? = some x →
      B[p']? = some y → B[j]? = some x → popCmp A p i = popCmp B p' j := by
    intro p i p' j y x a b c d
    unfold popCmp; rw [a, b, c, d]
  have key := rec_unique_rel (domA := Dom A) (domB := Dom B) (f := rankOf A) (g := rankOf B)
    (fun i => i < A.length) (fun j => j < B.length)
    (fun i j => ∃ x, A[i]? = some x ∧ B[j]? = some x)
    (fnds_rank A hA) (fnds_rank B hB) (fun p q h => h.lt.1) (fun p q h => h.lt.1)
    (by
      rintro p i j ⟨x, xi, xj⟩ d
      have hp := d.lt.1
      have hy : A[p]? = some A[p] := List.getElem?_eq_getElem hp
      obtain ⟨p', hp', e⟩ := List.mem_iff_getElem.mp ((hAB _).mp (List.getElem_mem hp))
      have hy' : B[p']? = some A[p] := by rw [List.getElem?_eq_getElem hp', e]
      refine ⟨p', ⟨_, hy, hy'⟩, ?_⟩
      unfold Dom at d ⊢
      rw [← hcmp hy xi hy' xj]; exact d)
    (by
      rintro p' i j ⟨x, xi, xj⟩ d
      have hp' := d.lt.1
      have hy' : B[p']? = some B[p'] := List.getElem?_eq_getElem hp'
      obtain ⟨p, hp, e⟩ := List.mem_iff_getElem.mp ((hAB _).mpr (List.getElem_mem hp'))
      have hy : A[p]? = some B[p'] := by rw [List.getElem?_eq_getElem hp, e]
      refine ⟨p, ⟨_, hy, hy'⟩, ?_⟩
      unfold Dom at d ⊢
      rw [hcmp hy xi hy' xj]; exact d)
  have hiA : i < A.length := by
    by_contra hc
    have : A[i]? = none := by simp; omega
    rw [this] at hi; cases hi
  have hjB : j < B.length := by
    by_contra hc
    have : B[j]? = none := by simp; omega
    rw [this] at hj; cases hj
  obtain ⟨r, fr, _⟩ := fnds_rank A hA i hiA
  rw [fr]
  exact ((key r i j hiA hjB ⟨x, hi, hj⟩).mp fr).symm

/-- Permutation form of `fnds_perm`. -/
theorem fnds_perm' (A B : List (List α × Int)) (hA : SameLen A) (hAB : A.Perm B)
    (i j : Nat) (x : List α × Int) (hi : A[i]? = some x) (hj : B[j]? = some x) :
    rankOf A i = rankOf B j :=
  fnds_perm A B hA (fun _ => hAB.mem_iff) i j x hi hj

/-! ### Consequences of the recurrence alone (any assignment `f` with `IsTrueRank pop f`,
in particular `rankOf pop` by `fnds_rank`) -/

/-- No individual is left unranked; front numbers start at 1. -/
theorem no_unranked (pop : List (List α × Int)) (f : Nat → Option Nat) (hf : IsTrueRank pop f)
    (q : Nat) (hq : q < pop.length) : ∃ r, f q = some r ∧ 1 ≤ r := by
  obtain ⟨r, a, b, _⟩ := hf q hq
  exact ⟨r, a, b⟩

/-- A dominator always sits in a strictly earlier front (used by C03 / C09). -/
theorem rank_lt_of_dom (pop : List (List α × Int)) (f : Nat → Option Nat) (hf : IsTrueRank pop f)
    (p q : Nat) (hd : Dom pop p q) : ∃ rp rq, f p = some rp ∧ f q = some rq ∧ rp < rq := by
  obtain ⟨r, a, _, c, _⟩ := hf q hd.lt.2
  obtain ⟨r', a', b'⟩ := c p hd
  exact ⟨r', r, a', a, b'⟩

/-- Members of one front never dominate each other. -/
theorem same_front_incomparable (pop : List (List α × Int)) (f : Nat → Option Nat)
    (hf : IsTrueRank pop f) (p q : Nat) (he : f p = f q) : ¬ Dom pop p q ∧ ¬ Dom pop q p := by
  constructor
  · intro hd
    obtain ⟨rp, rq, a, b, c⟩ := rank_lt_of_dom pop f hf p q hd
    rw [a, b] at he
    have : rp = rq := Option.some.inj he
    omega
  · intro hd
    obtain ⟨rq, rp, a, b, c⟩ := rank_lt_of_dom pop f hf q p hd
    rw [a, b] at he
    have : rp = rq := Option.some.inj he
    omega

/-- Front 1 is exactly the non-dominated subset. -/
theorem front1_iff_nondominated (pop : List (List α × Int)) (f : Nat → Option Nat)
    (hf : IsTrueRank pop f) (q : Nat) (hq : q < pop.length) :
    f q = some 1 ↔ ∀ p, ¬ Dom pop p q := by
  constructor
  · intro h1 p hd
    obtain ⟨rp, rq, a, b, c⟩ := rank_lt_of_dom pop f hf p q hd
    obtain ⟨r, a', b'⟩ := no_unranked pop f hf p hd.lt.1
    rw [h1] at b
    have : 1 = rq := Option.some.inj b
    rw [a] at a'
    have : rp = r := Option.some.inj a'
    omega
  · intro hnd
    obtain ⟨r, a, _, _, d⟩ := hf q hq
    rcases d with e | ⟨p, _, hd, _⟩
    · rw [a, e]
    · exact absurd hd (hnd p)

/-- A dominated member's front number is one more than the *largest* front number among
its dominators. -/
theorem rank_succ_max (pop : List (List α × Int)) (f : Nat → Option Nat) (hf : IsTrueRank pop f)
    (q p0 : Nat) (h0 : Dom pop p0 q) :
    ∃ p rp, Dom pop p q ∧ f p = some rp ∧ f q = some (rp + 1) ∧
      ∀ p', Dom pop p' q → ∃ r', f p' = some r' ∧ r' ≤ rp := by
  obtain ⟨r, a, _, c, d⟩ := hf q h0.lt.2
  rcases d with e | ⟨p, rp, hd, fp, e⟩
  · obtain ⟨r0, a0, b0⟩ := c p0 h0
    obtain ⟨r1, a1, b1⟩ := no_unranked pop f hf p0 h0.lt.1
    rw [a0] at a1
    have : r0 = r1 := Option.some.inj a1
    omega
  · refine ⟨p, rp, hd, fp, by rw [a, e], ?_⟩
    intro p' hd'
    obtain ⟨r', a', b'⟩ := c p' hd'
    exact ⟨r', a', by omega⟩

/-! ### The executable check used by the driver on the implementation's numbers -/

/-- `isTrueRank` (run by the driver on front numbers produced by the *implementation*)
decides exactly the statement of the property. -/
theorem isTrueRank_iff (pop : List (List α × Int)) (l : List (Option Nat)) :
    isTrueRank pop l = true ↔ l.length = pop.length ∧ IsTrueRank pop (fun x => l[x]?.join) := by
  unfold isTrueRank IsTrueRank
  simp only [Bool.and_eq_true, beq_iff_eq, List.all_eq_true, List.mem_range]
  constructor
  · rintro ⟨a, b⟩
    refine ⟨a, fun q hq => ?_⟩
    exact ((recAtB_iff _ _ l q hq).mp (b q hq)).congr (fun p q => (dom_iff_domN (pop := pop)).symm)
  · rintro ⟨a, b⟩
    refine ⟨a, fun q hq => ?_⟩
    exact (recAtB_iff _ _ l q hq).mpr ((b q hq).congr (fun p q => dom_iff_domN (pop := pop)))

/-- Hence the check accepts the model's answer and nothing else: any front numbers that
differ from `fnds pop` violate the property (a disagreement found by the correspondence
check is a failing input). -/
theorem isTrueRank_eq_fnds (pop : List (List α × Int)) (h : SameLen pop) (l : List (Option Nat)) :
    isTrueRank pop l = true ↔ l = fnds pop := by
  constructor
  · intro hl
    obtain ⟨hlen, hrec⟩ := (isTrueRank_iff pop l).mp hl
    have hu := rec_unique pop _ _ hrec (fnds_rank pop h)
    apply List.ext_getElem (by rw [hlen, fnds_length pop h])
    intro q h1 h2
    have hq : q < pop.length := by omega
    have := hu q hq
    unfold rankOf at this
    rw [List.getElem?_eq_getElem h1, List.getElem?_eq_getElem h2] at this
    obtain ⟨r, a, _⟩ := no_unranked pop _ hrec q hq
    rw [List.getElem?_eq_getElem h1] at a
    simp only [Option.join_some] at this a
    rw [this]
  · intro e
    subst e
    rw [isTrueRank_iff]
    refine ⟨fnds_length pop h, ?_⟩
    exact fnds_rank pop h

/-! ## Non-vacuity: concrete populations satisfying the hypotheses -/

-- two incomparable members, a duplicate pair, a chain and an infeasible member that would
-- otherwise dominate everything
example : fnds [([(1 : Int), 2], 0), ([2, 1], 0), ([2, 2], 0), ([2, 2], 0), ([3, 3], 0), ([0, 0], 1)]
    = [some 1, some 1, some 2, some 2, some 3, some 4] := by decide
example : SameLen [([(1 : Int), 2], (0 : Int)), ([2, 1], 0), ([2, 2], 0)] := by
  intro a ha b hb
  simp only [List.mem_cons, List.not_mem_nil, or_false] at ha hb
  rcases ha with rfl | rfl | rfl <;> rcases hb with rfl | rfl | rfl <;> rfl
-- `Dom` holds / fails on concrete members
example : Dom [([(1 : Int), 2], (0 : Int)), ([2, 1], 0), ([2, 2], 0)] 0 2 := by unfold Dom; decide
example : ¬ Dom [([(1 : Int), 2], (0 : Int)), ([2, 1], 0), ([2, 2], 0)] 0 1 := by unfold Dom; decide
-- the check accepts the true ranks and rejects a wrong assignment
example : isTrueRank [([(1 : Int), 2], (0 : Int)), ([2, 1], 0), ([2, 2], 0)] [some 1, some 1, some 2] = true := by
  decide
example : isTrueRank [([(1 : Int), 2], (0 : Int)), ([2, 1], 0), ([2, 2], 0)] [some 1, some 1, some 3] = false := by
  decide
-- the same members in another order keep their front numbers
example : rankOf [([(2 : Int), 2], (0 : Int)), ([1, 2], 0)] 0 = rankOf [([(1 : Int), 2], (0 : Int)), ([2, 2], 0)] 1 := by
  decide

end Artap.C02
