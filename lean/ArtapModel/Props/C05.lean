import ArtapModel.Proofs.Eval
import ArtapModel.Proofs.EvalRound
/-!
# C05 — each design is evaluated exactly once and stored costs belong to its vector

Property theorems only.  Model: `Model/Eval.lean` (`jobEvaluate` = `Job.evaluate`,
`evalSerial` = `Evaluator.evaluate_serial`, `evalIdx` = the same loop over object references,
`evalScalar` = `Evaluator.evaluate_scalar`, `sweep` = `SweepAlgorithm.run`); helper lemmas:
`Proofs/Eval.lean`.  Throughout, `env.AlwaysOk f` says the user's objective is the function
`f` (every call on `v` returns `f v`); `env.cons`, `env.signs` (minimise = 1, maximise = −1)
and the rounding function `env.rnd` are arbitrary.  The fault path is C06.
-/
namespace Artap.C05
open Artap Artap.Eval

/-- A batch invokes the objective exactly once for every EMPTY design, in batch order, and
never for another one; nothing fails and `Problem.failed` is untouched. -/
theorem batch_calls_exactly_new (env : Env) (f : Vec → List Rat) (h : env.AlwaysOk f)
    (ds : List Design) (w : World) :
    (evalSerial env ds w).1 = none ∧
    (evalSerial env ds w).2.2.log =
      w.log ++ (ds.filter (fun d => decide (d.state = .empty))).map (fun d => (d.key, d.vec)) ∧
    (evalSerial env ds w).2.2.failed = w.failed := by
  rw [evalSerial_ok h]; simp [newCalls]

example : ∃ (env : Env) (ds : List Design), env.AlwaysOk (fun v => v) ∧ ds.length = 2 ∧
    (ds.filter (fun d => decide (d.state = .empty))).length = 1 :=
  ⟨{ obj := fun _ _ v => .ok v, reroll := fun _ _ => [], cons := fun _ => [], signs := [1], rnd := fun _ y => y },
   [fresh 0 7 [1], { fresh 1 7 [2] with state := .evaluated }], fun _ _ _ => rfl, rfl, rfl⟩

/-- Evaluating the same batch again (whatever happened to the log in between) calls nothing
and changes nothing. -/
theorem batch_idempotent (env : Env) (f : Vec → List Rat) (h : env.AlwaysOk f)
    (ds : List Design) (w w' : World) :
    evalSerial env (evalSerial env ds w).2.1 w' = (none, (evalSerial env ds w).2.1, w') := by
  rw [evalSerial_ok h, evalSerial_ok h]
  simp only [newCalls_evalOne, List.append_nil, List.map_map]
  congr 2
  apply List.map_congr_left
  intro d _
  exact evalOne_idem env f d

/-- After the batch: every EMPTY design is EVALUATED, keeps its vector, its costs are what the
objective returns for that vector, its signed costs are `sign · rnd(cost)` (zipped like
Python's `map`), and the marker is `not feasible`; every other design is untouched. -/
theorem evaluated_fields (env : Env) (f : Vec → List Rat) (h : env.AlwaysOk f)
    (ds : List Design) (w : World) :
    (evalSerial env ds w).2.1.length = ds.length ∧
    ∀ (i : Nat) (hi : i < ds.length) (hr : i < (evalSerial env ds w).2.1.length),
      let d := ds[i]
      let r := (evalSerial env ds w).2.1[i]
      (d.state = .empty →
        r.state = .evaluated ∧ r.vec = d.vec ∧ r.key = d.key ∧ r.costs = f d.vec ∧
        r.signed = List.zipWith (fun s c => s * env.rnd d.prec c) env.signs (f d.vec) ∧
        r.marker = some (markerOf (feasAfter (env.cons d.vec) d.feasible))) ∧
      (d.state ≠ .empty → r = d) := by
  rw [evalSerial_ok h]
  refine ⟨by simp, ?_⟩
  intro i hi hr
  simp only [List.getElem_map]
  constructor
  · intro hs
    simp [evalOne, hs, succeed, signedCosts]
  · intro hs
    simp [evalOne, hs]

/-- A batch of new and already evaluated designs leaves every design EVALUATED. -/
theorem all_evaluated_afterwards (env : Env) (f : Vec → List Rat) (h : env.AlwaysOk f)
    (ds : List Design) (w : World)
    (hds : ∀ d ∈ ds, d.state = .empty ∨ d.state = .evaluated) :
    ∀ r ∈ (evalSerial env ds w).2.1, r.state = .evaluated := by
  rw [evalSerial_ok h]
  intro r hr
  simp only [List.mem_map] at hr
  obtain ⟨d, hd, rfl⟩ := hr
  rcases hds d hd with hs | hs
  · simp [evalOne, hs, succeed]
  · simp [evalOne, hs]

/-- The marker is `0` exactly when there are constraints and all of them are `< 0`; with
violated constraints (some `g ≥ 0`) it is `1`. -/
theorem marker_of_constraints (g : List Rat) (fz : Feas) (hg : g ≠ []) :
    (markerOf (feasAfter g fz) = 0 ↔ ∀ v ∈ g, v < 0) ∧
    (markerOf (feasAfter g fz) = 1 ↔ ∃ v ∈ g, ¬ v < 0) := by
  have hne : g.isEmpty = false := by cases g <;> simp_all
  by_cases hall : ∀ v ∈ g, v < 0
  · have ha : g.all (fun v => decide (v < 0)) = true := by simpa using hall
    have hm : markerOf (feasAfter g fz) = 0 := by simp [feasAfter, hne, ha, markerOf, Feas.truthy]
    rw [hm]
    exact ⟨⟨fun _ => hall, fun _ => rfl⟩, ⟨fun h => by simp at h, fun ⟨v, hv, hn⟩ => absurd (hall v hv) hn⟩⟩
  · have ha : ¬ (g.all (fun v => decide (v < 0)) = true) := by simpa using hall
    have hm : markerOf (feasAfter g fz) = 1 := by simp [feasAfter, hne, ha, markerOf, Feas.truthy]
    rw [hm]
    refine ⟨⟨fun h => by simp at h, fun h => absurd h hall⟩, ⟨fun _ => ?_, fun _ => rfl⟩⟩
    exact Classical.not_forall.1 hall |>.elim fun v hv => ⟨v, Classical.not_imp.1 hv⟩

/-- Constrained problem: a design satisfying all inequality constraints (`g < 0`) beats a
violating one in the Pareto comparator of C01, whatever the costs are (and loses in the
other direction). -/
theorem marker_orders_feasible_first (env : Env) (f : Vec → List Rat) (h : env.AlwaysOk f)
    (d₁ d₂ : Design) (w₁ w₂ : World)
    (h₁ : d₁.state ≠ .evaluated) (h₂ : d₂.state ≠ .evaluated)
    (hc₁ : env.cons d₁.vec ≠ []) (hc₂ : env.cons d₂.vec ≠ [])
    (hfeas : ∀ v ∈ env.cons d₁.vec, v < 0) (hviol : ∃ v ∈ env.cons d₂.vec, ¬ v < 0) :
    let r₁ := (jobEvaluate env d₁ w₁).2.1
    let r₂ := (jobEvaluate env d₂ w₂).2.1
    r₁.marker = some 0 ∧ r₂.marker = some 1 ∧
    paretoCompare r₁.signed r₂.signed 0 1 = 1 ∧ paretoCompare r₂.signed r₁.signed 1 0 = 2 := by
  rw [jobEvaluate_ok h d₁ w₁ h₁, jobEvaluate_ok h d₂ w₂ h₂]
  have m₁ := ((marker_of_constraints (env.cons d₁.vec) d₁.feasible hc₁).1).2 hfeas
  have m₂ := ((marker_of_constraints (env.cons d₂.vec) d₂.feasible hc₂).2).2 hviol
  refine ⟨by simp [succeed, m₁], by simp [succeed, m₂], ?_, ?_⟩
  · simp [paretoCompare, markerVerdict]
  · simp [paretoCompare, markerVerdict]

example : ∃ g₁ g₂ : List Rat, g₁ ≠ [] ∧ g₂ ≠ [] ∧ (∀ v ∈ g₁, v < 0) ∧ (∃ v ∈ g₂, ¬ v < 0) :=
  ⟨[-1, -2], [-1, 0], by simp, by simp, by decide, ⟨0, by simp, by decide⟩⟩

/-- Without constraints the marker is `1` for every design (`not 0.0`), so feasibility never
decides and plain Pareto dominance applies. -/
theorem marker_unconstrained (env : Env) (f : Vec → List Rat) (h : env.AlwaysOk f)
    (d : Design) (w : World) (hs : d.state ≠ .evaluated) (hc : env.cons d.vec = [])
    (hf : d.feasible ≠ .yes) :
    (jobEvaluate env d w).2.1.marker = some 1 := by
  rw [jobEvaluate_ok h d w hs]
  cases hfe : d.feasible <;> simp_all [succeed, feasAfter, markerOf, Feas.truthy]

/-- A sweep creates one design per generated vector (appended to `problem.individuals` in
generator order), calls the objective on exactly these vectors in that order, and leaves
all of them EVALUATED with the objective's costs. -/
theorem sweep_order (env : Env) (f : Vec → List Rat) (h : env.AlwaysOk f)
    (p : Nat) (vs : List Vec) (pool : List Design) (w : World) :
    (sweep env p vs pool w).1 = none ∧
    ((sweep env p vs pool w).2.2.log.drop w.log.length).map (·.2) = vs ∧
    (sweep env p vs pool w).2.2.log = w.log ++ sweepCalls pool.length vs ∧
    (sweep env p vs pool w).2.1 =
      pool ++ (freshFrom pool.length p vs).map (fun d => succeed env d (f d.vec)) ∧
    ((sweep env p vs pool w).2.1.drop pool.length).map (·.vec) = vs ∧
    ((sweep env p vs pool w).2.1.drop pool.length).map (·.costs) = vs.map f := by
  unfold sweep
  rw [evalSerial_ok h]
  simp only [newCalls_freshFrom]
  have hmap : (freshFrom pool.length p vs).map (evalOne env f) =
      (freshFrom pool.length p vs).map (fun d => succeed env d (f d.vec)) := by
    apply List.map_congr_left
    intro d hd
    have : d ∈ (freshFrom pool.length p vs).filter (fun d => decide (d.state = .empty)) := by
      rw [freshFrom_all_empty]; exact hd
    have hs : d.state = .empty := by simpa using (List.mem_filter.1 this).2
    simp [evalOne, hs]
  have hvec : ∀ (s : Nat) (vs : List Vec),
      ((freshFrom s p vs).map (fun d => succeed env d (f d.vec))).map (·.vec) = vs := by
    intro s vs
    induction vs generalizing s with
    | nil => rfl
    | cons v vs ih => simp only [freshFrom, List.map_cons, ih (s + 1)]; rfl
  have hcost : ∀ (s : Nat) (vs : List Vec),
      ((freshFrom s p vs).map (fun d => succeed env d (f d.vec))).map (·.costs) = vs.map f := by
    intro s vs
    induction vs generalizing s with
    | nil => rfl
    | cons v vs ih => simp only [freshFrom, List.map_cons, ih (s + 1)]; rfl
  refine ⟨by simp, ?_, by simp, by rw [hmap], ?_, ?_⟩
  · simp [sweepCalls_vecs]
  · rw [hmap]; simp [hvec]
  · rw [hmap]; simp [hcost]

/-- `evaluate_scalar x` records exactly one new design with vector `x`, EVALUATED, with the
true costs `f x`, calls the objective once on `x`, and hands the optimiser the signed first
cost `sign₀ · rnd((f x)₀)`. -/
theorem scalar_bridge (env : Env) (f : Vec → List Rat) (h : env.AlwaysOk f)
    (p : Nat) (x : Vec) (pool : List Design) (w : World) :
    ∃ d : Design,
      (evalScalar env p x pool w).2.1 = pool ++ [d] ∧
      d.vec = x ∧ d.state = .evaluated ∧ d.costs = f x ∧
      (evalScalar env p x pool w).2.2.log = w.log ++ [(pool.length, x)] ∧
      (evalScalar env p x pool w).2.2.failed = w.failed ∧
      ∀ s c ss cs, env.signs = s :: ss → f x = c :: cs →
        (evalScalar env p x pool w).1 = .ok (some (s * env.rnd p c)) := by
  have hne : (fresh pool.length p x).state ≠ .evaluated := by simp [fresh]
  refine ⟨succeed env (fresh pool.length p x) (f x), ?_⟩
  simp only [evalScalar, jobEvaluate_ok h _ w hne]
  refine ⟨by simp [fresh], by simp [succeed, fresh], by simp [succeed], by simp [succeed, fresh],
    by simp [logCall, fresh], by simp [logCall], ?_⟩
  intro s c ss cs hs hc
  simp [signedHead, succeed, signedCosts, fresh, hs, hc]

example : ∃ (env : Env) (f : Vec → List Rat), env.AlwaysOk f ∧ env.signs = [-1] ∧ f [3] = [3, 3] :=
  ⟨{ obj := fun _ _ v => .ok (v ++ v), reroll := fun _ _ => [], cons := fun _ => [], signs := [-1],
     rnd := fun p y => roundDec p y }, fun v => v ++ v, fun _ _ _ => rfl, rfl, rfl⟩

/-- The batch as Python sees it: a list of *references* `is` into the pool of design objects
(`pool[j].key = j`), where the same object may occur several times.  Every referenced EMPTY
object is evaluated – the objective is called on it exactly once, however often it is
referenced –, no other object is called or changed, every call is made on the vector the object
holds, and the updated object carries the objective's costs for that vector. -/
theorem refs_called_once (env : Env) (f : Vec → List Rat) (h : env.AlwaysOk f)
    (is : List Nat) (pool : List Design) (w : World)
    (hin : ∀ i ∈ is, i < pool.length)
    (hkey : ∀ (j : Nat) (d : Design), pool[j]? = some d → d.key = j) :
    ∃ (pool' : List Design) (new : List (Nat × Vec)),
      evalIdx env is pool w = some (none, pool', { log := w.log ++ new, failed := w.failed }) ∧
      (∀ (j : Nat) (d : Design), pool[j]? = some d →
        pool'[j]? = some (if j ∈ is ∧ d.state = .empty then succeed env d (f d.vec) else d)) ∧
      pool'.length = pool.length ∧
      (∀ (j : Nat) (d : Design), pool[j]? = some d →
        (new.filter (fun e => e.1 == j)).length = if j ∈ is ∧ d.state = .empty then 1 else 0) ∧
      (∀ e ∈ new, ∃ d, pool[e.1]? = some d ∧ e.2 = d.vec ∧ e.1 ∈ is) :=
  evalIdx_ok h is pool w hin hkey

example : ∃ (is : List Nat) (pool : List Design), (∀ i ∈ is, i < pool.length) ∧
    (∀ (j : Nat) (d : Design), pool[j]? = some d → d.key = j) ∧ is = [1, 0, 1] :=
  ⟨[1, 0, 1], [fresh 0 7 [1], fresh 1 7 [2]], by decide, by
    intro j d hd
    match j, hd with
    | 0, hd => simp at hd; subst hd; rfl
    | 1, hd => simp at hd; subst hd; rfl
    | j + 2, hd => simp at hd, rfl⟩

/-! ### `np.round(y, p)` in exact arithmetic -/

/-- `roundDec p y` lies on the decimal grid `ℤ / 10^p`. -/
theorem roundDec_on_grid (p : Nat) (y : Rat) : ∃ n : Int, roundDec p y = (n : Rat) / (10 : Rat) ^ p :=
  ⟨_, rfl⟩

/-- … within half a unit of the `p`-th decimal of `y` ("rounded to the stored precision"). -/
theorem rounding_error (p : Nat) (y : Rat) :
    -(1 / (2 * (10 : Rat) ^ p)) ≤ roundDec p y - y ∧ roundDec p y - y ≤ 1 / (2 * (10 : Rat) ^ p) :=
  roundDec_close p y

/-- … and values that already have at most `p` decimals are not changed. -/
theorem rounding_fixes_grid (p : Nat) (n : Int) :
    roundDec p ((n : Rat) / (10 : Rat) ^ p) = (n : Rat) / (10 : Rat) ^ p :=
  roundDec_of_grid p n

end Artap.C05
