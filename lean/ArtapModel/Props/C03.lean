import ArtapModel.Proofs.Selection
import ArtapModel.Props.C01
/-!
# C03 — Environmental selection is elitist: rank first, then crowding, no duplicates; tournament

Property theorems only.  Model: `Model/Selection.lean`; helper lemmas and the specification
vocabulary (`Kept`, `DesignDiscarded`, `RankConsistent`, …): `Proofs/Selection.lean`.

Truncation: `truncate pop k oracle = some r` says that `r` (indices into `pop`) is what
`nondominated_truncate(pop, k)` returns when `list(set(pop))` happens to be `oracle`; every
theorem holds for *every* oracle the model accepts (one representative of every design, in any
order), which covers whatever order and representative CPython's `set` produces.
-/
namespace Artap.C03
open Artap

/-! ## Crowding distance -/

/-- Fronts of one or two members (and the empty front): every distance is infinite. -/
theorem crowd_small (front : List (List Rat)) (h : front.length ≤ 2) :
    ∃ r, crowding front = some r ∧ r.length = front.length ∧ ∀ e ∈ r, e.acc = none := by
  refine ⟨initEnts front none, by simp [crowding, h], by simp [initEnts], ?_⟩
  intro e he
  simp only [initEnts, List.mem_map] at he
  obtain ⟨⟨c, i⟩, _, rfl⟩ := he
  rfl

/-- Every member of the front appears in the result exactly once, with its original position
and its cost vector (so "the distance of member `i`" is well defined). -/
theorem crowd_members (front : List (List Rat)) (r : List CEnt) (h : crowding front = some r) :
    (r.map (fun e => (e.costs, e.idx))).Perm front.zipIdx := by
  by_cases hn : front.length ≤ 2
  · simp only [crowding, hn, if_true, Option.some.injEq] at h
    subst h
    rw [initEnts_tag]
  · obtain ⟨f0, tl, _, hl⟩ := crowding_big h (by omega)
    rw [← initEnts_tag front (some 0)]
    exact tag_perm_swap (loop_tag_perm hl)

/-- Ties or not: a finite distance is non-negative and at most the number of objectives. -/
theorem crowd_range (f0 : List Rat) (tl : List (List Rat)) (r : List CEnt)
    (h : crowding (f0 :: tl) = some r) :
    ∀ e ∈ r, ∀ v, e.acc = some v → 0 ≤ v ∧ v ≤ (f0.length : Rat) := by
  by_cases hn : (f0 :: tl).length ≤ 2
  · simp only [crowding, hn, if_true, Option.some.injEq] at h
    subst h
    intro e he v hv
    rw [(initEnts_mem he).1] at hv
    cases hv
  · obtain ⟨g0, tl', e, hl⟩ := crowding_big h (by omega)
    obtain ⟨rfl, rfl⟩ := List.cons.inj e
    have := loop_range (c := 0) hl (by
      intro e he v hv
      rw [(initEnts_mem he).1] at hv
      cases hv
      exact ⟨le_refl _, le_refl _⟩)
    simpa using this

/-- Ties or not: for a front of at least three members and every objective `j`, some holder of
the objective's minimum and some holder of its maximum have infinite distance. -/
theorem crowd_extremes (f0 : List Rat) (tl : List (List Rat)) (r : List CEnt)
    (h : crowding (f0 :: tl) = some r) (hn : 3 ≤ (f0 :: tl).length) (j : Nat) (hj : j < f0.length) :
    (∃ x ∈ r, x.acc = none ∧ ∃ v, x.costs[j]? = some v ∧
      ∀ y ∈ r, ∀ w, y.costs[j]? = some w → v ≤ w) ∧
    (∃ x ∈ r, x.acc = none ∧ ∃ v, x.costs[j]? = some v ∧
      ∀ y ∈ r, ∀ w, y.costs[j]? = some w → w ≤ v) := by
  obtain ⟨g0, tl', e, hl⟩ := crowding_big h hn
  obtain ⟨rfl, rfl⟩ := List.cons.inj e
  refine loop_extremes hl (initEnts_restInv _ _) ?_ j (Nat.zero_le _) (by omega)
  simp [initEnts]

/-- The code does not raise on a rectangular front (no cost vector shorter than the first). -/
theorem crowd_total (front : List (List Rat))
    (hrect : ∀ f0 ∈ front.head?, ∀ c ∈ front, f0.length ≤ c.length) :
    ∃ r, crowding front = some r := by
  by_cases hn : front.length ≤ 2
  · exact ⟨initEnts front none, by simp [crowding, hn]⟩
  · cases front with
    | nil => simp at hn
    | cons f0 tl =>
      simp only [crowding, hn, if_false]
      apply loop_total (initEnts_restInv _ _)
      intro e he
      have := (initEnts_mem he).2.2
      have hm : e.costs ∈ f0 :: tl := List.mem_iff_getElem?.2 ⟨_, this⟩
      have := hrect f0 (by simp) e.costs hm
      omega

/-- No objective has tied values: the distance of every member is the property's
order-theoretic formula `CrowdSpec` (infinite iff extreme in some objective, otherwise the sum
over the objectives of (least greater value − greatest smaller value) / (max − min)); the two
readings of `CrowdSpec` follow as `crowd_formula_inf` and `crowd_formula_sum`. -/
theorem crowd_formula (f0 : List Rat) (tl : List (List Rat)) (r : List CEnt)
    (h : crowding (f0 :: tl) = some r) (hn : 3 ≤ (f0 :: tl).length)
    (hnd : ∀ j, j < f0.length → (column (f0 :: tl) j).Nodup) :
    ∀ e ∈ r, CrowdSpec (f0 :: tl) e.costs f0.length e.acc := by
  obtain ⟨g0, tl', e, hl⟩ := crowding_big h hn
  obtain ⟨rfl, rfl⟩ := List.cons.inj e
  have hf : ((initEnts (f0 :: tl) (some 0)).map (·.costs)).Perm (f0 :: tl) := by
    have := congrArg (List.map Prod.fst) (initEnts_tag (f0 :: tl) (some 0))
    simp only [List.map_map, Function.comp_def, List.zipIdx_map_fst] at this
    rw [this]
  have := loop_formula (d := 0) hl (initEnts_restInv _ _) hf
    (fun j _ hj => hnd j (by omega)) (by
      intro e he
      rw [(initEnts_mem he).1]
      exact CrowdSpec.zero)
  simpa using this

/-- Reading 1: without ties, the distance is infinite exactly for the members that hold the
minimum or the maximum of some objective. -/
theorem crowd_formula_inf (f0 : List Rat) (tl : List (List Rat)) (r : List CEnt)
    (h : crowding (f0 :: tl) = some r) (hn : 3 ≤ (f0 :: tl).length)
    (hnd : ∀ j, j < f0.length → (column (f0 :: tl) j).Nodup) :
    ∀ e ∈ r, (e.acc = none ↔ ∃ j, j < f0.length ∧ Extreme (f0 :: tl) e.costs j) := by
  intro e he
  have hs := crowd_formula f0 tl r h hn hnd e he
  constructor
  · exact crowdSpec_none hs
  · rintro ⟨j, hj, hext⟩
    cases hacc : e.acc with
    | none => rfl
    | some x =>
      exfalso
      obtain ⟨ts, hl, _, hts⟩ := crowdSpec_some hs x hacc
      have hjt : j < ts.length := by omega
      exact term_not_extreme (hts j ts[j] (List.getElem?_eq_getElem hjt)) hext

/-- Reading 2: without ties, a finite distance is the sum over the objectives of
(least greater value − greatest smaller value) / (maximum − minimum). -/
theorem crowd_formula_sum (f0 : List Rat) (tl : List (List Rat)) (r : List CEnt)
    (h : crowding (f0 :: tl) = some r) (hn : 3 ≤ (f0 :: tl).length)
    (hnd : ∀ j, j < f0.length → (column (f0 :: tl) j).Nodup) :
    ∀ e ∈ r, ∀ x, e.acc = some x →
      ∃ ts : List Rat, ts.length = f0.length ∧ x = ts.sum ∧
        ∀ j t, ts[j]? = some t → Term (f0 :: tl) e.costs j t := by
  intro e he x hx
  exact crowdSpec_some (crowd_formula f0 tl r h hn hnd e he) x hx

/-! Non-vacuity (crowding): a 4×2 front without ties satisfies the hypotheses of `crowd_formula`;
its member `[2, 3]` is interior in both objectives and `CrowdSpec` gives it
(3−1)/(4−1) + (5−2)/(5−1); a front with ties and a zero-range objective does not raise. -/
example : ∃ r, crowding [[1, 5], [2, 3], [4, 1], [3, 2]] = some r ∧
    3 ≤ [[(1 : Rat), 5], [2, 3], [4, 1], [3, 2]].length ∧
    ∀ j, j < 2 → (column [[1, 5], [2, 3], [4, 1], [3, 2]] j).Nodup := by
  obtain ⟨r, hr⟩ := crowd_total [[1, 5], [2, 3], [4, 1], [3, 2]] (by decide)
  refine ⟨r, hr, by decide, ?_⟩
  intro j hj
  match j, hj with
  | 0, _ => decide
  | 1, _ => decide

example : CrowdSpec [[1, 5], [2, 3], [4, 1], [3, 2]] [2, 3] 2
    (some (0 + (3 - 1) / (4 - 1) + (5 - 2) / (5 - 1))) := by
  refine CrowdSpec.add (CrowdSpec.add CrowdSpec.zero ?_) ?_
  · exact ⟨2, 1, 3, 1, 4, by decide, by decide, by decide, by decide, by decide, by decide, rfl⟩
  · exact ⟨3, 2, 5, 1, 5, by decide, by decide, by decide, by decide, by decide, by decide, rfl⟩

example : ∃ r, crowding [[1, 7], [1, 7], [2, 7], [0, 7]] = some r :=
  crowd_total _ (by decide)

/-! ## Truncation -/

/-- Every population has an admissible oracle – the first occurrence of every design, which is
what CPython's `set` keeps – so the hypothesis `truncate pop k o = some r` of the theorems
below is satisfiable for every population and every `k`. -/
theorem truncate_oracle_exists (pop : List Ind) (k : Nat) :
    ∃ r, truncate pop k (firstOcc pop 0 []) = some r := by
  obtain ⟨picked, h1, _, h3, h4⟩ := firstOcc_spec [] pop []
  simp only [List.nil_append, List.length_nil] at h1
  have hd : isDedup pop picked = true :=
    isDedup_iff.2 ⟨h3, fun x hx => (h4 x hx).resolve_left (by simp)⟩
  exact ⟨((picked.mergeSort ndLe).take k).map (·.1), by simp [truncate, h1, hd]⟩

/-- The result has `min k (#distinct designs)` members. -/
theorem truncate_size (pop : List Ind) (k : Nat) (o r : List Nat)
    (h : truncate pop k o = some r) : r.length = min k (distinctDesigns pop) := by
  obtain ⟨picked, s, hp, hd, _, hperm, hr, _⟩ := truncate_some h
  have h1 : picked.length = distinctDesigns pop := by
    have := length_eq_of_nodup_of_mem_iff (isDedup_iff.1 hd).1 (nodup_dedupNat _)
      (picked_designs_mem_iff hp hd)
    simpa [distinctDesigns] using this
  rw [hr, List.length_map, List.length_take, hperm.length_eq, h1]

/-- Every design at most once: the survivors are different positions with different designs,
and each of them is a member of the population. -/
theorem truncate_nodup (pop : List Ind) (k : Nat) (o r : List Nat)
    (h : truncate pop k o = some r) :
    r.Nodup ∧ (∀ i ∈ r, i < pop.length) ∧
    ∀ i ∈ r, ∀ j ∈ r, ∀ x y, pop[i]? = some x → pop[j]? = some y → x.design = y.design → i = j := by
  obtain ⟨picked, s, hp, hd, _, hperm, hr, _⟩ := truncate_some h
  have hn : (s.map (·.2.design)).Nodup :=
    ((hperm.map _).nodup_iff).2 (isDedup_iff.1 hd).1
  have hsub : (s.take k).Sublist s := List.take_sublist k s
  have hmem : ∀ p ∈ s.take k, p ∈ picked := fun p m => hperm.subset (hsub.subset m)
  have hn1 : (s.map (·.1)).Nodup := by
    have : (s.map (·.2.design)) = (s.map (·.1)).map (fun j => (pop[j]?.map (·.design)).getD 0) := by
      rw [List.map_map]
      apply List.map_congr_left
      intro p m
      simp [(pick_spec hp).2 p (hperm.subset m)]
    rw [this] at hn
    exact List.Nodup.of_map _ hn
  refine ⟨?_, ?_, ?_⟩
  · rw [hr]; exact (hsub.map _).nodup hn1
  · intro i hi
    rw [hr, List.mem_map] at hi
    obtain ⟨p, m, rfl⟩ := hi
    have := (pick_spec hp).2 p (hmem p m)
    exact (List.getElem?_eq_some_iff.1 this).1
  · intro i hi j hj x y hx hy e
    rw [hr, List.mem_map] at hi hj
    obtain ⟨p, mp, rfl⟩ := hi
    obtain ⟨q, mq, rfl⟩ := hj
    have ep := (pick_spec hp).2 p (hmem p mp)
    have eq := (pick_spec hp).2 q (hmem q mq)
    rw [hx] at ep; rw [hy] at eq
    have e' : p.2.design = q.2.design := by
      rw [← Option.some.inj ep, ← Option.some.inj eq]; exact e
    rw [eq_of_design_eq (isDedup_iff.1 hd).1 (hmem p mp) (hmem q mq) e']

/-- Rank first: no survivor has a larger front number than a member whose design has no
surviving representative (copies of a design carry one front number – `RankConsistent`). -/
theorem truncate_rank_first (pop : List Ind) (k : Nat) (o r : List Nat)
    (h : truncate pop k o = some r) (hc : RankConsistent pop)
    (x y : Ind) (hx : Kept pop r x) (hy : DesignDiscarded pop r y) : x.front ≤ y.front := by
  obtain ⟨picked, s, hp, hd, _, hperm, hr, hcut⟩ := truncate_some h
  obtain ⟨i, hi, hxi⟩ := hx
  rw [hr, List.mem_map] at hi
  obtain ⟨p, mp, rfl⟩ := hi
  have hpk : p ∈ picked := hperm.subset ((List.take_sublist k s).subset mp)
  have ep := (pick_spec hp).2 p hpk
  rw [hxi] at ep
  have ex : p.2 = x := (Option.some.inj ep).symm
  -- the representative of `y`'s design in the de-duplicated list
  obtain ⟨q, hq, eq⟩ := (isDedup_iff.1 hd).2 y hy.1
  have hqs : q ∈ s := hperm.symm.subset hq
  rw [← List.take_append_drop k s, List.mem_append] at hqs
  rcases hqs with hqk | hqd
  · -- it would be kept
    exfalso
    refine hy.2 q.2 ⟨q.1, ?_, (pick_spec hp).2 q hq⟩ eq
    rw [hr]; exact List.mem_map.2 ⟨q, hqk, rfl⟩
  · have hle := (ndLe_iff p q).1 (hcut p mp q hqd)
    have hf : q.2.front = y.front := hc q.2 (picked_mem_pop hp hq) y hy.1 eq
    rw [ex] at hle
    omega

/-- Hence no survivor is dominated by a discarded design, for any relation `dom` that the
front numbers respect (`rank_lt_of_dom`: a dominator has a smaller front number; C02). -/
theorem truncate_no_survivor_dominated (pop : List Ind) (k : Nat) (o r : List Nat)
    (h : truncate pop k o = some r) (hc : RankConsistent pop)
    (dom : Ind → Ind → Prop) (hdom : ∀ a ∈ pop, ∀ b ∈ pop, dom a b → a.front < b.front)
    (x y : Ind) (hx : Kept pop r x) (hy : DesignDiscarded pop r y) : ¬ dom y x := by
  intro hd
  have hxp : x ∈ pop := by
    obtain ⟨i, _, e⟩ := hx
    exact List.mem_iff_getElem?.2 ⟨i, e⟩
  have := truncate_rank_first pop k o r h hc x y hx hy
  have := hdom y hy.1 x hxp hd
  omega

/-- Crowding second: when all designs are distinct, a discarded member never has a larger
crowding distance than a kept member of the same front (the front that is cut). -/
theorem truncate_crowding_second (pop : List Ind) (k : Nat) (o r : List Nat)
    (h : truncate pop k o = some r) (hdist : (pop.map (·.design)).Nodup)
    (i j : Nat) (x y : Ind) (hi : i ∈ r) (hj : j ∉ r) (hx : pop[i]? = some x) (hy : pop[j]? = some y)
    (hf : x.front = y.front) : y.crowd ≤ x.crowd := by
  obtain ⟨picked, s, hp, hd, _, hperm, hr, hcut⟩ := truncate_some h
  rw [hr, List.mem_map] at hi
  obtain ⟨p, mp, rfl⟩ := hi
  have hpk : p ∈ picked := hperm.subset ((List.take_sublist k s).subset mp)
  have ep := (pick_spec hp).2 p hpk
  rw [hx] at ep
  have ex : p.2 = x := (Option.some.inj ep).symm
  have hyp : y ∈ pop := List.mem_iff_getElem?.2 ⟨j, hy⟩
  obtain ⟨q, hq, eq⟩ := (isDedup_iff.1 hd).2 y hyp
  -- designs are distinct, so the representative is `y` itself at position `j`
  have hq2 := (pick_spec hp).2 q hq
  have hqj : q.1 = j := by
    obtain ⟨hlt, e1⟩ := List.getElem?_eq_some_iff.1 hq2
    obtain ⟨hlt', e2⟩ := List.getElem?_eq_some_iff.1 hy
    have hlm : q.1 < (pop.map (·.design)).length := by simpa using hlt
    have hlm' : j < (pop.map (·.design)).length := by simpa using hlt'
    have : (pop.map (·.design))[q.1] = (pop.map (·.design))[j] := by
      simp [e1, e2, eq]
    exact (List.Nodup.getElem_inj_iff hdist).1 this
  have hqy : q.2 = y := by
    rw [hqj, hy] at hq2; exact (Option.some.inj hq2).symm
  have hqs : q ∈ s := hperm.symm.subset hq
  rw [← List.take_append_drop k s, List.mem_append] at hqs
  rcases hqs with hqk | hqd
  · exfalso
    apply hj
    rw [hr, ← hqj]; exact List.mem_map.2 ⟨q, hqk, rfl⟩
  · have hle := (ndLe_iff p q).1 (hcut p mp q hqd)
    rw [ex, hqy] at hle
    omega

/-! Non-vacuity (truncation): five individuals, design 1 twice (front 2 both times), `k = 3`;
`[0, 2, 3, 4]` is a possible `list(set(pop))` (it keeps the second copy of design 1). -/
example : (∃ r, truncate [⟨0, 1, 5⟩, ⟨1, 2, 7⟩, ⟨2, 1, 3⟩, ⟨1, 2, 9⟩, ⟨3, 2, 9⟩] 3 [0, 2, 3, 4] = some r) ∧
    RankConsistent [⟨0, 1, 5⟩, ⟨1, 2, 7⟩, ⟨2, 1, 3⟩, ⟨1, 2, 9⟩, ⟨3, 2, 9⟩] :=
  ⟨by simp [truncate, pick, isDedup, nodupB], by decide⟩

example : ((List.map (·.design) [(⟨0, 1, 5⟩ : Ind), ⟨1, 2, 7⟩, ⟨2, 1, 3⟩]).Nodup) ∧
    ∃ r, truncate [⟨0, 1, 5⟩, ⟨1, 2, 7⟩, ⟨2, 1, 3⟩] 1 [2, 1, 0] = some r :=
  ⟨by decide, by simp [truncate, pick, isDedup, nodupB]⟩

/-! ## Binary tournament -/

/-- The winner is a member of the population. -/
theorem tournament_member (pop : List Cand) (i j : Nat) (coin : Bool) (w : Cand)
    (h : select pop i j coin = some w) : w ∈ pop := by
  unfold select at h
  split at h
  · simp at h; simp [h]
  · by_cases e : i = j
    · simp [e] at h
    · simp only [e, if_false] at h
      cases ha : pop[i]? with
      | none => simp [ha] at h
      | some a =>
        cases hb : pop[j]? with
        | none => simp [ha, hb] at h
        | some b =>
          simp only [ha, hb, Option.some.injEq] at h
          have ma : a ∈ pop := List.mem_iff_getElem?.2 ⟨i, ha⟩
          have mb : b ∈ pop := List.mem_iff_getElem?.2 ⟨j, hb⟩
          subst h
          rw [tournament_eq]
          split_ifs <;> assumption

/-- Of the two candidates the winner is one, and never the one with the worse front number. -/
theorem tournament_rank (a b : Cand) (coin : Bool) :
    (tournament a b coin = a ∨ tournament a b coin = b) ∧
    (tournament a b coin).front ≤ a.front ∧ (tournament a b coin).front ≤ b.front := by
  rw [tournament_eq]
  split_ifs with h1 h2 <;> refine ⟨by simp, ?_, ?_⟩ <;> omega

/-- At equal front number the dominated candidate never wins, whatever the coin: better
feasibility marker first, then textbook Pareto dominance (`C01.pareto_one_iff`). -/
theorem tournament_dom (a b : Cand) (coin : Bool) (hf : a.front = b.front)
    (hl : a.costs.length = b.costs.length) :
    ((a.marker.natAbs < b.marker.natAbs ∨
        (a.marker.natAbs = b.marker.natAbs ∧ Dominates a.costs b.costs)) →
      tournament a b coin = a) ∧
    ((b.marker.natAbs < a.marker.natAbs ∨
        (b.marker.natAbs = a.marker.natAbs ∧ Dominates b.costs a.costs)) →
      tournament a b coin = b) := by
  have h1 : ¬ a.front < b.front := by omega
  have h2 : ¬ b.front < a.front := by omega
  constructor
  · intro hd
    have := (C01.pareto_one_iff a.costs b.costs a.marker b.marker hl).2 hd
    simp [tournament_eq, h1, h2, this]
  · intro hd
    have h := (C01.pareto_one_iff b.costs a.costs b.marker a.marker hl.symm).2 hd
    have hs := C01.pareto_swap b.costs a.costs b.marker a.marker
    rw [h] at hs
    simp [tournament_eq, h1, h2, hs, C01.swapV]

/-- `select` draws two different positions of the population (or returns the only member). -/
theorem tournament_select (pop : List Cand) (i j : Nat) (coin : Bool) (w : Cand)
    (h : select pop i j coin = some w) (hn : pop.length ≠ 1) :
    ∃ a b, i ≠ j ∧ pop[i]? = some a ∧ pop[j]? = some b ∧ w = tournament a b coin := by
  unfold select at h
  split at h
  · simp at hn
  · by_cases e : i = j
    · simp [e] at h
    · simp only [e, if_false] at h
      cases ha : pop[i]? with
      | none => simp [ha] at h
      | some a =>
        cases hb : pop[j]? with
        | none => simp [ha, hb] at h
        | some b =>
          simp only [ha, hb, Option.some.injEq] at h
          exact ⟨a, b, e, rfl, rfl, h.symm⟩

/-! Non-vacuity (tournament): equal fronts, the first candidate dominates; different fronts. -/
example : Dominates [(0 : Int), 1] [1, 1] ∧
    tournament ⟨1, [0, 1], 1⟩ ⟨1, [1, 1], 1⟩ false = ⟨1, [0, 1], 1⟩ :=
  ⟨by simp [Dominates, LeqAll, SomeLt], by decide⟩

example : select [⟨2, [0], 1⟩, ⟨1, [5], 1⟩, ⟨3, [0], 1⟩] 0 1 true = some ⟨1, [5], 1⟩ := by decide

end Artap.C03
