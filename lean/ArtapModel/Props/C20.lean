import ArtapModel.Proofs.Equality
/-!
# C20 — Design-point equality means equal coordinates and agrees with hashing

Property theorems only.  Model: `Model/Equality.lean` (`indEq` = `Individual.__eq__`, `hashKey` =
what `__hash__` is a function of, and the consumers `memInd` = `x in list`, `dedup` = `set(list)`,
`removeFirst` = `list.remove`, `genStep`/`generate` = duplicate rejection of
`GeneticAlgorithm.generate`).  `Close v w` (`Proofs/Equality.lean`) is the specification: equal length
and every coordinate within `tol = 1e-10`; `eq_iff_all_coords` spells it out with indices.
`some true/false` = the Python boolean, `none` = `IndexError`.
-/
namespace Artap.C20
open Artap.Equality

/-- Two design points of equal length `n ≥ 1` compare equal exactly when all their coordinates
coincide to `1e-10`, and the comparison never raises. -/
theorem eq_iff_all_coords (v w : Vec) (hl : v.length = w.length) (hn : 1 ≤ v.length) :
    (indEq v w = some true ↔
      ∀ i (h1 : i < v.length) (h2 : i < w.length), |v[i] - w[i]| < tol) ∧
    (indEq v w = some true ∨ indEq v w = some false) := by
  have hne : v ≠ [] := ne_nil_of_length hn rfl
  have h := indEq_spec v w hl hne
  refine ⟨?_, h.total⟩
  rw [h.1, close_iff_index]
  simp [hl]

/-- Points that differ (beyond the tolerance) in any coordinate are unequal, whichever coordinate it is. -/
theorem neq_of_any_coord (v w : Vec) (hl : v.length = w.length) (i : Nat) (h1 : i < v.length)
    (h2 : i < w.length) (hd : ¬ |v[i] - w[i]| < tol) : indEq v w = some false := by
  have hne : v ≠ [] := by intro e; subst e; simp at h1
  refine (indEq_spec v w hl hne).neg ?_
  rw [close_iff_index]
  exact fun h => hd (h.2 i h1 h2)

/-- Equality is symmetric. -/
theorem eq_symm (v w : Vec) (hl : v.length = w.length) : indEq v w = indEq w v := by
  by_cases hne : v = []
  · subst hne
    have : w = [] := by simpa using hl.symm
    subst this; rfl
  · have hne' : w ≠ [] := by intro e; subst e; simp at hl; exact hne hl
    have a := indEq_spec v w hl hne
    have b := indEq_spec w v hl.symm hne'
    by_cases p : Close v w
    · rw [a.pos p, b.pos (close_symm p)]
    · rw [a.neg p, b.neg (fun h => p (close_symm h))]

/-- Points with identical vectors have identical hashes and compare equal (so hashing and equality agree
on repeated designs; `n ≥ 1`). -/
theorem identical_same_hash (v w : Vec) (h : v = w) (hn : 1 ≤ v.length) :
    hashKey v = hashKey w ∧ indEq v w = some true := by
  subst h
  exact ⟨rfl, (indEq_spec v v rfl (ne_nil_of_length hn rfl)).pos (close_refl v)⟩

/-- Different hash keys can only come from vectors that differ in some coordinate. -/
theorem hash_differs_only_if_coord_differs (v w : Vec) (hl : v.length = w.length)
    (h : hashKey v ≠ hashKey w) : ∃ i, ∃ (h1 : i < v.length) (h2 : i < w.length), v[i] ≠ w[i] := by
  by_contra hc
  apply h
  unfold hashKey
  apply List.ext_getElem hl
  intro i h1 h2
  by_contra hne
  exact hc ⟨i, h1, h2, hne⟩

/-- Membership test `x in l`: true exactly when some element equals `x` in every coordinate. -/
theorem mem_iff_equal_member (n : Nat) (hn : 1 ≤ n) (l : List Vec) (x : Vec)
    (hl : ∀ v ∈ l, v.length = n) (hx : x.length = n) :
    (memInd l x = some true ↔ ∃ e ∈ l, Close e x) ∧
    (memInd l x = some false ↔ ∀ e ∈ l, ¬ Close e x) := by
  have h := memInd_spec hn l x hl hx
  refine ⟨h.1, ?_⟩
  rw [h.2]
  simp

/-- `list.remove(x)` removes exactly one element, the first one equal to `x`; when no element equals
`x` nothing is removed (`ValueError`).  A distinct design is never removed. -/
theorem remove_hits_equal (n : Nat) (hn : 1 ≤ n) (l : List Vec) (x : Vec)
    (hl : ∀ v ∈ l, v.length = n) (hx : x.length = n) :
    (removeFirst x l = .valueError ∧ ∀ e ∈ l, ¬ Close e x) ∨
    (∃ l1 e l2, l = l1 ++ e :: l2 ∧ removeFirst x l = .removed (l1 ++ l2) ∧ Close e x ∧
      ∀ o ∈ l1, ¬ Close o x) :=
  removeFirst_spec hn l x hl hx

/-- `set(l)`: the representatives are pairwise different vectors, every vector of `l` is still present
(no distinct design is discarded), nothing else is, and they are a sublist of `l` (first occurrences). -/
theorem dedup_keeps_distinct (l : List Vec) (hl : ∀ v ∈ l, 1 ≤ v.length) :
    (dedup l).Nodup ∧ (∀ x, x ∈ dedup l ↔ x ∈ l) ∧ (dedup l).Sublist l := by
  have h := foldl_setInsert l [] (fun v hv => ne_nil_of_length (hl v hv) rfl) List.nodup_nil
  obtain ⟨h1, h2, t, h3, h4⟩ := h
  unfold dedup
  refine ⟨h1, ?_, ?_⟩
  · intro x; simpa using h2 x
  · rw [h3]; simpa using h4

/-- One pass of the body of `generate` (population size `N ≥ 2`, room left, no two accepted offspring
equal): the list only grows by children of this pass, stays free of equal pairs and within `N`;
child 1 is rejected only if it equals an accepted offspring; child 2 is rejected only if it equals an
accepted offspring (child 1 included) or the population is full. -/
theorem generate_rejects_only_equal (n : Nat) (hn : 1 ≤ n) (N : Nat) (hN : 2 ≤ N) (offs : List Vec)
    (c1 c2 : Vec) (hlen : offs.length < N) (hu : ∀ v ∈ offs, v.length = n) (h1 : c1.length = n)
    (h2 : c2.length = n) (hd : Distinct offs) :
    ∃ add, genStep N offs c1 c2 = some (offs ++ add) ∧ add.Sublist [c1, c2] ∧
      Distinct (offs ++ add) ∧ (offs ++ add).length ≤ N ∧
      (∃ o ∈ offs ++ add, Close c1 o) ∧
      ((∃ o ∈ offs ++ add, Close c2 o) ∨ (offs ++ add).length = N) ∧
      ((∀ o ∈ offs, ¬ Close c1 o) → c1 ∈ offs ++ add) ∧
      ((∀ o ∈ offs, ¬ Close c2 o) → ¬ Close c2 c1 → c2 ∈ offs ++ add ∨ (offs ++ add).length = N) :=
  genStep_spec hn hN offs c1 c2 hlen hu h1 h2 hd

/-- The whole loop of `generate` on any stream of child pairs: it never raises, the offspring are
produced children, no two of them are equal designs, there are at most `N`, the loop stops only when
the population is full (or the stream ends), and every consumed child is represented by an equal
offspring unless the population was already full (second children only). -/
theorem generate_offspring_distinct (n : Nat) (hn : 1 ≤ n) (N : Nat) (hN : 2 ≤ N)
    (ps : List (Vec × Vec)) (hp : ∀ p ∈ ps, p.1.length = n ∧ p.2.length = n) :
    ∃ out k, generate N ps [] 0 = some (out, k) ∧ k ≤ ps.length ∧ Distinct out ∧ out.length ≤ N ∧
      (k = ps.length ∨ out.length = N) ∧
      (∀ p ∈ ps.take k, (∃ o ∈ out, Close p.1 o) ∧ ((∃ o ∈ out, Close p.2 o) ∨ out.length = N)) ∧
      (∀ o ∈ out, ∃ p ∈ ps.take k, o = p.1 ∨ o = p.2) := by
  obtain ⟨add, k, h⟩ := generate_spec hn hN ps [] 0 (by intro v hv; simp at hv) hp
    (by simp [Distinct]) (by simp)
  exact ⟨add, k, by simpa using h⟩

/-! ## Non-vacuity: concrete instances -/

-- the historical defect: differs in the first two coordinates only
example : indEq [1, 2, 3] [9, 5/2, 3] = some false := by decide +kernel
-- within the tolerance in every coordinate, not identical
example : indEq [1, 2] [1 + 1/100000000000, 2] = some true := by decide +kernel
example : indEq [1, 2] [1 + 1/1000000000, 2] = some false := by decide +kernel
-- hypotheses of the consumer theorems are satisfiable: a list with a repeat and a near repeat
example : dedup [[1, 2], [3, 4], [1, 2], [1 + 1/100000000000, 2]] = [[1, 2], [3, 4], [1 + 1/100000000000, 2]] := by
  decide +kernel
example : removeFirst [3, 4] [[1, 2], [3, 4], [3, 4]] = .removed [[1, 2], [3, 4]] := by decide +kernel
example : removeFirst [3, 5] [[1, 2], [3, 4]] = .valueError := by decide +kernel
example : memInd [[1, 2], [3, 4]] [3, 4] = some true := by decide +kernel
-- generate with N = 3: the repeat of the first child and the repeat of [5] are rejected, [7] is accepted
example : generate 3 [([1], [5]), ([1], [5]), ([7], [8])] [] 0 = some ([[1], [5], [7]], 3) := by decide +kernel
example : Distinct [[1], [5]] := by
  simp only [Distinct, List.pairwise_cons, List.mem_cons, List.not_mem_nil, or_false, forall_eq,
    IsEmpty.forall_iff, implies_true, List.Pairwise.nil, and_true]
  intro h
  have := (close_iff_index _ _).1 h
  have := this.2 0 (by simp) (by simp)
  simp [tol] at this
  norm_num [abs_lt] at this

end Artap.C20
