import ArtapModel.Proofs.Crash
import ArtapModel.Proofs.CrashParallel
import Mathlib.Data.List.Induction
/-!
# C11 — A crash at any moment leaves the SQLite store readable and consistent

Theorems about `crashAt k tr` (Model/Crash.lean) for **every** trace `tr` of successful upsert /
commit events on any number of connections (serial or interleaved writers) and **every** crash
point `k`.  PARTIAL by nature: SQLite's atomic commit (a committed transaction is entirely
there, an uncommitted one entirely absent after process death) is the model's assumption; the
harness (harness/c11.py) kills the real writer at every event and compares what a reader finds
with `crashAt`.
-/
namespace Artap.C11
open Artap.Crash

variable {B : Type}

/-- Invariant linking the database to the trace that produced it. -/
def Inv (tr : List (Ev B)) (db : DB B) : Prop :=
  (ids db.durable).Nodup ∧
  (∀ r ∈ db.durable, ∃ c, Ev.upsert c r.1 r.2 ∈ tr ∧ Ev.commit c ∈ tr) ∧
  (∀ p ∈ db.pending, Ev.upsert p.1 p.2.1 p.2.2 ∈ tr)

theorem inv_state (tr : List (Ev B)) : Inv tr (state tr) := by
  induction tr using List.reverseRecOn with
  | nil => exact ⟨by simp [state, empty, ids], by simp [state, empty], by simp [state, empty]⟩
  | append_singleton tr e ih =>
    rw [state_append]
    obtain ⟨h1, h2, h3⟩ := ih
    cases e with
    | other =>
      refine ⟨h1, ?_, ?_⟩
      · intro r hr
        obtain ⟨c, a, b⟩ := h2 r hr
        exact ⟨c, List.mem_append_left _ a, List.mem_append_left _ b⟩
      · intro p hp
        exact List.mem_append_left _ (h3 p hp)
    | upsert c id b =>
      refine ⟨h1, ?_, ?_⟩
      · intro r hr
        obtain ⟨c', a, b'⟩ := h2 r hr
        exact ⟨c', List.mem_append_left _ a, List.mem_append_left _ b'⟩
      · intro p hp
        simp only [apply, List.mem_append, List.mem_singleton] at hp
        rcases hp with hp | hp
        · exact List.mem_append_left _ (h3 p hp)
        · subst hp; simp
    | commit c =>
      refine ⟨nodup_applyAll h1 _, ?_, ?_⟩
      · intro r hr
        simp only [apply] at hr
        rcases mem_applyAll hr with hr | ⟨p, hp, e⟩
        · obtain ⟨c', a, b'⟩ := h2 r hr
          exact ⟨c', List.mem_append_left _ a, List.mem_append_left _ b'⟩
        · rw [List.mem_filter] at hp
          have hc : p.1 = c := by simpa using hp.2
          refine ⟨c, ?_, by simp⟩
          have := h3 p hp.1
          rw [e]; simp only
          rw [← hc]
          exact List.mem_append_left _ this
      · intro p hp
        simp only [apply, List.mem_filter] at hp
        exact List.mem_append_left _ (h3 p hp.1)

/-- **One row per id** at every crash point. -/
theorem crash_unique_ids (k : Nat) (tr : List (Ev B)) : (ids (crashAt k tr)).Nodup :=
  (inv_state (tr.take k)).1

/-- **No partially written or uncommitted individual**: every row a reader finds is the blob of
an upsert that was executed *and committed* before the crash. -/
theorem crash_rows_complete (k : Nat) (tr : List (Ev B)) (id : Nat) (b : B)
    (h : (id, b) ∈ crashAt k tr) :
    ∃ c, Ev.upsert c id b ∈ tr.take k ∧ Ev.commit c ∈ tr.take k :=
  (inv_state (tr.take k)).2.1 (id, b) h

/-- Consequently any predicate that holds of every blob the writer hands to the store (e.g.
"costs are the objective's value at the stored vector", which `C07.job_alone` shows for
`Job.evaluate`) holds of every row found after a crash. -/
theorem crash_rows_good (Good : Nat → B → Prop) (tr : List (Ev B))
    (hw : ∀ c id b, Ev.upsert c id b ∈ tr → Good id b) (k : Nat) (id : Nat) (b : B)
    (h : (id, b) ∈ crashAt k tr) : Good id b := by
  obtain ⟨c, hu, _⟩ := crash_rows_complete k tr id b h
  exact hw c id b (List.mem_of_mem_take hu)

/-- Durable ids never disappear when the trace goes on. -/
theorem durable_ids_step (tr : List (Ev B)) (e : Ev B) (j : Nat)
    (h : j ∈ ids (state tr).durable) : j ∈ ids (state (tr ++ [e])).durable := by
  rw [state_append]
  cases e with
  | other => exact h
  | upsert c id b => exact h
  | commit c => exact mem_ids_applyAll_of_mem h _

theorem durable_ids_append (tr ext : List (Ev B)) (j : Nat)
    (h : j ∈ ids (state tr).durable) : j ∈ ids (state (tr ++ ext)).durable := by
  induction ext using List.reverseRecOn with
  | nil => simpa using h
  | append_singleton ext e ih =>
    rw [← List.append_assoc]
    exact durable_ids_step _ e j ih

theorem durable_ids_monotone (tr : List (Ev B)) (k k' : Nat) (hk : k ≤ k') (j : Nat)
    (h : j ∈ ids (crashAt k tr)) : j ∈ ids (crashAt k' tr) := by
  unfold crashAt at *
  have : tr.take k' = tr.take k ++ (tr.take k').drop k := by
    have h1 : tr.take k = (tr.take k').take k := by rw [List.take_take, Nat.min_eq_left hk]
    rw [h1]; exact (List.take_append_drop k (tr.take k')).symm
  rw [this]
  exact durable_ids_append _ _ j h

/-- An executed statement stays pending on its connection until that connection commits, or
its id is already durable. -/
theorem pending_or_durable (tr ext : List (Ev B)) (c id : Nat) (b : B)
    (hno : Ev.commit c ∉ ext) :
    (c, id, b) ∈ (state (tr ++ [Ev.upsert c id b] ++ ext)).pending := by
  induction ext using List.reverseRecOn with
  | nil =>
    rw [List.append_nil, state_append]; simp [apply]
  | append_singleton ext e ih =>
    have hno' : Ev.commit c ∉ ext := fun h => hno (List.mem_append_left _ h)
    have := ih hno'
    rw [← List.append_assoc, state_append]
    cases e with
    | other => exact this
    | upsert c' id' b' => simp only [apply]; exact List.mem_append_left _ this
    | commit c' =>
      simp only [apply, List.mem_filter]
      refine ⟨this, ?_⟩
      have : c' ≠ c := by
        intro e; subst e; exact hno (by simp)
      simp [Ne.symm this]

/-- **A synchronisation that returned is durable**: if connection `c` executed the upsert of
`id` and later committed, then from the commit on every crash point finds a row for `id`. -/
theorem sync_returned_present (pre mid post : List (Ev B)) (c id : Nat) (b : B)
    (hmid : Ev.commit c ∉ mid) (k : Nat)
    (hk : (pre ++ [Ev.upsert c id b] ++ mid ++ [Ev.commit c]).length ≤ k) :
    id ∈ ids (crashAt k (pre ++ [Ev.upsert c id b] ++ mid ++ [Ev.commit c] ++ post)) := by
  let done := pre ++ [Ev.upsert c id b] ++ mid ++ [Ev.commit c]
  have h0 : id ∈ ids (state done).durable := by
    show id ∈ ids (state (pre ++ [Ev.upsert c id b] ++ mid ++ [Ev.commit c])).durable
    rw [state_append]
    simp only [apply]
    have hp := pending_or_durable pre mid c id b hmid
    have : (c, id, b) ∈ (state (pre ++ [Ev.upsert c id b] ++ mid)).pending.filter (fun p => p.1 == c) := by
      rw [List.mem_filter]; exact ⟨hp, by simp⟩
    exact mem_ids_applyAll_of_pending _ _ this
  have h1 : id ∈ ids (crashAt done.length (done ++ post)) := by
    unfold crashAt; rw [List.take_left']; exact h0; rfl
  exact durable_ids_monotone (done ++ post) done.length k hk id h1

/-- **Last synchronisation wins**: when the committing connection executed a single upsert
(`sync_individual`), the row found right after the commit is exactly that blob. -/
theorem sync_last_wins (tr : List (Ev B)) (c id : Nat) (b : B)
    (hfresh : ∀ p ∈ (state tr).pending, p.1 ≠ c) :
    (id, b) ∈ (state (tr ++ [Ev.upsert c id b, Ev.commit c])).durable := by
  have : tr ++ [Ev.upsert c id b, Ev.commit c] = (tr ++ [Ev.upsert c id b]) ++ [Ev.commit c] := by simp
  rw [this, state_append, state_append]
  simp only [apply]
  have hf : ((state tr).pending ++ [(c, id, b)]).filter (fun p => p.1 == c) = [(c, id, b)] := by
    rw [List.filter_append]
    have : (state tr).pending.filter (fun p => p.1 == c) = [] := by
      rw [List.filter_eq_nil_iff]
      intro p hp; simpa using hfresh p hp
    simp [this]
  rw [hf]
  exact applyAll_single _ c id b

/-- **Parallel evaluation and a crash at any moment** (composition with C07): take any batch, any problem and
any schedule of the worker threads (`Conc.run`), let every step that writes a row do so on a connection of its
own followed by its commit, and let the process die after any number `k` of the resulting store events.  Every
row a reader then finds belongs to a design of the batch and is that design's complete *final* row – vector,
`costs = objective(vector)`, signed costs, marker, state EVALUATED – never an intermediate one. -/
theorem parallel_crash_rows_final (P : Conc.Prob) (ds : List Conc.Design) (σ : List Nat) (k id : Nat) (b : Conc.Row)
    (h : (id, b) ∈ crashAt k (CrashPar.traceOf P σ (Conc.init ds) 0)) :
    ∃ (hid : id < ds.length), some b = C07.finalRow P ds[id] ∧
      b.costs = P.obj b.vec ∧ b.state = Conc.St.evaluated := by
  obtain ⟨c, hu, _⟩ := crash_rows_complete k _ id b h
  obtain ⟨hid, hb⟩ := CrashPar.upsert_in_trace P ds σ (Conc.init ds) 0 (CrashPar.reach_init P ds) c id b
    (List.mem_of_mem_take hu)
  refine ⟨hid, hb, ?_⟩
  unfold C07.finalRow at hb
  split at hb
  · cases hb
  · rename_i hne
    simp only [Option.some.injEq] at hb
    subst hb
    simp [C07.finalDesign, hne]

/-! ## Non-vacuity -/

-- the interleaved schedule of C07's example: after all events both rows are there, after 11 events only one
example : ((crashAt 100 (CrashPar.traceOf C07.exP C07.exSched (Conc.init C07.exBatch) 0)).map (·.1)) = [0, 1] := by
  decide +kernel
example : ((crashAt 11 (CrashPar.traceOf C07.exP C07.exSched (Conc.init C07.exBatch) 0)).map (·.1)) = [0] := by
  decide +kernel


def exTrace : List (Ev Nat) :=
  [.other, .upsert 1 7 100, .commit 1, .other, .upsert 2 8 200, .upsert 3 7 300, .commit 3, .commit 2]

example : crashAt 2 exTrace = [] := by decide
example : crashAt 3 exTrace = [(7, 100)] := by decide
example : crashAt 6 exTrace = [(7, 100)] := by decide          -- both later upserts still uncommitted
example : crashAt 7 exTrace = [(7, 300)] := by decide          -- replaced, not duplicated
example : crashAt 8 exTrace = [(7, 300), (8, 200)] := by decide

end Artap.C11
