import ArtapModel.Proofs.Eval
/-!
# C06 — transient evaluation failures are retried, logged and never recorded as results

Property theorems only.  Model: `Model/Eval.lean` (`attempts` = the `for i in range(5)` loop of
`Job.evaluate`); helper lemmas and the chain definitions (`failN`, `chainVecs`,
`TransientRun`) are in `Proofs/Eval.lean`.

The objective is an arbitrary oracle `env.obj key n v` (outcome of the `n`-th call on design
object `key`, asked for `v`): `ok costs`, `transient` (TimeoutError / RuntimeError) or
`fatal tag` (any other exception class).  `env.reroll key n` is the freshly sampled vector
that replaces the design after that call failed; all theorems hold for every such sampler.
`failN env j d w` is the design and the world after `j` transient failures in a row,
`chainVecs env d j` the `j` vectors that failed, `TransientRun env j d` says the first `j`
calls along that chain raise a transient error.
-/
namespace Artap.C06
open Artap Artap.Eval

/-- At most five objective calls per `Job.evaluate`, all of them on this design object; the
log only grows. -/
theorem retry_bound (env : Env) (d : Design) (w : World) :
    ∃ new : List (Nat × Vec),
      (jobEvaluate env d w).2.2.log = w.log ++ new ∧ new.length ≤ 5 ∧ ∀ e ∈ new, e.1 = d.key := by
  unfold jobEvaluate
  by_cases hs : d.state = .evaluated
  · exact ⟨[], by simp [hs]⟩
  · simp only [hs, if_false]
    obtain ⟨fs, hlen, hf, _, _, hl, ht⟩ := attempts_shape env 5 d w
    have hb := jobEvaluate_log_bound env d w
    simp only [jobEvaluate, hs, if_false] at hb
    refine ⟨fs.map (fun v => (d.key, v)) ++
      (if (attempts env 5 d w).1 = some .tooMany then [] else [(d.key, (attempts env 5 d w).2.1.vec)]),
      by rw [hl, List.append_assoc], ?_, ?_⟩
    · have := hb.1
      rw [hl] at this
      simp only [List.length_append] at this ⊢
      omega
    · intro e he
      rw [List.mem_append] at he
      rcases he with he | he
      · rw [List.mem_map] at he
        obtain ⟨v, _, rfl⟩ := he; rfl
      · by_cases htm : (attempts env 5 d w).1 = some .tooMany
        · simp [htm] at he
        · simp only [htm, if_false, List.mem_singleton] at he
          rw [he]

/-- `Problem.failed` grows by exactly the vectors whose call raised a transient error, in
call order; the call log is these vectors followed – unless all five attempts failed – by one
last call on the vector the design finally holds.  Every listed vector really was the
argument of a failing call. -/
theorem failed_accounting (env : Env) (d : Design) (w : World) (hs : d.state ≠ .evaluated) :
    ∃ fs : List Vec,
      (jobEvaluate env d w).2.2.failed = w.failed ++ fs ∧ fs.length ≤ 5 ∧
      (jobEvaluate env d w).2.2.log = w.log ++ fs.map (fun v => (d.key, v)) ++
        (if (jobEvaluate env d w).1 = some .tooMany then []
         else [(d.key, (jobEvaluate env d w).2.1.vec)]) ∧
      ((jobEvaluate env d w).1 = some .tooMany ↔ fs.length = 5) ∧
      ∀ j (hj : j < fs.length), ∃ t, env.obj d.key (d.ncalls + j) fs[j] = .transient t := by
  simp only [jobEvaluate, hs, if_false]
  obtain ⟨fs, hlen, hf, _, _, hl, ht⟩ := attempts_shape env 5 d w
  refine ⟨fs, hf, hlen, hl, ⟨ht, fun h5 => attempts_all_failed env 5 d w fs h5 hf⟩, ?_⟩
  exact attempts_failed_were_transient env 5 d w fs hf

/-- When `Job.evaluate` returns normally the design is EVALUATED and its stored costs are the
outcome of the last objective call, which was made on the stored vector; signed costs are
computed from these costs. -/
theorem final_pairing (env : Env) (d : Design) (w : World) (hs : d.state ≠ .evaluated)
    (hr : (jobEvaluate env d w).1 = none) :
    let r := (jobEvaluate env d w).2.1
    r.state = .evaluated ∧ r.key = d.key ∧ 0 < r.ncalls ∧
    env.obj d.key (r.ncalls - 1) r.vec = .ok r.costs ∧
    r.signed = signedCosts env d.prec r.costs ∧
    (jobEvaluate env d w).2.2.log.getLast? = some (d.key, r.vec) := by
  simp only [jobEvaluate, hs, if_false] at hr ⊢
  have h := attempts_success env 5 d w hr
  obtain ⟨fs, _, _, hk, _, hl, _⟩ := attempts_shape env 5 d w
  refine ⟨h.1, hk, h.2.1, h.2.2.1, h.2.2.2, ?_⟩
  rw [hl]
  simp [hr]

/-- Five transient failures in a row: a RuntimeError propagates, the design is not EVALUATED
(it is EMPTY and holds the fifth re-rolled vector, never evaluated), its costs are untouched,
exactly the five failed vectors were called and logged. -/
theorem five_failures_raise (env : Env) (d : Design) (w : World) (hs : d.state ≠ .evaluated)
    (h : TransientRun env 5 d) :
    jobEvaluate env d w = (some .tooMany, (failN env 5 d w).1, (failN env 5 d w).2) ∧
    (failN env 5 d w).1.state = .empty ∧ (failN env 5 d w).1.costs = d.costs ∧
    (failN env 5 d w).1.signed = d.signed ∧ (failN env 5 d w).1.marker = d.marker ∧
    (failN env 5 d w).2.failed = w.failed ++ chainVecs env d 5 ∧
    (failN env 5 d w).2.log = w.log ++ (chainVecs env d 5).map (fun v => (d.key, v)) ∧
    (chainVecs env d 5).length = 5 := by
  have hf := failN_fields env 4 d w
  have hw := failN_world env 5 d w
  refine ⟨?_, hf.1, hf.2.1, hf.2.2.1, hf.2.2.2, hw.1, hw.2, chainVecs_length env 5 d⟩
  simp only [jobEvaluate, hs, if_false]
  have := attempts_transient_run env 5 0 d w h
  simp only [Nat.zero_add] at this
  rw [this]; rfl

example : ∃ (env : Env) (d : Design), d.state ≠ .evaluated ∧ TransientRun env 5 d :=
  ⟨{ obj := fun _ n _ => if n < 5 then .transient (n % 2) else .ok [1], reroll := fun _ n => [(n : Rat)],
     cons := fun _ => [], signs := [1], rnd := fun _ y => y }, fresh 0 7 [1],
   by simp [fresh], by simp [TransientRun, failDesign, fresh]⟩

/-- `j ≤ 4` transient failures and then a successful call: no exception, the design holds the
`j`-th re-rolled vector together with the costs returned *for that vector*, exactly the `j`
failed vectors are on the failed list. -/
theorem retries_then_success (env : Env) (j : Nat) (hj : j ≤ 4) (d : Design) (w : World) (c : List Rat)
    (hs : d.state ≠ .evaluated) (h : TransientRun env j d)
    (hok : env.obj d.key (d.ncalls + j) (failN env j d w).1.vec = .ok c) :
    let r := (jobEvaluate env d w).2.1
    (jobEvaluate env d w).1 = none ∧ r.state = .evaluated ∧
    r.vec = (failN env j d w).1.vec ∧ r.costs = c ∧ r.signed = signedCosts env d.prec c ∧
    (jobEvaluate env d w).2.2.failed = w.failed ++ chainVecs env d j ∧
    (jobEvaluate env d w).2.2.log =
      w.log ++ (chainVecs env d (j + 1)).map (fun v => (d.key, v)) := by
  simp only [jobEvaluate, hs, if_false]
  have h5 : 5 = (4 - j) + 1 + j := by omega
  rw [h5, attempts_run_then_ok env j (4 - j) d w c h hok]
  obtain ⟨_, hk, hp⟩ := failN_ncalls env j d w
  have hw := failN_world env j d w
  refine ⟨rfl, rfl, rfl, rfl, by simp [succeed, hp], by simp [logCall, hw.1], ?_⟩
  simp [logCall, hw.2, hk, chainVecs_succ env j d w, List.append_assoc]

/-- Exactly four failures, then success (the boundary case of the statement). -/
theorem four_then_success (env : Env) (d : Design) (w : World) (c : List Rat)
    (hs : d.state ≠ .evaluated) (h : TransientRun env 4 d)
    (hok : env.obj d.key (d.ncalls + 4) (failN env 4 d w).1.vec = .ok c) :
    (jobEvaluate env d w).1 = none ∧ (jobEvaluate env d w).2.1.state = .evaluated ∧
    (jobEvaluate env d w).2.1.costs = c ∧
    (jobEvaluate env d w).2.1.vec = (failN env 4 d w).1.vec ∧
    (jobEvaluate env d w).2.2.failed = w.failed ++ chainVecs env d 4 := by
  have := retries_then_success env 4 (by omega) d w c hs h hok
  exact ⟨this.1, this.2.1, this.2.2.2.1, this.2.2.1, this.2.2.2.2.2.1⟩

example : ∃ (env : Env) (d : Design), d.state ≠ .evaluated ∧ TransientRun env 4 d ∧
    env.obj d.key (d.ncalls + 4) (failN env 4 d { log := [], failed := [] }).1.vec = .ok [1] :=
  ⟨{ obj := fun _ n _ => if n < 4 then .transient (n % 2) else .ok [1], reroll := fun _ n => [(n : Rat)],
     cons := fun _ => [], signs := [1], rnd := fun _ y => y }, fresh 0 7 [1],
   by simp [fresh], by simp [TransientRun, failDesign, fresh], by simp [fresh]⟩

/-- Any other exception (after `j ≤ 4` transient failures, in particular at once for `j = 0`)
propagates immediately with its class: the design stays IN_PROGRESS – not EVALUATED –, its
costs are untouched, the failing call is the last entry of the log and nothing is added to the
failed list for it. -/
theorem fatal_propagates (env : Env) (j : Nat) (hj : j ≤ 4) (d : Design) (w : World) (t : Nat)
    (hs : d.state ≠ .evaluated) (h : TransientRun env j d)
    (hf : env.obj d.key (d.ncalls + j) (failN env j d w).1.vec = .fatal t) :
    let r := (jobEvaluate env d w).2.1
    (jobEvaluate env d w).1 = some (.fatal t) ∧ r.state = .inProgress ∧
    r.costs = d.costs ∧ r.signed = d.signed ∧ r.marker = d.marker ∧
    (jobEvaluate env d w).2.2.failed = w.failed ++ chainVecs env d j ∧
    (jobEvaluate env d w).2.2.log =
      w.log ++ (chainVecs env d (j + 1)).map (fun v => (d.key, v)) := by
  simp only [jobEvaluate, hs, if_false]
  have h5 : 5 = (4 - j) + 1 + j := by omega
  rw [h5, attempts_run_then_fatal env j (4 - j) d w t h hf]
  obtain ⟨_, hk, hp⟩ := failN_ncalls env j d w
  have hw := failN_world env j d w
  have hfields : (failN env j d w).1.costs = d.costs ∧ (failN env j d w).1.signed = d.signed ∧
      (failN env j d w).1.marker = d.marker := by
    cases j with
    | zero => simp [failN]
    | succ j => exact (failN_fields env j d w).2
  refine ⟨rfl, rfl, by simp [abortDesign, hfields.1], by simp [abortDesign, hfields.2.1],
    by simp [abortDesign, hfields.2.2], by simp [logCall, hw.1], ?_⟩
  simp [logCall, hw.2, hk, chainVecs_succ env j d w, List.append_assoc]

/-- The design is only ever replaced by vectors the sampler produced: if every sampled vector
satisfies `P` (e.g. lies inside the bounds – C08 for `gen_vector`), the stored vector is the
original one or satisfies `P`. -/
theorem replaced_by_sampled (env : Env) (P : Vec → Prop) (hP : ∀ key n, P (env.reroll key n))
    (d : Design) (w : World) :
    (jobEvaluate env d w).2.1.vec = d.vec ∨ P (jobEvaluate env d w).2.1.vec := by
  unfold jobEvaluate
  by_cases hs : d.state = .evaluated
  · simp [hs]
  · simp only [hs, if_false]
    rcases attempts_vec_origin env 5 d w with h | ⟨n, h⟩
    · exact Or.inl h
    · right; rw [h]; exact hP _ _

/-- Batches: a batch makes at most five calls and logs at most five failures per EMPTY design. -/
theorem batch_faults_bound (env : Env) (ds : List Design) (w : World) :
    (evalSerial env ds w).2.2.log.length ≤ w.log.length + 5 * countEmpty ds ∧
    (evalSerial env ds w).2.2.failed.length ≤ w.failed.length + 5 * countEmpty ds :=
  ⟨(evalSerial_bound env ds w).1, (evalSerial_bound env ds w).2.1⟩

/-- Batches: if no exception escapes, every EMPTY design of the batch ends EVALUATED with costs
that are the outcome of its own last call on its stored vector, and the other designs are
untouched – whatever failed in between. -/
theorem batch_faults (env : Env) (ds : List Design) (w : World)
    (h : (evalSerial env ds w).1 = none) :
    AllPairs (fun d r =>
      (d.state ≠ .empty → r = d) ∧
      (d.state = .empty → r.state = .evaluated ∧ r.key = d.key ∧ 0 < r.ncalls ∧
        env.obj d.key (r.ncalls - 1) r.vec = .ok r.costs ∧ r.signed = signedCosts env d.prec r.costs))
      ds (evalSerial env ds w).2.1 :=
  evalSerial_no_error env ds w h

/-- Batches: an exception (five failures, or another class) stops the serial loop at the
design that raised it: the designs behind it are untouched, and the exception is the one
`Job.evaluate` raised for that design. -/
theorem batch_faults_abort (env : Env) (ds : List Design) (w : World) (e : Err)
    (h : (evalSerial env ds w).1 = some e) :
    ∃ (pre pre' post : List Design) (d : Design) (w₀ : World),
      ds = pre ++ d :: post ∧ pre'.length = pre.length ∧ d.state = .empty ∧
      (jobEvaluate env d w₀).1 = some e ∧
      (evalSerial env ds w).2.1 = pre' ++ (jobEvaluate env d w₀).2.1 :: post ∧
      (evalSerial env ds w).2.2 = (jobEvaluate env d w₀).2.2 :=
  evalSerial_abort env ds w e h

end Artap.C06
