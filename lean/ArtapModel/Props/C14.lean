import ArtapModel.Proofs.Robust
import Mathlib.Tactic.Linarith
/-!
# C14 — Robust (worst-case) and gradient evaluators compute what they promise, stably

Property theorems only.  Model: `Model/Robust.lean` (`wcEvaluate P true` is
`WorstCaseEvaluator.evaluate` as the code is now, `wcEvaluate P false` the behaviour before
commit cfc0e1c; `gradEvaluate` is `GradientEvaluator.evaluate`); helper lemmas:
`Proofs/Robust.lean`.

Everything is quantified over the problem `P` (objective `P.f`, signs, feasibility marker,
tolerances), the dimension, and the sequence of batches.  Hypotheses that recur:

* `hlen : ∀ y, (P.f y).length = P.signs.length` — the objective returns one value per user
  objective, `hf0 : ∀ y, (P.f y)[0]? = some (f0 y)` names the first of them;
* `e.n = P.signs.length + 1`, empty work lists — what `Ev.init` sets up (and what every
  batch re-establishes, see `wc_worklists_reset`);
* a batch consists of pairwise different, not yet evaluated designs (what every population
  algorithm submits); the batches of a run are pairwise disjoint.
-/
namespace Artap.C14
open Artap.Robust

/-- The model's `abs` is the absolute value. -/
theorem absR_eq_abs (q : Rat) : absR q = |q| := by
  unfold absR
  split
  · rename_i h; rw [abs_of_neg h]
  · rename_i h; rw [abs_of_nonneg (not_lt.mp h)]

/-- `shift x k d` is `x + d·e_k`. -/
theorem shift_coord (x : List Rat) (k : Nat) (d : Rat) (j : Nat) :
    (shift x k d)[j]? = (x[j]?).map (fun a => if j = k then a + d else a) := by
  rw [shift_getElem?]
  cases x[j]? with
  | none => rfl
  | some a => by_cases h : k = j <;> simp [h, eq_comm]

/-- **Neighbour designs.**  With a tolerance `t k` for every axis, `WorstCaseEvaluator.add`
creates exactly `2n` neighbours: number `2k` is `x − t_k e_k`, number `2k+1` is `x + t_k e_k`. -/
theorem wc_children (tol : List (Option Rat)) (t : Nat → Rat) (x : List Rat)
    (h : ∀ k, k < x.length → tol[k]? = some (some (t k))) :
    ∃ cs, wcChildVecs tol x = some cs ∧ cs.length = 2 * x.length ∧
      ∀ k, k < x.length →
        cs[2 * k]? = some (shift x k (-(t k))) ∧ cs[2 * k + 1]? = some (shift x k (t k)) := by
  refine ⟨wcNbrs t x (List.range x.length), ?_, ?_, ?_⟩
  · exact wcPairs_eq _ (fun k hk => h k (List.mem_range.mp hk))
  · simp [wcNbrs_length]
  · intro k hk
    have := wcNbrs_getElem t x (List.range x.length) k (by simpa using hk)
    simp only [List.getElem_range] at this
    have e1 : (-1 : Rat) * t k = -(t k) := by ring
    have e2 : (1 : Rat) * t k = t k := by ring
    rw [e1, e2] at this
    exact this

/-- **One batch (worst case).**  For every design of a batch of fresh designs: its children
are the `2n` neighbours of `wc_children`, each evaluated (`costs = f v`); the stored
sensitivity is `Σ |f₀ x − f₀ v|` over them; the cost vector is the user objectives followed by
that one extra entry; the signed costs carry it between the signed user objectives and the
feasibility marker. -/
theorem wc_sensitivity (P : Prob) (f0 : List Rat → Rat) (t : Nat → Rat) (e e' : Ev) (b : List Nat)
    (hn : e.n = P.signs.length + 1) (hlen : ∀ y, (P.f y).length = P.signs.length)
    (hf0 : ∀ y, (P.f y)[0]? = some (f0 y))
    (hi : e.individuals = []) (ht : e.toEvaluate = [])
    (hb : b.Nodup) (hfresh : ∀ i ∈ b, (e.heap.mem i).evaluated = false)
    (htol : ∀ i ∈ b, ∀ k, k < (e.heap.mem i).x.length → P.tol[k]? = some (some (t k)))
    (H : wcEvaluate P true e b = some e') :
    ∀ i ∈ b,
      (e'.heap.mem i).x = (e.heap.mem i).x ∧
      (e'.heap.mem i).children.map (·.x)
        = wcNbrs t (e.heap.mem i).x (List.range (e.heap.mem i).x.length) ∧
      (e'.heap.mem i).children.map (·.costs)
        = (wcNbrs t (e.heap.mem i).x (List.range (e.heap.mem i).x.length)).map P.f ∧
      (∀ c ∈ (e'.heap.mem i).children, c.evaluated = true) ∧
      (e'.heap.mem i).sens = some
        (((wcNbrs t (e.heap.mem i).x (List.range (e.heap.mem i).x.length)).map
            (fun v => |f0 (e.heap.mem i).x - f0 v|)).sum) ∧
      (e'.heap.mem i).costs = P.f (e.heap.mem i).x ++
        [((wcNbrs t (e.heap.mem i).x (List.range (e.heap.mem i).x.length)).map
            (fun v => |f0 (e.heap.mem i).x - f0 v|)).sum] ∧
      (e'.heap.mem i).signed =
        List.zipWith (fun (s : Int) y => (s : Rat) * round7 y) P.signs (P.f (e.heap.mem i).x) ++
        [((wcNbrs t (e.heap.mem i).x (List.range (e.heap.mem i).x.length)).map
            (fun v => |f0 (e.heap.mem i).x - f0 v|)).sum, P.marker (e.heap.mem i).x] := by
  intro i hib
  obtain ⟨_, _, _, _, _, _, a7, _⟩ := wcEvaluate_spec P e e' b hb hi ht H
  obtain ⟨d', w1, w2⟩ := a7 i hib
  have hc : wcChildVecs P.tol (e.heap.mem i).x
      = some (wcNbrs t (e.heap.mem i).x (List.range (e.heap.mem i).x.length)) :=
    wcPairs_eq _ (fun k hk => htol i hib k (List.mem_range.mp hk))
  have hl : (P.f (e.heap.mem i).x).length ≤ e.n := by rw [hlen, hn]; omega
  rw [wcOne_fresh P e.n _ _ f0 (hfresh i hib) hc hf0 hl] at w1
  simp only [Option.some.injEq] at w1
  have habs : ∀ (x : List Rat) (cs : List (List Rat)),
      sensOf f0 x cs = (cs.map (fun v => |f0 x - f0 v|)).sum := by
    intro x cs; simp [sensOf, absR_eq_abs]
  rw [w2, ← w1]
  refine ⟨rfl, ?_, ?_, ?_, ?_, ?_, ?_⟩
  · simp [childDone, Function.comp_def]
  · simp [childDone, Function.comp_def]
  · intro c hc'
    simp only [List.mem_map] at hc'
    obtain ⟨v, _, rfl⟩ := hc'
    rfl
  · simp [habs]
  · simp [habs]
  · simp only [signedCosts, insertBeforeLast_append_singleton, habs]

/-- The hypotheses of `wc_sensitivity` are enough for the evaluator not to raise: the
statements about `wcEvaluate … = some e'` are not vacuous. -/
theorem wc_total (P : Prob) (f0 : List Rat → Rat) (t : Nat → Rat) (e : Ev) (b : List Nat)
    (hn : e.n = P.signs.length + 1) (hlen : ∀ y, (P.f y).length = P.signs.length)
    (hf0 : ∀ y, (P.f y)[0]? = some (f0 y))
    (hi : e.individuals = []) (ht : e.toEvaluate = [])
    (hb : b.Nodup) (hlt : ∀ i ∈ b, i < e.heap.next)
    (hfresh : ∀ i ∈ b, (e.heap.mem i).evaluated = false)
    (htol : ∀ i ∈ b, ∀ k, k < (e.heap.mem i).x.length → P.tol[k]? = some (some (t k))) :
    ∃ e', wcEvaluate P true e b = some e' := by
  apply wcEvaluate_total P f0 e b hb hi ht hlt hfresh ?_ hf0 (fun y => by rw [hlen, hn]; omega)
  intro i hib
  exact ⟨_, wcPairs_eq _ (fun k hk => htol i hib k (List.mem_range.mp hk))⟩

/-- **Stability over any number of batches.**  After any sequence of pairwise disjoint
batches of fresh designs, every design that was submitted in *any* of them (however many
batches followed) has exactly `userObjectives + 1` costs, its signed costs have one entry
more (the marker), the entry before the marker is the sensitivity, and it is still the
result of one single pass `wcOne` over the design as it was submitted. -/
theorem wc_cost_length (P : Prob) (f0 : List Rat → Rat) (t : Nat → Rat) (e e' : Ev) (bs : List (List Nat))
    (hn : e.n = P.signs.length + 1) (hlen : ∀ y, (P.f y).length = P.signs.length)
    (hf0 : ∀ y, (P.f y)[0]? = some (f0 y))
    (hi : e.individuals = []) (ht : e.toEvaluate = [])
    (hnd : bs.flatten.Nodup) (hfresh : ∀ i ∈ bs.flatten, (e.heap.mem i).evaluated = false)
    (htol : ∀ i ∈ bs.flatten, ∀ k, k < (e.heap.mem i).x.length → P.tol[k]? = some (some (t k)))
    (H : wcBatches P true e bs = some e') :
    ∀ i ∈ bs.flatten,
      (e'.heap.mem i).costs.length = P.signs.length + 1 ∧
      (e'.heap.mem i).signed.length = P.signs.length + 2 ∧
      (∃ s, (e'.heap.mem i).sens = some s ∧ (e'.heap.mem i).costs[P.signs.length]? = some s ∧
            (e'.heap.mem i).signed[P.signs.length]? = some s) ∧
      (e'.heap.mem i).costs.take P.signs.length = P.f (e.heap.mem i).x ∧
      wcOne P e.n (e.heap.mem i) = some (e'.heap.mem i) := by
  intro i hib
  obtain ⟨_, _, _, _, _, _, a7⟩ := wcBatches_spec P bs e e' hnd hi ht H
  obtain ⟨d', w1, w2⟩ := a7 i hib
  have hone := w1
  have hc : wcChildVecs P.tol (e.heap.mem i).x
      = some (wcNbrs t (e.heap.mem i).x (List.range (e.heap.mem i).x.length)) :=
    wcPairs_eq _ (fun k hk => htol i hib k (List.mem_range.mp hk))
  have hl : (P.f (e.heap.mem i).x).length ≤ e.n := by rw [hlen, hn]; omega
  rw [wcOne_fresh P e.n _ _ f0 (hfresh i hib) hc hf0 hl] at w1
  simp only [Option.some.injEq] at w1
  have hz : (List.zipWith (fun (s : Int) y => (s : Rat) * round7 y) P.signs (P.f (e.heap.mem i).x)).length
      = P.signs.length := by
    simp [hlen]
  rw [w2]
  refine ⟨?_, ?_, ?_, ?_, hone⟩
  · rw [← w1]; simp [hlen]
  · rw [← w1]; simp only [signedCosts, insertBeforeLast_append_singleton, List.length_append, hz]; simp
  · refine ⟨_, by rw [← w1], ?_, ?_⟩
    · rw [← w1]
      simp only
      rw [List.getElem?_append_right (by simp [hlen])]
      simp [hlen]
    · rw [← w1]
      simp only [signedCosts, insertBeforeLast_append_singleton]
      rw [List.getElem?_append_right (by simp [hz])]
      simp [hz]
  · rw [← w1]
    simp [← hlen (e.heap.mem i).x]

/-- **No re-processing.**  A batch changes nothing about any design outside it — in
particular nothing about the designs of earlier batches. -/
theorem wc_no_reprocessing (P : Prob) (e e' : Ev) (b : List Nat)
    (hi : e.individuals = []) (ht : e.toEvaluate = []) (hb : b.Nodup)
    (H : wcEvaluate P true e b = some e') :
    ∀ j, j ∉ b → e'.heap.mem j = e.heap.mem j := by
  obtain ⟨_, _, _, _, _, a6, _, _⟩ := wcEvaluate_spec P e e' b hb hi ht H
  exact a6

/-- The same over a whole run: designs that are in none of the batches are never touched. -/
theorem wc_no_reprocessing_run (P : Prob) (e e' : Ev) (bs : List (List Nat))
    (hi : e.individuals = []) (ht : e.toEvaluate = []) (hnd : bs.flatten.Nodup)
    (H : wcBatches P true e bs = some e') :
    ∀ j, j ∉ bs.flatten → e'.heap.mem j = e.heap.mem j := by
  obtain ⟨_, _, _, _, _, a6, _⟩ := wcBatches_spec P bs e e' hnd hi ht H
  exact a6

/-- The evaluator's work lists are empty again after every batch (the repaired behaviour),
its `n` is unchanged and no design is created or lost. -/
theorem wc_worklists_reset (P : Prob) (e e' : Ev) (b : List Nat)
    (hi : e.individuals = []) (ht : e.toEvaluate = []) (hb : b.Nodup)
    (H : wcEvaluate P true e b = some e') :
    e'.individuals = [] ∧ e'.toEvaluate = [] ∧ e'.n = e.n ∧ e'.heap.next = e.heap.next := by
  obtain ⟨a1, a2, a3, a4, _⟩ := wcEvaluate_spec P e e' b hb hi ht H
  exact ⟨a3, a4, a2, a1⟩

/-- **Objective calls.**  A batch of fresh designs costs exactly `2n + 1` objective calls per
design (`n` = its dimension): the designs themselves first, then each one's `2n` neighbours. -/
theorem wc_calls (P : Prob) (t : Nat → Rat) (e e' : Ev) (b : List Nat)
    (hi : e.individuals = []) (ht : e.toEvaluate = [])
    (hb : b.Nodup) (hfresh : ∀ i ∈ b, (e.heap.mem i).evaluated = false)
    (htol : ∀ i ∈ b, ∀ k, k < (e.heap.mem i).x.length → P.tol[k]? = some (some (t k)))
    (H : wcEvaluate P true e b = some e') :
    e'.heap.calls = e.heap.calls ++ b.map (fun i => (e.heap.mem i).x)
      ++ (b.map (fun i => wcNbrs t (e.heap.mem i).x (List.range (e.heap.mem i).x.length))).flatten ∧
    e'.heap.calls.length = e.heap.calls.length + (b.map (fun i => 2 * (e.heap.mem i).x.length + 1)).sum := by
  have z3 : ∀ (l : List Nat) (g : Nat → List Rat), (l.map (fun i => [g i])).flatten = l.map g := by
    intro l g
    induction l with
    | nil => rfl
    | cons i r ih => simp [ih]
  obtain ⟨_, _, _, _, _, _, _, a8⟩ := wcEvaluate_spec P e e' b hb hi ht H
  have z1 : b.map (fun i => wcCalls1 P (e.heap.mem i)) = b.map (fun i => [(e.heap.mem i).x]) := by
    apply List.map_congr_left
    intro i hib
    exact wcCalls1_fresh P _ (hfresh i hib)
  have z2 : b.map (fun i => wcCalls2 P (e.heap.mem i))
      = b.map (fun i => wcNbrs t (e.heap.mem i).x (List.range (e.heap.mem i).x.length)) := by
    apply List.map_congr_left
    intro i hib
    exact wcCalls2_fresh P _ _ (hfresh i hib)
      (wcPairs_eq _ (fun k hk => htol i hib k (List.mem_range.mp hk)))
  rw [z1, z2] at a8
  rw [z3 b (fun i => (e.heap.mem i).x)] at a8
  refine ⟨a8, ?_⟩
  rw [a8]
  simp only [List.length_append, List.length_map, List.length_flatten, List.map_map]
  have : ∀ l : List Nat,
      l.length + (l.map (List.length ∘ fun i => wcNbrs t (e.heap.mem i).x (List.range (e.heap.mem i).x.length))).sum
        = (l.map (fun i => 2 * (e.heap.mem i).x.length + 1)).sum := by
    intro l
    induction l with
    | nil => rfl
    | cons i r ih =>
      simp only [List.length_cons, List.map_cons, List.sum_cons, Function.comp, wcNbrs_length,
        List.length_range] at ih ⊢
      omega
  have := this b
  omega

/-- **The defect that was repaired** (commit cfc0e1c), as a machine-checked counterexample on
the model variant that does not clear the work lists (`reset = false`): objective
`x ↦ x₀ + x₀²`, tolerance 1/4, two batches of one design each.  The accumulating evaluator
leaves the first design with three cost entries (one user objective + two sensitivities),
the evaluator as it is now with two — `wc_cost_length` fails for the former. -/
theorem wc_accumulating_model_violates :
    let P : Prob := mkProb [1] [some (1 / 4)] [[0, 1, 1]] []
    let e : Ev := Ev.init P (Heap.ofDesigns [[1], [2]])
    (wcBatches P false e [[0], [1]]).map (fun e' => (List.range 2).map fun i => (e'.heap.mem i).costs.length)
      = some [3, 2] ∧
    (wcBatches P true e [[0], [1]]).map (fun e' => (List.range 2).map fun i => (e'.heap.mem i).costs.length)
      = some [2, 2] := by
  decide

/-- **Gradient.**  For every design of a batch of fresh designs of the dimension of the first
one, the stored gradient is the forward finite difference of the first objective,
`gradient[k] = (f₀(x + δ e_k) − f₀ x) / δ`, its children are the `n` designs `x + δ e_k`, and
the design's own costs are the plain objective values.  (`δ = delta = 1e-4` in the code.) -/
theorem grad_forward_difference (P : Prob) (dl : Rat) (hdl : dl ≠ 0) (f0 : List Rat → Rat)
    (e e' : Ev) (b : List Nat) (hf0 : ∀ y, (P.f y)[0]? = some (f0 y))
    (hi : e.individuals = []) (ht : e.toEvaluate = [])
    (hb : b.Nodup) (hfresh : ∀ i ∈ b, (e.heap.mem i).evaluated = false)
    (hdim : ∀ i ∈ b, ∀ j ∈ b, (e.heap.mem i).x.length = (e.heap.mem j).x.length)
    (H : gradEvaluate P dl e b = some e') :
    ∀ i ∈ b,
      (e'.heap.mem i).grad = some ((List.range (e.heap.mem i).x.length).map
        (fun k => (f0 (shift (e.heap.mem i).x k dl) - f0 (e.heap.mem i).x) / dl)) ∧
      (e'.heap.mem i).children.map (·.x)
        = (List.range (e.heap.mem i).x.length).map (fun k => shift (e.heap.mem i).x k dl) ∧
      (e'.heap.mem i).costs = P.f (e.heap.mem i).x := by
  intro i hib
  obtain ⟨i0, rest, rfl, _, _, _, _, _, _, a7, _⟩ := gradEvaluate_spec P dl e e' b hb hi ht H
  obtain ⟨d', w1, w2⟩ := a7 i hib
  have hd := hdim i hib i0 (by simp)
  rw [gradOne_fresh P dl hdl _ _ f0 (hfresh i hib) hf0 (by omega)] at w1
  simp only [Option.some.injEq] at w1
  rw [w2, ← w1]
  refine ⟨?_, ?_, rfl⟩
  · simp [fwdGrad, gradVecs, hd, Function.comp_def]
  · simp [gradVecs, childDone, Function.comp_def]

/-- **Gradient: objective calls and work lists.**  A batch of fresh designs costs exactly
`n + 1` objective calls per design — the design, then its `n` displaced copies — i.e. `n`
additional evaluations; afterwards the work lists are empty again and designs outside the
batch are untouched. -/
theorem grad_calls (P : Prob) (dl : Rat) (e e' : Ev) (b : List Nat)
    (hi : e.individuals = []) (ht : e.toEvaluate = [])
    (hb : b.Nodup) (hfresh : ∀ i ∈ b, (e.heap.mem i).evaluated = false)
    (H : gradEvaluate P dl e b = some e') :
    e'.heap.calls = e.heap.calls ++
      (b.map (fun i => (e.heap.mem i).x :: gradVecs dl (e.heap.mem i).x)).flatten ∧
    e'.heap.calls.length = e.heap.calls.length + (b.map (fun i => (e.heap.mem i).x.length + 1)).sum := by
  obtain ⟨i0, rest, hbe, _, _, _, _, _, _, _, a8⟩ := gradEvaluate_spec P dl e e' b hb hi ht H
  have z : b.map (fun i => gradCalls P dl (e.heap.mem i))
      = b.map (fun i => (e.heap.mem i).x :: gradVecs dl (e.heap.mem i).x) := by
    apply List.map_congr_left
    intro i hib
    exact gradCalls_fresh P dl _ (hfresh i hib)
  rw [z] at a8
  refine ⟨a8, ?_⟩
  rw [a8]
  simp only [List.length_append, List.length_flatten, List.map_map]
  have : ∀ l : List Nat,
      (l.map (List.length ∘ fun i => (e.heap.mem i).x :: gradVecs dl (e.heap.mem i).x)).sum
        = (l.map (fun i => (e.heap.mem i).x.length + 1)).sum := by
    intro l
    induction l with
    | nil => rfl
    | cons i r ih =>
      simp only [List.map_cons, List.sum_cons, Function.comp, List.length_cons, gradVecs_length] at ih ⊢
      omega
  rw [this b]

theorem grad_worklists_reset (P : Prob) (dl : Rat) (e e' : Ev) (b : List Nat)
    (hi : e.individuals = []) (ht : e.toEvaluate = []) (hb : b.Nodup)
    (H : gradEvaluate P dl e b = some e') :
    e'.individuals = [] ∧ e'.toEvaluate = [] ∧ e'.heap.next = e.heap.next ∧
    ∀ j, j ∉ b → e'.heap.mem j = e.heap.mem j := by
  obtain ⟨i0, rest, _, a1, _, a3, a4, _, a6, _, _⟩ := gradEvaluate_spec P dl e e' b hb hi ht H
  exact ⟨a3, a4, a1, a6⟩

/-- The step of the gradient evaluator is the double `1e-4` (exact value) and is not zero. -/
theorem grad_delta : delta = 7378697629483821 / 73786976294838206464 ∧ delta ≠ 0 := by
  refine ⟨rfl, ?_⟩
  unfold delta
  norm_num

/-! ## Non-vacuity: concrete instances of the hypotheses -/

/-- objective `x ↦ [x₀ + x₀² + x₁, x₁]`, two parameters with tolerances 1/4 and 1/2 -/
def demoP : Prob := mkProb [1, -1] [some (1 / 4), some (1 / 2)] [[0, 1, 1, 1, 0], [0, 0, 1, 0, 0]] []

def demoE : Ev := Ev.init demoP (Heap.ofDesigns [[1, 2], [0, 0], [3, 1]])

/-- two batches `[0, 2]`, `[1]` succeed in the model, and the first design keeps its three
costs `[4, 2, 5/2]` (sensitivity `|4 − 53/16| + |4 − 77/16| + 1/2 + 1/2 = 5/2`) -/
example :
    (wcBatches demoP true demoE [[0, 2], [1]]).map (fun e' => ((e'.heap.mem 0).costs, (e'.heap.mem 0).signed, e'.heap.calls.length))
      = some ([4, 2, 5 / 2], [4, -2, 5 / 2, 1], 15) := by
  decide +kernel

example : demoE.individuals = [] ∧ demoE.toEvaluate = [] ∧ demoE.n = demoP.signs.length + 1 := by decide

example : (gradEvaluate demoP (1 / 2) demoE [0, 1]).map (fun e' => ((e'.heap.mem 0).grad, e'.heap.calls.length))
      = some (some [7 / 2, 1], 6) := by
  decide +kernel

end Artap.C14
