import ArtapModel.Proofs.Store
/-!
# C10 — SQLite store round trip; one row per id, last write wins

Property theorems only.  Model: `Model/Store.lean` (`encode` = `json.loads(json.dumps(to_dict()))`,
`decode` = `from_dict`, `upsert`, `syncIndividual`, `syncAll`, `run`, `createStructure`,
`readBack`, `session`); helper lemmas and the spec definitions `viewOf`, `blobOf`, `lastInd`,
`historyInds`, `J.subst`, `J.plain` in `Proofs/Store.lean`.

* `viewOf i fs` – id, vector, costs, state, signed costs, population id, algorithm id and custom
  data of the snapshot `i` unchanged, features `fs`.
* `lastInd inds id` – the last snapshot with that id in a list of snapshots.
* `historyInds ops` – all snapshots a history writes, in order (`sync_all` contributes the recorded
  individuals in list order).
* float values are opaque bit patterns (`J.flt`): "equal" below is bit-exact.
-/
namespace Artap.C10
open Artap.Store

/-! ### Non-vacuity material: a snapshot with a parent, feature references and custom data,
a later snapshot of the same id, a problem definition. -/

def exA : Ind :=
  ⟨7, [.flt 0x3ff0000000000000, .flt 0x7ff0000000000000], [.flt 3], .arr [.flt 3, .bool true],
   some .evaluated, .int 1, .int 0, .obj [("functions", .arr [.flt 5, .str "note"])],
   [("front_number", .null), ("leader", .ind 9), ("dominate", .arr [.ind 9, .int 4])], [.ind 9], []⟩
def exB : Ind := { exA with costs := [.flt 4], populationId := .int 2 }
def exC : Ind := { exA with id := 9, parents := [], children := [.ind 7] }
def exP : ProblemDef :=
  ⟨"p", "d", [.obj [("name", .str "x_1"), ("bounds", .arr [.flt 0, .flt 1])],
              .obj [("name", .str "x_2")]], [.obj [("name", .str "F"), ("criteria", .str "minimize")]]⟩
def exOps : List Op := [.syncInd exA, .syncInd exC, .syncAll [exC, exB]]

/-- **Round trip of one individual.**  If the document of a snapshot can be written at all, then
`from_dict` of it returns the snapshot's id, vector, costs, state, signed costs, population id,
algorithm id and custom data unchanged and the features with `_replace_individual_id` applied;
the stored document carries parents and children with the same replacement. -/
theorem decode_encode (i : Ind) (b : J) (h : encode i = some b) :
    ∃ ps cs fs, replaceIdsL i.parents = some ps ∧ replaceIdsL i.children = some cs ∧
      replaceFeatures i.features = some fs ∧ b = blobOf i ps cs fs ∧
      decode b = some (viewOf i fs) := by
  obtain ⟨ps, cs, fs, h1, h2, h3, h4, _⟩ := encode_eq i b h
  exact ⟨ps, cs, fs, h1, h2, h3, h4, by rw [h4, decode_blobOf]⟩

example : ∃ b, encode exA = some b := ⟨_, rfl⟩

/-- **Inside the quantifier nothing raises** and the replacement is "individuals become their
ids": JSON-able vector, costs, signed costs, ids and custom data; feature values, parents and
children built from numbers, `None`, booleans, individuals and nested lists of those. -/
theorem decode_encode_wf (i : Ind)
    (hv : jsonableL i.vector = true) (hc : jsonableL i.costs = true)
    (hs : i.costsSigned.jsonable = true) (hp : i.populationId.jsonable = true)
    (ha : i.algorithmId.jsonable = true) (hcu : i.custom.jsonable = true)
    (hf : ∀ kv ∈ i.features, kv.2.plain = true)
    (hpa : plainL i.parents = true) (hch : plainL i.children = true) :
    ∃ b, encode i = some b ∧
      decode b = some (viewOf i (i.features.map fun kv => (kv.1, kv.2.subst))) ∧
      b = blobOf i (i.parents.map J.subst) (i.children.map J.subst)
            (i.features.map fun kv => (kv.1, kv.2.subst)) := by
  refine ⟨_, encode_of_wf i hv hc hs hp ha hcu hf hpa hch, decode_blobOf _ _ _ _, ?_⟩
  rw [substL_eq_map, substL_eq_map]

example : jsonableL exA.vector = true ∧ jsonableL exA.costs = true ∧ exA.costsSigned.jsonable = true ∧
    exA.custom.jsonable = true ∧ (∀ kv ∈ exA.features, kv.2.plain = true) ∧ plainL exA.parents = true := by
  decide

/-- Whatever `_replace_individual_id` returns can be serialised: no individual is left in it. -/
theorem replaced_is_jsonable (j r : J) (h : replaceIds j = some r) : r.jsonable = true :=
  replaceIds_jsonable j r h

/-- **Replace, don't add.**  One upsert: the id's row holds the new document, every other id is
untouched, and the number of rows grows only for an id that was not there. -/
theorem upsert_replaces (s : Store) (id : Int) (b : J) :
    lookup (upsert s id b) id = some b ∧
    (∀ id2, id2 ≠ id → lookup (upsert s id b) id2 = lookup s id2) ∧
    (upsert s id b).length = if id ∈ ids s then s.length else s.length + 1 :=
  ⟨lookup_upsert_same s id b, fun id2 h => lookup_upsert_other s id id2 b (Ne.symm h), length_upsert s id b⟩

/-- **At most one row per id, for every history** of `sync_individual` / `sync_all` calls, of
any length, over any snapshots, starting from any table with distinct ids. -/
theorem upsert_unique (s s' : Store) (ops : List Op) (hn : (ids s).Nodup) (h : run s ops = some s') :
    (ids s').Nodup := by
  rw [run_eq] at h
  cases hw : indWrites (historyInds ops) with
  | none => simp [hw] at h
  | some ws =>
    simp only [hw, Option.map_some, Option.some.injEq] at h
    subst h
    exact nodup_applyWrites s ws hn

example : ∃ s', run [] exOps = some s' ∧ s'.length = 2 := ⟨_, rfl, rfl⟩

/-- **Last write wins, for every history.**  After a history the row of an id is the document of
the *last* snapshot synchronised under that id; ids the history never touched keep their row. -/
theorem upsert_last_wins (s s' : Store) (ops : List Op) (h : run s ops = some s') (id : Int) :
    lookup s' id = match lastInd (historyInds ops) id with
      | some i => encode i
      | none => lookup s id := by
  rw [run_eq] at h
  cases hw : indWrites (historyInds ops) with
  | none => simp [hw] at h
  | some ws =>
    simp only [hw, Option.map_some, Option.some.injEq] at h
    subst h
    exact lookup_of_history _ ws hw s id

example : lastInd (historyInds exOps) 7 = some exB := rfl

/-- **`sync_all` is complete.**  After it every recorded individual has a row holding its current
data (for an id that occurs once, or whose occurrences are the same object), no other row changed,
and ids stay distinct. -/
theorem sync_all_complete (s s' : Store) (inds : List Ind) (h : syncAll s inds = some s') :
    (∀ i ∈ inds, (∀ j ∈ inds, j.id = i.id → j = i) →
        ∃ b, encode i = some b ∧ lookup s' i.id = some b) ∧
    (∀ id, id ∉ inds.map (·.id) → lookup s' id = lookup s id) ∧
    ((ids s).Nodup → (ids s').Nodup) := by
  rw [syncAll_eq] at h
  cases hw : indWrites inds with
  | none => simp [hw] at h
  | some ws =>
    simp only [hw, Option.map_some, Option.some.injEq] at h
    subst h
    refine ⟨?_, ?_, nodup_applyWrites s ws⟩
    · intro i hi hall
      obtain ⟨b, hb⟩ := indWrites_encode_isSome inds ws hw i hi
      refine ⟨b, hb, ?_⟩
      rw [lookup_of_history inds ws hw s i.id, lastInd_of_all_equal inds i hi hall]
      exact hb
    · intro id hid
      rw [lookup_of_history inds ws hw s id]
      cases hl : lastInd inds id with
      | none => rfl
      | some j =>
        have := lastInd_mem inds id j hl
        exact absurd (by simp only [List.mem_map]; exact ⟨j, this.1, this.2⟩) hid

example : ∃ s', syncAll [] [exC, exB] = some s' := ⟨_, rfl⟩

/-- **End of a run.**  A history that ends with `sync_all` (every algorithm's `run` does) leaves,
for every recorded individual, a row with its final data, and a read-mode view decodes that row to
the individual's vector, costs, signed costs, population id, custom data and (id-replaced) features
— whatever was synchronised, and however often, before. -/
theorem final_sync_complete (s s' : Store) (ops : List Op) (inds : List Ind)
    (h : run s (ops ++ [.syncAll inds]) = some s') :
    ∀ i ∈ inds, (∀ j ∈ inds, j.id = i.id → j = i) →
      ∃ b fs, encode i = some b ∧ lookup s' i.id = some b ∧
        replaceFeatures i.features = some fs ∧ decode b = some (viewOf i fs) := by
  have happ : ∀ (ops1 : List Op) (s0 : Store), run s0 (ops1 ++ [.syncAll inds]) =
      (run s0 ops1).bind (fun s1 => syncAll s1 inds) := by
    intro ops1
    induction ops1 with
    | nil =>
      intro s0
      cases hs : syncAll s0 inds <;> simp [run, step, hs]
    | cons o r ih =>
      intro s0
      cases hst : step s0 o with
      | none => simp [run, hst]
      | some s1 => simp [run, hst, ih s1]
  rw [happ] at h
  cases hr : run s ops with
  | none => simp [hr] at h
  | some s1 =>
    simp only [hr, Option.bind_some] at h
    intro i hi hall
    obtain ⟨b, hb, hl⟩ := (sync_all_complete s1 s' inds h).1 i hi hall
    obtain ⟨ps, cs, fs, _, _, hf, _, hd⟩ := decode_encode i b hb
    exact ⟨b, fs, hb, hl, hf, hd⟩

example : ∃ s', run [] ([.syncInd exA, .syncInd exC] ++ [.syncAll [exC, exB]]) = some s' := ⟨_, rfl⟩

/-- **The problem comes back.**  A read-mode view of a file returns the name, the description
and the parameter and cost definitions (in order) the file was created with, whatever was
synchronised in between. -/
theorem readBack_problem (p p' : ProblemDef) (ops : List Op) (vs : List View)
    (h : session p ops = some (p', vs)) : p' = p := by
  unfold session at h
  cases hc : createStructure p with
  | none => simp [hc] at h
  | some f =>
    obtain ⟨hm, hp, hcs, _, _, _⟩ := createStructure_spec p f hc
    simp only [hc] at h
    cases hr : run f.individuals ops with
    | none => simp [hr] at h
    | some s =>
      simp only [hr, readBack, hm] at h
      cases hd : decodeAll s with
      | none => simp [hd] at h
      | some vs' =>
        simp only [hd, Option.some.injEq, Prod.mk.injEq] at h
        rw [← h.1, hp, hcs]

/-- **Whole session.**  Create a file for a problem, run any history of synchronisations, open a
read-mode view: the problem definition is the one written; the view holds exactly one individual
per synchronised id (ids pairwise different); and an individual is in the view iff it is the view
of the last snapshot synchronised under some id (vector, costs, signed costs, population id,
custom data bit-identical, features with individuals replaced by ids). -/
theorem session_roundtrip (p p' : ProblemDef) (ops : List Op) (vs : List View)
    (h : session p ops = some (p', vs)) :
    p' = p ∧ (vs.map (·.id)).Nodup ∧
    (∀ v, v ∈ vs ↔ ∃ id i fs, lastInd (historyInds ops) id = some i ∧
        replaceFeatures i.features = some fs ∧ v = viewOf i fs) := by
  refine ⟨readBack_problem p p' ops vs h, ?_⟩
  unfold session at h
  cases hc : createStructure p with
  | none => simp [hc] at h
  | some f =>
    obtain ⟨hm, _, _, hi, _, _⟩ := createStructure_spec p f hc
    simp only [hc, hi, run_eq] at h
    cases hw : indWrites (historyInds ops) with
    | none => simp [hw] at h
    | some ws =>
      simp only [hw, Option.map_some, readBack, hm] at h
      cases hd : decodeAll (applyWrites [] ws) with
      | none => simp [hd] at h
      | some vs' =>
        simp only [hd, Option.some.injEq, Prod.mk.injEq] at h
        rw [← h.2]
        exact views_of_history _ ws hw vs' hd

example : ∃ r, session exP exOps = some r ∧ r.2.length = 2 := ⟨_, rfl, rfl⟩

/-- **A session inside the quantifier never raises**: if the definitions can be stored
(`createStructure`) and every snapshot of the history can be encoded, the read-mode view opens. -/
theorem session_total (p : ProblemDef) (f : File) (ops : List Op) (hc : createStructure p = some f)
    (he : ∀ i ∈ historyInds ops, ∃ b, encode i = some b) : ∃ r, session p ops = some r := by
  obtain ⟨hm, _, _, hi, _, _⟩ := createStructure_spec p f hc
  have hw : ∀ l : List Ind, (∀ i ∈ l, ∃ b, encode i = some b) → ∃ ws, indWrites l = some ws := by
    intro l
    induction l with
    | nil => intro _; exact ⟨[], rfl⟩
    | cons i r ih =>
      intro hl
      obtain ⟨b, hb⟩ := hl i (by simp)
      obtain ⟨ws, hws⟩ := ih (fun j hj => hl j (by simp [hj]))
      exact ⟨(i.id, b) :: ws, by simp [indWrites, hb, hws]⟩
  obtain ⟨ws, hws⟩ := hw _ he
  -- every row decodes: it is the document of some snapshot
  have hdec : ∀ r ∈ applyWrites [] ws, ∃ v, decode r.2 = some v := by
    intro r hr
    obtain ⟨k, b⟩ := r
    obtain ⟨i, _, hb, _⟩ := row_of_history _ ws hws k b hr
    obtain ⟨ps, cs, fs, _, _, _, hbl, _⟩ := encode_eq i b hb
    exact ⟨viewOf i fs, by simp only [hbl, decode_blobOf]⟩
  have hall : ∀ s : Store, (∀ r ∈ s, ∃ v, decode r.2 = some v) → ∃ vs, decodeAll s = some vs := by
    intro s
    induction s with
    | nil => intro _; exact ⟨[], rfl⟩
    | cons r t ih =>
      intro hs
      obtain ⟨k, b⟩ := r
      obtain ⟨v, hv⟩ := hs (k, b) (by simp)
      obtain ⟨vs, hvs⟩ := ih (fun r hr => hs r (by simp [hr]))
      simp only at hv
      exact ⟨v :: vs, by simp [decodeAll, hv, hvs]⟩
  obtain ⟨vs, hvs⟩ := hall _ hdec
  refine ⟨(⟨p.name, p.description, f.parameters.map (·.2), f.costs.map (·.2)⟩, vs), ?_⟩
  simp [session, hc, hi, run_eq, hws, readBack, hm, hvs]

example : ∃ f, createStructure exP = some f := ⟨_, rfl⟩

end Artap.C10
