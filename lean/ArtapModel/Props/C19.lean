import ArtapModel.Proofs.Surrogate
/-!
# C19 — Surrogate wrapper returns true values unless predicting; exact accounting

Property theorems only.  Model: `Model/Surrogate.lean` (`passRun` = `SurrogateModelEval`,
`run` = `SurrogateModelPredict.evaluate` over a sequence of requests; the objective `f`, the
hook's answers, `train_step` and the initial state are universally quantified).
-/
namespace Artap.C19
open Artap.Surrogate

/-- Pass-through wrapper: every request returns the true objective value, the evaluation
counter grows by one per request, the objective is called exactly once per request (in
order), nothing is predicted and the training set is untouched. -/
theorem eval_passthrough (f : List Int → List Int) (s : St) (rs : List Req) :
    (passRun f s rs).2 = rs.map (fun r => f r.x) ∧
    (passRun f s rs).1.evalCount = s.evalCount + rs.length ∧
    (passRun f s rs).1.predCount = s.predCount ∧
    (passRun f s rs).1.fcalls = s.fcalls ++ rs.map (·.x) ∧
    (passRun f s rs).1.xs = s.xs ∧ (passRun f s rs).1.ys = s.ys := by
  induction rs generalizing s with
  | nil => simp [passRun]
  | cons r rs ih =>
    have := ih (passStep f s r).1
    simp only [passRun, passStep] at this ⊢
    obtain ⟨h1, h2, h3, h4, h5, h6⟩ := this
    refine ⟨?_, ?_, ?_, ?_, ?_, ?_⟩
    · simp [h1]
    · simp [h2]; omega
    · simp [h3]
    · simp [h4]
    · simp [h5]
    · simp [h6]

/-- A prediction is used exactly when the model is trained, the problem has a hook and the
hook returns a value; then the returned value is the hook's, the prediction counter grows
by one and nothing else changes (no objective call, no training data, no retraining). -/
theorem predict_only_when_trained_and_accepted (f : List Int → List Int) (hh : Bool) (ts : Int)
    (s : St) (r : Req) :
    (∀ p, s.trained = true → hh = true → r.hook = some p →
        step f hh ts s r = some ({ s with predCount := s.predCount + 1 }, p)) ∧
    ((s.trained = false ∨ hh = false ∨ r.hook = none) →
        step f hh ts s r = trueEval f ts s r) := by
  constructor
  · intro p h1 h2 h3
    exact step_predict (prediction_eq_some.mpr ⟨h1, h2, h3⟩)
  · intro h
    apply step_true
    unfold prediction
    rcases h with h | h | h
    · simp [h]
    · simp [h]
    · simp [h]

/-- Otherwise the true objective is evaluated exactly once, returned unchanged, counted, and
the (vector, value) pair is appended once to the training set. -/
theorem true_eval_once_and_recorded_step (f : List Int → List Int) (hh : Bool) (ts : Int)
    (s s' : St) (r : Req) (v : List Int)
    (hno : s.trained = false ∨ hh = false ∨ r.hook = none)
    (h : step f hh ts s r = some (s', v)) :
    v = f r.x ∧ s'.evalCount = s.evalCount + 1 ∧ s'.predCount = s.predCount ∧
    s'.xs = s.xs ++ [r.x] ∧ s'.ys = s.ys ++ [f r.x] ∧ s'.fcalls = s.fcalls ++ [r.x] := by
  rw [(predict_only_when_trained_and_accepted f hh ts s r).2 hno] at h
  exact trueEval_spec h

/-- Over a whole request sequence: the truly evaluated requests `ev` form a subsequence of
the requests (order kept); the training set grows by exactly their (vector, value) pairs,
aligned and in order; the objective call log grows by exactly their vectors (one call
each); one answer per request; each answer is the true value or the hook's value. -/
theorem true_eval_once_and_recorded (f : List Int → List Int) (hh : Bool) (ts : Int)
    (s s' : St) (rs : List Req) (vs : List (List Int))
    (h : run f hh ts s rs = some (s', vs)) :
    ∃ ev : List Req, ev.Sublist rs ∧
      s'.xs = s.xs ++ ev.map (·.x) ∧ s'.ys = s.ys ++ ev.map (fun r => f r.x) ∧
      s'.fcalls = s.fcalls ++ ev.map (·.x) ∧
      s'.evalCount = s.evalCount + ev.length ∧
      s'.predCount + ev.length = s.predCount + rs.length ∧
      vs.length = rs.length ∧
      (∀ i (h1 : i < rs.length) (h2 : i < vs.length), vs[i] = f rs[i].x ∨ rs[i].hook = some vs[i]) := by
  induction rs generalizing s vs with
  | nil =>
    simp only [run, Option.some.injEq, Prod.mk.injEq] at h
    obtain ⟨rfl, rfl⟩ := h
    exact ⟨[], by simp⟩
  | cons r rs ih =>
    obtain ⟨s1, v, vs', hs, hr, rfl⟩ := run_cons h
    obtain ⟨ev, hsub, hx, hy, hc, he, hp, hl, hv⟩ := ih s1 vs' hr
    cases hpred : prediction hh s r with
    | some p =>
      rw [step_predict hpred] at hs
      simp only [Option.some.injEq, Prod.mk.injEq] at hs
      obtain ⟨rfl, rfl⟩ := hs
      refine ⟨ev, hsub.cons _, by simpa using hx, by simpa using hy, by simpa using hc, by simpa using he, ?_, by simp [hl], ?_⟩
      · simp only [List.length_cons] at hp ⊢; omega
      · intro i h1 h2
        cases i with
        | zero => right; simpa using (prediction_eq_some.mp hpred).2.2
        | succ j => simpa using hv j (by simpa using h1) (by simpa using h2)
    | none =>
      rw [step_true hpred] at hs
      obtain ⟨rfl, e1, e2, e3, e4, e5⟩ := trueEval_spec hs
      refine ⟨r :: ev, hsub.cons_cons _, ?_, ?_, ?_, ?_, ?_, by simp [hl], ?_⟩
      · simp [hx, e3]
      · simp [hy, e4]
      · simp [hc, e5]
      · simp only [List.length_cons]; omega
      · simp only [List.length_cons] at hp ⊢; omega
      · intro i h1 h2
        cases i with
        | zero => left; simp
        | succ j => simpa using hv j (by simpa using h1) (by simpa using h2)

/-- Evaluation and prediction counters always add up to the number of requests. -/
theorem counters_sum (f : List Int → List Int) (hh : Bool) (ts : Int) (s s' : St) (rs : List Req)
    (vs : List (List Int)) (h : run f hh ts s rs = some (s', vs)) :
    s'.evalCount + s'.predCount = s.evalCount + s.predCount + rs.length := by
  obtain ⟨ev, _, _, _, _, he, hp, _, _⟩ := true_eval_once_and_recorded f hh ts s s' rs vs h
  omega

/-- Retraining schedule for a positive `train_step = st`: the number of `train()` calls and
`⌊evalCount / st⌋` grow together, i.e. the model is retrained exactly when the evaluation
counter reaches a multiple of `st`. -/
theorem retrain_schedule (f : List Int → List Int) (hh : Bool) (st : Nat) (hst : 0 < st)
    (s s' : St) (rs : List Req) (vs : List (List Int))
    (h : run f hh (st : Int) s rs = some (s', vs)) :
    s'.trainCalls + s.evalCount / st = s.trainCalls + s'.evalCount / st := by
  induction rs generalizing s vs with
  | nil =>
    simp only [run, Option.some.injEq, Prod.mk.injEq] at h
    obtain ⟨rfl, rfl⟩ := h
    omega
  | cons r rs ih =>
    obtain ⟨s1, v, vs', hs, hr, rfl⟩ := run_cons h
    have := ih s1 vs' hr
    cases hpred : prediction hh s r with
    | some p =>
      rw [step_predict hpred] at hs
      simp only [Option.some.injEq, Prod.mk.injEq] at hs
      obtain ⟨rfl, rfl⟩ := hs
      simpa using this
    | none =>
      rw [step_true hpred] at hs
      obtain ⟨_, e1, _⟩ := trueEval_spec hs
      obtain ⟨t1, t2⟩ := trueEval_train hst hs
      by_cases hd : st ∣ s.evalCount + 1
      · rw [e1, Nat.succ_div_of_dvd hd, (t1 hd).2.1] at this
        omega
      · rw [e1, Nat.succ_div_of_not_dvd hd, (t2 hd).2.1] at this
        omega

/-- From a fresh wrapper (`St.init`): after the run the training set has `evalCount`
entries, `train()` was called `⌊evalCount / st⌋` times, and the k-th call saw exactly
`k · st` training pairs — retraining happens at every `st`-th true evaluation and at no
other moment. -/
theorem retrain_schedule_fresh (f : List Int → List Int) (hh : Bool) (st : Nat) (hst : 0 < st)
    (t0 : Bool) (s' : St) (rs : List Req) (vs : List (List Int))
    (h : run f hh (st : Int) (St.init t0) rs = some (s', vs)) :
    s'.xs.length = s'.evalCount ∧ s'.trainCalls = s'.evalCount / st ∧
    s'.trainSizes = (List.range (s'.evalCount / st)).map (fun k => (k + 1) * st) := by
  suffices H : ∀ (rs : List Req) (s s' : St) (vs : List (List Int)),
      run f hh (st : Int) s rs = some (s', vs) →
      (s.xs.length = s.evalCount ∧ s.trainCalls = s.evalCount / st ∧
        s.trainSizes = (List.range (s.evalCount / st)).map (fun k => (k + 1) * st)) →
      (s'.xs.length = s'.evalCount ∧ s'.trainCalls = s'.evalCount / st ∧
        s'.trainSizes = (List.range (s'.evalCount / st)).map (fun k => (k + 1) * st)) by
    refine H rs (St.init t0) s' vs h ?_
    simp [St.init, Nat.zero_div]
  intro rs
  induction rs with
  | nil =>
    intro s s' vs h inv
    simp only [run, Option.some.injEq, Prod.mk.injEq] at h
    obtain ⟨rfl, rfl⟩ := h
    exact inv
  | cons r rs ih =>
    intro s s' vs h inv
    obtain ⟨s1, v, vs', hs, hr, rfl⟩ := run_cons h
    apply ih s1 s' vs' hr
    obtain ⟨i1, i2, i3⟩ := inv
    cases hpred : prediction hh s r with
    | some p =>
      rw [step_predict hpred] at hs
      simp only [Option.some.injEq, Prod.mk.injEq] at hs
      obtain ⟨rfl, rfl⟩ := hs
      exact ⟨i1, i2, i3⟩
    | none =>
      rw [step_true hpred] at hs
      obtain ⟨_, e1, _, e3, _, _⟩ := trueEval_spec hs
      obtain ⟨t1, t2⟩ := trueEval_train hst hs
      have hx : s1.xs.length = s1.evalCount := by rw [e3, e1]; simp [i1]
      by_cases hd : st ∣ s.evalCount + 1
      · obtain ⟨_, c1, c2⟩ := t1 hd
        have hdiv := Nat.succ_div_of_dvd hd
        refine ⟨hx, ?_, ?_⟩
        · rw [c1, e1, hdiv, i2]
        · rw [c2, e1, hdiv, List.range_succ, List.map_append, i3, i1]
          have : (s.evalCount / st + 1) * st = s.evalCount + 1 := by
            rw [← hdiv]; exact Nat.div_mul_cancel hd
          simp [this]
      · obtain ⟨_, c1, c2⟩ := t2 hd
        have hdiv := Nat.succ_div_of_not_dvd hd
        refine ⟨hx, ?_, ?_⟩
        · rw [c1, e1, hdiv, i2]
        · rw [c2, e1, hdiv, i3]

/-- `train_step = -1`: the model is never retrained (and its `trained` flag never changes). -/
theorem retrain_never (f : List Int → List Int) (hh : Bool) (s s' : St) (rs : List Req)
    (vs : List (List Int)) (h : run f hh (-1) s rs = some (s', vs)) :
    s'.trainCalls = s.trainCalls ∧ s'.trainSizes = s.trainSizes ∧ s'.trained = s.trained := by
  induction rs generalizing s vs with
  | nil =>
    simp only [run, Option.some.injEq, Prod.mk.injEq] at h
    obtain ⟨rfl, rfl⟩ := h
    simp
  | cons r rs ih =>
    obtain ⟨s1, v, vs', hs, hr, rfl⟩ := run_cons h
    obtain ⟨a, b, c⟩ := ih s1 vs' hr
    cases hpred : prediction hh s r with
    | some p =>
      rw [step_predict hpred] at hs
      simp only [Option.some.injEq, Prod.mk.injEq] at hs
      obtain ⟨rfl, rfl⟩ := hs
      exact ⟨a, b, c⟩
    | none =>
      rw [step_true hpred] at hs
      obtain ⟨x, y, z⟩ := trueEval_never hs
      exact ⟨a.trans y, b.trans z, c.trans x⟩

/-- The wrapper never raises for a non-zero `train_step` (the theorems above are not vacuous). -/
theorem run_total (f : List Int → List Int) (hh : Bool) (ts : Int) (hts : ts ≠ 0) (s : St) (rs : List Req) :
    ∃ s' vs, run f hh ts s rs = some (s', vs) := by
  induction rs generalizing s with
  | nil => exact ⟨s, [], rfl⟩
  | cons r rs ih =>
    have hstep : ∃ s1 v, step f hh ts s r = some (s1, v) := by
      unfold step
      cases prediction hh s r with
      | some p => exact ⟨_, _, rfl⟩
      | none =>
        unfold trueEval
        dsimp only
        by_cases h1 : ts = -1
        · simp [h1]
        · simp only [h1, hts, if_false]
          split <;> exact ⟨_, _, rfl⟩
    obtain ⟨s1, v, hs⟩ := hstep
    obtain ⟨s2, vs, hr⟩ := ih s1
    exact ⟨s2, v :: vs, by simp [run, hs, hr]⟩

/-! Non-vacuity: a concrete mixed run (objective `x ↦ [x₀ + 1]`, hook present, step 2,
untrained at the start): requests 1, 2 are evaluated (the hook is not consulted while
untrained), training happens at the 2nd true evaluation, request 3 is predicted (`[77]`),
request 4 is declined and evaluated. -/
example :
    run (fun x => x.map (· + 1)) true 2 (St.init false)
      [⟨[1], some [70]⟩, ⟨[2], none⟩, ⟨[3], some [77]⟩, ⟨[4], none⟩] =
    some (⟨true, 3, 1, [[1], [2], [4]], [[2], [3], [5]], 1, [2], [[1], [2], [4]]⟩, [[2], [3], [77], [5]]) := by
  decide

example : (passRun (fun x => x.map (· + 1)) (St.init true) [⟨[1], some [70]⟩, ⟨[2], none⟩]).2 = [[2], [3]] := by
  decide

end Artap.C19
