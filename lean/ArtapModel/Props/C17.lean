import ArtapModel.Proofs.ResultsReal
/-!
# C17 — Result queries and quality indicators are faithful views of the recorded data

Property theorems only.  Model: `Model/Results.lean` (a recorded individual is `(idx, tag, vector, costs)`;
`none` = a Python exception).  Helper lemmas and the specification vocabulary (`Within`, `shift`, `Dim`,
`IsColumn`, `tagOrder`, `gdReal`) are in `Proofs/Results.lean` and `Proofs/ResultsReal.lean`.
-/
namespace Artap.C17
open Artap.Results

/-! ## population queries -/

/-- A population query returns exactly the individuals carrying that generation tag, in recording order;
the default (`-1`) is the last generation: the largest recorded tag (never below the start value `-1`
of the code's search). -/
theorem population_filter (inds : List Ind) (pid : Int) :
    population inds pid = inds.filter (fun i => i.tag == pid) ∧
    (pid ≠ -1 → populationQuery inds pid = inds.filter (fun i => i.tag == pid)) ∧
    populationQuery inds (-1) = inds.filter (fun i => i.tag == lastTag inds) ∧
    (∀ i ∈ inds, i.tag ≤ lastTag inds) ∧
    (lastTag inds = -1 ∨ ∃ i ∈ inds, i.tag = lastTag inds) := by
  refine ⟨population_eq_filter inds pid, ?_, ?_, (lastTag_spec inds).2.1, (lastTag_spec inds).2.2⟩
  · intro h
    have : (pid == -1) = false := by simpa using h
    simp [populationQuery, this, population_eq_filter]
  · simp [populationQuery, lastPopulation, population_eq_filter]

/-- `Problem.populations()` maps every recorded tag (keys in order of first appearance, no key twice) to
exactly the individuals with that tag in recording order. -/
theorem populations_groups (inds : List Ind) :
    populations inds = (tagOrder inds).map (fun k => (k, inds.filter (fun i => i.tag == k))) ∧
    (tagOrder inds).Nodup ∧ ∀ k, k ∈ tagOrder inds ↔ ∃ i ∈ inds, i.tag = k :=
  ⟨populations_eq inds, nodup_tagOrder inds, mem_tagOrder inds⟩

/-! ## tables -/

/-- Each table row is one individual's own vector followed by its own costs; every recorded individual
contributes exactly one row, and within a generation rows are in recording order. -/
theorem table_rows (inds : List Ind) :
    tableRows inds = (grouped inds).map (fun i => i.vector ++ i.costs) ∧
    (grouped inds).Perm inds ∧
    ∀ t, (grouped inds).filter (fun i => i.tag == t) = inds.filter (fun i => i.tag == t) :=
  ⟨rfl, grouped_perm inds, grouped_filter_tag inds⟩

/-- The transposed table never raises; column `j` lists entry `j` of every row in row order, and with
rows of one common length `m` there are exactly `m` columns. -/
theorem table_transposed (inds : List Ind) :
    ∃ cols, tableT inds = some cols ∧
      List.Forall₂ (fun j col => IsColumn (fun r j => r[j]?) (tableRows inds) j col)
        (List.range (minLength (tableRows inds))) cols ∧
      ∀ m, tableRows inds ≠ [] → (∀ r ∈ tableRows inds, r.length = m) → cols.length = m := by
  obtain ⟨cols, h1, h2⟩ := zipStar_spec (tableRows inds)
  refine ⟨cols, h1, h2, ?_⟩
  intro m hne hm
  have := h2.length_eq
  rw [minLength_uniform _ m hne hm] at this
  simpa using this.symm

/-- `goal_on_index` / `parameter_on_index`: the number of members of the queried population and, for
every requested goal / parameter `j`, the column of the members' own `j`-th values in population order. -/
theorem index_listing (field : Ind → List Int) (inds : List Ind) (sel : Option Nat) (count : Nat)
    (pid : Int) (n : Nat) (t : List (List Int)) (h : onIndex field inds sel count pid = some (n, t)) :
    n = (populationQuery inds pid).length ∧
    List.Forall₂ (fun j col => IsColumn (fun i j => (field i)[j]?) (populationQuery inds pid) j col)
      (selCols sel count) t := by
  unfold onIndex at h
  cases ht : collect (fun j => collect (fun (i : Ind) => (field i)[j]?) (populationQuery inds pid))
      (selCols sel count) with
  | none => rw [ht] at h; cases h
  | some t' =>
    rw [ht] at h
    simp only [Option.some.injEq, Prod.mk.injEq] at h
    obtain ⟨rfl, rfl⟩ := h
    exact ⟨rfl, (collect_columns (fun (i : Ind) j => (field i)[j]?) _ _ _).1 ht⟩

/-! ## sorted listings -/

/-- `sort_list` together with `list.sort()`: the pairs (first value, second value) after sorting are a
permutation of the pairs before, in lexicographic order – pairing survives sorting. -/
theorem sortList_pairs (l1 l2 : List Int) (hl : l1.length = l2.length) :
    (List.zip (sortAsc l1) (sortList l1 l2)).Perm (List.zip l1 l2) ∧
    (List.zip (sortAsc l1) (sortList l1 l2)).Pairwise (fun p q => lexLe p q = true) ∧
    (sortAsc l1).Pairwise (· ≤ ·) ∧
    (sortAsc l1).length = l1.length ∧ (sortList l1 l2).length = l1.length := by
  rw [sortList_zip l1 l2 hl]
  refine ⟨sortedPairs_perm l1 l2, sortedPairs_pairwise l1 l2, sortAsc_pairwise l1,
    (sortAsc_perm l1).length_eq, ?_⟩
  have := (sortedPairs_perm l1 l2).length_eq
  simp only [sortList, sortedPairs, List.length_map, List.length_zip] at this ⊢
  omega

/-- `goal_on_parameter`: the returned (parameter, goal) pairs are, up to order, exactly the pairs
(own parameter value, own goal value) of the queried population's members; unsorted they are in
population order, sorted they are in lexicographic order with ascending parameter values. -/
theorem goalOnParameter_pairs (inds : List Ind) (pi gi : Nat) (pid : Int) (srt : Bool)
    (pv gv : List Int) (h : goalOnParameter inds pi gi pid srt = some (pv, gv)) :
    ∃ pairs : List (Int × Int),
      List.Forall₂ (fun i p => i.vector[pi]? = some p.1 ∧ i.costs[gi]? = some p.2)
        (populationQuery inds pid) pairs ∧
      pv.length = pairs.length ∧ gv.length = pairs.length ∧ (List.zip pv gv).Perm pairs ∧
      (srt = false → List.zip pv gv = pairs) ∧
      (srt = true → (List.zip pv gv).Pairwise (fun p q => lexLe p q = true) ∧ pv.Pairwise (· ≤ ·)) :=
  pairListing_spec _ _ _ srt pv gv h

/-- `parameter_on_parameter`: same statement for two parameters. -/
theorem parameterOnParameter_pairs (inds : List Ind) (i1 i2 : Nat) (pid : Int) (srt : Bool)
    (v1 v2 : List Int) (h : parameterOnParameter inds i1 i2 pid srt = some (v1, v2)) :
    ∃ pairs : List (Int × Int),
      List.Forall₂ (fun i p => i.vector[i1]? = some p.1 ∧ i.vector[i2]? = some p.2)
        (populationQuery inds pid) pairs ∧
      v1.length = pairs.length ∧ v2.length = pairs.length ∧ (List.zip v1 v2).Perm pairs ∧
      (srt = false → List.zip v1 v2 = pairs) ∧
      (srt = true → (List.zip v1 v2).Pairwise (fun p q => lexLe p q = true) ∧ v1.Pairwise (· ≤ ·)) :=
  pairListing_spec _ _ _ srt v1 v2 h

/-- `parameter_on_goal` (returns goal values first): the (goal, parameter) pairs are, up to order, the
members' own (goal value, parameter value) pairs; sorted = ascending goal values. -/
theorem parameterOnGoal_pairs (inds : List Ind) (gi pi : Nat) (pid : Int) (srt : Bool)
    (gv pv : List Int) (h : parameterOnGoal inds gi pi pid srt = some (gv, pv)) :
    ∃ pairs : List (Int × Int),
      List.Forall₂ (fun i p => i.costs[gi]? = some p.1 ∧ i.vector[pi]? = some p.2)
        (populationQuery inds pid) pairs ∧
      gv.length = pairs.length ∧ pv.length = pairs.length ∧ (List.zip gv pv).Perm pairs ∧
      (srt = false → List.zip gv pv = pairs) ∧
      (srt = true → (List.zip gv pv).Pairwise (fun p q => lexLe p q = true) ∧ gv.Pairwise (· ≤ ·)) := by
  unfold parameterOnGoal at h
  cases hg : goalOnParameter inds pi gi pid false with
  | none => rw [hg] at h; cases h
  | some r =>
    obtain ⟨pv0, gv0⟩ := r
    rw [hg] at h
    obtain ⟨pairs, f1, f2, f3, _, f5, _⟩ := pairListing_spec _ _ _ false pv0 gv0 hg
    have hz := f5 rfl
    have hl : gv0.length = pv0.length := by omega
    have hswap : List.zip gv0 pv0 = pairs.map Prod.swap := by rw [← hz]; exact zip_swap pv0 gv0
    have hf : List.Forall₂ (fun i p => i.costs[gi]? = some p.1 ∧ i.vector[pi]? = some p.2)
        (populationQuery inds pid) (pairs.map Prod.swap) := by
      rw [List.forall₂_map_right_iff]
      exact f1.imp (fun _ _ h => ⟨h.2, h.1⟩)
    refine ⟨pairs.map Prod.swap, hf, ?_⟩
    cases srt with
    | false =>
      simp only [Bool.false_eq_true, if_false, Option.some.injEq, Prod.mk.injEq] at h
      obtain ⟨rfl, rfl⟩ := h
      exact ⟨by simp; omega, by simp; omega, by rw [hswap], fun _ => hswap, by simp⟩
    | true =>
      simp only [if_true, Option.some.injEq, Prod.mk.injEq] at h
      obtain ⟨rfl, rfl⟩ := h
      obtain ⟨s1, s2, s3, s4, s5⟩ := sortList_pairs gv0 pv0 hl
      refine ⟨by simp; omega, by simp; omega, by rw [← hswap]; exact s1, by simp, fun _ => ⟨s2, s3⟩⟩

/-! ## optimum -/

/-- For a minimised (or criteria-less) goal the optimum query returns a recorded individual whose named
cost is minimal over **all** recorded individuals. -/
theorem findOptimum_min (inds : List Ind) (index : Nat) (hne : inds ≠ [])
    (hc : ∀ i ∈ inds, index < i.costs.length) :
    ∃ o co, findOptimum inds true index = some o ∧ o ∈ inds ∧ o.costs[index]? = some co ∧
      ∀ i ∈ inds, ∀ c, i.costs[index]? = some c → co ≤ c := by
  obtain ⟨o, co, h1, h2, h3, h4⟩ := bestByCost_spec (fun cx cb => decide (cx < cb)) index
    (by intro a b; simp only [decide_eq_true_eq, decide_eq_false_iff_not]; omega)
    (by intro a b c; simp only [decide_eq_false_iff_not]; omega) inds hne hc
  refine ⟨o, co, by simpa [findOptimum, minByCost] using h1, h2, h3, ?_⟩
  intro i hi c hci
  have := h4 i hi c hci
  simp only [decide_eq_false_iff_not] at this
  omega

/-- For a maximised goal it returns a recorded individual whose named cost is maximal. -/
theorem findOptimum_max (inds : List Ind) (index : Nat) (hne : inds ≠ [])
    (hc : ∀ i ∈ inds, index < i.costs.length) :
    ∃ o co, findOptimum inds false index = some o ∧ o ∈ inds ∧ o.costs[index]? = some co ∧
      ∀ i ∈ inds, ∀ c, i.costs[index]? = some c → c ≤ co := by
  obtain ⟨o, co, h1, h2, h3, h4⟩ := bestByCost_spec (fun cx cb => decide (cx > cb)) index
    (by intro a b; simp only [decide_eq_true_eq, decide_eq_false_iff_not]; omega)
    (by intro a b c; simp only [decide_eq_false_iff_not]; omega) inds hne hc
  refine ⟨o, co, by simpa [findOptimum, maxByCost] using h1, h2, h3, ?_⟩
  intro i hi c hci
  have := h4 i hi c hci
  simp only [decide_eq_false_iff_not] at this
  omega

/-! ## quality indicators -/

/-- The additive epsilon indicator of a non-empty computed set is a number `v`, and `v` is the least
`e ≥ 0` such that every reference point `r` has a computed point `c` with `c_i − r_i ≤ e` in every
coordinate: `v = max(0, max_r min_c max_i (c_i − r_i))`. -/
theorem epsAdd_max_min_max (n : Nat) (hn : 1 ≤ n) (ref comp : List Pt) (hr : Dim n ref)
    (hc : Dim n comp) (hne : comp ≠ []) :
    ∃ v, epsilonAdd ref comp = some (.fin v) ∧
      ∀ e, v ≤ e ↔ (0 ≤ e ∧ ∀ r ∈ ref, ∃ c ∈ comp, Within e c r) :=
  epsilonAdd_char hn ref comp hr hc hne

/-- The indicator is non-negative. -/
theorem epsAdd_nonneg (n : Nat) (hn : 1 ≤ n) (ref comp : List Pt) (hr : Dim n ref) (hc : Dim n comp)
    (v : Rat) (h : epsilonAdd ref comp = some (.fin v)) : 0 ≤ v := by
  by_cases hne : comp = []
  · subst hne
    cases ref with
    | nil =>
      have : v = 0 := by simpa [epsilonAdd, epsLoop, eq_comm] using h
      rw [this]
    | cons r rs =>
      -- no computed point: the inner minimum stays `inf`, so the result cannot be a number
      obtain ⟨out, g1, g2, _⟩ := epsLoop_spec hn [] hc (r :: rs) hr (.fin 0)
      rw [epsilonAdd, g1] at h
      cases h
      have := (g2 v).1 (by simp [LeE])
      obtain ⟨_, hall⟩ := this
      obtain ⟨c, hc', _⟩ := hall r (by simp)
      simp at hc'
  · obtain ⟨v', h1, h2⟩ := epsilonAdd_char hn ref comp hr hc hne
    rw [h1] at h
    cases h
    exact ((h2 v).1 (le_refl v)).1

/-- Computed set = reference set shifted by `d ≥ 0` in every coordinate (as sets: any order, repeated
points allowed) ⇒ the indicator equals `d`. -/
theorem epsAdd_shift (n : Nat) (hn : 1 ≤ n) (ref comp : List Pt) (d : Rat) (hd : 0 ≤ d)
    (hr : Dim n ref) (hne : ref ≠ [])
    (h1 : ∀ r ∈ ref, shift d r ∈ comp) (h2 : ∀ c ∈ comp, ∃ r ∈ ref, c = shift d r) :
    epsilonAdd ref comp = some (.fin d) :=
  epsilonAdd_shift hn ref comp d hd hr hne h1 h2

/-- Identical sets (same points, any order and multiplicity) ⇒ the indicator is zero. -/
theorem epsAdd_self (n : Nat) (hn : 1 ≤ n) (ref comp : List Pt) (hr : Dim n ref) (hne : ref ≠ [])
    (hsame : ∀ p, p ∈ comp ↔ p ∈ ref) : epsilonAdd ref comp = some (.fin 0) := by
  have hs : ∀ r : Pt, shift 0 r = r := by intro r; simp [shift]
  apply epsilonAdd_shift hn ref comp 0 (le_refl 0) hr hne
  · intro r hr'; rw [hs]; exact (hsame r).2 hr'
  · intro c hc; exact ⟨c, (hsame c).1 hc, (hs c).symm⟩

/-- `gd` is the mean over the computed points of the distance to the **nearest** reference point:
`gdSq` lists, for every computed point in order, a squared distance that is attained by some reference
point and is minimal over all of them (`gdReal` takes the square roots, sums and divides by the number
of computed points; the square root is monotone). -/
theorem gd_mean_of_nearest (n : Nat) (ref comp : List Pt) (hr : Dim n ref) (hc : Dim n comp)
    (sq : List Rat) (h : gdSq ref comp = some sq) :
    gdReal sq = (sq.map (fun (s : Rat) => Real.sqrt (s : ℝ))).sum / (comp.length : ℝ) ∧
    List.Forall₂ (fun c s => (∃ r ∈ ref, sqDist c r = some s) ∧
      ∀ r ∈ ref, ∀ s', sqDist c r = some s' →
        s ≤ s' ∧ Real.sqrt (s : ℝ) ≤ Real.sqrt (s' : ℝ)) comp sq := by
  obtain ⟨_, hf⟩ := gdSq_forall₂ ref comp sq h
  have hrne := ref_ne_nil_of_gdSq ref comp sq h
  refine ⟨by rw [gdReal, hf.length_eq], ?_⟩
  refine forall₂_of_mem hf ?_
  intro c hcm s hcs
  obtain ⟨m, g1, g2, g3⟩ := minSq_spec c (hc c hcm) ref hr hrne
  rw [g1] at hcs
  cases hcs
  refine ⟨g2, fun r hr' s' hs' => ⟨g3 r hr' s' hs', ?_⟩⟩
  exact Real.sqrt_le_sqrt (by exact_mod_cast g3 r hr' s' hs')

/-- Generational distance is zero iff every computed point is a reference point. -/
theorem gd_zero_iff (n : Nat) (ref comp : List Pt) (hr : Dim n ref) (hc : Dim n comp)
    (sq : List Rat) (h : gdSq ref comp = some sq) :
    gdReal sq = 0 ↔ ∀ c ∈ comp, c ∈ ref := by
  obtain ⟨hne, hf⟩ := gdSq_forall₂ ref comp sq h
  have hrne := ref_ne_nil_of_gdSq ref comp sq h
  have hlen : (sq.length : ℝ) ≠ 0 := by
    have : sq.length ≠ 0 := by
      rw [← hf.length_eq]; simpa using hne
    exact_mod_cast this
  have hf' : List.Forall₂ (fun c s => 0 ≤ s ∧ (s = 0 ↔ c ∈ ref)) comp sq := by
    refine forall₂_of_mem hf ?_
    intro c hcm s hcs
    have hcl := hc c hcm
    obtain ⟨m, g1, ⟨w, hw, hw'⟩, g3⟩ := minSq_spec c hcl ref hr hrne
    rw [g1] at hcs
    cases hcs
    obtain ⟨s0, e1, e2, e3⟩ := sqDist_spec c w (hcl.trans (hr w hw).symm)
    rw [e1] at hw'
    cases hw'
    refine ⟨e2, ?_, ?_⟩
    · intro hz; rw [e3.1 hz]; exact hw
    · intro hin
      obtain ⟨s1, k1, _, k3⟩ := sqDist_spec c c rfl
      have := g3 c hin s1 k1
      have : s1 = 0 := k3.2 rfl
      linarith
  unfold gdReal
  rw [div_eq_zero_iff]
  simp only [hlen, or_false]
  exact sum_sqrt_eq_zero_iff (fun c => c ∈ ref) comp sq hf'

/-! ## Non-vacuity: concrete instances -/

private def i0 : Ind := ⟨0, 2, [5, 1], [7]⟩
private def i1 : Ind := ⟨1, 0, [3, 4], [9]⟩
private def i2 : Ind := ⟨2, 2, [1, 1], [7]⟩
private def i3 : Ind := ⟨3, 0, [3, 2], [-4]⟩

-- unsorted tags, the default is the largest tag, recording order is kept
example : (populationQuery [i0, i1, i2, i3] (-1)).map (·.idx) = [0, 2] := by decide
example : (populationQuery [i0, i1, i2, i3] 0).map (·.idx) = [1, 3] := by decide
-- table: generations in order of first appearance, own vector ++ own costs
example : tableRows [i0, i1, i2, i3] = [[5, 1, 7], [1, 1, 7], [3, 4, 9], [3, 2, -4]] := by decide
example : tableT [i0, i1, i2, i3] = some [[5, 1, 3, 3], [1, 1, 4, 2], [7, 7, 9, -4]] := by decide
-- listings of generation 0 (a tie in parameter 0); the sorted variants are exercised by the driver
-- (`List.mergeSort` is defined by well-founded recursion and does not reduce in the kernel)
example : goalOnParameter [i0, i1, i2, i3] 0 0 0 false = some ([3, 3], [9, -4]) := by decide
example : parameterOnGoal [i0, i1, i2, i3] 0 1 0 false = some ([9, -4], [4, 2]) := by decide
example : parameterOnParameter [i0, i1, i2, i3] 1 0 2 false = some ([1, 1], [5, 1]) := by decide
example : onIndex (·.costs) [i0, i1, i2, i3] none 1 0 = some (2, [[9, -4]]) := by decide
-- optimum over all generations: minimised (first of the tie) and maximised
example : (findOptimum [i0, i1, i2, i3] true 0).map (·.idx) = some 3 := by decide
example : (findOptimum [i0, i1, i2, i3] false 0).map (·.idx) = some 1 := by decide
-- indicators: shifted copy (d = 1/2) and a proper max-min-max
example : epsilonAdd [[0, 1], [1, 0]] [[3/2, 1/2], [1/2, 3/2]] = some (.fin (1/2)) := by decide +kernel
example : epsilonAdd [[0, 1], [1, 0]] [[2, 2]] = some (.fin 2) := by decide +kernel
example : gdSq [[0, 0], [1, 1]] [[3, 4], [1, 1]] = some [13, 0] := by decide +kernel
example : Dim 2 [[0, 1], [1, 0]] := by intro p hp; simp at hp; rcases hp with rfl | rfl <;> rfl

end Artap.C17
