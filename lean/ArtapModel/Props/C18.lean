import ArtapModel.Proofs.Swarm
/-!
# C18 — swarm invariants: personal best, velocity clamp, position update, leader archive

Property theorems only.  Model: `Model/Swarm.lean` (reusing the C04 archive model);
helper lemmas: `Proofs/Swarm.lean`, `Proofs/Archive.lean`.  `KeyDom` is constrained Pareto
dominance on signed-cost vectors (costs, marker) from `Props/C04.lean`.
-/
namespace Artap.C18
open Artap Artap.Archive Artap.Swarm Artap.C01 Artap.C04

section pbest
variable {κ : Type} [LinearOrder κ]

theorem verdict_two_iff (cur best : List κ × Int) (hl : cur.1.length = best.1.length) :
    paretoCompare cur.1 best.1 cur.2 best.2 = 2 ↔ KeyDom best cur := by
  unfold KeyDom
  rw [← pareto_one_iff _ _ _ _ hl.symm, pareto_swap cur.1 best.1 cur.2 best.2]
  generalize paretoCompare cur.1 best.1 cur.2 best.2 = v
  constructor
  · intro h; subst h; rfl
  · intro h
    match v, h with
    | 2, _ => rfl

/-- The personal best is replaced by the new position unless the old best dominates it. -/
theorem pbest_replaced_unless_dominated (cur best : List κ × Int)
    (hl : cur.1.length = best.1.length) :
    (¬ KeyDom best cur → updatePBest cur best = cur) ∧
    (KeyDom best cur → updatePBest cur best = best) := by
  unfold updatePBest pbestReplaced
  rw [← verdict_two_iff cur best hl]
  constructor
  · intro h; simp [h]
  · intro h; simp [h]

/-- It is never replaced by a position it dominates: the new best is not dominated by the
old one. -/
theorem pbest_never_dominated_replacement (cur best : List κ × Int)
    (hl : cur.1.length = best.1.length) :
    ¬ KeyDom best (updatePBest cur best) := by
  by_cases h : KeyDom best cur
  · rw [(pbest_replaced_unless_dominated cur best hl).2 h]
    unfold KeyDom
    rintro (h1 | ⟨_, h1⟩)
    · omega
    · exact dominates_irrefl _ h1
  · rw [(pbest_replaced_unless_dominated cur best hl).1 h]; exact h

end pbest

theorem pyMin_eq (a b : Rat) : pyMin a b = min a b := by
  unfold pyMin
  by_cases h : b < a
  · simp [h, min_eq_right (le_of_lt h)]
  · simp [h, min_eq_left (not_lt.mp h)]

theorem pyMax_eq (a b : Rat) : pyMax a b = max a b := by
  unfold pyMax
  by_cases h : a < b
  · simp [h, max_eq_right (le_of_lt h)]
  · simp [h, max_eq_left (not_lt.mp h)]

/-- After the clamp every velocity component lies within ± half the parameter range; inside
that band the velocity is unchanged, outside it is put on the violated limit. -/
theorem velocity_clamped (v ub lb : Rat) (h : lb ≤ ub) :
    -((ub - lb) / 2) ≤ speedConstriction v ub lb ∧ speedConstriction v ub lb ≤ (ub - lb) / 2 ∧
    (-((ub - lb) / 2) ≤ v → v ≤ (ub - lb) / 2 → speedConstriction v ub lb = v) ∧
    ((ub - lb) / 2 < v → speedConstriction v ub lb = (ub - lb) / 2) ∧
    (v < -((ub - lb) / 2) → speedConstriction v ub lb = -((ub - lb) / 2)) := by
  have hd : 0 ≤ (ub - lb) / 2 := by linarith
  unfold speedConstriction
  simp only [pyMin_eq, pyMax_eq]
  refine ⟨le_max_right _ _, ?_, ?_, ?_, ?_⟩
  · apply max_le
    · exact min_le_right _ _
    · linarith
  · intro h1 h2
    rw [min_eq_left h2, max_eq_left h1]
  · intro h1
    rw [min_eq_right (le_of_lt h1), max_eq_left (by linarith)]
  · intro h1
    rw [min_eq_left (by linarith), max_eq_right (le_of_lt h1)]

/-- A position update puts a coordinate that would leave the box onto the violated bound and
multiplies that velocity component by `f` (`-1`: reversed, `1/1000`: damped); inside the box
position and velocity are the plain sum and the old velocity.  The new coordinate is always
in the box, however far outside `x + v` is. -/
theorem position_on_bound_and_velocity (f x v lb ub : Rat) (h : lb ≤ ub) :
    (ub < x + v → updatePosition f x v lb ub = (ub, v * f)) ∧
    (x + v < lb → updatePosition f x v lb ub = (lb, v * f)) ∧
    (lb ≤ x + v → x + v ≤ ub → updatePosition f x v lb ub = (x + v, v)) ∧
    lb ≤ (updatePosition f x v lb ub).1 ∧ (updatePosition f x v lb ub).1 ≤ ub := by
  unfold updatePosition
  by_cases h1 : ub < x + v
  · have h2 : ¬ ub < lb := not_lt.mpr h
    have h3 : ¬ x + v < lb := by intro h4; linarith
    simp [h1, h2, h3, h]
  · by_cases h2 : x + v < lb
    · simp [h1, h2, h]
    · simp [h1, h2, not_lt.mp h1, not_lt.mp h2]

/-- the velocity factor at a violated bound: reversed for OMOPSO and PSOGA, damped by 0.001
for SMPSO -/
theorem position_modes :
    factorOf "OMOPSO" = some (-1) ∧ factorOf "PSOGA" = some (-1) ∧
    factorOf "SMPSO" = some (1 / 1000) := ⟨rfl, rfl, rfl⟩

section leaders
variable {α : Type} {V : α → Prop} {cmp : α → α → Option Nat} {same : α → α → Bool}
  {Dom : α → α → Prop}

/-- For every sequence of generations (each one offers any list of valid particles to the
leader archive and truncates it to `n`), starting from any antichain of leaders, the leader
archive never raises, never exceeds `n`, and its members stay mutually non-dominated with
pairwise different signed costs — for every comparator satisfying `CmpSpec`. -/
theorem leaders_bounded_and_nondominated (S : CmpSpec V cmp same Dom) (feat : α → Int) (n : Nat)
    (sws : List (List α)) (leaders : List α) (hV : ∀ sw ∈ sws, ∀ x ∈ sw, V x)
    (hA : Antichain V same Dom leaders) :
    ∃ t, generations cmp same feat n leaders sws = some t ∧ t.length = sws.length ∧
      ∀ l ∈ t, l.length ≤ n ∧ Antichain V same Dom l :=
  generations_spec S feat n hV hA

end leaders

/-- The leader archive of the code (`Archive()`: ε comparator, here with any positive
epsilons), from the empty archive: at most `n` leaders after every generation… -/
theorem leaders_bounded (eps : List Rat) (he : PosEps eps) (m n : Nat)
    (sws : List (List (Ind Rat))) (hV : ∀ sw ∈ sws, ∀ x ∈ sw, x.costs.length = m ∧ 0 ≤ x.marker) :
    ∃ t, generations (epsCmp eps) sameCosts Ind.feat n [] sws = some t ∧ t.length = sws.length ∧
      ∀ l ∈ t, l.length ≤ n := by
  obtain ⟨t, h1, h2, h3⟩ := generations_spec (eps_cmpSpec eps he m) Ind.feat n (sws := sws)
    (leaders := []) hV ⟨by simp, List.Pairwise.nil⟩
  exact ⟨t, h1, h2, fun l hl => (h3 l hl).1⟩

/-- … which are mutually non-dominated and carry pairwise different signed-cost vectors. -/
theorem leaders_nondominated (eps : List Rat) (he : PosEps eps) (m n : Nat)
    (sws : List (List (Ind Rat))) (hV : ∀ sw ∈ sws, ∀ x ∈ sw, x.costs.length = m ∧ 0 ≤ x.marker) :
    ∃ t, generations (epsCmp eps) sameCosts Ind.feat n [] sws = some t ∧
      ∀ l ∈ t, l.Pairwise (fun a b => ¬ KeyDom (key a) (key b) ∧ ¬ KeyDom (key b) (key a) ∧
        key a ≠ key b) := by
  obtain ⟨t, h1, _, h3⟩ := generations_spec (eps_cmpSpec eps he m) Ind.feat n (sws := sws)
    (leaders := []) hV ⟨by simp, List.Pairwise.nil⟩
  refine ⟨t, h1, fun l hl => ?_⟩
  refine (h3 l hl).2.2.imp ?_
  intro a b h
  refine ⟨h.1, h.2.1, fun hk => ?_⟩
  have := (key_same a b).2 hk
  rw [h.2.2.1] at this
  exact absurd this (by simp)

/-! ## Non-vacuity -/

example : updatePBest ([1, 5], (0 : Int)) ([2, 3], 0) = ([(1 : Int), 5], 0) := by decide
example : updatePBest ([3, 5], (0 : Int)) ([2, 3], 0) = ([(2 : Int), 3], 0) := by decide
example : speedConstriction 7 2 (-1) = 3 / 2 ∧ speedConstriction (-7) 2 (-1) = -(3 / 2) ∧
    speedConstriction (1 / 3) 2 (-1) = 1 / 3 := by decide +kernel
example : updatePosition (-1) 1 5 0 2 = (2, -5) ∧ updatePosition (1 / 1000) 0 (-9) (-1) 1 = (-1, -9 / 1000)
    ∧ updatePosition (-1) 1 (1 / 2) 0 2 = (3 / 2, 1 / 2) := by decide +kernel
-- hypotheses of `leaders_bounded` / `leaders_nondominated`: two generations of valid particles
example : ∀ sw ∈ [[(⟨0, [1, 5], 1, 3⟩ : Ind Rat), ⟨1, [3, 3], 1, 9⟩, ⟨2, [2, 4], 1, 5⟩],
    [⟨3, [0, 9], 1, 1⟩, ⟨4, [2, 2], 1, 7⟩]], ∀ x ∈ sw, x.costs.length = 2 ∧ 0 ≤ x.marker := by
  decide
-- the additions of the first generation (before the truncation), computed by the model
example :
    (addAll (epsCmp [1/10, 1/10]) sameCosts []
      [⟨0, [1, 5], 1, 3⟩, ⟨1, [3, 3], 1, 9⟩, ⟨2, [2, 4], 1, 5⟩, ⟨4, [2, 2], 1, 7⟩]).map
      (fun r => (r.1.map Ind.id, r.2)) = some ([0, 4], [true, true, true, true]) := by
  decide +kernel

end Artap.C18
