import ArtapModel.Proofs.Swarm
import ArtapModel.Proofs.SwarmRun
/-!
# C18 — swarm invariants: personal best, velocity clamp, position update, leader archive

Property theorems only.  Model: `Model/Swarm.lean` (reusing the C04 archive model);
helper lemmas: `Proofs/Swarm.lean`, `Proofs/Archive.lean`.  `KeyDom` is constrained Pareto
dominance on signed-cost vectors (costs, marker) from `Props/C04.lean`.
-/
namespace Artap.C18
open Artap Artap.Archive Artap.Swarm Artap.C01 Artap.C04

section pbest
variable {κ : Type} [LinearOrder κ]

theorem verdict_two_iff (cur best : List κ × Int) (hl : cur.1.length = best.1.length) :
    paretoCompare cur.1 best.1 cur.2 best.2 = 2 ↔ KeyDom best cur := by
  unfold KeyDom
  rw [← pareto_one_iff _ _ _ _ hl.symm, pareto_swap cur.1 best.1 cur.2 best.2]
  generalize paretoCompare cur.1 best.1 cur.2 best.2 = v
  constructor
  · intro h; subst h; rfl
  · intro h
    match v, h with
    | 2, _ => rfl

/-- The personal best is replaced by the new position unless the old best dominates it. -/
theorem pbest_replaced_unless_dominated (cur best : List κ × Int)
    (hl : cur.1.length = best.1.length) :
    (¬ KeyDom best cur → updatePBest cur best = cur) ∧
    (KeyDom best cur → updatePBest cur best = best) := by
  unfold updatePBest pbestReplaced
  rw [← verdict_two_iff cur best hl]
  constructor
  · intro h; simp [h]
  · intro h; simp [h]

/-- It is never replaced by a position it dominates: the new best is not dominated by the
old one. -/
theorem pbest_never_dominated_replacement (cur best : List κ × Int)
    (hl : cur.1.length = best.1.length) :
    ¬ KeyDom best (updatePBest cur best) := by
  by_cases h : KeyDom best cur
  · rw [(pbest_replaced_unless_dominated cur best hl).2 h]
    unfold KeyDom
    rintro (h1 | ⟨_, h1⟩)
    · omega
    · exact dominates_irrefl _ h1
  · rw [(pbest_replaced_unless_dominated cur best hl).1 h]; exact h

end pbest

theorem pyMin_eq (a b : Rat) : pyMin a b = min a b := by
  unfold pyMin
  by_cases h : b < a
  · simp [h, min_eq_right (le_of_lt h)]
  · simp [h, min_eq_left (not_lt.mp h)]

theorem pyMax_eq (a b : Rat) : pyMax a b = max a b := by
  unfold pyMax
  by_cases h : a < b
  · simp [h, max_eq_right (le_of_lt h)]
  · simp [h, max_eq_left (not_lt.mp h)]

/-- After the clamp every velocity component lies within ± half the parameter range; inside
that band the velocity is unchanged, outside it is put on the violated limit. -/
theorem velocity_clamped (v ub lb : Rat) (h : lb ≤ ub) :
    -((ub - lb) / 2) ≤ speedConstriction v ub lb ∧ speedConstriction v ub lb ≤ (ub - lb) / 2 ∧
    (-((ub - lb) / 2) ≤ v → v ≤ (ub - lb) / 2 → speedConstriction v ub lb = v) ∧
    ((ub - lb) / 2 < v → speedConstriction v ub lb = (ub - lb) / 2) ∧
    (v < -((ub - lb) / 2) → speedConstriction v ub lb = -((ub - lb) / 2)) := by
  have hd : 0 ≤ (ub - lb) / 2 := by linarith
  unfold speedConstriction
  simp only [pyMin_eq, pyMax_eq]
  refine ⟨le_max_right _ _, ?_, ?_, ?_, ?_⟩
  · apply max_le
    · exact min_le_right _ _
    · linarith
  · intro h1 h2
    rw [min_eq_left h2, max_eq_left h1]
  · intro h1
    rw [min_eq_right (le_of_lt h1), max_eq_left (by linarith)]
  · intro h1
    rw [min_eq_left (by linarith), max_eq_right (le_of_lt h1)]

/-- A position update puts a coordinate that would leave the box onto the violated bound and
multiplies that velocity component by `f` (`-1`: reversed, `1/1000`: damped); inside the box
position and velocity are the plain sum and the old velocity.  The new coordinate is always
in the box, however far outside `x + v` is. -/
theorem position_on_bound_and_velocity (f x v lb ub : Rat) (h : lb ≤ ub) :
    (ub < x + v → updatePosition f x v lb ub = (ub, v * f)) ∧
    (x + v < lb → updatePosition f x v lb ub = (lb, v * f)) ∧
    (lb ≤ x + v → x + v ≤ ub → updatePosition f x v lb ub = (x + v, v)) ∧
    lb ≤ (updatePosition f x v lb ub).1 ∧ (updatePosition f x v lb ub).1 ≤ ub := by
  unfold updatePosition
  by_cases h1 : ub < x + v
  · have h2 : ¬ ub < lb := not_lt.mpr h
    have h3 : ¬ x + v < lb := by intro h4; linarith
    simp [h1, h2, h3, h]
  · by_cases h2 : x + v < lb
    · simp [h1, h2, h]
    · simp [h1, h2, not_lt.mp h1, not_lt.mp h2]

/-- the velocity factor at a violated bound: reversed for OMOPSO and PSOGA, damped by 0.001
for SMPSO -/
theorem position_modes :
    factorOf "OMOPSO" = some (-1) ∧ factorOf "PSOGA" = some (-1) ∧
    factorOf "SMPSO" = some (1 / 1000) := ⟨rfl, rfl, rfl⟩

section leaders
variable {α : Type} {V : α → Prop} {cmp : α → α → Option Nat} {same : α → α → Bool}
  {Dom : α → α → Prop}

/-- For every sequence of generations (each one offers any list of valid particles to the
leader archive and truncates it to `n`), starting from any antichain of leaders, the leader
archive never raises, never exceeds `n`, and its members stay mutually non-dominated with
pairwise different signed costs — for every comparator satisfying `CmpSpec`. -/
theorem leaders_bounded_and_nondominated (S : CmpSpec V cmp same Dom) (feat : α → Int) (n : Nat)
    (sws : List (List α)) (leaders : List α) (hV : ∀ sw ∈ sws, ∀ x ∈ sw, V x)
    (hA : Antichain V same Dom leaders) :
    ∃ t, generations cmp same feat n leaders sws = some t ∧ t.length = sws.length ∧
      ∀ l ∈ t, l.length ≤ n ∧ Antichain V same Dom l :=
  generations_spec S feat n hV hA

end leaders

/-- The leader archive of the code (`Archive()`: ε comparator, here with any positive
epsilons), from the empty archive: at most `n` leaders after every generation… -/
theorem leaders_bounded (eps : List Rat) (he : PosEps eps) (m n : Nat)
    (sws : List (List (Archive.Ind Rat))) (hV : ∀ sw ∈ sws, ∀ x ∈ sw, x.costs.length = m ∧ 0 ≤ x.marker) :
    ∃ t, generations (epsCmp eps) sameCosts Ind.feat n [] sws = some t ∧ t.length = sws.length ∧
      ∀ l ∈ t, l.length ≤ n := by
  obtain ⟨t, h1, h2, h3⟩ := generations_spec (eps_cmpSpec eps he m) Ind.feat n (sws := sws)
    (leaders := []) hV ⟨by simp, List.Pairwise.nil⟩
  exact ⟨t, h1, h2, fun l hl => (h3 l hl).1⟩

/-- … which are mutually non-dominated and carry pairwise different signed-cost vectors. -/
theorem leaders_nondominated (eps : List Rat) (he : PosEps eps) (m n : Nat)
    (sws : List (List (Archive.Ind Rat))) (hV : ∀ sw ∈ sws, ∀ x ∈ sw, x.costs.length = m ∧ 0 ≤ x.marker) :
    ∃ t, generations (epsCmp eps) sameCosts Ind.feat n [] sws = some t ∧
      ∀ l ∈ t, l.Pairwise (fun a b => ¬ KeyDom (key a) (key b) ∧ ¬ KeyDom (key b) (key a) ∧
        key a ≠ key b) := by
  obtain ⟨t, h1, _, h3⟩ := generations_spec (eps_cmpSpec eps he m) Ind.feat n (sws := sws)
    (leaders := []) hV ⟨by simp, List.Pairwise.nil⟩
  refine ⟨t, h1, fun l hl => ?_⟩
  refine (h3 l hl).2.2.imp ?_
  intro a b h
  refine ⟨h.1, h.2.1, fun hk => ?_⟩
  have := (key_same a b).2 hk
  rw [h.2.2.1] at this
  exact absurd this (by simp)

/-! ## Non-vacuity -/

example : updatePBest ([1, 5], (0 : Int)) ([2, 3], 0) = ([(1 : Int), 5], 0) := by decide
example : updatePBest ([3, 5], (0 : Int)) ([2, 3], 0) = ([(2 : Int), 3], 0) := by decide
example : speedConstriction 7 2 (-1) = 3 / 2 ∧ speedConstriction (-7) 2 (-1) = -(3 / 2) ∧
    speedConstriction (1 / 3) 2 (-1) = 1 / 3 := by decide +kernel
example : updatePosition (-1) 1 5 0 2 = (2, -5) ∧ updatePosition (1 / 1000) 0 (-9) (-1) 1 = (-1, -9 / 1000)
    ∧ updatePosition (-1) 1 (1 / 2) 0 2 = (3 / 2, 1 / 2) := by decide +kernel
-- hypotheses of `leaders_bounded` / `leaders_nondominated`: two generations of valid particles
example : ∀ sw ∈ [[(⟨0, [1, 5], 1, 3⟩ : Archive.Ind Rat), ⟨1, [3, 3], 1, 9⟩, ⟨2, [2, 4], 1, 5⟩],
    [⟨3, [0, 9], 1, 1⟩, ⟨4, [2, 2], 1, 7⟩]], ∀ x ∈ sw, x.costs.length = 2 ∧ 0 ≤ x.marker := by
  decide
-- the additions of the first generation (before the truncation), computed by the model
example :
    (addAll (epsCmp [1/10, 1/10]) sameCosts []
      [⟨0, [1, 5], 1, 3⟩, ⟨1, [3, 3], 1, 9⟩, ⟨2, [2, 4], 1, 5⟩, ⟨4, [2, 2], 1, 7⟩]).map
      (fun r => (r.1.map Ind.id, r.2)) = some ([0, 4], [true, true, true, true]) := by
  decide +kernel

/-! ## Run level: the composed OMOPSO / SMPSO generation loops (`Model/SwarmRun.lean`)

`swarmRun cfg G init steps` is `OMOPSO.run()` (`cfg.alg = .omopso`, `omopsoRun`) or `SMPSO.run()`
(`cfg.alg = .smpso`, `smpsoRun`) with `max_population_number = G` on the initial vectors `init`;
`steps` are the oracles of the iterations (per particle: the chosen leader, `r1 r2 c1 c2`, the value
of `khi`, one inertia draw per coordinate; per mutated particle which coordinates the mutator hits
and the values it hands to `clip`), `cfg.env` is the evaluator's oracle (objective, fault pattern,
re-rolled vectors).  All theorems hold for **every** population size, number of generations, box,
oracle and fault pattern, whenever the run ends (`= some r`; `none` = an exception ends the real
run, or the oracles do not fit it).  `r.history` holds every phase result of every generation. -/
section RunModel
open Artap.SwarmRun Artap.Eval Artap.Variation

/-- `OMOPSO.run()` and `SMPSO.run()` are the two instances of `swarmRun`. -/
theorem swarm_run_instances (cfg : Cfg) (G : Nat) (init : List Vec) (steps : List StepOracle) :
    omopsoRun cfg G init steps = swarmRun { cfg with alg := .omopso } G init steps ∧
    smpsoRun cfg G init steps = swarmRun { cfg with alg := .smpso } G init steps := ⟨rfl, rfl⟩

/-- **Every design evaluated during an OMOPSO / SMPSO run lies inside the box.**  Box with
`lb ≤ ub` (and tolerances `≥ 0`), initial vectors and re-rolled vectors within the generator's
tolerance.  In every generation `≥ 1`: every position after `update_position` and every position
handed to the evaluator (after `turbulence`) lies *exactly* inside `[lb, ub]`, with the dimension
of the box; every evaluated / recorded position does too, unless it was re-rolled by the sampler
after a failed call (then it is within the tolerance), and always when the objective never fails;
every recorded design and every vector the objective was ever called with is within the tolerance. -/
theorem swarm_run_in_box (cfg : Cfg) (G : Nat) (init : List Vec) (steps : List StepOracle) (r : RunResult)
    (hb : ∀ p ∈ cfg.params, p.lb ≤ p.ub ∧ 0 ≤ p.tol)
    (hinit : ∀ v ∈ init, inBox cfg.params v = true)
    (hre : ∀ k n, inBox cfg.params (cfg.env.reroll k n) = true)
    (h : swarmRun cfg G init steps = some r) :
    (∀ g ∈ r.history, 1 ≤ g.tag →
      (∀ p ∈ g.posAfter, inBoxExact cfg.params p.d.vec = true) ∧
      (∀ p ∈ g.handed, inBoxExact cfg.params p.d.vec = true) ∧
      (∀ p ∈ g.evaluated, inBoxExact cfg.params p.d.vec = true ∨ ∃ k n, p.d.vec = cfg.env.reroll k n)) ∧
    (∀ p ∈ r.recorded, 1 ≤ p.tag →
      (inBoxExact cfg.params p.d.vec = true ∨ ∃ k n, p.d.vec = cfg.env.reroll k n) ∧
      ((∀ k n v t, cfg.env.obj k n v ≠ .transient t) → inBoxExact cfg.params p.d.vec = true)) ∧
    (∀ p ∈ r.recorded, inBox cfg.params p.d.vec = true) ∧
    (∀ e ∈ r.world.log, inBox cfg.params e.2 = true) := by
  obtain ⟨s, I, hrec, _, hw, _, _, hh⟩ := swarmRun_induct (cfg := cfg) (fun _ s => BoxInv cfg s)
    (fun s0 h0 => box_init hre hinit h0) (fun it o s s' I hs => box_step hb hre I hs) h
  rw [hrec, hw, hh]
  refine ⟨fun g hg h1 => ?_, fun p hp h1 => I.recd p hp h1, I.recAll, I.log⟩
  obtain ⟨a, b, c⟩ := I.hist g hg h1
  exact ⟨a, b, fun p hp => (c p hp).1⟩

/-- **After every velocity update every component is within ± half the parameter range**: for
every generation and every particle, the velocity that `update_velocity` leaves has one component
per coordinate and `−(ub−lb)/2 ≤ vᵢ ≤ (ub−lb)/2` – whatever the draws, the leader, `khi` and the
inertia weights are. -/
theorem swarm_run_velocity_clamped (cfg : Cfg) (G : Nat) (init : List Vec) (steps : List StepOracle)
    (r : RunResult) (hb : ∀ p ∈ cfg.params, p.lb ≤ p.ub) (h : swarmRun cfg G init steps = some r) :
    ∀ g ∈ r.history, ∀ p ∈ g.velAfter, p.vel.length = p.d.vec.length ∧
      ∀ pc ∈ List.zip cfg.params p.vel, -((pc.1.ub - pc.1.lb) / 2) ≤ pc.2 ∧ pc.2 ≤ (pc.1.ub - pc.1.lb) / 2 := by
  obtain ⟨s, I, _, _, _, _, _, hh⟩ := swarmRun_induct (cfg := cfg) (fun _ s => VelInv cfg s)
    (fun s0 h0 => vel_init h0) (fun it o s s' I hs => vel_step hb I hs) h
  rw [hh]
  exact I

/-- **Budget and generations.**  `N` initial vectors: a run that ends recorded generations
`0..G` of exactly `N` particles each (nothing under another tag), made `N·(G+1)` successful
objective evaluations (every other call failed and is on `Problem.failed`), and went through
exactly `G + 1` generations (tags `0, 1, …, G` in this order), each of which handed `N` particles
to the evaluator. -/
theorem swarm_run_budget_generations (cfg : Cfg) (G : Nat) (init : List Vec) (steps : List StepOracle)
    (r : RunResult) (hN : init.length = cfg.N) (h : swarmRun cfg G init steps = some r) :
    r.evals = cfg.N * (G + 1) ∧ r.world.log.length = r.world.failed.length + cfg.N * (G + 1) ∧
    (∀ p ∈ r.recorded, p.tag ≤ G) ∧ (∀ t, t ≤ G → (genP t r.recorded).length = cfg.N) ∧
    r.history.map (·.tag) = List.range (G + 1) ∧
    (∀ g ∈ r.history, g.handed.length = cfg.N ∧ g.evaluated.length = cfg.N ∧ g.swarm.length = cfg.N) ∧
    r.swarm.length = cfg.N := by
  obtain ⟨s, I, hrec, hev, hw, hsw, _, hh⟩ := swarmRun_induct (cfg := cfg) (fun k s => BookInv cfg k s)
    (fun s0 h0 => book_init hN h0) (fun it o s s' I hs => book_step I hs) h
  rw [hrec, hev, hw, hh, hsw]
  refine ⟨?_, I.count, I.tags, I.sizes, I.htags, I.hsizes, I.size⟩
  unfold Nsga2.okCalls
  have := I.count
  omega

/-- **Leaders.**  Positive ε of the leader archive, every successful objective call returns `m`
costs: after every generation (the initial one included) the leader archive has at most `N`
members, all evaluated, mutually non-dominated (constrained Pareto dominance on their signed
costs) and with pairwise different signed-cost vectors – lift of
`leaders_bounded_and_nondominated` to the run, with the comparator hypotheses discharged. -/
theorem swarm_run_leaders (cfg : Cfg) (G : Nat) (init : List Vec) (steps : List StepOracle) (r : RunResult)
    (m : Nat) (he : PosEps cfg.eps) (hc : ∀ k n v c, cfg.env.obj k n v = .ok c → c.length = m)
    (h : swarmRun cfg G init steps = some r) :
    ∀ g ∈ r.history, g.leaders.length ≤ cfg.N ∧
      (∀ a ∈ g.leaders, ∃ mk, a.d.marker = some mk ∧ 0 ≤ mk) ∧
      g.leaders.Pairwise (fun a b =>
        ¬ KeyDom (key (toInd a)) (key (toInd b)) ∧ ¬ KeyDom (key (toInd b)) (key (toInd a)) ∧
        (a.d.signed, a.d.marker) ≠ (b.d.signed, b.d.marker)) := by
  obtain ⟨s, I, _, _, _, _, _, hh⟩ := swarmRun_induct (cfg := cfg)
    (fun _ s => LeadInv cfg (signedLen cfg.env m) s)
    (fun s0 h0 => lead_init he hc h0) (fun it o s s' I hs => lead_step he hc I hs) h
  rw [hh]
  intro g hg
  obtain ⟨hlen, hV, hP⟩ := I.hist g hg
  refine ⟨hlen, fun a ha => ?_, hP.imp ?_⟩
  · obtain ⟨mk, h1, h2, _⟩ := hV a ha
    exact ⟨mk, h1, h2⟩
  · intro a b hab
    refine ⟨hab.1, hab.2.1, fun e => ?_⟩
    have hs : sameP a b = true := by
      simp only [Prod.mk.injEq] at e
      simp [sameP, e.1, e.2]
    rw [hab.2.2.1] at hs
    exact absurd hs (by simp)

/-- **Personal best.**  Every successful objective call returns `m` costs.  At every iteration
and for every particle: with `cur` = (signed costs, marker) of the evaluated position and `b` the
personal best it carried (copied from the previous generation), `update_particle_best` replaces
best cost *and* best vector by the new position unless the old best dominates it, in which case
both are kept – lift of `pbest_replaced_unless_dominated` to every step of the run.  In
generation `0` the personal best is the particle's own evaluated position (`init_pbest`). -/
theorem swarm_run_pbest (cfg : Cfg) (G : Nat) (init : List Vec) (steps : List StepOracle) (r : RunResult)
    (m : Nat) (hc : ∀ k n v c, cfg.env.obj k n v = .ok c → c.length = m)
    (h : swarmRun cfg G init steps = some r) :
    (∀ g ∈ r.history, 1 ≤ g.tag → List.Forall₂ (fun e q => ∃ mk b, e.d.marker = some mk ∧ e.best = some b ∧
      (¬ KeyDom b (e.d.signed, mk) → q.best = some (e.d.signed, mk) ∧ q.bestVec = e.d.vec) ∧
      (KeyDom b (e.d.signed, mk) → q.best = some b ∧ q.bestVec = e.bestVec)) g.evaluated g.pbest) ∧
    (∀ g ∈ r.history, g.tag = 0 → g.pbest = g.evaluated.map initPbest) := by
  obtain ⟨s, I, _, _, _, _, _, hh⟩ := swarmRun_induct (cfg := cfg)
    (fun _ s => PbInv (signedLen cfg.env m) s)
    (fun s0 h0 => pb_init hc h0) (fun it o s s' I hs => pb_step hc I hs) h
  rw [hh]
  refine ⟨fun g hg h1 => (I.hist g hg h1).imp ?_, I.hist0⟩
  rintro e q ⟨mk, b, h1, h2, h3, h4, h5⟩
  have key := pbest_replaced_unless_dominated (e.d.signed, mk) b h3
  refine ⟨mk, b, h1, h2, fun hn => ?_, fun hd => ?_⟩
  · have e1 := key.1 hn
    have hr : Swarm.pbestReplaced (e.d.signed, mk) b = true := by
      by_contra hf
      apply hn
      apply (verdict_two_iff (e.d.signed, mk) b h3).1
      simpa [Swarm.pbestReplaced] using hf
    rw [h4, h5, e1, hr]; simp
  · have e1 := key.2 hd
    have hr : Swarm.pbestReplaced (e.d.signed, mk) b = false := by
      have h2' := (verdict_two_iff (e.d.signed, mk) b h3).2 hd
      simp [Swarm.pbestReplaced, h2']
    rw [h4, h5, e1, hr]; simp

/-- **PSOGA, particle-swarm half of an iteration** (`update_velocity` with PSOGA's own formula,
then `update_position`): for every swarm, leader archive and draws, whenever the two phases end,
no particle is lost, every velocity component after `update_velocity` is within ± half the
parameter range, and every position after `update_position` lies exactly inside the box (for
positions of the box's dimension). -/
theorem psoga_flight_clamped_and_in_box (params : List Param) (leaders ps : List Particle) (ds : List VelDraw)
    (r : List Particle × List Particle) (hb : ∀ p ∈ params, p.lb ≤ p.ub)
    (h : psogaFlight params leaders ps ds = some r) :
    r.1.length = ps.length ∧ r.2.length = ps.length ∧
    (∀ v ∈ r.1, v.vel.length = v.d.vec.length ∧
      ∀ pc ∈ List.zip params v.vel, -((pc.1.ub - pc.1.lb) / 2) ≤ pc.2 ∧ pc.2 ≤ (pc.1.ub - pc.1.lb) / 2) ∧
    ((∀ p ∈ ps, p.d.vec.length = params.length) → ∀ q ∈ r.2, inBoxExact params q.d.vec = true) :=
  psogaFlight_spec hb h

/-! ### Non-vacuity of the run-model theorems

A concrete run with `N = 1`, `G = 2` in the box `[0, 1]`, one objective `f x = [x₀]`: the initial
particle is at `1/2`; iteration 0 moves it to `11/20`, the first call of the new design object fails
and it is re-rolled to `1/4` (the re-roll alternative of `swarm_run_in_box`), which replaces the
personal best; iteration 1 moves it to `11/40`, turbulence hits the coordinate with the value `7`,
which `clip` puts on the bound `1` – dominated by the personal best `1/4`, which is kept.  Both
algorithms: 3 = N·(G+1) successful evaluations out of 4 calls, tags `0 1 2`.  (Populations whose
leader archive or crowding sort holds two or more members cannot be evaluated by the kernel –
`List.mergeSort` is defined by well-founded recursion – so the concrete instance is a one-particle swarm.) -/
section NonVacuity

def exEnv : Env :=
  { obj := fun key n v => if key = 1 ∧ n = 0 then .transient 0 else .ok [v.headD 0],
    reroll := fun _ _ => [1 / 4], cons := fun _ => [], signs := [1], rnd := fun _ y => y }

def exCfg (a : Alg) : Cfg :=
  { alg := a, env := exEnv, prec := 7, N := 1, params := [⟨0, 1, 0⟩], eps := [1 / 10, 1 / 10], epsA := [1 / 100] }

def exDraw (l : List Rat) : VelDraw :=
  { leader := (l, 1), r1 := 1 / 2, r2 := 1 / 2, c1 := 2, c2 := 2, khi := 1, w := [1 / 10] }

def exSteps : List StepOracle :=
  [{ vel := [exDraw [1 / 2]], turb := [[⟨false, 0⟩]] }, { vel := [exDraw [1 / 4]], turb := [[⟨true, 7⟩]] }]

/-- the recorded designs `(tag, position)` and the personal bests after every generation -/
def exSummary (r : RunResult) : Bool :=
  r.evals == 3 && r.world.log.length == 4 &&
  r.recorded.map (fun p => (p.tag, p.d.vec)) == [(0, [1 / 2]), (1, [1 / 4]), (2, [1])] &&
  r.history.map (fun g => g.pbest.map (·.best)) ==
    [[some ([1 / 2], 1)], [some ([1 / 4], 1)], [some ([1 / 4], 1)]] &&
  r.history.map (fun g => g.velAfter.map (·.vel)) == [[], [[1 / 20]], [[1 / 40]]] &&
  r.history.map (fun g => g.leaders.map (·.d.signed)) == [[[1 / 2]], [[1 / 4]], [[1 / 4]]]

example : (swarmRun (exCfg .smpso) 2 [[1 / 2]] exSteps).map exSummary = some true := by decide +kernel
example : (swarmRun (exCfg .omopso) 2 [[1 / 2]] exSteps).map exSummary = some true := by decide +kernel

-- the hypotheses of the five theorems on this instance
example (a : Alg) : (∀ p ∈ (exCfg a).params, p.lb ≤ p.ub ∧ 0 ≤ p.tol) ∧
    (∀ v ∈ [[(1 / 2 : Rat)]], inBox (exCfg a).params v = true) ∧
    (∀ k n, inBox (exCfg a).params ((exCfg a).env.reroll k n) = true) ∧
    [[(1 / 2 : Rat)]].length = (exCfg a).N := by
  have h1 : inBox [⟨0, 1, 0⟩] [1 / 4] = true := by decide +kernel
  have h2 : inBox [⟨0, 1, 0⟩] [1 / 2] = true := by decide +kernel
  have h3 : (0 : Rat) ≤ 1 ∧ (0 : Rat) ≤ 0 := by decide +kernel
  refine ⟨?_, ?_, fun _ _ => h1, rfl⟩
  · intro p hp
    simp only [exCfg, List.mem_singleton] at hp
    subst hp
    exact h3
  · intro v hv
    simp only [List.mem_singleton] at hv
    subst hv
    exact h2

example (a : Alg) : PosEps (exCfg a).eps ∧ ∀ k n v c, (exCfg a).env.obj k n v = .ok c → c.length = 1 := by
  refine ⟨⟨by simp [exCfg], ?_⟩, ?_⟩
  · intro e he
    simp only [exCfg, List.mem_cons, List.not_mem_nil, or_false] at he
    rcases he with rfl | rfl <;> decide +kernel
  · intro k n v c h
    simp only [exCfg, exEnv] at h
    split at h
    · cases h
    · cases h; rfl

-- PSOGA flight of the one-particle swarm at `1/2` towards itself: `v = 1·(1/2)`, clamped to `1/2`; the sum `1` is on the bound
example : (psogaFlight [⟨0, 1, 0⟩] [{ freshParticle 9 7 [1 / 2] with d := { fresh 9 7 [1 / 2] with signed := [1 / 2], marker := some 1 } }]
    [{ freshParticle 0 7 [1 / 2] with bestVec := [1 / 2] }] [exDraw [1 / 2]]).map
    (fun r => (r.1.map (·.vel), r.2.map (·.d.vec))) = some ([[1 / 2]], [[1]]) := by decide +kernel

end NonVacuity

end RunModel

end Artap.C18
