import ArtapModel.Proofs.BenchMO
/-!
# C16 — Multi-objective benchmarks satisfy the defining identities of their families

Property theorems only.  Model: `Model/BenchMO.lean` (each formula once over `Num α`, mirroring
`artap/benchmark_pareto.py`); all theorems are about its interpretation at `α = ℝ`
(`Proofs/NumReal.lean`).  Helper lemmas and the plain real definitions
`g1` (DTLZ1/3 distance function), `g2` (DTLZ2/4), `sqSum f = Σ f_i²`, `InBox01` are in
`Proofs/BenchMO.lean`.

Quantifiers.  `m` objectives, `x` any list of reals.  The hypotheses `1 ≤ m`, `m ≤ x.length + 1`
(DTLZ1: `k = n - m + 1 ≥ 0`, this contains the statement's `m ≥ 2`, `k ≥ 1`) and `10 ≤ x.length`
(DTLZ2–4 read the last 10 variables; contains the statement's `n = m + 9`, see `dtlz2_norm_m9`) are exactly
the conditions under which the Python code does not raise; they are not weakenings.  The identities
hold at **every** real point, the box is needed only for the sign clauses.
-/
namespace Artap.C16
open Artap Artap.BenchMO

/-- DTLZ1: the objectives add up to `(1+g)/2`, `g` the distance function of the last `n-m+1` variables. -/
theorem dtlz1_sum (m : ℕ) (x : List ℝ) (hm : 1 ≤ m) (hmx : m ≤ x.length + 1) :
    ∃ fs, dtlz1 m x = some fs ∧ fs.length = m ∧ fs.sum = (1 + g1 (x.drop (m - 1))) / 2 := by
  refine ⟨_, dtlz1_eval m x hm hmx, by simp, ?_⟩
  rw [sum_objVal _ _ m x _ hm hmx (fun _ => rfl)]
  ring

/-- DTLZ2: `Σ f_i² = (1+g)²` and `‖f‖ = 1+g`, `g = Σ (y-½)²` over the last 10 variables. -/
theorem dtlz2_norm (m : ℕ) (x : List ℝ) (hm : 1 ≤ m) (hmx : m ≤ x.length + 1) (hk : 10 ≤ x.length) :
    ∃ fs, dtlz2 m x = some fs ∧ fs.length = m ∧
      sqSum fs = (1 + g2 (x.drop (x.length - 10))) ^ 2 ∧
      Real.sqrt (sqSum fs) = 1 + g2 (x.drop (x.length - 10)) := by
  have hs := sumSq_objVal (cosA 1) (sinA 1) m x (1 + g2 (x.drop (x.length - 10))) hm hmx (sin_sq_cosA 1)
  refine ⟨_, dtlz2_eval m x hmx hk, by simp, hs, ?_⟩
  unfold sqSum
  rw [hs]
  exact Real.sqrt_sq (by have := g2_nonneg (x.drop (x.length - 10)); linarith)

/-- The dimension of the statement, `n = m + 9`, is an instance of `dtlz2_norm`. -/
theorem dtlz2_norm_m9 (m : ℕ) (x : List ℝ) (hm : 2 ≤ m) (hn : x.length = m + 9) :
    ∃ fs, dtlz2 m x = some fs ∧ fs.length = m ∧ Real.sqrt (sqSum fs) = 1 + g2 (x.drop (m - 1)) := by
  obtain ⟨fs, h1, h2, _, h4⟩ := dtlz2_norm m x (by omega) (by omega) (by omega)
  have e : x.length - 10 = m - 1 := by omega
  rw [e] at h4
  exact ⟨fs, h1, h2, h4⟩

/-- DTLZ3: as DTLZ2 with the DTLZ1 distance function. -/
theorem dtlz3_norm (m : ℕ) (x : List ℝ) (hm : 1 ≤ m) (hmx : m ≤ x.length + 1) (hk : 10 ≤ x.length) :
    ∃ fs, dtlz3 m x = some fs ∧ fs.length = m ∧
      sqSum fs = (1 + g1 (x.drop (x.length - 10))) ^ 2 ∧
      Real.sqrt (sqSum fs) = 1 + g1 (x.drop (x.length - 10)) := by
  have hs := sumSq_objVal (cosA 1) (sinA 1) m x (1 + g1 (x.drop (x.length - 10))) hm hmx (sin_sq_cosA 1)
  refine ⟨_, dtlz3_eval m x hmx hk, by simp, hs, ?_⟩
  unfold sqSum
  rw [hs]
  exact Real.sqrt_sq (by have := g1_nonneg (x.drop (x.length - 10)); linarith)

/-- DTLZ4 (`x ↦ x¹⁰⁰` inside the angles): same identity as DTLZ2. -/
theorem dtlz4_norm (m : ℕ) (x : List ℝ) (hm : 1 ≤ m) (hmx : m ≤ x.length + 1) (hk : 10 ≤ x.length) :
    ∃ fs, dtlz4 m x = some fs ∧ fs.length = m ∧
      sqSum fs = (1 + g2 (x.drop (x.length - 10))) ^ 2 ∧
      Real.sqrt (sqSum fs) = 1 + g2 (x.drop (x.length - 10)) := by
  have hs := sumSq_objVal (cosA 100) (sinA 100) m x (1 + g2 (x.drop (x.length - 10))) hm hmx (sin_sq_cosA 100)
  refine ⟨_, dtlz4_eval m x hmx hk, by simp, hs, ?_⟩
  unfold sqSum
  rw [hs]
  exact Real.sqrt_sq (by have := g2_nonneg (x.drop (x.length - 10)); linarith)

/-- ZDT1 (any `n ≥ 2`, every real point): `f₁ = x₁`, `f₂ = g·(1 − √(f₁/g))`, `g = 1 + 9·mean(x₂..xₙ)`. -/
theorem zdt1_identity (x1 : ℝ) (rest : List ℝ) (hn : rest ≠ []) :
    zdt1 (x1 :: rest) =
      some [x1, (1 + 9 * (rest.sum / rest.length)) * (1 - Real.sqrt (x1 / (1 + 9 * (rest.sum / rest.length))))] := by
  have hl : rest.length ≠ 0 := by simpa using hn
  unfold zdt1
  simp only [List.length_cons]
  rw [if_neg (by omega)]
  have e : (9 : ℝ) / (rest.length : ℝ) * rest.sum + 1 = 1 + 9 * (rest.sum / rest.length) := by ring
  simp [sumL_real]
  rw [e]
  ring

/-- On the box `g ≥ 1`, so the division and the square root of ZDT1 are genuine (`0 ≤ f₁/g ≤ 1`). -/
theorem zdt1_g_ge_one (x1 : ℝ) (rest : List ℝ) (hb : InBox01 (x1 :: rest)) :
    1 ≤ 1 + 9 * (rest.sum / rest.length) ∧
    0 ≤ x1 / (1 + 9 * (rest.sum / rest.length)) ∧ x1 / (1 + 9 * (rest.sum / rest.length)) ≤ 1 := by
  have hs : 0 ≤ rest.sum := List.sum_nonneg (fun y hy => (hb y (by simp [hy])).1)
  have hq : 0 ≤ rest.sum / rest.length := div_nonneg hs (Nat.cast_nonneg _)
  have hx := hb x1 (by simp)
  have hg : 1 ≤ 1 + 9 * (rest.sum / rest.length) := by linarith
  refine ⟨hg, div_nonneg hx.1 (by linarith), ?_⟩
  rw [div_le_one (by linarith)]
  linarith [hx.2]

/-- The bi-objective test problem on its box (`x₁ ≥ 0.1`, hence no division by zero): `f₁·f₂ = 1 + x₂`. -/
theorem biobjective_product (x1 x2 : ℝ) (h1 : 1 / 10 ≤ x1) :
    ∃ f1 f2, biobj [x1, x2] = some [f1, f2] ∧ f1 = x1 ∧ f1 * f2 = 1 + x2 := by
  refine ⟨x1, (1 + x2) / x1, by simp [biobj], rfl, ?_⟩
  have : x1 ≠ 0 := by linarith
  field_simp

/-- DTLZ1 objectives are non-negative on the box `[0,1]ⁿ`. -/
theorem dtlz1_nonneg (m : ℕ) (x : List ℝ) (hm : 1 ≤ m) (hmx : m ≤ x.length + 1) (hb : InBox01 x) :
    ∃ fs, dtlz1 m x = some fs ∧ ∀ f ∈ fs, 0 ≤ f := by
  refine ⟨_, dtlz1_eval m x hm hmx, ?_⟩
  intro f hf
  obtain ⟨i, hi, rfl⟩ := List.mem_map.1 hf
  have hg := g1_nonneg (x.drop (m - 1))
  exact objVal_nonneg _ _ m x _ i (by positivity) (fun y hy => (hb y hy).1)
    (fun y hy => by have := (hb y hy).2; linarith) (by simpa using hi) hmx

/-- DTLZ2 objectives are non-negative on the box. -/
theorem dtlz2_nonneg (m : ℕ) (x : List ℝ) (hmx : m ≤ x.length + 1) (hk : 10 ≤ x.length) (hb : InBox01 x) :
    ∃ fs, dtlz2 m x = some fs ∧ ∀ f ∈ fs, 0 ≤ f := by
  refine ⟨_, dtlz2_eval m x hmx hk, ?_⟩
  intro f hf
  obtain ⟨i, hi, rfl⟩ := List.mem_map.1 hf
  have hg := g2_nonneg (x.drop (x.length - 10))
  have := objVal_nonneg (cosA 1) (sinA 1) m x 1 i (by norm_num) (fun y hy => cosA_nonneg 1 (hb y hy).1 (hb y hy).2)
    (fun y hy => sinA_nonneg 1 (hb y hy).1 (hb y hy).2) (by simpa using hi) hmx
  positivity

/-- DTLZ3 objectives are non-negative on the box. -/
theorem dtlz3_nonneg (m : ℕ) (x : List ℝ) (hmx : m ≤ x.length + 1) (hk : 10 ≤ x.length) (hb : InBox01 x) :
    ∃ fs, dtlz3 m x = some fs ∧ ∀ f ∈ fs, 0 ≤ f := by
  refine ⟨_, dtlz3_eval m x hmx hk, ?_⟩
  intro f hf
  obtain ⟨i, hi, rfl⟩ := List.mem_map.1 hf
  have hg := g1_nonneg (x.drop (x.length - 10))
  have := objVal_nonneg (cosA 1) (sinA 1) m x 1 i (by norm_num) (fun y hy => cosA_nonneg 1 (hb y hy).1 (hb y hy).2)
    (fun y hy => sinA_nonneg 1 (hb y hy).1 (hb y hy).2) (by simpa using hi) hmx
  positivity

/-- DTLZ4 objectives are non-negative on the box. -/
theorem dtlz4_nonneg (m : ℕ) (x : List ℝ) (hmx : m ≤ x.length + 1) (hk : 10 ≤ x.length) (hb : InBox01 x) :
    ∃ fs, dtlz4 m x = some fs ∧ ∀ f ∈ fs, 0 ≤ f := by
  refine ⟨_, dtlz4_eval m x hmx hk, ?_⟩
  intro f hf
  obtain ⟨i, hi, rfl⟩ := List.mem_map.1 hf
  have hg := g2_nonneg (x.drop (x.length - 10))
  have := objVal_nonneg (cosA 100) (sinA 100) m x 1 i (by norm_num)
    (fun y hy => cosA_nonneg 100 (hb y hy).1 (hb y hy).2)
    (fun y hy => sinA_nonneg 100 (hb y hy).1 (hb y hy).2) (by simpa using hi) hmx
  positivity

/-- ZDT1 objectives are non-negative on the box. -/
theorem zdt1_nonneg (x1 : ℝ) (rest : List ℝ) (hn : rest ≠ []) (hb : InBox01 (x1 :: rest)) :
    ∃ f1 f2, zdt1 (x1 :: rest) = some [f1, f2] ∧ 0 ≤ f1 ∧ 0 ≤ f2 := by
  refine ⟨_, _, zdt1_identity x1 rest hn, (hb x1 (by simp)).1, ?_⟩
  obtain ⟨hg, h0, h1⟩ := zdt1_g_ge_one x1 rest hb
  have hsq : Real.sqrt (x1 / (1 + 9 * (rest.sum / rest.length))) ≤ 1 := by
    have := Real.sqrt_le_sqrt h1
    simpa using this
  have : 0 ≤ 1 - Real.sqrt (x1 / (1 + 9 * (rest.sum / rest.length))) := by linarith
  have hg0 : 0 ≤ 1 + 9 * (rest.sum / rest.length) := by linarith
  positivity

/-- The bi-objective problem is non-negative on its box `[0.1,1]×[0,5]`. -/
theorem biobjective_nonneg (x1 x2 : ℝ) (h1 : 1 / 10 ≤ x1) (h2 : 0 ≤ x2) :
    ∃ f1 f2, biobj [x1, x2] = some [f1, f2] ∧ 0 ≤ f1 ∧ 0 ≤ f2 := by
  refine ⟨x1, (1 + x2) / x1, by simp [biobj], by linarith, ?_⟩
  have : 0 < x1 := by linarith
  positivity

/-- Front clause: with all distance variables at 0.5 (`g = 0`) – whatever the position variables –
the DTLZ1 image lies on the simplex `Σ f_i = ½` and the DTLZ2/3/4 images on the unit sphere
`Σ f_i² = 1` (in the non-negative orthant on the box, by the `*_nonneg` theorems).  The converse inclusions
("onto") are `dtlz1_front_onto` and `dtlz234_front_onto`. -/
theorem dtlz_front (m : ℕ) (x : List ℝ) (hm : 1 ≤ m) (hmx : m ≤ x.length + 1) :
    ((∀ y ∈ x.drop (m - 1), y = 1 / 2) → ∃ fs, dtlz1 m x = some fs ∧ fs.sum = 1 / 2) ∧
    (10 ≤ x.length → (∀ y ∈ x.drop (x.length - 10), y = 1 / 2) →
      (∃ fs, dtlz2 m x = some fs ∧ sqSum fs = 1) ∧
      (∃ fs, dtlz3 m x = some fs ∧ sqSum fs = 1) ∧
      (∃ fs, dtlz4 m x = some fs ∧ sqSum fs = 1)) := by
  constructor
  · intro h
    obtain ⟨fs, h1, _, h3⟩ := dtlz1_sum m x hm hmx
    refine ⟨fs, h1, ?_⟩
    rw [h3, g1_at_half _ h]
    norm_num
  · intro hk h
    obtain ⟨f2, a1, _, a3, _⟩ := dtlz2_norm m x hm hmx hk
    obtain ⟨f3, b1, _, b3, _⟩ := dtlz3_norm m x hm hmx hk
    obtain ⟨f4, c1, _, c3, _⟩ := dtlz4_norm m x hm hmx hk
    rw [g2_at_half _ h] at a3 c3
    rw [g1_at_half _ h] at b3
    exact ⟨⟨f2, a1, by simpa using a3⟩, ⟨f3, b1, by simpa using b3⟩, ⟨f4, c1, by simpa using c3⟩⟩

/-- "Onto", DTLZ1: every point of the simplex `{t ≥ 0, Σ t = ½}` is the image of a box point whose
distance variables are all 0.5 (any number `k` of them). -/
theorem dtlz1_front_onto (m k : ℕ) (t : List ℝ) (hm : 1 ≤ m) (hl : t.length = m)
    (h0 : ∀ a ∈ t, 0 ≤ a) (hs : t.sum = 1 / 2) :
    ∃ x, x.length = m - 1 + k ∧ InBox01 x ∧ (∀ y ∈ x.drop (m - 1), y = 1 / 2) ∧ dtlz1 m x = some t := by
  obtain ⟨xp, hxl, hbox, hobj⟩ := simplex_onto m hm t hl h0
  have hdrop : (xp ++ List.replicate k (1 / 2 : ℝ)).drop (m - 1) = List.replicate k (1 / 2) := by
    rw [← hxl]; simp
  have hhalf : ∀ y ∈ (xp ++ List.replicate k (1 / 2 : ℝ)).drop (m - 1), y = 1 / 2 := by
    intro y hy; rw [hdrop] at hy; exact (List.mem_replicate.1 hy).2
  refine ⟨xp ++ List.replicate k (1 / 2), by simp [hxl], ?_, hhalf, ?_⟩
  · intro y hy
    rcases List.mem_append.1 hy with h | h
    · exact hbox y h
    · rw [(List.mem_replicate.1 h).2]; norm_num
  · rw [dtlz1_eval m _ hm (by simp; omega), g1_at_half _ hhalf]
    have := hobj (List.replicate k (1 / 2))
    rw [hs] at this
    rw [← this]
    norm_num

/-- "Onto", DTLZ2–4 (`n = m + 9`): every point of the non-negative unit sphere `{t ≥ 0, Σ t² = 1}` is the
image, under each of DTLZ2, DTLZ3 and DTLZ4, of a box point whose ten distance variables are all 0.5. -/
theorem dtlz234_front_onto (m : ℕ) (t : List ℝ) (hm : 1 ≤ m) (hl : t.length = m)
    (h0 : ∀ a ∈ t, 0 ≤ a) (hs : sqSum t = 1) :
    (∃ x, x.length = m + 9 ∧ InBox01 x ∧ (∀ y ∈ x.drop (m - 1), y = 1 / 2) ∧ dtlz2 m x = some t) ∧
    (∃ x, x.length = m + 9 ∧ InBox01 x ∧ (∀ y ∈ x.drop (m - 1), y = 1 / 2) ∧ dtlz3 m x = some t) ∧
    (∃ x, x.length = m + 9 ∧ InBox01 x ∧ (∀ y ∈ x.drop (m - 1), y = 1 / 2) ∧ dtlz4 m x = some t) := by
  have hboxd : InBox01 (List.replicate 10 (1 / 2 : ℝ)) := by
    intro y hy; rw [(List.mem_replicate.1 hy).2]; norm_num
  have key : ∀ a : ℕ, a ≠ 0 → ∃ x : List ℝ, x.length = m + 9 ∧ InBox01 x ∧
      (∀ y ∈ x.drop (m - 1), y = 1 / 2) ∧ x.length - 10 = m - 1 ∧
      (List.range m).map (objVal (cosA a) (sinA a) m x 1) = t := by
    intro a ha
    obtain ⟨xp, hxl, hbox, hobj⟩ := sphere_onto a ha m hm t hl h0 hs
    have hdrop : (xp ++ List.replicate 10 (1 / 2 : ℝ)).drop (m - 1) = List.replicate 10 (1 / 2) := by
      rw [← hxl]; simp
    have hlen : (xp ++ List.replicate 10 (1 / 2 : ℝ)).length = m + 9 := by
      rw [List.length_append, List.length_replicate, hxl]; omega
    refine ⟨xp ++ List.replicate 10 (1 / 2), hlen, ?_, ?_, by rw [hlen]; omega, hobj _ hboxd⟩
    · intro y hy
      rcases List.mem_append.1 hy with h | h
      · exact hbox y h
      · exact hboxd y h
    · intro y hy; rw [hdrop] at hy; exact (List.mem_replicate.1 hy).2
  obtain ⟨x1, l1, b1, d1, e1, o1⟩ := key 1 (by norm_num)
  obtain ⟨x4, l4, b4, d4, e4, o4⟩ := key 100 (by norm_num)
  refine ⟨⟨x1, l1, b1, d1, ?_⟩, ⟨x1, l1, b1, d1, ?_⟩, ⟨x4, l4, b4, d4, ?_⟩⟩
  · rw [dtlz2_eval m x1 (by omega) (by omega), e1, g2_at_half _ d1, ← o1]
    simp
  · rw [dtlz3_eval m x1 (by omega) (by omega), e1, g1_at_half _ d1, ← o1]
    simp
  · rw [dtlz4_eval m x4 (by omega) (by omega), e4, g2_at_half _ d4, ← o4]
    simp

/-- ZDT1 front: distance variables at 0 give `g = 1`, i.e. `f₂ = 1 − √f₁`. -/
theorem zdt1_front (x1 : ℝ) (rest : List ℝ) (hn : rest ≠ []) (h : ∀ y ∈ rest, y = 0) :
    zdt1 (x1 :: rest) = some [x1, 1 - Real.sqrt x1] := by
  have hs : rest.sum = 0 := List.sum_eq_zero h
  rw [zdt1_identity x1 rest hn, hs]
  simp

/-- The identity pairs `(lhs, rhs)` the driver evaluates on the implementation's outputs
(`c16.id.*`) are, at `α = ℝ`, the two sides of the theorems above. -/
theorem driver_identities_are_spec (m : ℕ) (x f : List ℝ) (hm : 1 ≤ m) (hmx : m ≤ x.length + 1) :
    idDtlz1 m x f = (f.sum, (1 + g1 (x.drop (m - 1))) / 2) ∧
    idDtlzNorm false x f = (Real.sqrt (sqSum f), 1 + g2 (x.drop (x.length - 10))) ∧
    idDtlzNorm true x f = (Real.sqrt (sqSum f), 1 + g1 (x.drop (x.length - 10))) ∧
    (∀ f1 f2, idZdt1 x [f1, f2] = some (f2,
      (1 + 9 * (x.tail.sum / ((x.length - 1 : ℕ) : ℝ))) *
        (1 - Real.sqrt (f1 / (1 + 9 * (x.tail.sum / ((x.length - 1 : ℕ) : ℝ))))))) ∧
    (∀ x1 x2 f1 f2 : ℝ, idBiobj [x1, x2] [f1, f2] = some (f1 * f2, 1 + x2)) := by
  have e : x.length - (x.length + 1 - m) = m - 1 := by omega
  refine ⟨?_, ?_, ?_, ?_, ?_⟩
  · simp [idDtlz1, lastK, sumL_real, g1Spec_real, e]
  · simp [idDtlzNorm, lastK, sumSq_real, g2Spec_real, kDist]
  · simp [idDtlzNorm, lastK, sumSq_real, g1Spec_real, kDist]
  · intro f1 f2
    simp [idZdt1, zdt1GSpec_real]
  · intro x1 x2 f1 f2
    simp [idBiobj]

/-! ### Non-vacuity: the hypotheses are satisfiable by concrete non-trivial instances -/

/-- `m = 3`, `k = 2` (four variables in the box) satisfies the hypotheses of `dtlz1_sum` / `dtlz1_nonneg`. -/
example : (1 ≤ 3) ∧ (3 ≤ ([1/4, 3/4, 1/2, 1/3] : List ℝ).length + 1) ∧ InBox01 [1/4, 3/4, 1/2, 1/3] := by
  refine ⟨by norm_num, by simp, ?_⟩
  intro y hy
  simp at hy
  rcases hy with rfl | rfl | rfl | rfl <;> norm_num

/-- `m = 3`, `n = 12 = m + 9` satisfies the hypotheses of `dtlz2/3/4_norm`, with position variables ≠ 0.5. -/
example : (1 ≤ 3) ∧ (3 ≤ ([1/4, 3/4, 1/2, 1/3, 0, 1, 1/2, 1/2, 1/5, 1/2, 1/2, 2/3] : List ℝ).length + 1) ∧
    (10 ≤ ([1/4, 3/4, 1/2, 1/3, 0, 1, 1/2, 1/2, 1/5, 1/2, 1/2, 2/3] : List ℝ).length) := by
  simp

/-- a point of the Pareto set (`dtlz_front`): distance variables exactly ½, position variables not. -/
example : ∀ y ∈ ([1/4, 3/4, 1/2, 1/2] : List ℝ).drop (3 - 1), y = 1 / 2 := by
  intro y hy
  simp at hy
  rw [hy]
  norm_num

/-- ZDT1 / bi-objective hypotheses. -/
example : ([1/3, 1] : List ℝ) ≠ [] ∧ InBox01 ((1/2 : ℝ) :: [1/3, 1]) ∧ ((1:ℝ) / 10 ≤ 1 / 2) ∧ ((0:ℝ) ≤ 5) := by
  refine ⟨by simp, ?_, by norm_num, by norm_num⟩
  intro y hy
  simp at hy
  rcases hy with rfl | rfl | rfl <;> norm_num

/-- targets for the "onto" theorems: a simplex point and a point of the non-negative unit sphere (`m = 3`). -/
example : (([1/4, 1/8, 1/8] : List ℝ).sum = 1 / 2) ∧ (∀ a ∈ ([1/4, 1/8, 1/8] : List ℝ), 0 ≤ a) ∧
    (sqSum [3/5, 4/5, 0] = 1) ∧ (∀ a ∈ ([3/5, 4/5, 0] : List ℝ), 0 ≤ a) := by
  refine ⟨by norm_num, ?_, by norm_num [sqSum], ?_⟩
  · intro a ha
    simp at ha
    rcases ha with rfl | rfl <;> norm_num
  · intro a ha
    simp at ha
    rcases ha with rfl | rfl | rfl <;> norm_num

end Artap.C16
