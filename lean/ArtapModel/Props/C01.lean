import ArtapModel.Proofs.Epsilon
/-!
# C01 — Constrained Pareto dominance is the textbook strict partial order

Property theorems only.  Model: `Model/Dominance.lean`; helper lemmas: `Proofs/`.
`Dominates p q` is the textbook relation (`dominates_index` gives its index form):
`p ≤ q` in every coordinate and `<` in at least one.
-/
namespace Artap.C01
open Artap

variable {α : Type} [LinearOrder α]

theorem markerVerdict_eq (mp mq : Int) :
    markerVerdict mp mq =
      if mp.natAbs < mq.natAbs then some 1 else if mq.natAbs < mp.natAbs then some 2 else none := by
  unfold markerVerdict
  by_cases h : mp = mq
  · subst h; simp
  · simp only [ne_eq, h, not_false_eq_true, if_true, beq_iff_eq]
    by_cases a : mp = 0
    · subst a
      have : 0 < mq.natAbs := by omega
      simp [this]
    · by_cases b : mq = 0
      · subst b
        have : 0 < mp.natAbs := by omega
        simp [a, this]
      · simp [a, b]

/-- The better feasibility marker wins whatever the costs (any lengths). -/
theorem pareto_feasibility_first (p q : List α) (mp mq : Int) :
    (mp.natAbs < mq.natAbs → paretoCompare p q mp mq = 1) ∧
    (mq.natAbs < mp.natAbs → paretoCompare p q mp mq = 2) := by
  unfold paretoCompare
  rw [markerVerdict_eq]
  constructor
  · intro h; simp [h]
  · intro h
    have : ¬ mp.natAbs < mq.natAbs := by omega
    simp [h, this]

/-- At equal feasibility the verdict is exactly textbook Pareto dominance. -/
theorem pareto_spec (p q : List α) (mp mq : Int) (hm : mp.natAbs = mq.natAbs)
    (hl : p.length = q.length) :
    (paretoCompare p q mp mq = 1 ↔ Dominates p q) ∧
    (paretoCompare p q mp mq = 2 ↔ Dominates q p) ∧
    (paretoCompare p q mp mq = 0 ↔ ¬ Dominates p q ∧ ¬ Dominates q p) := by
  unfold paretoCompare
  rw [markerVerdict_eq]
  have h1 : ¬ mp.natAbs < mq.natAbs := by omega
  have h2 : ¬ mq.natAbs < mp.natAbs := by omega
  simp only [h1, h2, if_false, scan_eq, Bool.false_or]
  rw [dominates_iff hl, dominates_iff hl.symm, ← someLtB_iff, ← someLtB_iff]
  cases someLtB p q <;> cases someLtB q p <;> simp [verdict]

def swapV : Nat → Nat
  | 1 => 2
  | 2 => 1
  | n => n

/-- Antisymmetry: swapping the arguments swaps the verdict (any lengths, any markers). -/
theorem pareto_swap (p q : List α) (mp mq : Int) :
    paretoCompare q p mq mp = swapV (paretoCompare p q mp mq) := by
  unfold paretoCompare
  rw [markerVerdict_eq, markerVerdict_eq]
  by_cases h1 : mp.natAbs < mq.natAbs
  · have : ¬ mq.natAbs < mp.natAbs := by omega
    simp [h1, this, swapV]
  · by_cases h2 : mq.natAbs < mp.natAbs
    · simp [h1, h2, swapV]
    · simp only [h1, h2, if_false, scan_eq, Bool.false_or]
      cases someLtB p q <;> cases someLtB q p <;> simp [verdict, swapV]

/-- Irreflexivity. -/
theorem pareto_irrefl (p : List α) (m : Int) : paretoCompare p p m m = 0 := by
  unfold paretoCompare
  rw [markerVerdict_eq]
  simp only [Nat.lt_irrefl, if_false, scan_eq, Bool.false_or]
  simp [verdict]

/-- The verdict `1` as a relation on (costs, marker) pairs: lexicographic
(|marker|, then product order). -/
theorem pareto_one_iff (p q : List α) (mp mq : Int) (hl : p.length = q.length) :
    paretoCompare p q mp mq = 1 ↔
      mp.natAbs < mq.natAbs ∨ (mp.natAbs = mq.natAbs ∧ Dominates p q) := by
  by_cases h1 : mp.natAbs < mq.natAbs
  · simp [(pareto_feasibility_first p q mp mq).1 h1, h1]
  · by_cases h2 : mq.natAbs < mp.natAbs
    · have := (pareto_feasibility_first p q mp mq).2 h2
      simp only [this, h1, false_or]
      constructor
      · intro h; omega
      · intro h; omega
    · have hm : mp.natAbs = mq.natAbs := by omega
      simp [(pareto_spec p q mp mq hm hl).1, hm]

/-- Transitivity, for every combination of markers. -/
theorem pareto_trans (p q r : List α) (mp mq mr : Int)
    (h1 : p.length = q.length) (h2 : q.length = r.length)
    (hpq : paretoCompare p q mp mq = 1) (hqr : paretoCompare q r mq mr = 1) :
    paretoCompare p r mp mr = 1 := by
  rw [pareto_one_iff _ _ _ _ h1] at hpq
  rw [pareto_one_iff _ _ _ _ h2] at hqr
  rw [pareto_one_iff _ _ _ _ (h1.trans h2)]
  rcases hpq with a | ⟨a, da⟩ <;> rcases hqr with b | ⟨b, db⟩
  · left; omega
  · left; omega
  · left; omega
  · right; exact ⟨a.trans b, dominates_trans da db⟩

/-- Positive ε: on every pair of different cost vectors the ε comparator gives the Pareto
verdict (exact arithmetic; "differ by more than rounding error" is what makes the double
computation agree with it). -/
theorem eps_agrees (eps p q : List Rat) (mp mq : Int) (he : PosEps eps)
    (hl : p.length = q.length) (hne : p ≠ q) :
    epsCompare eps p q mp mq = some (paretoCompare p q mp mq) := by
  unfold epsCompare paretoCompare
  have hne' : eps.isEmpty = false := by simpa using he.1
  simp only [hne', Bool.false_eq_true, if_false]
  cases hmv : markerVerdict mp mq with
  | some v => rfl
  | none =>
    simp only
    have hany : (List.zip (scaleBy eps 0 p) (scaleBy eps 0 q)).any
        (fun (a, b) => decide (a < b) || decide (b < a)) = true := by
      rw [any_zip_eq, someLtB_scale he, someLtB_scale he]
      by_contra hc
      simp only [Bool.or_eq_true, not_or, Bool.not_eq_true] at hc
      exact hne (eq_of_no_someLt hl hc.1 hc.2)
    simp only [hany, if_true]
    rw [scan_eq, scan_eq, someLtB_scale he, someLtB_scale he]

/-- Identical cost vectors: the ε comparator always names a loser, and at equal markers it
is the second argument (the newcomer in `Archive.add`), so archives reject duplicates. -/
theorem eps_names_loser (eps p : List Rat) (mp mq : Int) (he : PosEps eps) :
    epsCompare eps p p mp mq = some 1 ∨ epsCompare eps p p mp mq = some 2 := by
  unfold epsCompare
  have hne' : eps.isEmpty = false := by simpa using he.1
  simp only [hne', Bool.false_eq_true, if_false]
  rw [markerVerdict_eq]
  by_cases h1 : mp.natAbs < mq.natAbs
  · simp [h1]
  · by_cases h2 : mq.natAbs < mp.natAbs
    · simp [h1, h2]
    · simp only [h1, h2, if_false]
      have hany : (List.zip (scaleBy eps 0 p) (scaleBy eps 0 p)).any
          (fun (a, b) => decide (a < b) || decide (b < a)) = false := by
        rw [any_zip_eq, someLtB_self]; rfl
      simp only [hany, Bool.false_eq_true, if_false]
      have hz : (List.range (min p.length p.length)).any
          (fun i => eps.getD (i % eps.length) 0 == 0) = false := by
        rw [List.any_eq_false]
        intro i _
        simpa using raw_eps_ne_zero he i
      simp only [hz, Bool.false_eq_true, if_false]
      split <;> simp

theorem eps_dup_rejected (eps p : List Rat) (m : Int) (he : PosEps eps) :
    epsCompare eps p p m m = some 2 := by
  unfold epsCompare
  have hne' : eps.isEmpty = false := by simpa using he.1
  simp only [hne', Bool.false_eq_true, if_false]
  rw [markerVerdict_eq]
  simp only [Nat.lt_irrefl, if_false]
  have hany : (List.zip (scaleBy eps 0 p) (scaleBy eps 0 p)).any
      (fun (a, b) => decide (a < b) || decide (b < a)) = false := by
    rw [any_zip_eq, someLtB_self]; rfl
  simp only [hany, Bool.false_eq_true, if_false]
  have hz : (List.range (min p.length p.length)).any
      (fun i => eps.getD (i % eps.length) 0 == 0) = false := by
    rw [List.any_eq_false]
    intro i _
    simpa using raw_eps_ne_zero he i
  simp only [hz, Bool.false_eq_true, if_false, lt_irrefl]

/-! ## Non-vacuity: concrete instances of the hypotheses -/

-- mixed better/worse pair: incomparable
example : paretoCompare [1, 5] [2, 3] (0 : Int) 0 = 0 := by decide
-- tie in one coordinate, strictly better in another
example : paretoCompare [1, 3] [1, 4] (0 : Int) 0 = 1 ∧ Dominates [(1 : Int), 3] [1, 4] :=
  ⟨by decide, by simp [Dominates, LeqAll, SomeLt]⟩
-- maximised (negated) pair
example : paretoCompare [-5, -2] [-4, -2] (0 : Int) 0 = 1 := by decide
-- markers (0, 1) and (1, −1)
example : paretoCompare [9, 9] [0, 0] (0 : Int) 1 = 1 := by decide
example : paretoCompare [1, 1] [2, 2] (1 : Int) (-1) = 1 := by decide
-- a transitive chain with markers
example : paretoCompare [5] [1] (0 : Int) 1 = 1 ∧ paretoCompare [1] [2] (1 : Int) 1 = 1
    ∧ paretoCompare [5] [2] (0 : Int) 1 = 1 := by decide
example : PosEps [1/2, 3] := by
  refine ⟨by simp, ?_⟩
  intro e he
  simp at he
  rcases he with rfl | rfl <;> norm_num

end Artap.C01
