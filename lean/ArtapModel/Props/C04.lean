import ArtapModel.Proofs.Archive
/-!
# C04 — the archive holds exactly the non-dominated set of everything ever offered

Property theorems only.  Model: `Model/Archive.lean` (`addLoop`, `add`, `addAll`, `trace`,
`truncate`, comparators `paretoCmp`, `epsCmp`); helper lemmas and the definitions `CmpSpec`
(explicit strict-partial-order hypotheses on a comparator), `Antichain`, `Covers`, `Inv`,
`Rejects`, `survivors`, `cleanScan`, `ParetoDom`: `Proofs/Archive.lean`.

The generic theorems hold for every comparator satisfying `CmpSpec`; `pareto_*` / `eps_*`
instantiate them for the two comparators of the code (Pareto: every marker; ε: positive
epsilons, non-negative markers), for cost vectors of one common length `m`.
-/
namespace Artap.C04
open Artap Artap.Archive

variable {α : Type} {V : α → Prop} {cmp : α → α → Option Nat} {same : α → α → Bool}
  {Dom : α → α → Prop}

/-- The index correction `index − number_of_deleted_solutions` is right for every pattern of
deletions, for **every** comparator: when `i` snapshot members have been processed and `d`
deleted, the live contents are `kept ++ rest` with `|kept| = i − d`, the deletion hits
exactly the snapshot member under inspection, no `IndexError` is possible, and the loop
computes the clean scan ("delete what the newcomer dominates until a member dominates or
equals it"). -/
theorem add_index_correct (cmp : α → α → Option Nat) (same : α → α → Bool) (x : α)
    (rest kept : List α) (i d : Nat) (hd : d ≤ i) (hk : kept.length = i - d) :
    (addLoop cmp same x rest i (kept ++ rest) d).map (fun r => (r.1, r.2.1 || r.2.2)) =
      (cleanScan cmp same x rest).map (fun r => (kept ++ r.1, r.2)) :=
  addLoop_eq cmp same x rest kept i d hd hk

/-- `add` = clean scan, then append unless rejected (any comparator, any contents). -/
theorem add_is_clean_scan (cmp : α → α → Option Nat) (same : α → α → Bool) (l : List α) (x : α) :
    add cmp same l x =
      (cleanScan cmp same x l).map (fun r => if r.2 then (r.1, false) else (r.1 ++ [x], true)) :=
  add_eq_clean cmp same l x

/-- The invariant (members ⊆ offered, pairwise non-dominated with pairwise different signed
costs, every offered solution dominated by or equal to a member) is preserved by `add`, and
`add` never raises. -/
theorem add_inv (S : CmpSpec V cmp same Dom) {l offered : List α} {x : α} (hx : V x)
    (hI : Inv V same Dom l offered) :
    ∃ l' b, add cmp same l x = some (l', b) ∧ Inv V same Dom l' (offered ++ [x]) := by
  obtain ⟨l', b, h⟩ := add_total S hx hI.2.2.1
  exact ⟨l', b, h, add_inv_aux S hx hI h⟩

/-- An addition reports success exactly when the solution was inserted: it returns `false`
and leaves the contents untouched iff a member dominates or equals the newcomer; otherwise
it returns `true`, removes exactly the members the newcomer dominates and appends it. -/
theorem add_reports_insertion (S : CmpSpec V cmp same Dom) {l : List α} {x : α} (hx : V x)
    (hA : Antichain V same Dom l) :
    (Rejects same Dom l x → add cmp same l x = some (l, false)) ∧
    (¬ Rejects same Dom l x → add cmp same l x = some (survivors cmp x l ++ [x], true)) ∧
    (∀ a, a ∈ survivors cmp x l ↔ a ∈ l ∧ ¬ Dom x a) :=
  ⟨add_reject S hx hA, add_accept S hx hA.1, fun _ => mem_survivors S hx hA.1⟩

/-- After any history the archive is the non-dominated set of the history, one
representative per class of equal signed costs; one boolean per addition. -/
theorem archive_is_nondominated_set (S : CmpSpec V cmp same Dom) (xs : List α)
    (hxs : ∀ x ∈ xs, V x) :
    ∃ l bs, addAll cmp same [] xs = some (l, bs) ∧ bs.length = xs.length ∧
      (∀ a ∈ l, a ∈ xs ∧ ∀ b ∈ xs, ¬ Dom b a) ∧
      (∀ a ∈ xs, (∀ b ∈ xs, ¬ Dom b a) → ∃ m ∈ l, same m a = true) ∧
      l.Pairwise (fun a b => ¬ Dom a b ∧ ¬ Dom b a ∧ same a b = false ∧ same b a = false) := by
  obtain ⟨l, bs, h, hlen, hI⟩ := addAll_inv_aux S hxs (inv_nil (V := V) (same := same) (Dom := Dom))
  rw [List.nil_append] at hI
  have hch := inv_characterisation S hI
  exact ⟨l, bs, h, hlen, hch.1, hch.2, hI.2.2.1.2⟩

/-- Every rejected or evicted (indeed every offered) solution is dominated by or equal to a
current member. -/
theorem rejected_or_evicted_covered (S : CmpSpec V cmp same Dom) (xs : List α)
    (hxs : ∀ x ∈ xs, V x) {l : List α} {bs : List Bool} (h : addAll cmp same [] xs = some (l, bs)) :
    ∀ a ∈ xs, ∃ m ∈ l, Dom m a ∨ same m a = true := by
  obtain ⟨l', bs', h', _, hI⟩ := addAll_inv_aux S hxs (inv_nil (V := V) (same := same) (Dom := Dom))
  rw [h] at h'
  simp only [Option.some.injEq, Prod.mk.injEq] at h'
  rw [← h'.1, List.nil_append] at hI
  exact hI.2.2.2

/-- The same holds after every single step of a history (what the driver prints per step is
`addAll` of the prefix). -/
theorem trace_is_addAll_of_prefixes {xs l : List α} {t : List (List α × Bool)}
    (h : trace cmp same l xs = some t) :
    t.length = xs.length ∧ ∀ i (hi : i < t.length), ∃ bs,
      addAll cmp same l (xs.take (i + 1)) = some (t[i].1, bs) ∧ bs.getLast? = some t[i].2 :=
  trace_prefix h

section pareto
variable {κ : Type} [LinearOrder κ]

/-- signed-cost vector of a solution: costs and feasibility marker -/
def key (a : Ind κ) : List κ × Int := (a.costs, a.marker)

/-- constrained Pareto dominance on signed-cost vectors -/
def KeyDom (p q : List κ × Int) : Prop :=
  p.2.natAbs < q.2.natAbs ∨ (p.2.natAbs = q.2.natAbs ∧ Dominates p.1 q.1)

theorem key_same (a b : Ind κ) : sameCosts a b = true ↔ key a = key b := by
  rw [sameCosts_iff]; simp [key]

/-- Pareto archive: the set of signed-cost vectors held after a history is
`{c ∈ costs xs | ¬∃ c' ∈ costs xs, c' dominates c}`, each held once. -/
theorem pareto_archive_is_nondominated_set (m : Nat) (xs : List (Ind κ))
    (hxs : ∀ x ∈ xs, x.costs.length = m) :
    ∃ l bs, addAll paretoCmp sameCosts [] xs = some (l, bs) ∧ bs.length = xs.length ∧
      (l.map key).Nodup ∧
      ∀ k, k ∈ l.map key ↔ (k ∈ xs.map key ∧ ∀ k' ∈ xs.map key, ¬ KeyDom k' k) := by
  obtain ⟨l, bs, h, hlen, hI⟩ := addAll_inv_aux (pareto_cmpSpec (κ := κ) m) (xs := xs) hxs inv_nil
  rw [List.nil_append] at hI
  have := key_set (pareto_cmpSpec (κ := κ) m) key KeyDom key_same (fun _ _ => Iff.rfl) hI
  exact ⟨l, bs, h, hlen, this.1, this.2⟩

/-- The content, as a set of signed-cost vectors, does not depend on the order of the
additions. -/
theorem pareto_archive_order_independent (m : Nat) (xs ys : List (Ind κ))
    (hxs : ∀ x ∈ xs, x.costs.length = m) (hp : xs.Perm ys)
    {l l' : List (Ind κ)} {bs bs' : List Bool}
    (h : addAll paretoCmp sameCosts [] xs = some (l, bs))
    (h' : addAll paretoCmp sameCosts [] ys = some (l', bs')) :
    ∀ k, k ∈ l.map key ↔ k ∈ l'.map key := by
  have hys : ∀ y ∈ ys, y.costs.length = m := fun y hy => hxs y (hp.symm.subset hy)
  obtain ⟨l1, b1, e1, _, _, c1⟩ := pareto_archive_is_nondominated_set m xs hxs
  obtain ⟨l2, b2, e2, _, _, c2⟩ := pareto_archive_is_nondominated_set m ys hys
  rw [h] at e1; rw [h'] at e2
  simp only [Option.some.injEq, Prod.mk.injEq] at e1 e2
  rw [← e1.1] at c1; rw [← e2.1] at c2
  intro k
  rw [c1 k, c2 k]
  have hm : ∀ k, k ∈ xs.map key ↔ k ∈ ys.map key := fun k => (hp.map key).mem_iff
  constructor
  · rintro ⟨a, b⟩; exact ⟨(hm k).1 a, fun k' hk' => b k' ((hm k').2 hk')⟩
  · rintro ⟨a, b⟩; exact ⟨(hm k).2 a, fun k' hk' => b k' ((hm k').1 hk')⟩

end pareto

/-- ε archive (positive epsilons, non-negative markers): same characterisation – the ε
comparator is Pareto dominance on different vectors plus rejection of duplicates. -/
theorem eps_archive_is_nondominated_set (eps : List Rat) (he : PosEps eps) (m : Nat)
    (xs : List (Ind Rat)) (hxs : ∀ x ∈ xs, x.costs.length = m ∧ 0 ≤ x.marker) :
    ∃ l bs, addAll (epsCmp eps) sameCosts [] xs = some (l, bs) ∧ bs.length = xs.length ∧
      (l.map key).Nodup ∧
      ∀ k, k ∈ l.map key ↔ (k ∈ xs.map key ∧ ∀ k' ∈ xs.map key, ¬ KeyDom k' k) := by
  obtain ⟨l, bs, h, hlen, hI⟩ := addAll_inv_aux (eps_cmpSpec eps he m) (xs := xs) hxs inv_nil
  rw [List.nil_append] at hI
  have := key_set (eps_cmpSpec eps he m) key KeyDom key_same (fun _ _ => Iff.rfl) hI
  exact ⟨l, bs, h, hlen, this.1, this.2⟩

/-- Hence the ε archive and the Pareto archive of the same history hold the same set. -/
theorem eps_archive_eq_pareto_archive (eps : List Rat) (he : PosEps eps) (m : Nat)
    (xs : List (Ind Rat)) (hxs : ∀ x ∈ xs, x.costs.length = m ∧ 0 ≤ x.marker)
    {l l' : List (Ind Rat)} {bs bs' : List Bool}
    (h : addAll (epsCmp eps) sameCosts [] xs = some (l, bs))
    (h' : addAll paretoCmp sameCosts [] xs = some (l', bs')) :
    ∀ k, k ∈ l.map key ↔ k ∈ l'.map key := by
  obtain ⟨l1, b1, e1, _, _, c1⟩ := eps_archive_is_nondominated_set eps he m xs hxs
  obtain ⟨l2, b2, e2, _, _, c2⟩ := pareto_archive_is_nondominated_set m xs (fun x hx => (hxs x hx).1)
  rw [h] at e1; rw [h'] at e2
  simp only [Option.some.injEq, Prod.mk.injEq] at e1 e2
  rw [← e1.1] at c1; rw [← e2.1] at c2
  intro k
  rw [c1 k, c2 k]

/-- Order independence for the ε archive. -/
theorem eps_archive_order_independent (eps : List Rat) (he : PosEps eps) (m : Nat)
    (xs ys : List (Ind Rat)) (hxs : ∀ x ∈ xs, x.costs.length = m ∧ 0 ≤ x.marker) (hp : xs.Perm ys)
    {l l' : List (Ind Rat)} {bs bs' : List Bool}
    (h : addAll (epsCmp eps) sameCosts [] xs = some (l, bs))
    (h' : addAll (epsCmp eps) sameCosts [] ys = some (l', bs')) :
    ∀ k, k ∈ l.map key ↔ k ∈ l'.map key := by
  have hys : ∀ y ∈ ys, y.costs.length = m ∧ 0 ≤ y.marker := fun y hy => hxs y (hp.symm.subset hy)
  obtain ⟨l1, b1, e1, _, _, c1⟩ := eps_archive_is_nondominated_set eps he m xs hxs
  obtain ⟨l2, b2, e2, _, _, c2⟩ := eps_archive_is_nondominated_set eps he m ys hys
  rw [h] at e1; rw [h'] at e2
  simp only [Option.some.injEq, Prod.mk.injEq] at e1 e2
  rw [← e1.1] at c1; rw [← e2.1] at c2
  intro k
  rw [c1 k, c2 k]
  have hm : ∀ k, k ∈ xs.map key ↔ k ∈ ys.map key := fun k => (hp.map key).mem_iff
  constructor
  · rintro ⟨a, b⟩; exact ⟨(hm k).1 a, fun k' hk' => b k' ((hm k').2 hk')⟩
  · rintro ⟨a, b⟩; exact ⟨(hm k).2 a, fun k' hk' => b k' ((hm k').1 hk')⟩

/-- `truncate` keeps at most `size` members … -/
theorem truncate_length (feat : α → Int) (l : List α) (size : Nat) (larger : Bool) :
    (truncate feat l size larger).length ≤ size := by
  unfold truncate; exact List.length_take_le _ _

/-- … which, together with the dropped ones, are a rearrangement of the contents, and every
kept member's feature is ≥ (larger preferred) resp. ≤ (smaller preferred) every dropped
member's. -/
theorem truncate_keeps_largest (feat : α → Int) (l : List α) (size : Nat) (larger : Bool) :
    (truncate feat l size larger ++ truncateRest feat l size larger).Perm l ∧
    (truncate feat l size larger).length = min size l.length ∧
    ∀ a ∈ truncate feat l size larger, ∀ b ∈ truncateRest feat l size larger,
      if larger then feat b ≤ feat a else feat a ≤ feat b := by
  refine ⟨truncate_perm feat l size larger, ?_, truncate_split_order feat l size larger⟩
  unfold truncate
  cases larger <;> simp [List.length_mergeSort]

/-- Truncation keeps the members mutually non-dominated (so the invariant that `add` needs
survives a `truncate`; used by C18). -/
theorem truncate_keeps_antichain (feat : α → Int) {l : List α} (size : Nat) (larger : Bool)
    (hA : Antichain V same Dom l) : Antichain V same Dom (truncate feat l size larger) :=
  truncate_antichain feat size larger hA

/-! ## Non-vacuity: concrete instances -/

-- a history with a rejection (dominated newcomer), a repeat, and a newcomer that evicts two
-- non-adjacent members (positions 0 and 2 of the contents)
example :
    (addAll paretoCmp sameCosts []
      [⟨0, [1, 5], 0, 0⟩, ⟨1, [3, 3], 0, 0⟩, ⟨2, [2, 4], 0, 0⟩, ⟨3, [4, 4], 0, 0⟩,
       ⟨4, [3, 3], 0, 0⟩, ⟨5, [1, 4], 0, 0⟩, ⟨6, [0, 9], 1, 0⟩]).map
      (fun r => (r.1.map Ind.id, r.2)) =
    some ([1, 5], [true, true, true, false, false, true, false]) := by decide
-- hypotheses of the instances are satisfiable
example : ∀ x ∈ [(⟨0, [1, 5], 0, 0⟩ : Ind Int), ⟨1, [3, 3], 1, 0⟩], x.costs.length = 2 := by
  decide
example : PosEps [1/10, 1/10] := by
  refine ⟨by simp, ?_⟩
  intro e he
  simp at he
  subst he
  norm_num
-- the ε archive on the same history (as rationals) gives the same ids
example :
    (addAll (epsCmp [1/10, 1/10]) sameCosts []
      [⟨0, [1, 5], 0, 0⟩, ⟨1, [3, 3], 0, 0⟩, ⟨2, [2, 4], 0, 0⟩, ⟨3, [4, 4], 0, 0⟩,
       ⟨4, [3, 3], 0, 0⟩, ⟨5, [1, 4], 0, 0⟩, ⟨6, [0, 9], 1, 0⟩]).map
      (fun r => (r.1.map Ind.id, r.2)) =
    some ([1, 5], [true, true, true, false, false, true, false]) := by decide +kernel
-- truncate: larger preferred keeps the two largest features (stable among ties)
example : (truncate Ind.feat [(⟨0, [], 0, 3⟩ : Ind Int), ⟨1, [], 0, 7⟩, ⟨2, [], 0, 5⟩, ⟨3, [], 0, 7⟩] 2
    true).map Ind.id = [3, 1] := by
  simp [truncate, List.mergeSort, List.MergeSort.Internal.splitInTwo]

end Artap.C04
